#!/usr/bin/env python3
"""
./check Cnn [--tier quick|thorough] [--only NAME] [--keep] [--record] [--replay PATH] [--jobs N]

Runs every contract harness of a property (contracts/Cnn/*.c) through
  extract (engine/extract.py) -> goto-cc -> goto-instrument (--dfcc ...) -> cbmc
and decides:
  exit 0  every obligation discharged (KNOWN-FINDING lines printed for listed findings)
  exit 1  a named obligation that holds on the pinned tree now FAILS with a verifier trace:
          prints  VIOLATION property=<id> replay=<path> [no-failing-input-found]
  exit 2  undecided: extraction broke, timeout, tool error, unexpected failed side obligation
Evidence is written to evidence/<id>.json on every run.
"""
import os, sys, re, json, time, subprocess, shutil, argparse, hashlib, glob, concurrent.futures as cf

HERE = os.path.dirname(os.path.abspath(__file__))
VERIF = os.path.dirname(HERE)
sys.path.insert(0, HERE)
import extract as X

WORK = os.path.join(VERIF, '.work')
MEM_KB = int(os.environ.get('VERIF_MEM_KB', str(12 * 1024 * 1024)))

def parse_meta(path):
    txt = open(path).read()
    m = re.search(r'/\*VERIF\s*(\{.*?\})\s*VERIF\*/', txt, re.S)
    if not m:
        raise X.ExtractionError('%s: no /*VERIF {...} VERIF*/ header' % path)
    meta = json.loads(m.group(1))
    meta['name'] = os.path.splitext(os.path.basename(path))[0]
    meta['path'] = path
    return meta

def sh(cmd, timeout, cwd=None, mem=True, mem_kb=None):
    """run a tool under a wall-clock limit and a RESIDENT-memory watchdog.
    A plain `ulimit -v` makes the SAT solver's allocations fail and minisat/kissat then report dozens of
    nonsensical FAILED properties (measured); so the address-space limit is only a distant backstop (2x + 2 GB)
    and the process is killed -- result discarded, exit 2 -- as soon as its resident set exceeds the limit."""
    limit_kb = (mem_kb or MEM_KB)
    pre = 'ulimit -v %d; ' % (2 * limit_kb + 2 * 1024 * 1024) if mem else ''
    t0 = time.time()
    import threading
    p = subprocess.Popen(['bash', '-c', pre + 'exec "$@"', 'x'] + cmd, stdout=subprocess.PIPE, stderr=subprocess.PIPE, text=True, cwd=cwd)
    killed = {'why': None}
    def rss_kb(pid):
        try:
            tot = 0
            for q in [pid] + [int(x) for x in subprocess.run(['pgrep', '-P', str(pid)], capture_output=True, text=True).stdout.split()]:
                for ln in open('/proc/%d/status' % q):
                    if ln.startswith('VmRSS:'): tot += int(ln.split()[1])
            return tot
        except Exception:
            return 0
    def watch():
        while p.poll() is None:
            if time.time() - t0 > timeout:
                killed['why'] = 'TIMEOUT'; p.kill(); return
            if mem and rss_kb(p.pid) > limit_kb:
                killed['why'] = 'out of memory: resident set above %d kB (watchdog)' % limit_kb; p.kill(); return
            time.sleep(0.5)
    th = threading.Thread(target=watch, daemon=True); th.start()
    out, err = p.communicate()
    th.join(timeout=2)
    if killed['why'] == 'TIMEOUT':
        return -9, out or '', 'TIMEOUT', time.time() - t0
    if killed['why']:
        return -9, out or '', killed['why'], time.time() - t0
    return p.returncode, out, err, time.time() - t0

def classify(prop, ens_names, enforce):
    """-> (class, display name)"""
    name = prop.get('property', '')
    desc = prop.get('description', '')
    m = re.match(r'(.+)\.postcondition\.(\d+)$', name)
    if m:
        fn = m.group(1); k = int(m.group(2))
        nm = None
        lst = ens_names.get(fn) or []
        if 1 <= k <= len(lst):
            nm = lst[k - 1]
        return 'postcondition', '%s:%s' % (fn, nm or ('ensures#%d' % k))
    if desc == 'CANARY' or desc.startswith('REACH:'):
        return 'canary', name
    if desc.startswith('VA:'):
        return 'assertion', desc[3:]
    if 'crash path reached on valid input' in desc:
        return 'assertion', 'no-crash'
    if '.precondition.' in name or 'Check requires clause' in desc:
        return 'precondition', name
    if 'unwinding assertion' in desc or name.endswith('.unwind') or '.unwind.' in name:
        return 'unwind', name
    if 'no body' in desc or 'undefined function should be unreachable' in desc or 'no_body' in name:
        return 'nobody', name + ' ' + desc
    if '.assigns.' in name or 'is assignable' in desc:
        return 'frame', name
    if 'loop_invariant' in name or 'loop invariant' in desc or 'loop_assigns' in name or 'loop_decreases' in name or 'loop_step' in name:
        return 'loop', name
    if 'pointer' in name or 'pointer' in desc:
        return 'memory', name
    if 'bounds' in name or 'bounds' in desc:
        return 'memory', name
    if 'overflow' in name:
        return 'overflow', name
    return 'other', name

def RUN_DIR(prop_id, keep):
    """scratch directory of this run: private to the process, so concurrent runs of the same property (quick and
    thorough, or a seeded-change trial) cannot clobber each other; --keep uses the stable name"""
    return prop_id if keep else '%s.%d' % (prop_id, os.getpid())

def run_harness(meta, prop_id, keep=False):
    """returns a result dict"""
    name = meta['name']
    wd = os.path.join(WORK, RUN_DIR(prop_id, keep), name + ('.case%d' % meta['_case'] if meta.get('_case') is not None else ''))
    shutil.rmtree(wd, ignore_errors=True)
    os.makedirs(wd)
    res = dict(harness=name, status='error', obligations=0, discharged=0, failed=[], named_ok=[], notes=[],
               solver_s=0.0, total_s=0.0, bounded=meta.get('bounded'), enforce=meta.get('enforce'),
               replace=meta.get('replace', []), tu=meta.get('tu'), case=meta.get('_case'))
    t0 = time.time()
    try:
        ex = X.extract(meta, meta['path'], wd)
    except X.ExtractionError as e:
        res['notes'].append('extraction: %s' % e)
        res['total_s'] = time.time() - t0
        return res
    res['extract'] = {k: ex[k] for k in ('fired', 'kept', 'kept_hashes', 'harness_funcs', 'overridden', 'leftover_block_literals')}
    # must-fire accounting
    for rule, want in (meta.get('must_fire') or {}).items():
        got = ex['fired'].get(rule, 0)
        if got != want:
            res['notes'].append('rule %s fired %d times, harness expects %d' % (rule, got, want))
            res['total_s'] = time.time() - t0
            return res
    for fn in meta.get('must_keep', []) + ([meta['enforce']] if meta.get('enforce') and meta.get('tu') else []):
        if fn not in ex['kept']:
            res['notes'].append('function %s not found in the real source (renamed/removed?)' % fn)
            res['total_s'] = time.time() - t0
            return res
    entry = meta.get('entry', 'harness')
    gb = os.path.join(wd, 'a.gb')
    rc, out, err, dt = sh(['goto-cc', '--function', entry, ex['text_path'], '-o', gb], 300)
    if rc != 0:
        errl = [l[:300] for l in (err + out).splitlines() if 'error' in l.lower()]
        res['notes'].append('goto-cc failed: ' + (' | '.join(errl[:4]) if errl else (err or out)[-800:]))
        res['total_s'] = time.time() - t0
        return res
    cur = gb
    if meta.get('nondet_volatile'):
        nv = os.path.join(wd, 'nv.gb')
        rc, out, err, dt = sh(['goto-instrument', '--nondet-volatile', cur, nv], 300)
        if rc != 0:
            res['notes'].append('goto-instrument --nondet-volatile failed: ' + (err or out)[-1500:])
            res['total_s'] = time.time() - t0
            return res
        cur = nv
    if meta.get('unwind_fns') and not meta.get('plain'):
        # loops WITHOUT contracts must be unwound before the contract instrumentation (DFCC tracks
        # locals per static DECL; unwinding afterwards makes later iterations fail the frame checks)
        try:
            ex_lines = open(os.path.join(wd, 'extracted.c'), errors='replace').read().split('\n')
        except Exception:
            ex_lines = []
        rc, out, err, dt = sh(['goto-instrument', '--show-loops', '--json-ui', cur], 120)
        names = []
        try:
            for it in json.loads(out):
                for lp in it.get('loops', []):
                    fn = lp.get('sourceLocation', {}).get('function', '')
                    if fn in meta['unwind_fns']:
                        # a loop that carries a loop contract (the model's os_atomic_rmw_loop, side-car contracts) stays for --apply-loop-contracts:
                        # unwinding it first leaves the instrumentation with a half-unwound contract loop (garbage values, seen on
                        # _dispatch_workloop_barrier_complete)
                        ln = lp.get('sourceLocation', {}).get('line')
                        try:
                            src_line = ex_lines[int(ln) - 1] if ln else ''
                        except Exception:
                            src_line = ''
                        if '__CPROVER_loop_invariant' in src_line:
                            continue
                        names.append(lp.get('name'))
        except Exception:
            pass
        if names:
            u = os.path.join(wd, 'unw.gb')
            rc, out, err, dt = sh(['goto-instrument', '--unwindset', ','.join('%s:%d' % (n, int(meta.get('unwind', 8))) for n in names),
                                   '--unwinding-assertions', cur, u], 300)
            if rc != 0:
                res['notes'].append('goto-instrument --unwindset failed: ' + (out + err)[-800:])
                res['total_s'] = time.time() - t0
                return res
            cur = u
    gi_cmd = None
    if (meta.get('enforce') or meta.get('replace') or meta.get('loop_contracts')) and not meta.get('plain'):
        b = os.path.join(wd, 'b.gb')
        gi_cmd = ['goto-instrument', '--dfcc', entry]
        if meta.get('enforce'):
            gi_cmd += ['--enforce-contract', meta['enforce']]
        for g in meta.get('replace', []):
            gi_cmd += ['--replace-call-with-contract', g]
        if not meta.get('no_loop_contracts'):
            gi_cmd += ['--apply-loop-contracts']
        gi_cmd += meta.get('gi_flags', [])
        gi_cmd += [cur, b]
        rc, out, err, dt = sh(gi_cmd, 600)
        if rc != 0:
            res['notes'].append('goto-instrument --dfcc failed: ' + (out + err)[-2500:])
            res['total_s'] = time.time() - t0
            return res
        cur = b
    tmo = int(meta.get('timeout', 120))
    cb_cmd = ['cbmc', '--json-ui'] + meta.get('cbmc_flags', [])
    if meta.get('sat'):
        cb_cmd += ['--external-sat-solver', meta['sat']]
    res['backend'] = 'cbmc 6.11.0 SAT (%s)' % (meta.get('sat') or 'minisat2')
    if meta.get('bounded') and meta['bounded'].get('unwind'):
        cb_cmd += ['--unwind', str(meta['bounded']['unwind']), '--unwinding-assertions']
    elif meta.get('unwind'):
        # loops that are complete at this bound (checked by unwinding assertions).  A global --unwind
        # cuts the instrumented loop-contract code as well, so the bound is given per remaining loop.
        if gi_cmd:
            rc2, out2, err2, _ = sh(['cbmc', '--show-loops', '--json-ui', cur], 120)
            names = []
            try:
                for it in json.loads(out2):
                    for lp in it.get('loops', []):
                        fn = lp.get('sourceLocation', {}).get('function', '')
                        if not fn.startswith('__CPROVER'):
                            names.append(lp.get('name'))
            except Exception:
                pass
            if names:
                cb_cmd += ['--unwindset', ','.join('%s:%d' % (n, int(meta['unwind'])) for n in names)]
            cb_cmd += ['--unwinding-assertions']
        else:
            cb_cmd += ['--unwind', str(meta['unwind']), '--unwinding-assertions']
    cb_cmd += [cur]
    rc, out, err, dt = sh(cb_cmd, tmo, mem_kb=(int(meta['mem_gb']) * 1024 * 1024 if meta.get('mem_gb') else None))
    res['solver_s'] = round(dt, 2)
    res['checker_cmd'] = ' '.join((gi_cmd or []) + ['&&'] + cb_cmd) if gi_cmd else ' '.join(cb_cmd)
    if rc == -9:
        res['status'] = 'timeout'
        res['notes'].append('cbmc timeout after %ds' % tmo)
        res['total_s'] = time.time() - t0
        return res
    try:
        js = json.loads(out)
    except Exception as e:
        res['notes'].append('cbmc output not JSON (rc=%s): %s' % (rc, (out + err)[-1500:]))
        res['total_s'] = time.time() - t0
        return res
    results = None; msgs = []
    for item in js:
        if 'result' in item:
            results = item['result']
        if item.get('messageType') in ('ERROR', 'WARNING'):
            msgs.append(item.get('messageText', ''))
    allmsgs = ' '.join(str(item.get('messageText', '')) for item in js if isinstance(item, dict))
    if 'out of memory' in allmsgs.lower() or 'bad_alloc' in allmsgs.lower() or 'memory' in (err or '').lower():
        res['status'] = 'error'
        res['notes'].append('cbmc/SAT solver ran out of memory (ulimit -v %d kB): results discarded' % MEM_KB)
        res['total_s'] = time.time() - t0
        return res
    ignoring = [m for m in msgs if 'ignoring' in m]
    if ignoring:
        res['notes'].append('cbmc ignored constructs: ' + '; '.join(ignoring[:3]))
    if results is None:
        res['notes'].append('cbmc produced no results (rc=%s): %s' % (rc, ' | '.join(msgs)[-1500:]))
        res['total_s'] = time.time() - t0
        return res
    res['obligations'] = len(results)
    by_class = {}
    reach = {}
    for p in results:
        cls, disp = classify(p, ex['ens_names'], meta.get('enforce'))
        if cls == 'canary':
            nm = p.get('description', 'CANARY')
            reach[nm] = reach.get(nm, False) or (p['status'] != 'SUCCESS')
            res['obligations'] -= 1
            continue
        by_class[cls] = by_class.get(cls, 0) + 1
        if p['status'] == 'SUCCESS':
            res['discharged'] += 1
            if cls in ('postcondition', 'assertion'):
                res['named_ok'].append(disp)
        else:
            res['failed'].append(dict(cls=cls, name=disp, property=p.get('property'), description=p.get('description'),
                                      status=p['status'], loc=p.get('sourceLocation', {})))
    res['by_class'] = by_class
    res['ens_names'] = ex['ens_names']
    res['reach'] = reach
    # in case mode the REACH points are aggregated over the cases (merge_cases); the end of the
    # harness (CANARY) must be reachable in every run
    must = [k for k in reach if k == 'CANARY' or not meta.get('_case_mode')]
    if 'CANARY' not in reach or any(not reach[k] for k in must):
        res['notes'].append('vacuity guard: unreachable: %s (harness end / premise unreachable: contradictory requires/assume?)' % ([k for k in must if not reach[k]] or 'no canary'))
        # a premise that became unreachable together with failed named obligations is a behaviour change, reported
        # through those obligations; alone it only means the run proves nothing
        if not ('CANARY' in reach and reach['CANARY'] and any(f['cls'] in ('postcondition', 'assertion') for f in res['failed'])):
            res['status'] = 'error'
            res['total_s'] = time.time() - t0
            return res
    # vacuity / completeness guards
    want_named = (ex['ens_names'].get(meta.get('enforce')) or []) if meta.get('enforce') else []
    got_post = by_class.get('postcondition', 0)
    if meta.get('enforce') and not meta.get('plain') and got_post != len(want_named):
        res['notes'].append('contract has %d named ensures clauses but cbmc reports %d postcondition obligations' % (len(want_named), got_post))
        res['status'] = 'error'
        res['total_s'] = time.time() - t0
        return res
    if (ex.get('n_loop_contracts') or meta.get('expect_loop_obligations')) and by_class.get('loop', 0) == 0:
        # an invariant `1` with a statically included frame generates no obligations; then at least no
        # loop of the annotated functions may be left for unwinding
        rc2, out2, err2, _ = sh(['cbmc', '--show-loops', '--json-ui', cur], 120)
        left = []
        try:
            for it in json.loads(out2):
                for lp in it.get('loops', []):
                    fn = lp.get('sourceLocation', {}).get('function', '')
                    if not fn.startswith('__CPROVER'):
                        left.append(lp.get('name'))
        except Exception:
            left = ['?']
        if left and not (meta.get('unwind') or meta.get('bounded')):
            res['notes'].append('loop contract annotated but loops remain un-contracted: %s' % left[:4])
            # cbmc terminated, so every remaining loop was unrolled to completion: a failed obligation is a real
            # path of the code (e.g. a change made the loop body leave on its first pass).  Without a failure the
            # run is not accepted as a proof "for any number of iterations": undecided.
            if not any(f['cls'] in ('postcondition', 'assertion', 'precondition') for f in res['failed']):
                res['status'] = 'error'
                res['total_s'] = time.time() - t0
                return res
    res['status'] = 'pass' if not res['failed'] else 'fail'
    if res['failed']:
        # get a trace for the first deciding failure
        res['cbmc_bin'] = cur
        res['cb_cmd'] = cb_cmd
    res['workdir'] = wd
    res['total_s'] = round(time.time() - t0, 2)
    return res

def merge_cases(results):
    """a harness run as N cases (a partition of its input domain by -DVERIF_CASE=k) is one result:
    every case must pass; a REACH point must be reachable in at least one case"""
    out = []; groups = {}
    for r in results:
        if r.get('case') is None:
            out.append(r)
        else:
            groups.setdefault(r['harness'], []).append(r)
    for h, rs in groups.items():
        rs.sort(key=lambda r: r['case'])
        m = dict(rs[0])
        m['obligations'] = sum(r['obligations'] for r in rs)
        m['discharged'] = sum(r['discharged'] for r in rs)
        m['solver_s'] = round(sum(r['solver_s'] for r in rs), 2)
        m['total_s'] = round(max(r['total_s'] for r in rs), 2)
        m['failed'] = []; seen = set()
        for r in rs:
            for f in r['failed']:
                if (f['cls'], f['name']) not in seen:
                    seen.add((f['cls'], f['name'])); f = dict(f); f['case'] = r['case']; m['failed'].append(f)
        m['named_ok'] = sorted(set.intersection(*[set(r['named_ok']) for r in rs])) if all(r['status'] in ('pass', 'fail') for r in rs) else []
        m['notes'] = ['%d cases' % len(rs)] + sorted(set(n for r in rs for n in r['notes']))[:4]
        bad = [r for r in rs if r['status'] in ('error', 'timeout')]
        reach = {}
        for r in rs:
            for k, v in (r.get('reach') or {}).items():
                reach[k] = reach.get(k, False) or v
        unreached = [k for k, v in reach.items() if not v]
        if bad:
            m['status'] = bad[0]['status']
        elif unreached and not ('CANARY' not in unreached and any(f['cls'] in ('postcondition', 'assertion') for f in m['failed'])):
            m['status'] = 'error'; m['notes'].append('vacuity guard: never reachable in any case: %s' % unreached)
        elif unreached:
            # same rule as a single run: a premise that became unreachable TOGETHER with failed named obligations is a
            # behaviour change, reported through those obligations (their counterexamples are real traces)
            m['status'] = 'fail'; m['notes'].append('vacuity guard: never reachable in any case: %s (reported through the failed obligations)' % unreached)
        else:
            m['status'] = 'pass' if not m['failed'] else 'fail'
        fr = [r for r in rs if r['failed']]
        if fr:
            m['cb_cmd'] = fr[0].get('cb_cmd'); m['cbmc_bin'] = fr[0].get('cbmc_bin')
        m['case'] = None
        out.append(m)
    return out

def canary(meta, prop_id):
    """reachability canary: the harness' `VERIF_REACH()` cover points must be reachable"""
    return None

def get_trace(res, failed, tmo=120):
    cmd = list(res['cb_cmd'])
    binp = cmd[-1]
    cmd = cmd[:-1] + ['--trace', '--property', failed['property'], binp]
    rc, out, err, dt = sh(cmd, tmo)
    try:
        js = json.loads(out)
    except Exception:
        return None, (out + err)[-3000:]
    nd = []; text = []
    for item in js:
        if 'result' in item:
            for p in item['result']:
                if p.get('property') == failed['property'] and 'trace' in p:
                    for st in p['trace']:
                        if st.get('stepType') == 'assignment':
                            lhs = st.get('lhs', '')
                            val = st.get('value', {})
                            if (lhs == '__verif_nd_v' or lhs.endswith('::__verif_nd_v')):
                                if not st.get('hidden'):
                                    nd.append(str(int(val['binary'], 2)) if val.get('binary') else val.get('data'))
                                continue
                            if lhs.startswith('__verif_log') or lhs.startswith('__CPROVER') or lhs.startswith('__dfcc'):
                                continue
                            if st.get('assignmentType') in ('variable', 'actual-parameter') and not st.get('hidden'):
                                fn = st.get('sourceLocation', {}).get('function', '')
                                text.append('%s: %s = %s' % (fn, lhs, val.get('data', val.get('binary', '?'))))
    return dict(nd=nd, steps=text[-400:]), None

def load_known():
    p = os.path.join(VERIF, 'known_findings.json')
    if os.path.exists(p):
        return json.load(open(p))
    return dict(findings=[])

def load_baseline(prop_id):
    """recorded named obligations per harness.  A harness may serve several properties; an obligation recorded
    under ANY of them held on the pinned tree, so the union over all baseline files is used for the harnesses
    of this property (harness names are unique across contracts/)."""
    bl = {}
    for q in sorted(glob.glob(os.path.join(VERIF, 'baseline', 'C*.json'))):
        try: other = json.load(open(q))
        except Exception: continue
        for h, names in other.items():
            bl[h] = sorted(set(bl.get(h, [])) | set(names))
    return bl or None

def main():
    ap = argparse.ArgumentParser()
    ap.add_argument('prop')
    ap.add_argument('--tier', default=os.environ.get('VERIF_TIER', 'quick'))
    ap.add_argument('--only')
    ap.add_argument('--keep', action='store_true')
    ap.add_argument('--record', action='store_true', help='record the named obligations that hold now as the baseline')
    ap.add_argument('--replay')
    ap.add_argument('--jobs', type=int, default=int(os.environ.get('VERIF_JOBS', '16')))
    ap.add_argument('--no-evidence', action='store_true')
    ap.add_argument('--show-trace', action='store_true')
    args = ap.parse_args()
    prop = args.prop
    seed = int(os.environ.get('VERIF_SEED', '0') or 0)
    t0 = time.time()
    if args.replay:
        import replay as R
        sys.exit(R.replay_file(args.replay))
    files = sorted(glob.glob(os.path.join(VERIF, 'contracts', 'C*', '*.c')))
    metas = []
    for f in files:
        try:
            m = parse_meta(f)
        except Exception as e:
            print('BROKEN harness header %s: %s' % (f, e)); sys.exit(2)
        home = os.path.basename(os.path.dirname(f))
        if prop != home and prop not in m.get('props', []): continue
        if args.only and m['name'] != args.only: continue
        if m.get('tier', 'quick') == 'thorough' and args.tier != 'thorough': continue
        if m.get('disabled'): continue
        metas.append(m)
    if not metas:
        print('no harnesses for %s' % prop); sys.exit(2)
    results = []
    jobs = []
    for m in metas:
        if m.get('cases'):
            for k in (m.get('case_only') or range(int(m['cases']))):
                mk = dict(m); mk['_case_mode'] = True; mk['_case'] = k
                mk['cppflags'] = list(m.get('cppflags', [])) + ['-DVERIF_CASE=%d' % k, '-DVERIF_NCASES=%d' % int(m['cases'])]
                jobs.append(mk)
        else:
            jobs.append(m)
    with cf.ThreadPoolExecutor(max_workers=args.jobs) as ex:
        futs = {ex.submit(run_harness, m, prop, args.keep): m for m in jobs}
        for fu in cf.as_completed(futs):
            try:
                results.append(fu.result())
            except Exception as e:
                m = futs[fu]
                results.append(dict(harness=m['name'], status='error', obligations=0, discharged=0, failed=[], named_ok=[],
                                    notes=['runner exception: %r' % e], solver_s=0, total_s=0, bounded=m.get('bounded')))
    results = merge_cases(results)
    results.sort(key=lambda r: r['harness'])
    baseline = load_baseline(prop)
    known = load_known()
    if args.record:
        os.makedirs(os.path.join(VERIF, 'baseline'), exist_ok=True)
        bl = {r['harness']: sorted(r['named_ok']) for r in results if r['status'] == 'pass'}
        # keep what was recorded for harnesses that did not run this time (other tier, --only): only the file of
        # THIS property is rewritten, entries of harnesses that ran are replaced
        own_path = os.path.join(VERIF, 'baseline', prop + '.json')
        own = json.load(open(own_path)) if os.path.exists(own_path) else {}
        own.update(bl); bl = own
        json.dump(bl, open(os.path.join(VERIF, 'baseline', prop + '.json'), 'w'), indent=1, sort_keys=True)
        # a harness that is re-recorded may have renamed or dropped obligations: its entries in the files of the OTHER properties are
        # obsolete (the union of load_baseline would keep asking for the old names); this property's file now carries it
        ran = set(r['harness'] for r in results if r['status'] == 'pass')
        for q in glob.glob(os.path.join(VERIF, 'baseline', 'C*.json')):
            if q == own_path: continue
            try: other = json.load(open(q))
            except Exception: continue
            if ran & set(other):
                for h in ran: other.pop(h, None)
                json.dump(other, open(q, 'w'), indent=1, sort_keys=True)
        baseline = bl
    violations = []; undecided = []; known_hits = []
    metas_by = {m['name']: m for m in metas}
    for r in results:
        meta = metas_by[r['harness']]
        if r['status'] in ('error', 'timeout'):
            undecided.append((r['harness'], '; '.join(r['notes'])[:600]))
            continue
        # named obligations that were recorded must still exist
        if baseline is not None and r['harness'] in baseline:
            present = set(r['named_ok']) | set(f['name'] for f in r['failed'])
            missing = [n for n in baseline[r['harness']] if n not in present]
            if missing:
                undecided.append((r['harness'], 'recorded obligations disappeared: %s' % missing[:5]))
        deciding = set(meta.get('deciding', ['postcondition', 'assertion', 'precondition']))
        for f in r['failed']:
            if f['cls'] in deciding:
                rec = baseline is not None and r['harness'] in baseline and (f['name'] in baseline[r['harness']] or f['cls'] not in ('postcondition', 'assertion'))
                kf = [k for k in known.get('findings', []) if k.get('status') == 'known' and k['property'] == prop
                      and k.get('harness') == r['harness'] and k.get('obligation') == f['name']]
                if kf:
                    known_hits.append((kf[0], r['harness'], f))
                elif rec:
                    violations.append((r, f))
                else:
                    undecided.append((r['harness'], 'obligation %s fails but is not in the recorded baseline' % f['name']))
            else:
                undecided.append((r['harness'], 'side obligation failed [%s] %s: %s' % (f['cls'], f['property'], (f['description'] or '')[:160])))
    # report
    for r in results:
        print('%-44s %-8s %4d/%-4d obligations  solver %.1fs%s%s' % (
            r['harness'], r['status'], r['discharged'], r['obligations'], r['solver_s'],
            '  [bounded %s]' % json.dumps(r['bounded']) if r.get('bounded') else '',
            ('  ' + '; '.join(r['notes'])[:300]) if r['notes'] else ''))
        for f in r['failed'][:8]:
            print('      FAILED [%s] %s  (%s)%s' % (f['cls'], f['name'][:120], (f.get('description') or '')[:100], ('  [case %s]' % f['case']) if f.get('case') is not None else ''))
    if args.show_trace:
        for r in results:
            for f in r['failed'][:4]:
                tr, terr = get_trace(r, f)
                print('--- trace for', f['name']); print(json.dumps(tr, indent=0)[:3000] if tr else terr)
    for k, h, f in known_hits:
        print('KNOWN-FINDING: property=%s %s (harness %s obligation %s)' % (prop, k.get('what', ''), h, f['name']))
    exit_code = 0
    vio_out = []
    if violations:
        os.makedirs(os.path.join(VERIF, 'replays', prop), exist_ok=True)
        import replay as R
        for r, f in violations:
            tr, terr = get_trace(r, f)
            rp = os.path.join(VERIF, 'replays', prop, '%s.%s.json' % (r['harness'], re.sub(r'[^A-Za-z0-9_.-]', '_', f['name'])))
            doc = dict(property=prop, harness=r['harness'], harness_path=metas_by[r['harness']]['path'], obligation=f['name'],
                       cbmc_property=f['property'],
                       description=f['description'], location=f['loc'], checker_cmd=r.get('checker_cmd'),
                       counterexample=tr, verifier_error=terr)
            suffix = ''
            native = None
            if tr and metas_by[r['harness']].get('replayable', True):
                try:
                    native = R.native_replay(metas_by[r['harness']], prop, tr['nd'], f['name'])
                except Exception as e:
                    native = dict(status='error', detail=repr(e))
            doc['native_replay'] = native
            if not tr or not tr.get('nd'):
                if not tr or not tr.get('steps'):
                    suffix = ' no-failing-input-found'
            json.dump(doc, open(rp, 'w'), indent=1)
            line = 'VIOLATION property=%s replay=%s%s' % (prop, rp, suffix)
            print(line + '   # harness=%s obligation=%s native=%s' % (r['harness'], f['name'], (native or {}).get('status')))
            vio_out.append(line)
        exit_code = 1
    if undecided and exit_code == 0:
        exit_code = 2
    for h, why in undecided:
        print('UNDECIDED %s: %s' % (h, why))
    # evidence
    if not args.no_evidence and not args.only:
        write_evidence(prop, args.tier, seed, results, metas_by, violations, undecided, known_hits, time.time() - t0)
    if not args.keep:
        shutil.rmtree(os.path.join(WORK, RUN_DIR(prop, False)), ignore_errors=True)
    print('%s: %s  (%d harnesses, %.1fs)' % (prop, {0: 'PASS', 1: 'VIOLATION', 2: 'UNDECIDED'}[exit_code], len(results), time.time() - t0))
    sys.exit(exit_code)

def scan_trusted(metas_by, results):
    """generated, not hand-maintained: stubs, assumes, relies, replaced contracts"""
    tb = []
    for r in results:
        m = metas_by[r['harness']]
        txt = open(m['path']).read()
        n_assume = len(re.findall(r'__CPROVER_assume', txt))
        ov = (r.get('extract') or {}).get('overridden') or []
        if ov:
            tb.append('%s: harness stubs replace real callees %s (their behaviour is an assumption: %s)' % (r['harness'], ov, m.get('stub_note', 'see harness')))
        if m.get('replace'):
            tb.append('%s: callees replaced by their contracts: %s' % (r['harness'], m['replace']))
        if n_assume:
            tb.append('%s: %d __CPROVER_assume in harness (input validity / rely)' % (r['harness'], n_assume))
        for a in m.get('assumes', []):
            tb.append('%s: %s' % (r['harness'], a))
    return tb

def write_evidence(prop, tier, seed, results, metas_by, violations, undecided, known_hits, wall):
    proved = [r for r in results if not r.get('bounded')]
    bounded = [r for r in results if r.get('bounded')]
    obl = sum(r['obligations'] for r in proved)
    dis = sum(r['discharged'] for r in proved)
    samples = []
    for r in proved[:6]:
        for n in r['named_ok'][:3]:
            samples.append('%s :: %s' % (r['harness'], n))
    funcs = {}
    for r in results:
        e = r.get('extract') or {}
        for fn in e.get('kept', []):
            funcs.setdefault(fn, dict(hash=e.get('kept_hashes', {}).get(fn), harnesses=[]))['harnesses'].append(r['harness'])
    tb = scan_trusted(metas_by, results)
    tb += ['atomics: src/shims/atomic.h replaced by model/verif_model.h (loads arbitrary under interference; each RMW one logged commit); C11 memory model itself trusted',
           'machine arithmetic: 64-bit two\'s-complement bit-vectors (CBMC), not mathematical integers',
           'extraction: clang -E of the real TU + textual rules (see DESIGN.md section 2); Blocks ABI dropped']
    level = 'proof' if proved else 'other'
    cov = dict(obligations=obl, discharged=dis,
               checker_cmd='goto-cc | goto-instrument --dfcc <harness> --enforce-contract <f> [--replace-call-with-contract g] --apply-loop-contracts | cbmc (minisat2, CBMC 6.11.0); per harness: ' + '; '.join(sorted(set((r.get('checker_cmd') or '')[:160] for r in results[:3]))),
               trusted_base=tb, samples=samples or ['(none)'],
               explanation='contract-based deductive verification (CBMC DFCC) of mechanically extracted real functions; bounded stand-ins listed separately and not counted',
               functions_under_contract=sorted(set(r['enforce'] for r in results if r.get('enforce'))),
               functions_verified_text=funcs,
               harnesses=[dict(name=r['harness'], status=r['status'], enforce=r.get('enforce'), replace=r.get('replace'), tu=r.get('tu'),
                               obligations=r['obligations'], discharged=r['discharged'], by_class=r.get('by_class'),
                               named=r['named_ok'], solver_s=r['solver_s'], total_s=r['total_s'], backend=r.get('backend', 'cbmc 6.11.0 SAT (minisat2)'),
                               bounded=r.get('bounded'), notes=r['notes']) for r in results],
               bounded=[dict(harness=r['harness'], bound=r['bounded'], obligations=r['obligations'], discharged=r['discharged']) for r in bounded],
               solver_time_s=round(sum(r['solver_s'] for r in results), 2),
               undecided=[dict(harness=h, why=w) for h, w in undecided],
               known_findings=[k.get('what') for k, _, _ in known_hits])
    ev = dict(property_id=prop, tier=tier if tier in ('quick', 'thorough') else 'quick', seed=seed, level=level, coverage=cov,
              assumptions=tb, wall_s=round(wall, 2), violations=len(violations))
    os.makedirs(os.path.join(VERIF, 'evidence'), exist_ok=True)
    json.dump(ev, open(os.path.join(VERIF, 'evidence', prop + '.json'), 'w'), indent=1)

if __name__ == '__main__':
    main()
