#!/usr/bin/env python3
"""
Mechanical extraction of real libdispatch functions for CBMC (see DESIGN.md section 2).

  preprocess(wrapper TU with the project's flags + verification model)
  -> slice (bodies kept only for the static call closure of the harness)
  -> rewrite rules on the remaining text (each rule counts how often it fired)

Nothing here knows anything about a particular function: the rules are textual and
their firing counts are reported so that the runner can compare them with the
harness' expectations ("must fire").
"""
import os, re, subprocess, sys, json, hashlib

REPO = os.environ.get('VERIF_REPO', '/repo')
VERIF = os.path.dirname(os.path.dirname(os.path.abspath(__file__)))

class ExtractionError(Exception):
    pass

def repo_flags():
    """-D/-I flags of the dispatch target, read from the build tree when present."""
    defines = ['-DDISPATCH_USE_DTRACE=0', '-DHAVE_CONFIG_H', '-D_GNU_SOURCE=1', '-Ddispatch_EXPORTS', '-DNDEBUG']
    incs = None
    ninja = os.path.join(REPO, '_build', 'build.ninja')
    if os.path.exists(ninja):
        txt = open(ninja, errors='replace').read()
        m = re.search(r'build src/CMakeFiles/dispatch\.dir/time\.c\.o:.*?\n((?:  .*\n)+)', txt)
        if m:
            blk = m.group(1)
            d = re.search(r'DEFINES = (.*)', blk)
            f = re.search(r'FLAGS = (.*)', blk)
            i = re.search(r'INCLUDES = (.*)', blk)
            if d:
                defines = d.group(1).split()
            if f:
                defines += [x for x in f.group(1).split() if x.startswith('-D') or x.startswith('-std=')]
            if i:
                incs = i.group(1).split()
    cfg = os.path.join(REPO, '_build', 'config', 'config_ac.h')
    if incs is None or not os.path.exists(cfg):
        # fall back to the copy of the generated configuration header kept in /verif
        fb = os.path.join(VERIF, 'model', 'config_fallback')
        incs = ['-I' + fb, '-I' + REPO, '-I' + os.path.join(REPO, 'src'), '-I' + os.path.join(REPO, 'private'),
                '-I' + os.path.join(REPO, 'src', 'BlocksRuntime')]
    if not any(x.startswith('-std=') for x in defines):
        defines.append('-std=gnu11')
    return defines + incs

def find_clang():
    for c in ('clang-16', 'clang', 'clang-14'):
        p = subprocess.run(['which', c], capture_output=True, text=True).stdout.strip()
        if p:
            return p
    raise ExtractionError('no clang found')

def preprocess(wrapper_path, out_path, extra, native=False):
    cmd = [find_clang()] + repo_flags() + [
        '-fblocks'] + ([] if native else ['-fgnuc-version=12.2.0']) + ['-D_Nullable=', '-D_Nonnull=', '-D_Null_unspecified=',
        '-D__builtin_assume(x)=__verif_compiler_hint(x)',
        '-include', os.path.join(VERIF, 'model', 'verif_model.h'),
        '-I' + os.path.join(VERIF, 'model'), '-I' + VERIF,
    ] + extra + ['-E', '-P', wrapper_path, '-o', out_path]
    r = subprocess.run(cmd, capture_output=True, text=True)
    if r.returncode != 0:
        raise ExtractionError('preprocess failed: ' + r.stderr[-3000:])
    return cmd

# ---------------------------------------------------------------------------------------
TOK_RE = re.compile(r'"(?:\\.|[^"\\])*"|\'(?:\\.|[^\'\\])*\'|[A-Za-z_]\w*|\d[\w.]*|\S', re.S)
IDENT_RE = re.compile(r'[A-Za-z_]\w*$')

def tokenize(src):
    return [(m.group(0), m.start(), m.end()) for m in TOK_RE.finditer(src)]

def find_functions(toks):
    """top-level function definitions: (name, decl_start_tok, body_start_tok, body_end_tok)"""
    funcs = []
    depth = 0; i = 0; n = len(toks); stmt_start = 0; pdepth = 0
    while i < n:
        t = toks[i][0]
        if depth == 0 and pdepth == 0 and t == ';':
            stmt_start = i + 1
        if t == '(':
            pdepth += 1
        elif t == ')':
            pdepth -= 1
        elif t == '{':
            if depth == 0 and pdepth == 0:
                prev = toks[i - 1][0]
                d = 0; j = i
                while j < n:
                    if toks[j][0] == '{': d += 1
                    elif toks[j][0] == '}':
                        d -= 1
                        if d == 0: break
                    j += 1
                if prev == ')':
                    k = i - 1
                    name = None
                    while True:
                        pd = 0
                        while k >= 0:
                            if toks[k][0] == ')': pd += 1
                            elif toks[k][0] == '(':
                                pd -= 1
                                if pd == 0: break
                            k -= 1
                        name = toks[k - 1][0]
                        if name in ('__attribute__', '__attribute', '__asm__', 'asm', '__asm',
                                    '__CPROVER_requires', '__CPROVER_ensures', '__CPROVER_assigns'):
                            k -= 2
                            continue
                        break
                    if name and IDENT_RE.match(name):
                        funcs.append((name, stmt_start, i, j))
                    i = j
                    stmt_start = j + 1
                else:
                    i = j
            else:
                depth += 1
        elif t == '}':
            depth -= 1
        i += 1
    return funcs

def match_close(s, i, o, c):
    """index of the character closing the bracket opened at s[i]==o (skips string/char literals)"""
    d = 0; n = len(s)
    while i < n:
        ch = s[i]
        if ch == o: d += 1
        elif ch == c:
            d -= 1
            if d == 0: return i
        elif ch == '"' or ch == "'":
            q = ch; i += 1
            while s[i] != q:
                if s[i] == '\\': i += 1
                i += 1
        i += 1
    raise ExtractionError('unbalanced %s%s' % (o, c))

def slice_text(src, roots, stops, marker='__VERIF_HARNESS_BEGIN'):
    """Keep bodies only for the call closure of the harness functions and `roots`;
    every other function definition becomes a prototype.  Functions defined after the
    marker (harness stubs) override library functions of the same name."""
    toks = tokenize(src)
    funcs = find_functions(toks)
    mk = src.find(marker)
    if mk < 0:
        raise ExtractionError('harness marker missing')
    hfuncs = [f for f in funcs if toks[f[1]][1] > mk]
    lfuncs = [f for f in funcs if toks[f[1]][1] <= mk]
    hnames = set(f[0] for f in hfuncs)
    byname = {}
    for f in lfuncs:
        if f[0] in hnames: continue
        byname.setdefault(f[0], []).append(f)
    roots = set(roots)
    for f in hfuncs:
        byname.setdefault(f[0], []).append(f); roots.add(f[0])
    keep = set(); work = list(roots)
    while work:
        r = work.pop()
        if r in keep or r not in byname: continue
        if r in stops and r not in hnames: continue
        keep.add(r)
        for f in byname[r]:
            for t in toks[f[2]:f[3] + 1]:
                idn = t[0]
                if idn in byname and idn not in keep and IDENT_RE.match(idn):
                    work.append(idn)
    out = []; pos = 0
    kept_bodies = {}
    for f in funcs:
        name, ds, bs, be = f
        is_h = toks[ds][1] > mk
        if name in keep and (is_h or name not in hnames):
            if not is_h:
                kept_bodies[name] = src[toks[bs][1]:toks[be][2]]
            continue
        out.append(src[pos:toks[bs][1]]); out.append(';')
        pos = toks[be][2]
    out.append(src[pos:])
    overridden = sorted(n for n in hnames if any(f[0] == n for f in lfuncs))
    return ''.join(out), kept_bodies, sorted(hnames), overridden

# ---------------------------------------------------------------------------------------
# rewrite rules (on the sliced text)

def rule_named(s):
    """__VERIF_CONTRACT_OF(f) marks the start of f's contract (removed);
    __VERIF_NAMED(name, (e)) -> (e); returns {function: [names of its ensures clauses in order]}."""
    names = {}
    cur = None
    out = []; pos = 0
    for m in re.finditer(r'__VERIF_(NAMED|CONTRACT_OF)\s*\(', s):
        if m.start() < pos: continue
        op = m.end() - 1
        cl = match_close(s, op, '(', ')')
        inner = s[op + 1:cl]
        if m.group(1) == 'CONTRACT_OF':
            cur = inner.strip()
            names.setdefault(cur, [])
            out.append(s[pos:m.start()])
            pos = cl + 1
            continue
        k = inner.index(',')
        names.setdefault(cur, []).append(inner[:k].strip())
        out.append(s[pos:m.start()]); out.append('(' + inner[k + 1:].strip() + ')')
        pos = cl + 1
    out.append(s[pos:])
    return ''.join(out), names

def rule_ptr(s):
    n = s.count('(^')
    return s.replace('(^', '(*'), n

def rule_ginit(s):
    """top-level `= ^{ ... };` initialisers -> `= 0;`"""
    out = []; pos = 0; n = 0
    for m in re.finditer(r'=\s*\^\s*\{', s):
        if m.start() < pos: continue
        # only at brace depth 0
        if s.count('{', 0, m.start()) != s.count('}', 0, m.start()):
            continue
        ob = s.index('{', m.start())
        cb = match_close(s, ob, '{', '}')
        out.append(s[pos:m.start()]); out.append('= 0')
        pos = cb + 1; n += 1
    out.append(s[pos:])
    return ''.join(out), n

def rule_trap(s):
    s2, n = re.subn(r'\b__builtin_trap\s*\(\s*\)', '__verif_trap()', s)
    return s2, n

def rule_ovl(s):
    """clang `overloadable` pair _dispatch_unote_state_set: the 3-argument form is renamed."""
    n = 0
    out = []; pos = 0
    for m in re.finditer(r'\b_dispatch_unote_state_set\s*\(', s):
        if m.start() < pos: continue
        op = m.end() - 1
        cl = match_close(s, op, '(', ')')
        inner = s[op + 1:cl]
        d = 0; commas = 0
        for ch in inner:
            if ch in '([{': d += 1
            elif ch in ')]}': d -= 1
            elif ch == ',' and d == 0: commas += 1
        if commas == 2:
            out.append(s[pos:m.start()]); out.append('_dispatch_unote_state_set3(')
            pos = op + 1; n += 1
    out.append(s[pos:])
    s = ''.join(out)
    s = re.sub(r'__attribute__\s*\(\(\s*overloadable\s*\)\)', '', s)
    s = re.sub(r'__attribute__\s*\(\(\s*__overloadable__\s*\)\)', '', s)
    return s, n

def split_params(params):
    ps = []; d = 0; cur = ''
    for ch in params:
        if ch in '([': d += 1
        if ch in ')]': d -= 1
        if ch == ',' and d == 0:
            ps.append(cur); cur = ''
        else:
            cur += ch
    if cur.strip(): ps.append(cur)
    return ps

def rule_apply(s):
    """dispatch_data_apply(E, ^(P){B})  ->  statement expression iterating the regions of E
    through the harness iterator (__verif_region_count/__verif_region_get) with B inlined."""
    out = []; pos = 0; n = 0
    for m in re.finditer(r'\bdispatch_data_apply\s*\(', s):
        st = m.start()
        if st < pos: continue
        op = m.end() - 1
        cl = match_close(s, op, '(', ')')
        inner = s[op + 1:cl]
        k = inner.find('^')
        if k < 0: continue
        E = inner[:k].rstrip().rstrip(',').strip()
        rest = inner[k + 1:].lstrip()
        if not rest.startswith('('):
            # ^bool(params){...}
            m2 = re.match(r'[A-Za-z_]\w*\s*', rest)
            if not m2: continue
            rest = rest[m2.end():]
            if not rest.startswith('('): continue
        pe = match_close(rest, 0, '(', ')')
        params = rest[1:pe]
        bs = rest.index('{', pe)
        be = match_close(rest, bs, '{', '}')
        body = rest[bs + 1:be]
        n += 1
        decls = []; names = []
        for p in split_params(params):
            p = re.sub(r'__attribute__\s*\(\(.*?\)\)', '', p).strip()
            nm = re.findall(r'[A-Za-z_]\w*', p)[-1]
            decls.append(p + ';'); names.append(nm)
        body2 = re.sub(r'\breturn\s*([^;]*);',
                       lambda mm: '{ __vr_%d = (%s); goto __verif_blk_end_%d; }' % (n, mm.group(1), n), body)
        rep = ('({ _Bool __vr_%d = 1; size_t __vn_%d = __verif_region_count(%s); size_t __vk_%d; '
               'for (__vk_%d = 0; __vk_%d < __vn_%d && __vr_%d; __vk_%d++) __VERIF_APPLY_LOOP_CONTRACT_%d { %s '
               '__verif_region_get(%s, __vk_%d, &%s); { %s } __verif_blk_end_%d: ; } __vr_%d; })') % (
            n, n, E, n, n, n, n, n, n, n, ' '.join(decls), E, n, ', &'.join(names), body2, n, n)
        out.append(s[pos:st]); out.append(rep); pos = cl + 1
    out.append(s[pos:])
    return ''.join(out), n

def rule_blockbody(s, fname_patterns):
    """nested block literals (a block posted from inside a posted block) are lowered by repeating the
    single-level rule until nothing fires"""
    total = 0
    for _ in range(8):
        s, n = rule_blockbody1(s, fname_patterns, total)
        if n == 0: break
        total += n
    return s, total

def rule_blockbody1(s, fname_patterns, base=0):
    """R-async: CALL(args..., ^{B}) for the listed callee names -> { __verif_block_begin("callee", first-arg); B; __verif_block_end(); }
    The block body is evaluated where the block is created (by-value captures are snapshots
    taken exactly there)."""
    out = []; pos = 0; n = 0
    if not fname_patterns:
        return s, 0
    rx = re.compile(r'\b(' + '|'.join(fname_patterns) + r')\s*\(')
    for m in rx.finditer(s):
        st = m.start()
        if st < pos: continue
        op = m.end() - 1
        cl = match_close(s, op, '(', ')')
        inner = s[op + 1:cl]
        k = inner.find('^')
        if k < 0: continue
        rest = inner[k + 1:].lstrip()
        if not rest.startswith('{'): continue
        be = match_close(rest, 0, '{', '}')
        if rest[be + 1:].strip():
            continue
        body = rest[1:be]
        first = inner[:k].rstrip().rstrip(',').strip()
        n += 1
        body2 = re.sub(r'\breturn\s*;', 'goto __verif_ab_end_%d;' % (base + n), body)
        rep = ('({ __verif_block_begin_%s(%s); { %s } __verif_ab_end_%d: __verif_block_end(); })') % (
            m.group(1), first if first else '0', body2, base + n)
        out.append(s[pos:st]); out.append(rep); pos = cl + 1
    out.append(s[pos:])
    return ''.join(out), n

LOOP_KW = re.compile(r'\b(for|while|do)\b')

def collect_loopdefs(s):
    """VERIF_LOOP_CONTRACT(function, k, contract text) in a harness expands (after cpp, so harness
    macros are usable) to __VERIF_LOOPDEF(function, k, text); collected here and removed."""
    loops = {}
    out = []; pos = 0
    for m in re.finditer(r'__VERIF_LOOPDEF\s*\(', s):
        op = m.end() - 1
        cl = match_close(s, op, '(', ')')
        inner = s[op + 1:cl]
        a = inner.index(','); b = inner.index(',', a + 1)
        loops['%s#%s' % (inner[:a].strip(), inner[a + 1:b].strip())] = inner[b + 1:].strip()
        out.append(s[pos:m.start()]); pos = cl + 1
        if s[pos:pos + 1] == ';': pos += 1
    out.append(s[pos:])
    return ''.join(out), loops

def rule_loops(s, loops):
    """inject side-car loop contracts.  key: 'function#k' = k-th loop keyword (for/while/do;
    the `while` closing a do-while is not counted) in that function's body in the sliced text."""
    if not loops:
        return s, 0, {}
    toks = tokenize(s)
    funcs = find_functions(toks)
    edits = []   # (char position, text)
    fired = 0
    counts = {}
    skipped = []
    wanted = {}
    for key, val in loops.items():
        fn, k = key.rsplit('#', 1)
        wanted.setdefault(fn, {})[int(k)] = val
    for name, ds, bs, be in funcs:
        if name not in wanted: continue
        # collect loop keywords; the `while` that closes a `do { ... }` body is not a loop of its own
        loopsites = []
        do_tails = set()
        i = bs
        while i <= be:
            t = toks[i][0]
            if t == 'do':
                loopsites.append((t, i))
                j = i + 1
                while toks[j][0] in ('__CPROVER_assigns', '__CPROVER_loop_invariant', '__CPROVER_decreases'):
                    j += 1
                    d = 0
                    while True:
                        if toks[j][0] == '(': d += 1
                        elif toks[j][0] == ')':
                            d -= 1
                            if d == 0: break
                        j += 1
                    j += 1
                if toks[j][0] != '{':
                    raise ExtractionError('do without braces in %s' % name)
                d = 0
                while True:
                    if toks[j][0] == '{': d += 1
                    elif toks[j][0] == '}':
                        d -= 1
                        if d == 0: break
                    j += 1
                do_tails.add(j + 1)
                # `do { ... } while (0)` is a statement wrapper, not a loop: not counted
                if [t[0] for t in toks[j + 1:j + 5]] == ['while', '(', '0', ')']:
                    loopsites.pop()
            elif t == 'for' or (t == 'while' and i not in do_tails):
                loopsites.append((t, i))
            i += 1
        counts[name] = len(loopsites)
        for k, val in wanted[name].items():
            if k >= len(loopsites):
                # the annotated loop no longer exists (e.g. a retry loop was removed): nothing to
                # attach; the function is verified as it now is (its postconditions decide)
                skipped.append('%s#%d' % (name, k))
                continue
            kw, ti = loopsites[k]
            if kw == 'do':
                at = toks[ti][2]
            else:
                # after the closing paren of the loop header
                j = ti + 1
                assert toks[j][0] == '('
                d = 0
                while True:
                    if toks[j][0] == '(': d += 1
                    elif toks[j][0] == ')':
                        d -= 1
                        if d == 0: break
                    j += 1
                at = toks[j][2]
            edits.append((at, ' ' + val + ' '))
            fired += 1
    for fn in wanted:
        if fn not in counts:
            raise ExtractionError('loop side-car: function %s not found in sliced text' % fn)
    edits.sort()
    out = []; pos = 0
    for at, txt in edits:
        out.append(s[pos:at]); out.append(txt); pos = at
    out.append(s[pos:])
    counts['__skipped__'] = skipped
    return ''.join(out), fired, counts

def rule_cut_goto(s, cuts):
    """R-cut: `goto L;` inside function f -> `__verif_cut_backjump();` for the listed backward
    jumps (meta cut_goto {"f": ["L"]}).  The harness defines __verif_cut_backjump(): it asserts
    that the retry re-enters the function in a state already covered, then ends the path."""
    if not cuts:
        return s, 0
    toks = tokenize(s)
    funcs = find_functions(toks)
    edits = []
    n = 0
    for name, ds, bs, be in funcs:
        if name not in cuts: continue
        for i in range(bs, be):
            if toks[i][0] == 'goto' and toks[i + 1][0] in cuts[name] and toks[i + 2][0] == ';':
                edits.append((toks[i][1], toks[i + 2][2])); n += 1
    # a listed jump that is no longer in the function needs no cut (the change removed the retry); any other
    # backward jump left in the code shows up as non-terminating unwinding, i.e. a timeout (undecided), never as a pass
    out = []; pos = 0
    for a, b in sorted(edits):
        out.append(s[pos:a]); out.append('__verif_cut_backjump();'); pos = b
    out.append(s[pos:])
    return ''.join(out), n

def rule_cut_recursion(s, fns):
    """R-rec: inside the body of f, a call f(...) becomes __verif_rec_f(...) (harness stub: checks the
    callee-side precondition and stands for the callee's own contract, proved in another harness)."""
    if not fns:
        return s, 0
    toks = tokenize(s)
    funcs = find_functions(toks)
    edits = []
    for name, ds, bs, be in funcs:
        if name not in fns: continue
        for i in range(bs, be):
            if toks[i][0] == name and toks[i + 1][0] == '(':
                edits.append((toks[i][1], toks[i][2], '__verif_rec_' + name))
    if len(edits) < len(fns):
        raise ExtractionError('cut_recursion: recursive call not found for %s' % fns)
    out = []; pos = 0
    for a, b, t in sorted(edits):
        out.append(s[pos:a]); out.append(t); pos = b
    out.append(s[pos:])
    return ''.join(out), len(edits)

def rule_rmw_extra(s, extra):
    """k-th __VERIF_RMW_EXTRA token inside function f -> ', <extra assigns>' (meta rmw_extra {"f#k": "a, b"}) or nothing"""
    if '__VERIF_RMW_EXTRA' not in s:
        return s, 0
    toks = tokenize(s)
    funcs = find_functions(toks)
    edits = {}
    used = set()
    for name, ds, bs, be in funcs:
        k = 0
        for i in range(bs, be + 1):
            if toks[i][0] == '__VERIF_RMW_EXTRA':
                key = '%s#%d' % (name, k)
                if key in extra:
                    edits[toks[i][1]] = ', ' + extra[key]; used.add(key)
                k += 1
    for key in extra:
        if key not in used:
            raise ExtractionError('rmw_extra %s: no such rmw loop in the sliced text' % key)
    out = []; pos = 0
    for m in re.finditer(r'__VERIF_RMW_EXTRA', s):
        out.append(s[pos:m.start()]); out.append(edits.get(m.start(), '')); pos = m.end()
    out.append(s[pos:])
    return ''.join(out), len(used)

def extract(meta, harness_path, workdir, native=False):
    """returns dict(text_path, fired, kept, names, ...)"""
    os.makedirs(workdir, exist_ok=True)
    tu = meta['tu']
    wrapper = os.path.join(workdir, 'wrapper.c')
    with open(wrapper, 'w') as f:
        f.write('#define VERIF_PRE 1\n#include "%s"\n#undef VERIF_PRE\n' % harness_path)
        if tu:
            f.write('#include "%s"\n' % os.path.join(REPO, tu))
        f.write('int __VERIF_HARNESS_BEGIN;\n')
        f.write('#include "%s"\n' % harness_path)
        f.write('#include "%s"\n' % os.path.join(VERIF, 'model', 'verif_defs.h'))
    extra = list(meta.get('cppflags', []))
    if meta.get('seq'):
        extra.append('-DVERIF_SEQ=1')
    if native:
        extra.append('-DVERIF_NATIVE=1')
    if meta.get('plain'):
        extra.append('-DVERIF_PLAIN=1')
    extra.append('-DVERIF_LOG_CAP=%d' % meta.get('log_cap', 12))
    ipath = os.path.join(workdir, 'tu.i')
    cmd = preprocess(wrapper, ipath, extra, native)
    src = open(ipath).read()
    roots = set(meta.get('roots', [])) | {'__verif_trap', '__verif_event', '__verif_nd'}
    if meta.get('enforce'):
        roots.add(meta['enforce'])
    stops = set(meta.get('replace', [])) | set(meta.get('stops', []))
    sliced, kept, hnames, overridden = slice_text(src, roots, stops)
    fired = {}
    sliced, names = rule_named(sliced)
    sliced, fired['R-rmwx'] = rule_rmw_extra(sliced, meta.get('rmw_extra', {}))
    sliced, fired['R-cut'] = rule_cut_goto(sliced, meta.get('cut_goto', {}))
    sliced, fired['R-rec'] = rule_cut_recursion(sliced, meta.get('cut_recursion', []))
    # R-rewrite: exact, must-fire-once textual rewrites listed by the harness (only for argument conversions between two
    # transparent unions, which clang accepts and CBMC's front end rejects); each pair is reported with the harness
    nrw = 0
    for old, new in meta.get('rewrite', []):
        if sliced.count(old) != 1:
            raise ExtractionError('R-rewrite: %r occurs %d times (must be exactly once)' % (old, sliced.count(old)))
        sliced = sliced.replace(old, new); nrw += 1
    # 'rewrite_all': the same, for every occurrence (also none): used for the C-equivalent respelling (&(x)->a->b)->c  ==>  (x)->a->b.c
    # that works around CBMC 6.11 mis-evaluating the first spelling on a by-value transparent-union parameter
    for old, new in meta.get('rewrite_all', []):
        nrw += sliced.count(old); sliced = sliced.replace(old, new)
    fired['R-rewrite'] = nrw
    sliced, fired['R-trap'] = rule_trap(sliced)
    sliced, fired['R-ovl'] = rule_ovl(sliced)
    sliced, fired['R-apply'] = rule_apply(sliced)
    alc = meta.get('apply_loop_contracts', {}) if not native else {}
    sliced = re.sub(r'__VERIF_APPLY_LOOP_CONTRACT_(\d+)', lambda m: alc.get(m.group(1), ''), sliced)
    sliced, fired['R-async'] = rule_blockbody(sliced, meta.get('block_calls', []))
    sliced, fired['R-ginit'] = rule_ginit(sliced)
    if not native:
        sliced, fired['R-ptr'] = rule_ptr(sliced)
    sliced, loopdefs = collect_loopdefs(sliced)
    alloops = dict(meta.get('loops', {})); alloops.update(loopdefs)
    sliced, fired['R-loop'], loopcounts = rule_loops(sliced, alloops if not native else {})
    # leftover block literals in kept code are out of reach
    left = len(re.findall(r'\^\s*[({]', sliced)) if not native else 0
    outp = os.path.join(workdir, 'extracted.c')
    open(outp, 'w').write(sliced)
    hashes = {k: hashlib.sha256(v.encode()).hexdigest()[:16] for k, v in kept.items()}
    return dict(text_path=outp, fired=fired, kept=sorted(kept), kept_hashes=hashes, harness_funcs=hnames,
                overridden=overridden, ens_names=names, leftover_block_literals=left,
                loopcounts=loopcounts, n_loop_contracts=len(alloops), pp_cmd=' '.join(cmd))

if __name__ == '__main__':
    meta = json.loads(sys.argv[1])
    print(json.dumps(extract(meta, sys.argv[2], sys.argv[3]), indent=1))
