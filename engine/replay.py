#!/usr/bin/env python3
"""native replay of a CBMC counterexample on the same mechanically extracted real code"""
import os, sys, json, re, subprocess, shutil, tempfile
HERE = os.path.dirname(os.path.abspath(__file__))
VERIF = os.path.dirname(HERE)
sys.path.insert(0, HERE)
import extract as X

def parse_nd(vals):
    out = []
    for v in vals:
        if v is None: out.append(0); continue
        m = re.match(r'-?\d+', str(v))
        out.append(int(m.group(0)) & ((1 << 64) - 1) if m else 0)
    return out

def native_replay(meta, prop, nd, obligation, keep=False):
    wd = tempfile.mkdtemp(prefix='replay_', dir=os.path.join(VERIF, '.work')) if os.path.isdir(os.path.join(VERIF, '.work')) else tempfile.mkdtemp(prefix='verif_replay_')
    try:
        ex = X.extract(meta, meta['path'], wd, native=True)
        exe = os.path.join(wd, 'replay.bin')
        entry = meta.get('entry', 'harness')
        cmd = [X.find_clang(), '-fblocks', '-w', '-O0', '-g', '-x', 'c', ex['text_path'], '-x', 'c',
               os.path.join(VERIF, 'model', 'verif_native_rt.c'), '-DVERIF_ENTRY=' + entry,
               '-Wl,--unresolved-symbols=ignore-all', '-o', exe]
        r = subprocess.run(cmd, capture_output=True, text=True)
        if r.returncode != 0:
            return dict(status='not-run', detail='native compile failed: ' + r.stderr[-1500:])
        script = os.path.join(wd, 'script.txt')
        open(script, 'w').write('\n'.join(str(v) for v in parse_nd(nd)) + '\n')
        try:
            r = subprocess.run([exe, script], capture_output=True, text=True, timeout=60)
        except subprocess.TimeoutExpired:
            return dict(status='not-reproduced', detail='native run timed out')
        out = r.stdout.strip().splitlines()
        last = out[-1] if out else ''
        want = obligation.split(':', 1)[-1]
        for ln in out:
            m = re.match(r'REPLAY-FAIL kind=(\S+) name=(.*?) nd_used', ln)
            if m and m.group(1) in ('postcondition', 'assert') and m.group(2) == want:
                return dict(status='confirmed', detail=ln, inputs=parse_nd(nd))
        m = re.match(r'REPLAY-FAIL kind=(\S+) name=(.*?) nd_used', last)
        if m:
            return dict(status='not-reproduced', detail='native run ended differently: ' + last, inputs=parse_nd(nd))
        return dict(status='not-reproduced', detail='native run: rc=%d %s %s' % (r.returncode, last, r.stderr[-300:]), inputs=parse_nd(nd))
    except X.ExtractionError as e:
        return dict(status='not-run', detail='extraction: %s' % e)
    finally:
        if not keep:
            shutil.rmtree(wd, ignore_errors=True)

def replay_file(path):
    """re-run a recorded counterexample against the CURRENT /repo tree"""
    doc = json.load(open(path))
    import run as RUN
    meta = RUN.parse_meta(doc['harness_path'])
    nd = (doc.get('counterexample') or {}).get('nd') or []
    if not nd:
        print('replay file carries no inputs (obligation %s): verifier output only' % doc.get('obligation'))
        print(json.dumps(doc.get('description')))
        return 1
    res = native_replay(meta, doc['property'], nd, doc['obligation'])
    print(json.dumps(res, indent=1))
    if res['status'] == 'confirmed':
        print('VIOLATION property=%s replay=%s' % (doc['property'], path))
        return 1
    return 0 if res['status'] == 'not-reproduced' else 2
