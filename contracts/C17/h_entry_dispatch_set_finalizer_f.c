/*VERIF
{ "tu": "src/object.c", "enforce": "dispatch_set_finalizer_f", "props": ["C17"], "seq": true, "timeout": 120,
  "rewrite_all": [["(&(dou._do)->do_vtable->_os_obj_vtable)->", "(dou._do)->do_vtable->_os_obj_vtable."]],
  "assumes": ["the object has a vtable of ANY type value"],
  "stub_note": "none" }
VERIF*/
#ifdef VERIF_PRE
#else
struct dispatch_lane_s H_obj; struct dispatch_lane_vtable_s H_vt_any; unsigned long H_type; void *H_ctxt0, *H_fin0; char H_newctxt;
static void h_finalizer(void *c) { (void)c; }
#define NO_CONTEXT ((H_type & _DISPATCH_NO_CONTEXT_TYPEFLAG) != 0)
VERIF_CONTRACT_VOID(dispatch_set_finalizer_f, (dispatch_object_t dou, dispatch_function_t finalizer),
  REQ(dou._do == (struct dispatch_object_s *)&H_obj && H_obj.do_vtable == &H_vt_any && H_vt_any._os_obj_vtable.do_type == H_type && H_obj.do_ctxt == H_ctxt0 && H_obj.do_finalizer == H_fin0)
  ASG(H_obj.do_finalizer)
  /* C17: the finalizer that runs at disposal is exactly the last one the application set; objects without a context ignore the call; the context is not touched
   * (the stored function is compared in the harness: function-pointer equality inside an ensures clause is mis-evaluated, DESIGN 10.6) */
  ENS(the_context_slot_is_not_touched_and_context_less_types_ignore_the_call, H_obj.do_ctxt == H_ctxt0 && (!NO_CONTEXT || H_obj.do_finalizer == H_fin0))
)
void harness(void)
{
	VERIF_GHOST_RESET();
	H_type = ND(unsigned long); *(unsigned long *)&H_vt_any._os_obj_vtable.do_type = H_type; H_obj.do_vtable = &H_vt_any;
	H_ctxt0 = ND_BOOL() ? (void *)&H_obj : (void *)0; H_fin0 = ND_BOOL() ? (void *)&H_vt_any : (void *)0; H_obj.do_ctxt = H_ctxt0; H_obj.do_finalizer = H_fin0;
	dispatch_object_t dou; dou._do = (struct dispatch_object_s *)&H_obj;
	dispatch_set_finalizer_f(dou, h_finalizer);
	VERIF_POST_VOID(dispatch_set_finalizer_f, dou, h_finalizer);
	VERIF_ASSERT(the_finalizer_is_stored_as_given_unless_the_type_has_none, NO_CONTEXT || H_obj.do_finalizer == (void *)h_finalizer);
	VERIF_CANARY();
}
#endif
