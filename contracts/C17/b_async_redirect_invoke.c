/*VERIF
{ "tu": "src/queue.c", "enforce": "_dispatch_async_redirect_invoke", "props": ["C17", "C04", "C03", "C10"], "seq": true, "plain": true, "timeout": 300,
  "bounded": { "unwind": 5, "what": "hierarchies with at most 3 queues between the submitting concurrent queue and the root queue" },
  "assumes": ["BOUNDED stand-in: the walk up the target-queue chain is unrolled (chain length <= 3)",
              "the wrapper continuation is recycled before the wrapped item runs: its fields hold garbage afterwards (modelled by the stub of _dispatch_continuation_free_cacheonly)"],
  "stub_note": "_dispatch_continuation_pop (the wrapped item runs; checks the current queue), _dispatch_lane_non_barrier_complete (own contract: h_non_barrier_complete; logged), _dispatch_continuation_free_cacheonly (scrambles the recycled wrapper), base-priority / root-queue identity bookkeeping: stubs" }
VERIF*/
#ifdef VERIF_PRE
#else
#define DQ_STUB_REFS 1
#include "contracts/common/dq_common.h"
enum { K_POP = 160, K_COMPLETE };
struct dispatch_lane_s H_q[3], H_root; struct dispatch_continuation_s H_wrap, H_item; struct dispatch_invoke_context_s H_dic; unsigned H_len, H_old_idx; _Bool H_assumed, H_bad_current, H_scrambled;
dispatch_queue_t H_old_dq; dispatch_invoke_flags_t H_flags, H_ctxt_flags, H_flags_seen;
static const struct dispatch_lane_vtable_s H_rvt = { ._os_obj_vtable = { .do_type = DISPATCH_QUEUE_GLOBAL_ROOT_TYPE } };
void _dispatch_continuation_pop(dispatch_object_t dou, dispatch_invoke_context_t dic, dispatch_invoke_flags_t flags, dispatch_queue_class_t dqu)
{ if (_dispatch_queue_get_current() != (dispatch_queue_t)H_DQ || dqu._dq != (dispatch_queue_t)H_DQ || dic != &H_dic || !H_scrambled) H_bad_current = 1; H_flags_seen = flags; __verif_event(K_POP, 0, dou._dc, 0, 0); }
static void _dispatch_lane_non_barrier_complete(dispatch_lane_t dq, dispatch_wakeup_flags_t flags) { __verif_event(K_COMPLETE, 0, dq, flags, 0); }
static inline dispatch_continuation_t _dispatch_continuation_free_cacheonly(dispatch_continuation_t dc)
{ if (dc == &H_wrap) { H_scrambled = 1; dc->dc_other = 0; dc->dc_data = 0; dc->dc_func = 0; dc->dc_ctxt = 0; dc->do_next = 0; } return 0; }
static inline dispatch_priority_t _dispatch_set_basepri(dispatch_priority_t dbp) { (void)dbp; return 0; }
static inline void _dispatch_reset_basepri(dispatch_priority_t dbp) { (void)dbp; }
static inline void _dispatch_continuation_voucher_adopt(dispatch_continuation_t dc, uintptr_t dc_flags) { (void)dc; (void)dc_flags; }
/* the walk stops below the root queue and at the queue the worker was already draining: number of intermediate queues that must be completed */
#define N_MID (H_old_idx < H_len ? H_old_idx : H_len)
VERIF_CONTRACT_VOID(_dispatch_async_redirect_invoke, (dispatch_continuation_t dc, dispatch_invoke_context_t dic, dispatch_invoke_flags_t flags),
  REQ(dc == &H_wrap && dic == &H_dic && flags == H_flags && __verif_n == 0 && H_len <= 3 && !H_bad_current && !H_scrambled)
  ASG(VERIF_GHOST, __CPROVER_object_whole(&H_wrap), H_bad_current, H_scrambled, H_flags_seen, __CPROVER_object_whole(&__dispatch_tsd))
  /* C03 / C04: the redirected item runs exactly once, as an item of the queue it was SUBMITTED to (that queue is the current queue), after the wrapper was recycled */
  ENS(the_wrapped_item_runs_exactly_once_on_behalf_of_the_submitting_queue, __verif_n >= 2 && LOGK(0) == K_POP && LOGP(0) == (void *)&H_item && !H_bad_current && H_scrambled && (__verif_n < 2 || LOGK(1) != K_POP))
  /* C04 / C10: afterwards every intermediate queue of the hierarchy (not the root queue, not the queue the worker was already draining) gets its width unit back, nearest first */
  ENS(every_intermediate_queue_gets_its_width_back_once_nearest_first, __verif_n == 2 + N_MID
        && (N_MID < 1 || (LOGK(1) == K_COMPLETE && LOGP(1) == (void *)&H_q[0] && LOGA(1) == 0))
        && (N_MID < 2 || (LOGK(2) == K_COMPLETE && LOGP(2) == (void *)&H_q[1] && LOGA(2) == 0))
        && (N_MID < 3 || (LOGK(3) == K_COMPLETE && LOGP(3) == (void *)&H_q[2] && LOGA(3) == 0)))
  /* C17: the submitting queue's width and the +2 taken by the redirection are given back LAST: that +2 is what keeps the submitting queue - and through its
   * target reference every queue above it - alive while the chain is walked */
  ENS(the_submitting_queue_is_completed_and_released_last, LOGK(LAST) == K_COMPLETE && LOGP(LAST) == (void *)H_DQ && LOGA(LAST) == DISPATCH_WAKEUP_CONSUME_2)
  ENS(the_callers_autorelease_choice_is_overridden_only_by_the_one_recorded_at_submission, H_flags_seen == (H_ctxt_flags ? ((H_flags & ~_DISPATCH_INVOKE_AUTORELEASE_MASK) | H_ctxt_flags) : H_flags))
  ENS(the_workers_current_queue_is_restored, _dispatch_queue_get_current() == H_old_dq)
)
void harness(void)
{
	h_setup_lane();
	H_len = ND(unsigned); __CPROVER_assume(H_len <= 3); H_old_idx = ND(unsigned); __CPROVER_assume(H_old_idx <= 4);
	H_root.do_vtable = &H_rvt; H_root.do_targetq = 0;
	for (unsigned k = 0; k < 3; k++) { H_q[k].do_vtable = H_lane.do_vtable; H_q[k].do_targetq = (k + 1 < H_len) ? (dispatch_queue_t)&H_q[k + 1] : (dispatch_queue_t)&H_root; }
	H_lane.do_targetq = H_len ? (dispatch_queue_t)&H_q[0] : (dispatch_queue_t)&H_root; H_lane.dq_priority = ND(dispatch_priority_t);
	/* the worker's current queue: one of the intermediate queues, the root queue, or none */
	H_old_dq = H_old_idx < H_len ? (dispatch_queue_t)&H_q[H_old_idx] : (H_old_idx == 3 ? (dispatch_queue_t)&H_root : (dispatch_queue_t)0);
	if (H_old_idx >= H_len && H_old_idx != 3) H_old_idx = 4;
	H_assumed = ND_BOOL(); H_ctxt_flags = ND_BOOL() ? 0 : DISPATCH_INVOKE_AUTORELEASE_ALWAYS; H_flags = ND(dispatch_invoke_flags_t);
	H_wrap.dc_other = &H_item; H_wrap.dc_ctxt = (void *)(uintptr_t)H_ctxt_flags; H_wrap.dc_func = H_assumed ? (dispatch_function_t)(void *)&H_root : (dispatch_function_t)0; H_wrap.dc_data = H_DQ; H_wrap.dc_flags = DC_FLAG_CONSUME;
	H_bad_current = 0; H_scrambled = 0;
	_dispatch_thread_setspecific(dispatch_queue_key, H_old_dq);
	VERIF_PRE_CALL(_dispatch_async_redirect_invoke, &H_wrap, &H_dic, H_flags);
	_dispatch_async_redirect_invoke(&H_wrap, &H_dic, H_flags);
	VERIF_POST_VOID(_dispatch_async_redirect_invoke, &H_wrap, &H_dic, H_flags);
	VERIF_REACH(three_intermediate_queues, N_MID == 3);
	VERIF_REACH(stops_at_the_workers_queue, H_old_idx < H_len);
	VERIF_CANARY();
}
#endif
