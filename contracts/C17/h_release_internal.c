/*VERIF
{ "tu": "src/object.c", "enforce": "_os_object_release_internal_n", "props": ["C17"], "nondet_volatile": true, "timeout": 120,
  "stub_note": "_os_object_dispose: logged call (the type-specific dispose chain: h_dispatch_dispose)" }
VERIF*/
#ifdef VERIF_PRE
#else
struct _os_object_s H_obj;
void _os_object_dispose(_os_object_t obj) { __verif_event(EV_CALL, 0, obj, 51, 0); }
#define CNT_OLD ((int)LOGA(0))
#define CNT_NEW ((int)LOGB(0))
VERIF_CONTRACT_VOID(_os_object_release_internal_n, (_os_object_t obj, uint16_t n),
  REQ(obj == &H_obj && __verif_n == 0 && n >= 1 && n <= 2)
  ASG(H_obj.os_obj_ref_cnt, VERIF_GHOST)
  ENS(log_bounded, __verif_n <= 2)
  /* one release-ordered subtraction; immortal (global) objects are never touched */
  ENS(drops_exactly_n_references_with_release, VIMPL(__verif_n >= 1, IS_COMMIT(0, &H_obj.os_obj_ref_cnt) && CNT_NEW == (int)((unsigned)CNT_OLD - (unsigned)n) && VMO_IS_REL(LOGM(0))))
  /* disposed exactly when the count drops to -1 (last reference), never otherwise; going below is a crash, not a second dispose */
  ENS(disposed_exactly_when_last_reference_dropped, VIMPL(__verif_n >= 1, (CNT_NEW == -1) == (__verif_n == 2 && LOGK(1) == EV_CALL && LOGA(1) == 51) && CNT_NEW >= -1))
)
void harness(void)
{
	VERIF_GHOST_RESET();
	uint16_t n = ND(uint16_t);
	_os_object_release_internal_n(&H_obj, n);
	VERIF_POST_VOID(_os_object_release_internal_n, &H_obj, n);
	VERIF_REACH(disposed, __verif_n == 2);
	VERIF_REACH(global, __verif_n == 0);
	VERIF_CANARY();
}
#endif
