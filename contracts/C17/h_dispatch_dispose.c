/*VERIF
{ "tu": "src/object.c", "enforce": "_dispatch_dispose", "props": ["C17"], "seq": true, "timeout": 200,
  "stub_note": "type dispose (vtable), _dispatch_object_finalize/_dealloc, dispatch_async_f, release: logged stubs" }
VERIF*/
#ifdef VERIF_PRE
#else
#define DQ_STUB_REFS 1
#include "contracts/common/dq_common.h"
struct dispatch_lane_s H_tq; void *H_ctxt0; _Bool H_allow_free;
unsigned H_seq, H_disposed_at, H_freed_at, H_final_at, H_released_at; void *H_final_ctxt; dispatch_queue_t H_final_q; dispatch_function_t H_final_f; unsigned H_finals, H_frees, H_disposes;
static void h_finalizer(void *c) { (void)c; }
static void h_dispose(struct dispatch_object_s *o, bool *allow_free) { (void)o; H_disposes++; H_disposed_at = ++H_seq; *allow_free = H_allow_free; H_lane.do_ctxt = 0; /* dispose may scribble on the object */ }
static const struct dispatch_lane_vtable_s H_dvt = { ._os_obj_vtable = { .do_type = DISPATCH_QUEUE_SERIAL_TYPE, .do_dispose = (void *)h_dispose } };
void _dispatch_object_finalize(dispatch_object_t dou) { (void)dou; }
void _dispatch_object_dealloc(dispatch_object_t dou) { (void)dou; H_frees++; H_freed_at = ++H_seq; }
void dispatch_async_f(dispatch_queue_t q, void *ctxt, dispatch_function_t f) { H_finals++; H_final_at = ++H_seq; H_final_q = q; H_final_ctxt = ctxt; H_final_f = f; }
VERIF_CONTRACT_VOID(_dispatch_dispose, (dispatch_object_t dou),
  REQ(dou._dl == H_DQ && H_lane.do_targetq == (dispatch_queue_t)&H_tq && H_lane.do_ctxt == H_ctxt0 && H_seq == 0 && H_finals == 0 && H_frees == 0 && H_disposes == 0 && __verif_n == 0)
  ASG(__CPROVER_object_whole(&H_lane), H_seq, H_disposed_at, H_freed_at, H_final_at, H_final_ctxt, H_final_q, H_final_f, H_finals, H_frees, H_disposes, VERIF_GHOST)
  /* an object still linked into a queue is never torn down */
  ENS(never_disposed_while_enqueued, H_lane.do_next == DISPATCH_OBJECT_LISTLESS || H_disposes == 0)
  ENS(type_dispose_exactly_once, H_disposes == 1)
  ENS(memory_released_once_after_dispose_unless_kept, H_allow_free ? (H_frees == 1 && H_freed_at > H_disposed_at) : H_frees == 0)
  /* finalizer: exactly once, iff there is a finalizer AND a context, on the target queue, with the context current at release time */
  ENS(finalizer_posted_exactly_once_iff_context_and_function, H_finals == ((H_lane.do_finalizer && H_ctxt0) ? 1u : 0u))
  ENS(finalizer_gets_the_context_current_at_that_time_on_the_target_queue, VIMPL(H_finals == 1, H_final_ctxt == H_ctxt0 && H_final_q == (dispatch_queue_t)&H_tq && H_final_f == h_finalizer && H_final_at > H_disposed_at))
  /* the target queue stays referenced until after the finalizer has been posted to it */
  ENS(target_queue_released_last, __verif_n == 1 && LOGK(0) == EV_RELEASE && LOGP(0) == (void *)&H_tq && LOGA(0) == 1)
)
void harness(void)
{
	h_setup_lane();
	H_lane.do_vtable = &H_dvt; H_lane.do_targetq = (dispatch_queue_t)&H_tq; H_ctxt0 = (void *)ND(uintptr_t); H_lane.do_ctxt = H_ctxt0;
	H_lane.do_finalizer = ND_BOOL() ? h_finalizer : 0; H_lane.do_next = ND_BOOL() ? DISPATCH_OBJECT_LISTLESS : (void *)&H_tq; H_allow_free = ND_BOOL();
	H_tq.dq_serialnum = 100; H_seq = 0; H_finals = H_frees = H_disposes = 0;
	_dispatch_dispose((dispatch_object_t){ ._dl = H_DQ });
	VERIF_POST_VOID(_dispatch_dispose, (dispatch_object_t){ ._dl = H_DQ });
	VERIF_REACH(finalized, H_finals == 1);
	VERIF_CANARY();
}
#endif
