/*VERIF
{ "tu": "src/object.c", "enforce": "dispatch_set_target_queue", "props": ["C17", "C03"], "nondet_volatile": true, "timeout": 120,
  "rewrite_all": [["(&(dou._do)->do_vtable->_os_obj_vtable)->", "(dou._do)->do_vtable->_os_obj_vtable."]],
  "assumes": ["the object has a vtable of ANY type value and any reference count (a global object has the GLOBAL_REFCNT marker); other threads may read its target pointer at any time"],
  "stub_note": "_dispatch_lane_set_target_queue (own contract: h_set_target_queue), _dispatch_io_set_target_queue (h_io_set_target_queue), retain / release: logged" }
VERIF*/
#ifdef VERIF_PRE
#else
#define DQ_STUB_REFS 1
#include "contracts/common/dq_common.h"
enum { K_LANE_STQ = 215, K_IO_STQ };
struct dispatch_lane_s H_obj, H_newq, H_oldq, H_defq; struct dispatch_lane_vtable_s H_vt_any; unsigned long H_type; int H_ref0; _Bool H_default, H_had_target;
void _dispatch_lane_set_target_queue(dispatch_lane_t dq, dispatch_queue_t tq) { __verif_event(K_LANE_STQ, 0, dq, (unsigned long long)(uintptr_t)tq, 0); }
void _dispatch_io_set_target_queue(dispatch_io_t channel, dispatch_queue_t dq) { __verif_event(K_IO_STQ, 0, channel, (unsigned long long)(uintptr_t)dq, 0); }
#define IS_GLOBAL (H_ref0 == DISPATCH_OBJECT_GLOBAL_REFCNT)
#define IS_QUEUE_CLUSTER ((H_type & _DISPATCH_TYPE_CLUSTER_MASK) == _DISPATCH_QUEUE_CLUSTER)
#define IS_ROOT_OR_BASE ((H_type & (_DISPATCH_QUEUE_ROOT_TYPEFLAG | _DISPATCH_QUEUE_BASE_TYPEFLAG)) != 0)
#define IS_IO (H_type == DISPATCH_IO_TYPE)
#define TQ_ARG (H_default ? (dispatch_queue_t)0 : (dispatch_queue_t)&H_newq)
#define EFF_TQ (H_default ? (void *)_dispatch_get_default_queue(false) : (void *)&H_newq)
#define TGT_P ((const volatile void *)&H_obj.do_targetq)
VERIF_CONTRACT_VOID(dispatch_set_target_queue, (dispatch_object_t dou, dispatch_queue_t tq),
  REQ(dou._do == (struct dispatch_object_s *)&H_obj && tq == TQ_ARG && __verif_n == 0 && H_obj.do_vtable == &H_vt_any && H_vt_any._os_obj_vtable.do_type == H_type && H_obj.do_ref_cnt == H_ref0)
  ASG(VERIF_GHOST, H_obj.do_targetq)
  ENS(global_objects_and_root_or_base_queues_cannot_be_retargeted, VIMPL(IS_GLOBAL || IS_ROOT_OR_BASE, __verif_n == 0))
  ENS(queues_and_sources_go_through_the_lane_retarget_and_channels_through_their_own, VIMPL(!IS_GLOBAL && !IS_ROOT_OR_BASE && (IS_QUEUE_CLUSTER || IS_IO),
        __verif_n == 1 && LOGK(0) == (IS_QUEUE_CLUSTER ? K_LANE_STQ : K_IO_STQ) && LOGP(0) == (void *)&H_obj && LOGA(0) == (unsigned long long)(uintptr_t)TQ_ARG))
  /* C17: for every other object (semaphore, group, data ...) the NEW target - the default queue when none is given - is retained BEFORE it is published with a release
   * exchange, and the reference the object held on the OLD target is dropped only AFTER the exchange: at no point does the object name a queue it holds no reference on */
  ENS(plain_objects_retain_the_new_target_then_publish_then_release_the_old_one, VIMPL(!IS_GLOBAL && !IS_ROOT_OR_BASE && !IS_QUEUE_CLUSTER && !IS_IO,
        __verif_n >= 2 && LOGK(0) == EV_RETAIN && LOGP(0) == EFF_TQ && LOGA(0) == 1 && IS_COMMIT(1, TGT_P) && LOGB(1) == (unsigned long long)(uintptr_t)EFF_TQ && VMO_IS_REL(LOGM(1))
        && (LOGA(1) != 0 ? (__verif_n == 3 && LOGK(2) == EV_RELEASE && LOGP(2) == (void *)(uintptr_t)LOGA(1) && LOGA(2) == 1) : __verif_n == 2)))
)
void harness(void)
{
	h_setup_lane();
	H_type = ND(unsigned long); *(unsigned long *)&H_vt_any._os_obj_vtable.do_type = H_type; H_obj.do_vtable = &H_vt_any; H_ref0 = ND_BOOL() ? DISPATCH_OBJECT_GLOBAL_REFCNT : (int)(ND(unsigned) & 0xffff); H_obj.do_ref_cnt = H_ref0;
	H_default = ND_BOOL(); __verif_ptrloc = &H_obj.do_targetq; __verif_ptrobj = &H_oldq;
	dispatch_object_t dou; dou._do = (struct dispatch_object_s *)&H_obj;
	dispatch_set_target_queue(dou, TQ_ARG);
	VERIF_POST_VOID(dispatch_set_target_queue, dou, TQ_ARG);
	VERIF_REACH(plain_object_with_an_old_target, !IS_GLOBAL && !IS_ROOT_OR_BASE && !IS_QUEUE_CLUSTER && !IS_IO && __verif_n == 3);
	VERIF_REACH(io_channel, IS_IO && !IS_GLOBAL && __verif_n == 1);
	VERIF_CANARY();
}
#endif
