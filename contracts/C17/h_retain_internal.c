/*VERIF
{ "tu": "src/object.c", "enforce": "_os_object_retain_internal_n", "props": ["C17"], "nondet_volatile": true, "timeout": 120 }
VERIF*/
#ifdef VERIF_PRE
#else
struct _os_object_s H_obj;
VERIF_CONTRACT(_os_object_t, _os_object_retain_internal_n, (_os_object_t obj, uint16_t n),
  REQ(obj == &H_obj && __verif_n == 0 && n >= 1 && n <= 2)
  ASG(H_obj.os_obj_ref_cnt, VERIF_GHOST)
  ENS(adds_exactly_n_references, __verif_n <= 1 && VIMPL(__verif_n == 1, IS_COMMIT(0, &H_obj.os_obj_ref_cnt) && (int)LOGB(0) == (int)((unsigned)LOGA(0) + (unsigned)n)))
  /* an object whose last reference is gone (count < 0) can not be brought back: crash, not resurrection */
  ENS(no_resurrection, VIMPL(__verif_n == 1, (int)LOGA(0) >= 0))
  ENS(returns_the_object, __CPROVER_return_value == obj)
)
void harness(void)
{
	VERIF_GHOST_RESET();
	uint16_t n = ND(uint16_t);
	_os_object_t r = _os_object_retain_internal_n(&H_obj, n);
	VERIF_POST(_os_object_retain_internal_n, r, &H_obj, n);
	VERIF_CANARY();
}
#endif
