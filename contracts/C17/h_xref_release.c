/*VERIF
{ "tu": "src/object.c", "enforce": "_os_object_release", "props": ["C17"], "nondet_volatile": true, "timeout": 120,
  "stub_note": "_os_object_xref_dispose: logged call" }
VERIF*/
#ifdef VERIF_PRE
#else
struct _os_object_s H_obj;
void _os_object_xref_dispose(_os_object_t obj) { __verif_event(EV_CALL, 0, obj, 52, 0); }
VERIF_CONTRACT_VOID(_os_object_release, (_os_object_t obj),
  REQ(obj == &H_obj && __verif_n == 0)
  ASG(H_obj.os_obj_xref_cnt, VERIF_GHOST)
  ENS(drops_one_external_reference_with_release, __verif_n <= 2 && VIMPL(__verif_n >= 1, IS_COMMIT(0, &H_obj.os_obj_xref_cnt) && (int)LOGB(0) == (int)((unsigned)LOGA(0) - 1u) && VMO_IS_REL(LOGM(0))))
  ENS(external_dispose_exactly_when_last_application_reference_dropped, VIMPL(__verif_n >= 1, ((int)LOGB(0) == -1) == (__verif_n == 2 && LOGK(1) == EV_CALL && LOGA(1) == 52) && (int)LOGB(0) >= -1))
)
void harness(void)
{
	VERIF_GHOST_RESET();
	_os_object_release(&H_obj);
	VERIF_POST_VOID(_os_object_release, &H_obj);
	VERIF_REACH(disposed, __verif_n == 2);
	VERIF_CANARY();
}
#endif
