/*VERIF
{ "tu": "src/object.c", "enforce": "_dispatch_xref_dispose", "props": ["C17", "C16"], "seq": true, "timeout": 120,
  "rewrite_all": [["(&(dou._do)->do_vtable->_os_obj_vtable)->", "(dou._do)->do_vtable->_os_obj_vtable."]],
  "assumes": ["the object has a vtable of ANY type value"],
  "stub_note": "_dispatch_queue_xref_dispose (h_queue_xref_dispose), _dispatch_source_xref_dispose (h_source_xref_dispose), _dispatch_runloop_queue_xref_dispose, _os_object_release_internal (h_release_internal): logged calls" }
VERIF*/
#ifdef VERIF_PRE
#else
enum { K_QUEUE_XREF = 170, K_SOURCE_XREF, K_RELEASE_INT, K_RUNLOOP_XREF };
struct dispatch_lane_s H_obj; struct dispatch_lane_vtable_s H_vt_any; unsigned long H_type;
void _dispatch_queue_xref_dispose(dispatch_queue_t dq) { __verif_event(K_QUEUE_XREF, 0, dq, 0, 0); }
void _dispatch_source_xref_dispose(dispatch_source_t ds) { __verif_event(K_SOURCE_XREF, 0, ds, 0, 0); }
void _dispatch_runloop_queue_xref_dispose(dispatch_lane_t dq) { __verif_event(K_RUNLOOP_XREF, 0, dq, 0, 0); }
void _os_object_release_internal(_os_object_t obj) { __verif_event(K_RELEASE_INT, 0, obj, 0, 0); }
#define IS_QUEUE_CLUSTER ((H_type & _DISPATCH_TYPE_CLUSTER_MASK) == _DISPATCH_QUEUE_CLUSTER)
#define IS_SOURCE (H_type == DISPATCH_SOURCE_KEVENT_TYPE)
#define IS_RUNLOOP (H_type == DISPATCH_QUEUE_RUNLOOP_TYPE)
VERIF_CONTRACT_VOID(_dispatch_xref_dispose, (dispatch_object_t dou),
  REQ(dou._do == (struct dispatch_object_s *)&H_obj && __verif_n == 0 && H_obj.do_vtable == &H_vt_any && H_vt_any._os_obj_vtable.do_type == H_type)
  ASG(VERIF_GHOST)
  /* C17: when the last application reference goes away, the object's class hook runs FIRST (a queue-cluster object is marked released - and refuses a suspended or
   * inactive one -, a source is woken so that it tears its registration down: C16), and the reference the application's references stood for is dropped exactly once, LAST */
  ENS(class_hooks_run_first_in_order_then_exactly_one_internal_release_last, __verif_n == 1u + (IS_QUEUE_CLUSTER ? 1u : 0u) + (IS_SOURCE || IS_RUNLOOP ? 1u : 0u)
        && LOGK(LAST) == K_RELEASE_INT && LOGP(LAST) == (void *)&H_obj
        && (!IS_QUEUE_CLUSTER || (LOGK(0) == K_QUEUE_XREF && LOGP(0) == (void *)&H_obj))
        && (!IS_SOURCE || (LOGK(1) == K_SOURCE_XREF && LOGP(1) == (void *)&H_obj))
        && (!IS_RUNLOOP || (LOGK(1) == K_RUNLOOP_XREF && LOGP(1) == (void *)&H_obj)))
)
void harness(void)
{
	VERIF_GHOST_RESET();
	H_type = ND(unsigned long); *(unsigned long *)&H_vt_any._os_obj_vtable.do_type = H_type; H_obj.do_vtable = &H_vt_any;
	dispatch_object_t dou; dou._do = (struct dispatch_object_s *)&H_obj;
	_dispatch_xref_dispose(dou);
	VERIF_POST_VOID(_dispatch_xref_dispose, dou);
	VERIF_REACH(source, IS_SOURCE && __verif_n == 3);
	VERIF_REACH(non_queue_object, !IS_QUEUE_CLUSTER && __verif_n == 1);
	VERIF_CANARY();
}
#endif
