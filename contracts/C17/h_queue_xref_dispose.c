/*VERIF
{ "tu": "src/queue.c", "enforce": "_dispatch_queue_xref_dispose", "props": ["C17", "C06"], "nondet_volatile": true, "timeout": 120,
  "assumes": ["other threads change the state word and the flags word at any time (interference model)"],
  "stub_note": "none (DISPATCH_CLIENT_CRASH is a trap: paths into it end there)" }
VERIF*/
#ifdef VERIF_PRE
extern const volatile void *H_flags_p, *H_state_p; extern unsigned long long H_state0;
/* the hook looks at the state word once: that one value is named H_state0 */
#define __VERIF_RELY(p, v) ((const volatile void *)(p) != H_state_p || (unsigned long long)(v) == H_state0)
/* guarantee on the flags word: the hook only ever ORs in the RELEASED mark */
#define __VERIF_GUARANTEE(p, ov, nv, mo) ((const volatile void *)(p) != H_flags_p || (nv) == ((ov) | 0x00800000ull))
#else
#define DQ_STUB_REFS 1
#include "contracts/common/dq_common.h"
const volatile void *H_flags_p, *H_state_p; unsigned long long H_state0;
VERIF_CONTRACT_VOID(_dispatch_queue_xref_dispose, (dispatch_queue_t dq),
  REQ(dq == (dispatch_queue_t)H_DQ && __verif_n == 0 && DQF_RELEASED == 0x00800000u)
  ASG(VERIF_GHOST, H_lane.dq_atomic_flags)
  /* C17 / C06: the last application reference of a queue may only go away while the queue is neither suspended nor inactive (both are the documented client
   * crash: its queued items could never run); a queue that passes is marked RELEASED by one atomic OR that keeps every other flag */
  ENS(a_queue_that_survives_the_hook_was_not_suspended_and_is_marked_released_once, __verif_n == 1 && IS_COMMIT(0, H_flags_p) && LOGB(0) == (LOGA(0) | DQF_RELEASED)
        && !S_SUSPENDED(H_state0) && !(H_state0 & DISPATCH_QUEUE_INACTIVE))
)
void harness(void)
{
	h_setup_lane(); H_flags_p = &H_lane.dq_atomic_flags; H_state_p = &H_lane.dq_state; H_state0 = ND(uint64_t);
	_dispatch_queue_xref_dispose((dispatch_queue_t)H_DQ);
	VERIF_POST_VOID(_dispatch_queue_xref_dispose, (dispatch_queue_t)H_DQ);
	VERIF_REACH(survives, __verif_n == 1);
	VERIF_CANARY();
}
#endif
