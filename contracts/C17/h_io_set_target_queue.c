/*VERIF
{ "tu": "src/io.c", "enforce": "_dispatch_io_set_target_queue", "props": ["C17", "C14"], "seq": true, "timeout": 200, "log_cap": 20,
  "block_calls": ["dispatch_async"], "cppflags": ["-DH_LOG_ASYNC=1"],
  "assumes": ["the posted block is evaluated where it is created (it runs once, later, on the channel's queue: C02); between the two the caller may drop its own reference on the new target queue"],
  "stub_note": "_dispatch_retain / _dispatch_release: logged; dispatch_async lowered by rule R-async (begin(queue) ... body ... end in the event log)" }
VERIF*/
#ifdef VERIF_PRE
struct dispatch_queue_s; void __verif_block_begin_dispatch_async(struct dispatch_queue_s *q); void __verif_block_end(void);
#else
#include "contracts/C14/io_common.h"
struct dispatch_queue_s H_chanq, H_newq, H_oldq;
VERIF_CONTRACT_VOID(_dispatch_io_set_target_queue, (dispatch_io_t channel, dispatch_queue_t dq),
  REQ(channel == &H_chan && dq == &H_newq && __verif_n == 0 && H_asyncs == 0 && H_chan.queue == &H_chanq && H_chan.do_targetq == &H_oldq)
  ASG(VERIF_GHOST, IO_GHOST, H_async_q, H_asyncs, H_chan.do_targetq)
  /* C17: the new target queue (and the channel) are retained BEFORE the retarget is posted, on the caller's thread: the caller may release its own reference to the
   * queue as soon as dispatch_set_target_queue returns, long before the posted block runs */
  ENS(the_new_target_and_the_channel_are_retained_before_the_retarget_is_posted, __verif_n == 6 && LOGK(0) == EV_RETAIN && LOGP(0) == (void *)&H_newq && LOGA(0) == 1
        && LOGK(1) == EV_RETAIN && LOGP(1) == (void *)&H_chan && LOGA(1) == 1 && LOGK(2) == K_ASYNC && LOGP(2) == (void *)&H_chanq && H_asyncs == 1)
  /* on the channel's queue: the target is switched, THEN the old target loses the reference the channel held on it, then the channel's own reference goes; nothing else */
  ENS(the_old_target_is_released_once_after_the_switch_then_the_channel, H_chan.do_targetq == &H_newq && LOGK(3) == EV_RELEASE && LOGP(3) == (void *)&H_oldq && LOGA(3) == 1
        && LOGK(4) == EV_RELEASE && LOGP(4) == (void *)&H_chan && LOGA(4) == 1 && LOGK(5) == K_ASYNC_END)
)
void harness(void)
{
	VERIF_GHOST_RESET(); H_asyncs = 0; H_chan.queue = &H_chanq; H_chan.do_targetq = &H_oldq;
	_dispatch_io_set_target_queue(&H_chan, &H_newq);
	VERIF_POST_VOID(_dispatch_io_set_target_queue, &H_chan, &H_newq);
	VERIF_CANARY();
}
#endif
