/*VERIF
{ "tu": "src/queue.c", "enforce": "_dispatch_lane_class_dispose", "props": ["C17", "C06"], "seq": true, "timeout": 200,
  "rewrite": [["_dispatch_queue_dispose(dqu, allow_free);", "_dispatch_queue_dispose((dispatch_queue_class_t){ ._dl = dqu._dl }, allow_free);"]],
  "assumes": ["R-rewrite: the call `_dispatch_queue_dispose(dqu, allow_free)` passes one transparent union where another is expected (clang converts, CBMC cannot): rewritten to pass the same pointer through the union member", "dispose runs when the last reference is gone (C17 release_internal / dispatch_dispose contracts): nobody else can touch the queue, so its state is read as stored"],
  "stub_note": "_dispatch_queue_dispose (frees label / specific table, poisons the state): logged" }
VERIF*/
#ifdef VERIF_PRE
#else
#define DQ_STUB_TARGET 1
#include "contracts/common/dq_common.h"
#define CALL_QUEUE_DISPOSE 81
void _dispatch_queue_dispose(dispatch_queue_class_t dqu, bool *allow_free) { (void)allow_free; __verif_event(EV_CALL, 0, dqu._dq, CALL_QUEUE_DISPOSE, 0); }
uint64_t H_state0; _Bool H_has_items;
#define CLEAN(s) (((s) & ~(DISPATCH_QUEUE_MAX_QOS_MASK | DISPATCH_QUEUE_DIRTY | DISPATCH_QUEUE_ROLE_MASK)) == DISPATCH_QUEUE_STATE_INIT_VALUE(H_lane.dq_width))
VERIF_CONTRACT_VOID(_dispatch_lane_class_dispose, (dispatch_lane_class_t dqu, bool *allow_free),
  REQ(dqu._dl == H_DQ && __verif_n == 0 && H_lane.dq_state == H_state0 && (H_lane.dq_items_tail != 0) == H_has_items && VALID_WIDTH(H_lane.dq_width))
  ASG(VERIF_GHOST, H_lane.dq_items_head, H_lane.dq_items_tail)
  /* a queue is torn down only in its pristine state: not owned by a drainer, not suspended or inactive, no width or barrier held, not
   * enqueued anywhere, nothing queued on it -- anything else is a client bug and stops the process instead of freeing a live queue */
  ENS(torn_down_only_when_idle_unowned_unsuspended_and_empty, VIMPL(!__verif_crashed, CLEAN(H_state0) && !H_has_items && !S_LOCKED(H_state0) && !S_SUSPENDED(H_state0) && !S_ENQUEUED(H_state0) && !S_IN_BARRIER(H_state0)))
  ENS(anything_else_is_a_crash_not_a_silent_free, VIMPL(!(CLEAN(H_state0) && !H_has_items), __verif_crashed && __verif_n == 0))
  ENS(item_pointers_are_poisoned_then_the_queue_part_is_disposed_once, VIMPL(!__verif_crashed, __verif_n == 1 && LOGK(0) == EV_CALL && LOGA(0) == CALL_QUEUE_DISPOSE && LOGP(0) == (void *)H_DQ
        && H_lane.dq_items_head == (void *)0x200 && H_lane.dq_items_tail == (void *)0x200))
)
void harness(void)
{
	h_setup_lane(); h_setup_target();
	H_state0 = ND(uint64_t); H_lane.dq_state = H_state0; H_has_items = ND_BOOL();
	static struct dispatch_continuation_s item; H_lane.dq_items_tail = H_has_items ? (struct dispatch_object_s *)&item : 0;
	bool af = 1;
	_dispatch_lane_class_dispose((dispatch_lane_class_t){ ._dl = H_DQ }, &af);
	VERIF_POST_VOID(_dispatch_lane_class_dispose, (dispatch_lane_class_t){ ._dl = H_DQ }, &af);
	VERIF_REACH(clean_dispose, !__verif_crashed);
	VERIF_CANARY();
}
#endif
