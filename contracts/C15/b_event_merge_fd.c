/*VERIF
{ "tu": "src/event/event_epoll.c", "enforce": "_dispatch_event_merge_fd", "props": ["C15", "C14", "C16", "C17"], "seq": true, "timeout": 600, "unwind": 4, "unwind_fns": ["_dispatch_event_merge_fd"],
  "bounded": {"unwind": 4, "what": "at most 2 unotes on the readers list and at most 2 on the writers list of the descriptor (the list walks by pointer chasing have no loop contract); any event mask"},
  "assumes": ["runs on the manager thread; the merge call-out (source side: h_source_merge_evt family) does not unregister OTHER unotes of the same descriptor while the list is walked",
              "on entry the kernel has just reported these events for the one-shot registration, which disarms the whole descriptor in the kernel"],
  "stub_note": "dst_merge_evt of the unote's type (the source's merge call-out), _dispatch_retain_unote_owner, ioctl (queue size), epoll_ctl (kernel), dispatch_once_f: recorded per unote" }
VERIF*/
#ifdef VERIF_PRE
#else
#include "contracts/common/dq_common.h"
struct h_unote { struct dispatch_unote_linkage_s link; struct dispatch_source_refs_s du; } H_r[2], H_w[2];
struct dispatch_muxnote_s H_dmn; struct dispatch_source_type_s H_type; unsigned H_nr, H_nw; uint32_t H_ev, H_events0, H_kernel_events; uint16_t H_disarmed0; int H_qsize; _Bool H_bad, H_kernel_registered;
unsigned H_merges_r[2], H_merges_w[2], H_retains_r[2], H_retains_w[2], H_mods, H_dels; uint32_t H_flags_r[2], H_flags_w[2]; uintptr_t H_data_r[2], H_data_w[2]; unsigned H_k;
static int h_which(void *du, _Bool *w) { if (du == (void *)&H_r[0].du) { *w = 0; return 0; } if (du == (void *)&H_r[1].du) { *w = 0; return 1; } if (du == (void *)&H_w[0].du) { *w = 1; return 0; } if (du == (void *)&H_w[1].du) { *w = 1; return 1; } return -1; }
static void h_merge(dispatch_unote_t du, uint32_t flags, uintptr_t data, pthread_priority_t pp)
{	(void)pp; _Bool w; int i = h_which(du._du, &w); if (i < 0) { H_bad = 1; return; }
	if (w) { H_merges_w[i]++; H_flags_w[i] = flags; H_data_w[i] = data; if (H_retains_w[i] != H_merges_w[i]) H_bad = 1; } else { H_merges_r[i]++; H_flags_r[i] = flags; H_data_r[i] = data; if (H_retains_r[i] != H_merges_r[i]) H_bad = 1; }
	/* the source sees the event with its pending data already stored and the unote no longer armed */
	if (du._dr->ds_pending_data != ~data || (du._du->du_state & DU_STATE_ARMED)) H_bad = 1; }
static inline void _dispatch_retain_unote_owner(dispatch_unote_t du) { _Bool w; int i = h_which(du._du, &w); if (i < 0) { H_bad = 1; return; } if (w) H_retains_w[i]++; else H_retains_r[i]++; }
int ioctl(int fd, unsigned long req, ...) { (void)fd; (void)req; return -1; }
int epoll_ctl(int epfd, int op, int fd, struct epoll_event *ev) { if (epfd != _dispatch_epfd || fd != H_dmn.dmn_fd) H_bad = 1; if (op == EPOLL_CTL_MOD) { H_mods++; H_kernel_events = ev ? ev->events : 0; } else if (op == EPOLL_CTL_DEL) { H_dels++; H_kernel_registered = 0; } else H_bad = 1; return 0; }
void dispatch_once_f(dispatch_once_t *val, void *ctxt, dispatch_function_t func) { (void)val; (void)ctxt; (void)func; }
#define HUP ((H_ev & EPOLLHUP) != 0)
#define GOT_IN ((H_ev & EPOLLIN) != 0)
#define GOT_OUT ((H_ev & EPOLLOUT) != 0)
#define ARMED_NOW (H_dmn.dmn_events & ~(uint32_t)H_dmn.dmn_disarmed_events)
#define RDR (H_k < H_nr)
#define WTR (H_k < H_nw)
VERIF_CONTRACT_VOID(_dispatch_event_merge_fd, (dispatch_muxnote_t dmn, uint32_t events),
  REQ(dmn == &H_dmn && events == H_ev && !H_bad && H_mods == 0 && H_dels == 0 && H_nr <= 2 && H_nw <= 2 && H_k < 2 && H_kernel_registered && H_type.dst_merge_evt == h_merge && (H_type.dst_flags & (EV_ONESHOT | EV_DISPATCH)))
  REQ(H_dmn.dmn_events == H_events0 && H_dmn.dmn_disarmed_events == H_disarmed0 && H_dmn.dmn_skip_inq_ioctl && H_dmn.dmn_skip_outq_ioctl)
  REQ(H_merges_r[0] == 0 && H_merges_r[1] == 0 && H_merges_w[0] == 0 && H_merges_w[1] == 0 && H_retains_r[0] == 0 && H_retains_r[1] == 0 && H_retains_w[0] == 0 && H_retains_w[1] == 0)
  REQ(H_dmn.dmn_readers_head.lh_first == (H_nr ? &H_r[0].link : 0) && H_r[0].link.du_link.le_next == (H_nr == 2 ? &H_r[1].link : 0) && H_r[1].link.du_link.le_next == 0)
  REQ(H_dmn.dmn_writers_head.lh_first == (H_nw ? &H_w[0].link : 0) && H_w[0].link.du_link.le_next == (H_nw == 2 ? &H_w[1].link : 0) && H_w[1].link.du_link.le_next == 0)
  REQ(H_r[0].du.du_type == &H_type && H_r[1].du.du_type == &H_type && H_w[0].du.du_type == &H_type && H_w[1].du.du_type == &H_type)
  ASG(VERIF_GHOST, __CPROVER_object_whole(&H_dmn), __CPROVER_object_whole(H_r), __CPROVER_object_whole(H_w), H_bad, H_mods, H_dels, H_kernel_events, H_kernel_registered,
      __CPROVER_object_whole(H_merges_r), __CPROVER_object_whole(H_merges_w), __CPROVER_object_whole(H_retains_r), __CPROVER_object_whole(H_retains_w), __CPROVER_object_whole(H_flags_r), __CPROVER_object_whole(H_flags_w), __CPROVER_object_whole(H_data_r), __CPROVER_object_whole(H_data_w))
  ENS(every_merge_is_preceded_by_one_retain_and_sees_its_pending_data, !H_bad)
  /* an event of a direction is delivered to EVERY unote waiting for that direction, exactly once (plus once more as a hang-up when the peer hung up),
   * and to no unote of the other direction */
  ENS(readable_is_delivered_once_to_every_reader, VIMPL(RDR, H_merges_r[H_k] == (GOT_IN ? 1u : 0u) + (HUP ? 1u : 0u) && H_retains_r[H_k] == H_merges_r[H_k]))
  ENS(writable_is_delivered_once_to_every_writer, VIMPL(WTR, H_merges_w[H_k] == (GOT_OUT ? 1u : 0u) + (HUP ? 1u : 0u) && H_retains_w[H_k] == H_merges_w[H_k]))
  ENS(unotes_that_are_not_registered_get_nothing, VIMPL(!RDR, H_merges_r[H_k] == 0) && VIMPL(!WTR, H_merges_w[H_k] == 0))
  ENS(a_hangup_is_delivered_as_delete_with_zero_data, VIMPL(HUP && RDR, H_flags_r[H_k] == (EV_DELETE | EV_DISPATCH) && H_data_r[H_k] == 0 && (H_r[H_k].du.du_state & DU_STATE_NEEDS_DELETE)))
  /* a hung-up descriptor is taken out of the kernel set (C16: monitoring stopped before the sources see the delete); otherwise the directions that were
   * not delivered stay armed in the kernel (a one-shot event disarms the whole descriptor: it is re-programmed with what is still armed) */
  ENS(hangup_removes_the_descriptor_from_the_kernel_set, VIMPL(HUP, H_dels == 1 && H_mods == 0))
  ENS(delivered_directions_are_disarmed_and_the_rest_is_rearmed_in_the_kernel, VIMPL(!HUP, H_dels == 0 && H_dmn.dmn_disarmed_events == (uint16_t)(H_disarmed0 | (H_ev & (EPOLLIN | EPOLLOUT))) && H_dmn.dmn_events == H_events0
        && H_mods == (ARMED_NOW ? 1u : 0u) && VIMPL(ARMED_NOW, H_kernel_events == ARMED_NOW)))
)
void harness(void)
{
	VERIF_GHOST_RESET(); H_bad = 0; H_mods = H_dels = 0; H_kernel_registered = 1; H_k = ND_BOOL() ? 1 : 0;
	H_nr = ND(unsigned); H_nw = ND(unsigned); __CPROVER_assume(H_nr <= 2 && H_nw <= 2); H_ev = ND(uint32_t); H_events0 = ND(uint32_t); H_disarmed0 = ND(uint16_t);
	H_type.dst_merge_evt = h_merge; H_type.dst_flags = EV_DISPATCH | (ND(uint16_t) & ~(EV_ONESHOT | EV_DISPATCH));
	H_dmn.dmn_events = H_events0; H_dmn.dmn_disarmed_events = H_disarmed0; H_dmn.dmn_skip_inq_ioctl = 1; H_dmn.dmn_skip_outq_ioctl = 1; H_dmn.dmn_fd = ND(int); H_dmn.dmn_ident = (uint32_t)H_dmn.dmn_fd;
	H_dmn.dmn_readers_head.lh_first = H_nr ? &H_r[0].link : 0; H_r[0].link.du_link.le_next = H_nr == 2 ? &H_r[1].link : 0; H_r[1].link.du_link.le_next = 0; H_r[0].link.du_link.le_prev = &H_dmn.dmn_readers_head.lh_first; H_r[1].link.du_link.le_prev = &H_r[0].link.du_link.le_next;
	H_dmn.dmn_writers_head.lh_first = H_nw ? &H_w[0].link : 0; H_w[0].link.du_link.le_next = H_nw == 2 ? &H_w[1].link : 0; H_w[1].link.du_link.le_next = 0; H_w[0].link.du_link.le_prev = &H_dmn.dmn_writers_head.lh_first; H_w[1].link.du_link.le_prev = &H_w[0].link.du_link.le_next;
	for (int i = 0; i < 2; i++) { H_r[i].du.du_type = &H_type; H_w[i].du.du_type = &H_type; H_r[i].du.du_state = ((uintptr_t)DISPATCH_WLH_ANON) | DU_STATE_ARMED; H_w[i].du.du_state = ((uintptr_t)DISPATCH_WLH_ANON) | DU_STATE_ARMED;
		H_merges_r[i] = H_merges_w[i] = H_retains_r[i] = H_retains_w[i] = 0; H_r[i].link.du_muxnote = &H_dmn; H_w[i].link.du_muxnote = &H_dmn; }
	_dispatch_event_merge_fd(&H_dmn, H_ev);
	VERIF_POST_VOID(_dispatch_event_merge_fd, &H_dmn, H_ev);
	VERIF_REACH(two_readers_got_it, H_nr == 2 && H_merges_r[1] == 1);
	VERIF_REACH(hangup, HUP && H_dels == 1);
	VERIF_CANARY();
}
#endif
