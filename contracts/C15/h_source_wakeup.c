/*VERIF
{ "tu": "src/source.c", "enforce": "_dispatch_source_wakeup", "props": ["C15", "C16", "C01"], "seq": true, "timeout": 300,
  "assumes": ["the flags / unote state / pending data are read as a snapshot; every later change of any of them comes with its own MAKE_DIRTY wakeup (merge_data, cancel: their contracts), so a decision taken on a stale snapshot is re-taken (C01 hand-shake)"],
  "stub_note": "_dispatch_queue_wakeup (own contract: h_queue_wakeup): logged with the chosen target" }
VERIF*/
#ifdef VERIF_PRE
#else
#define H_DR_TIMER_SIZED 1
#include "contracts/C15/source_common.h"
dispatch_queue_wakeup_target_t H_tq; dispatch_qos_t H_wq; dispatch_wakeup_flags_t H_wflags; unsigned H_wakeups;
void _dispatch_queue_wakeup(dispatch_queue_class_t dqu, dispatch_qos_t qos, dispatch_wakeup_flags_t flags, dispatch_queue_wakeup_target_t target)
{ (void)dqu; H_tq = target; H_wq = qos; H_wflags = flags; H_wakeups++; }
struct dispatch_lane_s H_user_tq;
uint32_t H_dqf; _Bool H_installed, H_direct, H_timer; unsigned long long H_pending; _Bool H_reg_handler, H_items;
#define DEAD (H_dqf & (DSF_CANCELED | DQF_RELEASED))
#define DKQ (H_direct ? DISPATCH_QUEUE_WAKEUP_TARGET : DISPATCH_QUEUE_WAKEUP_MGR)
VERIF_CONTRACT_VOID(_dispatch_source_wakeup, (dispatch_source_t ds, dispatch_qos_t qos, dispatch_wakeup_flags_t flags),
  REQ(ds == &H_ds && H_wakeups == 0 && H_ds.dq_atomic_flags == H_dqf && H_ds.ds_is_installed == H_installed && H_dr.du_is_direct == H_direct && H_dr.du_is_timer == H_timer && H_dr.ds_pending_data == H_pending)
  REQ(H_ds.do_targetq == (dispatch_queue_t)&H_user_tq && (H_dr.ds_handler[DS_REGISTN_HANDLER] != 0) == H_reg_handler && (H_ds.dq_items_tail != 0) == H_items)
  ASG(H_tq, H_wq, H_wflags, H_wakeups, VERIF_GHOST)
  ENS(decision_is_handed_to_the_queue_wakeup_exactly_once_unchanged, H_wakeups == 1 && H_wq == qos && H_wflags == flags)
  /* a source that was never installed is first sent to where it gets installed */
  ENS(uninstalled_source_goes_to_its_installation_queue, VIMPL(!H_installed, H_tq == DKQ))
  /* C15: merged but undelivered data on a live, installed source ALWAYS yields a target-queue wakeup: a merge is never stranded */
  ENS(pending_data_on_a_live_source_always_wakes_the_target_queue, VIMPL(H_installed && !DEAD && H_pending != 0, H_tq != DISPATCH_QUEUE_WAKEUP_NONE))
  /* C16: a cancelled (or released) source that is not yet deleted is driven towards deletion, unless it is waiting for its event */
  ENS(cancelled_source_is_driven_towards_deletion, VIMPL(H_installed && DEAD && !(H_dqf & DSF_DELETED) && !((H_dqf & DSF_NEEDS_EVENT) && !(flags & DISPATCH_WAKEUP_EVENT)), H_tq != DISPATCH_QUEUE_WAKEUP_NONE))
  /* queued items (handler setters, barriers) always get the source onto its target queue */
  ENS(queued_items_always_wake_the_target_queue, VIMPL(H_items, H_tq != DISPATCH_QUEUE_WAKEUP_NONE))
  /* a cancelled source never asks for pending data to be delivered (no event handler after cancel) */
  ENS(pending_data_alone_does_not_wake_a_cancelled_deleted_source, VIMPL(H_installed && DEAD && (H_dqf & DSF_DELETED) && !H_items && !H_reg_handler
        && !H_dr.ds_handler[DS_EVENT_HANDLER] && !H_dr.ds_handler[DS_CANCEL_HANDLER] && !(H_dr.du_state & DU_STATE_NEEDS_DELETE), H_tq == DISPATCH_QUEUE_WAKEUP_NONE))
)
void harness(void)
{
	h_setup_source();
	H_dqf = ND(uint32_t); H_installed = ND_BOOL(); H_direct = ND_BOOL(); H_timer = ND_BOOL(); H_pending = ND(unsigned long long); H_reg_handler = ND_BOOL(); H_items = ND_BOOL(); H_wakeups = 0;
	H_ds.dq_atomic_flags = H_dqf; H_ds.ds_is_installed = H_installed; H_dr.du_is_direct = H_direct; H_dr.du_is_timer = H_timer; H_dr.ds_pending_data = H_pending;
	H_ds.do_targetq = (dispatch_queue_t)&H_user_tq; H_dr.du_state = ND(uintptr_t);
	H_dr.ds_handler[DS_REGISTN_HANDLER] = H_reg_handler ? &H_handler : 0; H_dr.ds_handler[DS_EVENT_HANDLER] = ND_BOOL() ? &H_handler : 0; H_dr.ds_handler[DS_CANCEL_HANDLER] = ND_BOOL() ? &H_handler : 0;
	H_ds.dq_items_tail = H_items ? (struct dispatch_object_s *)&H_handler : 0;
	H_dru.t.dt_pending_config = ND_BOOL() ? (dispatch_timer_config_t)&H_handler : 0; H_dru.t.dt_timer.target = ND(uint64_t);
	H_type.dst_flags = ND(uint16_t);
	dispatch_qos_t qos = ND(dispatch_qos_t); dispatch_wakeup_flags_t flags = ND(dispatch_wakeup_flags_t);
	_dispatch_source_wakeup(&H_ds, qos, flags);
	VERIF_POST_VOID(_dispatch_source_wakeup, &H_ds, qos, flags);
	VERIF_REACH(no_wakeup_needed, H_tq == DISPATCH_QUEUE_WAKEUP_NONE);
	VERIF_CANARY();
}
#endif
