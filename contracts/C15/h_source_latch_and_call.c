/*VERIF
{ "tu": "src/source.c", "enforce": "_dispatch_source_latch_and_call", "props": ["C15"], "nondet_volatile": true, "timeout": 200,
  "assumes": ["custom (DATA_ADD / DATA_OR / DATA_REPLACE) sources; timer sources are covered in C11"],
  "stub_note": "_dispatch_continuation_pop: the event handler call-out, logged with the ds_data value visible to dispatch_source_get_data at that moment" }
VERIF*/
#ifdef VERIF_PRE
#else
#include "contracts/C15/source_common.h"
unsigned long long H_data_at_callout; unsigned H_callouts;
static inline void _dispatch_continuation_pop(dispatch_object_t dou, dispatch_invoke_context_t dic, dispatch_invoke_flags_t flags, dispatch_queue_class_t dqu)
{ (void)dic; (void)flags; (void)dqu; H_callouts++; H_data_at_callout = H_dr.ds_data; __verif_event(EV_CALLOUT, 0, dou._do, H_dr.ds_data, 0); }
struct dispatch_lane_s H_cq;
/* the ONE exchange of the pending word is the first commit on it */
#define LATCHED LOGA(H_latch_idx)
#define H_latch_idx ((__verif_n >= 1 && IS_COMMIT(0, PENDING_P)) ? 0 : 1)
VERIF_CONTRACT_VOID(_dispatch_source_latch_and_call, (dispatch_source_t ds, dispatch_queue_t cq, dispatch_invoke_flags_t flags),
  REQ(ds == &H_ds && ds->ds_refs == &H_dr && __verif_n == 0 && H_callouts == 0 && !H_dr.du_is_timer &&
      (H_type.dst_action == DISPATCH_UNOTE_ACTION_SOURCE_ADD_DATA || H_type.dst_action == DISPATCH_UNOTE_ACTION_SOURCE_OR_FFLAGS || H_type.dst_action == DISPATCH_UNOTE_ACTION_PASS_DATA))
  ASG(H_dr.ds_pending_data, H_dr.ds_data, H_callouts, H_data_at_callout, VERIF_GHOST)
  ENS(log_bounded, __verif_n >= 1 && __verif_n <= 3)
  /* latch = ONE atomic exchange of the pending word with zero: what is delivered is exactly what was removed */
  ENS(latch_is_one_atomic_exchange_with_zero, IS_COMMIT(H_latch_idx, PENDING_P) && LOGB(H_latch_idx) == 0 &&
        VIMPL(__verif_n > H_latch_idx + 1, !IS_COMMIT(H_latch_idx + 1, PENDING_P)))
  ENS(handler_sees_exactly_the_value_removed_from_pending, VIMPL(H_callouts == 1, H_data_at_callout == LATCHED))
  ENS(handler_is_never_invoked_with_zero, VIMPL(H_callouts == 1, LATCHED != 0 && H_data_at_callout != 0))
  ENS(at_most_one_invocation_per_latch, H_callouts <= 1)
)
void harness(void)
{
	h_setup_source();
	H_dr.du_is_timer = 0; H_type.dst_action = ND(uint8_t); H_dr.du_filter = ND(int8_t); H_callouts = 0;
	__verif_ptrloc = &H_dr.ds_handler[DS_EVENT_HANDLER]; __verif_ptrobj = &H_handler;
	dispatch_invoke_flags_t flags = ND(dispatch_invoke_flags_t);
	_dispatch_source_latch_and_call(&H_ds, (dispatch_queue_t)&H_cq, flags);
	VERIF_POST_VOID(_dispatch_source_latch_and_call, &H_ds, (dispatch_queue_t)&H_cq, flags);
	VERIF_REACH(called, H_callouts == 1);
	VERIF_REACH(zero_latched_not_called, H_callouts == 0 && __verif_n >= 1);
	VERIF_CANARY();
}
#endif
