/*VERIF
{ "tu": "src/event/event_epoll.c", "enforce": "_dispatch_event_loop_drain", "props": ["C15", "C11", "C14"], "seq": true, "timeout": 600, "unwind": 18, "unwind_fns": ["_dispatch_event_loop_drain"],
  "cut_goto": {"_dispatch_event_loop_drain": ["retry"]},
  "assumes": ["the kernel returns at most DISPATCH_EPOLL_MAX_EVENT_COUNT (16) events per wait: the event loop has a constant bound, unwinding 18 is complete (unwinding assertions)",
              "each event names the event descriptor, one of the three timer descriptors, or a descriptor's muxnote (read / signal filter); muxnote pointers are not small integers",
              "the retry after EINTR is cut inductively: at the back-jump nothing has been dispatched yet"],
  "stub_note": "epoll_wait (kernel: returns the harness events, -1/EINTR, or another error), eventfd_read, _dispatch_event_merge_timer (h_drain_timers family), _dispatch_event_merge_fd (b_event_merge_fd), _dispatch_event_merge_signal: recorded in order" }
VERIF*/
#ifdef VERIF_PRE
#else
#include "contracts/common/dq_common.h"
enum { KD_EVENTFD = 1, KD_WALL, KD_UPTIME, KD_MONO, KD_READ, KD_SIGNAL };
struct { char pad[64]; struct dispatch_muxnote_s m[16]; } H_mux; struct h_evs { struct epoll_event e[16]; }; struct epoll_event H_ev[16]; unsigned H_kind[16]; int H_r; int H_err; _Bool H_bad; unsigned H_idx, H_waits; int H_timeout_seen; int H_errno;
int *__errno_location(void) { return &H_errno; }
int epoll_wait(int epfd, struct epoll_event *events, int maxevents, int timeout)
{ H_waits++; H_timeout_seen = timeout; if (epfd != _dispatch_epfd || maxevents != 16) H_bad = 1; if (H_r < 0) { H_errno = H_err; return -1; } *(struct h_evs *)events = *(struct h_evs *)H_ev; return H_r; }
static void h_dispatch(unsigned kind, void *p, uint32_t evs)
{ if (H_idx >= 16 || (int)H_idx >= H_r || H_kind[H_idx] != kind) H_bad = 1; else if ((kind == KD_READ || kind == KD_SIGNAL) && (p != (void *)&H_mux.m[H_idx] || (kind == KD_READ && evs != H_ev[H_idx].events))) H_bad = 1; H_idx++; }
int eventfd_read(int fd, eventfd_t *value) { if (fd != _dispatch_eventfd) H_bad = 1; *value = 1; h_dispatch(KD_EVENTFD, 0, 0); return 0; }
static void _dispatch_event_merge_timer(dispatch_clock_t clock) { h_dispatch(clock == DISPATCH_CLOCK_WALL ? KD_WALL : clock == DISPATCH_CLOCK_UPTIME ? KD_UPTIME : KD_MONO, 0, 0); }
static void _dispatch_event_merge_fd(dispatch_muxnote_t dmn, uint32_t events) { h_dispatch(KD_READ, dmn, events); }
static void _dispatch_event_merge_signal(dispatch_muxnote_t dmn) { h_dispatch(KD_SIGNAL, dmn, 0); }
void _dispatch_bug(size_t line, uintptr_t val) { (void)line; (void)val; }
static inline void __verif_cut_backjump(void)
{	/* EINTR: wait again; nothing has been dispatched, the same wait is issued again (the re-entry state is the entry state) */
	VERIF_ASSERT(an_interrupted_wait_is_retried_before_anything_is_dispatched, H_r < 0 && H_err == EINTR && H_idx == 0 && !H_bad);
	VERIF_REACH(interrupted_wait_retried, 1);
	__CPROVER_assume(0);
}
VERIF_CONTRACT_VOID(_dispatch_event_loop_drain, (uint32_t flags),
  REQ(H_idx == 0 && H_waits == 0 && !H_bad && H_r <= 16 && H_r >= -1 && H_err != EBADF)
  ASG(H_idx, H_waits, H_bad, H_timeout_seen, H_errno)
  /* C15 / C11 / C14: every event the kernel reported is dispatched EXACTLY ONCE, in order, to the handler of its kind (timer descriptor of the right clock -> timer
   * merge; descriptor muxnote -> fd merge with the reported event mask, or signal merge; event descriptor -> drained): none skipped, none delivered twice */
  ENS(every_reported_event_is_dispatched_exactly_once_in_order_to_its_kind, !H_bad && H_idx == (H_r > 0 ? (unsigned)H_r : 0u))
  ENS(one_wait_blocking_unless_immediate, H_waits == 1 && H_timeout_seen == ((flags & KEVENT_FLAG_IMMEDIATE) ? 0 : -1))
)
void harness(void)
{
	VERIF_GHOST_RESET();
	H_r = ND(int); __CPROVER_assume(H_r >= -1 && H_r <= 16); H_err = ND(int); __CPROVER_assume(H_err != EBADF); H_idx = 0; H_waits = 0; H_bad = 0;
	for (unsigned k = 0; k < 16; k++) {
		H_kind[k] = ND(unsigned); __CPROVER_assume(H_kind[k] >= KD_EVENTFD && H_kind[k] <= KD_SIGNAL);
		H_ev[k].events = ND(uint32_t) & ~(uint32_t)EPOLLFREE;
		if (H_kind[k] <= KD_MONO) { H_ev[k].data.u64 = 0; H_ev[k].data.u32 = H_kind[k] == KD_EVENTFD ? DISPATCH_EPOLL_EVENTFD : H_kind[k] == KD_WALL ? DISPATCH_EPOLL_CLOCK_WALL : H_kind[k] == KD_UPTIME ? DISPATCH_EPOLL_CLOCK_UPTIME : DISPATCH_EPOLL_CLOCK_MONOTONIC; }
		else { H_ev[k].data.ptr = &H_mux.m[k]; H_mux.m[k].dmn_filter = H_kind[k] == KD_READ ? EVFILT_READ : EVFILT_SIGNAL; }
	}
	uint32_t flags = ND(uint32_t);
	_dispatch_event_loop_drain(flags);
	VERIF_POST_VOID(_dispatch_event_loop_drain, flags);
	VERIF_REACH(sixteen_events, H_r == 16 && H_idx == 16);
	VERIF_CANARY();
}
#endif
