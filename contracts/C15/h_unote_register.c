/*VERIF
{ "tu": "src/event/event.c", "enforce": "_dispatch_unote_register", "props": ["C15", "C16", "C11"], "seq": true, "timeout": 200,
  "assumes": ["the unote is not registered yet (or is a timer)"],
  "stub_note": "_dispatch_timer_unote_register (C11: h_timer_unote_*), _dispatch_unote_register_muxed (own contract: h_unote_register_muxed): recorded" }
VERIF*/
#ifdef VERIF_PRE
#else
/* one object seen through the two struct types the code uses for it (class header / source refs): CBMC reads a bit-field wrongly through a pointer
 * of another struct type than the one it was written with, so the bit-fields are set through the class view */
union { struct dispatch_unote_class_s c; struct dispatch_source_refs_s r; } H_dru;
#define H_dr (H_dru.r)
dispatch_priority_t H_pri; uint64_t H_pending0; unsigned H_timer_regs, H_muxed_regs; _Bool H_muxed_ok, H_bad; int H_filter; _Bool H_is_timer;
static void _dispatch_timer_unote_register(dispatch_timer_source_refs_t dt, dispatch_wlh_t wlh, dispatch_priority_t pri) { (void)wlh; if ((void *)dt != (void *)&H_dr || pri != H_pri) H_bad = 1; H_timer_regs++; }
bool _dispatch_unote_register_muxed(dispatch_unote_t du) { if (du._dr != &H_dr) H_bad = 1; H_muxed_regs++; return H_muxed_ok; }
#define CUSTOM (H_filter == DISPATCH_EVFILT_CUSTOM_ADD || H_filter == DISPATCH_EVFILT_CUSTOM_OR || H_filter == DISPATCH_EVFILT_CUSTOM_REPLACE)
VERIF_CONTRACT(bool, _dispatch_unote_register, (dispatch_unote_t du, dispatch_wlh_t wlh, dispatch_priority_t pri),
  REQ(du._dr == &H_dr && wlh == DISPATCH_WLH_ANON && pri == H_pri && H_dru.c.du_filter == H_filter && H_dru.c.du_is_timer == H_is_timer && !H_dru.c.du_is_direct && H_dr.ds_pending_data == H_pending0 && (H_is_timer || (H_dr.du_state & ~(uintptr_t)3) == 0))
  REQ(H_timer_regs == 0 && H_muxed_regs == 0 && !H_bad && !(CUSTOM && H_is_timer))
  ASG(VERIF_GHOST, __CPROVER_object_whole(&H_dru), H_timer_regs, H_muxed_regs, H_bad)
  /* C15: dispatch_source_merge_data may be called BEFORE the source is registered (before the first resume, or while its target queue is suspended):
   * what was merged then is pending data like any other and registration must not touch it */
  ENS(registration_never_touches_data_that_was_already_merged, H_dr.ds_pending_data == H_pending0)
  ENS(custom_sources_need_no_kernel_registration_and_are_armed_at_once, VIMPL(CUSTOM, __CPROVER_return_value && H_dr.du_state == (((uintptr_t)DISPATCH_WLH_ANON) | DU_STATE_ARMED) && H_timer_regs == 0 && H_muxed_regs == 0))
  ENS(timers_go_to_the_timer_heaps, VIMPL(!CUSTOM && H_is_timer, __CPROVER_return_value && H_timer_regs == 1 && H_muxed_regs == 0))
  ENS(descriptor_and_signal_sources_go_to_the_epoll_layer_once, VIMPL(!CUSTOM && !H_is_timer, H_muxed_regs == 1 && H_timer_regs == 0 && __CPROVER_return_value == H_muxed_ok))
  ENS(the_priority_is_recorded, H_dr.du_priority == H_pri && !H_bad)
)
void harness(void)
{
	VERIF_GHOST_RESET(); H_bad = 0; H_timer_regs = H_muxed_regs = 0; H_muxed_ok = ND_BOOL();
	int f = ND(int); H_filter = f == 0 ? DISPATCH_EVFILT_CUSTOM_ADD : f == 1 ? DISPATCH_EVFILT_CUSTOM_OR : f == 2 ? DISPATCH_EVFILT_CUSTOM_REPLACE : f == 3 ? EVFILT_READ : f == 4 ? EVFILT_WRITE : f == 5 ? EVFILT_SIGNAL : DISPATCH_EVFILT_TIMER;
	H_is_timer = (H_filter == DISPATCH_EVFILT_TIMER); H_dru.c.du_filter = (int8_t)H_filter; H_dru.c.du_is_timer = H_is_timer; H_dru.c.du_is_direct = 0; H_dr.du_state = 0;
	H_pending0 = ND(uint64_t); H_dr.ds_pending_data = H_pending0; H_pri = ND(dispatch_priority_t) | DISPATCH_PRIORITY_FLAG_MANAGER;
	bool r = _dispatch_unote_register((dispatch_unote_t){ ._dr = &H_dr }, DISPATCH_WLH_ANON, H_pri);
	VERIF_POST(_dispatch_unote_register, r, (dispatch_unote_t){ ._dr = &H_dr }, DISPATCH_WLH_ANON, H_pri);
	VERIF_REACH(custom_with_pending_data, CUSTOM && H_pending0 != 0);
	VERIF_CANARY();
}
#endif
