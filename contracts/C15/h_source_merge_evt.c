/*VERIF
{ "tu": "src/source.c", "enforce": "_dispatch_source_merge_evt", "props": ["C15", "C16", "C17", "C14"], "seq": true, "timeout": 200,
  "rewrite": [["((void*)~((du._dr)->du_owner_wref))", "h_owner_of(du._dr)"]],
  "assumes": ["called on the manager thread by the event layer, which took one +2 on the source for this event (b_event_merge_fd: every merge is preceded by one retain)",
              "the owner back-reference of the unote (stored as the complement of the pointer) denotes its source; the complement arithmetic itself is replaced by a lookup (R-rewrite: CBMC keeps no object identity through ~)"],
  "stub_note": "dx_wakeup of the harness vtable (own contract: h_source_wakeup), _dispatch_source_refs_finalize_unregistration (h_finalize_unregistration), _dispatch_bug_kevent_vanished: recorded" }
VERIF*/
#ifdef VERIF_PRE
struct dispatch_source_refs_s; void *h_owner_of(struct dispatch_source_refs_s *dr);
#else
#define H_DR_TIMER_SIZED 1
#include "contracts/C15/source_common.h"
unsigned H_finalizes, H_vanished_bugs; _Bool H_bad; uint32_t H_evflags; uint64_t H_pending0; uintptr_t H_state0; _Bool H_is_timer;
void *h_owner_of(struct dispatch_source_refs_s *dr) { if (dr != &H_dr) H_bad = 1; return &H_ds; }
void _dispatch_source_refs_finalize_unregistration(dispatch_source_t ds) { if (ds != &H_ds || __verif_n != 0) H_bad = 1; H_finalizes++; }
void _dispatch_bug_kevent_vanished(dispatch_unote_class_t du) { (void)du; H_vanished_bugs++; }
#define REGISTERED0 (H_state0 != DU_STATE_UNREGISTERED)
VERIF_CONTRACT_VOID(_dispatch_source_merge_evt, (dispatch_unote_t du, uint32_t flags, uintptr_t data, pthread_priority_t pp),
  REQ(du._dr == &H_dr && flags == H_evflags && !(H_evflags & EV_UDATA_SPECIFIC) && H_dr.du_state == H_state0 && H_dr.ds_pending_data == H_pending0 && __verif_n == 0 && H_finalizes == 0 && !H_bad && !(H_ds.dq_atomic_flags & DSF_STRICT))
  ASG(VERIF_GHOST, __CPROVER_object_whole(&H_dru), H_finalizes, H_vanished_bugs, H_bad)
  /* C15 / C17: every event the kernel layer hands over ends in EXACTLY ONE wakeup of the source, marked EVENT + MAKE_DIRTY (the source's drainer must look at
   * its pending data again) and consuming the +2 the event layer took for it */
  ENS(every_event_wakes_the_source_exactly_once_dirty_and_consumes_the_reference, !H_bad && __verif_n >= 1 && LOGK(LAST) == EV_WAKEUP && LOGP(LAST) == (void *)&H_ds
        && LOGA(LAST) == (DISPATCH_WAKEUP_EVENT | DISPATCH_WAKEUP_CONSUME_2 | DISPATCH_WAKEUP_MAKE_DIRTY) && (__verif_n < 2 || LOGK(LAST - 1) != EV_WAKEUP))
  /* C16: an event that finds the unote already unregistered (its registration was deleted together with the event) finishes the unregistration BEFORE the
   * source is woken, so the cancel handler runs after monitoring stopped; timers are finished from their own queue instead */
  ENS(an_event_on_an_unregistered_unote_finishes_the_unregistration_first, H_finalizes == ((!REGISTERED0 && !H_is_timer) ? 1u : 0u))
  ENS(pending_data_is_only_dropped_when_the_resource_vanished, H_dr.ds_pending_data == ((H_evflags & EV_VANISHED) ? 0 : H_pending0))
)
void harness(void)
{
	h_setup_source(); uint32_t tid = ND(uint32_t); __CPROVER_assume(VALID_TID(tid)); __dispatch_tsd.tid = (pid_t)tid;
	H_bad = 0; H_finalizes = 0; H_vanished_bugs = 0; H_evflags = ND(uint32_t) & ~(uint32_t)EV_UDATA_SPECIFIC; H_is_timer = ND_BOOL();
	H_state0 = ND_BOOL() ? (((uintptr_t)DISPATCH_WLH_ANON) | (ND(uintptr_t) & 3)) : (ND(uintptr_t) & 3); H_dr.du_state = H_state0; H_pending0 = ND(uint64_t); H_dr.ds_pending_data = H_pending0;
	H_dru.c.du_is_timer = H_is_timer; H_ds.dq_atomic_flags = ND(uint32_t) & ~(uint32_t)DSF_STRICT;
	_dispatch_source_merge_evt((dispatch_unote_t){ ._dr = &H_dr }, H_evflags, ND(uintptr_t), ND(pthread_priority_t));
	VERIF_POST_VOID(_dispatch_source_merge_evt, (dispatch_unote_t){ ._dr = &H_dr }, H_evflags, 0, 0);
	VERIF_REACH(hangup_finalized, H_finalizes == 1);
	VERIF_CANARY();
}
#endif
