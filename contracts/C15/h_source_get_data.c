/*VERIF
{ "tu": "src/source.c", "enforce": "dispatch_source_get_data", "props": ["C15", "C11"], "seq": true, "timeout": 120,
  "stub_note": "none (leaf)" }
VERIF*/
#ifdef VERIF_PRE
#else
#include "contracts/C15/source_common.h"
uint64_t H_data0, H_pending0; _Bool H_ext;
VERIF_CONTRACT(uintptr_t, dispatch_source_get_data, (dispatch_source_t ds),
  REQ(ds == &H_ds && H_ds.ds_refs == &H_dr && H_dr.ds_data == H_data0 && H_dr.ds_pending_data == H_pending0 && H_dr.du_has_extended_status == H_ext)
  ASG()
  /* C15: what the handler reads is the value LATCHED for this invocation (ds_data, written once by the latch step: h_source_latch_and_call), never the pending
   * accumulator that other threads keep merging into; reading does not consume anything */
  ENS(the_latched_value_is_reported_not_the_pending_one, __CPROVER_return_value == (H_ext ? (uintptr_t)(H_data0 & 0xffffffffull) : (uintptr_t)H_data0))
  ENS(reading_changes_nothing, H_dr.ds_data == H_data0 && H_dr.ds_pending_data == H_pending0)
)
void harness(void)
{
	h_setup_source(); H_data0 = ND(uint64_t); H_pending0 = ND(uint64_t); H_ext = ND_BOOL(); H_dr.ds_data = H_data0; H_dr.ds_pending_data = H_pending0; H_dr.du_has_extended_status = H_ext;
	uintptr_t r = dispatch_source_get_data(&H_ds);
	VERIF_POST(dispatch_source_get_data, r, &H_ds);
	VERIF_CANARY();
}
#endif
