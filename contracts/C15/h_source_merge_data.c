/*VERIF
{ "tu": "src/source.c", "enforce": "dispatch_source_merge_data", "props": ["C15"], "nondet_volatile": true, "timeout": 120,
  "stub_note": "dx_wakeup: logged call-out" }
VERIF*/
#ifdef VERIF_PRE
#else
#include "contracts/C15/source_common.h"
#define FLAGS_SEEN ((dispatch_queue_flags_t)__verif_flags_seen)
unsigned long long __verif_flags_seen;
#define IS_ADD (H_dr.du_filter == DISPATCH_EVFILT_CUSTOM_ADD)
#define IS_OR (H_dr.du_filter == DISPATCH_EVFILT_CUSTOM_OR)
#define IS_REPLACE (H_dr.du_filter == DISPATCH_EVFILT_CUSTOM_REPLACE)
VERIF_CONTRACT_VOID(dispatch_source_merge_data, (dispatch_source_t ds, uintptr_t val),
  REQ(ds == &H_ds && ds->ds_refs == &H_dr && __verif_n == 0 && (IS_ADD || IS_OR || IS_REPLACE))
  ASG(H_dr.ds_pending_data, VERIF_GHOST)
  ENS(log_bounded, __verif_n == 0 || __verif_n == 2)
  /* merge = ONE atomic add / or / store on the pending word ... */
  ENS(merge_is_one_atomic_update_of_the_right_kind, VIMPL(__verif_n == 2, IS_COMMIT(0, PENDING_P) &&
        (IS_ADD ? LOGB(0) == LOGA(0) + val : IS_OR ? LOGB(0) == (LOGA(0) | val) : LOGB(0) == val)))
  /* ... followed by exactly one MAKE_DIRTY wakeup of the source, whatever its suspension state */
  ENS(merge_is_followed_by_exactly_one_make_dirty_wakeup, VIMPL(__verif_n == 2, LOGK(1) == EV_WAKEUP && LOGP(1) == (void *)ds && LOGA(1) == DISPATCH_WAKEUP_MAKE_DIRTY))
  /* nothing at all only if the source was observed cancelled or released */
  ENS(ignored_only_when_cancelled_or_released, VIMPL(__verif_n == 0, __verif_last_load_p == FLAGS_P && (__verif_last_load & (DSF_CANCELED | DQF_RELEASED)) != 0))
)
void harness(void)
{
	h_setup_source();
	H_dr.du_filter = ND(int8_t);
	uintptr_t val = ND(uintptr_t);
	dispatch_source_merge_data(&H_ds, val);
	VERIF_POST_VOID(dispatch_source_merge_data, &H_ds, val);
	VERIF_REACH(merged, __verif_n == 2);
	VERIF_REACH(ignored, __verif_n == 0);
	VERIF_CANARY();
}
#endif
