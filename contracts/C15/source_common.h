/* C15/C16 scaffolding: a source object with its refs */
#define DQ_STUB_REFS 1
#define H_LANE_TYPE DISPATCH_SOURCE_KEVENT_TYPE
#include "contracts/common/dq_common.h"
struct dispatch_source_s H_ds; struct dispatch_source_type_s H_type;
#ifdef H_DR_TIMER_SIZED   /* the refs object is as large as a timer's refs, so the timer-only fields can be looked at */
union { struct dispatch_source_refs_s r; struct dispatch_timer_source_refs_s t; struct dispatch_unote_class_s c; } H_dru;   /* c: the view bit-fields are read through (du._du->...) */
#define H_dr (H_dru.r)
#else
struct dispatch_source_refs_s H_dr;
#endif
struct dispatch_continuation_s H_handler;
static void h_src_wakeup(dispatch_queue_class_t dq, dispatch_qos_t qos, dispatch_wakeup_flags_t flags)
{ (void)qos; __verif_event(EV_WAKEUP, 0, dq._dq, flags, 0); }
static const struct dispatch_source_vtable_s H_src_vtable = { ._os_obj_vtable = { .do_type = DISPATCH_SOURCE_KEVENT_TYPE, .dq_wakeup = h_src_wakeup } };
static inline void h_setup_source(void)
{
	VERIF_GHOST_RESET();
	H_ds.do_vtable = &H_src_vtable; H_ds.ds_refs = &H_dr; H_dr.du_type = &H_type;
}
#define PENDING_P ((const volatile void *)&H_dr.ds_pending_data)
#define FLAGS_P ((const volatile void *)&H_ds.dq_atomic_flags)
void _dispatch_bug(size_t line, uintptr_t val) { (void)line; (void)val; } /* diagnostic log only */
