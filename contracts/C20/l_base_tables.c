/*VERIF
{ "tu": "src/transform.c", "props": ["C20"], "seq": true, "mode": "lemma", "timeout": 120,
  "assumes": ["lemma about the real encode/decode tables and the table sizes the decoders use (loop-free, symbolic index)"] }
VERIF*/
#ifdef VERIF_PRE
#else
void harness(void)
{
	unsigned i = (unsigned)ND(unsigned);
	/* every symbol an encoder can emit is accepted by the matching decoder (inside the size it checks) and decodes back to its index */
	if (i < 32) {
		VERIF_ASSERT(base32_alphabet_within_decoder_table_size, (ssize_t)base32_encode_table[i] < base32_decode_table_size);
		VERIF_ASSERT(base32_decode_inverts_encode, base32_decode_table[base32_encode_table[i]] == (signed char)i);
		VERIF_ASSERT(base32hex_alphabet_within_decoder_table_size, (ssize_t)base32hex_encode_table[i] < base32hex_decode_table_size);
		VERIF_ASSERT(base32hex_decode_inverts_encode, base32hex_decode_table[base32hex_encode_table[i]] == (signed char)i);
	}
	if (i < 64) {
		VERIF_ASSERT(base64_alphabet_within_decoder_table_size, (ssize_t)base64_encode_table[i] < base64_decode_table_size);
		VERIF_ASSERT(base64_decode_inverts_encode, base64_decode_table[base64_encode_table[i]] == (signed char)i);
	}
	/* the size a decoder checks never exceeds the real table (no read past it), and padding is recognised */
	VERIF_ASSERT(decoder_sizes_do_not_exceed_the_tables, base32_decode_table_size <= (ssize_t)sizeof(base32_decode_table) &&
		base32hex_decode_table_size <= (ssize_t)sizeof(base32hex_decode_table) && base64_decode_table_size <= (ssize_t)sizeof(base64_decode_table));
	VERIF_ASSERT(padding_symbol_is_marked, base32_decode_table['='] == -2 && base32hex_decode_table['='] == -2 && base64_decode_table['='] == -2);
	/* a byte that is not in the alphabet (and is not '=') is never given a value */
	unsigned c = (unsigned)ND(unsigned) % 256;
	if ((ssize_t)c < base64_decode_table_size && base64_decode_table[c] >= 0) {
		VERIF_ASSERT(base64_only_alphabet_bytes_decode, base64_encode_table[base64_decode_table[c]] == c);
	}
	if ((ssize_t)c < base32_decode_table_size && base32_decode_table[c] >= 0) {
		VERIF_ASSERT(base32_only_alphabet_bytes_decode, base32_encode_table[base32_decode_table[c]] == c);
	}
	if ((ssize_t)c < base32hex_decode_table_size && base32hex_decode_table[c] >= 0) {
		VERIF_ASSERT(base32hex_only_alphabet_bytes_decode, base32hex_encode_table[base32hex_decode_table[c]] == c);
	}
	VERIF_CANARY();
}
#endif
