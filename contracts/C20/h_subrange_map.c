/*VERIF
{ "tu": "src/transform.c", "enforce": "_dispatch_data_subrange_map", "props": ["C20"], "seq": true, "timeout": 120,
  "stub_note": "dispatch_data_create_subrange / get_size / create_map / release: the C13 contracts as stubs (subrange = clamped slice)" }
VERIF*/
#ifdef VERIF_PRE
#else
struct dispatch_data_s H_data, H_sub, H_map; size_t H_total, H_sub_size; unsigned H_maps, H_releases; const void *H_mapped_ptr; uint8_t H_bytes[8];
dispatch_data_t dispatch_data_create_subrange(dispatch_data_t dd, size_t offset, size_t length)
{ (void)dd; H_sub_size = offset >= H_total ? 0 : (length > H_total - offset ? H_total - offset : length); return &H_sub; }   /* clamped slice (C13) */
size_t dispatch_data_get_size(dispatch_data_t dd) { return dd == &H_sub ? H_sub_size : H_total; }
dispatch_data_t dispatch_data_create_map(dispatch_data_t dd, const void **buffer_ptr, size_t *size_ptr)
{ (void)dd; (void)size_ptr; H_maps++; *buffer_ptr = H_bytes; return &H_map; }   /* a buffer valid for exactly H_sub_size bytes */
void dispatch_release(dispatch_object_t o) { (void)o; H_releases++; }
VERIF_CONTRACT(dispatch_data_t, _dispatch_data_subrange_map, (dispatch_data_t data, const void **ptr, size_t offset, size_t size),
  REQ(data == &H_data && ptr == &H_mapped_ptr && H_maps == 0 && H_releases == 0)
  ASG(H_sub_size, H_maps, H_releases, H_mapped_ptr)
  /* the codecs read exactly `size` bytes through the returned pointer: a map is handed out ONLY if the data really has all of them */
  ENS(never_returns_a_map_shorter_than_requested, VIMPL(__CPROVER_return_value != 0 && size >= 1, H_sub_size == size && offset < H_total && size <= H_total - offset))
  ENS(maps_whenever_the_range_is_inside_the_data, VIMPL(size >= 1 && offset < H_total && size <= H_total - offset, __CPROVER_return_value != 0 && H_maps == 1))
  ENS(temporary_subrange_is_released, H_releases == 1)
)
void harness(void)
{
	VERIF_GHOST_RESET();
	H_total = ND(size_t); H_maps = 0; H_releases = 0;
	size_t off = ND(size_t), sz = ND(size_t);
	dispatch_data_t r = _dispatch_data_subrange_map(&H_data, &H_mapped_ptr, off, sz);
	VERIF_POST(_dispatch_data_subrange_map, r, &H_data, &H_mapped_ptr, off, sz);
	VERIF_REACH(short_range_refused, r == 0 && off < H_total && sz > H_total - off);
	VERIF_CANARY();
}
#endif
