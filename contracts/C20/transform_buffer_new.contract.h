#include "contracts/common/dq_common.h"
#ifdef VERIF_NATIVE
#define H_ALLOC(n) malloc((n) ? (n) : 1)
#define H_W_OK(p, n) 1
#else
#define H_ALLOC(n) __CPROVER_allocate((n), 0)
#define H_W_OK(p, n) ((n) == 0 || __CPROVER_w_ok((p), (n)))
#endif
dispatch_transform_buffer_s H_buf; struct dispatch_data_s H_data0, H_new, H_cat; uint8_t *H_start0; size_t H_size0, H_used0; _Bool H_malloc_fails;
unsigned H_creates, H_concats, H_frees, H_mallocs; const void *H_create_buf; size_t H_create_len; dispatch_data_t H_cat_a, H_cat_b; void *H_freed; size_t H_malloc_n; uint8_t *H_malloc_p; unsigned H_rel_new, H_rel_data0;
dispatch_data_t dispatch_data_create(const void *buffer, size_t size, dispatch_queue_t q, dispatch_block_t destructor)
{ (void)q; H_creates++; H_create_buf = buffer; H_create_len = size; if (destructor != DISPATCH_DATA_DESTRUCTOR_FREE) H_creates = 99; return &H_new; }
dispatch_data_t dispatch_data_create_concat(dispatch_data_t a, dispatch_data_t b) { H_concats++; H_cat_a = a; H_cat_b = b; return &H_cat; }
void dispatch_release(dispatch_object_t o) { if (o._do == (void *)&H_new) H_rel_new++; else if (o._do == (void *)&H_data0) H_rel_data0++; }
void free(void *p) { H_frees++; H_freed = p; }
void *malloc(size_t n) { H_mallocs++; H_malloc_n = n; H_malloc_p = H_malloc_fails ? (uint8_t *)0 : (uint8_t *)H_ALLOC(n); return H_malloc_p; }
#define REMAINING0 (H_size0 - H_used0)
#define RENEW(required) ((required) == 0 || REMAINING0 < (required))
VERIF_CONTRACT(bool, _dispatch_transform_buffer_new, (dispatch_transform_buffer_s *buffer, size_t required, size_t size),
  REQ(buffer == &H_buf && H_buf.data == &H_data0 && H_buf.start == H_start0 && H_buf.size == H_size0 && H_used0 <= H_size0 && H_buf.ptr.u8 == H_start0 + H_used0 && (H_start0 != 0 || (H_size0 == 0 && H_used0 == 0)))
  REQ(required <= 8 && size <= ((size_t)1 << 40) && H_size0 <= BUFFER_MALLOC_MAX && H_creates == 0 && H_concats == 0 && H_frees == 0 && H_mallocs == 0 && H_rel_new == 0 && H_rel_data0 == 0)
  ASG(__CPROVER_object_whole(&H_buf), H_creates, H_concats, H_frees, H_mallocs, H_create_buf, H_create_len, H_cat_a, H_cat_b, H_freed, H_malloc_n, H_malloc_p, H_rel_new, H_rel_data0)
  /* enough room left: nothing happens at all */
  ENS(enough_room_means_nothing_changes, VIMPL(!RENEW(required), __CPROVER_return_value && H_buf.start == H_start0 && H_buf.ptr.u8 == H_start0 + H_used0 && H_buf.size == H_size0 && H_buf.data == &H_data0 && H_mallocs == 0 && H_creates == 0 && H_frees == 0))
  /* otherwise the bytes written so far -- exactly [start, ptr) -- are appended IN ORDER to the accumulated data (old data first), once; an
   * untouched buffer is simply freed; nothing written is ever dropped, also when the new allocation then fails */
  ENS(written_bytes_are_appended_in_order_exactly_once, VIMPL(RENEW(required) && H_used0 > 0, H_creates == 1 && H_create_buf == (const void *)H_start0 && H_create_len == H_used0
        && H_concats == 1 && H_cat_a == &H_data0 && H_cat_b == &H_new && H_buf.data == &H_cat && H_rel_new == 1 && H_rel_data0 == 1 && H_frees == 0))
  ENS(unused_buffer_is_freed_not_appended, VIMPL(RENEW(required) && H_used0 == 0, H_creates == 0 && H_concats == 0 && H_buf.data == &H_data0 && H_frees == (H_start0 ? 1u : 0u) && VIMPL(H_start0, H_freed == (void *)H_start0)))
  /* success: at least `required` bytes are writable at the write pointer, inside the (new) buffer -- the codecs' writes stay in bounds */
  ENS(success_means_required_bytes_are_writable_at_the_write_pointer, VIMPL(__CPROVER_return_value && required > 0, H_buf.start != 0 && H_buf.ptr.u8 >= H_buf.start && (size_t)(H_buf.ptr.u8 - H_buf.start) + required <= H_buf.size && H_W_OK(H_buf.ptr.u8, required)))
  ENS(new_buffer_has_exactly_the_requested_size_and_is_empty, VIMPL(RENEW(required) && __CPROVER_return_value && required + size > 0, H_mallocs == 1 && H_malloc_n == required + size && H_buf.size == required + size && H_buf.start == H_malloc_p && H_buf.ptr.u8 == H_malloc_p))
  ENS(oversized_or_failed_allocation_is_reported, VIMPL(RENEW(required) && required + size > 0, __CPROVER_return_value == (required + size <= BUFFER_MALLOC_MAX && !H_malloc_fails)))
  ENS(final_flush_leaves_no_buffer_behind, VIMPL(required == 0 && size == 0, __CPROVER_return_value && H_buf.start == 0 && H_buf.size == 0 && H_mallocs == 0))
)
void harness(void)
{
	VERIF_GHOST_RESET(); __verif_crash_is_bug = 1;
	H_creates = H_concats = H_frees = H_mallocs = H_rel_new = H_rel_data0 = 0; H_malloc_fails = ND_BOOL();
	H_size0 = ND(size_t); H_used0 = ND(size_t); __CPROVER_assume(H_size0 <= BUFFER_MALLOC_MAX && H_used0 <= H_size0);
#ifdef H_FIRST_CALL
	H_start0 = 0; H_size0 = 0; H_used0 = 0;
#else
	H_start0 = (uint8_t *)H_ALLOC(H_size0);
#endif
	H_buf.data = &H_data0; H_buf.start = H_start0; H_buf.size = H_size0; H_buf.ptr.u8 = H_start0 + H_used0;
	size_t required = ND(size_t), size = ND(size_t); __CPROVER_assume(required <= 8 && size <= ((size_t)1 << 40));
	bool r = _dispatch_transform_buffer_new(&H_buf, required, size);
	VERIF_POST(_dispatch_transform_buffer_new, r, &H_buf, required, size);
#ifdef H_FIRST_CALL
	VERIF_REACH(first_buffer_allocated, r && H_mallocs == 1);
#else
	VERIF_REACH(flushed_and_renewed, r && H_creates == 1 && H_mallocs == 1);
#endif
	VERIF_CANARY();
}
