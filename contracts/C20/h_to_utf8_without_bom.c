/*VERIF
{ "tu": "src/transform.c", "enforce": "_dispatch_transform_to_utf8_without_bom", "props": ["C20", "C13"], "seq": true, "timeout": 120,
  "assumes": ["_dispatch_data_subrange_map(data, &p, 0, 3) maps EXACTLY the first three bytes (or returns NULL when there are fewer): own contract h_subrange_map"],
  "stub_note": "_dispatch_data_subrange_map, memcmp (asserts that only the mapped bytes are compared), dispatch_data_create_subrange, dispatch_data_get_size, dispatch_retain / dispatch_release: recorded" }
VERIF*/
#ifdef VERIF_PRE
#else
struct dispatch_data_s H_data, H_map, H_result; unsigned char H_first3[3]; size_t H_size; _Bool H_short, H_bad; unsigned H_maps, H_retains, H_releases_map, H_subranges; size_t H_sub_off, H_sub_len;
static dispatch_data_t _dispatch_data_subrange_map(dispatch_data_t data, const void **ptr, size_t offset, size_t size)
{ if (data != &H_data || offset != 0 || size != 3) H_bad = 1; H_maps++; if (H_short) return 0; *ptr = H_first3; return &H_map; }
int memcmp(const void *a, const void *b, size_t n)
{	VERIF_ASSERT(only_the_three_mapped_bytes_are_compared, n == 3 && (a == (const void *)H_first3 || b == (const void *)H_first3));
	const unsigned char *x = a, *y = b; return (x[0] != y[0]) || (x[1] != y[1]) || (x[2] != y[2]); }
void dispatch_release(dispatch_object_t o) { if (o._do == (void *)&H_map) H_releases_map++; else H_bad = 1; }
void dispatch_retain(dispatch_object_t o) { if (o._do == (void *)&H_data) H_retains++; else H_bad = 1; }
size_t dispatch_data_get_size(dispatch_data_t d) { if (d != &H_data) H_bad = 1; return H_size; }
dispatch_data_t dispatch_data_create_subrange(dispatch_data_t d, size_t off, size_t len) { if (d != &H_data) H_bad = 1; H_subranges++; H_sub_off = off; H_sub_len = len; return &H_result; }
#define HAS_BOM (!H_short && H_first3[0] == 0xef && H_first3[1] == 0xbb && H_first3[2] == 0xbf)
VERIF_CONTRACT(dispatch_data_t, _dispatch_transform_to_utf8_without_bom, (dispatch_data_t data),
  REQ(data == &H_data && !H_bad && H_maps == 0 && H_retains == 0 && H_releases_map == 0 && H_subranges == 0 && (H_short ? H_size < 3 : H_size >= 3))
  ASG(H_maps, H_retains, H_releases_map, H_subranges, H_sub_off, H_sub_len, H_bad)
  ENS(a_leading_byte_order_mark_is_dropped_and_nothing_else, VIMPL(HAS_BOM, __CPROVER_return_value == &H_result && H_subranges == 1 && H_sub_off == 3 && H_sub_len == H_size - 3 && H_retains == 0))
  ENS(data_without_a_leading_mark_is_returned_unchanged_and_retained_once, VIMPL(!HAS_BOM, __CPROVER_return_value == &H_data && H_retains == 1 && H_subranges == 0))
  ENS(the_three_byte_map_is_released_exactly_once, H_maps == 1 && H_releases_map == (H_short ? 0u : 1u) && !H_bad)
)
void harness(void)
{
	VERIF_GHOST_RESET(); H_bad = 0; H_maps = H_retains = H_releases_map = H_subranges = 0; H_short = ND_BOOL(); H_size = ND(size_t); __CPROVER_assume(H_short ? H_size < 3 : H_size >= 3);
	H_first3[0] = ND(unsigned char); H_first3[1] = ND(unsigned char); H_first3[2] = ND(unsigned char);
	dispatch_data_t r = _dispatch_transform_to_utf8_without_bom(&H_data);
	VERIF_POST(_dispatch_transform_to_utf8_without_bom, r, &H_data);
	VERIF_REACH(bom, HAS_BOM);
	VERIF_CANARY();
}
#endif
