/*VERIF
{ "tu": "src/transform.c", "enforce": "_dispatch_transform_to_base32_with_table", "props": ["C20"], "seq": true, "plain": true, "timeout": 400, "cases": 39,
  "must_fire": {"R-apply": 1},
  "bounded": {"unwind": 18, "what": "<= 3 regions of <= 3 bytes each: one case per fragmentation (39), all byte values; Base32 and Base32Hex tables"},
  "stub_note": "dispatch_data_apply lowered to the region iterator (R-apply); look-behind through the subrange-map contract; data objects modelled by the bytes they denote" }
VERIF*/
#ifdef VERIF_PRE
#else
#include "contracts/C20/regions_common.h"
uint8_t H_ref[OUTMAX]; size_t H_reflen; _Bool H_hex;
static const char H_alpha[] = "ABCDEFGHIJKLMNOPQRSTUVWXYZ234567";
static const char H_alphahex[] = "0123456789ABCDEFGHIJKLMNOPQRSTUV";
static void h_reference_encode(void)     /* RFC 4648 sections 6/7 over the concatenated input */
{
	H_reflen = 0;
	for (size_t j = 0; j < NREG * RSZ; j += 5) if (j < H_total) {
		size_t rem = H_total - j; uint64_t v = 0;
		for (size_t b = 0; b < 5; b++) v = (v << 8) | (b < rem ? H_in[j + b] : 0);
		unsigned nch = rem >= 5 ? 8 : rem == 4 ? 7 : rem == 3 ? 5 : rem == 2 ? 4 : 2;
		for (unsigned c = 0; c < 8; c++) H_ref[H_reflen++] = c < nch ? (uint8_t)(H_hex ? H_alphahex : H_alpha)[(v >> (35 - 5 * c)) & 31] : '=';
	}
}
#define EQ4(k) (H_out[k] == H_ref[k] && H_out[k + 1] == H_ref[k + 1] && H_out[k + 2] == H_ref[k + 2] && H_out[k + 3] == H_ref[k + 3])
VERIF_CONTRACT(dispatch_data_t, _dispatch_transform_to_base32_with_table, (dispatch_data_t data, const unsigned char *table),
  REQ(H_outlen == 0)
  ASG(VERIF_GHOST)
  ENS(encodes_to_the_reference_text_for_every_fragmentation, __CPROVER_return_value != 0 && H_outlen == H_reflen && !H_out_overflow && EQ4(0) && EQ4(4) && EQ4(8) && EQ4(12))
)
void harness(void)
{
	VERIF_GHOST_RESET();
	h_pick_regions();
	H_hex = ND_BOOL();
	for (size_t j = 0; j < OUTMAX; j++) { H_out[j] = 0; H_ref[j] = 0; }
	h_reference_encode();
	const unsigned char *tbl = H_hex ? base32hex_encode_table : base32_encode_table;
	VERIF_PRE_CALL(_dispatch_transform_to_base32_with_table, 0, (dispatch_data_t)&_dispatch_data_empty, tbl);
	dispatch_data_t r = _dispatch_transform_to_base32_with_table((dispatch_data_t)&_dispatch_data_empty, tbl);
	VERIF_POST(_dispatch_transform_to_base32_with_table, r, (dispatch_data_t)&_dispatch_data_empty, tbl);
	VERIF_REACH(two_groups, H_reflen == 16);
	VERIF_CANARY();
}
#endif
