/*VERIF
{ "tu": "src/transform.c", "enforce": "dispatch_data_create_with_transform", "props": ["C20", "C17"], "seq": true, "timeout": 300,
  "assumes": ["the two format descriptors are arbitrary (any type bits, any masks, decoder / encoder present or not): the real descriptors are pinned by the lemma l_format_tables",
              "an empty data object is the dispatch_data_empty singleton (every constructor returns it for size 0), whose reference count is not counted"],
  "stub_note": "decoder / encoder (own contracts: the codec harnesses), _dispatch_transform_detect_utf, dispatch_data_get_size, dispatch_retain / dispatch_release: logged" }
VERIF*/
#ifdef VERIF_PRE
#else
enum { K_DECODE = 180, K_ENCODE, K_DETECT, K_RETAIN_OBJ, K_RELEASE_OBJ };
struct dispatch_data_s H_data, H_t1, H_t2; struct dispatch_data_format_type_s H_in, H_out, H_detected; size_t H_size; _Bool H_detect_fails, H_decode_fails, H_encode_fails, H_has_decode, H_has_encode, H_any;
static dispatch_data_t h_decode(dispatch_data_t d) { __verif_event(K_DECODE, 0, d, 0, 0); return H_decode_fails ? (dispatch_data_t)0 : &H_t1; }
static dispatch_data_t h_encode(dispatch_data_t d) { __verif_event(K_ENCODE, 0, d, 0, 0); return H_encode_fails ? (dispatch_data_t)0 : &H_t2; }
static dispatch_data_format_type_t _dispatch_transform_detect_utf(dispatch_data_t data) { __verif_event(K_DETECT, 0, data, 0, 0); return H_detect_fails ? (dispatch_data_format_type_t)0 : &H_detected; }
size_t dispatch_data_get_size(dispatch_data_t dd) { (void)dd; return H_size; }
void (dispatch_retain)(dispatch_object_t dou) { __verif_event(K_RETAIN_OBJ, 0, dou._do, 0, 0); }
void (dispatch_release)(dispatch_object_t dou) { __verif_event(K_RELEASE_OBJ, 0, dou._do, 0, 0); }
/* the format actually decoded from */
#define EFF_IN (H_any ? &H_detected : &H_in)
#define COMPATIBLE (((EFF_IN->type & ~H_out.input_mask) == 0) && ((H_out.type & ~EFF_IN->output_mask) == 0))
#define REJECTED ((H_any && H_detect_fails) || !COMPATIBLE)
#define D0 (H_any ? 1u : 0u)   /* log index after the optional detection */
#define T1 (EFF_IN->decode ? (void *)&H_t1 : (void *)&H_data)
VERIF_CONTRACT(dispatch_data_t, dispatch_data_create_with_transform, (dispatch_data_t data, dispatch_data_format_type_t input, dispatch_data_format_type_t output),
  REQ(data == &H_data && input == &H_in && output == &H_out && __verif_n == 0 && H_any == (H_in.type == _DISPATCH_DATA_FORMAT_UTF_ANY)
      && (H_in.decode == 0 || H_in.decode == h_decode) && (H_detected.decode == 0 || H_detected.decode == h_decode) && (H_out.encode == 0 || H_out.encode == h_encode))
  ASG(VERIF_GHOST)
  /* C20: incompatible or undetectable formats give BAD_INPUT and touch nothing */
  ENS(incompatible_formats_are_refused_without_touching_the_data, VIMPL(REJECTED, __CPROVER_return_value == 0 && __verif_n == D0))
  ENS(empty_data_is_returned_as_it_is, VIMPL(!REJECTED && H_size == 0, __CPROVER_return_value == &H_data && __verif_n == D0))
  /* otherwise the result is encode(decode(data)) with the DETECTED format's decoder for utf_any; a missing decoder / encoder is the identity, and costs one
   * retain that is given back (C17): the intermediate object is released exactly once, after the encoder has used it; the input object is never released */
  ENS(decode_then_encode_each_at_most_once_in_this_order, VIMPL(!REJECTED && H_size != 0,
        __verif_n >= D0 + 1 && LOGK(D0) == (EFF_IN->decode ? K_DECODE : K_RETAIN_OBJ) && LOGP(D0) == (void *)&H_data
        && ((EFF_IN->decode && H_decode_fails) ? (__verif_n == D0 + 1 && __CPROVER_return_value == 0)
            : (__verif_n == D0 + 3 && LOGK(D0 + 1) == (H_out.encode ? K_ENCODE : K_RETAIN_OBJ) && LOGP(D0 + 1) == T1
               && LOGK(D0 + 2) == K_RELEASE_OBJ && LOGP(D0 + 2) == T1
               && __CPROVER_return_value == (H_out.encode ? (H_encode_fails ? (dispatch_data_t)0 : &H_t2) : (dispatch_data_t)T1)))))
  ENS(utf_any_is_resolved_by_looking_at_the_data_once, VIMPL(H_any, __verif_n >= 1 && LOGK(0) == K_DETECT && LOGP(0) == (void *)&H_data) && VIMPL(!H_any, __verif_n == 0 || LOGK(0) != K_DETECT))
)
void harness(void)
{
	VERIF_GHOST_RESET();
	H_in.type = ND(uint64_t); H_in.input_mask = ND(uint64_t); H_in.output_mask = ND(uint64_t); H_out.type = ND(uint64_t); H_out.input_mask = ND(uint64_t); H_out.output_mask = ND(uint64_t);
	H_detected.type = ND(uint64_t); H_detected.input_mask = ND(uint64_t); H_detected.output_mask = ND(uint64_t);
	H_in.decode = ND_BOOL() ? h_decode : 0; H_in.encode = ND_BOOL() ? h_encode : 0; H_out.decode = ND_BOOL() ? h_decode : 0; H_out.encode = ND_BOOL() ? h_encode : 0;
	H_detected.decode = ND_BOOL() ? h_decode : 0; H_detected.encode = 0;
	H_any = (H_in.type == _DISPATCH_DATA_FORMAT_UTF_ANY); H_size = ND(size_t); H_detect_fails = ND_BOOL(); H_decode_fails = ND_BOOL(); H_encode_fails = ND_BOOL();
	dispatch_data_t r = dispatch_data_create_with_transform(&H_data, &H_in, &H_out);
	VERIF_POST(dispatch_data_create_with_transform, r, &H_data, &H_in, &H_out);
	VERIF_REACH(full_pipeline, !REJECTED && H_size != 0 && EFF_IN->decode && H_out.encode && r == &H_t2);
	VERIF_REACH(utf_any_accepted, H_any && !REJECTED && H_size != 0);
	VERIF_CANARY();
}
#endif
