/*VERIF
{ "tu": "src/transform.c", "enforce": "_dispatch_transform_detect_utf", "props": ["C20", "C17"], "seq": true, "timeout": 120,
  "assumes": ["little-endian host (the build that is checked)"],
  "stub_note": "_dispatch_data_subrange_map (own contract: h_subrange_map; returns a mapping of the first two bytes or NULL), dispatch_release: logged" }
VERIF*/
#ifdef VERIF_PRE
#else
enum { K_MAP = 185, K_RELEASE_OBJ };
struct dispatch_data_s H_data, H_sub; uint8_t H_bytes[2]; _Bool H_short;
static dispatch_data_t _dispatch_data_subrange_map(dispatch_data_t data, const void **ptr, size_t offset, size_t size)
{ __verif_event(K_MAP, 0, data, offset, size); if (H_short) return 0; *ptr = H_bytes; return &H_sub; }
void (dispatch_release)(dispatch_object_t dou) { __verif_event(K_RELEASE_OBJ, 0, dou._do, 0, 0); }
VERIF_CONTRACT(dispatch_data_format_type_t, _dispatch_transform_detect_utf, (dispatch_data_t data),
  REQ(data == &H_data && __verif_n == 0)
  ASG(VERIF_GHOST)
  /* C20: the encoding is decided by the first two bytes only: FF FE = UTF-16 little endian, FE FF = UTF-16 big endian, anything else UTF-8; fewer than two bytes
   * cannot be classified */
  ENS(byte_order_mark_decides, H_short ? __CPROVER_return_value == 0
        : __CPROVER_return_value == ((H_bytes[0] == 0xff && H_bytes[1] == 0xfe) ? &_dispatch_data_format_type_utf16le
                                    : (H_bytes[0] == 0xfe && H_bytes[1] == 0xff) ? &_dispatch_data_format_type_utf16be : &_dispatch_data_format_type_utf8))
  /* C17: the two-byte view is mapped once at offset 0 and released exactly once (not at all when the mapping failed); the data itself is never released */
  ENS(the_view_is_mapped_once_and_released_once, LOGK(0) == K_MAP && LOGP(0) == (void *)&H_data && LOGA(0) == 0 && LOGB(0) == 2
        && (H_short ? __verif_n == 1 : (__verif_n == 2 && LOGK(1) == K_RELEASE_OBJ && LOGP(1) == (void *)&H_sub)))
)
void harness(void)
{
	VERIF_GHOST_RESET();
	H_short = ND_BOOL(); H_bytes[0] = ND(uint8_t); H_bytes[1] = ND(uint8_t);
	dispatch_data_format_type_t r = _dispatch_transform_detect_utf(&H_data);
	VERIF_POST(_dispatch_transform_detect_utf, r, &H_data);
	VERIF_REACH(big_endian, r == &_dispatch_data_format_type_utf16be);
	VERIF_CANARY();
}
#endif
