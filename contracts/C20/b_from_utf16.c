/*VERIF
{ "tu": "src/transform.c", "enforce": "_dispatch_transform_from_utf16", "props": ["C20"], "seq": true, "plain": true, "timeout": 1500, "cases": 14, "cppflags": ["-DRSZ=2"], "cbmc_flags": ["--object-bits", "12"], "tier": "thorough",
  "must_fire": {"R-apply": 1},
  "bounded": {"unwind": 18, "what": "<= 3 regions of <= 2 bytes each: one case per fragmentation (14, incl. splits inside a unit and inside a surrogate pair), all byte values, both byte orders"},
  "stub_note": "dispatch_data_apply lowered to the region iterator (R-apply); look-ahead through the subrange-map contract; output buffer manager replaced by its contract" }
VERIF*/
#ifdef VERIF_PRE
#else
#include "contracts/C20/regions_common.h"
/* output buffer manager replaced by its contract (h_transform_buffer_new): after a successful call at least `required`
 * bytes are writable at ptr and what was written before is preserved.  One flat output array; every write must stay
 * inside the last reservation (checked at the next call). */
uint8_t H_obuf[24]; size_t H_reserved_end; _Bool H_wrote_past_reservation;
static bool _dispatch_transform_buffer_new(dispatch_transform_buffer_s *buffer, size_t required, size_t size)
{
	(void)size;
	if (!buffer->start) { buffer->start = H_obuf; buffer->ptr.u8 = H_obuf; buffer->size = sizeof(H_obuf); H_reserved_end = 0; }
	size_t cur = (size_t)(buffer->ptr.u8 - H_obuf);
	if (cur > H_reserved_end) H_wrote_past_reservation = 1;
	H_reserved_end = cur + required; H_outlen = cur;
	VERIF_ASSERT(harness_output_array_large_enough, H_reserved_end <= sizeof(H_obuf));
	return true;
}
uint8_t H_ref[OUTMAX]; size_t H_reflen; _Bool H_ref_valid; int32_t H_order;
#define UNIT(k) (H_order == OSLittleEndian ? (uint16_t)(H_in[2 * (k)] | H_in[2 * (k) + 1] << 8) : (uint16_t)(H_in[2 * (k)] << 8 | H_in[2 * (k) + 1]))
static void h_reference_from_utf16(void)   /* well-formed UTF-16 (optional leading BOM) -> UTF-8 */
{
	H_reflen = 0; H_ref_valid = (H_total % 2 == 0);
	if (!H_ref_valid) return;
	size_t nu = H_total / 2;
	for (size_t k = 0; k < 5; k++) if (k < nu) {
		uint32_t ch = UNIT(k), w;
		if (k == 0 && ch == 0xfffe) { H_ref_valid = 0; return; }
		if (k == 0 && ch == 0xfeff) continue;
		if (ch >= 0xd800 && ch <= 0xdbff) {
			if (k + 1 >= nu) { H_ref_valid = 0; return; }
			uint32_t lo = UNIT(k + 1); if (!(lo >= 0xdc00 && lo <= 0xdfff)) { H_ref_valid = 0; return; }
			w = 0x10000 + ((ch - 0xd800) << 10 | (lo & 0x3ff)); k++;
		} else if (ch >= 0xdc00 && ch <= 0xdfff) { H_ref_valid = 0; return; } else w = ch;
		if (w < 0x80) H_ref[H_reflen++] = (uint8_t)w;
		else if (w < 0x800) { H_ref[H_reflen++] = 0xc0 | (w >> 6); H_ref[H_reflen++] = 0x80 | (w & 0x3f); }
		else if (w < 0x10000) { H_ref[H_reflen++] = 0xe0 | (w >> 12); H_ref[H_reflen++] = 0x80 | ((w >> 6) & 0x3f); H_ref[H_reflen++] = 0x80 | (w & 0x3f); }
		else { H_ref[H_reflen++] = 0xf0 | (w >> 18); H_ref[H_reflen++] = 0x80 | ((w >> 12) & 0x3f); H_ref[H_reflen++] = 0x80 | ((w >> 6) & 0x3f); H_ref[H_reflen++] = 0x80 | (w & 0x3f); }
	}
}
#define EQ4(k) (H_obuf[k] == H_ref[k] && H_obuf[k + 1] == H_ref[k + 1] && H_obuf[k + 2] == H_ref[k + 2] && H_obuf[k + 3] == H_ref[k + 3])
VERIF_CONTRACT(dispatch_data_t, _dispatch_transform_from_utf16, (dispatch_data_t data, int32_t byteOrder),
  REQ(H_outlen == 0 && byteOrder == H_order)
  ASG(VERIF_GHOST)
  ENS(well_formed_text_converts_to_the_reference_for_every_fragmentation, VIMPL(H_ref_valid, __CPROVER_return_value != 0 && H_outlen == H_reflen && !H_out_overflow && EQ4(0) && EQ4(4) && EQ4(8)))
  ENS(every_write_stays_inside_the_reserved_output, !H_wrote_past_reservation)
  ENS(odd_length_text_is_rejected, VIMPL(H_total % 2 != 0, __CPROVER_return_value == 0))
)
void harness(void)
{
	VERIF_GHOST_RESET();
	h_pick_regions();
	H_order = ND_BOOL() ? OSLittleEndian : OSBigEndian;
	for (size_t j = 0; j < OUTMAX; j++) { H_out[j] = 0; H_ref[j] = 0; H_obuf[j] = 0; }
	H_wrote_past_reservation = 0;
	h_reference_from_utf16();
	VERIF_PRE_CALL(_dispatch_transform_from_utf16, 0, (dispatch_data_t)&_dispatch_data_empty, H_order);
	dispatch_data_t r = _dispatch_transform_from_utf16((dispatch_data_t)&_dispatch_data_empty, H_order);
	VERIF_POST(_dispatch_transform_from_utf16, r, (dispatch_data_t)&_dispatch_data_empty, H_order);
	VERIF_REACH(surrogate_pair, H_ref_valid && H_reflen == 4);
	VERIF_CANARY();
}
#endif
