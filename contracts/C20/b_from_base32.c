/*VERIF
{ "tu": "src/transform.c", "enforce": "_dispatch_transform_from_base32_with_table", "props": ["C20"], "seq": true, "plain": true, "timeout": 300, "cases": 39,
  "must_fire": {"R-apply": 1},
  "bounded": {"unwind": 18, "what": "<= 3 regions of <= 3 bytes each: one case per fragmentation (39), all byte values; Base32 and Base32Hex tables"},
  "stub_note": "dispatch_data_apply lowered to the region iterator (R-apply); data objects modelled by the bytes they denote" }
VERIF*/
#ifdef VERIF_PRE
#else
#include "contracts/C20/regions_common.h"
uint8_t H_ref[OUTMAX]; size_t H_reflen; _Bool H_ref_valid, H_hex;
static void h_reference_decode(void)    /* RFC 4648 sections 6/7 over the concatenated input; whitespace ignored */
{
	uint64_t acc = 0; unsigned cnt = 0, pad = 0; _Bool done = 0; H_reflen = 0; H_ref_valid = 1;
	for (size_t j = 0; j < NREG * RSZ; j++) if (j < H_total) {
		uint8_t c = H_in[j];
		if (c == '\n' || c == '\t' || c == ' ') continue;
		int v;
		if (!H_hex) v = (c >= 'A' && c <= 'Z') ? c - 'A' : (c >= '2' && c <= '7') ? c - '2' + 26 : c == '=' ? -2 : -1;
		else v = (c >= '0' && c <= '9') ? c - '0' : (c >= 'A' && c <= 'V') ? c - 'A' + 10 : c == '=' ? -2 : -1;
		if (v == -1 || done) { H_ref_valid = 0; return; }
		if (v == -2) { if ((cnt & 7) < 2) { H_ref_valid = 0; return; } pad++; v = 0; } else if (pad) { H_ref_valid = 0; return; }
		acc = (acc << 5) | (uint64_t)v; cnt++;
		if ((cnt & 7) == 0) {
			unsigned nb = pad == 0 ? 5 : pad == 1 ? 4 : pad == 3 ? 3 : pad == 4 ? 2 : pad == 6 ? 1 : 0;
			if (nb == 0) { H_ref_valid = 0; return; }
			for (unsigned b = 0; b < 5; b++) if (b < nb) H_ref[H_reflen++] = (acc >> (32 - 8 * b)) & 0xff;
			if (pad) done = 1;
			acc = 0;
		}
	}
	if ((cnt & 7) != 0) H_ref_valid = 0;
}
VERIF_CONTRACT(dispatch_data_t, _dispatch_transform_from_base32_with_table, (dispatch_data_t data, const signed char *table, ssize_t table_size),
  REQ(H_outlen == 0)
  ASG(VERIF_GHOST)
  ENS(valid_input_decodes_to_the_reference_bytes_for_every_fragmentation, VIMPL(H_ref_valid, __CPROVER_return_value != 0 && H_outlen == H_reflen && !H_out_overflow &&
        H_out[0] == H_ref[0] && H_out[1] == H_ref[1] && H_out[2] == H_ref[2] && H_out[3] == H_ref[3] && H_out[4] == H_ref[4]))
)
void harness(void)
{
	VERIF_GHOST_RESET();
	h_pick_regions();
	H_hex = ND_BOOL();
	h_reference_decode();
	for (size_t j = 0; j < OUTMAX; j++) { H_out[j] = 0; if (j >= H_reflen) H_ref[j] = 0; }
	const signed char *tbl = H_hex ? base32hex_decode_table : base32_decode_table; ssize_t tsz = H_hex ? base32hex_decode_table_size : base32_decode_table_size;
	VERIF_PRE_CALL(_dispatch_transform_from_base32_with_table, 0, (dispatch_data_t)&_dispatch_data_empty, tbl, tsz);
	dispatch_data_t r = _dispatch_transform_from_base32_with_table((dispatch_data_t)&_dispatch_data_empty, tbl, tsz);
	VERIF_POST(_dispatch_transform_from_base32_with_table, r, (dispatch_data_t)&_dispatch_data_empty, tbl, tsz);
	VERIF_REACH(valid_input, H_ref_valid && H_reflen >= 1);
	VERIF_REACH(valid_hex_input, H_ref_valid && H_reflen >= 1 && H_hex);
	VERIF_CANARY();
}
#endif
