/*VERIF
{ "tu": "src/transform.c", "enforce": "_dispatch_transform_buffer_new", "props": ["C20"], "seq": true, "timeout": 300, "cbmc_flags": ["--no-pointer-check"],
  "assumes": ["first call on a zero-initialised buffer: the real code computes NULL - NULL (ptr.u8 - start), which CBMC's pointer checks reject although every compiler yields 0; this harness therefore runs WITHOUT pointer checks (the bounds of the new buffer are still checked through the size arithmetic); the general case with a live buffer is h_transform_buffer_new, with pointer checks", "required + size does not wrap (callers compute size with overflow-checked multiplications of region sizes; required <= 8)"],
  "stub_note": "malloc (NULL or a fresh buffer of the requested size), free, dispatch_data_create / create_concat / release: recorded" }
VERIF*/
#ifdef VERIF_PRE
#else
#define H_FIRST_CALL 1
#include "contracts/C20/transform_buffer_new.contract.h"
#endif
