/*VERIF
{ "tu": "src/transform.c", "enforce": "_dispatch_transform_buffer_new", "props": ["C20"], "seq": true, "timeout": 300,
  "assumes": ["required + size does not wrap (callers compute size with overflow-checked multiplications of region sizes; required <= 8)"],
  "stub_note": "malloc (NULL or a fresh buffer of the requested size), free, dispatch_data_create / create_concat / release: recorded" }
VERIF*/
#ifdef VERIF_PRE
#else
#include "contracts/C20/transform_buffer_new.contract.h"
#endif
