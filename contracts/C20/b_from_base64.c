/*VERIF
{ "tu": "src/transform.c", "enforce": "_dispatch_transform_from_base64", "props": ["C20"], "seq": true, "plain": true, "timeout": 300, "cases": 39,
  "must_fire": {"R-apply": 1},
  "bounded": {"unwind": 18, "what": "<= 3 regions of <= 3 bytes each: one case per fragmentation (39), all byte values"},
  "stub_note": "dispatch_data_apply lowered to the region iterator (R-apply); dispatch_data_create/concat/release modelled by the byte string they denote; malloc: exact-size objects" }
VERIF*/
#ifdef VERIF_PRE
#else
#include "contracts/C20/regions_common.h"
/* reference decoder over the CONCATENATED input (fragmentation-free): valid iff groups of 4 alphabet symbols, padding only
 * in the last group ("xx==" or "xxx="), whitespace ignored */
uint8_t H_ref[OUTMAX]; size_t H_reflen; _Bool H_ref_valid;
static void h_reference_decode(void)
{
	uint32_t acc = 0; unsigned cnt = 0, pad = 0; _Bool done = 0; H_reflen = 0; H_ref_valid = 1;
	for (size_t j = 0; j < NREG * RSZ; j++) if (j < H_total) {
		uint8_t c = H_in[j];
		if (c == '\n' || c == '\t' || c == ' ') continue;
		int v = (c >= 'A' && c <= 'Z') ? c - 'A' : (c >= 'a' && c <= 'z') ? c - 'a' + 26 : (c >= '0' && c <= '9') ? c - '0' + 52 : c == '+' ? 62 : c == '/' ? 63 : c == '=' ? -2 : -1;
		if (v == -1 || done) { H_ref_valid = 0; return; }
		if (v == -2) { if ((cnt & 3) < 2) { H_ref_valid = 0; return; } pad++; v = 0; } else if (pad) { H_ref_valid = 0; return; }
		acc = (acc << 6) | (uint32_t)v; cnt++;
		if ((cnt & 3) == 0) {
			H_ref[H_reflen++] = (acc >> 16) & 0xff; if (pad < 2) H_ref[H_reflen++] = (acc >> 8) & 0xff; if (pad < 1) H_ref[H_reflen++] = acc & 0xff;
			if (pad) done = 1;
			acc = 0;
		}
	}
	if ((cnt & 3) != 0) H_ref_valid = 0;
}
VERIF_CONTRACT(dispatch_data_t, _dispatch_transform_from_base64, (dispatch_data_t data),
  REQ(H_outlen == 0)
  ASG(VERIF_GHOST)
  /* the decoded bytes depend only on the concatenated input, not on how it is split into regions */
  ENS(valid_input_decodes_to_the_reference_bytes_for_every_fragmentation, VIMPL(H_ref_valid, __CPROVER_return_value != 0 && H_outlen == H_reflen && !H_out_overflow &&
        H_out[0] == H_ref[0] && H_out[1] == H_ref[1] && H_out[2] == H_ref[2] && H_out[3] == H_ref[3] && H_out[4] == H_ref[4] && H_out[5] == H_ref[5] &&
        H_out[6] == H_ref[6] && H_out[7] == H_ref[7] && H_out[8] == H_ref[8]))
)
void harness(void)
{
	VERIF_GHOST_RESET();
	h_pick_regions();
	h_reference_decode();
	for (size_t j = 0; j < OUTMAX; j++) { H_out[j] = 0; if (j >= H_reflen) H_ref[j] = 0; }
	VERIF_PRE_CALL(_dispatch_transform_from_base64, 0, (dispatch_data_t)&_dispatch_data_empty);
	dispatch_data_t r = _dispatch_transform_from_base64((dispatch_data_t)&_dispatch_data_empty);
	VERIF_POST(_dispatch_transform_from_base64, r, (dispatch_data_t)&_dispatch_data_empty);
	VERIF_REACH(valid_input, H_ref_valid && H_reflen >= 1);
	VERIF_CANARY();
}
#endif
