/*VERIF
{ "tu": "src/transform.c", "props": ["C20"], "seq": true, "mode": "lemma", "timeout": 120,
  "assumes": ["lemma about the REAL format descriptor objects (types, compatibility masks, codec entry points): loop-free, symbolic pair of descriptors"] }
VERIF*/
#ifdef VERIF_PRE
#else
/* family of a format: 1 = byte-string encodings (none / base32 / base32hex / base64), 2 = Unicode encodings (utf8 / utf16le / utf16be) */
#define FAM(t) (((t) & (_DISPATCH_DATA_FORMAT_NONE | _DISPATCH_DATA_FORMAT_BASE32 | _DISPATCH_DATA_FORMAT_BASE32HEX | _DISPATCH_DATA_FORMAT_BASE64)) ? 1 : \
               (((t) & (_DISPATCH_DATA_FORMAT_UTF8 | _DISPATCH_DATA_FORMAT_UTF16LE | _DISPATCH_DATA_FORMAT_UTF16BE)) ? 2 : 0))
#define ACCEPTED(in, out) ((((in)->type & ~(out)->input_mask) == 0) && (((out)->type & ~(in)->output_mask) == 0))
void harness(void)
{
	const struct dispatch_data_format_type_s *tbl[8] = { &_dispatch_data_format_type_none, &_dispatch_data_format_type_base32, &_dispatch_data_format_type_base32hex,
		&_dispatch_data_format_type_base64, &_dispatch_data_format_type_utf8, &_dispatch_data_format_type_utf16le, &_dispatch_data_format_type_utf16be, &_dispatch_data_format_type_utf_any };
	unsigned i = ND(unsigned) % 8, j = ND(unsigned) % 8;
	const struct dispatch_data_format_type_s *in = tbl[i], *out = tbl[j];
	/* each descriptor has its own single type bit */
	VERIF_ASSERT(types_are_distinct_single_bits, in->type != 0 && (in->type & (in->type - 1)) == 0 && (i == j || in->type != out->type));
	/* C20: a conversion is accepted exactly between two concrete formats of the same family (utf_any is an input-only wildcard resolved before this test) */
	if (i != 7 && j != 7) {
		VERIF_ASSERT(a_conversion_is_accepted_exactly_within_one_family, ACCEPTED(in, out) == (FAM(in->type) == FAM(out->type)));
	}
	VERIF_ASSERT(utf_any_itself_converts_to_nothing_and_from_nothing, !(i == 7 || j == 7) || !ACCEPTED(in, out));
	/* the pivot representations (raw bytes, UTF-8) need no decoder; every other format has both directions, and they are the matching pair */
	VERIF_ASSERT(codec_entry_points_match_the_format,
		_dispatch_data_format_type_none.decode == 0 && _dispatch_data_format_type_none.encode == 0
		&& _dispatch_data_format_type_base32.decode == _dispatch_transform_from_base32 && _dispatch_data_format_type_base32.encode == _dispatch_transform_to_base32
		&& _dispatch_data_format_type_base32hex.decode == _dispatch_transform_from_base32hex && _dispatch_data_format_type_base32hex.encode == _dispatch_transform_to_base32hex
		&& _dispatch_data_format_type_base64.decode == _dispatch_transform_from_base64 && _dispatch_data_format_type_base64.encode == _dispatch_transform_to_base64
		&& _dispatch_data_format_type_utf8.decode == 0 && _dispatch_data_format_type_utf8.encode == _dispatch_transform_to_utf8_without_bom
		&& _dispatch_data_format_type_utf16le.decode == _dispatch_transform_from_utf16le && _dispatch_data_format_type_utf16le.encode == _dispatch_transform_to_utf16le
		&& _dispatch_data_format_type_utf16be.decode == _dispatch_transform_from_utf16be && _dispatch_data_format_type_utf16be.encode == _dispatch_transform_to_utf16be);
	VERIF_CANARY();
}
#endif
