/* C20 scaffolding: the input data object is a sequence of <= NREG regions of <= RSZ bytes each, handed to the lowered
 * dispatch_data_apply bodies through the region iterator (the contract of dispatch_data_apply: regions tile the bytes in
 * order -- C13).  Output objects are modelled by the byte string they denote (ghost array H_out). */
#ifndef NREG
#define NREG 3
#endif
#ifndef RSZ
#define RSZ 3
#endif
#define OUTMAX 16
uint8_t H_in[NREG * RSZ]; size_t H_total; size_t H_cut[NREG + 1]; size_t H_nreg;   /* region k = [H_cut[k], H_cut[k+1]) */
uint8_t H_out[OUTMAX]; size_t H_outlen; _Bool H_out_overflow;
size_t H_last_alloc; uint8_t *H_last_ptr; unsigned H_creates;
size_t __verif_region_count(dispatch_data_t d) { (void)d; return H_nreg; }
/* each region is handed out in its OWN exactly-sized buffer: reading past a region is an out-of-bounds read */
void __verif_region_get(dispatch_data_t d, size_t k, dispatch_data_t *region, size_t *offset, const void **buffer, size_t *size)
{
	size_t n = H_cut[k + 1] - H_cut[k];
	uint8_t *b = __CPROVER_allocate(n, 0);
	for (size_t j = 0; j < RSZ; j++) if (j < n) b[j] = H_in[H_cut[k] + j];
	*region = d; *offset = H_cut[k]; *buffer = b; *size = n;
}
void *malloc(size_t n) { void *p = __CPROVER_allocate(n, 0); H_last_alloc = n; H_last_ptr = p; return p; }
void free(void *p) { (void)p; }
/* data API as seen from the codecs (its precondition side: C13) */
dispatch_data_t dispatch_data_create(const void *buffer, size_t size, dispatch_queue_t q, dispatch_block_t destructor)
{
	(void)q; (void)destructor; H_creates++;
	/* the new object must denote only memory the codec owns: the size may not exceed the buffer it just filled */
	VERIF_ASSERT(output_length_within_allocated_buffer, size == 0 || (buffer == H_last_ptr && size <= H_last_alloc));
	for (size_t j = 0; j < OUTMAX; j++) if (j < size) { if (H_outlen < OUTMAX) H_out[H_outlen++] = ((const uint8_t *)buffer)[j]; else H_out_overflow = 1; }
	return (dispatch_data_t)&_dispatch_data_empty;
}
dispatch_data_t dispatch_data_create_concat(dispatch_data_t a, dispatch_data_t b) { (void)b; return a; }
void dispatch_release(dispatch_object_t o) { (void)o; }
void dispatch_retain(dispatch_object_t o) { (void)o; }
struct dispatch_data_s _dispatch_data_empty;
/* the fragmentation is concrete per case (VERIF_CASE): nreg in 1..3 and every region size in 1..RSZ; the bytes stay symbolic */
#define H_NCASES (RSZ + RSZ * RSZ + RSZ * RSZ * RSZ)
static inline void h_pick_regions(void)
{
	unsigned c = VERIF_CASE; size_t n[3] = {0, 0, 0};
	if (c < RSZ) { H_nreg = 1; n[0] = c + 1; }
	else if (c < RSZ + RSZ * RSZ) { c -= RSZ; H_nreg = 2; n[0] = c / RSZ + 1; n[1] = c % RSZ + 1; }
	else { c -= RSZ + RSZ * RSZ; H_nreg = 3; n[0] = c / (RSZ * RSZ) + 1; n[1] = (c / RSZ) % RSZ + 1; n[2] = c % RSZ + 1; }
	H_cut[0] = 0; H_cut[1] = n[0]; H_cut[2] = n[0] + n[1]; H_cut[3] = n[0] + n[1] + n[2];
	H_total = H_cut[H_nreg];
	for (size_t j = 0; j < NREG * RSZ; j++) H_in[j] = ND(uint8_t);
	H_outlen = 0; H_out_overflow = 0; H_creates = 0;
}
/* look-ahead helper of the codecs: a mapped view of exactly [offset, offset+size) of the input, or NULL if it does not fit
 * (contract of dispatch_data_create_subrange + dispatch_data_create_map, C13) -- handed out as an exact-size object */
#ifndef H_NO_SUBRANGE_MAP_STUB
static dispatch_data_t _dispatch_data_subrange_map(dispatch_data_t data, const void **ptr, size_t offset, size_t size)
{
	(void)data;
	if (offset > H_total || size > H_total - offset || size == 0) return 0;
	uint8_t *b = __CPROVER_allocate(size, 0);
	for (size_t j = 0; j < 4; j++) if (j < size) b[j] = H_in[offset + j];
	*ptr = b;
	return (dispatch_data_t)&_dispatch_data_empty;
}
size_t dispatch_data_get_size(dispatch_data_t d) { (void)d; return H_total; }
#endif
