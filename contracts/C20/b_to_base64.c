/*VERIF
{ "tu": "src/transform.c", "enforce": "_dispatch_transform_to_base64", "props": ["C20"], "seq": true, "plain": true, "timeout": 300, "cases": 39,
  "must_fire": {"R-apply": 1},
  "bounded": {"unwind": 18, "what": "<= 3 regions of <= 3 bytes each: one case per fragmentation (39), all byte values"},
  "stub_note": "dispatch_data_apply lowered to the region iterator (R-apply); look-ahead/behind through the subrange-map contract; data objects modelled by the bytes they denote" }
VERIF*/
#ifdef VERIF_PRE
#else
#include "contracts/C20/regions_common.h"
uint8_t H_ref[OUTMAX]; size_t H_reflen;
static const char H_alpha[] = "ABCDEFGHIJKLMNOPQRSTUVWXYZabcdefghijklmnopqrstuvwxyz0123456789+/";
static void h_reference_encode(void)     /* RFC 4648 section 4 over the concatenated input */
{
	H_reflen = 0;
	for (size_t j = 0; j < NREG * RSZ; j += 3) if (j < H_total) {
		size_t rem = H_total - j; uint32_t v = (uint32_t)H_in[j] << 16 | (rem > 1 ? (uint32_t)H_in[j + 1] << 8 : 0) | (rem > 2 ? H_in[j + 2] : 0);
		H_ref[H_reflen++] = H_alpha[(v >> 18) & 63]; H_ref[H_reflen++] = H_alpha[(v >> 12) & 63];
		H_ref[H_reflen++] = rem > 1 ? H_alpha[(v >> 6) & 63] : '='; H_ref[H_reflen++] = rem > 2 ? H_alpha[v & 63] : '=';
	}
}
#define EQ4(k) (H_out[k] == H_ref[k] && H_out[k + 1] == H_ref[k + 1] && H_out[k + 2] == H_ref[k + 2] && H_out[k + 3] == H_ref[k + 3])
VERIF_CONTRACT(dispatch_data_t, _dispatch_transform_to_base64, (dispatch_data_t data),
  REQ(H_outlen == 0)
  ASG(VERIF_GHOST)
  ENS(encodes_to_the_reference_text_for_every_fragmentation, __CPROVER_return_value != 0 && H_outlen == H_reflen && !H_out_overflow && EQ4(0) && EQ4(4) && EQ4(8))
)
void harness(void)
{
	VERIF_GHOST_RESET();
	h_pick_regions();
	for (size_t j = 0; j < OUTMAX; j++) { H_out[j] = 0; H_ref[j] = 0; }
	h_reference_encode();
	VERIF_PRE_CALL(_dispatch_transform_to_base64, 0, (dispatch_data_t)&_dispatch_data_empty);
	dispatch_data_t r = _dispatch_transform_to_base64((dispatch_data_t)&_dispatch_data_empty);
	VERIF_POST(_dispatch_transform_to_base64, r, (dispatch_data_t)&_dispatch_data_empty);
	VERIF_CANARY();
}
#endif
