/*VERIF
{ "tu": "src/transform.c", "enforce": "_dispatch_transform_read_utf8_sequence", "props": ["C20"], "seq": true, "timeout": 120, "unwind": 5, "unwind_fns": ["_dispatch_transform_read_utf8_sequence", "harness"],
  "assumes": ["the continuation-byte loop runs at most 3 times (unwound with an unwinding assertion: complete)"] }
VERIF*/
#ifdef VERIF_PRE
#else
uint8_t H_buf[4]; unsigned H_len;
#define LEN_OF(b) (((b) & 0x80) == 0 ? 1 : ((b) & 0xe0) == 0xc0 ? 2 : ((b) & 0xf0) == 0xe0 ? 3 : ((b) & 0xf8) == 0xf0 ? 4 : 0)
#define SPEC_VALUE (H_len == 1 ? (uint32_t)(H_buf[0] & 0x7f) : H_len == 2 ? ((uint32_t)(H_buf[0] & 0x1f) << 6 | (H_buf[1] & 0x3f)) : \
	H_len == 3 ? ((uint32_t)(H_buf[0] & 0xf) << 12 | (uint32_t)(H_buf[1] & 0x3f) << 6 | (H_buf[2] & 0x3f)) : \
	((uint32_t)(H_buf[0] & 0x7) << 18 | (uint32_t)(H_buf[1] & 0x3f) << 12 | (uint32_t)(H_buf[2] & 0x3f) << 6 | (H_buf[3] & 0x3f)))
VERIF_CONTRACT(uint32_t, _dispatch_transform_read_utf8_sequence, (const uint8_t *bytes),
  REQ(H_len == LEN_OF(H_buf[0]) && H_len >= 1 && __CPROVER_r_ok(bytes, H_len))
  ASG()
  ENS(decodes_the_code_point_of_the_sequence, __CPROVER_return_value == SPEC_VALUE)
)
void harness(void)
{
	VERIF_GHOST_RESET();
	for (unsigned k = 0; k < 4; k++) H_buf[k] = ND(uint8_t);
	H_len = LEN_OF(H_buf[0]); __CPROVER_assume(H_len >= 1);
	/* the sequence sits at the END of a buffer: reading more than its length is an out-of-bounds read */
	uint8_t *p = malloc(H_len); __CPROVER_assume(p != 0);
	for (unsigned k = 0; k < 4; k++) if (k < H_len) p[k] = H_buf[k];
	uint32_t r = _dispatch_transform_read_utf8_sequence(p);
	VERIF_POST(_dispatch_transform_read_utf8_sequence, r, p);
	VERIF_CANARY();
}
#endif
