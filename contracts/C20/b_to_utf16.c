/*VERIF
{ "tu": "src/transform.c", "enforce": "_dispatch_transform_to_utf16", "props": ["C20"], "seq": true, "plain": true, "timeout": 1500, "cases": 14, "cppflags": ["-DRSZ=2"], "cbmc_flags": ["--object-bits", "12"], "tier": "thorough",
  "must_fire": {"R-apply": 1},
  "bounded": {"unwind": 18, "what": "<= 3 regions of <= 2 bytes each: one case per fragmentation (14, incl. splits inside 2-, 3- and 4-byte sequences), all byte values, both byte orders"},
  "stub_note": "dispatch_data_apply lowered to the region iterator (R-apply); look-ahead through the subrange-map contract; output buffer manager replaced by its contract" }
VERIF*/
#ifdef VERIF_PRE
#else
#include "contracts/C20/regions_common.h"
uint8_t H_obuf[24]; size_t H_reserved_end; _Bool H_wrote_past_reservation;
static bool _dispatch_transform_buffer_new(dispatch_transform_buffer_s *buffer, size_t required, size_t size)
{
	(void)size;
	if (!buffer->start) { buffer->start = H_obuf; buffer->ptr.u8 = H_obuf; buffer->size = sizeof(H_obuf); H_reserved_end = 0; }
	size_t cur = (size_t)(buffer->ptr.u8 - H_obuf);
	if (cur > H_reserved_end) H_wrote_past_reservation = 1;
	H_reserved_end = cur + required; H_outlen = cur;
	VERIF_ASSERT(harness_output_array_large_enough, H_reserved_end <= sizeof(H_obuf));
	return true;
}
uint16_t H_ref[8]; size_t H_refn; _Bool H_ref_valid; int32_t H_order;
/* well-formed UTF-8 (Unicode table 3-7; an optional leading EF BB BF is dropped) -> UTF-16 units, after the BOM the transform emits */
static void h_reference_to_utf16(void)
{
	H_refn = 0; H_ref_valid = 1;
	size_t j = 0;
	for (size_t it = 0; it < NREG * RSZ; it++) if (j < H_total) {
		uint8_t b0 = H_in[j]; uint32_t w; size_t n;
		if (b0 < 0x80) { n = 1; w = b0; }
		else if (b0 >= 0xc2 && b0 <= 0xdf) { n = 2; w = b0 & 0x1f; }
		else if (b0 >= 0xe0 && b0 <= 0xef) { n = 3; w = b0 & 0x0f; }
		else if (b0 >= 0xf0 && b0 <= 0xf4) { n = 4; w = b0 & 0x07; }
		else { H_ref_valid = 0; return; }
		if (j + n > H_total) { H_ref_valid = 0; return; }
		for (size_t c = 1; c < 4; c++) if (c < n) {
			uint8_t b = H_in[j + c]; uint8_t lo = 0x80, hi = 0xbf;
			if (c == 1) { if (b0 == 0xe0) lo = 0xa0; if (b0 == 0xed) hi = 0x9f; if (b0 == 0xf0) lo = 0x90; if (b0 == 0xf4) hi = 0x8f; }
			if (b < lo || b > hi) { H_ref_valid = 0; return; }
			w = (w << 6) | (b & 0x3f);
		}
		if (!(w == 0xfeff && j == 0)) {
			if (w >= 0x10000) { H_ref[H_refn++] = (uint16_t)(0xd800 + ((w - 0x10000) >> 10)); H_ref[H_refn++] = (uint16_t)(0xdc00 + ((w - 0x10000) & 0x3ff)); }
			else H_ref[H_refn++] = (uint16_t)w;
		}
		j += n;
	}
}
#define OUNIT(k) (H_order == OSLittleEndian ? (uint16_t)(H_obuf[2 * (k)] | H_obuf[2 * (k) + 1] << 8) : (uint16_t)(H_obuf[2 * (k)] << 8 | H_obuf[2 * (k) + 1]))
#define UEQ(k) ((k) >= H_refn || OUNIT((k) + 1) == H_ref[k])
/* what the inverse transform (UTF-16 -> UTF-8, same byte order) accepts: whole units, BOM first is fine, no lone surrogates */
static _Bool h_inverse_accepts(void)
{
	if (H_outlen % 2 != 0) return 0;
	size_t nu = H_outlen / 2; _Bool want_low = 0;
	for (size_t k = 0; k < 12; k++) if (k < nu) {
		uint16_t u = OUNIT(k);
		if (k == 0 && u == 0xfffe) return 0;
		if (want_low) { if (!(u >= 0xdc00 && u <= 0xdfff)) return 0; want_low = 0; }
		else if (u >= 0xd800 && u <= 0xdbff) want_low = 1;
		else if (u >= 0xdc00 && u <= 0xdfff) return 0;
	}
	return !want_low;
}
VERIF_CONTRACT(dispatch_data_t, _dispatch_transform_to_utf16, (dispatch_data_t data, int32_t byteOrder),
  REQ(H_outlen == 0 && byteOrder == H_order)
  ASG(VERIF_GHOST)
  ENS(well_formed_text_converts_to_the_reference_for_every_fragmentation, VIMPL(H_ref_valid && H_total > 0, __CPROVER_return_value != 0 && H_outlen == 2 * (H_refn + 1) && OUNIT(0) == 0xfeff
        && UEQ(0) && UEQ(1) && UEQ(2) && UEQ(3) && UEQ(4) && UEQ(5)))
  ENS(output_is_accepted_by_the_inverse_transform_or_null, __CPROVER_return_value == 0 || h_inverse_accepts())
  ENS(every_write_stays_inside_the_reserved_output, !H_wrote_past_reservation)
)
void harness(void)
{
	VERIF_GHOST_RESET();
	h_pick_regions();
	H_order = ND_BOOL() ? OSLittleEndian : OSBigEndian;
	for (size_t j = 0; j < 12; j++) { H_obuf[j] = 0; H_obuf[j + 12] = 0; }
	for (size_t j = 0; j < 8; j++) H_ref[j] = 0;
	H_wrote_past_reservation = 0; H_outlen = 0;
	h_reference_to_utf16();
	VERIF_PRE_CALL(_dispatch_transform_to_utf16, 0, (dispatch_data_t)&_dispatch_data_empty, H_order);
	dispatch_data_t r = _dispatch_transform_to_utf16((dispatch_data_t)&_dispatch_data_empty, H_order);
	VERIF_POST(_dispatch_transform_to_utf16, r, (dispatch_data_t)&_dispatch_data_empty, H_order);
	VERIF_REACH(four_byte_sequence, H_ref_valid && H_refn >= 2 && H_ref[0] >= 0xd800 && H_ref[0] <= 0xdbff);
	VERIF_CANARY();
}
#endif
