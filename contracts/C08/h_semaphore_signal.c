/*VERIF
{ "tu": "src/semaphore.c", "enforce": "dispatch_semaphore_signal", "props": ["C08","C05"],
  "nondet_volatile": true, "timeout": 120,
  "stub_note": "_dispatch_sema4_signal/wait/timedwait (kernel semaphore): logged call-outs" }
VERIF*/
#ifdef VERIF_PRE
#else
#include "contracts/C08/sema_common.h"
#include "contracts/C08/signal.contract.h"
void harness(void)
{
	VERIF_GHOST_RESET();
	intptr_t r = dispatch_semaphore_signal(&H_sema);
	VERIF_POST(dispatch_semaphore_signal, r, &H_sema);
	VERIF_REACH(slow, r == 1);
	VERIF_CANARY();
}
#endif
