/*VERIF
{ "tu": "src/semaphore.c", "replace": ["dispatch_semaphore_signal", "dispatch_semaphore_wait"], "props": ["C08"],
  "timeout": 120, "roots": [],
  "assumes": ["lemma over the contracts of dispatch_semaphore_signal/wait (both enforced on the real code): each commit in a call's log is one atomic step of the abstract state (V, parked P, pending kernel posts K); the kernel semaphore returns from a wait only by consuming a post (K > 0) -- trusted"] }
VERIF*/
#ifdef VERIF_PRE
#else
#include "contracts/C08/sema_common.h"
#include "contracts/C08/signal.contract.h"
#include "contracts/C08/wait.contract.h"
/* abstract state at a linearisation point: V = dsema_value, P = waiters parked (decremented, not yet
 * returned), K = kernel posts not yet consumed.  J: P - K == max(0, -V);  I: V + P == v0 + sig - succ */
#define J(V, P, K) ((P) >= 0 && (K) >= 0 && (P) - (K) == ((V) < 0 ? -(V) : 0))
void harness(void)
{
	VERIF_GHOST_RESET();
	long P = ND(long), K = ND(long), bal = ND(long); /* bal = v0 + sig - succ */
	__CPROVER_assume(P >= 0 && P < (1L << 40) && K >= 0 && K < (1L << 40) && bal > -(1L << 40) && bal < (1L << 40));
	if (ND_BOOL()) {
		/* ---- a signal */
		dispatch_semaphore_signal(&H_sema);
		long V = V_OLD(0);
		__CPROVER_assume(V > -(1L << 40) && V < (1L << 40) && J(V, P, K) && V + P == bal);
		bal += 1;                        /* sig + 1 */
		if (__verif_n == 2) K += 1;      /* posted a kernel wakeup */
		VERIF_ASSERT(signal_preserves_J, J(V_NEW(0), P, K));
		VERIF_ASSERT(signal_preserves_I, V_NEW(0) + P == bal);
	} else {
		/* ---- a wait (any timeout) */
		dispatch_time_t t = ND(dispatch_time_t);
		intptr_t r = dispatch_semaphore_wait(&H_sema, t);
		long V = V_OLD(0);
		__CPROVER_assume(V > -(1L << 40) && V < (1L << 40) && J(V, P, K) && V + P == bal);
		if (__verif_n == 1) {            /* fast path */
			bal -= 1;                /* succ + 1 */
			VERIF_ASSERT(fast_wait_preserves_J, J(V_NEW(0), P, K));
			VERIF_ASSERT(fast_wait_preserves_I, V_NEW(0) + P == bal);
			VERIF_ASSERT(fast_wait_succeeds, r == 0);
		} else {
			P += 1;                  /* parked */
			VERIF_ASSERT(park_preserves_J, J(V_NEW(0), P, K));
			VERIF_ASSERT(park_preserves_I, V_NEW(0) + P == bal);
			/* ... arbitrary steps of other threads: re-establish the invariant at the next point */
			long P2 = ND(long), K2 = ND(long), bal2 = ND(long);
			__CPROVER_assume(P2 >= 1 && P2 < (1L << 40) && K2 >= 0 && K2 < (1L << 40) && bal2 > -(1L << 40) && bal2 < (1L << 40));
			if (r != 0) {            /* timed out: the last event is the undo commit */
				long V2 = V_OLD(LAST);
				__CPROVER_assume(V2 > -(1L << 40) && V2 < (1L << 40) && J(V2, P2, K2) && V2 + P2 == bal2);
				P2 -= 1;
				VERIF_ASSERT(timeout_undo_preserves_J, J(V_NEW(LAST), P2, K2));
				VERIF_ASSERT(timeout_undo_preserves_I, V_NEW(LAST) + P2 == bal2);   /* neither consumed nor lost a signal */
			} else {                 /* released by the kernel: consumes one pending post */
				long V2 = ND(long);
				__CPROVER_assume(V2 > -(1L << 40) && V2 < (1L << 40) && J(V2, P2, K2) && V2 + P2 == bal2);
				__CPROVER_assume(K2 >= 1); /* kernel semaphore semantics (trusted) */
				K2 -= 1; P2 -= 1; bal2 -= 1;
				VERIF_ASSERT(kernel_release_preserves_J, J(V2, P2, K2));
				VERIF_ASSERT(kernel_release_preserves_I, V2 + P2 == bal2);
			}
		}
	}
	/* consequences of I and J */
	{ long V = ND(long), P3 = ND(long), K3 = ND(long), b3 = ND(long);
	  __CPROVER_assume(V > -(1L << 40) && V < (1L << 40) && P3 < (1L << 40) && K3 < (1L << 40) && J(V, P3, K3) && V + P3 == b3);
	  VERIF_ASSERT(successes_never_exceed_initial_plus_signals, b3 >= 0);       /* succ <= v0 + sig */
	  VERIF_ASSERT(quiescent_state_has_exact_permits, VIMPL(P3 == 0, K3 == 0 && V == b3 && V >= 0)); }
	VERIF_CANARY();
}
#endif
