/* contract of dispatch_semaphore_wait (enforced in h_semaphore_wait.c) */
#define TIMED(t) ((t) != DISPATCH_TIME_NOW && (t) != DISPATCH_TIME_FOREVER)
VERIF_CONTRACT(intptr_t, dispatch_semaphore_wait, (dispatch_semaphore_t dsema, dispatch_time_t timeout),
  REQ(dsema == &H_sema && __verif_n == 0)
  ASG(dsema->dsema_value, VERIF_GHOST, H_timedwait_timed_out, H_errno)
  ENS(log_not_overflowed, __verif_n >= 1 && __verif_n <= 3)
  ENS(one_decrement_with_acquire, __verif_n >= 1 && IS_COMMIT(0, &dsema->dsema_value) && V_NEW(0) == (long)((unsigned long)V_OLD(0) - 1) && VMO_IS_ACQ(LOGM(0)))
  /* no spurious success: returning 0 without the kernel means a permit was available */
  ENS(fast_success_only_if_permit_available, VIMPL(__verif_n == 1, V_OLD(0) > 0 && __CPROVER_return_value == 0))
  ENS(permit_available_never_blocks, VIMPL(V_OLD(0) > 0, __verif_n == 1))
  /* success through the slow path consumes exactly one kernel wake and commits nothing more */
  ENS(slow_success_consumes_exactly_one_kernel_wake, VIMPL(__CPROVER_return_value == 0 && __verif_n > 1,
        LOGK(LAST) == EV_KWAIT && (__verif_n == 2 || (__verif_n == 3 && LOGK(1) == EV_KWAIT && LOGA(1) == 1))))
  /* non-zero only after the full timeout (kernel reported it) or when polling, and then exactly its own decrement is undone */
  ENS(timeout_only_after_kernel_timeout_or_poll, VIMPL(__CPROVER_return_value != 0,
        timeout != DISPATCH_TIME_FOREVER && (timeout == DISPATCH_TIME_NOW || (LOGK(1) == EV_KWAIT && LOGA(1) == 1 && H_timedwait_timed_out))))
  ENS(timeout_undoes_exactly_its_own_decrement, VIMPL(__CPROVER_return_value != 0,
        IS_COMMIT(LAST, &dsema->dsema_value) && LAST >= 1 && V_OLD(LAST) < 0 && V_NEW(LAST) == (long)((unsigned long)V_OLD(LAST) + 1)
        && __verif_n == (timeout == DISPATCH_TIME_NOW ? 2 : 3)))
  ENS(forever_never_times_out, VIMPL(timeout == DISPATCH_TIME_FOREVER, __CPROVER_return_value == 0))
)
