/*VERIF
{ "tu": "src/shims/lock.c", "enforce": "_dispatch_sema4_timedwait", "props": ["C08", "C12"], "seq": true, "timeout": 200, "deciding": ["postcondition", "assertion", "precondition", "loop"],
  "stub_note": "sem_timedwait (kernel): returns an arbitrary result/errno; _dispatch_time_nanoseconds_since_epoch: own contract in C12",
  "assumes": ["UNDECIDED clause: timespec handed to sem_timedwait == deadline / 10^9, deadline % 10^9 (64-bit division, solver limit)", "do-while retry loop closed by a loop contract (no termination claim)"] }
VERIF*/
#ifdef VERIF_PRE
extern int H_errno, H_last_ret, H_last_errno; extern unsigned long long H_deadline_ns, H_epoch_calls, H_waits, H_timeout0; extern _Bool H_ts_ok, H_bad;
#else
int H_errno; int *__errno_location(void) { return &H_errno; }
int H_last_ret, H_last_errno; unsigned long long H_deadline_ns, H_epoch_calls, H_waits, H_timeout0; _Bool H_ts_ok, H_bad; sem_t H_sem;
uint64_t _dispatch_time_nanoseconds_since_epoch(dispatch_time_t when) { if (when != H_timeout0 || H_epoch_calls != H_waits) H_bad = 1; __CPROVER_assume(H_epoch_calls < (1ull << 62)); H_epoch_calls++; H_deadline_ns = ND(uint64_t); return H_deadline_ns; }
int sem_timedwait(sem_t *sem, const struct timespec *ts)
{
	/* (that the timespec is the computed deadline split by 10^9 is NOT decided: 64-bit division facts
	 * do not discharge on any installed back end, measured > 200 s) */
	H_ts_ok = (sem == &H_sem) && ts != 0;
	/* C12: the absolute deadline of EVERY kernel wait comes from the time module's conversion of the caller's dispatch_time_t (which knows the three clocks) */
	if (H_epoch_calls != H_waits + 1) H_bad = 1; H_waits++;
	H_last_ret = ND_BOOL() ? 0 : -1;
	int e = ND(int); __CPROVER_assume(e == EINTR || e == ETIMEDOUT);  /* the errors sem_timedwait can report for a valid semaphore/timespec */
	H_last_errno = e; if (H_last_ret == -1) H_errno = e;
	return H_last_ret;
}
VERIF_LOOP_CONTRACT(_dispatch_sema4_timedwait, 0,
	__CPROVER_assigns(_timeout, ret, H_errno, H_last_ret, H_last_errno, H_deadline_ns, H_ts_ok, H_epoch_calls, H_waits, H_bad, VERIF_GHOST)
	__CPROVER_loop_invariant(!H_bad && H_epoch_calls == H_waits))
VERIF_CONTRACT(bool, _dispatch_sema4_timedwait, (_dispatch_sema4_t *sema, dispatch_time_t timeout),
  REQ(sema == &H_sem && timeout == H_timeout0 && H_epoch_calls == 0 && H_waits == 0 && !H_bad)
  ASG(H_errno, H_last_ret, H_last_errno, H_deadline_ns, H_ts_ok, H_epoch_calls, H_waits, H_bad, VERIF_GHOST)
  /* "timed out" is reported only when the kernel wait itself timed out: an interrupted wait is retried */
  ENS(timeout_only_when_the_kernel_wait_timed_out, VIMPL(__CPROVER_return_value, H_last_ret == -1 && H_last_errno == ETIMEDOUT))
  ENS(success_only_when_the_kernel_wait_succeeded, VIMPL(!__CPROVER_return_value, H_last_ret == 0))
  ENS(waits_on_the_given_kernel_semaphore, H_ts_ok)
  ENS(every_kernel_wait_gets_the_deadline_the_time_module_computes_for_the_callers_timeout, !H_bad && H_waits >= 1 && H_epoch_calls == H_waits)
)
void harness(void)
{
	VERIF_GHOST_RESET();
	dispatch_time_t t = ND(dispatch_time_t); H_timeout0 = t; H_epoch_calls = 0; H_waits = 0; H_bad = 0;
	bool r = _dispatch_sema4_timedwait(&H_sem, t);
	VERIF_POST(_dispatch_sema4_timedwait, r, &H_sem, t);
	VERIF_CANARY();
}
#endif
