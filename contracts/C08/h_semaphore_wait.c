/*VERIF
{ "tu": "src/semaphore.c", "enforce": "dispatch_semaphore_wait", "props": ["C08","C05"],
  "nondet_volatile": true, "timeout": 120,
  "assumes": ["rely: dsema_value != LONG_MIN (fewer than 2^63 parked waiters)"],
  "stub_note": "_dispatch_sema4_signal/wait/timedwait (kernel semaphore): logged call-outs; timedwait reports timeout nondeterministically" }
VERIF*/
#ifdef VERIF_PRE
/* rely: fewer than 2^63 waiters are parked (dsema_value never reaches LONG_MIN) */
#define __VERIF_RELY(p, v) ((long)(unsigned long long)(v) != (-0x7fffffffffffffffL - 1))
#else
#include "contracts/C08/sema_common.h"
/* entries 0 and 1 are written before the undo loop; it must leave them alone on the retry edge */
#define H_LOG_PREFIX_UNCHANGED (LOGK(0) == __CPROVER_loop_entry(LOGK(0)) && LOGA(0) == __CPROVER_loop_entry(LOGA(0)) && LOGB(0) == __CPROVER_loop_entry(LOGB(0)) && LOGM(0) == __CPROVER_loop_entry(LOGM(0)) && LOGP(0) == __CPROVER_loop_entry(LOGP(0)) \
	&& LOGK(1) == __CPROVER_loop_entry(LOGK(1)) && LOGA(1) == __CPROVER_loop_entry(LOGA(1)) && LOGB(1) == __CPROVER_loop_entry(LOGB(1)) && LOGP(1) == __CPROVER_loop_entry(LOGP(1)))
VERIF_LOOP_CONTRACT(_dispatch_semaphore_wait_slow, 0,
	__CPROVER_assigns(orig, VERIF_GHOST, dsema->dsema_value)
	__CPROVER_loop_invariant(__verif_n == __CPROVER_loop_entry(__verif_n) && H_LOG_PREFIX_UNCHANGED))
#include "contracts/C08/wait.contract.h"
void harness(void)
{
	VERIF_GHOST_RESET();
	dispatch_time_t timeout = ND(dispatch_time_t);
	intptr_t r = dispatch_semaphore_wait(&H_sema, timeout);
	VERIF_POST(dispatch_semaphore_wait, r, &H_sema, timeout);
	VERIF_REACH(timed_out, r != 0 && TIMED(timeout));
	VERIF_REACH(drained, r == 0 && __verif_n == 3);
	VERIF_CANARY();
}
#endif
