/*VERIF
{ "tu": "src/semaphore.c", "enforce": "_dispatch_semaphore_dispose", "props": ["C08", "C17"], "seq": true, "timeout": 120,
  "assumes": ["the original value is what dispatch_semaphore_create accepted (>= 0); fewer than 2^61 waiters and permits"],
  "stub_note": "_dispatch_sema4_dispose: recorded; DISPATCH_CLIENT_CRASH is a trap (paths into it end there)" }
VERIF*/
#ifdef VERIF_PRE
#else
struct dispatch_semaphore_s H_sema; unsigned H_disposes; long H_v0, H_o0;
void _dispatch_sema4_dispose(_dispatch_sema4_t *sema, int policy) { (void)policy; if (sema != &H_sema.dsema_sema) H_disposes += 100; H_disposes++; }
VERIF_CONTRACT_VOID(_dispatch_semaphore_dispose, (dispatch_object_t dou, bool *allow_free),
  REQ(dou._dsema == &H_sema && H_disposes == 0 && H_sema.dsema_value == H_v0 && H_sema.dsema_orig == H_o0 && H_o0 >= 0 && H_o0 <= ((long)1 << 61) && H_v0 >= -((long)1 << 61))
  ASG(H_disposes, VERIF_GHOST)
  /* C08 / C17: a semaphore is only ever torn down with at least its original number of permits present, i.e. with no waiter blocked on it and no permit held: tearing it
   * down "in use" (a waiter would block for ever, a later signal would touch freed memory) is the documented crash, never silent */
  ENS(torn_down_only_when_no_waiter_is_left_and_every_permit_is_back, H_disposes == 1 && H_v0 >= H_o0)
)
void harness(void)
{
	VERIF_GHOST_RESET(); H_disposes = 0; H_v0 = ND(long); H_o0 = ND(long); __CPROVER_assume(H_o0 >= 0 && H_o0 <= ((long)1 << 61) && H_v0 >= -((long)1 << 61)); H_sema.dsema_value = H_v0; H_sema.dsema_orig = H_o0;
	dispatch_object_t dou; dou._dsema = &H_sema; bool af = 1;
	_dispatch_semaphore_dispose(dou, &af);
	VERIF_POST_VOID(_dispatch_semaphore_dispose, dou, &af);
	VERIF_CANARY();
}
#endif
