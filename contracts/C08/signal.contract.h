/* contract of dispatch_semaphore_signal (enforced in h_semaphore_signal.c) */
VERIF_CONTRACT(intptr_t, dispatch_semaphore_signal, (dispatch_semaphore_t dsema),
  REQ(dsema == &H_sema && __verif_n == 0)
  ASG(dsema->dsema_value, VERIF_GHOST)
  ENS(log_not_overflowed, __verif_n >= 1 && __verif_n <= 2)
  ENS(one_increment_with_release, __verif_n >= 1 && IS_COMMIT(0, &dsema->dsema_value) && V_NEW(0) == (long)((unsigned long)V_OLD(0) + 1) && VMO_IS_REL(LOGM(0)))
  /* a wakeup is posted iff a waiter is (or is about to be) parked: the value was negative */
  ENS(posts_exactly_one_wakeup_iff_a_waiter_was_parked, V_OLD(0) < 0 ? (__verif_n == 2 && LOGK(1) == EV_KWAKE && LOGA(1) == 1 && LOGP(1) == (void *)&dsema->dsema_sema && __CPROVER_return_value == 1)
        : (__verif_n == 1 && __CPROVER_return_value == 0))
)
