/*VERIF
{ "tu": "src/semaphore.c", "enforce": "dispatch_semaphore_create", "props": ["C08"], "seq": true, "timeout": 120,
  "stub_note": "_dispatch_object_alloc returns the harness object; _dispatch_sema4_init: recorded (the kernel semaphore is created lazily)" }
VERIF*/
#ifdef VERIF_PRE
#else
struct dispatch_semaphore_s H_sema; unsigned H_allocs, H_inits; intptr_t H_v;
void *_dispatch_object_alloc(const void *vtable, size_t size) { if (vtable != (const void *)DISPATCH_VTABLE(semaphore) || size != sizeof(struct dispatch_semaphore_s)) H_allocs += 100; H_allocs++; return &H_sema; }
void _dispatch_sema4_init(_dispatch_sema4_t *sema, int policy) { (void)policy; if (sema != &H_sema.dsema_sema) H_inits += 100; H_inits++; }
VERIF_CONTRACT(dispatch_semaphore_t, dispatch_semaphore_create, (intptr_t value),
  REQ(value == H_v && H_allocs == 0 && H_inits == 0)
  ASG(__CPROVER_object_whole(&H_sema), H_allocs, H_inits)
  /* C08: a semaphore created with value v starts with EXACTLY v permits (and remembers v: disposal checks that no waiter is left); a negative value would mean
   * "waiters exist" and is refused */
  ENS(a_negative_initial_value_is_refused, VIMPL(H_v < 0, __CPROVER_return_value == 0 && H_allocs == 0))
  ENS(starts_with_exactly_v_permits_and_remembers_v, VIMPL(H_v >= 0, __CPROVER_return_value == &H_sema && H_allocs == 1 && H_inits == 1 && H_sema.dsema_value == H_v && H_sema.dsema_orig == H_v))
)
void harness(void)
{
	VERIF_GHOST_RESET(); H_allocs = H_inits = 0; H_v = ND(intptr_t);
	dispatch_semaphore_t r = dispatch_semaphore_create(H_v);
	VERIF_POST(dispatch_semaphore_create, r, H_v);
	VERIF_REACH(created, r != 0);
	VERIF_CANARY();
}
#endif
