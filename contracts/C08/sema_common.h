/* C08 scaffolding: the kernel semaphore is a pair of logging stubs */
struct dispatch_semaphore_s H_sema;
_Bool H_timedwait_timed_out;       /* ghost: what the kernel timed wait reports */
void _dispatch_sema4_signal(_dispatch_sema4_t *sema, long count) { __verif_event(EV_KWAKE, 0, sema, (unsigned long long)count, 0); }
void _dispatch_sema4_wait(_dispatch_sema4_t *sema) { __verif_event(EV_KWAIT, 0, sema, 0, 0); }
bool _dispatch_sema4_timedwait(_dispatch_sema4_t *sema, dispatch_time_t timeout)
{ __verif_event(EV_KWAIT, 0, sema, 1, timeout); H_timedwait_timed_out = ND_BOOL(); return H_timedwait_timed_out; }
#define V_OLD(i) ((long)LOGA(i))
#define V_NEW(i) ((long)LOGB(i))
int H_errno;
int *__errno_location(void) { return &H_errno; }
