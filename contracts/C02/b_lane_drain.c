/*VERIF
{ "tu": "src/queue.c", "enforce": "_dispatch_lane_drain", "props": ["C02","C03","C04","C06","C01","C18","C10"], "plain": true, "timeout": 400,
  "bounded": {"unwind": 5, "what": "drains of <= 3 queued items (the drain loop is entered by a goto into its body: not a natural loop, so no loop contract can be attached)"},
  "assumes": ["scenario semantics: dq_state, the target queue and the item list change only through this drain's own call-outs (an item may suspend or retarget the queue); pinned by a rely clause / ghost state that the stubs update"],
  "stub_note": "_dispatch_queue_max_qos (asserts it is not applied to the WLH_ANON marker), item list access (get_head/pop_head), _dispatch_continuation_pop_inline (= an item starts running), width helpers (own contracts in C04), redirect/wake of readers: stubs recording order and checking the run conditions" }
VERIF*/
#ifdef VERIF_PRE
extern const volatile void *H_state_p; extern unsigned long long H_state_now;
#define __VERIF_RELY(p, v) ((const volatile void *)(p) != H_state_p || (unsigned long long)(v) == H_state_now)
/* ghost: does the drainer still hold IN_BARRIER in the state word?  A commit of this drain that flips the bit gives the barrier up */
extern _Bool H_drainer_in_barrier;
#define __VERIF_GUARANTEE(p, ov, nv, mo) (((const volatile void *)(p) == H_state_p && ((((unsigned long long)(ov)) ^ ((unsigned long long)(nv))) & 0x0040000000000000ull)) ? (H_drainer_in_barrier = 0, 1) : 1)
#else
#include "contracts/common/dq_common.h"
const volatile void *H_state_p; unsigned long long H_state_now;
struct dispatch_continuation_s H_items[3]; unsigned H_nitems, H_pos; struct dispatch_lane_s H_tq0, H_tq1;
unsigned H_runs, H_redirects, H_reader_wakes; _Bool H_bad_run, H_bad_pop, H_serial; uint64_t H_owned_now_barrier; _Bool H_upgraded, H_have_reader_width, H_last_was_barrier; _Bool H_drainer_in_barrier, H_reader_under_barrier;
struct dispatch_invoke_context_s H_dic;
static inline void _dispatch_thread_frame_push(dispatch_thread_frame_t dtf, dispatch_queue_class_t dqu) { (void)dtf; (void)dqu; }
static inline void _dispatch_thread_frame_pop(dispatch_thread_frame_t dtf) { (void)dtf; }
static inline struct dispatch_object_s *_dispatch_queue_get_head(dispatch_lane_class_t dqu) { (void)dqu; if (H_pos >= H_nitems) { H_bad_pop = 1; return (void *)&H_items[0]; } return (void *)&H_items[H_pos]; }
static inline struct dispatch_object_s *_dispatch_queue_pop_head(dispatch_lane_class_t dqu, struct dispatch_object_s *dc)
{ /* items leave the queue strictly from the head */
  if (H_pos >= H_nitems || dc != (void *)&H_items[H_pos]) H_bad_pop = 1;
  H_pos++; if (H_pos >= H_nitems) { dqu._dl->dq_items_tail = 0; return 0; } return (void *)&H_items[H_pos]; }
static inline bool _dispatch_needs_to_return_to_kernel(void) { return false; }
/* the marker is not an object: no queue state may be read through it (C03: hierarchies whose bottom is a work loop) */
static inline dispatch_qos_t _dispatch_queue_max_qos(dispatch_queue_class_t dq) { VERIF_ASSERT(a_work_loop_is_only_consulted_when_the_thread_is_bound_to_one, (void *)dq._dq != (void *)DISPATCH_WLH_ANON); return ND(dispatch_qos_t) & 7; }
static inline bool _dispatch_queue_try_upgrade_full_width(dispatch_lane_t dq, uint64_t owned) { (void)dq; (void)owned; H_upgraded = ND_BOOL(); if (H_upgraded) H_drainer_in_barrier = 1; return H_upgraded; }
static inline void _dispatch_queue_reserve_sync_width(dispatch_lane_t dq) { (void)dq; H_have_reader_width = 1; }
static inline bool _dispatch_queue_try_acquire_async(dispatch_lane_t dq) { (void)dq; H_have_reader_width = ND_BOOL(); return H_have_reader_width; }
static void _dispatch_non_barrier_waiter_redirect_or_wake(dispatch_lane_t dq, dispatch_object_t dou) { (void)dq; (void)dou; H_reader_wakes++; H_last_was_barrier = 0; if (!H_serial && H_drainer_in_barrier) H_reader_under_barrier = 1; if (S_SUSPENDED(H_state_now) || dq->do_targetq != (dispatch_queue_t)&H_tq0) H_bad_run = 1; }
static void _dispatch_continuation_redirect_push(dispatch_lane_t dl, dispatch_object_t dou, dispatch_qos_t qos) { (void)dl; (void)dou; (void)qos; H_redirects++; H_last_was_barrier = 0; if (!H_serial && H_drainer_in_barrier) H_reader_under_barrier = 1; if (S_SUSPENDED(H_state_now) || dl->do_targetq != (dispatch_queue_t)&H_tq0) H_bad_run = 1; }
/* AN ITEM STARTS RUNNING on this queue, in this drain */
static inline void _dispatch_continuation_pop_inline(dispatch_object_t dou, dispatch_invoke_context_t dic, dispatch_invoke_flags_t flags, dispatch_queue_class_t dqu)
{
	(void)dic; (void)flags;
	struct dispatch_continuation_s *it = dou._dc;
	H_runs++;
	/* never while the queue is suspended; never after the queue was retargeted during this drain (it must be re-driven from the new target) */
	if (S_SUSPENDED(H_state_now) || dqu._dl->do_targetq != (dispatch_queue_t)&H_tq0) H_bad_run = 1;
	/* the item that runs is the one just popped from the head */
	if (H_pos == 0 || it != &H_items[H_pos - 1]) H_bad_run = 1;
	/* a sync waiter is never run by the drainer: it is handed the lock instead */
	if ((it->dc_flags & DC_FLAG_SYNC_WAITER) && (H_serial || (it->dc_flags & DC_FLAG_BARRIER))) H_bad_run = 1;
	/* the item itself may suspend or retarget the queue */
	if (ND_BOOL()) H_state_now += DISPATCH_QUEUE_SUSPEND_INTERVAL;
	if (ND_BOOL()) dqu._dl->do_targetq = (dispatch_queue_t)&H_tq1;
	/* a barrier item of a concurrent queue may change the queue's width (dispatch_queue_set_width runs as one) */
	H_last_was_barrier = H_serial || (it->dc_flags & DC_FLAG_BARRIER) != 0;
	if (!H_serial && (it->dc_flags & DC_FLAG_BARRIER) && ND_BOOL()) { uint16_t w = ND(uint16_t); __CPROVER_assume(w >= 2 && w <= DISPATCH_QUEUE_WIDTH_POOL); *(uint16_t *)&dqu._dl->dq_width = w; }
}
VERIF_CONTRACT(dispatch_queue_wakeup_target_t, _dispatch_lane_drain, (dispatch_lane_t dq, dispatch_invoke_context_t dic, dispatch_invoke_flags_t flags, uint64_t *owned_ptr, bool serial_drain),
  REQ(dq == H_DQ && dic == &H_dic && serial_drain == H_serial && H_runs == 0 && !H_bad_run && !H_bad_pop && H_pos == 0 && H_nitems >= 1 && H_nitems <= 3)
  REQ(!(flags & (DISPATCH_INVOKE_THREAD_BOUND | DISPATCH_INVOKE_DISALLOW_SYNC_WAITERS)) && (H_serial == (H_lane.dq_width == 1)))
  ASG(VERIF_GHOST)
  ENS(items_start_only_when_not_suspended_not_retargeted_and_from_the_head, !H_bad_run)
  ENS(queue_is_consumed_strictly_from_the_head, !H_bad_pop)
  ENS(at_most_one_start_per_queued_item, H_runs + H_redirects + H_reader_wakes <= H_nitems && H_runs + H_redirects + H_reader_wakes <= H_pos)
  /* a sync waiter at the head of a serial queue (or a barrier waiter) stops the drain and is returned for the lock hand-off */
  ENS(head_sync_waiter_stops_the_drain_for_handoff, VIMPL(H_dic.dic_barrier_waiter != 0,
        H_dic.dic_barrier_waiter == (void *)&H_items[H_pos] && (H_items[H_pos].dc_flags & DC_FLAG_SYNC_WAITER) && __CPROVER_return_value == dq->do_targetq))
  /* C04 / C10: a drainer that ends as the barrier owner gives back the barrier plus the queue's CURRENT width (the width may have been changed by a barrier item it
   * ran): giving back a stale width leaves the width accounting of the queue wrong for every later reader and dispatch_apply */
  ENS(a_drain_ending_in_barrier_mode_owns_the_barrier_plus_the_current_width, VIMPL(__CPROVER_return_value == DISPATCH_QUEUE_WAKEUP_NONE && H_runs >= 1 && H_last_was_barrier && !H_serial && H_pos == H_nitems,
        (*owned_ptr & ~(uint64_t)(DISPATCH_QUEUE_ENQUEUED | DISPATCH_QUEUE_ENQUEUED_ON_MGR)) == DISPATCH_QUEUE_IN_BARRIER + (uint64_t)H_lane.dq_width * DISPATCH_QUEUE_WIDTH_INTERVAL))
  /* C04 / C10: a reader of a concurrent queue - a redirected async item, or a non-barrier sync / dispatch_apply waiter that is woken - is let go only after the
   * drainer has given up IN_BARRIER in the state word (one release commit): a reader released while the barrier is still held overlaps the barrier items queued behind it */
  ENS(readers_are_released_only_after_the_drainer_gave_up_the_barrier, !H_reader_under_barrier)
  /* stopping early with items left re-drives the queue on its (current) target: never NULL with work pending */
  ENS(leftover_items_are_redriven, VIMPL(H_pos < H_nitems, __CPROVER_return_value != DISPATCH_QUEUE_WAKEUP_NONE))
)
void harness(void)
{
	h_setup_lane();
	H_state_p = &H_lane.dq_state; H_state_now = ND(uint64_t);
	H_serial = (H_lane.dq_width == 1);
	H_nitems = ND(unsigned); __CPROVER_assume(H_nitems >= 1 && H_nitems <= 3);
	for (unsigned i = 0; i < 3; i++) { H_items[i].dc_flags = ND(uintptr_t) & 0xfff; }
	H_lane.dq_items_tail = (void *)&H_items[H_nitems - 1]; H_lane.do_targetq = (dispatch_queue_t)&H_tq0;
	H_pos = 0; H_runs = H_redirects = H_reader_wakes = 0; H_bad_run = H_bad_pop = 0; H_last_was_barrier = 0; H_dic.dic_barrier_waiter = 0;
	dispatch_invoke_flags_t flags = ND(dispatch_invoke_flags_t);
	__CPROVER_assume(!(flags & (DISPATCH_INVOKE_THREAD_BOUND | DISPATCH_INVOKE_DISALLOW_SYNC_WAITERS)));
	/* the queue may be an inner queue of a work loop (WORKLOOP_DRAIN): on this platform (no kevent workloops) the draining thread is not bound to
	 * the work loop, its wlh is the DISPATCH_WLH_ANON marker */
	__dispatch_tsd.dispatch_wlh_key = (void *)DISPATCH_WLH_ANON;
	uint64_t owned = ND(uint64_t);
	H_drainer_in_barrier = H_serial || (owned & DISPATCH_QUEUE_IN_BARRIER) != 0; H_reader_under_barrier = 0;
	VERIF_PRE_CALL(_dispatch_lane_drain, 0, H_DQ, &H_dic, flags, &owned, H_serial);
	dispatch_queue_wakeup_target_t r = _dispatch_lane_drain(H_DQ, &H_dic, flags, &owned, H_serial);
	VERIF_POST(_dispatch_lane_drain, r, H_DQ, &H_dic, flags, &owned, H_serial);
	VERIF_REACH(ran_three, H_runs == 3);
	VERIF_REACH(stopped_by_suspension, H_runs == 1 && H_pos == 1 && H_nitems == 3 && S_SUSPENDED(H_state_now));
	VERIF_REACH(reader_released_after_barrier_mode, !H_serial && (H_redirects + H_reader_wakes) >= 1 && !H_drainer_in_barrier && H_runs >= 1);
	VERIF_REACH(handoff, H_dic.dic_barrier_waiter != 0);
	VERIF_CANARY();
}
#endif
