/*VERIF
{ "tu": "src/queue.c", "enforce": "_dispatch_queue_drain_try_lock", "props": ["C01","C02","C05","C06"],
  "nondet_volatile": true, "timeout": 240,
  "cut_goto": {"_dispatch_queue_drain_try_lock": ["retry"]}, "rmw_extra": {"_dispatch_queue_drain_try_lock#0": "oq_floor"},
  "stub_note": "basepri override bookkeeping stubs: no effect on dq_state",
  "assumes": ["QoS-override `goto retry` path: cut after checking that nothing was committed before the jump; a retry is then a fresh call with another (arbitrary) QoS floor, which the proof already covers"] }
VERIF*/
#ifdef VERIF_PRE
#else
#include "contracts/common/dq_common.h"
#define MGR DISPATCH_QUEUE_ENQUEUED_ON_MGR
static inline dispatch_qos_t _dispatch_queue_override_self(uint64_t dq_state) { (void)dq_state; return ND(dispatch_qos_t); }
static inline void __verif_cut_backjump(void)
{
	VERIF_ASSERT(no_commit_before_override_retry, __verif_n == 0);
	__CPROVER_assume(0); /* see "assumes" */
}
#define DEQ_MASK(flags) (((flags) & DISPATCH_INVOKE_STEALING) ? 0ull : (((flags) & DISPATCH_INVOKE_MANAGER_DRAIN) ? MGR : DISPATCH_QUEUE_ENQUEUED))
VERIF_CONTRACT(uint64_t, _dispatch_queue_drain_try_lock, (dispatch_queue_t dq, dispatch_invoke_flags_t flags),
  REQ(dq == (dispatch_queue_t)H_DQ && __verif_n == 0 && !(flags & DISPATCH_INVOKE_WLH) && VALID_WIDTH(dq->dq_width) && VALID_TID(H_SELF))
  ASG(dq->dq_state, VERIF_GHOST)
  ENS(at_most_one_commit, __verif_n <= 1 && VIMPL(__verif_n == 1, IS_COMMIT(0, &dq->dq_state)))
  /* exclusion: the drain lock is only ever taken from a state with no owner, not suspended/inactive,
   * no barrier held and the FULL bit clear (all of which is `old < WIDTH_FULL_BIT && owner == 0`) */
  ENS(lock_only_from_unowned_runnable_state, VIMPL(__CPROVER_return_value != 0,
        __verif_n == 1 && !S_LOCKED(LOGA(0)) && S_RUNNABLE(LOGA(0)) && !S_SUSPENDED(LOGA(0)) && !S_IN_BARRIER(LOGA(0)) && !S_FULL(LOGA(0))))
  ENS(lock_refused_when_enqueued_on_manager_unless_manager_drain, VIMPL(__CPROVER_return_value != 0 && !(flags & DISPATCH_INVOKE_MANAGER_DRAIN), !S_ENQ_MGR(LOGA(0))))
  ENS(lock_is_acquire, VIMPL(__verif_n == 1, VMO_IS_ACQ(LOGM(0))))
  ENS(locked_state_owner_is_self_full_bit_set, VIMPL(__CPROVER_return_value != 0, S_OWNER(LOGB(0)) == H_SELF && S_FULL(LOGB(0))))
  ENS(locking_clears_dirty_and_override, VIMPL(__CPROVER_return_value != 0, !S_DIRTY(LOGB(0)) && !(LOGB(0) & DISPATCH_QUEUE_RECEIVED_OVERRIDE) && !S_PENDING_B(LOGB(0)) && !S_SUSPENDED(LOGB(0))))
  ENS(locking_preserves_role_qos_enqueued, VIMPL(__CPROVER_return_value != 0,
        (LOGB(0) & DISPATCH_QUEUE_DRAIN_PRESERVED_BITS_MASK) == (LOGA(0) & DISPATCH_QUEUE_DRAIN_PRESERVED_BITS_MASK)))
  /* barrier taken iff a barrier was pending or nobody else holds any width (serial queues: always) */
  ENS(barrier_iff_pending_or_no_width_in_use, VIMPL(__CPROVER_return_value != 0,
        S_IN_BARRIER(LOGB(0)) == (S_PENDING_B(LOGA(0)) || S_WIDTH13(LOGA(0)) + dq->dq_width <= DISPATCH_QUEUE_WIDTH_FULL)))
  ENS(serial_queue_lock_is_a_barrier, VIMPL(__CPROVER_return_value != 0 && dq->dq_width == 1, S_IN_BARRIER(LOGB(0))))
  ENS(no_reader_width_left_in_locked_state, VIMPL(__CPROVER_return_value != 0, (LOGB(0) & DISPATCH_QUEUE_WIDTH_MASK) == DISPATCH_QUEUE_WIDTH_FULL_BIT))
  /* the returned `owned` is exactly what was added to the width/barrier bits (plus the dequeue bit) */
  ENS(owned_accounts_exactly_for_the_transition, VIMPL(__CPROVER_return_value != 0,
        __CPROVER_return_value == (LOGB(0) & (DISPATCH_QUEUE_IN_BARRIER | DISPATCH_QUEUE_WIDTH_FULL_BIT | DEQ_MASK(flags))) - (LOGA(0) & DISPATCH_QUEUE_WIDTH_MASK)))
  /* failure: nothing but the dequeue bit changes */
  ENS(failure_only_dequeues, VIMPL(__CPROVER_return_value == 0 && __verif_n == 1, LOGB(0) == (LOGA(0) ^ DEQ_MASK(flags)) && DEQ_MASK(flags) != 0))
  ENS(failure_means_state_refused, VIMPL(__CPROVER_return_value == 0 && __verif_n == 1,
        S_LOCKED(LOGA(0)) || !S_RUNNABLE(LOGA(0)) || (S_ENQ_MGR(LOGA(0)) && !(flags & DISPATCH_INVOKE_MANAGER_DRAIN))))
)
void harness(void)
{
	h_setup_lane();
	dispatch_invoke_flags_t flags = ND(dispatch_invoke_flags_t);
	__CPROVER_assume(!(flags & DISPATCH_INVOKE_WLH));
	uint64_t r = _dispatch_queue_drain_try_lock((dispatch_queue_t)H_DQ, flags);
	VERIF_POST(_dispatch_queue_drain_try_lock, r, (dispatch_queue_t)H_DQ, flags);
	VERIF_CANARY();
}
#endif
