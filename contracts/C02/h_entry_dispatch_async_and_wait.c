/*VERIF
{ "tu": "src/queue.c", "enforce": "dispatch_async_and_wait", "props": ["C02", "C04"], "seq": true, "timeout": 120,
  "stub_note": "_dispatch_sync_block_with_privdata, _dispatch_barrier_sync_f, _dispatch_sync_f, _dispatch_async_and_wait_block_with_privdata, _dispatch_async_and_wait_f (and the other public entry points): logging stubs" }
VERIF*/
#ifdef VERIF_PRE
#else
#define REAL_dispatch_async_and_wait 1
#include "contracts/C02/sync_entry_common.h"
#include "contracts/C02/entry_dispatch_async_and_wait.contract.h"
void harness(void)
{
	h_setup_entry();
	dispatch_async_and_wait((dispatch_queue_t)H_DQ, H_WORK);
	VERIF_POST_VOID(dispatch_async_and_wait, (dispatch_queue_t)H_DQ, H_WORK);
	VERIF_CANARY();
}
#endif
