/* dispatch_sync: handed on as a non-barrier BLOCK item (width-1 queues make it a barrier further down: _dispatch_sync_f_inline) */
VERIF_CONTRACT_VOID(dispatch_sync, (dispatch_queue_t dq, dispatch_block_t work),
  REQ(dq == (dispatch_queue_t)H_DQ && work == H_WORK && __verif_n == 0)
  ASG(VERIF_GHOST, H_call_func)
  ENS(handed_on_exactly_once, ONE_CALL && LOGP(0) == (void *)dq && (CALLK == K_SYNC_PRIV || CALLK == K_SYNC_F))
  ENS(marked_as_a_block_and_nothing_else, CALLFLAGS == DC_FLAG_BLOCK)
  ENS(plain_block_keeps_its_own_invoke, VIMPL(!H_priv, CALLK == K_SYNC_F && CALLFUNC_IS_BLOCKS_OWN))
  ENS(block_object_goes_through_the_private_data_path, VIMPL(H_priv, CALLK == K_SYNC_PRIV))
)
