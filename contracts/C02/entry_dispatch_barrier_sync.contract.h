/* dispatch_barrier_sync: the item is ALWAYS handed on as a barrier, whatever kind of block it is */
VERIF_CONTRACT_VOID(dispatch_barrier_sync, (dispatch_queue_t dq, dispatch_block_t work),
  REQ(dq == (dispatch_queue_t)H_DQ && work == H_WORK && __verif_n == 0)
  ASG(VERIF_GHOST, H_call_func)
  ENS(handed_on_exactly_once, ONE_CALL && LOGP(0) == (void *)dq && (CALLK == K_SYNC_PRIV || CALLK == K_BARRIER_SYNC_F))
  ENS(always_marked_as_a_barrier_block, (CALLFLAGS & DC_FLAG_BARRIER) && (CALLFLAGS & DC_FLAG_BLOCK))
  ENS(plain_block_runs_through_the_barrier_path_with_its_own_invoke, VIMPL(!H_priv, CALLK == K_BARRIER_SYNC_F && CALLFUNC_IS_BLOCKS_OWN))
  ENS(block_object_goes_through_the_private_data_path, VIMPL(H_priv, CALLK == K_SYNC_PRIV))
)
