/*VERIF
{ "tu": "src/queue.c", "enforce": "_dispatch_queue_try_acquire_barrier_sync_and_suspend", "props": ["C02","C03","C04","C05","C06"],
  "nondet_volatile": true, "timeout": 120 }
VERIF*/
#ifdef VERIF_PRE
#else
#include "contracts/common/dq_common.h"
VERIF_CONTRACT(bool, _dispatch_queue_try_acquire_barrier_sync_and_suspend, (dispatch_lane_t dq, uint32_t tid, uint64_t suspend_count),
  REQ(dq == H_DQ && __verif_n == 0 && VALID_WIDTH(dq->dq_width) && VALID_TID(tid) && suspend_count <= 1)
  ASG(dq->dq_state, VERIF_GHOST)
  ENS(commit_iff_success, __verif_n == (__CPROVER_return_value ? 1 : 0) && VIMPL(__verif_n == 1, IS_COMMIT(0, &dq->dq_state)))
  /* the sync fast path cannot overtake queued items or a running item: it succeeds only from the
   * completely idle state (no owner, not enqueued, not dirty, no width in use, not suspended) */
  ENS(only_from_completely_idle_state, VIMPL(__CPROVER_return_value, LOGA(0) == (S_INIT(dq->dq_width) | S_ROLE(LOGA(0)))))
  ENS(idle_means_nothing_queued_or_running, VIMPL(__CPROVER_return_value,
        !S_LOCKED(LOGA(0)) && !S_ENQUEUED(LOGA(0)) && !S_DIRTY(LOGA(0)) && !S_SUSPENDED(LOGA(0)) && !S_IN_BARRIER(LOGA(0)) && !S_PENDING_B(LOGA(0)) && !S_ENQ_MGR(LOGA(0))))
  ENS(takes_full_barrier_as_tid, VIMPL(__CPROVER_return_value, LOGB(0) ==
        (DISPATCH_QUEUE_WIDTH_FULL_BIT | DISPATCH_QUEUE_IN_BARRIER | (uint64_t)tid | (suspend_count * DISPATCH_QUEUE_SUSPEND_INTERVAL) | S_ROLE(LOGA(0)))))
  ENS(acquire_order, VIMPL(__CPROVER_return_value, VMO_IS_ACQ(LOGM(0))))
)
void harness(void)
{
	h_setup_lane();
	uint32_t tid = ND(uint32_t); uint64_t sc = ND(uint64_t);
	bool r = _dispatch_queue_try_acquire_barrier_sync_and_suspend(H_DQ, tid, sc);
	VERIF_POST(_dispatch_queue_try_acquire_barrier_sync_and_suspend, r, H_DQ, tid, sc);
	VERIF_CANARY();
}
#endif
