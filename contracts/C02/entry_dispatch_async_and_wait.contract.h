/* dispatch_async_and_wait: on a serial queue (width 1) EVERY item is a barrier, for plain blocks and block objects alike */
VERIF_CONTRACT_VOID(dispatch_async_and_wait, (dispatch_queue_t dq, dispatch_block_t work),
  REQ(dq == (dispatch_queue_t)H_DQ && work == H_WORK && __verif_n == 0 && VALID_WIDTH(H_lane.dq_width))
  ASG(VERIF_GHOST, H_call_func)
  ENS(handed_on_exactly_once, ONE_CALL && LOGP(0) == (void *)dq)
  ENS(root_queue_degrades_to_dispatch_sync, VIMPL(!H_has_target, CALLK == K_SYNC))
  ENS(serial_queue_item_is_always_a_barrier, VIMPL(H_has_target && H_lane.dq_width == 1, (CALLFLAGS & DC_FLAG_BARRIER) != 0))
  ENS(concurrent_queue_item_is_not_a_barrier, VIMPL(H_has_target && H_lane.dq_width != 1, (CALLFLAGS & DC_FLAG_BARRIER) == 0))
  ENS(marked_async_and_wait_block, VIMPL(H_has_target, (CALLFLAGS & ~(uintptr_t)DC_FLAG_BARRIER) == (DC_FLAG_ASYNC_AND_WAIT | DC_FLAG_BLOCK) && CALLK == (H_priv ? K_AAW_PRIV : K_AAW_F)))
  ENS(plain_block_keeps_its_own_invoke, VIMPL(H_has_target && !H_priv, CALLFUNC_IS_BLOCKS_OWN))
)
