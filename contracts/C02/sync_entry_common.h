/* C02/C04: the public synchronous entry points decide whether an item is a BARRIER before anything else happens; the
 * functions they hand over to are logging stubs here (their own contracts: h_sync_f_slow, h_try_acquire_barrier_sync, ...) */
#include "contracts/common/dq_common.h"
enum { K_SYNC_PRIV = 100, K_BARRIER_SYNC_F, K_SYNC_F, K_AAW_PRIV, K_AAW_F, K_SYNC, K_BARRIER_SYNC };
struct Block_layout H_blk; _Bool H_priv;
static void h_block_body(void *c) { (void)c; }
#ifdef VERIF_NATIVE
#define H_WORK ((dispatch_block_t)(void *)&H_blk)
#else
#define H_WORK ((dispatch_block_t)(void *)&H_blk)
#endif
dispatch_function_t H_call_func;
#define H_LOGCALL(kind, dq, flags, func) do { H_call_func = (dispatch_function_t)(func); __verif_event((kind), 0, (dq), (unsigned long long)(flags), 0); } while (0)
/* whether a block is a dispatch_block_create() object is read off its invoke pointer (a function-pointer comparison; the
 * harness decides it directly) */
static inline bool _dispatch_block_has_private_data(const dispatch_block_t block) { (void)block; return H_priv; }
#ifndef REAL__dispatch_sync_block_with_privdata
static void _dispatch_sync_block_with_privdata(dispatch_queue_t dq, dispatch_block_t work, uintptr_t dc_flags) { (void)work; H_LOGCALL(K_SYNC_PRIV, dq, dc_flags, 0); }
#endif
static void _dispatch_barrier_sync_f(dispatch_queue_t dq, void *ctxt, dispatch_function_t func, uintptr_t dc_flags) { (void)ctxt; H_LOGCALL(K_BARRIER_SYNC_F, dq, dc_flags, func); }
static void _dispatch_sync_f(dispatch_queue_t dq, void *ctxt, dispatch_function_t func, uintptr_t dc_flags) { (void)ctxt; H_LOGCALL(K_SYNC_F, dq, dc_flags, func); }
static void _dispatch_async_and_wait_block_with_privdata(dispatch_queue_t dq, dispatch_block_t work, uintptr_t dc_flags) { (void)work; H_LOGCALL(K_AAW_PRIV, dq, dc_flags, 0); }
static void _dispatch_async_and_wait_f(dispatch_queue_t dq, void *ctxt, dispatch_function_t func, uintptr_t dc_flags) { (void)ctxt; H_LOGCALL(K_AAW_F, dq, dc_flags, func); }
#ifndef REAL_dispatch_sync
void dispatch_sync(dispatch_queue_t dq, dispatch_block_t work) { (void)work; H_LOGCALL(K_SYNC, dq, 0, 0); }
#endif
#ifndef REAL_dispatch_barrier_sync
void dispatch_barrier_sync(dispatch_queue_t dq, dispatch_block_t work) { (void)work; H_LOGCALL(K_BARRIER_SYNC, dq, 0, 0); }
#endif
_Bool H_has_target;
static inline void h_setup_entry(void)
{
	h_setup_lane();
	H_priv = ND_BOOL();
	H_blk.invoke = (void *)h_block_body; H_call_func = 0;
	H_has_target = ND_BOOL();
	H_lane.do_targetq = H_has_target ? (dispatch_queue_t)&H_lane : 0;   /* only tested for NULL by the entry points */
}
#define ONE_CALL (__verif_n == 1)
#define CALLK LOGK(0)
#define CALLFLAGS LOGA(0)
#define CALLFUNC_IS_BLOCKS_OWN (H_call_func == (dispatch_function_t)h_block_body)
