VERIF_CONTRACT_VOID(dispatch_barrier_async_and_wait, (dispatch_queue_t dq, dispatch_block_t work),
  REQ(dq == (dispatch_queue_t)H_DQ && work == H_WORK && __verif_n == 0 && VALID_WIDTH(H_lane.dq_width))
  ASG(VERIF_GHOST, H_call_func)
  ENS(handed_on_exactly_once, ONE_CALL && LOGP(0) == (void *)dq)
  ENS(root_queue_degrades_to_dispatch_barrier_sync, VIMPL(!H_has_target, CALLK == K_BARRIER_SYNC))
  ENS(always_marked_as_a_barrier, VIMPL(H_has_target, CALLFLAGS == (DC_FLAG_ASYNC_AND_WAIT | DC_FLAG_BLOCK | DC_FLAG_BARRIER) && CALLK == (H_priv ? K_AAW_PRIV : K_AAW_F)))
  ENS(plain_block_keeps_its_own_invoke, VIMPL(H_has_target && !H_priv, CALLFUNC_IS_BLOCKS_OWN))
)
