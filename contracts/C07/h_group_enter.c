/*VERIF
{ "tu": "src/semaphore.c", "enforce": "dispatch_group_enter", "props": ["C07","C17"],
  "nondet_volatile": true, "timeout": 120,
  "stub_note": "_dispatch_retain: logged" }
VERIF*/
#ifdef VERIF_PRE
#else
#include "contracts/C07/group_common.h"
#include "contracts/C07/enter.contract.h"
void harness(void)
{
	VERIF_GHOST_RESET();
	dispatch_group_enter(DG);
	VERIF_POST_VOID(dispatch_group_enter, DG);
	VERIF_CANARY();
}
#endif
