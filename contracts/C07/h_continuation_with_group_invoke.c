/*VERIF
{ "tu": "src/queue.c", "enforce": "_dispatch_continuation_with_group_invoke", "props": ["C07", "C05", "C19"], "seq": true, "timeout": 120,
  "assumes": ["the continuation has ALREADY been returned to the per-thread cache when the work item runs (_dispatch_continuation_invoke_inline frees it first), so the item itself may re-allocate and overwrite it: after the call-out every field of *dc is arbitrary"],
  "stub_note": "_dispatch_client_callout (the work item: overwrites the recycled continuation), dispatch_group_leave (own contract: h_group_leave): recorded" }
VERIF*/
#ifdef VERIF_PRE
#else
#include "contracts/C07/group_common.h"
struct dispatch_continuation_s H_dc; struct dispatch_group_s H_other_group; void *H_ctxt0; unsigned H_callouts, H_leaves; _Bool H_bad; dispatch_group_t H_left;
static void h_work(void *c) { (void)c; }
static const struct dispatch_group_vtable_s H_gvt = { ._os_obj_vtable = { .do_type = DISPATCH_GROUP_TYPE } };
void _dispatch_client_callout(void *ctxt, dispatch_function_t f)
{	if (ctxt != H_ctxt0 || f != h_work || H_leaves) H_bad = 1; H_callouts++;
	/* the item submits more work: the recycled continuation now describes something else, e.g. an item of ANOTHER group */
	H_dc.dc_data = ND_BOOL() ? (void *)&H_other_group : (void *)ND(uintptr_t); H_dc.dc_ctxt = (void *)ND(uintptr_t); H_dc.dc_func = (dispatch_function_t)0; H_dc.dc_flags = ND(uintptr_t); }
void dispatch_group_leave(dispatch_group_t dg) { if (!H_callouts) H_bad = 1; H_leaves++; H_left = dg; }
VERIF_CONTRACT_VOID(_dispatch_continuation_with_group_invoke, (dispatch_continuation_t dc),
  REQ(dc == &H_dc && H_dc.dc_data == (void *)DG && H_group.do_vtable == &H_gvt && H_other_group.do_vtable == &H_gvt && H_dc.dc_ctxt == H_ctxt0 && H_dc.dc_func == h_work && H_callouts == 0 && H_leaves == 0 && !H_bad)
  ASG(__CPROVER_object_whole(&H_dc), H_callouts, H_leaves, H_bad, H_left)
  ENS(the_item_runs_exactly_once_before_its_group_is_left, H_callouts == 1 && !H_bad)
  /* C07: the enter made by dispatch_group_async is matched by exactly one leave OF THE SAME GROUP after the item returns - the group is the
   * one named when the item was started, whatever the item did to the (already recycled) continuation meanwhile */
  ENS(exactly_one_leave_of_the_group_the_item_was_submitted_with, H_leaves == 1 && H_left == DG)
)
void harness(void)
{
	VERIF_GHOST_RESET();
	H_group.do_vtable = &H_gvt; H_other_group.do_vtable = &H_gvt; H_ctxt0 = (void *)&H_other_group;
	H_dc.dc_data = (void *)DG; H_dc.dc_ctxt = H_ctxt0; H_dc.dc_func = h_work; H_dc.dc_flags = ND(uintptr_t) & 0x1ff;
	H_callouts = H_leaves = 0; H_bad = 0;
	_dispatch_continuation_with_group_invoke(&H_dc);
	VERIF_POST_VOID(_dispatch_continuation_with_group_invoke, &H_dc);
	VERIF_CANARY();
}
#endif
