/*VERIF
{ "tu": "src/semaphore.c", "enforce": "_dispatch_group_wake", "props": ["C07","C17","C19"], "seq": true, "plain": true, "timeout": 240,
  "bounded": {"unwind": 5, "what": "notify list of <= 3 continuations (list walk by pointer chasing has no loop contract), at most one of them not yet linked to its successor by a concurrent notifier"},
  "log_cap": 20,
  "stub_note": "_dispatch_continuation_async: logged submission; _dispatch_wake_by_address: logged; release: logged" }
VERIF*/
#ifdef VERIF_PRE
#else
#include "contracts/C07/group_common.h"
struct dispatch_continuation_s H_n[3];
struct dispatch_lane_s H_q[3];
unsigned H_len;
static inline void _dispatch_continuation_async(dispatch_queue_class_t dqu, dispatch_continuation_t dc, dispatch_qos_t qos, uintptr_t dc_flags)
{ (void)qos; (void)dc_flags; __verif_event(EV_PUSH, 0, dqu._dq, (uintptr_t)dc, 0); }
void _dispatch_wake_by_address(uint32_t volatile *address) { __verif_event(EV_KWAKE, 0, address, 0, 0); }
/* a notifier that has swapped itself in as the tail but not yet linked itself behind its predecessor (do_next still NULL): the walk must WAIT for the link, not
 * stop - the node is part of the captured snapshot (its tail says so) */
unsigned H_gap_at; unsigned H_waits;
void *_dispatch_wait_for_enqueuer(void **ptr) { VERIF_ASSERT(waits_only_for_a_link_that_is_really_missing, H_gap_at < 2 && H_gap_at + 1 < H_len && ptr == (void **)&H_n[H_gap_at].do_next); H_waits++; H_n[H_gap_at].do_next = &H_n[H_gap_at + 1]; return &H_n[H_gap_at + 1]; }
#define HAS_N(s) (((s) & DISPATCH_GROUP_HAS_NOTIFS) != 0)
#define HAS_W(s) (((s) & DISPATCH_GROUP_HAS_WAITERS) != 0)
VERIF_CONTRACT_VOID(_dispatch_group_wake, (dispatch_group_t dg, uint64_t dg_state, bool needs_release),
  REQ(dg == DG && __verif_n == 0 && H_len >= 1 && H_len <= 3)
  ASG(dg->dg_notify_head, dg->dg_notify_tail, VERIF_GHOST)
  /* every captured notification is submitted exactly once, in list order, to its own queue, then that queue's reference dropped */
  ENS(each_notification_submitted_exactly_once_in_order, VIMPL(HAS_N(dg_state),
        LOGK(2) == EV_PUSH && LOGP(2) == (void *)&H_q[0] && LOGA(2) == (uintptr_t)&H_n[0] && LOGK(3) == EV_RELEASE && LOGP(3) == (void *)&H_q[0] &&
        VIMPL(H_len >= 2, LOGK(4) == EV_PUSH && LOGP(4) == (void *)&H_q[1] && LOGA(4) == (uintptr_t)&H_n[1] && LOGK(5) == EV_RELEASE) &&
        VIMPL(H_len >= 3, LOGK(6) == EV_PUSH && LOGP(6) == (void *)&H_q[2] && LOGA(6) == (uintptr_t)&H_n[2] && LOGK(7) == EV_RELEASE)))
  /* the list is detached (head and tail cleared) BEFORE anything is submitted: a notifier registered later starts a new list */
  ENS(list_detached_before_first_submission, VIMPL(HAS_N(dg_state),
        IS_COMMIT(0, &dg->dg_notify_head) && LOGB(0) == 0 && IS_COMMIT(1, &dg->dg_notify_tail) && LOGB(1) == 0 && VMO_IS_REL(LOGM(1))))
  ENS(waiters_woken_once_on_the_generation_word, VIMPL(HAS_W(dg_state),
        LOGK(HAS_N(dg_state) ? 2 + 2 * H_len : 0) == EV_KWAKE && LOGP(HAS_N(dg_state) ? 2 + 2 * H_len : 0) == (void *)&dg->dg_gen))
  ENS(references_released_match, (needs_release || HAS_N(dg_state)) ?
        (LOGK(LAST) == EV_RELEASE && LOGP(LAST) == (void *)dg && LOGA(LAST) == (needs_release ? 1u : 0u) + (HAS_N(dg_state) ? 1u : 0u)) : 1)
  ENS(event_count_exact, __verif_n == (HAS_N(dg_state) ? 2 + 2 * H_len : 0) + (HAS_W(dg_state) ? 1 : 0) + ((needs_release || HAS_N(dg_state)) ? 1 : 0))
)
void harness(void)
{
	VERIF_GHOST_RESET();
	H_len = ND(unsigned); __CPROVER_assume(H_len >= 1 && H_len <= 3);
	H_gap_at = ND(unsigned); H_waits = 0; __CPROVER_assume(H_gap_at <= 3);   /* 3 = no gap */
	for (unsigned i = 0; i < 3; i++) { H_n[i].dc_data = &H_q[i]; H_n[i].do_next = (i + 1 < H_len && i != H_gap_at) ? &H_n[i + 1] : 0; }
	H_group.dg_notify_head = &H_n[0]; H_group.dg_notify_tail = &H_n[H_len - 1];
	uint64_t st = ND(uint64_t); bool nr = ND_BOOL();
	VERIF_PRE_CALL(_dispatch_group_wake, DG, st, nr);
	_dispatch_group_wake(DG, st, nr);
	VERIF_POST_VOID(_dispatch_group_wake, DG, st, nr);
	VERIF_CANARY();
}
#endif
