/*VERIF
{ "tu": "src/semaphore.c", "enforce": "_dispatch_group_notify", "props": ["C07","C05","C17","C19"],
  "nondet_volatile": true, "timeout": 180,
  "assumes": ["rely: dg_notify_tail holds NULL or a valid continuation (MPSC discipline)"],
  "stub_note": "_dispatch_group_wake: logged call; retain: logged" }
VERIF*/
#ifdef VERIF_PRE
#else
#include "contracts/C07/group_common.h"
struct dispatch_continuation_s H_dsn, H_prev;
struct dispatch_lane_s H_q;
static void _dispatch_group_wake(dispatch_group_t dg, uint64_t dg_state, bool needs_release)
{ __verif_event(EV_CALL, 0, dg, CALL_GROUP_WAKE, dg_state); VERIF_ASSERT(immediate_wake_does_not_release_an_enter_reference, !needs_release); }
#define WAS_EMPTY (LOGA(2) == 0)
VERIF_CONTRACT_VOID(_dispatch_group_notify, (dispatch_group_t dg, dispatch_queue_t dq, dispatch_continuation_t dsn),
  REQ(dg == DG && dsn == &H_dsn && dq == (dispatch_queue_t)&H_q && __verif_n == 0)
  ASG(H_prev.do_next, dg->dg_state, dg->dg_notify_head, dg->dg_notify_tail, H_dsn.dc_data, H_dsn.do_next, VERIF_GHOST)
  ENS(log_bounded, __verif_n >= 4 && __verif_n <= 6)
  ENS(target_queue_recorded_and_retained_first, H_dsn.dc_data == dq && LOGK(0) == EV_RETAIN && LOGP(0) == (void *)dq && LOGA(0) == 1)
  /* publication: next cleared, then ONE release exchange of the tail */
  ENS(published_by_release_exchange_of_tail, IS_COMMIT(1, &dsn->do_next) && LOGB(1) == 0 &&
        IS_COMMIT(2, &dg->dg_notify_tail) && LOGB(2) == (uintptr_t)dsn && VMO_IS_REL(LOGM(2)))
  ENS(not_first_links_behind_previous_tail_and_is_done, VIMPL(!WAS_EMPTY, __verif_n == 4 && IS_COMMIT(3, &((dispatch_continuation_t)(uintptr_t)LOGA(2))->do_next) && LOGB(3) == (uintptr_t)dsn))
  /* first notifier: group retained, head set, then HAS_NOTIFS published with release -- or, if the group is empty right now, fired immediately */
  ENS(first_retains_group_and_sets_head, VIMPL(WAS_EMPTY, LOGK(3) == EV_RETAIN && LOGP(3) == (void *)dg && IS_COMMIT(4, &dg->dg_notify_head) && LOGB(4) == (uintptr_t)dsn && __verif_n == 6))
  ENS(first_sets_has_notifs_with_release_or_fires_now, VIMPL(WAS_EMPTY,
        (IS_COMMIT(5, G_STATE_P) && LOGB(5) == (LOGA(5) | DISPATCH_GROUP_HAS_NOTIFS) && VMO_IS_REL(LOGM(5)) && (uint32_t)LOGA(5) != 0) ||
        (LOGK(5) == EV_CALL && LOGA(5) == CALL_GROUP_WAKE && G_NOTIFS(LOGB(5)) && (uint32_t)(LOGB(5) & ~(uint64_t)DISPATCH_GROUP_HAS_NOTIFS) == 0)))
)
void harness(void)
{
	VERIF_GHOST_RESET();
	__verif_ptrloc = &H_group.dg_notify_tail; __verif_ptrobj = &H_prev;
	_dispatch_group_notify(DG, (dispatch_queue_t)&H_q, &H_dsn);
	VERIF_POST_VOID(_dispatch_group_notify, DG, (dispatch_queue_t)&H_q, &H_dsn);
	VERIF_REACH(first_fires_now, __verif_n == 6 && LOGK(5) == EV_CALL);
	VERIF_REACH(first_sets_bit, __verif_n == 6 && LOGK(5) == EV_COMMIT);
	VERIF_REACH(not_first, __verif_n == 4);
	VERIF_CANARY();
}
#endif
