/* contract enforced in h_group_enter.c */
VERIF_CONTRACT_VOID(dispatch_group_enter, (dispatch_group_t dg),
  REQ(dg == DG && __verif_n == 0)
  ASG(dg->dg_bits, VERIF_GHOST)
  /* 32-bit subtract: the borrow of count 0 -> 1 must NOT reach the generation */
  ENS(enter_is_one_32bit_subtract, __verif_n >= 1 && IS_COMMIT(0, &dg->dg_bits) && (uint32_t)LOGB(0) == (uint32_t)((uint32_t)LOGA(0) - DISPATCH_GROUP_VALUE_INTERVAL)
        && LOGB(0) <= 0xffffffffull && VMO_IS_ACQ(LOGM(0)))
  ENS(flag_bits_untouched, (LOGB(0) & 3) == (LOGA(0) & 3))
  /* the group holds a reference while non-empty */
  ENS(first_enter_retains_the_group, G_VALUE(LOGA(0)) == 0 ? (__verif_n == 2 && LOGK(1) == EV_RETAIN && LOGA(1) == 1 && LOGP(1) == (void *)dg) : __verif_n == 1)
  ENS(overflow_is_a_crash_not_a_wrap, G_VALUE(LOGA(0)) != DISPATCH_GROUP_VALUE_MAX)
)
