/*VERIF
{ "tu": "src/semaphore.c", "enforce": "dispatch_group_notify_f", "props": ["C07"], "seq": true, "timeout": 120,
  "stub_note": "_dispatch_continuation_alloc, _dispatch_continuation_init_f (records what it is given), _dispatch_group_notify (own contract: h_group_notify): recorded" }
VERIF*/
#ifdef VERIF_PRE
#else
#include "contracts/C07/group_common.h"
struct dispatch_continuation_s H_dc; struct dispatch_queue_s H_q; char H_ctxt; struct Block_layout H_blk; unsigned H_inits, H_notifies; _Bool H_bad; uintptr_t H_init_flags;
static void h_fn(void *c) { (void)c; }
static inline dispatch_continuation_t _dispatch_continuation_alloc(void) { return &H_dc; }
static inline dispatch_qos_t _dispatch_continuation_init_f(dispatch_continuation_t dc, dispatch_queue_class_t dqu, void *ctxt, dispatch_function_t f, dispatch_block_flags_t flags, uintptr_t dc_flags)
{ if (dc != &H_dc || dqu._dq != &H_q || ctxt != (void *)&H_ctxt || f != h_fn || flags != 0 || H_notifies) H_bad = 1; H_inits++; H_init_flags = dc_flags; return 0; }
static inline void _dispatch_group_notify(dispatch_group_t dg, dispatch_queue_t dq, dispatch_continuation_t dsn)
{ if (dg != DG || dq != &H_q || dsn != &H_dc || H_inits != 1) H_bad = 1; H_notifies++; }
VERIF_CONTRACT_VOID(dispatch_group_notify_f, (dispatch_group_t dg, dispatch_queue_t dq, void *ctxt, dispatch_function_t func),
  REQ(dg == DG && dq == &H_q && ctxt == (void *)&H_ctxt && func == h_fn && H_inits == 0 && H_notifies == 0 && !H_bad)
  ASG(__CPROVER_object_whole(&H_dc), H_inits, H_notifies, H_bad, H_init_flags)
  /* C07: a notification is ONE consumable work item for the given queue, registered exactly once on the given group (after it was fully initialised): it is submitted
   * once when the group empties and its storage reclaimed afterwards (CONSUME) */
  ENS(one_consumable_item_is_initialised_then_registered_exactly_once, H_inits == 1 && H_notifies == 1 && !H_bad && H_init_flags == DC_FLAG_CONSUME)
)
void harness(void)
{
	VERIF_GHOST_RESET(); H_inits = H_notifies = 0; H_bad = 0;
	dispatch_group_notify_f(DG, &H_q, &H_ctxt, h_fn);
	VERIF_POST_VOID(dispatch_group_notify_f, DG, &H_q, &H_ctxt, h_fn);
	VERIF_CANARY();
}
#endif
