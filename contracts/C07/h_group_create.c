/*VERIF
{ "tu": "src/semaphore.c", "enforce": "_dispatch_group_create_and_enter", "props": ["C07", "C19"], "seq": true, "timeout": 120,
  "stub_note": "_dispatch_object_alloc returns the (zeroed) harness object" }
VERIF*/
#ifdef VERIF_PRE
#else
#include "contracts/C07/group_common.h"
unsigned H_allocs;
void *_dispatch_object_alloc(const void *vtable, size_t size) { if (vtable != (const void *)DISPATCH_VTABLE(group) || size != sizeof(struct dispatch_group_s)) H_allocs += 100; H_allocs++; return DG; }
VERIF_CONTRACT(dispatch_group_t, _dispatch_group_create_and_enter, (void),
  REQ(H_allocs == 0 && H_group.dg_state == 0 && H_group.do_ref_cnt == 0)
  ASG(__CPROVER_object_whole(&H_group), H_allocs, VERIF_GHOST)
  /* C07 / C19: the private group of a block object is born ENTERED ONCE (value field = one outstanding enter, generation 0, no waiters, no notifications) and holds the
   * reference an entered group holds on itself: the block's completion is the matching leave */
  ENS(the_group_is_born_entered_exactly_once, __CPROVER_return_value == DG && H_allocs == 1 && G_VALUE(H_group.dg_state) == (uint32_t)(0u - DISPATCH_GROUP_VALUE_INTERVAL) && G_GEN(H_group.dg_state) == 0
        && !G_WAITERS(H_group.dg_state) && !G_NOTIFS(H_group.dg_state) && H_group.do_ref_cnt == 1)
)
void harness(void)
{
	VERIF_GHOST_RESET(); H_allocs = 0; H_group.dg_state = 0; H_group.do_ref_cnt = 0;
	dispatch_group_t r = _dispatch_group_create_and_enter();
	VERIF_POST(_dispatch_group_create_and_enter, r);
	VERIF_CANARY();
}
#endif
