/*VERIF
{ "tu": "src/shims/lock.c", "enforce": "_dispatch_wait_on_address", "props": ["C07", "C19", "C12", "C09"], "seq": true, "timeout": 200, "unwind": 3,
  "assumes": ["kernel model of futex(FUTEX_WAIT): each call returns 0 (woken), or -1 with errno one of EINTR (signal), ETIMEDOUT (only when a timeout was given: the relative time elapsed), EAGAIN (word != val), EFAULT",
              "an untimed wait interrupted by signals is retried any number of times (loop contract on the retry loop of _futex_blocking_op)", "NOT checked: the seconds/nanoseconds split of remaining times of one second or more (64-bit division by 10^9 does not terminate on any installed back end); checked for sub-second times only"],
  "stub_note": "_dispatch_futex (the one-line wrapper of syscall(SYS_futex, ...): kernel model above), __errno_location, _dispatch_timeout (own contracts: C12 time harnesses): arbitrary remaining time" }
VERIF*/
#ifdef VERIF_PRE
extern unsigned long long H_waits; extern _Bool H_bad, H_last_timed; extern int H_last_rc, H_last_errno, H_errno; extern long H_ts_sec, H_ts_nsec;
#else
#include "contracts/common/dq_common.h"
uint32_t H_word; uint64_t H_nsecs; dispatch_time_t H_when; uint32_t H_val0;
unsigned long long H_waits; _Bool H_bad, H_last_timed; int H_last_rc, H_last_errno; int H_errno; long H_ts_sec, H_ts_nsec;
int *__errno_location(void) { return &H_errno; }
uint64_t _dispatch_timeout(dispatch_time_t when) { if (when != H_when) H_bad = 1; return H_nsecs; }
static inline int _dispatch_futex(uint32_t *uaddr, int op, uint32_t val, const struct timespec *ts, uint32_t *uaddr2, uint32_t val3, int opflags)
{	(void)uaddr2; (void)val3;
	if (uaddr != &H_word || (op | opflags) != (FUTEX_WAIT | FUTEX_PRIVATE_FLAG) || val != H_val0) H_bad = 1;
	__CPROVER_assume(H_waits < (1ull << 62)); H_waits++;
	H_last_timed = (ts != 0); if (ts) { H_ts_sec = ts->tv_sec; H_ts_nsec = ts->tv_nsec; }
	int k = ND(int);
	if (k == 0) { H_last_rc = 0; H_last_errno = 0; return 0; }
	H_last_rc = -1; H_last_errno = k == 1 ? EINTR : (k == 2 && ts) ? ETIMEDOUT : k == 3 ? EAGAIN : EFAULT; H_errno = H_last_errno; return -1; }
VERIF_LOOP_CONTRACT(_futex_blocking_op, 0,
	__CPROVER_assigns(H_waits, H_bad, H_last_timed, H_last_rc, H_last_errno, H_errno, H_ts_sec, H_ts_nsec)
	__CPROVER_loop_invariant(!H_bad))
#define FINITE (H_nsecs != DISPATCH_TIME_FOREVER)
VERIF_CONTRACT(int, _dispatch_wait_on_address, (uint32_t volatile *_address, uint32_t value, dispatch_time_t timeout, dispatch_lock_options_t flags),
  REQ(_address == &H_word && value == H_val0 && timeout == H_when && H_waits == 0 && !H_bad)
  ASG(H_waits, H_bad, H_last_timed, H_last_rc, H_last_errno, H_errno, H_ts_sec, H_ts_nsec)
  ENS(waits_on_the_given_word_for_the_given_value_privately, !H_bad)
  ENS(a_deadline_already_reached_does_not_block, VIMPL(H_nsecs == 0, __CPROVER_return_value == ETIMEDOUT && H_waits == 0))
  /* "returns non-zero only after the full timeout": ETIMEDOUT is reported only when the kernel said the time given to it elapsed (or none was left) -
   * never for a wait that a signal cut short */
  ENS(timeout_is_reported_only_when_the_kernel_wait_timed_out, VIMPL(H_nsecs != 0 && __CPROVER_return_value == ETIMEDOUT, H_last_rc == -1 && H_last_errno == ETIMEDOUT))
  ENS(success_is_reported_only_when_the_kernel_woke_the_waiter, VIMPL(H_nsecs != 0 && __CPROVER_return_value == 0, H_last_rc == 0))
  ENS(the_result_is_what_the_last_kernel_wait_said, VIMPL(H_nsecs != 0, H_waits >= 1 && __CPROVER_return_value == (H_last_rc == 0 ? 0 : H_last_errno)))
  /* a timed wait hands the kernel exactly the time that is left and is NEVER restarted here with that stale amount: an interruption goes back to the
   * caller, which recomputes what is left of the deadline */
  ENS(a_timed_wait_is_issued_exactly_once, VIMPL(H_nsecs != 0 && FINITE, H_waits == 1 && H_last_timed))
  ENS(sub_second_remaining_time_is_passed_on_unchanged, VIMPL(H_nsecs != 0 && H_nsecs < NSEC_PER_SEC, H_ts_sec == 0 && (uint64_t)H_ts_nsec == H_nsecs))
  ENS(an_untimed_wait_never_reports_a_timeout_or_an_interruption, VIMPL(!FINITE, !H_last_timed && __CPROVER_return_value != ETIMEDOUT && __CPROVER_return_value != EINTR))
)
void harness(void)
{
	h_setup_lane();
	H_nsecs = ND(uint64_t); H_when = ND(dispatch_time_t); H_val0 = ND(uint32_t); H_waits = 0; H_bad = 0; H_errno = ND(int); H_last_rc = 0; H_last_errno = 0; H_last_timed = 0;
	int r = _dispatch_wait_on_address(&H_word, H_val0, H_when, 0);
	VERIF_POST(_dispatch_wait_on_address, r, &H_word, H_val0, H_when, 0);
	VERIF_REACH(interrupted_timed_wait_goes_back_to_the_caller, r == EINTR && FINITE);
	VERIF_REACH(untimed_wait_retried, !FINITE && H_waits >= 3);
	VERIF_CANARY();
}
#endif
