/*VERIF
{ "tu": "src/semaphore.c", "enforce": "_dispatch_group_wait_slow", "props": ["C07","C05","C19"],
  "nondet_volatile": true, "timeout": 180,
  "stub_note": "_dispatch_wait_on_address (futex wait): returns an arbitrary rc, remembered in a ghost",
  "assumes": ["for(;;) closed by a loop contract; no termination claim"] }
VERIF*/
#ifdef VERIF_PRE
extern int H_last_rc; extern unsigned H_waits; extern unsigned int H_wait_value; extern _Bool H_wait_addr_ok;
#else
#include "contracts/C07/group_common.h"
int H_last_rc; unsigned H_waits; uint32_t H_wait_value; _Bool H_wait_addr_ok;
int _dispatch_wait_on_address(uint32_t volatile *address, uint32_t value, dispatch_time_t timeout, dispatch_lock_options_t flags)
{ (void)timeout; (void)flags; H_waits++; H_wait_value = value; H_wait_addr_ok = (address == &H_group.dg_gen); H_last_rc = ND(int); return H_last_rc; }
int H_errno; int *__errno_location(void) { return &H_errno; }
VERIF_LOOP_CONTRACT(_dispatch_group_wait_slow, 0,
	__CPROVER_assigns(VERIF_GHOST, H_last_rc, H_waits, H_wait_value, H_wait_addr_ok)
	__CPROVER_loop_invariant(1))
VERIF_CONTRACT(intptr_t, _dispatch_group_wait_slow, (dispatch_group_t dg, uint32_t gen, dispatch_time_t timeout),
  REQ(dg == DG && __verif_n == 0)
  ASG(VERIF_GHOST, H_last_rc, H_waits, H_wait_value, H_wait_addr_ok, H_errno)
  /* success only after an ACQUIRE load of the generation word that differs from the recorded generation */
  ENS(zero_only_after_generation_changed, VIMPL(__CPROVER_return_value == 0,
        __verif_last_load_p == (const volatile void *)&dg->dg_gen && (uint32_t)__verif_last_load != gen))
  /* failure only when the kernel reported the timeout and the generation was still the recorded one */
  ENS(nonzero_only_after_kernel_timeout_with_same_generation, VIMPL(__CPROVER_return_value != 0,
        H_last_rc == ETIMEDOUT && (uint32_t)__verif_last_load == gen && __verif_last_load_p == (const volatile void *)&dg->dg_gen))
  ENS(parks_on_the_generation_word_with_the_recorded_value, H_wait_addr_ok && H_wait_value == gen)
)
void harness(void)
{
	VERIF_GHOST_RESET(); H_waits = 0;
	uint32_t gen = ND(uint32_t); dispatch_time_t t = ND(dispatch_time_t);
	intptr_t r = _dispatch_group_wait_slow(DG, gen, t);
	VERIF_POST(_dispatch_group_wait_slow, r, DG, gen, t);
	VERIF_CANARY();
}
#endif
