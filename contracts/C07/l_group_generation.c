/*VERIF
{ "tu": "src/semaphore.c", "replace": ["dispatch_group_leave", "dispatch_group_enter"], "props": ["C07"], "timeout": 120,
  "assumes": ["lemma over the contracts of dispatch_group_enter/leave (both enforced on the real code)"] }
VERIF*/
#ifdef VERIF_PRE
#else
#include "contracts/C07/group_common.h"
#include "contracts/C07/leave.contract.h"
#include "contracts/C07/enter.contract.h"
/* abstract count of a state word: number of enters not yet left */
#define COUNT(s) ((uint32_t)(0u - G_VALUE(s)) >> 2)
void harness(void)
{
	VERIF_GHOST_RESET();
	if (ND_BOOL()) {
		dispatch_group_leave(DG);
		__CPROVER_assume(COUNT(LOGA(0)) >= 1);   /* balanced use: leave of an entered group */
		VERIF_ASSERT(leave_decrements_count_by_one, COUNT(LOGB(0)) == COUNT(LOGA(0)) - 1);
		VERIF_ASSERT(generation_changes_exactly_when_count_hits_zero, (G_GEN(LOGB(0)) != G_GEN(LOGA(0))) == (COUNT(LOGB(0)) == 0));
		/* a waiter that recorded gen(g) while count(g) != 0 is released exactly by the zeroing leave */
		VERIF_ASSERT(waiters_generation_outlives_nonzeroing_leaves, VIMPL(COUNT(LOGB(0)) != 0, G_GEN(LOGB(0)) == G_GEN(LOGA(0))));
		VERIF_ASSERT(wake_fired_iff_zero, (COUNT(LOGB(0)) == 0) == (__verif_n >= 2));
	} else {
		dispatch_group_enter(DG);
		__CPROVER_assume(COUNT(LOGA(0)) < 0x3fffffff);
		VERIF_ASSERT(enter_increments_count_by_one, COUNT((uint64_t)(uint32_t)LOGB(0)) == COUNT((uint64_t)(uint32_t)LOGA(0)) + 1);
		VERIF_ASSERT(enter_cannot_touch_the_generation, LOGB(0) <= 0xffffffffull); /* 32-bit commit: the upper word is not part of it */
	}
	VERIF_CANARY();
}
#endif
