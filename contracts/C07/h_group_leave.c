/*VERIF
{ "tu": "src/semaphore.c", "enforce": "dispatch_group_leave", "props": ["C07","C05","C17","C19"],
  "nondet_volatile": true, "timeout": 180,
  "stub_note": "_dispatch_group_wake: logged call (own contract in h_group_wake)" }
VERIF*/
#ifdef VERIF_PRE
#else
#include "contracts/C07/group_common.h"
static void _dispatch_group_wake(dispatch_group_t dg, uint64_t dg_state, bool needs_release)
{ __verif_event(EV_CALL, 0, dg, CALL_GROUP_WAKE, dg_state); VERIF_ASSERT(wake_from_leave_releases_the_group_reference, needs_release); }
VERIF_LOOP_CONTRACT(dispatch_group_leave, 0,
	__CPROVER_assigns(old_state, new_state, dg->dg_state, VERIF_GHOST)
	__CPROVER_loop_invariant(__verif_n == 1 && LOGK(0) == __CPROVER_loop_entry(LOGK(0)) && LOGA(0) == __CPROVER_loop_entry(LOGA(0)) && LOGB(0) == __CPROVER_loop_entry(LOGB(0)) && LOGM(0) == __CPROVER_loop_entry(LOGM(0)) && LOGP(0) == __CPROVER_loop_entry(LOGP(0))))
#include "contracts/C07/leave.contract.h"
void harness(void)
{
	VERIF_GHOST_RESET();
	dispatch_group_leave(DG);
	VERIF_POST_VOID(dispatch_group_leave, DG);
	VERIF_REACH(zeroing_leave_with_cleanup, __verif_n == 3);
	VERIF_REACH(zeroing_leave_without_cleanup, __verif_n == 2);
	VERIF_REACH(plain_leave, __verif_n == 1);
	VERIF_CANARY();
}
#endif
