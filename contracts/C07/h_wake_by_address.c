/*VERIF
{ "tu": "src/shims/lock.c", "enforce": "_dispatch_wake_by_address", "props": ["C07", "C09", "C16", "C19"], "seq": true, "timeout": 120,
  "assumes": ["kernel ABI of futex(FUTEX_WAKE): the number of waiters to wake is read as a SIGNED int; INT_MAX means all of them, a negative count wakes one"],
  "stub_note": "_dispatch_futex (the one-line wrapper of syscall(SYS_futex, ...)): records its arguments; result arbitrary (>= 0, or -1 with ENOENT)" }
VERIF*/
#ifdef VERIF_PRE
#else
#include "contracts/common/dq_common.h"
uint32_t H_word; unsigned H_calls; _Bool H_bad; uint32_t H_count_arg; int H_errno;
int *__errno_location(void) { return &H_errno; }
static inline int _dispatch_futex(uint32_t *uaddr, int op, uint32_t val, const struct timespec *ts, uint32_t *uaddr2, uint32_t val3, int opflags)
{	(void)uaddr2; (void)val3; (void)ts;
	if (uaddr != &H_word || (op | opflags) != (FUTEX_WAKE | FUTEX_PRIVATE_FLAG)) H_bad = 1; H_calls++; H_count_arg = val;
	if (ND_BOOL()) return ND(int) & 0xffff; H_errno = ENOENT; return -1; }
VERIF_CONTRACT_VOID(_dispatch_wake_by_address, (uint32_t volatile *address),
  REQ(address == &H_word && H_calls == 0 && !H_bad)
  ASG(H_calls, H_bad, H_count_arg, H_errno)
  /* everybody blocked on the word is released (dispatch_once / group / cancel waiters all return): one private FUTEX_WAKE whose count, AS THE
   * KERNEL READS IT (signed int), is INT_MAX */
  ENS(one_private_wake_of_all_waiters_on_that_word, H_calls == 1 && !H_bad && (int)H_count_arg == INT_MAX)
)
void harness(void)
{
	h_setup_lane(); H_calls = 0; H_bad = 0;
	_dispatch_wake_by_address(&H_word);
	VERIF_POST_VOID(_dispatch_wake_by_address, &H_word);
	VERIF_CANARY();
}
#endif
