/*VERIF
{ "tu": "src/semaphore.c", "enforce": "dispatch_group_wait", "props": ["C07","C05","C19"],
  "nondet_volatile": true, "timeout": 180,
  "stub_note": "_dispatch_group_wait_slow: logged call returning an arbitrary result (own contract in h_group_wait_slow)" }
VERIF*/
#ifdef VERIF_PRE
#else
#include "contracts/C07/group_common.h"
intptr_t H_slow_result;
static intptr_t _dispatch_group_wait_slow(dispatch_group_t dg, uint32_t gen, dispatch_time_t timeout)
{ __verif_event(EV_CALL, 0, dg, CALL_WAIT_SLOW, ((uint64_t)gen << 32) | (timeout != 0)); H_slow_result = ND(intptr_t); return H_slow_result; }
int H_errno; int *__errno_location(void) { return &H_errno; }
VERIF_CONTRACT(intptr_t, dispatch_group_wait, (dispatch_group_t dg, dispatch_time_t timeout),
  REQ(dg == DG && __verif_n == 0)
  ASG(dg->dg_state, VERIF_GHOST, H_slow_result, H_errno)
  ENS(log_bounded, __verif_n <= 2)
  /* zero without waiting only if a load saw the count at zero, followed by an acquire fence */
  ENS(immediate_success_only_on_zero_count, VIMPL(__verif_n == 1 && LOGK(0) == EV_FENCE,
        __CPROVER_return_value == 0 && __verif_last_load_p == G_STATE_P && G_VALUE(__verif_last_load) == 0 && VMO_IS_ACQ(LOGM(0))))
  /* non-zero without waiting only when polling */
  ENS(immediate_timeout_only_when_polling, VIMPL(__verif_n == 0, timeout == 0 && __CPROVER_return_value != 0 && G_VALUE(__verif_last_load) != 0))
  /* otherwise: WAITERS is set (by this call or already) in the state whose generation is waited on */
  ENS(waits_on_the_generation_of_the_state_that_has_waiters_set, VIMPL(__verif_n >= 1 && LOGK(LAST) == EV_CALL,
        LOGA(LAST) == CALL_WAIT_SLOW && timeout != 0 && __CPROVER_return_value == H_slow_result &&
        (__verif_n == 2 ? (IS_COMMIT(0, G_STATE_P) && LOGB(0) == (LOGA(0) | DISPATCH_GROUP_HAS_WAITERS) && G_VALUE(LOGA(0)) != 0 && G_GEN(LOGB(1)) == G_GEN(LOGB(0)))
                        : (G_WAITERS(__verif_last_load) && G_VALUE(__verif_last_load) != 0 && G_GEN(LOGB(0)) == G_GEN(__verif_last_load)))))
  ENS(exhaustive, (__verif_n == 0) || (__verif_n == 1 && (LOGK(0) == EV_FENCE || LOGK(0) == EV_CALL)) || (__verif_n == 2 && LOGK(1) == EV_CALL))
)
void harness(void)
{
	VERIF_GHOST_RESET();
	dispatch_time_t t = ND(dispatch_time_t);
	intptr_t r = dispatch_group_wait(DG, t);
	VERIF_POST(dispatch_group_wait, r, DG, t);
	VERIF_REACH(sets_waiters, __verif_n == 2);
	VERIF_REACH(finds_waiters, __verif_n == 1 && LOGK(0) == EV_CALL);
	VERIF_CANARY();
}
#endif
