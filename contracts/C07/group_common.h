/* C07 scaffolding */
#define DQ_STUB_REFS 1
#include "contracts/common/dq_common.h"
struct dispatch_group_s H_group;
#define DG (&H_group)
#define G_STATE_P ((const volatile void *)&H_group.dg_state)
#define G_VALUE(s) ((uint32_t)((s) & DISPATCH_GROUP_VALUE_MASK))
#define G_GEN(s) ((uint32_t)((s) >> 32))
#define G_NOTIFS(s) (((s) & DISPATCH_GROUP_HAS_NOTIFS) != 0)
#define G_WAITERS(s) (((s) & DISPATCH_GROUP_HAS_WAITERS) != 0)
#define CALL_GROUP_WAKE 7
#define CALL_WAIT_SLOW 8
