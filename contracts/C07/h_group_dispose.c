/*VERIF
{ "tu": "src/semaphore.c", "enforce": "_dispatch_group_dispose", "props": ["C07", "C17"], "seq": true, "timeout": 120,
  "stub_note": "none; DISPATCH_CLIENT_CRASH is a trap (paths into it end there)" }
VERIF*/
#ifdef VERIF_PRE
#else
#include "contracts/C07/group_common.h"
uint64_t H_s0;
VERIF_CONTRACT_VOID(_dispatch_group_dispose, (dispatch_object_t dou, bool *allow_free),
  REQ(dou._dg == DG && H_group.dg_state == H_s0)
  ASG(VERIF_GHOST)
  /* C07 / C17: a group is only ever torn down EMPTY and quiet - no outstanding enter, no registered waiter or notification (the low word of the state) -; tearing it
   * down in use is the documented crash: a pending leave / notification would touch freed memory or never be delivered */
  ENS(torn_down_only_with_no_enter_waiter_or_notification_outstanding, G_VALUE(H_s0) == 0 && !G_WAITERS(H_s0) && !G_NOTIFS(H_s0))
)
void harness(void)
{
	VERIF_GHOST_RESET(); H_s0 = ND(uint64_t); H_group.dg_state = H_s0;
	dispatch_object_t dou; dou._dg = DG; bool af = 1;
	_dispatch_group_dispose(dou, &af);
	VERIF_POST_VOID(_dispatch_group_dispose, dou, &af);
	VERIF_CANARY();
}
#endif
