/*VERIF
{ "tu": "src/semaphore.c", "enforce": "dispatch_group_create", "props": ["C07"], "seq": true, "timeout": 120,
  "stub_note": "_dispatch_object_alloc returns the (zeroed) harness object" }
VERIF*/
#ifdef VERIF_PRE
#else
#include "contracts/C07/group_common.h"
unsigned H_allocs;
void *_dispatch_object_alloc(const void *vtable, size_t size) { if (vtable != (const void *)DISPATCH_VTABLE(group) || size != sizeof(struct dispatch_group_s)) H_allocs += 100; H_allocs++; return DG; }
VERIF_CONTRACT(dispatch_group_t, dispatch_group_create, (void),
  REQ(H_allocs == 0 && H_group.dg_state == 0 && H_group.do_ref_cnt == 0)
  ASG(__CPROVER_object_whole(&H_group), H_allocs, VERIF_GHOST)
  /* C07: a new group is EMPTY: no outstanding enter, generation 0, no waiters, no notifications (a wait returns at once, a notification fires at once), and it does
   * not hold the extra reference an entered group holds on itself */
  ENS(a_new_group_is_empty_and_quiet, __CPROVER_return_value == DG && H_allocs == 1 && H_group.dg_state == 0 && H_group.do_ref_cnt == 0)
)
void harness(void)
{
	VERIF_GHOST_RESET(); H_allocs = 0; H_group.dg_state = 0; H_group.do_ref_cnt = 0;
	dispatch_group_t r = dispatch_group_create();
	VERIF_POST(dispatch_group_create, r);
	VERIF_CANARY();
}
#endif
