/*VERIF
{ "tu": "src/semaphore.c", "enforce": "dispatch_group_async_f", "props": ["C07", "C19", "C01"], "seq": true, "timeout": 200,
  "assumes": ["function-pointer form of dispatch_group_async"],
  "stub_note": "_dispatch_continuation_alloc, _dispatch_continuation_init (block copy / private-data handling: own contract h_continuation_init_slow), dispatch_group_enter (h_group_enter), _dispatch_continuation_async (C01 push contracts), dispatch_block_testcancel, _dispatch_block_get_data: recorded" }
VERIF*/
#ifdef VERIF_PRE
#else
#include "contracts/C07/group_common.h"
struct dispatch_continuation_s H_dc; struct dispatch_queue_s H_q; struct Block_layout H_blk; dispatch_qos_t H_qos; _Bool H_cancelled, H_has_priv;
unsigned H_enters, H_asyncs, H_inits; _Bool H_bad;
struct dispatch_block_private_data_s H_dbpd;
static inline dispatch_continuation_t _dispatch_continuation_alloc(void) { return &H_dc; }
static void h_work(void *c) { (void)c; }
static inline dispatch_qos_t _dispatch_continuation_init_f(dispatch_continuation_t dc, dispatch_queue_class_t dqu, void *ctxt, dispatch_function_t f, dispatch_block_flags_t flags, uintptr_t dc_flags)
{ if (dc != &H_dc || dqu._dq != &H_q || ctxt != (void *)&H_blk || f != h_work || flags != 0 || dc_flags != (DC_FLAG_CONSUME | DC_FLAG_GROUP_ASYNC) || H_enters) H_bad = 1; H_inits++; dc->dc_flags = dc_flags | DC_FLAG_ALLOCATED; return H_qos; }
void dispatch_group_enter(dispatch_group_t dg) { if (dg != DG || H_asyncs) H_bad = 1; H_enters++; }
static inline void _dispatch_continuation_async(dispatch_queue_class_t dqu, dispatch_continuation_t dc, dispatch_qos_t qos, uintptr_t dc_flags)
{ if (dqu._dq != &H_q || dc != &H_dc || qos != H_qos || dc_flags != H_dc.dc_flags || H_dc.dc_data != (void *)DG || H_enters != 1) H_bad = 1; H_asyncs++; }
/* what a version that peeks at the block object could call */
static inline dispatch_block_private_data_t _dispatch_block_get_data(const dispatch_block_t db) { (void)db; return H_has_priv ? &H_dbpd : (dispatch_block_private_data_t)0; }
long dispatch_block_testcancel(dispatch_block_t db) { (void)db; return H_cancelled; }
VERIF_CONTRACT_VOID(dispatch_group_async_f, (dispatch_group_t dg, dispatch_queue_t dq, void *ctxt, dispatch_function_t func),
  REQ(dg == DG && dq == &H_q && ctxt == (void *)&H_blk && func == h_work && H_enters == 0 && H_asyncs == 0 && H_inits == 0 && !H_bad)
  ASG(__CPROVER_object_whole(&H_dc), H_enters, H_asyncs, H_inits, H_bad)
  /* C07 / C19: EVERY accepted block - also a block object that was cancelled before it was submitted - enters the group once and is submitted
   * once: its (skipped) execution is what leaves the group and completes the block object for its waiters and notifiers */
  ENS(every_block_enters_the_group_exactly_once_and_is_submitted_exactly_once, H_enters == 1 && H_asyncs == 1 && H_inits == 1 && !H_bad)
  ENS(the_item_remembers_its_group, H_dc.dc_data == (void *)DG)
)
void harness(void)
{
	VERIF_GHOST_RESET();
	H_enters = H_asyncs = H_inits = 0; H_bad = 0; H_qos = ND(dispatch_qos_t); H_cancelled = ND_BOOL(); H_has_priv = ND_BOOL();
	H_dbpd.dbpd_magic = DISPATCH_BLOCK_PRIVATE_DATA_MAGIC; H_dbpd.dbpd_flags = ND(dispatch_block_flags_t); H_dbpd.dbpd_atomic_flags = H_cancelled ? DBF_CANCELED : 0;
	dispatch_group_async_f(DG, &H_q, (void *)&H_blk, h_work);
	VERIF_POST_VOID(dispatch_group_async_f, DG, &H_q, (void *)&H_blk, h_work);
	VERIF_CANARY();
}
#endif
