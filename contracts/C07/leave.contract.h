/* contract enforced in h_group_leave.c */
VERIF_CONTRACT_VOID(dispatch_group_leave, (dispatch_group_t dg),
  REQ(dg == DG && __verif_n == 0)
  ASG(dg->dg_state, VERIF_GHOST)
  ENS(log_bounded, __verif_n >= 1 && __verif_n <= 3)
  /* one 64-bit add of one interval with release: the carry of count 1 -> 0 bumps the generation atomically */
  ENS(leave_is_one_release_add, IS_COMMIT(0, G_STATE_P) && LOGB(0) == LOGA(0) + DISPATCH_GROUP_VALUE_INTERVAL && VMO_IS_REL(LOGM(0)))
  ENS(generation_bumps_exactly_when_count_reaches_zero, G_GEN(LOGB(0)) == G_GEN(LOGA(0)) + (G_VALUE(LOGA(0)) == DISPATCH_GROUP_VALUE_1 ? 1 : 0))
  /* the leave that zeroes the count -- and only that one -- fires the wake, exactly once, as the last step */
  ENS(wake_iff_count_reached_zero, G_VALUE(LOGA(0)) == DISPATCH_GROUP_VALUE_1
        ? (LOGK(LAST) == EV_CALL && LOGA(LAST) == CALL_GROUP_WAKE && LAST >= 1 && VIMPL(__verif_n == 3, IS_COMMIT(1, G_STATE_P)))
        : __verif_n == 1)
  /* the bits handed to wake are exactly those this thread cleared (or found already clear) */
  ENS(cleanup_commit_clears_notifs_and_waiters_only_when_still_zero, VIMPL(__verif_n == 3,
        LOGB(1) == (LOGA(1) & ~(uint64_t)(DISPATCH_GROUP_HAS_NOTIFS | (G_VALUE(LOGA(1)) == 0 ? DISPATCH_GROUP_HAS_WAITERS : 0)))
        && LOGB(1) != LOGA(1) && LOGB(LAST) == LOGA(1)))
  ENS(no_cleanup_commit_means_nothing_to_clear, VIMPL(__verif_n == 2,
        !G_NOTIFS(LOGB(LAST)) && (G_VALUE(LOGB(LAST)) != 0 || !G_WAITERS(LOGB(LAST)))))
  /* never a waiter or notification left behind: bits that were set when the count hit zero reach wake */
  ENS(waiters_and_notifs_present_at_zero_reach_wake, VIMPL(__verif_n == 3 && G_VALUE(LOGA(1)) == 0,
        (LOGB(LAST) & 3) == (LOGA(1) & 3) && (LOGB(1) & 3) == 0))
)
