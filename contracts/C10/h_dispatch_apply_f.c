/*VERIF
{ "tu": "src/apply.c", "enforce": "dispatch_apply_f", "props": ["C10", "C04", "C18", "C06", "C03"], "seq": true, "timeout": 300,
  "assumes": ["_dispatch_qos_max_parallelism returns a count >= 1 (number of active CPUs; kernel)",
              "DISPATCH_APPLY_AUTO is resolved by a stub (root-queue lookup: C18 contract of the global queue table)"],
  "stub_note": "dispatch_sync_f (own contracts: C02/C05 sync path), _dispatch_apply_f (helper submission), _dispatch_thread_context_find, _dispatch_queue_get_current, _dispatch_continuation_alloc, _dispatch_qos_max_parallelism: logging / ghost stubs" }
VERIF*/
#ifdef VERIF_PRE
#else
#define DQ_STUB_TARGET 1
#include "contracts/common/dq_common.h"
enum { K_SYNC = 130, K_APPLY_F, K_DIRECT };
struct dispatch_apply_s H_da; struct dispatch_thread_context_s H_dtc; _Bool H_nested_ctx; size_t H_nest0; _Bool H_on_dq; uint32_t H_par;
dispatch_function_t H_sync_func; dispatch_function_t H_applyf_func; struct dispatch_queue_s H_outer;
void dispatch_sync_f(dispatch_queue_t dq, void *ctxt, dispatch_function_t func) { H_sync_func = func; __verif_event(K_SYNC, 0, dq, (unsigned long long)(uintptr_t)ctxt, 0); }
static void _dispatch_apply_f(dispatch_queue_global_t dq, dispatch_apply_t da, dispatch_function_t func) { H_applyf_func = func; __verif_event(K_APPLY_F, 0, dq, (unsigned long long)(uintptr_t)da, (unsigned long long)(uintptr_t)_dispatch_thread_getspecific(dispatch_queue_key)); }
static inline dispatch_thread_context_t _dispatch_thread_context_find(const void *key) { (void)key; return H_nested_ctx ? &H_dtc : (dispatch_thread_context_t)0; }
static inline dispatch_queue_t _dispatch_queue_get_current(void) { return H_on_dq ? (dispatch_queue_t)H_DQ : &H_outer; }
static inline dispatch_continuation_t _dispatch_continuation_alloc(void) { return (dispatch_continuation_t)&H_da; }
uint32_t _dispatch_qos_max_parallelism(dispatch_qos_t qos, unsigned long flags) { (void)qos; (void)flags; return H_par; }
/* the three ways of running the iterations are only ever handed on as function pointers (own contracts: h_apply_serial, h_apply_redirect,
 * h_apply_invoke2); a direct call from dispatch_apply_f would run the iterations without the frame dispatch_sync_f / the helper push sets up */
void _dispatch_apply_serial(void *ctxt) { __verif_event(K_DIRECT, 0, ctxt, 1, 0); }
static void _dispatch_apply_redirect(void *ctxt) { __verif_event(K_DIRECT, 0, ctxt, 2, 0); }
void _dispatch_apply_invoke(void *ctxt) { __verif_event(K_DIRECT, 0, ctxt, 3, 0); }
static void h_work(void *c, size_t i) { (void)c; (void)i; }
size_t H_iter; _Bool H_is_root;
#define NESTED0 (H_nested_ctx ? H_nest0 : 0)
#define THR0 ((int32_t)H_par)
#define THR1 (NESTED0 ? (NESTED0 < (size_t)THR0 ? THR0 / (int32_t)NESTED0 : 1) : THR0)
#define THR (H_iter < (size_t)THR1 ? (int32_t)H_iter : THR1)
#define SERIAL (H_lane.dq_width == 1 || THR <= 1 || (!H_is_root && H_on_dq))
VERIF_CONTRACT_VOID(dispatch_apply_f, (size_t iterations, dispatch_queue_t _dq, void *ctxt, void (*func)(void *, size_t)),
  REQ(iterations == H_iter && _dq == (dispatch_queue_t)H_DQ && func == h_work && __verif_n == 0 && VALID_WIDTH(H_lane.dq_width) && H_par >= 1 && H_par <= 1024 && H_nest0 >= 1 && H_dtc.dtc_apply_nesting == H_nest0)
  REQ(H_lane.do_targetq == (H_is_root ? (dispatch_queue_t)0 : (dispatch_queue_t)&H_target))
  ASG(VERIF_GHOST, __CPROVER_object_whole(&H_da), H_sync_func, H_applyf_func, __dispatch_tsd)
  ENS(zero_iterations_do_nothing, VIMPL(H_iter == 0, __verif_n == 0))
  ENS(exactly_one_way_of_running_the_iterations, VIMPL(H_iter != 0, __verif_n == 1 && LOGP(0) == (void *)H_DQ && LOGA(0) == (unsigned long long)(uintptr_t)&H_da))
  /* the shared descriptor: all iterations still to do, none claimed, at most as many workers as iterations (and >= 1) */
  ENS(descriptor_covers_exactly_the_requested_iterations, VIMPL(H_iter != 0, H_da.da_iterations == H_iter && H_da.da_todo == H_iter && H_da.da_index == 0 && H_da.da_thr_cnt == THR && H_da.da_thr_cnt >= 1 && (size_t)H_da.da_thr_cnt <= H_iter))
  /* serial queue, one worker, or re-entrant call on the queue we are running on: run inline through dispatch_sync (no helper could ever get width) */
  ENS(serial_or_reentrant_apply_runs_the_iterations_inline, VIMPL(H_iter != 0 && SERIAL, LOGK(0) == K_SYNC && H_sync_func == _dispatch_apply_serial))
  /* C18: the iterations see the queue they were submitted to as current because they are entered through dispatch_sync_f (or the helper push), never called directly */
  ENS(iterations_are_never_run_by_a_direct_call_that_skips_the_queue_frame, VIMPL(H_iter != 0, LOGK(0) != K_DIRECT))
  ENS(apply_on_a_custom_concurrent_queue_goes_through_the_width_reservation, VIMPL(H_iter != 0 && !SERIAL && !H_is_root, LOGK(0) == K_SYNC && H_sync_func == _dispatch_apply_redirect))
  ENS(apply_on_a_root_queue_pushes_helpers_with_the_queue_as_current, VIMPL(H_iter != 0 && !SERIAL && H_is_root, LOGK(0) == K_APPLY_F && H_applyf_func == _dispatch_apply_invoke && LOGB(0) == (unsigned long long)(uintptr_t)H_DQ))
)
void harness(void)
{
	h_setup_lane(); h_setup_target();
	H_iter = ND(size_t); H_is_root = ND_BOOL(); H_nested_ctx = ND_BOOL(); H_nest0 = ND(size_t); __CPROVER_assume(H_nest0 >= 1); H_dtc.dtc_apply_nesting = H_nest0;
	H_on_dq = ND_BOOL(); H_par = ND(uint32_t); __CPROVER_assume(H_par >= 1 && H_par <= 1024);
	H_lane.do_targetq = H_is_root ? (dispatch_queue_t)0 : (dispatch_queue_t)&H_target; H_lane.dq_priority = ND(dispatch_priority_t);
	__dispatch_tsd.dispatch_queue_key = (void *)&H_outer; __dispatch_tsd.dispatch_frame_key = 0;
	dispatch_apply_f(H_iter, (dispatch_queue_t)H_DQ, (void *)0, h_work);
	VERIF_POST_VOID(dispatch_apply_f, H_iter, (dispatch_queue_t)H_DQ, (void *)0, h_work);
	VERIF_REACH(root_parallel, H_iter != 0 && __verif_n == 1 && LOGK(0) == K_APPLY_F);
	VERIF_REACH(nested_divides_workers, H_iter != 0 && H_nested_ctx && H_da.da_thr_cnt >= 2);
	VERIF_CANARY();
}
#endif
