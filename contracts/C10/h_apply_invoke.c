/*VERIF
{ "tu": "src/apply.c", "enforce": "_dispatch_apply_invoke", "props": ["C10", "C18"], "seq": true, "timeout": 120,
  "stub_note": "_dispatch_apply_invoke2 (own contract: h_apply_invoke2, both with and without the redirect flag): records its arguments" }
VERIF*/
#ifdef VERIF_PRE
#else
struct dispatch_apply_s H_da; unsigned H_calls; long H_seen_flags; void *H_seen_da;
static inline void _dispatch_apply_invoke2(dispatch_apply_t da, long invoke_flags) { H_calls++; H_seen_da = da; H_seen_flags = invoke_flags; }
VERIF_CONTRACT_VOID(_dispatch_apply_invoke, (void *ctxt),
  REQ(ctxt == (void *)&H_da && H_calls == 0)
  ASG(H_calls, H_seen_flags, H_seen_da)
  /* C10 / C18: a helper of an apply on a root queue claims iterations exactly once in plain mode: no queue identity to assume, no waiting */
  ENS(claims_iterations_once_in_plain_mode, H_calls == 1 && H_seen_da == (void *)&H_da && H_seen_flags == 0)
)
void harness(void)
{
	VERIF_GHOST_RESET(); H_calls = 0;
	_dispatch_apply_invoke(&H_da);
	VERIF_POST_VOID(_dispatch_apply_invoke, &H_da);
	VERIF_CANARY();
}
#endif
