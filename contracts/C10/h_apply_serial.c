/*VERIF
{ "tu": "src/apply.c", "enforce": "_dispatch_apply_serial", "props": ["C10"], "seq": true, "timeout": 120,
  "assumes": ["autorelease-pool hooks are installed whenever DISPATCH_INVOKE_AUTORELEASE_ALWAYS is set: dispatch_invoke_with_autoreleasepool tells the compiler that the pool is non-NULL (DISPATCH_COMPILER_CAN_ASSUME(pool)); without hooks _dispatch_autorelease_pool_push() returns NULL and that hint is false (undefined behaviour of the real code on this platform, outside the listed properties; reported in DESIGN.md 10.6, not repaired)"],
  "stub_note": "_dispatch_client_callout2 (the client work function): counts calls and checks the index; _dispatch_apply_autorelease_frequency, _dispatch_continuation_free: stubs" }
VERIF*/
#ifdef VERIF_PRE
extern size_t H_calls; extern _Bool H_in_order;
#else
struct dispatch_apply_s H_da; struct dispatch_continuation_s H_dc;
size_t H_calls; _Bool H_in_order; unsigned H_frees; void *H_ctxt_seen_ok;
static void h_work(void *c, size_t i) { (void)c; (void)i; }
void _dispatch_client_callout2(void *ctxt, size_t i, void (*f)(void *, size_t))
{ if (i != H_calls || f != h_work || ctxt != H_dc.dc_ctxt) H_in_order = 0; H_calls++; }
/* models the autorelease hooks being installed (non-NULL pool): see "assumes" */
void *_dispatch_autorelease_pool_push(void) { static char pool_token; return &pool_token; }
void _dispatch_autorelease_pool_pop(void *context) { (void)context; }
static inline dispatch_invoke_flags_t _dispatch_apply_autorelease_frequency(dispatch_queue_t dq) { (void)dq; return 0; }
static inline void _dispatch_continuation_free(dispatch_continuation_t dc) { if ((void *)dc == (void *)&H_da) H_frees++; }
VERIF_LOOP_CONTRACT(_dispatch_apply_serial, 0,
	__CPROVER_assigns(idx, H_calls, H_in_order)
	__CPROVER_loop_invariant(idx < iter && H_calls == idx && H_in_order))
VERIF_CONTRACT_VOID(_dispatch_apply_serial, (void *ctxt),
  REQ(ctxt == &H_da && H_da.da_dc == &H_dc && H_da.da_iterations >= 1 && H_calls == 0 && H_in_order && H_frees == 0 && H_dc.dc_func == (void *)h_work)
  ASG(H_calls, H_in_order, H_frees)
  /* work(ctxt, 0), work(ctxt, 1), ..., work(ctxt, n-1): every index exactly once, in index order, nothing else */
  ENS(every_index_exactly_once_in_order, H_calls == H_da.da_iterations && H_in_order)
  ENS(apply_record_freed_once_after_the_last_invocation, H_frees == 1)
)
void harness(void)
{
	VERIF_GHOST_RESET();
	H_da.da_dc = &H_dc; H_da.da_iterations = ND(size_t); H_dc.dc_func = (void *)h_work; H_dc.dc_ctxt = (void *)ND(uintptr_t);
	H_calls = 0; H_in_order = 1; H_frees = 0;
	_dispatch_apply_serial(&H_da);
	VERIF_POST_VOID(_dispatch_apply_serial, &H_da);
	VERIF_REACH(many, H_calls > 1000);
	VERIF_CANARY();
}
#endif
