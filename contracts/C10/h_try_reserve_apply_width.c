/*VERIF
{ "tu": "src/apply.c", "enforce": "_dispatch_queue_try_reserve_apply_width", "props": ["C10","C04","C03"], "nondet_volatile": true, "timeout": 120 }
VERIF*/
#ifdef VERIF_PRE
#else
#include "contracts/common/dq_common.h"
#define AVAIL(s) (S_FULL(s) ? 0 : (int32_t)(DISPATCH_QUEUE_WIDTH_FULL - S_WIDTH13(s)))
VERIF_CONTRACT(int32_t, _dispatch_queue_try_reserve_apply_width, (dispatch_queue_t dq, int32_t da_width),
  REQ(dq == (dispatch_queue_t)H_DQ && __verif_n == 0 && da_width >= 1 && da_width <= 4096 && VALID_WIDTH(dq->dq_width))
  ASG(dq->dq_state, VERIF_GHOST)
  /* C03: a serial queue anywhere in the hierarchy grants no parallel width, which is what forces dispatch_apply onto its in-order serial fallback */
  ENS(serial_queue_grants_nothing, VIMPL(dq->dq_width == 1, __CPROVER_return_value == 0 && __verif_n == 0))
  ENS(commit_iff_granted, (__CPROVER_return_value > 0) == (__verif_n == 1) && __verif_n <= 1 && __CPROVER_return_value >= 0)
  /* never more than requested, never more than what is free; exactly that much reader width is taken */
  ENS(grant_is_bounded_by_request_and_by_free_width, VIMPL(__CPROVER_return_value > 0, __CPROVER_return_value <= da_width && __CPROVER_return_value <= AVAIL(LOGA(0))))
  ENS(takes_exactly_the_granted_width, VIMPL(__CPROVER_return_value > 0, IS_COMMIT(0, &dq->dq_state) && LOGB(0) == LOGA(0) + (uint64_t)__CPROVER_return_value * DISPATCH_QUEUE_WIDTH_INTERVAL))
  ENS(grant_is_maximal, VIMPL(__CPROVER_return_value > 0, __CPROVER_return_value == (da_width < AVAIL(LOGA(0)) ? da_width : AVAIL(LOGA(0)))))
)
void harness(void)
{
	h_setup_lane();
	int32_t w = ND(int32_t);
	int32_t r = _dispatch_queue_try_reserve_apply_width((dispatch_queue_t)H_DQ, w);
	VERIF_POST(_dispatch_queue_try_reserve_apply_width, r, (dispatch_queue_t)H_DQ, w);
	VERIF_REACH(partial, r > 0 && r < w);
	VERIF_CANARY();
}
#endif
