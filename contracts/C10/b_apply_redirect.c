/*VERIF
{ "tu": "src/apply.c", "enforce": "_dispatch_apply_redirect", "props": ["C10","C04","C03","C18"], "plain": true, "seq": true, "timeout": 240,
  "bounded": {"unwind": 5, "what": "target-queue chains of <= 3 custom queues below the root (pointer-chasing loop, no loop contract)"},
  "stub_note": "_dispatch_queue_try_reserve_apply_width (own contract), _dispatch_queue_relinquish_width, _dispatch_apply_serial, _dispatch_apply_f: stubs that keep a per-level ghost account of reserved width" }
VERIF*/
#ifdef VERIF_PRE
#else
#include "contracts/common/dq_common.h"
struct dispatch_lane_s H_q[4]; unsigned H_n;      /* H_q[H_n] is the root */
struct dispatch_apply_s H_da; struct dispatch_continuation_s H_dc;
int32_t H_held[4];            /* ghost: reader width currently reserved by this apply on each level */
int32_t H_requested; unsigned H_serial, H_parallel; int32_t H_parallel_thr; _Bool H_bad; dispatch_function_t H_helper_func;
static unsigned h_level(dispatch_queue_t dq) { for (unsigned i = 0; i < 4; i++) if (dq == (dispatch_queue_t)&H_q[i]) return i; H_bad = 1; return 0; }
static inline int32_t _dispatch_queue_try_reserve_apply_width(dispatch_queue_t dq, int32_t da_width)
{ int32_t w = ND(int32_t); __CPROVER_assume(w >= 0 && w <= da_width); if (H_parallel || H_serial) H_bad = 1; H_held[h_level(dq)] += w; return w; }
static inline void _dispatch_queue_relinquish_width(dispatch_queue_t top_dq, dispatch_queue_t stop_dq, int32_t da_width)
{ unsigned a = h_level(top_dq), b = h_level(stop_dq); if (a != 0) H_bad = 1; for (unsigned i = 0; i < 4; i++) if (i >= a && i < b) H_held[i] -= da_width; }
static void _dispatch_apply_serial(void *ctxt) { (void)ctxt; H_serial++; }
static inline void _dispatch_apply_f(dispatch_queue_global_t dq, dispatch_apply_t da, dispatch_function_t func)
{ H_helper_func = func; if ((void *)dq != (void *)&H_q[H_n]) H_bad = 1; H_parallel++; H_parallel_thr = da->da_thr_cnt;
  /* while the helpers run, every level holds exactly the helper count */
  for (unsigned i = 0; i < 4; i++) if (i < H_n && H_held[i] != da->da_thr_cnt - 1) H_bad = 1; }
VERIF_CONTRACT_VOID(_dispatch_apply_redirect, (void *ctxt),
  REQ(H_requested >= 1 && H_requested <= 64 && ctxt == &H_da && H_da.da_dc == &H_dc && H_dc.dc_data == &H_q[0] && H_da.da_thr_cnt == H_requested + 1 && H_n >= 1 && H_n <= 3)
  ASG(VERIF_GHOST)
  ENS(stub_protocol_respected, !H_bad)
  ENS(runs_exactly_once_serially_or_in_parallel, H_serial + H_parallel == 1)
  /* reader width reserved on each level is given back on each level: nothing stays reserved after the apply */
  ENS(all_reserved_width_is_given_back_on_every_level, H_held[0] == 0 && H_held[1] == 0 && H_held[2] == 0 && H_held[3] == 0)
  /* C18 / C03: helper threads of a redirected apply ALWAYS run the iterations through _dispatch_apply_redirect_invoke, which installs the queue the apply was submitted
   * to as the current queue (whatever that queue's priority): dispatch_get_specific / dispatch_assert_queue inside an iteration see the same hierarchy on every thread */
  ENS(helpers_always_assume_the_identity_of_the_submitted_to_queue, VIMPL(H_parallel == 1, H_helper_func == _dispatch_apply_redirect_invoke))
  ENS(helper_count_shrinks_to_what_every_level_granted, VIMPL(H_parallel == 1, H_parallel_thr >= 2 && H_parallel_thr <= H_requested + 1 && H_da.da_thr_cnt == H_parallel_thr))
)
void harness(void)
{
	VERIF_GHOST_RESET();
	H_n = ND(unsigned); __CPROVER_assume(H_n >= 1 && H_n <= 3);
	for (unsigned i = 0; i < 4; i++) { H_q[i].do_targetq = (i < H_n) ? (dispatch_queue_t)&H_q[i + 1] : 0; H_held[i] = 0; *(uint16_t *)&H_q[i].dq_width = 8; H_q[i].dq_priority = ND(dispatch_priority_t); }
	H_requested = ND(int32_t); __CPROVER_assume(H_requested >= 1 && H_requested <= 64); H_da.da_dc = &H_dc; H_dc.dc_data = &H_q[0]; H_da.da_thr_cnt = H_requested + 1; H_da.da_flags = ND(dispatch_invoke_flags_t);
	H_serial = 0; H_parallel = 0; H_bad = 0;
	VERIF_PRE_CALL(_dispatch_apply_redirect, &H_da);
	_dispatch_apply_redirect(&H_da);
	VERIF_POST_VOID(_dispatch_apply_redirect, &H_da);
	VERIF_REACH(shrunk, H_parallel == 1 && H_parallel_thr < H_requested + 1);
	VERIF_REACH(serial, H_serial == 1);
	VERIF_CANARY();
}
#endif
