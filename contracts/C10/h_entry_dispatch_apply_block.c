/*VERIF
{ "tu": "src/apply.c", "enforce": "dispatch_apply", "props": ["C10"], "seq": true, "timeout": 120,
  "stub_note": "dispatch_apply_f (own contract: h_dispatch_apply_f): records its arguments" }
VERIF*/
#ifdef VERIF_PRE
#else
struct dispatch_queue_s H_q; struct Block_layout H_blk; unsigned H_calls; size_t H_n, H_seen_n; dispatch_queue_t H_seen_q; void *H_seen_ctxt; void (*H_seen_func)(void *, size_t);
static void h_invoke(void *b, size_t i) { (void)b; (void)i; }
void dispatch_apply_f(size_t iterations, dispatch_queue_t dq, void *ctxt, void (*func)(void *, size_t)) { H_calls++; H_seen_n = iterations; H_seen_q = dq; H_seen_ctxt = ctxt; H_seen_func = func; }
VERIF_CONTRACT_VOID(dispatch_apply, (size_t iterations, dispatch_queue_t dq, void (^work)(size_t)),
  REQ(iterations == H_n && dq == &H_q && (void *)work == (void *)&H_blk && H_calls == 0)
  ASG(H_calls, H_seen_n, H_seen_q, H_seen_ctxt, H_seen_func)
  /* C10: the block form is the function form with the SAME iteration count and queue, the block as context and the block's own invoke function: exactly one call */
  ENS(one_call_of_the_function_form_with_the_same_count_and_queue, H_calls == 1 && H_seen_n == H_n && H_seen_q == &H_q && H_seen_ctxt == (void *)&H_blk)
)
void harness(void)
{
	VERIF_GHOST_RESET(); H_calls = 0; H_n = ND(size_t); H_blk.invoke = (void (*)(void *, ...))h_invoke;
	dispatch_apply(H_n, &H_q, (void *)&H_blk);
	VERIF_POST_VOID(dispatch_apply, H_n, &H_q, (void *)&H_blk);
	VERIF_ASSERT(every_iteration_runs_the_blocks_invoke_function, H_seen_func == (void (*)(void *, size_t))h_invoke);
	VERIF_CANARY();
}
#endif
