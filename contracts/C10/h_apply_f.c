/*VERIF
{ "tu": "src/apply.c", "enforce": "_dispatch_apply_f", "props": ["C10"], "seq": true, "timeout": 300,
  "deciding": ["postcondition", "assertion", "precondition", "loop"],
  "assumes": ["the helper continuations are modelled by ONE summary node handed out by the allocator stub (the list is never traversed here); their number is counted: the loop is closed by a loop contract, so da_thr_cnt is unbounded",
              "_dispatch_root_queue_push_inline / _dispatch_apply_invoke_and_wait: logged (own contracts: root-queue push is outside every contract, apply_invoke2 is h_apply_invoke2)"],
  "stub_note": "_dispatch_continuation_alloc, _dispatch_continuation_init_f, _dispatch_root_queue_push_inline, _dispatch_apply_invoke_and_wait, _dispatch_get_priority: stubs" }
VERIF*/
#ifdef VERIF_PRE
#include <stdint.h>
extern int32_t H_helpers_alloc, H_helpers_init; extern _Bool H_bad_helper; extern struct dispatch_continuation_s H_node;
#else
#include "contracts/common/dq_common.h"
enum { K_ROOT_PUSH = 210, K_INVOKE_WAIT };
struct dispatch_apply_s H_da; struct dispatch_continuation_s H_node; struct dispatch_queue_global_s H_rq; int32_t H_helpers_alloc, H_helpers_init; _Bool H_bad_helper; int32_t H_thr;
static void h_invoke(void *c) { (void)c; }
static inline dispatch_continuation_t _dispatch_continuation_alloc(void) { H_helpers_alloc++; return &H_node; }
static inline dispatch_qos_t _dispatch_continuation_init_f(dispatch_continuation_t dc, dispatch_queue_class_t dqu, void *ctxt, dispatch_function_t f, dispatch_block_flags_t flags, uintptr_t dc_flags)
{	/* every helper is bound to THIS apply descriptor, runs the apply worker, and is consumed (freed) by its run */
	(void)flags; if (dc != &H_node || dqu._dgq != &H_rq || ctxt != (void *)&H_da || f != h_invoke || !(dc_flags & DC_FLAG_CONSUME)) H_bad_helper = 1;
	H_helpers_init++; return 0;
}
static inline void _dispatch_root_queue_push_inline(dispatch_queue_global_t dq, dispatch_object_t head, dispatch_object_t tail, int n)
{ __verif_event(K_ROOT_PUSH, 0, dq, (unsigned long long)(long long)n, (head._dc == &H_node && tail._dc == &H_node)); }
static void _dispatch_apply_invoke_and_wait(void *ctxt) { __verif_event(K_INVOKE_WAIT, 0, ctxt, 0, 0); }
VERIF_LOOP_CONTRACT(_dispatch_apply_f, 0,
	__CPROVER_assigns(i, head, tail, H_helpers_alloc, H_helpers_init, H_bad_helper, __CPROVER_object_whole(&H_node))
	__CPROVER_loop_invariant(0 <= i && i <= continuation_cnt && H_helpers_alloc == i && H_helpers_init == i && !H_bad_helper
		&& (i == 0 ? (head == 0 && tail == 0) : (head == &H_node && tail == &H_node))))
VERIF_CONTRACT_VOID(_dispatch_apply_f, (dispatch_queue_global_t dq, dispatch_apply_t da, dispatch_function_t func),
  REQ(dq == &H_rq && da == &H_da && func == h_invoke && __verif_n == 0 && H_helpers_alloc == 0 && H_helpers_init == 0 && !H_bad_helper && H_da.da_thr_cnt == H_thr && H_thr >= 2)
  ASG(VERIF_GHOST, __CPROVER_object_whole(&H_node), __CPROVER_object_whole(&H_da.da_event), H_helpers_alloc, H_helpers_init, H_bad_helper)
  /* exactly thr_cnt - 1 helpers (the calling thread is the thr_cnt-th worker), all bound to this descriptor */
  ENS(exactly_thr_cnt_minus_one_helpers_bound_to_this_apply, H_helpers_alloc == H_thr - 1 && H_helpers_init == H_thr - 1 && !H_bad_helper)
  /* they are handed to the root queue in ONE push announcing that number, and only then does the caller start working and waiting */
  ENS(helpers_are_pushed_once_then_the_caller_joins_and_waits, __verif_n == 2 && LOGK(0) == K_ROOT_PUSH && LOGP(0) == (void *)&H_rq && (long long)LOGA(0) == (long long)(H_thr - 1) && LOGB(0) == 1
        && LOGK(1) == K_INVOKE_WAIT && LOGP(1) == (void *)&H_da)
  ENS(completion_event_is_reset_before_any_helper_can_signal_it, H_da.da_event.dte_value == 0)
)
void harness(void)
{
	VERIF_GHOST_RESET(); __verif_crash_is_bug = 1; uint32_t tid = ND(uint32_t); __CPROVER_assume(VALID_TID(tid)); __dispatch_tsd.tid = (pid_t)tid;
	H_helpers_alloc = 0; H_helpers_init = 0; H_bad_helper = 0; H_thr = ND(int32_t); __CPROVER_assume(H_thr >= 2); H_da.da_thr_cnt = H_thr; H_da.da_event.dte_value = ND(uint32_t);
	_dispatch_apply_f(&H_rq, &H_da, h_invoke);
	VERIF_POST_VOID(_dispatch_apply_f, &H_rq, &H_da, h_invoke);
	VERIF_CANARY();
}
#endif
