/*VERIF
{ "tu": "src/apply.c", "enforce": "_dispatch_apply_invoke2", "props": ["C10","C05"], "nondet_volatile": true, "timeout": 200,
  "assumes": ["autorelease-pool hooks are installed whenever DISPATCH_INVOKE_AUTORELEASE_ALWAYS is set: dispatch_invoke_with_autoreleasepool tells the compiler that the pool is non-NULL (DISPATCH_COMPILER_CAN_ASSUME(pool)); without hooks _dispatch_autorelease_pool_push() returns NULL and that hint is false (undefined behaviour of the real code on this platform, outside the listed properties; reported in DESIGN.md 10.6, not repaired)", "rely: da_index only grows (other helpers only fetch-and-increment it); distinctness of the claimed indices across helpers is the atomicity of fetch-add (trusted primitive)"],
  "stub_note": "client work function, thread event signal/wait/destroy, continuation free, thread frame/context and priority bookkeeping: stubs with ghost flags" }
VERIF*/
#ifdef VERIF_PRE
extern size_t H_calls; extern _Bool H_bad, H_order_bad; extern const volatile void *H_todo_p, *H_index_p, *H_thr_p;
/* guarantee on the shared words of the apply record: index only incremented by one; todo decreased once by exactly the
 * number of invocations made by this helper, with release; thread count decremented by one with release */
#define __VERIF_GUARANTEE(p, ov, nv, mo) ( \
	((const volatile void *)(p) == H_index_p) ? ((nv) == (ov) + 1) : \
	((const volatile void *)(p) == H_todo_p) ? ((nv) == (ov) - H_calls && VMO_IS_REL(mo)) : \
	((const volatile void *)(p) == H_thr_p) ? ((unsigned)(nv) == (unsigned)(ov) - 1u && VMO_IS_REL(mo)) : 1)
#else
struct dispatch_apply_s H_da; struct dispatch_continuation_s H_dc;
const volatile void *H_todo_p, *H_index_p, *H_thr_p;
size_t H_calls; _Bool H_bad; size_t H_iter;
unsigned H_signals, H_waits, H_destroys, H_frees, H_todo_commits; _Bool H_order_bad; unsigned long long H_todo_new; int H_thr_new; _Bool H_thr_seen;
static void h_work(void *c, size_t i) { (void)c; (void)i; }
void _dispatch_client_callout2(void *ctxt, size_t i, void (*f)(void *, size_t))
{	/* the index passed to the client is the value this helper just claimed with its own fetch-and-increment, and is < n */
	if (!(i < H_iter && __verif_last_load_p == H_index_p && (size_t)__verif_last_load == i && f == h_work && ctxt == H_dc.dc_ctxt)) H_bad = 1;
	if (H_signals || H_waits || H_frees) H_order_bad = 1;
	H_calls++; }
static inline void _dispatch_thread_event_signal(dispatch_thread_event_t dte) { (void)dte; if (H_waits || H_destroys || H_frees) H_order_bad = 1; H_signals++; }
static inline void _dispatch_thread_event_wait(dispatch_thread_event_t dte) { (void)dte; if (H_destroys || H_frees) H_order_bad = 1; H_waits++; }
static inline void _dispatch_thread_event_destroy(dispatch_thread_event_t dte) { (void)dte; if (!H_waits || H_frees) H_order_bad = 1; H_destroys++; }
static inline void _dispatch_continuation_free(dispatch_continuation_t dc) { (void)dc; H_frees++; }
static inline void _dispatch_thread_context_push(dispatch_thread_context_t ctxt) { (void)ctxt; }
static inline void _dispatch_thread_context_pop(dispatch_thread_context_t ctxt) { (void)ctxt; }
static inline void _dispatch_thread_frame_push(dispatch_thread_frame_t dtf, dispatch_queue_class_t dqu) { (void)dtf; (void)dqu; }
static inline void _dispatch_thread_frame_pop(dispatch_thread_frame_t dtf) { (void)dtf; }
static inline dispatch_priority_t _dispatch_set_basepri(dispatch_priority_t dbp) { (void)dbp; return 0; }
static inline void _dispatch_reset_basepri(dispatch_priority_t dbp) { (void)dbp; }
struct dispatch_lane_s H_q;
/* models the autorelease hooks being installed (non-NULL pool): see "assumes" */
void *_dispatch_autorelease_pool_push(void) { static char pool_token; return &pool_token; }
void _dispatch_autorelease_pool_pop(void *context) { (void)context; }
VERIF_LOOP_CONTRACT(_dispatch_apply_invoke2, 0,
	__CPROVER_assigns(idx, done, da->da_index, H_calls, H_bad, H_order_bad, VERIF_GHOST)
	__CPROVER_loop_invariant(idx < iter && done == H_calls && !H_bad && !H_order_bad && __verif_last_load_p == H_index_p && (size_t)__verif_last_load == idx))
#define LAST_TODO_IS_ZERO (H_signals == 1)
VERIF_CONTRACT_VOID(_dispatch_apply_invoke2, (dispatch_apply_t da, long invoke_flags),
  REQ(da == &H_da && da->da_dc == &H_dc && da->da_iterations == H_iter && H_iter >= 1 && H_calls == 0 && !H_bad && !H_order_bad && H_signals == 0 && H_waits == 0 && H_destroys == 0 && H_frees == 0)
  REQ(H_todo_p == &da->da_todo && H_index_p == &da->da_index && H_thr_p == &da->da_thr_cnt && H_dc.dc_func == (void *)h_work && H_dc.dc_data == &H_q)
  ASG(da->da_index, da->da_todo, da->da_thr_cnt, H_calls, H_bad, H_order_bad, H_signals, H_waits, H_destroys, H_frees, VERIF_GHOST)
  /* every invocation is for an index this helper claimed atomically, below n (checked at each call-out; see also the guarantee hook) */
  ENS(only_claimed_indices_below_n_are_invoked, !H_bad)
  ENS(completion_event_ordering, !H_order_bad && H_signals <= 1)
  /* the caller (WAIT) returns only after the completion event, and only the caller tears the event down */
  ENS(caller_waits_for_completion_before_returning, (invoke_flags & DISPATCH_APPLY_INVOKE_WAIT) ? (H_waits == 1 && H_destroys == 1) : (H_waits == 0 && H_destroys == 0))
  ENS(record_freed_at_most_once, H_frees <= 1)
)
void harness(void)
{
	VERIF_GHOST_RESET();
	H_iter = ND(size_t); H_da.da_dc = &H_dc; H_da.da_iterations = H_iter; H_da.da_nested = ND(size_t); H_da.da_flags = ND(dispatch_invoke_flags_t);
	H_dc.dc_func = (void *)h_work; H_dc.dc_ctxt = (void *)ND(uintptr_t); H_dc.dc_data = &H_q;
	H_todo_p = &H_da.da_todo; H_index_p = &H_da.da_index; H_thr_p = &H_da.da_thr_cnt;
	H_calls = 0; H_bad = 0; H_order_bad = 0; H_signals = H_waits = H_destroys = H_frees = 0;
	long fl = ND(long);
	_dispatch_apply_invoke2(&H_da, fl);
	VERIF_POST_VOID(_dispatch_apply_invoke2, &H_da, fl);
	VERIF_REACH(some_calls, H_calls >= 1);
	VERIF_REACH(no_calls, H_calls == 0);
	VERIF_REACH(waited, H_waits == 1);
	VERIF_CANARY();
}
#endif
