/*VERIF
{ "tu": "src/io.c", "enforce": "dispatch_io_barrier", "props": ["C14"], "seq": true, "timeout": 300, "log_cap": 20,
  "block_calls": ["dispatch_async", "dispatch_group_notify"], "cppflags": ["-DH_LOG_ASYNC=1"],
  "assumes": ["posted blocks are evaluated where they are created, in nesting order: the log is the order in which the steps happen once each block runs (each block runs once, on its queue, after the block that posted it: C02; dispatch_group_notify runs its block after every earlier dispatch_group_enter was left: C07)"],
  "stub_note": "dispatch_suspend/dispatch_resume/_dispatch_retain/_dispatch_release: logged; barrier block: logged call-out" }
VERIF*/
#ifdef VERIF_PRE
struct dispatch_queue_s; struct dispatch_group_s; void __verif_block_begin_dispatch_async(struct dispatch_queue_s *q); void __verif_block_end(void);
void __verif_block_begin_dispatch_group_notify(struct dispatch_group_s *g, struct dispatch_queue_s *q);
#else
#include "contracts/C14/io_common.h"
#define K_NOTIFY 101
struct dispatch_queue_s H_chanq, H_barrierq, H_ioq; struct dispatch_group_s H_bgroup;
void __verif_block_begin_dispatch_group_notify(dispatch_group_t g, dispatch_queue_t q) { __verif_event(K_NOTIFY, 0, g, (unsigned long long)(uintptr_t)q, 0); }
static void h_barrier_body(void) { __verif_event(EV_CALLOUT, 0, (void *)h_barrier_body, (unsigned long long)(uintptr_t)_dispatch_thread_getspecific(dispatch_context_key), 0); }
#ifdef VERIF_NATIVE
#define H_BARRIER (^{ h_barrier_body(); })
#else
#define H_BARRIER h_barrier_body
#endif
/* a barrier: (1) goes through the channel queue and the barrier queue like every operation (so it is ordered after the
 * operations submitted before it), (2) suspends the barrier queue -- operations submitted after it are held there --
 * (3) waits on the barrier group, which every accepted operation entered (h_operation_enqueue) and leaves only after its
 * final delivery (h_operation_dispose), (4) runs the client block once, (5) only then lets the barrier queue go */
VERIF_CONTRACT_VOID(dispatch_io_barrier, (dispatch_io_t channel, dispatch_block_t barrier),
  REQ(channel == &H_chan && __verif_n == 0 && H_chan.queue == &H_chanq && H_chan.barrier_queue == &H_barrierq && H_chan.barrier_group == &H_bgroup && H_chan.do_targetq == &H_ioq)
  ASG(VERIF_GHOST, IO_GHOST, H_async_q, H_asyncs, __dispatch_tsd)
  ENS(log_bounded, __verif_n == 11)
  ENS(channel_is_kept_alive_until_the_barrier_has_run, LOGK(0) == EV_RETAIN && LOGP(0) == (void *)&H_chan && LOGK(7) == EV_RELEASE && LOGP(7) == (void *)&H_chan)
  ENS(barrier_is_ordered_through_channel_queue_then_barrier_queue, LOGK(1) == K_ASYNC && LOGP(1) == (void *)&H_chanq && LOGK(2) == K_ASYNC && LOGP(2) == (void *)&H_barrierq)
  ENS(later_operations_are_held_back_before_waiting, LOGK(3) == EV_RETAIN && LOGP(3) == (void *)&H_barrierq)
  ENS(barrier_waits_for_all_earlier_operations_via_the_barrier_group, LOGK(4) == K_NOTIFY && LOGP(4) == (void *)&H_bgroup && LOGA(4) == (unsigned long long)(uintptr_t)&H_ioq)
  ENS(client_block_runs_exactly_once_inside_the_barrier_context, LOGK(5) == EV_CALLOUT && LOGA(5) != 0 && LOGK(6) != EV_CALLOUT)
  ENS(barrier_queue_released_only_after_the_client_block_returned, LOGK(6) == EV_RELEASE && LOGP(6) == (void *)&H_barrierq)
)
void harness(void)
{
	VERIF_GHOST_RESET(); __verif_crash_is_bug = 1; h_io_reset();
	uint32_t tid = ND(uint32_t); __CPROVER_assume(VALID_TID(tid)); __dispatch_tsd.tid = (pid_t)tid;
	H_chan.queue = &H_chanq; H_chan.barrier_queue = &H_barrierq; H_chan.barrier_group = &H_bgroup; H_chan.do_targetq = &H_ioq;
	dispatch_io_barrier(&H_chan, H_BARRIER);
	VERIF_POST_VOID(dispatch_io_barrier, &H_chan, H_BARRIER);
	VERIF_CANARY();
}
#endif
