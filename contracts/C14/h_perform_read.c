/*VERIF
{ "tu": "src/io.c", "enforce": "_dispatch_operation_perform", "props": ["C14"], "seq": true, "timeout": 600,
  "cut_goto": {"_dispatch_operation_perform": ["syscall"]},
  "assumes": ["read/pread: the kernel transfers between 0 and len bytes into [buf, buf+len) or fails with an errno (any)",
              "EINTR retry (goto syscall) is a cut point: the retried call starts from the same state (nothing was changed before the jump: checked)",
              "posix_memalign: returns ENOMEM or a fresh buffer of exactly the requested size"],
  "stub_note": "_dispatch_fd_entry_open: nondeterministic error or success; dispatch_data_get_size: size field" }
VERIF*/
#ifdef VERIF_PRE
#include <stddef.h>
struct dispatch_data_s; size_t __verif_region_count(struct dispatch_data_s *d);
void __verif_region_get(struct dispatch_data_s *d, size_t k, struct dispatch_data_s **region, size_t *offset, const void **buffer, size_t *size);
void __verif_cut_backjump(void);
#else
#include "contracts/C14/io_common.h"
static int _dispatch_fd_entry_open(dispatch_fd_entry_t fd_entry, dispatch_io_t channel)
{ (void)channel; if (ND_BOOL()) { int e = ND(int); __CPROVER_assume(e > 0); return e; } fd_entry->fd = 7; return 0; }
size_t __verif_region_count(dispatch_data_t d) { (void)d; return 0; }
void __verif_region_get(dispatch_data_t d, size_t k, dispatch_data_t *region, size_t *offset, const void **buffer, size_t *size)
{ (void)d; (void)k; (void)region; (void)offset; (void)buffer; (void)size; }
int getpagesize(void) { return 4096; }
dispatch_data_t dispatch_data_create_map(dispatch_data_t d, const void **b, size_t *s) { (void)b; (void)s; return d; }
/* pre-state (the invariant every step of a read operation keeps; established at creation with total == 0, no buffer):
 *   U = bytes buffered in op->data (undelivered, below low water hence < high), buf_len <= buf_siz bytes in the buffer,
 *   total <= length bytes consumed so far, U + buf_siz <= high whenever a buffer exists */
size_t H_U, H_BL0, H_BS0, H_T0, H_LEN, H_high, H_chunk; void *H_buf0; int H_chan_err; unsigned H_cflags; int H_fd0; off_t H_off0; int H_fde_err0; _Bool H_conv; int H_operr0;
#define GETERR ((H_cflags & (DIO_CLOSED|DIO_STOPPED)) ? ((H_cflags & DIO_STOPPED) ? ECANCELED : 0) : H_fde_err0)
#define FRESH_SIZE_CAP (((H_high - H_U) < H_chunk ? (H_high - H_U) : H_chunk))
#define FRESH_SIZE ((H_LEN < SIZE_MAX && (H_LEN - H_T0) < FRESH_SIZE_CAP) ? (H_LEN - H_T0) : FRESH_SIZE_CAP)
#define BS1 (H_buf0 ? H_BS0 : FRESH_SIZE)      /* buffer size used by this step */
VERIF_CONTRACT(int, _dispatch_operation_perform, (dispatch_operation_t op),
  REQ(_dispatch_data_empty.size == 0)
  REQ(op == &H_op && H_syscalls == 0 && H_allocs_io == 0 && !H_sys_window_bad && op->direction == DOP_DIR_READ && op->channel == &H_chan && op->fd_entry == &H_fde)
  REQ(dispatch_io_defaults.chunk_size == H_chunk && H_chunk >= 1 && H_chunk <= (1u << 30))
  REQ(H_chan.atomic_flags == H_cflags && H_fde.err == H_fde_err0 && H_fde.fd == H_fd0 && op->offset == H_off0 && H_off0 >= 0 && H_off0 <= (1ll << 40))
  REQ(op->params.high == H_high && H_high >= 1 && H_high <= (1ull << 40) && op->data->size == H_U && H_U < H_high)
  REQ(op->err == H_operr0 && op->length == H_LEN && op->total == H_T0 && H_T0 < H_LEN && H_T0 <= (1ull << 50) && op->buf == H_buf0 && op->buf_siz == H_BS0 && op->buf_len == H_BL0)
  REQ(H_buf0 ? (H_BL0 < H_BS0 && H_BS0 <= H_high - H_U && H_BS0 - H_BL0 <= H_LEN - H_T0 && H_buf0 == H_alloc_ptr && H_alloc_size == H_BS0) : (H_BL0 == 0))
  REQ((op->fd_entry->convenience_channel == &H_chan) == H_conv && (op->params.type == DISPATCH_IO_STREAM || op->params.type == DISPATCH_IO_RANDOM) && H_fde.disk == 0)
  ASG(PERF_GHOST, H_op.buf, H_op.buf_siz, H_op.buf_len, H_op.total, H_op.err, H_fde.fd, H_fde.err, VERIF_GHOST)
  /* a closed-and-stopped channel or a failed descriptor: no system call at all; stop => ECANCELED */
  ENS(no_transfer_once_the_channel_is_stopped_or_the_descriptor_failed, VIMPL(GETERR != 0, H_syscalls == 0 && H_allocs_io == 0 && op->total == H_T0 && op->buf_len == H_BL0))
  ENS(stopped_channel_completes_with_ecanceled, VIMPL(H_cflags & DIO_STOPPED, op->err == ECANCELED && __CPROVER_return_value == DISPATCH_OP_ERR))
  /* a fresh buffer never lets buffered + new bytes exceed the high-water mark, never exceeds one chunk, and never
   * reaches beyond the requested length */
  ENS(fresh_buffer_respects_high_water_chunk_and_length, VIMPL(H_allocs_io == 1, H_buf0 == 0 && H_alloc_size == FRESH_SIZE && H_alloc_size <= H_high - H_U && H_alloc_size <= H_chunk && (H_LEN == SIZE_MAX || H_alloc_size <= H_LEN - H_T0)))
  ENS(buffer_is_reused_until_handed_over, VIMPL(H_buf0 != 0, H_allocs_io == 0 && op->buf == H_buf0 && op->buf_siz == H_BS0))
  /* at most one transfer; it targets exactly the free part of the buffer, inside the buffer, at the right file position */
  ENS(at_most_one_transfer_per_step, H_syscalls <= 1)
  ENS(transfer_targets_exactly_the_free_part_of_the_buffer, VIMPL(H_syscalls == 1, !H_sys_window_bad && H_sys_buf == (char *)op->buf + H_BL0 && H_sys_len == BS1 - H_BL0
        && (H_sys_kind == 1 || H_sys_kind == 2) && (H_sys_kind == 1) == (op->params.type == DISPATCH_IO_STREAM) && H_sys_fd == H_fde.fd))
  ENS(random_access_reads_continue_at_offset_plus_total, VIMPL(H_syscalls == 1 && H_sys_kind == 2, H_sys_off == H_off0 + (off_t)H_T0))
  /* accounting: exactly the bytes the kernel delivered are added, once, to the buffer fill and to the total */
  ENS(bytes_transferred_are_accounted_exactly_once, (H_syscalls == 1 && H_sys_ret > 0) ? (op->buf_len == H_BL0 + (size_t)H_sys_ret && op->total == H_T0 + (size_t)H_sys_ret)
        : (op->buf_len == H_BL0 && op->total == H_T0))
  ENS(invariant_is_kept, op->buf_len <= op->buf_siz && op->total <= H_LEN && (op->buf == 0 || op->buf_siz <= H_high - H_U))
  /* classification of the outcome */
  ENS(complete_exactly_when_the_requested_length_is_reached, VIMPL(H_syscalls == 1 && H_sys_ret > 0, __CPROVER_return_value == (op->total == H_LEN ? DISPATCH_OP_COMPLETE : DISPATCH_OP_DELIVER)))
  ENS(end_of_file_completes_the_operation, VIMPL(H_syscalls == 1 && H_sys_ret == 0, __CPROVER_return_value == DISPATCH_OP_DELIVER_AND_COMPLETE))
  ENS(would_block_resumes_later_without_error, VIMPL(H_syscalls == 1 && H_sys_ret < 0 && (H_errno == EAGAIN || H_errno == EWOULDBLOCK),
        op->err == H_operr0 && __CPROVER_return_value == ((H_T0 > 0 && H_conv) ? DISPATCH_OP_COMPLETE_RESUME : DISPATCH_OP_RESUME)))
  ENS(other_errors_are_recorded_and_end_the_operation, VIMPL(H_syscalls == 1 && H_sys_ret < 0 && H_errno != EAGAIN && H_errno != EWOULDBLOCK,
        op->err == H_errno && __CPROVER_return_value == (H_errno == ECANCELED ? DISPATCH_OP_ERR : H_errno == EBADF ? DISPATCH_OP_FD_ERR : DISPATCH_OP_COMPLETE)))
)
void __verif_cut_backjump(void)
{
	/* EINTR: the call is simply repeated; nothing may have been changed by the interrupted attempt */
	VERIF_ASSERT(interrupted_transfer_is_retried_with_nothing_changed, H_errno == EINTR && H_sys_ret == -1 && H_op.total == H_T0 && H_op.buf_len == H_BL0);
	__CPROVER_assume(0);
}
void harness(void)
{
	VERIF_GHOST_RESET(); __verif_crash_is_bug = 1; h_io_reset(); _dispatch_data_empty.size = 0;
	H_U = ND(size_t); H_BL0 = ND(size_t); H_BS0 = ND(size_t); H_T0 = ND(size_t); H_LEN = ND(size_t); H_high = ND(size_t); H_chunk = ND(size_t);
	H_cflags = ND(unsigned) & 3; H_fde_err0 = ND(int); H_fd0 = ND_BOOL() ? -1 : 5; H_off0 = ND(off_t); H_conv = ND_BOOL();
	__CPROVER_assume(H_chunk >= 1 && H_chunk <= (1u << 30) && H_high >= 1 && H_high <= (1ull << 40) && H_U < H_high && H_T0 < H_LEN && H_T0 <= (1ull << 50) && H_off0 >= 0 && H_off0 <= (1ll << 40));
	dispatch_io_defaults.chunk_size = H_chunk;
	H_op.direction = DOP_DIR_READ; H_op.channel = &H_chan; H_op.fd_entry = &H_fde; H_chan.atomic_flags = H_cflags; H_fde.err = H_fde_err0; H_fde.fd = H_fd0; H_fde.disk = 0;
	H_fde.convenience_channel = H_conv ? &H_chan : 0;
	H_op.params.type = ND_BOOL() ? DISPATCH_IO_STREAM : DISPATCH_IO_RANDOM; H_op.params.high = H_high; H_op.params.low = ND(size_t);
	H_operr0 = ND(int); H_op.err = H_operr0; H_op.offset = H_off0; H_op.length = H_LEN; H_op.total = H_T0; H_op.data = h_dnew(0, H_U);
	if (ND_BOOL()) {
		__CPROVER_assume(H_BL0 < H_BS0 && H_BS0 <= H_high - H_U && H_BS0 - H_BL0 <= H_LEN - H_T0 && H_BS0 <= (1u << 30));
		H_alloc_ptr = H_ALLOC(H_BS0); H_alloc_size = H_BS0; H_buf0 = H_alloc_ptr;
	} else { H_buf0 = 0; H_BL0 = 0; }
	H_op.buf = H_buf0; H_op.buf_siz = H_BS0; H_op.buf_len = H_BL0;
	int r = _dispatch_operation_perform(&H_op);
	VERIF_POST(_dispatch_operation_perform, r, &H_op);
	VERIF_REACH(fresh_buffer_with_buffered_data, !(H_allocs_io == 1 && H_U > 0 && H_syscalls == 1 && H_sys_ret > 0));
	VERIF_REACH(partial_fill_of_existing_buffer, !(H_buf0 != 0 && H_syscalls == 1 && H_sys_ret > 0 && r == DISPATCH_OP_DELIVER));
	VERIF_CANARY();
}
#endif
