/*VERIF
{ "tu": "src/io.c", "enforce": "dispatch_io_create_with_io", "props": ["C14", "C17"], "seq": true, "timeout": 200, "log_cap": 20, "cases": 7, "cbmc_flags": ["--sat-solver", "cadical"],
  "block_calls": ["dispatch_async"], "cppflags": ["-DH_LOG_ASYNC=1"],
  "assumes": ["NOT covered: a RANDOM-type channel derived from a healthy descriptor-based parent (reads the file offset with lseek inside an EINTR retry loop that has no bound): that one combination is excluded, the stream type is checked",
              "posted blocks are evaluated where they are created, in nesting order (each runs once, later, on its queue: C02)",
              "one case per way the asynchronous part can go (parent closed / in error at the first look, at the second look, channel error, fd-entry error, wrong type, healthy path-based parent, healthy descriptor-based parent): enumerated so that each run has one concrete event sequence"],
  "stub_note": "_dispatch_io_create, _dispatch_io_get_error, _dispatch_io_validate_type, _dispatch_io_init (own contract: h_io_init), _dispatch_fd_entry_create_with_path, lseek, malloc / memcpy: stubs; retain / release / suspend / resume: logged" }
VERIF*/
#ifdef VERIF_PRE
struct dispatch_queue_s; void __verif_block_begin_dispatch_async(struct dispatch_queue_s *q); void __verif_block_end(void);
#else
#include "contracts/C14/io_common.h"
struct dispatch_io_s H_in; struct dispatch_fd_entry_s H_newfde; struct dispatch_queue_s H_chanq, H_inq, H_inbarrierq, H_cleanupq, H_devsq, H_in_closeq; struct dispatch_io_path_data_s H_pd; char H_pdcopy[64];
int H_err0, H_err1, H_verr; _Bool H_from_path; unsigned H_inits, H_fde_suspends_at_init; dispatch_fd_entry_t H_init_fde; int H_init_err; dispatch_queue_t H_init_q; unsigned H_resumes_at_init, H_geterrs, H_withpaths; unsigned long H_type;
static dispatch_io_t _dispatch_io_create(dispatch_io_type_t type) { H_chan.params.type = type; H_chan.queue = &H_chanq; return &H_chan; }
static int _dispatch_io_get_error(dispatch_operation_t op, dispatch_io_t channel, bool ignore_closed) { (void)op; (void)ignore_closed; (void)channel; H_geterrs++; return H_geterrs == 1 ? H_err0 : H_err1; }
static int _dispatch_io_validate_type(dispatch_io_t channel, mode_t mode) { (void)channel; (void)mode; return H_verr; }
#define CNT1(k, kind, p, a) (((k) < __verif_n && LOGK(k) == (kind) && LOGP(k) == (void *)(p) && LOGA(k) == (a)) ? 1u : 0u)
#define CNT(kind, p, a) (CNT1(0,kind,p,a)+CNT1(1,kind,p,a)+CNT1(2,kind,p,a)+CNT1(3,kind,p,a)+CNT1(4,kind,p,a)+CNT1(5,kind,p,a)+CNT1(6,kind,p,a)+CNT1(7,kind,p,a)+CNT1(8,kind,p,a)+CNT1(9,kind,p,a) \
        +CNT1(10,kind,p,a)+CNT1(11,kind,p,a)+CNT1(12,kind,p,a)+CNT1(13,kind,p,a)+CNT1(14,kind,p,a)+CNT1(15,kind,p,a)+CNT1(16,kind,p,a)+CNT1(17,kind,p,a)+CNT1(18,kind,p,a)+CNT1(19,kind,p,a))
static void _dispatch_io_init(dispatch_io_t channel, dispatch_fd_entry_t fd_entry, dispatch_queue_t queue, int err, void (^cleanup_handler)(int))
{ (void)cleanup_handler; if (channel != &H_chan) H_inits += 100; H_inits++; H_init_fde = fd_entry; H_init_err = err; H_init_q = queue;
  H_fde_suspends_at_init = CNT(EV_RETAIN, &H_in_closeq, 1); H_resumes_at_init = CNT(EV_RELEASE, &H_chanq, 1); }
static dispatch_fd_entry_t _dispatch_fd_entry_create_with_path(dispatch_io_path_data_t path_data, dev_t dev, mode_t mode) { (void)path_data; (void)dev; (void)mode; H_withpaths++; return &H_newfde; }
off_t lseek(int fd, off_t off, int whence) { (void)fd; (void)off; (void)whence; return (off_t)(ND(uint32_t)); }   /* the kernel reports the current offset (an interrupted call is retried by the code: loop not modelled) */
void *malloc(size_t n) { (void)n; return H_pdcopy; }
void *memcpy(void *d, const void *s, size_t n) { (void)s; (void)n; return d; }
void _dispatch_bug(size_t line, uintptr_t val) { (void)line; (void)val; }
#define FAILS (H_err0 != 0 || H_err1 != 0 || H_in.err != 0 || H_fde.err != 0 || H_verr != 0 || H_init_err != 0)
VERIF_CONTRACT(dispatch_io_t, dispatch_io_create_with_io, (dispatch_io_type_t type, dispatch_io_t in_channel, dispatch_queue_t queue, void (^cleanup_handler)(int error)),
  REQ(type == H_type && (H_type == DISPATCH_IO_STREAM || H_type == DISPATCH_IO_RANDOM) && in_channel == &H_in && queue == &H_cleanupq && __verif_n == 0 && H_asyncs == 0 && H_inits == 0 && H_geterrs == 0 && H_withpaths == 0
      && H_in.queue == &H_inq && H_in.barrier_queue == &H_inbarrierq && H_in.fd_entry == &H_fde && H_fde.close_queue == &H_in_closeq && H_fde.path_data == (H_from_path ? &H_pd : 0) && H_in.fd == (H_from_path ? -1 : 5) && _dispatch_io_devs_lockq == &H_devsq && H_pd.pathlen <= 32)
  ASG(VERIF_GHOST, IO_GHOST, H_async_q, H_asyncs, __CPROVER_object_whole(&H_chan), H_inits, H_fde_suspends_at_init, H_init_fde, H_init_err, H_init_q, H_resumes_at_init, H_geterrs, H_withpaths, __CPROVER_object_whole(H_pdcopy), H_errno)
  ENS(log_bounded, __verif_n <= 18 && __CPROVER_return_value == &H_chan)
  /* C14: the new channel is initialised exactly once on every path - with an error and no fd entry when the parent is closed / in error / of the wrong type - while its
   * queue is still suspended (operations submitted meanwhile wait), and the queue is resumed exactly once afterwards */
  ENS(the_channel_is_initialised_exactly_once_while_its_queue_is_suspended_then_resumed_once, H_inits == 1 && H_init_q == &H_cleanupq && H_resumes_at_init == 0 && CNT(EV_RETAIN, &H_chanq, 1) == 1 && CNT(EV_RELEASE, &H_chanq, 1) == 1
        && LOGK(0) == EV_RETAIN && LOGP(0) == (void *)&H_chanq)
  /* a channel derived from a descriptor-based parent SHARES the parent's fd entry: it takes its own hold on the entry (suspends the entry's close queue) BEFORE it is
   * initialised with it - the close queue holds every cleanup handler and the stream teardown of the descriptor, and each channel gives its hold back when it closes */
  ENS(a_shared_fd_entry_is_held_once_more_before_the_channel_is_initialised_with_it, VIMPL(H_init_err == 0 && !H_from_path, H_init_fde == &H_fde && H_fde_suspends_at_init == 1 && CNT(EV_RETAIN, &H_in_closeq, 1) == 1))
  ENS(a_path_based_parent_gives_a_fresh_fd_entry, VIMPL(H_init_err == 0 && H_from_path, H_init_fde == &H_newfde && H_withpaths == 1 && CNT(EV_RETAIN, &H_in_closeq, 1) == 0))
  ENS(an_unusable_parent_gives_an_error_channel_without_fd_entry, VIMPL(H_init_err != 0, H_init_fde == 0 && H_withpaths == 0 && CNT(EV_RETAIN, &H_in_closeq, 1) == 0 && H_chan.err == H_init_err)
        && (H_init_err != 0) == (H_err0 != 0 || H_err1 != 0 || H_in.err != 0 || H_fde.err != 0 || H_verr != 0 || H_chan.err != 0))
  /* C17: the three references taken for the asynchronous part (cleanup queue, new channel, parent channel) are each given back exactly once on EVERY path */
  ENS(the_references_taken_for_the_asynchronous_part_are_each_given_back_exactly_once, CNT(EV_RETAIN, &H_cleanupq, 1) == 1 && CNT(EV_RELEASE, &H_cleanupq, 1) == 1 && CNT(EV_RETAIN, &H_chan, 1) == 1 && CNT(EV_RELEASE, &H_chan, 1) == 1
        && CNT(EV_RETAIN, &H_in, 1) == 1 && CNT(EV_RELEASE, &H_in, 1) == 1)
)
void harness(void)
{
	VERIF_GHOST_RESET(); H_asyncs = 0; H_inits = 0; H_geterrs = 0; H_withpaths = 0; H_type = (VERIF_CASE == 6 || ND_BOOL()) ? DISPATCH_IO_STREAM : DISPATCH_IO_RANDOM;
	H_err0 = VERIF_CASE == 0 ? ECANCELED : 0; H_err1 = VERIF_CASE == 1 ? ECANCELED : 0; H_in.err = VERIF_CASE == 2 ? EIO : 0; H_fde.err = VERIF_CASE == 3 ? EBADF : 0; H_verr = VERIF_CASE == 4 ? EISDIR : 0; H_from_path = (VERIF_CASE == 5) || (VERIF_CASE < 5 && ND_BOOL());
	H_in.queue = &H_inq; H_in.barrier_queue = &H_inbarrierq; H_in.fd_entry = &H_fde; H_fde.close_queue = &H_in_closeq; H_fde.path_data = H_from_path ? &H_pd : 0; H_in.fd = H_from_path ? -1 : 5; H_in.fd_actual = H_in.fd; H_fde.fd = 5;
	H_pd.pathlen = 8; _dispatch_io_devs_lockq = &H_devsq;
	dispatch_io_t r = dispatch_io_create_with_io(H_type, &H_in, &H_cleanupq, 0);
	VERIF_POST(dispatch_io_create_with_io, r, H_type, &H_in, &H_cleanupq, 0);
	VERIF_REACH(shared_fd_entry, H_init_err == 0 && !H_from_path);
	VERIF_REACH(path_based, H_init_err == 0 && H_from_path);
	VERIF_CANARY();
}
#endif
