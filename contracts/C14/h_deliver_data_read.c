/*VERIF
{ "tu": "src/io.c", "enforce": "_dispatch_operation_deliver_data", "props": ["C14"], "seq": true, "timeout": 300,
  "block_calls": ["dispatch_async"],
  "assumes": ["data API (create / concat / subrange / size) replaced by stubs implementing its contract over stream ranges (C13)",
              "the handler block posted with dispatch_async is evaluated at the point of creation (by-value captures); that it runs later, once, on op_q is the queue's contract (C02)"],
  "stub_note": "dispatch_data_*: range model; _dispatch_retain/_dispatch_release/dispatch_resume/dispatch_suspend: logged; handler: recorded" }
VERIF*/
#ifdef VERIF_PRE
struct dispatch_queue_s; void __verif_block_begin_dispatch_async(struct dispatch_queue_s *q); void __verif_block_end(void);
#else
#include "contracts/C14/io_common.h"
/* pre-state of a READ operation between two steps (established by _dispatch_operation_perform, see h_perform_read):
 *   D = bytes already handed to the handler; op->data denotes [D, D+U) with U == op->undelivered; the buffer holds the
 *   next buf_len bytes [D+U, D+U+buf_len); op->total == D+U+buf_len; U + buf_siz <= high when a buffer exists. */
size_t H_D, H_U, H_BL, H_low, H_high; dispatch_op_flags_t H_opflags0; int H_err0; unsigned H_stopped; void *H_buf0; dispatch_data_t H_data0;
#define UNDELIV (H_U + H_BL)
#define SHOULD_DELIVER(flags) ((((flags) & (DOP_DELIVER|DOP_DONE)) || (H_opflags0 & DOP_DELIVER)) || UNDELIV >= H_low)
#define EARLY_RETURN(flags) (!SHOULD_DELIVER(flags) && H_BL < H_op.buf_siz)
#define SUPPRESSED(flags) (((flags) & DOP_NO_EMPTY) && UNDELIV == 0)
#define DELIVERED(flags) (SHOULD_DELIVER(flags) && !SUPPRESSED(flags))
#define ERR_OUT(flags) ((((flags) & (DOP_DELIVER|DOP_DONE)) || (H_opflags0 & DOP_DELIVER)) ? (H_err0 ? H_err0 : (H_stopped ? ECANCELED : 0)) : 0)
VERIF_CONTRACT_VOID(_dispatch_operation_deliver_data, (dispatch_operation_t op, dispatch_op_flags_t flags),
  REQ(_dispatch_data_empty.size == 0)
  REQ(op == &H_op && __verif_n == 0 && H_calls == 0 && H_asyncs == 0 && !H_order_broken && !H_pool_exhausted && H_creates == 0)
  REQ(op->direction == DOP_DIR_READ && H_HANDLER_IS(op->handler) && op->channel == &H_chan && op->fd_entry == &H_fde && op->op_q == &H_opq && H_fde.close_queue == &H_closeq)
  REQ(op->params.low == H_low && op->params.high == H_high && H_low <= H_high && op->flags == H_opflags0 && op->err == H_err0 && (H_chan.atomic_flags & DIO_STOPPED) == (H_stopped ? DIO_STOPPED : 0))
  REQ(op->undelivered == H_U && op->buf_len == H_BL && op->data == H_data0 && H_data0->size == H_U && (H_U == 0 || h_dlo(H_data0) == H_D))
  REQ(H_BL <= op->buf_siz && op->buf == H_buf0 && (H_BL == 0 || H_buf0 != 0) && H_bufpos == H_D + H_U && op->total == H_D + H_U + H_BL)
  REQ(H_U <= H_high && op->buf_siz <= H_high - H_U && H_D <= (1ull << 62) && H_high <= (1ull << 40) && flags <= 15)
  ASG(VERIF_GHOST, IO_GHOST, H_op.flags, H_op.err, H_op.buf, H_op.buf_len, H_op.data, H_op.undelivered, H_async_q, H_asyncs)
  ENS(log_bounded, __verif_n <= 8 && H_calls <= 2 && !H_pool_exhausted)
  /* nothing is handed over below the low-water mark while the buffer still has room; nothing changes then */
  ENS(below_low_water_with_room_nothing_happens, VIMPL(EARLY_RETURN(flags), H_calls == 0 && H_asyncs == 0 && op->buf_len == H_BL && op->buf == H_buf0 && op->data == H_data0 && op->undelivered == H_U))
  /* delivery decision is exactly: forced, or low water reached; an empty delivery is suppressed only on request */
  ENS(handler_posted_iff_delivery_due, EARLY_RETURN(flags) || ((H_asyncs == 1) == DELIVERED(flags) && (H_asyncs == 0) == !DELIVERED(flags)))
  ENS(handler_posted_on_the_operations_queue, VIMPL(H_asyncs == 1, H_async_q == &H_opq))
  /* bytes are concatenated in stream order only (buffered data first, then the buffer) */
  ENS(bytes_are_only_ever_joined_in_stream_order, !H_order_broken)
  /* the buffer is turned into a data object exactly as filled: its first buf_len bytes, once */
  ENS(buffer_becomes_data_exactly_as_filled, VIMPL(!EARLY_RETURN(flags) && H_BL > 0, H_creates == 1 && H_created_from == H_buf0 && H_created_len == H_BL && op->buf == 0 && op->buf_len == 0))
  /* not delivered: everything stays with the operation, in order, and is accounted as undelivered */
  ENS(undelivered_bytes_stay_with_the_operation_in_order, VIMPL(!EARLY_RETURN(flags) && !DELIVERED(flags),
        op->undelivered == UNDELIV && op->data->size == UNDELIV && (UNDELIV == 0 || h_dlo(op->data) == H_D) && op->buf_len == 0))
  /* delivered, no error or not the last call: ONE invocation carrying exactly [D, D+U+buf_len): every byte once, in order,
   * and never more than the high-water mark; nothing stays behind */
  ENS(delivery_hands_over_exactly_the_pending_bytes, VIMPL(DELIVERED(flags) && !((flags & DOP_DONE) && ERR_OUT(flags)),
        H_calls == 1 && !H_call[0].null && H_call[0].size == UNDELIV && (UNDELIV == 0 || H_call[0].lo == H_D)
        && H_call[0].size <= H_high && H_call[0].err == ERR_OUT(flags)))
  ENS(nothing_stays_behind_after_a_delivery, VIMPL(DELIVERED(flags), op->undelivered == 0 && op->buf_len == 0 && op->data == (dispatch_data_t)&_dispatch_data_empty))
  /* last call of a read that failed: the pending bytes first (not done, no error), then done with the error and no data */
  ENS(failed_read_delivers_pending_bytes_before_done, VIMPL(DELIVERED(flags) && (flags & DOP_DONE) && ERR_OUT(flags),
        (UNDELIV > 0 ? (H_calls == 2 && !H_call[0].done && H_call[0].err == 0 && H_call[0].size == UNDELIV && H_call[0].lo == H_D && H_call[0].size <= H_high
                         && H_call[1].done && H_call[1].null && H_call[1].err == ERR_OUT(flags))
                     : (H_calls == 1 && H_call[0].done && H_call[0].null && H_call[0].err == ERR_OUT(flags)))))
  /* done is seen iff this is the final delivery, exactly once, on the last invocation */
  ENS(done_exactly_on_the_last_invocation_of_the_final_delivery, VIMPL(H_calls >= 1,
        H_call[H_calls - 1].done == ((flags & DOP_DONE) != 0) && (H_calls == 1 || !H_call[0].done)))
  /* a stopped channel turns a forced delivery into ECANCELED */
  ENS(stopped_channel_reports_ecanceled, VIMPL(DELIVERED(flags) && H_stopped && !H_err0 && ((flags & (DOP_DELIVER|DOP_DONE)) || (H_opflags0 & DOP_DELIVER)), H_call[H_calls - 1].err == ECANCELED && op->err == ECANCELED))
  /* the channel and the fd entry are kept alive (cleanup handler held back) until the handler has returned */
  ENS(channel_and_fd_entry_held_until_after_the_handler, VIMPL(H_calls >= 1,
        LOGK(0) == EV_RETAIN && LOGP(0) == (void *)&H_closeq && LOGK(1) == EV_RETAIN && LOGP(1) == (void *)&H_chan
        && __verif_n == 4 + H_calls && LOGK(__verif_n - 2) == EV_RELEASE && LOGP(__verif_n - 2) == (void *)&H_chan
        && LOGK(__verif_n - 1) == EV_RELEASE && LOGP(__verif_n - 1) == (void *)&H_closeq
        && LOGK(2) == EV_CALLOUT && LOGK(1 + H_calls) == EV_CALLOUT))
  ENS(no_delivery_no_references, VIMPL(H_calls == 0, __verif_n == 0))
)
void harness(void)
{
	VERIF_GHOST_RESET(); __verif_crash_is_bug = 1; h_io_reset(); _dispatch_data_empty.size = 0;
	H_D = ND(size_t); H_U = ND(size_t); H_BL = ND(size_t); H_low = ND(size_t); H_high = ND(size_t);
	H_opflags0 = ND(dispatch_op_flags_t); H_err0 = ND(int); H_stopped = ND_BOOL();
	__CPROVER_assume(H_low <= H_high && H_high <= (1ull << 40) && H_U <= H_high && H_D <= (1ull << 62));
	H_op.direction = DOP_DIR_READ; H_op.handler = H_HANDLER; H_op.channel = &H_chan; H_op.fd_entry = &H_fde; H_op.op_q = &H_opq; H_fde.close_queue = &H_closeq;
	H_op.params.low = H_low; H_op.params.high = H_high; H_op.flags = H_opflags0; H_op.err = H_err0;
	H_chan.atomic_flags = (H_stopped ? DIO_STOPPED : 0) | (ND_BOOL() ? DIO_CLOSED : 0);
	H_op.length = ND(size_t);
	H_op.buf_siz = ND(size_t); __CPROVER_assume(H_op.buf_siz <= H_high - H_U && H_BL <= H_op.buf_siz);
	H_bufpos = H_D + H_U;
	H_data0 = h_dnew(H_D, H_U); H_op.data = H_data0; H_op.undelivered = H_U; H_op.buf_len = H_BL; H_op.total = H_D + H_U + H_BL;
	static char bufobj[8]; H_buf0 = (H_BL > 0 || ND_BOOL()) ? (void *)bufobj : (void *)0; H_op.buf = H_buf0;
	dispatch_op_flags_t flags = ND(dispatch_op_flags_t); __CPROVER_assume(flags <= 15);
	_dispatch_operation_deliver_data(&H_op, flags);
	VERIF_POST_VOID(_dispatch_operation_deliver_data, &H_op, flags);
	VERIF_REACH(delivery_with_buffered_and_fresh_bytes, !(H_calls == 1 && H_U > 0 && H_BL > 0));
	VERIF_REACH(failed_final_delivery_two_calls, !(H_calls == 2));
	VERIF_REACH(kept_below_low_water, !(H_calls == 0 && H_op.undelivered > H_U));
	VERIF_CANARY();
}
#endif
