/*VERIF
{ "tu": "src/io.c", "enforce": "_dispatch_disk_perform", "props": ["C14", "C17"], "seq": true, "plain": true, "timeout": 600, "cases": 5, "unwind": 6, "cbmc_flags": ["--sat-solver", "cadical"],
  "block_calls": ["dispatch_async"],
  "bounded": {"unwind": 6, "what": "advise ring of depth 2 with the operation being transferred at the request index (the advise loop walks the ring by index); 5 cases = the five outcomes of the transfer (deliver, complete, deliver+complete, operation error, descriptor error)"},
  "assumes": ["runs on the operation's target queue; the completion block posted to the pick queue is evaluated where it is created (it runs once, later, on the pick queue: C02)"],
  "stub_note": "_dispatch_operation_perform (own contract: h_perform_read / h_perform_write; outcome fixed per case), _dispatch_operation_advise, _dispatch_fd_entry_open, _dispatch_operation_deliver_data, _dispatch_disk_complete_operation, _dispatch_disk_cleanup_operations, _dispatch_disk_handler (b_disk_handler), _dispatch_release: recorded in order" }
VERIF*/
#ifdef VERIF_PRE
struct dispatch_queue_s; void __verif_block_begin_dispatch_async(struct dispatch_queue_s *q); void __verif_block_end(void);
#else
struct { struct dispatch_disk_s d; dispatch_operation_t slots[2]; } H_diskobj; struct dispatch_operation_s H_op, H_op2; struct dispatch_queue_s H_pickq; struct dispatch_io_s H_chan; struct dispatch_fd_entry_s H_fde;
#define H_disk (H_diskobj.d)
int H_result; unsigned H_seq, H_performs, H_delivers, H_completes, H_cleanups, H_handlers, H_releases, H_blocks; unsigned H_deliver_at, H_complete_at, H_cleanup_at, H_handler_at, H_release_at; _Bool H_bad; dispatch_io_t H_cleanup_chan; unsigned H_deliver_flags; _Bool H_active_at_handler, H_ioactive_at_handler;
void __verif_block_begin_dispatch_async(dispatch_queue_t q) { if (q != &H_pickq || H_performs != 1) H_bad = 1; H_blocks++; }
void __verif_block_end(void) { }
static int _dispatch_operation_perform(dispatch_operation_t op) { if (op != &H_op) H_bad = 1; H_performs++; return H_result; }
static void _dispatch_operation_advise(dispatch_operation_t op, size_t chunk) { (void)op; (void)chunk; }
static int _dispatch_fd_entry_open(dispatch_fd_entry_t fde, dispatch_io_t ch) { (void)fde; (void)ch; return 0; }
static void _dispatch_operation_deliver_data(dispatch_operation_t op, dispatch_op_flags_t flags) { if (op != &H_op) H_bad = 1; H_delivers++; H_deliver_at = ++H_seq; H_deliver_flags = flags; }
static void _dispatch_disk_complete_operation(dispatch_disk_t disk, dispatch_operation_t op) { if (disk != &H_disk || op != &H_op) H_bad = 1; H_completes++; H_complete_at = ++H_seq; }
static void _dispatch_disk_cleanup_operations(dispatch_disk_t disk, dispatch_io_t channel) { if (disk != &H_disk) H_bad = 1; H_cleanups++; H_cleanup_at = ++H_seq; H_cleanup_chan = channel; }
static void _dispatch_disk_handler(void *ctx) { if (ctx != (void *)&H_disk) H_bad = 1; H_handlers++; H_handler_at = ++H_seq; H_active_at_handler = H_op.active; H_ioactive_at_handler = H_disk.io_active; }
static inline void _dispatch_release(dispatch_object_t dou) { if (dou._do != (void *)&H_op) H_bad = 1; H_releases++; H_release_at = ++H_seq; }
VERIF_CONTRACT_VOID(_dispatch_disk_perform, (void *ctxt),
  REQ(ctxt == (void *)&H_disk && H_disk.advise_list_depth == 2 && H_disk.req_idx == 0 && H_disk.advise_idx == 0 && H_disk.free_idx == 1 && H_disk.io_active && H_disk.pick_queue == &H_pickq && H_diskobj.d.advise_list[0] == &H_op && H_diskobj.d.advise_list[1] == 0)
  REQ(H_op.active && H_op.channel == &H_chan && H_op.fd_entry == &H_fde && !H_bad && H_seq == 0 && H_performs == 0 && H_delivers == 0 && H_completes == 0 && H_cleanups == 0 && H_handlers == 0 && H_releases == 0 && H_blocks == 0)
  ASG(__CPROVER_object_whole(&H_diskobj), __CPROVER_object_whole(&H_op))
  ENS(one_transfer_of_the_operation_at_the_request_index_then_one_completion_block_on_the_pick_queue, !H_bad && H_performs == 1 && H_blocks == 1)
  ENS(the_slot_is_freed_and_the_request_index_advances, H_diskobj.d.advise_list[0] == 0 && H_disk.req_idx == 1)
  /* the outcome of the transfer decides what happens to the operation, exactly once each */
  ENS(outcome_deliver_hands_the_data_on_and_keeps_the_operation, VIMPL(H_result == DISPATCH_OP_DELIVER, H_delivers == 1 && H_deliver_flags == DOP_DEFAULT && H_completes == 0 && H_cleanups == 0))
  ENS(outcome_complete_completes_it_once, VIMPL(H_result == DISPATCH_OP_COMPLETE, H_delivers == 0 && H_completes == 1 && H_cleanups == 0))
  ENS(outcome_deliver_and_complete_delivers_first, VIMPL(H_result == DISPATCH_OP_DELIVER_AND_COMPLETE, H_delivers == 1 && H_deliver_flags == (DOP_DELIVER | DOP_NO_EMPTY) && H_completes == 1 && H_deliver_at < H_complete_at && H_cleanups == 0))
  ENS(outcome_error_cancels_the_operations_of_that_channel_on_this_disk, VIMPL(H_result == DISPATCH_OP_ERR, H_cleanups == 1 && H_cleanup_chan == &H_chan && H_delivers == 0 && H_completes == 0))
  ENS(outcome_descriptor_error_cancels_every_operation_of_this_disk, VIMPL(H_result == DISPATCH_OP_FD_ERR, H_cleanups == 1 && H_cleanup_chan == 0 && H_delivers == 0 && H_completes == 0))
  /* C14: whatever the outcome, the scheduler is run again EXACTLY ONCE afterwards, with the operation and the disk marked idle: operations still waiting on the ring
   * (also after a clean-up emptied the pending list) are driven on and complete; the reference the ring held is dropped last */
  ENS(the_scheduler_always_runs_again_exactly_once_with_the_disk_idle, H_handlers == 1 && !H_active_at_handler && !H_ioactive_at_handler && H_handler_at > H_deliver_at && H_handler_at > H_complete_at && H_handler_at > H_cleanup_at)
  ENS(the_ring_reference_is_dropped_once_at_the_very_end, H_releases == 1 && H_release_at == H_seq && H_release_at > H_handler_at)
)
void harness(void)
{
	VERIF_GHOST_RESET(); H_bad = 0; H_seq = 0; H_performs = H_delivers = H_completes = H_cleanups = H_handlers = H_releases = H_blocks = 0; H_deliver_at = H_complete_at = H_cleanup_at = 0;
	static const int R[5] = { DISPATCH_OP_DELIVER, DISPATCH_OP_COMPLETE, DISPATCH_OP_DELIVER_AND_COMPLETE, DISPATCH_OP_ERR, DISPATCH_OP_FD_ERR };
	H_result = R[VERIF_CASE];
	H_disk.advise_list_depth = 2; H_disk.req_idx = 0; H_disk.advise_idx = 0; H_disk.free_idx = 1; H_disk.io_active = 1; H_disk.pick_queue = &H_pickq; H_diskobj.d.advise_list[0] = &H_op; H_diskobj.d.advise_list[1] = 0;
	H_op.active = 1; H_op.channel = &H_chan; H_op.fd_entry = &H_fde; H_op.direction = ND_BOOL() ? DOP_DIR_READ : DOP_DIR_WRITE; H_op.total = ND(size_t); H_op.advise_offset = ND(off_t); H_fde.fd = 3;
	VERIF_PRE_CALL(_dispatch_disk_perform, &H_disk);
	_dispatch_disk_perform(&H_disk);
	VERIF_POST_VOID(_dispatch_disk_perform, &H_disk);
	VERIF_CANARY();
}
#endif
