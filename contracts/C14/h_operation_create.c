/*VERIF
{ "tu": "src/io.c", "enforce": "_dispatch_operation_create", "props": ["C14"], "seq": true, "timeout": 300, "log_cap": 20,
  "block_calls": ["dispatch_async"], "cppflags": ["-DH_LOG_ASYNC=1"], "unwind": 4, "unwind_fns": ["_dispatch_operation_create"],
  "assumes": ["posted blocks are evaluated where they are created, in nesting order (each runs once, later, on its queue: C02)",
              "target-queue chain of the channel has <= 3 levels (loop that only picks the root queue for the priority snapshot: unwound)"],
  "stub_note": "allocator returns the harness operation object; dispatch_queue_create_with_target, _dispatch_Block_copy: identity-like stubs; handler: recorded" }
VERIF*/
#ifdef VERIF_PRE
struct dispatch_queue_s; void __verif_block_begin_dispatch_async(struct dispatch_queue_s *q); void __verif_block_end(void);
#else
#include "contracts/C14/io_common.h"
struct dispatch_queue_s H_chanq, H_barrierq, H_clientq, H_newopq, H_tq[3];
void *_dispatch_object_alloc(const void *vtable, size_t size) { (void)vtable; (void)size; return &H_op; }
dispatch_queue_t dispatch_queue_create_with_target(const char *label, dispatch_queue_attr_t attr, dispatch_queue_t target)
{ (void)label; (void)attr; __verif_event(EV_CALL, 0, target, 77, 0); return &H_newopq; }
void *(_dispatch_Block_copy)(void *block) { return block; }
unsigned H_cflags; int H_chan_err; size_t H_len; dispatch_data_t H_data; off_t H_off; dispatch_op_direction_t H_dir;
#define GETERR ((H_cflags & (DIO_CLOSED|DIO_STOPPED)) ? ECANCELED : H_chan_err)
VERIF_CONTRACT(dispatch_operation_t, _dispatch_operation_create, (dispatch_op_direction_t direction, dispatch_io_t channel, off_t offset, size_t length, dispatch_data_t data, dispatch_queue_t queue, dispatch_io_handler_t handler),
  REQ(_dispatch_data_empty.size == 0 && __verif_n == 0 && H_calls == 0 && H_asyncs == 0)
  REQ(direction == H_dir && (H_dir == DOP_DIR_READ || H_dir == DOP_DIR_WRITE) && channel == &H_chan && offset == H_off && length == H_len && data == H_data && queue == &H_clientq && H_HANDLER_IS(handler))
  REQ(H_chan.atomic_flags == H_cflags && H_chan.err == H_chan_err && H_chan.queue == &H_chanq && H_chan.barrier_queue == &H_barrierq && H_off >= 0 && H_off <= (1ll << 40) && H_chan.f_ptr >= 0 && H_chan.f_ptr <= (1ll << 40))
  ASG(VERIF_GHOST, IO_GHOST, H_async_q, H_asyncs, __CPROVER_object_whole(&H_op))
  ENS(log_bounded, __verif_n <= 12)
  /* an operation that cannot or need not reach the descriptor (closed / stopped / failed channel, or zero length) completes
   * with exactly one done invocation -- but THROUGH THE BARRIER QUEUE, so it stays ordered with barriers and with the
   * operations submitted before it */
  ENS(immediate_completion_is_still_ordered_through_the_barrier_queue, VIMPL(GETERR != 0 || H_len == 0,
        __CPROVER_return_value == 0 && H_asyncs == 2 && LOGK(0) == EV_RETAIN && LOGP(0) == (void *)&H_clientq && LOGK(1) == EV_RETAIN && LOGP(1) == (void *)&H_chan
        && LOGK(2) == K_ASYNC && LOGP(2) == (void *)&H_barrierq && LOGK(3) == K_ASYNC && LOGP(3) == (void *)&H_clientq && LOGK(4) == EV_CALLOUT))
  ENS(immediate_completion_is_one_done_invocation_with_the_channels_error, VIMPL(GETERR != 0 || H_len == 0,
        H_calls == 1 && H_call[0].done && H_call[0].err == GETERR
        && ((H_dir == DOP_DIR_READ && GETERR) || (H_dir == DOP_DIR_WRITE && !GETERR) ? H_call[0].null : (!H_call[0].null && H_call[0].size == H_data->size))))
  ENS(closed_channel_means_ecanceled, VIMPL(H_cflags & (DIO_CLOSED|DIO_STOPPED), __CPROVER_return_value == 0 && H_call[0].err == ECANCELED))
  ENS(immediate_completion_balances_its_references, VIMPL(GETERR != 0 || H_len == 0,
        LOGK(5) == EV_RELEASE && LOGP(5) == (void *)&H_chan && LOGK(6) == K_ASYNC_END && LOGK(7) == EV_RELEASE && LOGP(7) == (void *)&H_clientq && (h_didx(H_data) < 0 || H_drc[h_didx(H_data)] == 1)))
  /* a real operation: nothing is invoked yet; it remembers direction, length, absolute offset and its channel (retained) */
  ENS(real_operation_records_the_request, VIMPL(GETERR == 0 && H_len != 0, __CPROVER_return_value == &H_op && H_calls == 0 && H_asyncs == 0
        && H_op.direction == H_dir && H_op.length == H_len && H_op.offset == H_off + H_chan.f_ptr && H_op.channel == &H_chan && H_op.op_q == &H_newopq && !H_op.active
        && H_op.params.low == H_chan.params.low && H_op.params.high == H_chan.params.high && H_op.params.type == H_chan.params.type))
  ENS(real_operation_retains_its_channel_and_serialises_its_handler_on_a_private_queue_over_the_clients, VIMPL(GETERR == 0 && H_len != 0,
        LOGK(0) == EV_CALL && LOGP(0) == (void *)&H_clientq && LOGK(1) == EV_RETAIN && LOGP(1) == (void *)&H_chan))
)
void harness(void)
{
	VERIF_GHOST_RESET(); __verif_crash_is_bug = 1; h_io_reset();
	H_cflags = ND(unsigned) & 3; H_chan_err = ND(int); H_len = ND(size_t); H_off = ND(off_t); H_dir = ND_BOOL() ? DOP_DIR_READ : DOP_DIR_WRITE;
	__CPROVER_assume(H_off >= 0 && H_off <= (1ll << 40));
	H_chan.atomic_flags = H_cflags; H_chan.err = H_chan_err; H_chan.queue = &H_chanq; H_chan.barrier_queue = &H_barrierq; H_chan.f_ptr = ND(off_t); __CPROVER_assume(H_chan.f_ptr >= 0 && H_chan.f_ptr <= (1ll << 40));
	H_chan.params.low = ND(size_t); H_chan.params.high = ND(size_t); H_chan.params.type = ND_BOOL() ? DISPATCH_IO_STREAM : DISPATCH_IO_RANDOM;
	unsigned depth = ND(unsigned); __CPROVER_assume(depth >= 1 && depth <= 3);
	H_chan.do_targetq = &H_tq[0]; H_tq[0].do_targetq = depth > 1 ? &H_tq[1] : 0; H_tq[1].do_targetq = depth > 2 ? &H_tq[2] : 0; H_tq[2].do_targetq = 0;
	H_data = h_dnew(0, ND(size_t));
	dispatch_operation_t r = _dispatch_operation_create(H_dir, &H_chan, H_off, H_len, H_data, &H_clientq, H_HANDLER);
	VERIF_POST(_dispatch_operation_create, r, H_dir, &H_chan, H_off, H_len, H_data, &H_clientq, H_HANDLER);
	VERIF_REACH(zero_length_on_open_channel, r == 0 && H_len == 0 && H_call[0].err == 0);
	VERIF_CANARY();
}
#endif
