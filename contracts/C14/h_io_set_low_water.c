/*VERIF
{ "tu": "src/io.c", "enforce": "dispatch_io_set_low_water", "props": ["C14"], "seq": true, "timeout": 200, "log_cap": 20,
  "block_calls": ["dispatch_async"], "cppflags": ["-DH_LOG_ASYNC=1"],
  "assumes": ["the posted block is evaluated where it is created (it runs once, later, on the channel's queue: C02)", "the channel's marks satisfy low <= high, high >= 1 (established by _dispatch_io_create and kept by both setters)"],
  "stub_note": "_dispatch_retain / _dispatch_release: logged; dispatch_async lowered by rule R-async" }
VERIF*/
#ifdef VERIF_PRE
struct dispatch_queue_s; void __verif_block_begin_dispatch_async(struct dispatch_queue_s *q); void __verif_block_end(void);
#else
#include "contracts/C14/io_common.h"
struct dispatch_queue_s H_chanq; size_t H_low0, H_high0, H_arg;
VERIF_CONTRACT_VOID(dispatch_io_set_low_water, (dispatch_io_t channel, size_t low_water),
  REQ(channel == &H_chan && low_water == H_arg && __verif_n == 0 && H_asyncs == 0 && H_chan.queue == &H_chanq && H_chan.params.low == H_low0 && H_chan.params.high == H_high0 && H_low0 <= H_high0 && H_high0 >= 1)
  ASG(VERIF_GHOST, IO_GHOST, H_async_q, H_asyncs, H_chan.params.low, H_chan.params.high)
  /* C14: the delivery bounds stay consistent whatever the application asks for: low <= high and high >= 1 (a handler is given at most `high` bytes, at least `low`
   * unless it is the last call: deliver_data contracts rely on exactly this), and the mark that was set has the requested value */
  ENS(marks_stay_consistent_and_the_requested_one_is_set, H_chan.params.low <= H_chan.params.high && H_chan.params.high >= 1 && H_chan.params.low == H_arg && H_chan.params.high == (H_high0 < H_arg ? H_arg : H_high0))
  /* the change is made on the channel's queue (ordered with the channel's operations), under a reference taken before it is posted and dropped at its end */
  ENS(posted_once_on_the_channels_queue_under_a_reference, __verif_n == 4 && LOGK(0) == EV_RETAIN && LOGP(0) == (void *)&H_chan && LOGK(1) == K_ASYNC && LOGP(1) == (void *)&H_chanq
        && LOGK(2) == EV_RELEASE && LOGP(2) == (void *)&H_chan && LOGK(3) == K_ASYNC_END && H_asyncs == 1)
)
void harness(void)
{
	VERIF_GHOST_RESET(); H_asyncs = 0; H_chan.queue = &H_chanq; H_low0 = ND(size_t); H_high0 = ND(size_t); H_arg = ND(size_t); __CPROVER_assume(H_low0 <= H_high0 && H_high0 >= 1);
	H_chan.params.low = H_low0; H_chan.params.high = H_high0;
	dispatch_io_set_low_water(&H_chan, H_arg);
	VERIF_POST_VOID(dispatch_io_set_low_water, &H_chan, H_arg);
	VERIF_REACH(the_other_mark_had_to_move, H_chan.params.high != H_high0);
	VERIF_CANARY();
}
#endif
