/*VERIF
{ "tu": "src/io.c", "enforce": "_dispatch_disk_handler", "props": ["C14", "C17"], "seq": true, "plain": true, "timeout": 600, "cases": 14, "unwind": 6, "cbmc_flags": ["--sat-solver", "cadical"],
  "bounded": {"unwind": 6, "what": "advise ring of depth 1..3: 14 cases = every (depth, free index, request index) (the pick loop walks the ring by index: no loop contract), up to 4 operations offered by the picker"},
  "assumes": ["runs on the disk's pick queue (serial); the picker hands out each pending operation at most once per pass (its own contract)"],
  "stub_note": "_dispatch_disk_pick_next_operation (offers the pending operations one by one, or none), _dispatch_io_get_error (arbitrary verdict per operation), _dispatch_disk_complete_operation, _dispatch_retain, dispatch_async_f: recorded per operation" }
VERIF*/
#ifdef VERIF_PRE
#else
#define NOPS 4
struct { struct dispatch_disk_s d; dispatch_operation_t slots[3]; } H_diskobj; struct dispatch_operation_s H_ops[NOPS], H_old[3]; struct dispatch_queue_s H_tq; 
#define H_disk (H_diskobj.d)
unsigned H_offered, H_retains[NOPS], H_completes[NOPS], H_posts; int H_err[NOPS]; _Bool H_bad, H_active0, H_slot_used0[3]; size_t H_depth, H_free0, H_req0; unsigned H_k;
static int h_op(void *op) { return op == (void *)&H_ops[0] ? 0 : op == (void *)&H_ops[1] ? 1 : op == (void *)&H_ops[2] ? 2 : op == (void *)&H_ops[3] ? 3 : -1; }
static dispatch_operation_t _dispatch_disk_pick_next_operation(dispatch_disk_t disk) { if (disk != &H_disk) H_bad = 1; if (H_offered >= NOPS || ND_BOOL()) return 0; return &H_ops[H_offered++]; }
static int _dispatch_io_get_error(dispatch_operation_t op, dispatch_io_t channel, bool ignore_closed) { (void)channel; if (!ignore_closed) H_bad = 1; int i = h_op(op); if (i < 0) { H_bad = 1; return 0; } return H_err[i]; }
static void _dispatch_disk_complete_operation(dispatch_disk_t disk, dispatch_operation_t op) { int i = h_op(op); if (disk != &H_disk || i < 0) { H_bad = 1; return; } H_completes[i]++; }
static inline void _dispatch_retain(dispatch_object_t dou) { int i = h_op(dou._do); if (i < 0) { H_bad = 1; return; } H_retains[i]++; }
void dispatch_async_f(dispatch_queue_t q, void *ctxt, dispatch_function_t f) { if (q != &H_tq || ctxt != (void *)&H_disk || f != _dispatch_disk_perform) H_bad = 1; H_posts++; }
static void _dispatch_disk_perform(void *ctxt) { (void)ctxt; }
#define SLOT(i) (H_diskobj.d.advise_list[i])
#define ON_RING(k) ((SLOT(0) == &H_ops[k]) + (H_depth > 1 && SLOT(1) == &H_ops[k]) + (H_depth > 2 && SLOT(2) == &H_ops[k]))
VERIF_CONTRACT_VOID(_dispatch_disk_handler, (void *ctx),
  REQ(ctx == (void *)&H_disk && H_disk.advise_list_depth == H_depth && H_depth >= 1 && H_depth <= 3 && H_disk.free_idx == H_free0 && H_disk.req_idx == H_req0 && H_free0 < H_depth && H_req0 < H_depth && H_disk.io_active == H_active0)
  REQ(!H_bad && H_offered == 0 && H_posts == 0 && H_k < NOPS && H_retains[H_k] == 0 && H_completes[H_k] == 0)
  REQ(SLOT(0) == (H_slot_used0[0] ? &H_old[0] : 0) && SLOT(1) == (H_slot_used0[1] ? &H_old[1] : 0) && SLOT(2) == (H_slot_used0[2] ? &H_old[2] : 0) && H_old[0].do_targetq == &H_tq && H_old[1].do_targetq == &H_tq && H_old[2].do_targetq == &H_tq)
  ASG(__CPROVER_object_whole(&H_diskobj), __CPROVER_object_whole(H_ops), H_offered, __CPROVER_object_whole(H_retains), __CPROVER_object_whole(H_completes), H_posts, H_bad)
  ENS(the_scheduler_only_talks_to_its_own_disk, !H_bad)
  ENS(a_busy_disk_is_left_alone, VIMPL(H_active0, H_offered == 0 && H_posts == 0 && H_retains[H_k] == 0 && H_completes[H_k] == 0))
  /* C14 / C17: an operation that is already failed or cancelled when it is picked is completed at once and holds NO scheduler reference - its handler must still see
   * done exactly once (from the final release), so not one reference may be left on it */
  ENS(an_operation_picked_in_error_is_completed_once_and_never_retained_or_scheduled, VIMPL(H_k < H_offered && H_err[H_k] != 0, H_completes[H_k] == 1 && H_retains[H_k] == 0 && ON_RING(H_k) == 0 && H_ops[H_k].err == H_err[H_k]))
  /* a healthy operation goes into exactly one free ring slot, marked active, holding exactly one reference for the time it is on the ring */
  ENS(a_healthy_picked_operation_gets_one_slot_and_one_reference, VIMPL(H_k < H_offered && H_err[H_k] == 0, H_completes[H_k] == 0 && H_retains[H_k] == 1 && ON_RING(H_k) == 1 && H_ops[H_k].active))
  ENS(operations_that_were_not_picked_are_untouched, VIMPL(H_k >= H_offered, H_completes[H_k] == 0 && H_retains[H_k] == 0 && ON_RING(H_k) == 0))
  ENS(occupied_slots_are_never_overwritten, VIMPL(H_slot_used0[0], SLOT(0) == &H_old[0]) && VIMPL(H_depth > 1 && H_slot_used0[1], SLOT(1) == &H_old[1]) && VIMPL(H_depth > 2 && H_slot_used0[2], SLOT(2) == &H_old[2]))
  /* the transfer of the operation at the request index is started exactly once, and only then is the disk marked busy */
  ENS(io_is_started_once_iff_there_is_a_request, VIMPL(!H_active0, H_posts == (SLOT(H_req0) ? 1u : 0u) && H_disk.io_active == (SLOT(H_req0) != 0)) && H_disk.req_idx == H_req0)
)
void harness(void)
{
	VERIF_GHOST_RESET(); H_bad = 0; H_offered = 0; H_posts = 0; H_k = ND(unsigned); __CPROVER_assume(H_k < NOPS);
	/* one case per (ring depth, free index, request index): the index arithmetic modulo the depth is then constant-folded (symbolic 64-bit modulo is out of the solver's reach) */
	static const unsigned char T[14][3] = { {1,0,0}, {2,0,0},{2,0,1},{2,1,0},{2,1,1}, {3,0,0},{3,0,1},{3,0,2},{3,1,0},{3,1,1},{3,1,2},{3,2,0},{3,2,1},{3,2,2} };
	H_depth = T[VERIF_CASE][0]; H_free0 = T[VERIF_CASE][1]; H_req0 = T[VERIF_CASE][2]; __CPROVER_assume(H_depth >= 1 && H_depth <= 3 && H_free0 < H_depth && H_req0 < H_depth);
	H_active0 = ND_BOOL(); H_disk.io_active = H_active0; H_disk.advise_list_depth = H_depth; H_disk.free_idx = H_free0; H_disk.req_idx = H_req0;
	for (int i = 0; i < 3; i++) { H_slot_used0[i] = ND_BOOL(); SLOT(i) = H_slot_used0[i] ? &H_old[i] : 0; H_old[i].do_targetq = &H_tq; }
	for (int i = 0; i < NOPS; i++) { H_retains[i] = H_completes[i] = 0; H_err[i] = ND(int); H_ops[i].active = 0; H_ops[i].do_targetq = &H_tq; H_ops[i].err = 0; }
	VERIF_PRE_CALL(_dispatch_disk_handler, &H_disk);
	_dispatch_disk_handler(&H_disk);
	VERIF_POST_VOID(_dispatch_disk_handler, &H_disk);
	VERIF_REACH(error_pick, H_offered >= 1 && H_err[0] != 0 && H_completes[0] == 1);
	VERIF_REACH(two_scheduled, H_offered >= 2 && H_err[0] == 0 && H_err[1] == 0 && ON_RING(1) == 1);
	VERIF_CANARY();
}
#endif
