/*VERIF
{ "tu": "src/io.c", "enforce": "_dispatch_stream_cleanup_operations", "props": ["C14"], "seq": true, "plain": true, "timeout": 300, "log_cap": 20, "cases": 24,
  "unwind": 5, "unwind_fns": ["_dispatch_stream_cleanup_operations"],
  "bounded": {"unwind": 5, "what": "<= 2 operations in total (exactly 3: b_stream_cleanup_operations_3) on the stream's two lists (each STREAM or RANDOM, each belonging to the stopped channel or to another one)"},
  "stub_note": "_dispatch_stream_complete_operation: removes the operation from its list (as the real one does) and logs it; dispatch_suspend: logged" }
VERIF*/
#ifdef VERIF_PRE
#else
#include "contracts/C14/io_common.h"
#ifndef H_NBASE
#define H_NBASE 0
#endif
#define K_COMPLETE 103
struct dispatch_stream_s H_stream; struct dispatch_operation_s H_ops[3]; struct dispatch_io_s H_other_chan; struct dispatch_source_s H_src;
unsigned H_n; _Bool H_mine[3]; _Bool H_all; _Bool H_running0;
#define SLIST (&H_stream.operations[DISPATCH_IO_STREAM])
#define RLIST (&H_stream.operations[DISPATCH_IO_RANDOM])
unsigned H_completed[3];
static void _dispatch_stream_complete_operation(dispatch_stream_t stream, dispatch_operation_t op)
{
	TAILQ_REMOVE(&stream->operations[op->params.type], op, operation_list);
	int k = op == &H_ops[0] ? 0 : op == &H_ops[1] ? 1 : 2; H_completed[k]++;
	__verif_event(K_COMPLETE, 0, op, 0, 0);
}
#define SHOULD(k) ((k) < H_n && (H_all || H_mine[k]))
#define EXPECT(k) (H_completed[k] == (SHOULD(k) ? 1u : 0u))
#define LEFT ((H_n > 0 && !SHOULD(0)) + (H_n > 1 && !SHOULD(1)) + (H_n > 2 && !SHOULD(2)))
/* stopping ONE channel completes exactly that channel's operations (all of them, stream- and random-type), each once, and
 * leaves the operations of the other channels on the same descriptor alone */
VERIF_CONTRACT_VOID(_dispatch_stream_cleanup_operations, (dispatch_stream_t stream, dispatch_io_t channel),
  REQ(stream == &H_stream && channel == (H_all ? (dispatch_io_t)0 : &H_chan) && __verif_n == 0 && H_completed[0] == 0 && H_completed[1] == 0 && H_completed[2] == 0 && H_stream.source == &H_src && H_stream.source_running == H_running0)
  ASG(VERIF_GHOST, __CPROVER_object_whole(&H_stream), __CPROVER_object_whole(H_ops), __CPROVER_object_whole(H_completed))
  ENS(log_bounded, __verif_n <= 4)
  ENS(exactly_the_stopped_channels_operations_are_completed_once_each, EXPECT(0) && EXPECT(1) && EXPECT(2))
  ENS(operations_of_other_channels_stay_queued, (LEFT == 0) == (TAILQ_EMPTY(SLIST) && TAILQ_EMPTY(RLIST)))
  ENS(descriptor_source_is_parked_when_nothing_is_left, VIMPL(H_running0 && LEFT == 0, !H_stream.source_running && __verif_n >= 1 && LOGK(__verif_n - 1) == EV_RETAIN && LOGP(__verif_n - 1) == (void *)&H_src))
  ENS(descriptor_source_keeps_running_while_operations_remain, VIMPL(H_running0 && LEFT != 0, H_stream.source_running && (__verif_n == 0 || LOGK(__verif_n - 1) != EV_RETAIN)))
)
void harness(void)
{
	VERIF_GHOST_RESET(); __verif_crash_is_bug = 1; h_io_reset();
	TAILQ_INIT(SLIST); TAILQ_INIT(RLIST);
	H_n = (VERIF_CASE / 8) % 3; H_all = VERIF_CASE % 2; unsigned tmask = (VERIF_CASE / 2) % 4;   /* one case per (number of operations 0..2, stop-one-channel / clean-all, type of each operation) */   /* one case per (number of operations 0..3, stop-one-channel / clean-all) */ H_running0 = ND_BOOL();
	H_completed[0] = H_completed[1] = H_completed[2] = 0;
	H_chan.fd = 5; H_other_chan.fd = 5;    /* two channels over the SAME descriptor share the stream */
	if (H_n > 0) { H_mine[0] = ND_BOOL(); H_ops[0].channel = H_mine[0] ? &H_chan : &H_other_chan; H_ops[0].params.type = ((tmask >> 0) & 1) ? DISPATCH_IO_STREAM : DISPATCH_IO_RANDOM; H_ops[0].timer = 0; TAILQ_INSERT_TAIL(&H_stream.operations[H_ops[0].params.type], &H_ops[0], operation_list); }
	if (H_n > 1) { H_mine[1] = ND_BOOL(); H_ops[1].channel = H_mine[1] ? &H_chan : &H_other_chan; H_ops[1].params.type = ((tmask >> 1) & 1) ? DISPATCH_IO_STREAM : DISPATCH_IO_RANDOM; H_ops[1].timer = 0; TAILQ_INSERT_TAIL(&H_stream.operations[H_ops[1].params.type], &H_ops[1], operation_list); }
	if (H_n > 2) { H_mine[2] = ND_BOOL(); H_ops[2].channel = H_mine[2] ? &H_chan : &H_other_chan; H_ops[2].params.type = ((tmask >> 2) & 1) ? DISPATCH_IO_STREAM : DISPATCH_IO_RANDOM; H_ops[2].timer = 0; TAILQ_INSERT_TAIL(&H_stream.operations[H_ops[2].params.type], &H_ops[2], operation_list); }
	H_stream.source = &H_src; H_stream.source_running = H_running0; H_stream.op = 0;
	VERIF_PRE_CALL(_dispatch_stream_cleanup_operations, &H_stream, H_all ? (dispatch_io_t)0 : &H_chan);
	_dispatch_stream_cleanup_operations(&H_stream, H_all ? (dispatch_io_t)0 : &H_chan);
	VERIF_POST_VOID(_dispatch_stream_cleanup_operations, &H_stream, H_all ? (dispatch_io_t)0 : &H_chan);
	VERIF_REACH(mixed_channels, H_n >= 2 && !H_all && H_completed[0] == 1 && H_completed[1] == 0);
	VERIF_CANARY();
}
#endif
