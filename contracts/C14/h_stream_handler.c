/*VERIF
{ "tu": "src/io.c", "enforce": "_dispatch_stream_handler", "props": ["C14"], "seq": true, "timeout": 300,
  "block_calls": ["dispatch_async"],
  "cut_goto": {"_dispatch_stream_handler": ["pick"]},
  "assumes": ["callees are replaced by logging stubs; each has its own contract: pick_next (h_stream_pick_next), perform (h_perform_read), deliver_data (h_deliver_data_*)",
              "goto pick (after completing an operation of a stopped channel) is a cut point: checked that the operation was completed with the error first"],
  "stub_note": "_dispatch_stream_pick_next_operation, _dispatch_operation_perform, _dispatch_operation_deliver_data, _dispatch_stream_complete_operation, _dispatch_stream_cleanup_operations, _dispatch_fd_entry_cleanup_operations, _dispatch_stream_source, dispatch_async_f: logged" }
VERIF*/
#ifdef VERIF_PRE
struct dispatch_queue_s; void __verif_block_begin_dispatch_async(struct dispatch_queue_s *q); void __verif_block_end(void);
void __verif_cut_backjump(void);
#else
#include "contracts/C14/io_common.h"
enum { K_PICK = 100, K_PERFORM, K_DELIVER, K_COMPLETE, K_CLEANUP, K_FDE_CLEANUP, K_ASYNC_F, K_SOURCE };
struct dispatch_stream_s H_stream; struct dispatch_source_s H_src; struct dispatch_queue_s H_sq, H_barrierq;
_Bool H_pick_null; int H_result; _Bool H_avail; unsigned H_cflags; int H_fde_err0; size_t H_total0; _Bool H_initial;
static dispatch_operation_t _dispatch_stream_pick_next_operation(dispatch_stream_t stream, dispatch_operation_t op)
{ __verif_event(K_PICK, 0, stream, (unsigned long long)(uintptr_t)op, 0); return H_pick_null ? 0 : &H_op; }
static int _dispatch_operation_perform(dispatch_operation_t op) { __verif_event(K_PERFORM, 0, op, 0, 0); return H_result; }
static void _dispatch_operation_deliver_data(dispatch_operation_t op, dispatch_op_flags_t flags) { __verif_event(K_DELIVER, 0, op, flags, 0); }
static void _dispatch_stream_complete_operation(dispatch_stream_t stream, dispatch_operation_t op) { (void)stream; __verif_event(K_COMPLETE, 0, op, (unsigned long long)op->err, 0); }
static void _dispatch_stream_cleanup_operations(dispatch_stream_t stream, dispatch_io_t channel) { (void)stream; __verif_event(K_CLEANUP, 0, channel, 0, 0); }
static void _dispatch_fd_entry_cleanup_operations(dispatch_fd_entry_t fd_entry, dispatch_io_t channel) { __verif_event(K_FDE_CLEANUP, 0, fd_entry, (unsigned long long)(uintptr_t)channel, 0); }
static dispatch_source_t _dispatch_stream_source(dispatch_stream_t stream, dispatch_operation_t op) { (void)stream; (void)op; __verif_event(K_SOURCE, 0, &H_src, 0, 0); return &H_src; }
static inline bool _dispatch_stream_operation_avail(dispatch_stream_t stream) { (void)stream; return H_avail; }
void dispatch_async_f(dispatch_queue_t q, void *ctxt, dispatch_function_t f) { (void)ctxt; (void)f; __verif_event(K_ASYNC_F, 0, q, 0, 0); }
#define GETERR ((H_cflags & (DIO_CLOSED|DIO_STOPPED)) ? ((H_cflags & DIO_STOPPED) ? ECANCELED : 0) : H_fde_err0)
/* index of the perform call in the log: pick, suspend(close_queue) [, initial delivery], perform */
#define IP (H_total0 == 0 && H_initial ? 3 : 2)
#define COMPLETED_AT(i) (LOGK(i) == K_COMPLETE && LOGP(i) == (void *)&H_op)
VERIF_CONTRACT_VOID(_dispatch_stream_handler, (void *ctx),
  REQ(ctx == &H_stream && __verif_n == 0 && H_asyncs == 0 && H_op.channel == &H_chan && H_op.fd_entry == &H_fde && H_fde.close_queue == &H_closeq && H_fde.barrier_queue == &H_barrierq && H_stream.dq == &H_sq)
  REQ(H_chan.atomic_flags == H_cflags && H_fde.err == H_fde_err0 && H_op.total == H_total0 && dispatch_io_defaults.initial_delivery == H_initial)
  ASG(VERIF_GHOST, H_stream.op, H_stream.source_running, H_op.err, H_async_q, H_asyncs)
  ENS(log_bounded, __verif_n >= 1 && __verif_n <= 12 && LOGK(0) == K_PICK)
  ENS(nothing_to_do_without_an_operation, VIMPL(H_pick_null, __verif_n == 1))
  /* normal step (channel alive): fd entry held across the whole step, one perform */
  ENS(fd_entry_is_held_across_the_step, VIMPL(!H_pick_null && GETERR == 0, LOGK(1) == EV_RETAIN && LOGP(1) == (void *)&H_closeq
        && LOGK(__verif_n - 1) == EV_RELEASE && LOGP(__verif_n - 1) == (void *)&H_closeq && LOGK(IP) == K_PERFORM && H_stream.op == &H_op))
  ENS(initial_empty_delivery_only_before_the_first_byte, VIMPL(!H_pick_null && GETERR == 0, (IP == 3) ? (LOGK(2) == K_DELIVER && LOGA(2) == DOP_DELIVER) : 1))
  /* outcome -> action */
  ENS(partial_progress_is_offered_to_the_water_mark_filter_and_not_completed, VIMPL(!H_pick_null && GETERR == 0 && H_result == DISPATCH_OP_DELIVER,
        LOGK(IP + 1) == K_DELIVER && LOGA(IP + 1) == DOP_DEFAULT && !COMPLETED_AT(IP + 2) && __verif_n == IP + 3 + (H_avail ? 1 : 0)))
  ENS(end_of_file_delivers_what_is_left_then_completes, VIMPL(!H_pick_null && GETERR == 0 && H_result == DISPATCH_OP_DELIVER_AND_COMPLETE,
        LOGK(IP + 1) == K_DELIVER && LOGA(IP + 1) == (DOP_DELIVER | DOP_NO_EMPTY) && COMPLETED_AT(IP + 2)))
  ENS(finished_operation_is_completed_exactly_once, VIMPL(!H_pick_null && GETERR == 0 && (H_result == DISPATCH_OP_COMPLETE || H_result == DISPATCH_OP_COMPLETE_RESUME),
        COMPLETED_AT(IP + 1) && !COMPLETED_AT(IP + 2) && LOGK(IP + 2) != K_DELIVER))
  ENS(would_block_keeps_the_operation_current, VIMPL(!H_pick_null && GETERR == 0 && H_result == DISPATCH_OP_RESUME, !COMPLETED_AT(IP + 1) && LOGK(IP + 1) != K_DELIVER))
  ENS(waiting_for_the_descriptor_resumes_the_source_only_if_operations_remain, VIMPL(!H_pick_null && GETERR == 0 && (H_result == DISPATCH_OP_RESUME || H_result == DISPATCH_OP_COMPLETE_RESUME),
        H_avail ? (H_stream.source_running && LOGK(__verif_n - 2) == EV_RELEASE && LOGP(__verif_n - 2) == (void *)&H_src) : (LOGK(__verif_n - 2) != EV_RELEASE)))
  ENS(cancelled_operation_takes_down_the_channels_operations, VIMPL(!H_pick_null && GETERR == 0 && H_result == DISPATCH_OP_ERR, LOGK(IP + 1) == K_CLEANUP && LOGP(IP + 1) == (void *)&H_chan))
  ENS(bad_descriptor_cleans_up_on_the_barrier_queue_holding_the_fd_entry, VIMPL(!H_pick_null && GETERR == 0 && H_result == DISPATCH_OP_FD_ERR,
        H_asyncs == 1 && H_async_q == &H_barrierq && LOGK(IP + 1) == EV_RETAIN && LOGP(IP + 1) == (void *)&H_closeq && LOGK(IP + 2) == K_FDE_CLEANUP && LOGK(IP + 3) == EV_RELEASE))
)
void __verif_cut_backjump(void)
{
	/* channel stopped / descriptor failed: the operation is completed with that error, WITHOUT any transfer or delivery here */
	VERIF_ASSERT(operation_of_a_stopped_channel_is_completed_with_the_error_and_no_transfer, !H_pick_null && GETERR != 0 && H_op.err == GETERR
		&& __verif_n == 2 && LOGK(1) == K_COMPLETE && LOGP(1) == (void *)&H_op && LOGA(1) == (unsigned long long)GETERR);
	__CPROVER_assume(0);
}
void harness(void)
{
	VERIF_GHOST_RESET(); __verif_crash_is_bug = 1; h_io_reset();
	H_pick_null = ND_BOOL(); H_result = ND(int); H_avail = ND_BOOL(); H_cflags = ND(unsigned) & 3; H_fde_err0 = ND(int); H_total0 = ND(size_t); H_initial = ND_BOOL();
	H_op.channel = &H_chan; H_op.fd_entry = &H_fde; H_fde.close_queue = &H_closeq; H_fde.barrier_queue = &H_barrierq; H_stream.dq = &H_sq;
	H_chan.atomic_flags = H_cflags; H_fde.err = H_fde_err0; H_op.total = H_total0; dispatch_io_defaults.initial_delivery = H_initial;
	H_stream.op = ND_BOOL() ? &H_op : 0; H_op.err = ND(int);
	_dispatch_stream_handler(&H_stream);
	VERIF_POST_VOID(_dispatch_stream_handler, &H_stream);
	VERIF_REACH(eof_path, !(H_result == DISPATCH_OP_DELIVER_AND_COMPLETE && !H_pick_null && GETERR == 0));
	VERIF_CANARY();
}
#endif
