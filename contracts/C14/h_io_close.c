/*VERIF
{ "tu": "src/io.c", "enforce": "dispatch_io_close", "props": ["C14"], "nondet_volatile": true, "timeout": 300, "log_cap": 20,
  "block_calls": ["dispatch_async"], "cppflags": ["-DH_LOG_ASYNC=1"],
  "assumes": ["posted blocks are evaluated where they are created, in nesting order (each runs once, later, on its queue: C02)",
              "rely: other threads only ever ADD the closed / stopped bits to atomic_flags"],
  "stub_note": "_dispatch_fd_entry_cleanup_operations: logged; _dispatch_retain/_dispatch_release/dispatch_resume: logged" }
VERIF*/
#ifdef VERIF_PRE
struct dispatch_queue_s; void __verif_block_begin_dispatch_async(struct dispatch_queue_s *q); void __verif_block_end(void);
#define __VERIF_RELY(p, v) (((unsigned long long)(v) & ~3ull) == 0)
/* guarantee: close / stop only ever OR one of the two bits into the flags (they are never cleared: a closed channel stays closed) */
#define __VERIF_GUARANTEE(p, ov, nv, mo) (((nv) & (ov)) == (ov) && ((nv) == ((ov) | 1ull) || (nv) == ((ov) | 2ull)))
#else
#include "contracts/C14/io_common.h"
#define K_FDE_CLEANUP 105
struct dispatch_queue_s H_chanq, H_barrierq;
static void _dispatch_fd_entry_cleanup_operations(dispatch_fd_entry_t fd_entry, dispatch_io_t channel) { __verif_event(K_FDE_CLEANUP, 0, fd_entry, (unsigned long long)(uintptr_t)channel, 0); }
unsigned long H_flags; _Bool H_has_fde; unsigned H_f0;
#define H_releases_closeq ((LOGK(4) == EV_RELEASE && LOGP(4) == (void *)&H_closeq) + (LOGK(5) == EV_RELEASE && LOGP(5) == (void *)&H_closeq))
#define FLAGS_P ((const volatile void *)&H_chan.atomic_flags)
VERIF_CONTRACT_VOID(dispatch_io_close, (dispatch_io_t channel, unsigned long flags),
  REQ(channel == &H_chan && __verif_n == 0 && H_chan.atomic_flags == H_f0 && H_f0 <= 3 && H_asyncs == 0 && H_chan.fd_entry == (H_has_fde ? &H_fde : 0) && H_fde.path_data == 0 && H_fde.close_queue == &H_closeq && flags == H_flags && H_chan.queue == &H_chanq && H_chan.barrier_queue == &H_barrierq && H_chan.fd == -1)
  ASG(VERIF_GHOST, IO_GHOST, H_async_q, H_asyncs, H_chan.atomic_flags, H_chan.fd_entry, H_fde.path_data)
  ENS(log_bounded, __verif_n <= 14)
  /* stopping a stopped channel, closing a closed or stopped one: nothing happens (idempotent) */
  ENS(repeated_stop_or_close_is_a_no_op, VIMPL((H_flags & DISPATCH_IO_STOP) ? (H_f0 & DIO_STOPPED) : (H_f0 & (DIO_CLOSED|DIO_STOPPED)), __verif_n == 0 && H_asyncs == 0 && H_chan.fd_entry == (H_has_fde ? &H_fde : 0)))
  /* stop: the stopped mark is published IMMEDIATELY (before anything is queued), so every operation step that looks at the
   * channel from now on sees ECANCELED (h_perform_read, h_stream_handler, h_operation_enqueue) */
  ENS(stop_marks_the_channel_before_queueing_the_cleanup, VIMPL((H_flags & DISPATCH_IO_STOP) && !(H_f0 & DIO_STOPPED),
        IS_COMMIT(0, FLAGS_P) && LOGB(0) == (LOGA(0) | DIO_STOPPED) && LOGK(1) == EV_RETAIN && LOGP(1) == (void *)&H_chan
        && LOGK(2) == K_ASYNC && LOGP(2) == (void *)&H_chanq && LOGK(3) == K_ASYNC && LOGP(3) == (void *)&H_barrierq))
  /* the in-flight operations of THIS channel are cancelled from the barrier queue, i.e. ordered with operation starts */
  ENS(stop_cancels_this_channels_operations_on_the_barrier_queue, VIMPL((H_flags & DISPATCH_IO_STOP) && !(H_f0 & DIO_STOPPED) && H_has_fde,
        LOGK(4) == K_FDE_CLEANUP && LOGP(4) == (void *)&H_fde && LOGA(4) == (unsigned long long)(uintptr_t)&H_chan))
  /* close: the closed mark is set on the barrier queue -- behind every operation submitted before the close -- and only once */
  ENS(close_marks_the_channel_on_the_barrier_queue_behind_earlier_operations, VIMPL(!(H_flags & DISPATCH_IO_STOP) && !(H_f0 & (DIO_CLOSED|DIO_STOPPED)),
        LOGK(0) == EV_RETAIN && LOGP(0) == (void *)&H_chan && LOGK(1) == K_ASYNC && LOGP(1) == (void *)&H_chanq && LOGK(2) == K_ASYNC && LOGP(2) == (void *)&H_barrierq
        && IS_COMMIT(3, FLAGS_P) && LOGB(3) == (LOGA(3) | DIO_CLOSED)))
  /* the channel lets go of its fd entry exactly once (the cleanup handler can run once every other hold is gone) */
  ENS(channel_drops_its_hold_on_the_fd_entry_exactly_once, VIMPL(H_asyncs == 2 && H_has_fde && (!(H_flags & DISPATCH_IO_STOP) || !(LOGB(0) & DIO_CLOSED)),
        H_chan.fd_entry == 0 && H_releases_closeq == 1))
  /* stop of a channel that is (being) closed: the closer dropped / drops the fd entry, the stop must not do it again */
  ENS(stop_after_close_does_not_drop_the_fd_entry_again, VIMPL(H_asyncs == 2 && (H_flags & DISPATCH_IO_STOP) && (LOGB(0) & DIO_CLOSED), H_releases_closeq == 0 && H_chan.fd_entry == (H_has_fde ? &H_fde : 0)))
  ENS(posted_work_releases_the_channel_reference_it_holds, VIMPL(H_asyncs == 2, LOGK(__verif_n - 3) == EV_RELEASE && LOGP(__verif_n - 3) == (void *)&H_chan && LOGK(__verif_n - 1) == K_ASYNC_END))
)
void harness(void)
{
	VERIF_GHOST_RESET(); __verif_crash_is_bug = 1; h_io_reset();
	H_flags = ND(unsigned long); H_has_fde = ND_BOOL();
	H_chan.queue = &H_chanq; H_chan.barrier_queue = &H_barrierq; H_chan.fd = -1; H_chan.fd_entry = H_has_fde ? &H_fde : 0; H_fde.path_data = 0; H_fde.close_queue = &H_closeq;
	H_f0 = ND(unsigned) & 3; H_chan.atomic_flags = H_f0;
	dispatch_io_close(&H_chan, H_flags);
	VERIF_POST_VOID(dispatch_io_close, &H_chan, H_flags);
	VERIF_CANARY();
}
#endif
