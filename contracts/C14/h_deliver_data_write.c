/*VERIF
{ "tu": "src/io.c", "enforce": "_dispatch_operation_deliver_data", "props": ["C14"], "seq": true, "timeout": 300,
  "block_calls": ["dispatch_async"],
  "assumes": ["data API (subrange / size) replaced by stubs implementing its contract over positions in the submitted data (C13)",
              "the handler block posted with dispatch_async is evaluated at the point of creation (by-value captures)"],
  "stub_note": "dispatch_data_*: range model; _dispatch_retain/_dispatch_release/dispatch_resume/dispatch_suspend: logged; handler: recorded" }
VERIF*/
#ifdef VERIF_PRE
struct dispatch_queue_s; void __verif_block_begin_dispatch_async(struct dispatch_queue_s *q); void __verif_block_end(void);
#else
#include "contracts/C14/io_common.h"
/* pre-state of a WRITE operation between two steps: L bytes were submitted; op->data denotes the not yet trimmed rest
 * [W, L); the mapped buffer is its first buf_siz bytes [W, W+buf_siz), of which buf_len have reached the descriptor;
 * op->total == W + buf_len. */
size_t H_W, H_L, H_BL, H_BS, H_UD, H_low; dispatch_op_flags_t H_opflags0; int H_err0; unsigned H_stopped; void *H_buf0; dispatch_data_t H_data0, H_bufdata0;
#define UNDELIV (H_UD + H_BL)
#define FORCED(flags) (((flags) & (DOP_DELIVER|DOP_DONE)) || (H_opflags0 & DOP_DELIVER))
#define SHOULD_DELIVER(flags) (FORCED(flags) || UNDELIV >= H_low)
#define EARLY_RETURN(flags) (!SHOULD_DELIVER(flags) && H_BL < H_BS)
#define REST_SIZE (H_L - (H_W + H_BL))      /* bytes not yet written */
#define SUPPRESSED(flags) (((flags) & DOP_NO_EMPTY) && REST_SIZE == 0)
#define DELIVERED(flags) (SHOULD_DELIVER(flags) && !SUPPRESSED(flags))
#define ERR_OUT(flags) (FORCED(flags) ? (H_err0 ? H_err0 : (H_stopped ? ECANCELED : 0)) : 0)
#define BUFFER_USED_UP (H_bufdata0 != 0 && H_BL == H_BS)
VERIF_CONTRACT_VOID(_dispatch_operation_deliver_data, (dispatch_operation_t op, dispatch_op_flags_t flags),
  REQ(_dispatch_data_empty.size == 0)
  REQ(op == &H_op && __verif_n == 0 && H_calls == 0 && H_asyncs == 0 && !H_order_broken && !H_pool_exhausted && H_creates == 0)
  REQ(op->direction == DOP_DIR_WRITE && H_HANDLER_IS(op->handler) && op->channel == &H_chan && op->fd_entry == &H_fde && op->op_q == &H_opq && H_fde.close_queue == &H_closeq)
  REQ(op->params.low == H_low && op->flags == H_opflags0 && op->err == H_err0 && (H_chan.atomic_flags & DIO_STOPPED) == (H_stopped ? DIO_STOPPED : 0))
  REQ(H_W <= H_L && H_L <= (1ull << 40) && op->length == H_L && op->data == H_data0 && H_data0->size == H_L - H_W && (H_L == H_W || h_dlo(H_data0) == H_W))
  REQ(op->buf_siz == H_BS && op->buf_len == H_BL && H_BL <= H_BS && H_BS <= H_L - H_W && op->buf_data == H_bufdata0 && op->buf == H_buf0 && op->total == H_W + H_BL)
  REQ((H_bufdata0 == 0) == (H_BS == 0 || H_buf0 == 0) && (H_bufdata0 == 0 ? H_BL == 0 : (H_bufdata0->size == H_BS && H_BS > 0 && h_didx(H_bufdata0) >= 0)))
  REQ(op->undelivered == H_UD && H_UD <= (1ull << 40) && flags <= 15)
  ASG(VERIF_GHOST, IO_GHOST, H_op.flags, H_op.err, H_op.buf, H_op.buf_len, H_op.buf_data, H_op.data, H_op.undelivered, H_async_q, H_asyncs)
  ENS(log_bounded, __verif_n <= 8 && H_calls <= 2 && !H_pool_exhausted)
  ENS(below_low_water_with_room_nothing_happens, VIMPL(EARLY_RETURN(flags), H_calls == 0 && H_asyncs == 0 && op->buf_len == H_BL && op->buf == H_buf0 && op->data == H_data0 && op->buf_data == H_bufdata0 && op->undelivered == H_UD))
  ENS(handler_posted_iff_delivery_due, EARLY_RETURN(flags) || ((H_asyncs == 1) == DELIVERED(flags) && (H_asyncs == 0) == !DELIVERED(flags)))
  ENS(handler_posted_on_the_operations_queue, VIMPL(H_asyncs == 1, H_async_q == &H_opq))
  /* what the handler is told is unwritten is exactly the submitted data after the bytes that reached the descriptor */
  ENS(reported_unwritten_data_is_exactly_the_rest_of_the_submitted_data, VIMPL(DELIVERED(flags) && !((flags & DOP_DONE) && !ERR_OUT(flags)),
        H_calls == 1 && !H_call[0].null && H_call[0].size == REST_SIZE && (REST_SIZE == 0 || H_call[0].lo == H_W + H_BL) && H_call[0].err == ERR_OUT(flags)))
  /* a write that completed without error reports no data at all */
  ENS(successful_final_delivery_reports_no_data, VIMPL(DELIVERED(flags) && (flags & DOP_DONE) && !ERR_OUT(flags), H_calls == 1 && H_call[0].null && H_call[0].done && H_call[0].err == 0))
  ENS(done_exactly_on_the_last_invocation_of_the_final_delivery, VIMPL(H_calls >= 1, H_calls == 1 && H_call[0].done == ((flags & DOP_DONE) != 0)))
  /* once the mapped buffer is written completely it is dropped and trimmed from the head of the remaining data: the
   * operation keeps exactly the bytes after it, nothing is skipped and nothing is kept twice */
  ENS(written_buffer_is_trimmed_from_the_head_exactly, VIMPL(!EARLY_RETURN(flags) && BUFFER_USED_UP,
        op->buf_data == 0 && op->buf == 0 && op->buf_len == 0 && op->data->size == H_L - (H_W + H_BS) && (op->data->size == 0 || h_dlo(op->data) == H_W + H_BS)
        && H_drc[h_didx(H_bufdata0)] == 0))
  ENS(partly_written_buffer_is_kept, VIMPL(!EARLY_RETURN(flags) && !BUFFER_USED_UP, op->buf_data == H_bufdata0 && op->buf == H_buf0 && op->buf_len == H_BL && op->data == H_data0))
  /* position bookkeeping stays consistent: first byte of the kept data + bytes of it already written == total written */
  ENS(kept_data_starts_where_the_descriptor_stopped, op->data->size == 0 || h_dlo(op->data) + op->buf_len == H_W + H_BL)
  ENS(undelivered_accounting, EARLY_RETURN(flags) || op->undelivered == (DELIVERED(flags) ? 0 : UNDELIV))
  ENS(stopped_channel_reports_ecanceled, VIMPL(DELIVERED(flags) && H_stopped && !H_err0 && FORCED(flags), H_call[0].err == ECANCELED && op->err == ECANCELED))
  ENS(channel_and_fd_entry_held_until_after_the_handler, VIMPL(H_calls >= 1,
        LOGK(0) == EV_RETAIN && LOGP(0) == (void *)&H_closeq && LOGK(1) == EV_RETAIN && LOGP(1) == (void *)&H_chan
        && __verif_n == 5 && LOGK(2) == EV_CALLOUT && LOGK(3) == EV_RELEASE && LOGP(3) == (void *)&H_chan && LOGK(4) == EV_RELEASE && LOGP(4) == (void *)&H_closeq))
  ENS(no_delivery_no_references, VIMPL(H_calls == 0, __verif_n == 0))
)
void harness(void)
{
	VERIF_GHOST_RESET(); __verif_crash_is_bug = 1; h_io_reset(); _dispatch_data_empty.size = 0;
	H_W = ND(size_t); H_L = ND(size_t); H_BL = ND(size_t); H_BS = ND(size_t); H_UD = ND(size_t); H_low = ND(size_t);
	H_opflags0 = ND(dispatch_op_flags_t); H_err0 = ND(int); H_stopped = ND_BOOL();
	__CPROVER_assume(H_W <= H_L && H_L <= (1ull << 40) && H_BS <= H_L - H_W && H_BL <= H_BS && H_UD <= (1ull << 40));
	H_op.direction = DOP_DIR_WRITE; H_op.handler = H_HANDLER; H_op.channel = &H_chan; H_op.fd_entry = &H_fde; H_op.op_q = &H_opq; H_fde.close_queue = &H_closeq;
	H_op.params.low = H_low; H_op.params.high = ND(size_t); H_op.flags = H_opflags0; H_op.err = H_err0;
	H_chan.atomic_flags = (H_stopped ? DIO_STOPPED : 0) | (ND_BOOL() ? DIO_CLOSED : 0);
	H_op.length = H_L; H_op.buf_siz = H_BS; H_op.buf_len = H_BL; H_op.total = H_W + H_BL; H_op.undelivered = H_UD;
	H_data0 = h_dnew(H_W, H_L - H_W); H_op.data = H_data0;
	static char bufobj[8];
	if (H_BS > 0 && ND_BOOL()) { H_bufdata0 = h_dnew(H_W, H_BS); H_buf0 = bufobj; } else { H_bufdata0 = 0; H_buf0 = 0; __CPROVER_assume(H_BL == 0); }
	H_op.buf_data = H_bufdata0; H_op.buf = H_buf0;
	dispatch_op_flags_t flags = ND(dispatch_op_flags_t); __CPROVER_assume(flags <= 15);
	_dispatch_operation_deliver_data(&H_op, flags);
	VERIF_POST_VOID(_dispatch_operation_deliver_data, &H_op, flags);
	VERIF_REACH(partial_write_reported, !(H_calls == 1 && !H_call[0].null && H_call[0].size > 0 && H_BL > 0));
	VERIF_REACH(buffer_trimmed_without_delivery, !(H_calls == 0 && H_op.buf_data == 0 && H_bufdata0 != 0));
	VERIF_CANARY();
}
#endif
