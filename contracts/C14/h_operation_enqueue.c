/*VERIF
{ "tu": "src/io.c", "enforce": "_dispatch_operation_enqueue", "props": ["C14"], "seq": true, "timeout": 300, "log_cap": 20,
  "block_calls": ["dispatch_async"], "cppflags": ["-DH_LOG_ASYNC=1"],
  "assumes": ["posted blocks are evaluated where they are created (by-value captures); that each runs once, later, on its queue is the queue's contract (C02)"],
  "stub_note": "_dispatch_stream_enqueue_operation, _dispatch_disk_enqueue_operation, dispatch_group_enter, _dispatch_release, dispatch_suspend: logged; handler: recorded" }
VERIF*/
#ifdef VERIF_PRE
struct dispatch_queue_s; void __verif_block_begin_dispatch_async(struct dispatch_queue_s *q); void __verif_block_end(void);
#else
#include "contracts/C14/io_common.h"
enum { K_STREAM_ENQ = 100, K_DISK_ENQ, K_GROUP_ENTER };
struct dispatch_stream_s H_stream[2]; struct dispatch_queue_s H_sq[2], H_pickq; struct dispatch_disk_s H_disk; struct dispatch_group_s H_bgroup;
static void _dispatch_stream_enqueue_operation(dispatch_stream_t stream, dispatch_operation_t op, dispatch_data_t data) { (void)data; __verif_event(K_STREAM_ENQ, 0, stream, (unsigned long long)(uintptr_t)op, 0); }
static void _dispatch_disk_enqueue_operation(dispatch_disk_t disk, dispatch_operation_t op, dispatch_data_t data) { (void)data; __verif_event(K_DISK_ENQ, 0, disk, (unsigned long long)(uintptr_t)op, 0); }
void dispatch_group_enter(dispatch_group_t g) { __verif_event(K_GROUP_ENTER, 0, g, 0, 0); }
unsigned H_cflags; int H_chan_err; _Bool H_has_disk; dispatch_data_t H_data;
#define GETERR ((H_cflags & (DIO_CLOSED|DIO_STOPPED)) ? ECANCELED : H_chan_err)
VERIF_CONTRACT_VOID(_dispatch_operation_enqueue, (dispatch_operation_t op, dispatch_op_direction_t direction, dispatch_data_t data),
  REQ(_dispatch_data_empty.size == 0)
  REQ(op == &H_op && __verif_n == 0 && H_calls == 0 && data == H_data && (direction == DOP_DIR_READ || direction == DOP_DIR_WRITE) && H_HANDLER_IS(op->handler) && op->op_q == &H_opq)
  REQ(op->channel == &H_chan && H_chan.atomic_flags == H_cflags && H_chan.err == H_chan_err && H_chan.fd_entry == &H_fde && H_fde.barrier_group == &H_bgroup && H_fde.close_queue == &H_closeq)
  REQ(H_fde.disk == (H_has_disk ? &H_disk : 0) && H_disk.pick_queue == &H_pickq && H_fde.streams[0] == &H_stream[0] && H_fde.streams[1] == &H_stream[1] && H_stream[0].dq == &H_sq[0] && H_stream[1].dq == &H_sq[1])
  ASG(VERIF_GHOST, IO_GHOST, H_op.fd_entry, H_async_q, H_asyncs)
  ENS(log_bounded, __verif_n >= 3 && __verif_n <= 8)
  /* closed or stopped channel (or failed channel): the handler is invoked exactly once, done, with ECANCELED (resp. the
   * channel's error), on the operation's queue; a read reports no data, a write reports all of its data as unwritten;
   * the operation never reaches the descriptor */
  ENS(closed_channel_completes_the_operation_immediately_with_ecanceled, VIMPL(GETERR != 0,
        H_calls == 1 && H_call[0].done && H_call[0].err == GETERR && H_asyncs == 1 && H_async_q == &H_opq && op->fd_entry == 0
        && (direction == DOP_DIR_READ ? H_call[0].null : (!H_call[0].null && H_call[0].size == H_data->size))))
  ENS(closed_means_ecanceled, VIMPL(H_cflags & (DIO_CLOSED|DIO_STOPPED), H_calls == 1 && H_call[0].err == ECANCELED))
  ENS(rejected_operation_is_released_exactly_once, VIMPL(GETERR != 0, LOGK(__verif_n - 1) == EV_RELEASE && LOGP(__verif_n - 1) == (void *)&H_op && LOGK(0) == K_ASYNC && LOGK(1) == EV_CALLOUT))
  /* open channel: the operation takes a hold on the fd entry (cleanup handler held back) and ENTERS THE BARRIER GROUP
   * before it is handed to the stream / disk queue -- a barrier submitted later waits for it */
  ENS(accepted_operation_holds_fd_entry_and_enters_barrier_group_first, VIMPL(GETERR == 0,
        H_calls == 0 && op->fd_entry == &H_fde && LOGK(0) == EV_RETAIN && LOGP(0) == (void *)&H_closeq && LOGK(1) == K_GROUP_ENTER && LOGP(1) == (void *)&H_bgroup && LOGK(2) == K_ASYNC))
  ENS(accepted_operation_is_queued_once_on_the_stream_of_its_direction, VIMPL(GETERR == 0 && !H_has_disk,
        H_asyncs == 1 && H_async_q == &H_sq[direction] && LOGK(3) == K_STREAM_ENQ && LOGP(3) == (void *)&H_stream[direction] && LOGA(3) == (unsigned long long)(uintptr_t)&H_op && __verif_n == 5))
  ENS(disk_backed_operation_is_queued_once_on_the_pick_queue, VIMPL(GETERR == 0 && H_has_disk,
        H_asyncs == 1 && H_async_q == &H_pickq && LOGK(3) == K_DISK_ENQ && LOGA(3) == (unsigned long long)(uintptr_t)&H_op && __verif_n == 5))
  /* the submitted data stays referenced for exactly as long as the posted block needs it */
  ENS(data_reference_is_balanced, h_didx(H_data) < 0 || H_drc[h_didx(H_data)] == 1)
)
void harness(void)
{
	VERIF_GHOST_RESET(); __verif_crash_is_bug = 1; h_io_reset(); _dispatch_data_empty.size = 0;
	H_cflags = ND(unsigned) & 3; H_chan_err = ND(int); H_has_disk = ND_BOOL();
	H_op.handler = H_HANDLER; H_op.op_q = &H_opq; H_op.channel = &H_chan; H_op.fd_entry = 0;
	H_chan.atomic_flags = H_cflags; H_chan.err = H_chan_err; H_chan.fd_entry = &H_fde; H_fde.barrier_group = &H_bgroup; H_fde.close_queue = &H_closeq;
	H_fde.disk = H_has_disk ? &H_disk : 0; H_disk.pick_queue = &H_pickq; H_fde.streams[0] = &H_stream[0]; H_fde.streams[1] = &H_stream[1]; H_stream[0].dq = &H_sq[0]; H_stream[1].dq = &H_sq[1];
	H_data = h_dnew(0, ND(size_t));
	dispatch_op_direction_t dir = ND_BOOL() ? DOP_DIR_READ : DOP_DIR_WRITE;
	_dispatch_operation_enqueue(&H_op, dir, H_data);
	VERIF_POST_VOID(_dispatch_operation_enqueue, &H_op, dir, H_data);
	VERIF_CANARY();
}
#endif
