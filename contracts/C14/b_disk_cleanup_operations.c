/*VERIF
{ "tu": "src/io.c", "enforce": "_dispatch_disk_cleanup_specified_operations", "props": ["C14"], "seq": true, "plain": true, "timeout": 300, "log_cap": 20, "cases": 8,
  "unwind": 5, "unwind_fns": ["_dispatch_disk_cleanup_specified_operations"],
  "bounded": {"unwind": 5, "what": "<= 3 operations on the disk's list (each belonging to the stopped channel or to another one, each active - its I/O in flight - or not); case = (number of operations 0..3) x (all operations / inactive ones only)"},
  "stub_note": "_dispatch_disk_complete_operation: removes the operation from the list (as the real one does: b_disk_complete_operation) and logs it" }
VERIF*/
#ifdef VERIF_PRE
#else
#include "contracts/C14/io_common.h"
#define K_COMPLETE 103
struct dispatch_disk_s H_disk; struct dispatch_operation_s H_ops[3]; struct dispatch_io_s H_other_chan;
unsigned H_n; _Bool H_mine[3], H_active[3]; _Bool H_all, H_inactive_only; unsigned H_completed[3];
static void _dispatch_disk_complete_operation(dispatch_disk_t disk, dispatch_operation_t op)
{
	TAILQ_REMOVE(&disk->operations, op, operation_list);
	int k = op == &H_ops[0] ? 0 : op == &H_ops[1] ? 1 : 2; H_completed[k]++;
	__verif_event(K_COMPLETE, 0, op, 0, 0);
}
#define SHOULD(k) ((k) < H_n && (H_all || H_mine[k]) && !(H_inactive_only && H_active[k]))
#define EXPECT(k) (H_completed[k] == (SHOULD(k) ? 1u : 0u))
#define LEFT ((H_n > 0 && !SHOULD(0)) + (H_n > 1 && !SHOULD(1)) + (H_n > 2 && !SHOULD(2)))
/* stopping ONE channel completes exactly that channel's operations on the disk, each once, in list order, and leaves the operations of other channels on the same
 * device alone; the "inactive only" form (used while a transfer is in flight) additionally spares operations whose I/O is running: they complete when it returns */
VERIF_CONTRACT_VOID(_dispatch_disk_cleanup_specified_operations, (dispatch_disk_t disk, dispatch_io_t channel, bool inactive_only),
  REQ(disk == &H_disk && channel == (H_all ? (dispatch_io_t)0 : &H_chan) && inactive_only == H_inactive_only && __verif_n == 0 && H_completed[0] == 0 && H_completed[1] == 0 && H_completed[2] == 0)
  ASG(VERIF_GHOST, __CPROVER_object_whole(&H_disk), __CPROVER_object_whole(H_ops), __CPROVER_object_whole(H_completed))
  ENS(log_bounded, __verif_n <= 3)
  ENS(exactly_the_stopped_channels_eligible_operations_are_completed_once_each, EXPECT(0) && EXPECT(1) && EXPECT(2))
  ENS(other_operations_stay_queued, (LEFT == 0) == TAILQ_EMPTY(&H_disk.operations))
  ENS(completed_in_list_order, (__verif_n < 2 || (uintptr_t)LOGP(0) < (uintptr_t)LOGP(1)) && (__verif_n < 3 || (uintptr_t)LOGP(1) < (uintptr_t)LOGP(2)))
)
void harness(void)
{
	VERIF_GHOST_RESET(); __verif_crash_is_bug = 1; h_io_reset();
	TAILQ_INIT(&H_disk.operations);
	H_n = VERIF_CASE % 4; H_inactive_only = (VERIF_CASE / 4) % 2; H_all = ND_BOOL();
	H_completed[0] = H_completed[1] = H_completed[2] = 0;
	if (H_n > 0) { H_mine[0] = ND_BOOL(); H_active[0] = ND_BOOL(); H_ops[0].channel = H_mine[0] ? &H_chan : &H_other_chan; H_ops[0].active = H_active[0]; TAILQ_INSERT_TAIL(&H_disk.operations, &H_ops[0], operation_list); }
	if (H_n > 1) { H_mine[1] = ND_BOOL(); H_active[1] = ND_BOOL(); H_ops[1].channel = H_mine[1] ? &H_chan : &H_other_chan; H_ops[1].active = H_active[1]; TAILQ_INSERT_TAIL(&H_disk.operations, &H_ops[1], operation_list); }
	if (H_n > 2) { H_mine[2] = ND_BOOL(); H_active[2] = ND_BOOL(); H_ops[2].channel = H_mine[2] ? &H_chan : &H_other_chan; H_ops[2].active = H_active[2]; TAILQ_INSERT_TAIL(&H_disk.operations, &H_ops[2], operation_list); }
	VERIF_PRE_CALL(_dispatch_disk_cleanup_specified_operations, &H_disk, H_all ? (dispatch_io_t)0 : &H_chan, H_inactive_only);
	_dispatch_disk_cleanup_specified_operations(&H_disk, H_all ? (dispatch_io_t)0 : &H_chan, H_inactive_only);
	VERIF_POST_VOID(_dispatch_disk_cleanup_specified_operations, &H_disk, H_all ? (dispatch_io_t)0 : &H_chan, H_inactive_only);
	VERIF_REACH(mixed, H_n >= 2 && !H_all && H_completed[0] == 1 && H_completed[1] == 0);
	VERIF_CANARY();
}
#endif
