/*VERIF
{ "tu": "src/io.c", "enforce": "_dispatch_disk_complete_operation", "props": ["C14", "C17"], "seq": true, "plain": true, "timeout": 300,
  "bounded": {"what": "list shapes: the operation has at most one neighbour before and one after it on the device list, and at most one successor on its file's stream list (TAILQ_REMOVE / INSERT_TAIL only touch the neighbours and the list head)"},
  "assumes": ["runs on the disk's pick queue; a STREAM operation that is completed is the head of its file's stream list (only heads are on the device list: b_disk_enqueue_operation)"],
  "stub_note": "dispatch_source_cancel, _dispatch_release: recorded" }
VERIF*/
#ifdef VERIF_PRE
#else
struct dispatch_disk_s H_disk; struct dispatch_operation_s H_op, H_P, H_N, H_S; struct dispatch_fd_entry_s H_fde; struct dispatch_source_s H_timer;
_Bool H_hasP, H_hasN, H_hasS, H_stream, H_has_timer, H_bad; int H_cur; unsigned H_releases, H_cancels;   /* H_cur: 0 none, 1 the operation, 2 P, 3 N */
void dispatch_source_cancel(dispatch_source_t ds) { if (ds != &H_timer) H_bad = 1; H_cancels++; }
static inline void _dispatch_release(dispatch_object_t dou) { if (dou._do != (void *)&H_op) H_bad = 1; H_releases++; }
#define L (&H_disk.operations)
#define PROMOTED (H_stream && H_hasS)
#define FIRST_AFTER (H_hasP ? &H_P : H_hasN ? &H_N : PROMOTED ? &H_S : (dispatch_operation_t)0)
#define LAST_BEFORE_S (H_hasN ? &H_N : H_hasP ? &H_P : (dispatch_operation_t)0)
VERIF_CONTRACT_VOID(_dispatch_disk_complete_operation, (dispatch_disk_t disk, dispatch_operation_t op),
  REQ(disk == &H_disk && op == &H_op && !H_bad && H_releases == 0 && H_cancels == 0 && H_op.fd_entry == &H_fde && H_op.params.type == (H_stream ? DISPATCH_IO_STREAM : DISPATCH_IO_RANDOM) && H_op.timer == (H_has_timer ? &H_timer : 0))
  REQ(L->tq_first == (H_hasP ? &H_P : &H_op) && L->tq_last == (H_hasN ? &H_N : &H_op) && H_op.operation_list.te_prev == (H_hasP ? &H_P : 0) && H_op.operation_list.te_next == (H_hasN ? &H_N : 0))
  REQ(H_P.operation_list.te_prev == 0 && H_P.operation_list.te_next == &H_op && H_N.operation_list.te_prev == &H_op && H_N.operation_list.te_next == 0)
  REQ(H_fde.stream_ops.tq_first == (H_stream ? &H_op : 0) && H_fde.stream_ops.tq_last == (H_stream ? (H_hasS ? &H_S : &H_op) : 0) && H_op.stream_list.te_prev == 0 && H_op.stream_list.te_next == ((H_stream && H_hasS) ? &H_S : 0) && H_S.stream_list.te_prev == &H_op && H_S.stream_list.te_next == 0)
  REQ(H_disk.cur_rq == (H_cur == 1 ? &H_op : H_cur == 2 ? &H_P : H_cur == 3 ? &H_N : (dispatch_operation_t)0) && H_cur >= 0 && H_cur <= 3 && (H_cur != 2 || H_hasP) && (H_cur != 3 || H_hasN))
  ASG(__CPROVER_object_whole(&H_disk), __CPROVER_object_whole(&H_op), __CPROVER_object_whole(&H_P), __CPROVER_object_whole(&H_N), __CPROVER_object_whole(&H_S), __CPROVER_object_whole(&H_fde), H_releases, H_cancels, H_bad)
  /* the completed operation leaves the device list, its neighbours are linked to each other, and the head / tail of the list stay right */
  ENS(the_operation_is_unlinked_from_the_device_list, L->tq_first == FIRST_AFTER && VIMPL(H_hasP, H_P.operation_list.te_next == (H_hasN ? &H_N : PROMOTED ? &H_S : 0)) && VIMPL(H_hasN, H_N.operation_list.te_prev == (H_hasP ? &H_P : 0)))
  /* stream operations of one file complete in submission order: when the head completes, its successor (and only then) becomes visible to the device scheduler,
   * at the tail of the device list */
  ENS(the_next_stream_operation_of_the_file_is_promoted_to_the_device_list_tail, VIMPL(PROMOTED, L->tq_last == &H_S && H_S.operation_list.te_next == 0 && H_S.operation_list.te_prev == LAST_BEFORE_S && H_fde.stream_ops.tq_first == &H_S && H_S.stream_list.te_prev == 0))
  ENS(without_a_successor_the_tail_is_the_remaining_neighbour, VIMPL(!PROMOTED, L->tq_last == LAST_BEFORE_S) && VIMPL(H_stream && !H_hasS, H_fde.stream_ops.tq_first == 0 && H_fde.stream_ops.tq_last == 0))
  /* the round-robin cursor never keeps pointing at the operation that is gone */
  ENS(the_current_request_never_dangles, H_disk.cur_rq != &H_op && H_disk.cur_rq == (H_cur == 1 ? (H_hasP ? &H_P : (dispatch_operation_t)0) : H_cur == 2 ? &H_P : H_cur == 3 ? &H_N : (dispatch_operation_t)0))
  /* the reference the list held is dropped exactly once (the final release delivers done to the handler); its interval timer is cancelled */
  ENS(the_list_reference_is_dropped_exactly_once_and_the_timer_cancelled, H_releases == 1 && H_cancels == (H_has_timer ? 1u : 0u) && !H_bad)
)
void harness(void)
{
	VERIF_GHOST_RESET(); H_bad = 0; H_releases = H_cancels = 0;
	H_hasP = ND_BOOL(); H_hasN = ND_BOOL(); H_hasS = ND_BOOL(); H_stream = ND_BOOL(); H_has_timer = ND_BOOL(); H_cur = ND(int); __CPROVER_assume(H_cur >= 0 && H_cur <= 3 && (H_cur != 2 || H_hasP) && (H_cur != 3 || H_hasN));
	H_op.fd_entry = &H_fde; H_op.params.type = H_stream ? DISPATCH_IO_STREAM : DISPATCH_IO_RANDOM; H_op.timer = H_has_timer ? &H_timer : 0;
	L->tq_first = H_hasP ? &H_P : &H_op; L->tq_last = H_hasN ? &H_N : &H_op; H_op.operation_list.te_prev = H_hasP ? &H_P : 0; H_op.operation_list.te_next = H_hasN ? &H_N : 0;
	H_P.operation_list.te_prev = 0; H_P.operation_list.te_next = &H_op; H_N.operation_list.te_prev = &H_op; H_N.operation_list.te_next = 0;
	H_fde.stream_ops.tq_first = H_stream ? &H_op : 0; H_fde.stream_ops.tq_last = H_stream ? (H_hasS ? &H_S : &H_op) : 0; H_op.stream_list.te_prev = 0; H_op.stream_list.te_next = (H_stream && H_hasS) ? &H_S : 0; H_S.stream_list.te_prev = &H_op; H_S.stream_list.te_next = 0;
	H_disk.cur_rq = H_cur == 1 ? &H_op : H_cur == 2 ? &H_P : H_cur == 3 ? &H_N : (dispatch_operation_t)0;
	VERIF_PRE_CALL(_dispatch_disk_complete_operation, &H_disk, &H_op);
	_dispatch_disk_complete_operation(&H_disk, &H_op);
	VERIF_POST_VOID(_dispatch_disk_complete_operation, &H_disk, &H_op);
	VERIF_REACH(promoted_into_empty_list, PROMOTED && !H_hasP && !H_hasN && L->tq_first == &H_S);
	VERIF_CANARY();
}
#endif
