/*VERIF
{ "tu": "src/io.c", "enforce": "_dispatch_disk_pick_next_operation", "props": ["C14"], "seq": true, "plain": true, "timeout": 300, "unwind": 6,
  "bounded": {"unwind": 6, "what": "device lists of at most 3 operations (the cyclic walk by pointer chasing has no loop contract)"},
  "assumes": ["runs on the disk's pick queue; cur_rq is NULL or an operation of the list (complete_operation keeps it so)"],
  "stub_note": "none" }
VERIF*/
#ifdef VERIF_PRE
#else
struct dispatch_disk_s H_disk; struct dispatch_operation_s H_ops[3]; unsigned H_n; int H_cur; _Bool H_act[3];
#define OP(i) (&H_ops[i])
VERIF_CONTRACT(dispatch_operation_t, _dispatch_disk_pick_next_operation, (dispatch_disk_t disk),
  REQ(disk == &H_disk && H_n <= 3 && H_cur >= -1 && H_cur < (int)H_n && H_disk.cur_rq == (H_cur < 0 ? 0 : OP(H_cur)))
  REQ(H_disk.operations.tq_first == (H_n ? OP(0) : 0) && H_disk.operations.tq_last == (H_n ? OP(H_n - 1) : 0))
  REQ(H_ops[0].operation_list.te_next == (H_n > 1 ? OP(1) : 0) && H_ops[1].operation_list.te_next == (H_n > 2 ? OP(2) : 0) && H_ops[2].operation_list.te_next == 0)
  REQ(H_ops[0].active == H_act[0] && H_ops[1].active == H_act[1] && H_ops[2].active == H_act[2])
  ASG(H_disk.cur_rq)
  /* the scheduler never hands out an operation whose transfer is already in flight, and never invents one */
  ENS(only_an_idle_operation_of_the_list_is_picked, __CPROVER_return_value == 0 || ((__CPROVER_return_value == OP(0) && H_n > 0 && !H_act[0]) || (__CPROVER_return_value == OP(1) && H_n > 1 && !H_act[1]) || (__CPROVER_return_value == OP(2) && H_n > 2 && !H_act[2])))
  /* ... and does not overlook idle work: with a current request the whole list is walked once round (nothing is returned only if EVERY listed operation is in
   * flight); without one (the current request was the head of the list and has just completed) only the head is looked at - an idle operation further back then
   * waits for the next scheduler pass, which always comes when the head's transfer completes (b_disk_perform): delayed, never starved */
  ENS(with_a_current_request_nothing_is_picked_only_when_every_operation_is_in_flight, VIMPL(__CPROVER_return_value == 0 && H_cur >= 0, (H_n < 1 || H_act[0]) && (H_n < 2 || H_act[1]) && (H_n < 3 || H_act[2])))
  ENS(without_a_current_request_nothing_is_picked_only_when_the_head_is_in_flight_or_the_list_is_empty, VIMPL(__CPROVER_return_value == 0 && H_cur < 0, H_n == 0 || H_act[0]))
  ENS(the_pick_becomes_the_current_request, VIMPL(__CPROVER_return_value != 0, H_disk.cur_rq == __CPROVER_return_value) && VIMPL(__CPROVER_return_value == 0, H_disk.cur_rq == (H_cur < 0 ? 0 : OP(H_cur))))
  /* round robin: with a current request, the operations after it are considered before it is considered again */
  ENS(round_robin_starts_behind_the_current_request, VIMPL(H_cur >= 0 && H_n >= 2 && !H_act[(H_cur + 1) % H_n], __CPROVER_return_value == OP((H_cur + 1) % H_n)))
)
void harness(void)
{
	VERIF_GHOST_RESET(); H_n = ND(unsigned); H_cur = ND(int); __CPROVER_assume(H_n <= 3 && H_cur >= -1 && H_cur < (int)H_n);
	H_disk.operations.tq_first = H_n ? OP(0) : 0; H_disk.operations.tq_last = H_n ? OP(H_n - 1) : 0; H_disk.cur_rq = H_cur < 0 ? 0 : OP(H_cur);
	H_ops[0].operation_list.te_next = H_n > 1 ? OP(1) : 0; H_ops[1].operation_list.te_next = H_n > 2 ? OP(2) : 0; H_ops[2].operation_list.te_next = 0;
	for (int i = 0; i < 3; i++) { H_act[i] = ND_BOOL(); H_ops[i].active = H_act[i]; }
	VERIF_PRE_CALL(_dispatch_disk_pick_next_operation, 0, &H_disk);
	dispatch_operation_t r = _dispatch_disk_pick_next_operation(&H_disk);
	VERIF_POST(_dispatch_disk_pick_next_operation, r, &H_disk);
	VERIF_REACH(wrapped_around, H_cur == 2 && r == OP(0));
	VERIF_CANARY();
}
#endif
