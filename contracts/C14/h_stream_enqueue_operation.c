/*VERIF
{ "tu": "src/io.c", "enforce": "_dispatch_stream_enqueue_operation", "props": ["C14"], "seq": true, "timeout": 200,
  "assumes": ["runs on the stream's queue (serial: no concurrency on the lists)",
              "each list holds any number of earlier operations: represented by its head and its current last element"],
  "stub_note": "_dispatch_operation_should_enqueue (arbitrary verdict), dispatch_async_f (posting the stream handler): recorded" }
VERIF*/
#ifdef VERIF_PRE
#else
struct dispatch_stream_s H_stream; struct dispatch_operation_s H_op, H_last[2]; struct dispatch_queue_s H_sq; struct dispatch_data_s H_data;
_Bool H_should, H_empty0[2], H_bad; unsigned H_posts, H_should_calls; unsigned H_type;
static bool _dispatch_operation_should_enqueue(dispatch_operation_t op, dispatch_queue_t tq, dispatch_data_t data) { if (op != &H_op || tq != &H_sq || data != &H_data || H_posts) H_bad = 1; H_should_calls++; return H_should; }
/* the stream handler itself: own contract h_stream_handler; here only its identity matters */
static void _dispatch_stream_queue_handler(void *ctx) { (void)ctx; }
void dispatch_async_f(dispatch_queue_t q, void *ctxt, dispatch_function_t f) { if (q != &H_sq || ctxt != (void *)&H_sq || f != _dispatch_stream_queue_handler) H_bad = 1; H_posts++; }
#define L0(t) (H_empty0[t] ? (dispatch_operation_t)0 : &H_last[t])
#define ON_TAIL(t) (H_stream.operations[t].tq_last == &H_op && H_op.operation_list.te_next == 0 && H_op.operation_list.te_prev == L0(t) && \
	(H_empty0[t] ? H_stream.operations[t].tq_first == &H_op : (H_stream.operations[t].tq_first == &H_last[t] && H_last[t].operation_list.te_next == &H_op)))
#define UNTOUCHED(t) (H_stream.operations[t].tq_first == L0(t) && H_stream.operations[t].tq_last == L0(t) && H_last[t].operation_list.te_next == 0)
VERIF_CONTRACT_VOID(_dispatch_stream_enqueue_operation, (dispatch_stream_t stream, dispatch_operation_t op, dispatch_data_t data),
  REQ(stream == &H_stream && op == &H_op && data == &H_data && H_stream.dq == &H_sq && !H_bad && H_posts == 0 && H_should_calls == 0 && H_type <= 1 && H_op.params.type == H_type)
  REQ(UNTOUCHED(0) && UNTOUCHED(1))
  ASG(__CPROVER_object_whole(&H_stream), __CPROVER_object_whole(&H_op), __CPROVER_object_whole(&H_last[0]), __CPROVER_object_whole(&H_last[1]), H_bad, H_posts, H_should_calls)
  ENS(the_verdict_is_asked_exactly_once_first, H_should_calls == 1 && !H_bad)
  ENS(a_rejected_operation_is_not_queued, VIMPL(!H_should, UNTOUCHED(0) && UNTOUCHED(1) && H_posts == 0))
  /* operations complete in submission order per kind: always appended at the tail of the list of its kind; the other list is untouched */
  ENS(accepted_operation_is_appended_at_the_tail_of_its_kind, VIMPL(H_should, ON_TAIL(H_type) && UNTOUCHED(1 - H_type)))
  /* an idle stream (both lists empty) must be started: the handler is posted exactly once; a busy stream already has one in flight */
  ENS(an_idle_stream_is_started_exactly_once, VIMPL(H_should, H_posts == ((H_empty0[0] && H_empty0[1]) ? 1u : 0u)))
)
void harness(void)
{
	VERIF_GHOST_RESET();
	H_should = ND_BOOL(); H_empty0[0] = ND_BOOL(); H_empty0[1] = ND_BOOL(); H_bad = 0; H_posts = H_should_calls = 0; H_type = ND_BOOL() ? 1 : 0;
	H_stream.dq = &H_sq; H_op.params.type = H_type;
	H_stream.operations[0].tq_first = H_stream.operations[0].tq_last = L0(0); H_last[0].operation_list.te_next = 0;
	H_stream.operations[1].tq_first = H_stream.operations[1].tq_last = L0(1); H_last[1].operation_list.te_next = 0;
	_dispatch_stream_enqueue_operation(&H_stream, &H_op, &H_data);
	VERIF_POST_VOID(_dispatch_stream_enqueue_operation, &H_stream, &H_op, &H_data);
	VERIF_REACH(started, H_posts == 1);
	VERIF_CANARY();
}
#endif
