/*VERIF
{ "tu": "src/io.c", "enforce": "_dispatch_operation_dispose", "props": ["C14", "C17"], "seq": true, "timeout": 200,
  "assumes": ["_dispatch_operation_dispose runs exactly once, when the last reference is dropped (C17: _os_object_release_internal / _dispatch_dispose contracts)"],
  "stub_note": "_dispatch_operation_deliver_data: logged (its own contract: h_deliver_data_read/write); dispatch_group_leave, dispatch_resume, _dispatch_release, dispatch_release, free, Block_release: logged" }
VERIF*/
#ifdef VERIF_PRE
#else
#include "contracts/C14/io_common.h"
enum { K_DELIVER = 100, K_GROUP_LEAVE, K_FREE, K_BLOCK_RELEASE, K_OBJ_RELEASE };
unsigned H_delivers; dispatch_op_flags_t H_deliver_flags;
static void _dispatch_operation_deliver_data(dispatch_operation_t op, dispatch_op_flags_t flags)
{ H_delivers++; H_deliver_flags = flags; __verif_event(K_DELIVER, 0, op, flags, 0); }
struct dispatch_group_s H_bgroup;
void dispatch_group_leave(dispatch_group_t g) { __verif_event(K_GROUP_LEAVE, 0, g, 0, 0); }
void free(void *p) { __verif_event(K_FREE, 0, p, 0, 0); }
void _Block_release(const void *b) { __verif_event(K_BLOCK_RELEASE, 0, b, 0, 0); }
_Bool H_has_fde;
/* final delivery: done is delivered exactly once per operation, from its dispose, BEFORE the operation leaves the
 * fd entry's barrier group (a barrier submitted after the operation waits for that group) and before the fd entry's
 * close queue is let go (the cleanup handler runs there) */
VERIF_CONTRACT_VOID(_dispatch_operation_dispose, (dispatch_operation_t op, bool *allow_free),
  REQ(op == &H_op && __verif_n == 0 && H_delivers == 0 && op->channel == &H_chan && op->fd_entry == (H_has_fde ? &H_fde : 0) && H_fde.barrier_group == &H_bgroup && H_fde.close_queue == &H_closeq)
  REQ(op->timer == 0 && op->op_q == &H_opq && (op->direction == DOP_DIR_READ || op->direction == DOP_DIR_WRITE))
  ASG(VERIF_GHOST, IO_GHOST, H_delivers, H_deliver_flags)
  ENS(log_bounded, __verif_n >= 1 && __verif_n <= 10)
  ENS(done_is_delivered_exactly_once_by_the_final_release, VIMPL(H_has_fde, H_delivers == 1 && H_deliver_flags == DOP_DONE && LOGK(0) == K_DELIVER))
  ENS(operation_that_never_reached_a_descriptor_delivers_nothing_here, VIMPL(!H_has_fde, H_delivers == 0))
  ENS(barrier_group_left_only_after_the_final_delivery, VIMPL(H_has_fde, LOGK(1) == K_GROUP_LEAVE && LOGP(1) == (void *)&H_bgroup))
  ENS(close_queue_released_only_after_the_final_delivery, VIMPL(H_has_fde, LOGK(2) == EV_RELEASE && LOGP(2) == (void *)&H_closeq))
  ENS(channel_released_after_the_final_delivery, LOGK(H_has_fde ? 3 : 0) == EV_RELEASE && LOGP(H_has_fde ? 3 : 0) == (void *)&H_chan)
)
void harness(void)
{
	VERIF_GHOST_RESET(); __verif_crash_is_bug = 1; h_io_reset(); _dispatch_data_empty.size = 0;
	H_has_fde = ND_BOOL();
	H_op.channel = &H_chan; H_op.fd_entry = H_has_fde ? &H_fde : 0; H_fde.barrier_group = &H_bgroup; H_fde.close_queue = &H_closeq; H_op.op_q = &H_opq;
	H_op.direction = ND_BOOL() ? DOP_DIR_READ : DOP_DIR_WRITE; H_op.timer = 0;
	static char bufobj[8]; H_op.buf = ND_BOOL() ? (void *)bufobj : (void *)0; H_op.buf_data = ND_BOOL() ? h_dnew(0, 4) : 0; H_op.data = ND_BOOL() ? h_dnew(0, ND(size_t)) : 0;
	H_op.handler = H_HANDLER;
	bool af = 1;
	_dispatch_operation_dispose(&H_op, &af);
	VERIF_POST_VOID(_dispatch_operation_dispose, &H_op, &af);
	VERIF_CANARY();
}
#endif
