/* C14 scaffolding.
 * Data objects are modelled by WHAT THEY DENOTE: the half-open range [lo, hi) of positions in the operation's byte
 * stream (read: bytes consumed from the descriptor, in order; write: positions in the submitted data).  The data API is
 * replaced by stubs that implement its contract (C13: create = the buffer's bytes; concat = a's bytes followed by b's;
 * subrange = clamped sub-view; size = hi - lo) and record when two NON-ADJACENT ranges are concatenated -- "every byte
 * once, in order" is then arithmetic on the ranges.  */
#define DQ_STUB_REFS 1
#include "contracts/common/dq_common.h"
#define H_NDATA 6
struct dispatch_data_s H_dpool[H_NDATA]; unsigned H_dn; _Bool H_pool_exhausted;
size_t H_dlo[H_NDATA]; int H_drc[H_NDATA];       /* ghost: stream position of first byte; net references taken by the function */
struct dispatch_data_s _dispatch_data_empty;
_Bool H_order_broken;                             /* concat of ranges that are not adjacent, or in the wrong order */
size_t H_bufpos;                                  /* ghost: stream position of op->buf[0] (read) */
void *H_created_from; size_t H_created_len; unsigned H_creates;
#define IO_GHOST __CPROVER_object_whole(H_dpool), __CPROVER_object_whole(H_dlo), __CPROVER_object_whole(H_drc), H_dn, H_pool_exhausted, H_order_broken, \
	H_created_from, H_created_len, H_creates, __CPROVER_object_whole(H_call), H_calls
static inline int h_didx(dispatch_data_t d)
{ return d == &H_dpool[0] ? 0 : d == &H_dpool[1] ? 1 : d == &H_dpool[2] ? 2 : d == &H_dpool[3] ? 3 : d == &H_dpool[4] ? 4 : d == &H_dpool[5] ? 5 : -1; }
#define DSIZE(d) ((d)->size)
static inline size_t h_dlo(dispatch_data_t d) { int i = h_didx(d); return i < 0 ? 0 : H_dlo[i]; }
static inline dispatch_data_t h_dnew(size_t lo, size_t size)
{
	if (size == 0) return (dispatch_data_t)&_dispatch_data_empty;
	if (H_dn >= H_NDATA) { H_pool_exhausted = 1; __CPROVER_assume(0); }
	dispatch_data_t d = &H_dpool[H_dn]; H_dlo[H_dn] = lo; H_drc[H_dn] = 1; d->size = size; H_dn++;
	return d;
}
size_t dispatch_data_get_size(dispatch_data_t d) { return d->size; }
dispatch_data_t dispatch_data_create(const void *buffer, size_t size, dispatch_queue_t q, dispatch_block_t destructor)
{ (void)q; (void)destructor; H_creates++; H_created_from = (void *)buffer; H_created_len = size; return h_dnew(H_bufpos, size); }
dispatch_data_t dispatch_data_create_concat(dispatch_data_t a, dispatch_data_t b)
{
	if (a->size == 0) { int i = h_didx(b); if (i >= 0) H_drc[i]++; return b; }
	if (b->size == 0) { int i = h_didx(a); if (i >= 0) H_drc[i]++; return a; }
	if (h_dlo(a) + a->size != h_dlo(b)) H_order_broken = 1;
	return h_dnew(h_dlo(a), a->size + b->size);
}
dispatch_data_t dispatch_data_create_subrange(dispatch_data_t d, size_t offset, size_t length)
{
	if (offset >= d->size || !length) return (dispatch_data_t)&_dispatch_data_empty;
	if (length > d->size - offset) length = d->size - offset;
	if (length == d->size) { int i = h_didx(d); if (i >= 0) H_drc[i]++; return d; }
	return h_dnew(h_dlo(d) + offset, length);
}
void dispatch_retain(dispatch_object_t o) { int i = h_didx((dispatch_data_t)o._do); if (i >= 0) H_drc[i]++; }
void dispatch_release(dispatch_object_t o) { int i = h_didx((dispatch_data_t)o._do); if (i >= 0) H_drc[i]--; }
/* the operation, its channel and fd entry */
struct dispatch_operation_s H_op; struct dispatch_io_s H_chan; struct dispatch_fd_entry_s H_fde; struct dispatch_queue_s H_opq, H_closeq;
/* handler invocations (the block posted on the operation's queue is evaluated where it is created: its captures are
 * by-value snapshots taken exactly there) */
#define H_MAXCALLS 3
struct h_call { _Bool done; _Bool null; size_t lo, size; int err; unsigned at; } H_call[H_MAXCALLS]; unsigned H_calls;
static void h_handler(bool done, dispatch_data_t d, int err)
{
	if (H_calls < H_MAXCALLS) { H_call[H_calls].done = done; H_call[H_calls].null = (d == 0); H_call[H_calls].lo = d ? h_dlo(d) : 0;
		H_call[H_calls].size = d ? d->size : 0; H_call[H_calls].err = err; H_call[H_calls].at = __verif_n; }
	H_calls++;
	__verif_event(EV_CALLOUT, 0, (void *)h_handler, done, (unsigned long long)err);
}
#ifdef VERIF_NATIVE
#define H_HANDLER (^(bool _d, dispatch_data_t _x, int _e){ h_handler(_d, _x, _e); })
#define H_HANDLER_IS(h) 1
#else
#define H_HANDLER h_handler
#define H_HANDLER_IS(h) ((h) == h_handler)
#endif
void dispatch_resume(dispatch_object_t o) { __verif_event(EV_RELEASE, 0, o._do, 1, 0); }
void dispatch_suspend(dispatch_object_t o) { __verif_event(EV_RETAIN, 0, o._do, 1, 0); }
/* dispatch_async(q, ^{B}) is lowered by rule R-async onto these two */
dispatch_queue_t H_async_q; unsigned H_asyncs;
#define K_ASYNC 99
#define K_ASYNC_END 98
#ifdef H_LOG_ASYNC   /* posted blocks appear in the event log: begin(queue) ... body ... end */
void __verif_block_begin_dispatch_async(dispatch_queue_t q) { H_async_q = q; H_asyncs++; __verif_event(K_ASYNC, 0, q, 0, 0); }
void __verif_block_end(void) { __verif_event(K_ASYNC_END, 0, 0, 0, 0); }
#else
void __verif_block_begin_dispatch_async(dispatch_queue_t q) { H_async_q = q; H_asyncs++; }
void __verif_block_end(void) { }
#endif
/* ---- system interface as seen from _dispatch_operation_perform */
#ifdef VERIF_NATIVE
#define H_ALLOC(n) malloc((n) ? (n) : 1)
#define H_WINDOW_OK(p, n) 1
#else
#define H_ALLOC(n) __CPROVER_allocate((n), 0)
#define H_WINDOW_OK(p, n) ((n) == 0 || __CPROVER_rw_ok((p), (n)))
#endif
int H_errno; int *__errno_location(void) { return &H_errno; }
unsigned H_syscalls; int H_sys_fd; const void *H_sys_buf; size_t H_sys_len; off_t H_sys_off; int H_sys_kind; _Bool H_sys_window_bad; ssize_t H_sys_ret;
size_t H_alloc_size; void *H_alloc_ptr; unsigned H_allocs_io;
#define PERF_GHOST H_errno, H_syscalls, H_sys_fd, H_sys_buf, H_sys_len, H_sys_off, H_sys_kind, H_sys_window_bad, H_sys_ret, H_alloc_size, H_alloc_ptr, H_allocs_io
/* one transfer system call: the kernel moves between 0 and len bytes, or fails with some errno */
static inline ssize_t h_syscall(int kind, int fd, const void *buf, size_t len, off_t off)
{
	H_syscalls++; H_sys_kind = kind; H_sys_fd = fd; H_sys_buf = buf; H_sys_len = len; H_sys_off = off;
	if (!H_WINDOW_OK(buf, len)) H_sys_window_bad = 1;
	ssize_t r = ND(ssize_t); __CPROVER_assume(r >= -1 && (r < 0 || (size_t)r <= len));
	if (r < 0) { H_errno = ND(int); __CPROVER_assume(H_errno > 0); }
	H_sys_ret = r; return r;
}
ssize_t read(int fd, void *buf, size_t len) { return h_syscall(1, fd, buf, len, 0); }
ssize_t pread(int fd, void *buf, size_t len, off_t off) { return h_syscall(2, fd, buf, len, off); }
ssize_t write(int fd, const void *buf, size_t len) { return h_syscall(3, fd, buf, len, 0); }
ssize_t pwrite(int fd, const void *buf, size_t len, off_t off) { return h_syscall(4, fd, buf, len, off); }
int posix_memalign(void **memptr, size_t alignment, size_t size)
{ (void)alignment; H_allocs_io++; H_alloc_size = size; if (ND_BOOL()) return ENOMEM; H_alloc_ptr = H_ALLOC(size); *memptr = H_alloc_ptr; return 0; }

/* statics are NOT zero at the entry of a DFCC harness (they are havocked): every ghost is reset explicitly */
static inline void h_io_reset(void)
{
	H_dn = 0; H_pool_exhausted = 0; H_order_broken = 0; H_creates = 0; H_created_from = 0; H_created_len = 0; H_calls = 0; H_asyncs = 0; H_async_q = 0;
	H_syscalls = 0; H_allocs_io = 0; H_sys_window_bad = 0; H_errno = 0; H_sys_ret = 0; H_bufpos = 0; _dispatch_data_empty.size = 0;
}
