/*VERIF
{ "tu": "src/io.c", "enforce": "_dispatch_stream_pick_next_operation", "props": ["C14"], "seq": true, "timeout": 200,
  "assumes": ["operation lists are the TAILQs filled by _dispatch_stream_enqueue_operation (insert at tail: h_stream_enqueue)"] }
VERIF*/
#ifdef VERIF_PRE
#else
#include "contracts/C14/io_common.h"
struct dispatch_stream_s H_stream; struct dispatch_operation_s H_ops[3];
unsigned H_ns, H_nr;   /* number of STREAM-type / RANDOM-type operations queued (in submission order H_ops[0..]) */
dispatch_operation_t H_cur;
#define SLIST (&H_stream.operations[DISPATCH_IO_STREAM])
#define RLIST (&H_stream.operations[DISPATCH_IO_RANDOM])
VERIF_CONTRACT(dispatch_operation_t, _dispatch_stream_pick_next_operation, (dispatch_stream_t stream, dispatch_operation_t op),
  REQ(stream == &H_stream && op == H_cur)
  ASG()
  /* stream operations are serialised: the current one is continued until it completes */
  ENS(current_stream_operation_is_continued_until_it_completes, VIMPL(H_cur != 0 && H_cur->params.type == DISPATCH_IO_STREAM, __CPROVER_return_value == H_cur))
  /* with no current operation the OLDEST stream-type operation is started (submission order), random ones only if none */
  ENS(oldest_stream_operation_is_started_first, VIMPL(H_cur == 0 && H_ns > 0, __CPROVER_return_value == TAILQ_FIRST(SLIST)))
  ENS(random_operations_start_only_when_no_stream_operation_waits, VIMPL(H_cur == 0 && H_ns == 0, __CPROVER_return_value == (H_nr > 0 ? TAILQ_FIRST(RLIST) : (dispatch_operation_t)0)))
  /* random-access operations take turns (round robin in list order, wrapping) */
  ENS(random_operations_take_turns, VIMPL(H_cur != 0 && H_cur->params.type == DISPATCH_IO_RANDOM,
        __CPROVER_return_value == (TAILQ_NEXT(H_cur, operation_list) ? TAILQ_NEXT(H_cur, operation_list) : TAILQ_FIRST(RLIST))))
)
void harness(void)
{
	VERIF_GHOST_RESET(); __verif_crash_is_bug = 1; h_io_reset();
	TAILQ_INIT(SLIST); TAILQ_INIT(RLIST);
	H_ns = 0; H_nr = 0;
	/* up to three operations, each STREAM or RANDOM, appended in submission order */
	unsigned n = ND(unsigned); __CPROVER_assume(n <= 3);
	if (n > 0) { _Bool s = ND_BOOL(); H_ops[0].params.type = s ? DISPATCH_IO_STREAM : DISPATCH_IO_RANDOM; if (s) { TAILQ_INSERT_TAIL(SLIST, &H_ops[0], operation_list); H_ns++; } else { TAILQ_INSERT_TAIL(RLIST, &H_ops[0], operation_list); H_nr++; } }
	if (n > 1) { _Bool s = ND_BOOL(); H_ops[1].params.type = s ? DISPATCH_IO_STREAM : DISPATCH_IO_RANDOM; if (s) { TAILQ_INSERT_TAIL(SLIST, &H_ops[1], operation_list); H_ns++; } else { TAILQ_INSERT_TAIL(RLIST, &H_ops[1], operation_list); H_nr++; } }
	if (n > 2) { _Bool s = ND_BOOL(); H_ops[2].params.type = s ? DISPATCH_IO_STREAM : DISPATCH_IO_RANDOM; if (s) { TAILQ_INSERT_TAIL(SLIST, &H_ops[2], operation_list); H_ns++; } else { TAILQ_INSERT_TAIL(RLIST, &H_ops[2], operation_list); H_nr++; } }
	unsigned c = ND(unsigned); __CPROVER_assume(c <= n);
	H_cur = c == 0 ? 0 : &H_ops[c - 1];
	dispatch_operation_t r = _dispatch_stream_pick_next_operation(&H_stream, H_cur);
	VERIF_POST(_dispatch_stream_pick_next_operation, r, &H_stream, H_cur);
	/* submission order: the head of the stream list is the earliest submitted stream-type operation */
	VERIF_ASSERT(head_of_stream_list_is_the_earliest_submitted, H_ns == 0 || TAILQ_FIRST(SLIST) ==
		(n > 0 && H_ops[0].params.type == DISPATCH_IO_STREAM ? &H_ops[0] : n > 1 && H_ops[1].params.type == DISPATCH_IO_STREAM ? &H_ops[1] : &H_ops[2]));
	VERIF_REACH(two_stream_ops_one_current, !(H_ns >= 2 && H_cur != 0));
	VERIF_CANARY();
}
#endif
