/*VERIF
{ "tu": "src/io.c", "enforce": "_dispatch_operation_perform", "props": ["C14"], "seq": true, "timeout": 600,
  "cut_goto": {"_dispatch_operation_perform": ["syscall"]},
  "apply_loop_contracts": {"1": "__CPROVER_assigns(__vk_1, __vr_1, op->buf_siz, H_sum, H_first) __CPROVER_loop_invariant(__vk_1 <= __vn_1 && op->buf_siz <= H_sum && H_sum <= H_R && (__vk_1 >= 1 || __vr_1) && (__vk_1 == 0 ? (op->buf_siz == 0 && H_sum == 0) : (H_first >= 1 && H_first <= H_sum && op->buf_siz >= 1 && (op->buf_siz <= chunk_siz || op->buf_siz <= H_first))))"},
  "deciding": ["postcondition", "assertion", "precondition", "loop"],
  "assumes": ["write/pwrite: the kernel takes between 0 and len bytes from [buf, buf+len) or fails with an errno (any)",
              "EINTR retry (goto syscall) is a cut point: checked that nothing was changed before the jump",
              "dispatch_data_apply = in-order iteration over the regions of the data (C13): ANY number of non-empty regions that together do not exceed the data; closed by a loop contract over the running sum (the loop invariant is the property restricted to the regions seen so far, so its obligations are deciding)",
              "dispatch_data_create_subrange / dispatch_data_create_map: range model (C13): the map is a buffer of exactly the bytes of the object"],
  "stub_note": "_dispatch_fd_entry_open: nondeterministic error or success" }
VERIF*/
#ifdef VERIF_PRE
#include <stddef.h>
struct dispatch_data_s; size_t __verif_region_count(struct dispatch_data_s *d);
void __verif_region_get(struct dispatch_data_s *d, size_t k, struct dispatch_data_s **region, size_t *offset, const void **buffer, size_t *size);
void __verif_cut_backjump(void);
extern size_t H_sum, H_first, H_R;
#else
#include "contracts/C14/io_common.h"
static int _dispatch_fd_entry_open(dispatch_fd_entry_t fd_entry, dispatch_io_t channel)
{ (void)channel; if (ND_BOOL()) { int e = ND(int); __CPROVER_assume(e > 0); return e; } fd_entry->fd = 7; return 0; }
int getpagesize(void) { return 4096; }
/* the unwritten data as dispatch_data_apply presents it: some number of non-empty regions, in order; H_sum = bytes of the
 * regions handed out so far (never more than the data holds), H_first = size of the first region */
size_t H_sum, H_first, H_nreg, H_R;
size_t __verif_region_count(dispatch_data_t d) { (void)d; return H_nreg; }
void __verif_region_get(dispatch_data_t d, size_t k, dispatch_data_t *region, size_t *offset, const void **buffer, size_t *size)
{
	size_t n = ND(size_t); __CPROVER_assume(n >= 1 && n <= H_R - H_sum);
	*region = d; *offset = H_sum; *buffer = 0; *size = n;
	if (k == 0) H_first = n;
	H_sum += n;
}
dispatch_data_t H_mapped_from; unsigned H_maps;
dispatch_data_t dispatch_data_create_map(dispatch_data_t d, const void **b, size_t *s)
{ (void)s; H_maps++; H_mapped_from = d; H_alloc_size = d->size; H_alloc_ptr = H_ALLOC(d->size); *b = H_alloc_ptr; return h_dnew(h_dlo(d), d->size); }
size_t H_W, H_BL0, H_BS0, H_T0, H_high, H_chunk; void *H_buf0; unsigned H_cflags; int H_fde_err0, H_operr0; off_t H_off0;
#define GETERR ((H_cflags & (DIO_CLOSED|DIO_STOPPED)) ? ((H_cflags & DIO_STOPPED) ? ECANCELED : 0) : H_fde_err0)
#define CHUNK1 (H_chunk > H_high ? H_high : H_chunk)
#define BS1 (H_op.buf_siz)
VERIF_CONTRACT(int, _dispatch_operation_perform, (dispatch_operation_t op),
  REQ(_dispatch_data_empty.size == 0 && H_maps == 0)
  REQ(op == &H_op && H_syscalls == 0 && !H_sys_window_bad && op->direction == DOP_DIR_WRITE && op->channel == &H_chan && op->fd_entry == &H_fde && H_fde.disk == 0)
  REQ(dispatch_io_defaults.chunk_size == H_chunk && H_chunk >= 1 && H_chunk <= (1u << 30) && op->params.high == H_high && H_high >= 1 && H_high <= (1ull << 40))
  REQ(H_chan.atomic_flags == H_cflags && H_fde.err == H_fde_err0 && op->err == H_operr0 && op->offset == H_off0 && H_off0 >= 0 && H_off0 <= (1ll << 40))
  /* unwritten rest R > 0 bytes starting at position W of the submitted data; length = W + R; total written so far = W + buf_len */
  REQ(H_R >= 1 && H_R <= (1ull << 40) && H_W <= (1ull << 40) && op->data->size == H_R && h_dlo(op->data) == H_W && op->length == H_W + H_R && op->total == H_T0 && H_T0 == H_W + H_BL0)
  REQ(H_nreg >= 1 && H_sum == 0)
  REQ(op->buf == H_buf0 && op->buf_siz == H_BS0 && op->buf_len == H_BL0 && (H_buf0 ? (H_BL0 < H_BS0 && H_BS0 <= H_R && H_buf0 == H_alloc_ptr && H_alloc_size == H_BS0) : (H_BL0 == 0)))
  REQ(op->params.type == DISPATCH_IO_STREAM || op->params.type == DISPATCH_IO_RANDOM)
  ASG(PERF_GHOST, IO_GHOST, H_sum, H_first, H_maps, H_mapped_from, H_op.buf, H_op.buf_siz, H_op.buf_len, H_op.buf_data, H_op.total, H_op.err, H_fde.fd, H_fde.err, VERIF_GHOST)
  ENS(no_transfer_once_the_channel_is_stopped_or_the_descriptor_failed, VIMPL(GETERR != 0, H_syscalls == 0 && H_maps == 0 && op->total == H_T0 && op->buf_len == H_BL0))
  /* a fresh buffer is a map of the FIRST bytes of the unwritten data: non-empty, inside the data, at most high water */
  ENS(fresh_buffer_maps_the_head_of_the_unwritten_data, VIMPL(H_maps == 1, H_buf0 == 0 && BS1 >= 1 && BS1 <= H_R && BS1 <= H_high
        && op->buf_data != 0 && op->buf_data->size == BS1 && h_dlo(op->buf_data) == H_W && op->buf == H_alloc_ptr && H_alloc_size == BS1))
  /* whole regions are accumulated up to one chunk; only a first region larger than a chunk is written as it is */
  ENS(fresh_buffer_is_at_most_a_chunk_unless_the_first_region_is_larger, VIMPL(H_maps == 1, BS1 <= CHUNK1 || BS1 <= H_first))
  ENS(buffer_is_reused_until_written_out, VIMPL(H_buf0 != 0, H_maps == 0 && op->buf == H_buf0 && op->buf_siz == H_BS0))
  ENS(at_most_one_transfer_per_step, H_syscalls <= 1)
  ENS(transfer_takes_exactly_the_unwritten_part_of_the_buffer, VIMPL(H_syscalls == 1, !H_sys_window_bad && H_sys_buf == (char *)op->buf + H_BL0 && H_sys_len == BS1 - H_BL0
        && (H_sys_kind == 3 || H_sys_kind == 4) && (H_sys_kind == 3) == (op->params.type == DISPATCH_IO_STREAM) && H_sys_fd == H_fde.fd))
  ENS(random_access_writes_continue_at_offset_plus_total, VIMPL(H_syscalls == 1 && H_sys_kind == 4, H_sys_off == H_off0 + (off_t)H_T0))
  ENS(bytes_transferred_are_accounted_exactly_once, (H_syscalls == 1 && H_sys_ret > 0) ? (op->buf_len == H_BL0 + (size_t)H_sys_ret && op->total == H_T0 + (size_t)H_sys_ret)
        : (op->buf_len == H_BL0 && op->total == H_T0))
  ENS(invariant_is_kept, op->buf_len <= op->buf_siz && op->total <= H_W + H_R && op->total == H_W + op->buf_len)
  ENS(complete_exactly_when_everything_is_written, VIMPL(H_syscalls == 1 && H_sys_ret > 0, __CPROVER_return_value == (op->total == H_W + H_R ? DISPATCH_OP_COMPLETE : DISPATCH_OP_DELIVER)))
  ENS(would_block_resumes_later_without_error, VIMPL(H_syscalls == 1 && H_sys_ret < 0 && (H_errno == EAGAIN || H_errno == EWOULDBLOCK), op->err == H_operr0 && __CPROVER_return_value == DISPATCH_OP_RESUME))
  ENS(other_errors_are_recorded_and_end_the_operation, VIMPL(H_syscalls == 1 && H_sys_ret < 0 && H_errno != EAGAIN && H_errno != EWOULDBLOCK,
        op->err == H_errno && __CPROVER_return_value == (H_errno == ECANCELED ? DISPATCH_OP_ERR : H_errno == EBADF ? DISPATCH_OP_FD_ERR : DISPATCH_OP_COMPLETE)))
)
void __verif_cut_backjump(void)
{
	VERIF_ASSERT(interrupted_transfer_is_retried_with_nothing_changed, H_errno == EINTR && H_sys_ret == -1 && H_op.total == H_T0 && H_op.buf_len == H_BL0);
	__CPROVER_assume(0);
}
void harness(void)
{
	VERIF_GHOST_RESET(); __verif_crash_is_bug = 1; h_io_reset(); H_maps = 0; H_mapped_from = 0;
	H_W = ND(size_t); H_R = ND(size_t); H_BL0 = ND(size_t); H_BS0 = ND(size_t); H_high = ND(size_t); H_chunk = ND(size_t);
	H_cflags = ND(unsigned) & 3; H_fde_err0 = ND(int); H_operr0 = ND(int); H_off0 = ND(off_t);
	__CPROVER_assume(H_chunk >= 1 && H_chunk <= (1u << 30) && H_high >= 1 && H_high <= (1ull << 40) && H_R >= 1 && H_R <= (1ull << 40) && H_W <= (1ull << 40) && H_off0 >= 0 && H_off0 <= (1ll << 40));
	H_nreg = ND(size_t); __CPROVER_assume(H_nreg >= 1); H_sum = 0; H_first = 0;
	dispatch_io_defaults.chunk_size = H_chunk;
	H_op.direction = DOP_DIR_WRITE; H_op.channel = &H_chan; H_op.fd_entry = &H_fde; H_chan.atomic_flags = H_cflags; H_fde.err = H_fde_err0; H_fde.fd = ND_BOOL() ? -1 : 5; H_fde.disk = 0;
	H_op.params.type = ND_BOOL() ? DISPATCH_IO_STREAM : DISPATCH_IO_RANDOM; H_op.params.high = H_high; H_op.params.low = ND(size_t);
	H_op.err = H_operr0; H_op.offset = H_off0; H_op.length = H_W + H_R; H_op.data = h_dnew(H_W, H_R);
	if (ND_BOOL()) {
		__CPROVER_assume(H_BL0 < H_BS0 && H_BS0 <= H_R && H_BS0 <= (1u << 30));
		H_alloc_ptr = H_ALLOC(H_BS0); H_alloc_size = H_BS0; H_buf0 = H_alloc_ptr; H_op.buf_data = h_dnew(H_W, H_BS0);
	} else { H_buf0 = 0; H_BL0 = 0; H_op.buf_data = 0; }
	H_T0 = H_W + H_BL0; H_op.total = H_T0;
	H_op.buf = H_buf0; H_op.buf_siz = H_BS0; H_op.buf_len = H_BL0;
	int r = _dispatch_operation_perform(&H_op);
	VERIF_POST(_dispatch_operation_perform, r, &H_op);
	VERIF_REACH(fresh_map_of_several_regions, !(H_maps == 1 && H_op.buf_siz > H_first && H_syscalls == 1 && H_sys_ret > 0));
	VERIF_REACH(first_region_larger_than_chunk, !(H_maps == 1 && H_op.buf_siz > CHUNK1));
	VERIF_CANARY();
}
#endif
