/*VERIF
{ "tu": "src/io.c", "enforce": "_dispatch_io_init", "props": ["C14"], "seq": true, "timeout": 300, "log_cap": 20,
  "block_calls": ["dispatch_async"], "cppflags": ["-DH_LOG_ASYNC=1"],
  "assumes": ["posted blocks are evaluated where they are created; each runs once on its queue (C02); the fd entry's close queue is suspended once per outstanding hold (dispatch_suspend/resume nesting: C06)"],
  "stub_note": "cleanup handler: logged call-out; dispatch_retain/_dispatch_retain/_dispatch_release: logged; dispatch_queue_create/dispatch_group_create: fresh objects" }
VERIF*/
#ifdef VERIF_PRE
struct dispatch_queue_s; void __verif_block_begin_dispatch_async(struct dispatch_queue_s *q); void __verif_block_end(void);
#else
#include "contracts/C14/io_common.h"
struct dispatch_queue_s H_chanq, H_barrierq, H_clientq, H_newq; struct dispatch_group_s H_bgroup, H_newg;
dispatch_queue_t dispatch_queue_create(const char *label, dispatch_queue_attr_t attr) { (void)label; (void)attr; return &H_newq; }
dispatch_group_t dispatch_group_create(void) { return &H_newg; }
int H_err; _Bool H_has_fde, H_has_handler;
static void h_cleanup(int err) { __verif_event(EV_CALLOUT, 0, (void *)h_cleanup, (unsigned long long)err, 0); }
#ifdef VERIF_NATIVE
#define H_CLEANUP (^(int e){ h_cleanup(e); })
#else
#define H_CLEANUP h_cleanup
#endif
/* the cleanup handler is posted exactly once, on the fd entry's CLOSE QUEUE (which stays suspended while any operation,
 * pending delivery or source still holds the fd entry: h_deliver_data_*, h_operation_enqueue, h_operation_dispose), and
 * from there once onto the client's queue, with the channel's error */
VERIF_CONTRACT_VOID(_dispatch_io_init, (dispatch_io_t channel, dispatch_fd_entry_t fd_entry, dispatch_queue_t queue, int err, void (^cleanup_handler)(int)),
  REQ(channel == &H_chan && __verif_n == 0 && queue == &H_clientq && err == H_err && fd_entry == (H_has_fde ? &H_fde : 0) && (H_err == 0) == H_has_fde)
  REQ(H_chan.queue == &H_chanq && H_fde.close_queue == &H_closeq && H_fde.barrier_queue == &H_barrierq && H_fde.barrier_group == &H_bgroup)
  ASG(VERIF_GHOST, IO_GHOST, H_async_q, H_asyncs, H_chan.fd_entry, H_chan.barrier_queue, H_chan.barrier_group)
  ENS(log_bounded, __verif_n <= 10)
  ENS(cleanup_handler_is_posted_exactly_once_behind_the_close_queue, VIMPL(H_has_handler,
        H_asyncs == 2 && LOGK(0) == EV_RETAIN && LOGP(0) == (void *)&H_clientq && LOGK(1) == K_ASYNC && LOGP(1) == (void *)(H_err ? &H_chanq : &H_closeq)
        && LOGK(2) == K_ASYNC && LOGP(2) == (void *)&H_clientq && LOGK(3) == EV_CALLOUT && LOGA(3) == (unsigned long long)H_err && LOGK(4) == K_ASYNC_END
        && LOGK(5) == EV_RELEASE && LOGP(5) == (void *)&H_clientq && LOGK(6) == K_ASYNC_END))
  ENS(no_handler_nothing_posted, VIMPL(!H_has_handler, H_asyncs == 0))
  /* the channel shares the fd entry's barrier queue and group: barriers and operations of all channels on one descriptor are ordered together */
  ENS(channel_uses_the_fd_entrys_barrier_queue_and_group, VIMPL(H_has_fde, H_chan.fd_entry == &H_fde && H_chan.barrier_queue == &H_barrierq && H_chan.barrier_group == &H_bgroup))
  ENS(channel_without_descriptor_still_gets_a_barrier_queue, VIMPL(!H_has_fde, H_chan.barrier_queue == &H_newq && H_chan.barrier_group == &H_newg))
)
void harness(void)
{
	VERIF_GHOST_RESET(); __verif_crash_is_bug = 1; h_io_reset();
	H_has_fde = ND_BOOL(); H_has_handler = ND_BOOL(); H_err = H_has_fde ? 0 : ND(int); __CPROVER_assume(H_has_fde || H_err != 0);
	H_chan.queue = &H_chanq; H_fde.close_queue = &H_closeq; H_fde.barrier_queue = &H_barrierq; H_fde.barrier_group = &H_bgroup;
	if (H_has_handler) {
		_dispatch_io_init(&H_chan, H_has_fde ? &H_fde : 0, &H_clientq, H_err, H_CLEANUP);
		VERIF_POST_VOID(_dispatch_io_init, &H_chan, H_has_fde ? &H_fde : 0, &H_clientq, H_err, H_CLEANUP);
	} else {
		_dispatch_io_init(&H_chan, H_has_fde ? &H_fde : 0, &H_clientq, H_err, 0);
		VERIF_POST_VOID(_dispatch_io_init, &H_chan, H_has_fde ? &H_fde : 0, &H_clientq, H_err, 0);
	}
	VERIF_CANARY();
}
#endif
