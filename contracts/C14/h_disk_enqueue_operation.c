/*VERIF
{ "tu": "src/io.c", "enforce": "_dispatch_disk_enqueue_operation", "props": ["C14"], "seq": true, "timeout": 200,
  "assumes": ["runs on the disk's pick queue (serial: no concurrency on the lists)",
              "the two lists hold any number of earlier operations: each is represented by its head and its current last element (TAILQ_INSERT_TAIL only touches those; with one earlier element it is both first and last)"],
  "stub_note": "_dispatch_operation_should_enqueue (error / timer handling: arbitrary verdict), _dispatch_disk_handler (scheduler kick): recorded" }
VERIF*/
#ifdef VERIF_PRE
#else
struct dispatch_disk_s H_disk; struct dispatch_operation_s H_op, H_disk_last, H_stream_last; struct dispatch_fd_entry_s H_fde; struct dispatch_queue_s H_pickq; struct dispatch_data_s H_data;
_Bool H_should, H_disk_empty0, H_stream_empty0, H_bad; unsigned H_handler_calls, H_should_calls;
static bool _dispatch_operation_should_enqueue(dispatch_operation_t op, dispatch_queue_t tq, dispatch_data_t data) { if (op != &H_op || tq != &H_pickq || data != &H_data || H_handler_calls) H_bad = 1; H_should_calls++; return H_should; }
static void _dispatch_disk_handler(void *ctx) { if (ctx != (void *)&H_disk) H_bad = 1; H_handler_calls++; }
#define DISK_L0 (H_disk_empty0 ? (dispatch_operation_t)0 : &H_disk_last)
#define STREAM_L0 (H_stream_empty0 ? (dispatch_operation_t)0 : &H_stream_last)
#define ON_DISK_TAIL (H_disk.operations.tq_last == &H_op && H_op.operation_list.te_next == 0 && H_op.operation_list.te_prev == DISK_L0 && \
	(H_disk_empty0 ? H_disk.operations.tq_first == &H_op : (H_disk.operations.tq_first == &H_disk_last && H_disk_last.operation_list.te_next == &H_op)))
#define ON_STREAM_TAIL (H_fde.stream_ops.tq_last == &H_op && H_op.stream_list.te_next == 0 && H_op.stream_list.te_prev == STREAM_L0 && \
	(H_stream_empty0 ? H_fde.stream_ops.tq_first == &H_op : (H_fde.stream_ops.tq_first == &H_stream_last && H_stream_last.stream_list.te_next == &H_op)))
#define DISK_UNTOUCHED (H_disk.operations.tq_first == DISK_L0 && H_disk.operations.tq_last == DISK_L0 && H_disk_last.operation_list.te_next == 0)
#define STREAM_UNTOUCHED (H_fde.stream_ops.tq_first == STREAM_L0 && H_fde.stream_ops.tq_last == STREAM_L0 && H_stream_last.stream_list.te_next == 0)
VERIF_CONTRACT_VOID(_dispatch_disk_enqueue_operation, (dispatch_disk_t disk, dispatch_operation_t op, dispatch_data_t data),
  REQ(disk == &H_disk && op == &H_op && data == &H_data && H_disk.pick_queue == &H_pickq && H_op.fd_entry == &H_fde && !H_bad && H_handler_calls == 0 && H_should_calls == 0)
  REQ((H_op.params.type == DISPATCH_IO_STREAM || H_op.params.type == DISPATCH_IO_RANDOM) && DISK_UNTOUCHED && STREAM_UNTOUCHED)
  ASG(__CPROVER_object_whole(&H_disk), __CPROVER_object_whole(&H_op), __CPROVER_object_whole(&H_disk_last), __CPROVER_object_whole(&H_stream_last), __CPROVER_object_whole(&H_fde), H_bad, H_handler_calls, H_should_calls)
  ENS(the_verdict_is_asked_exactly_once_first, H_should_calls == 1 && !H_bad)
  ENS(a_rejected_operation_is_not_queued_anywhere, VIMPL(!H_should, DISK_UNTOUCHED && STREAM_UNTOUCHED && H_handler_calls == 0))
  /* stream operations of ONE file run in submission order: each goes to the tail of its file's own stream list; only the head of that list
   * is visible to the device scheduler, so it is put on the device list exactly when its file has no earlier stream operation pending -
   * what other files have pending on the same device plays no part */
  ENS(stream_operation_is_appended_to_its_files_stream_list, VIMPL(H_should && H_op.params.type == DISPATCH_IO_STREAM, ON_STREAM_TAIL))
  ENS(first_pending_stream_operation_of_a_file_is_also_put_on_the_device_list, VIMPL(H_should && H_op.params.type == DISPATCH_IO_STREAM && H_stream_empty0, ON_DISK_TAIL))
  ENS(later_stream_operations_of_a_file_wait_behind_the_earlier_ones, VIMPL(H_should && H_op.params.type == DISPATCH_IO_STREAM && !H_stream_empty0, DISK_UNTOUCHED))
  ENS(random_access_operation_goes_on_the_device_list_only, VIMPL(H_should && H_op.params.type == DISPATCH_IO_RANDOM, ON_DISK_TAIL && STREAM_UNTOUCHED))
  ENS(the_scheduler_is_kicked_once_after_queuing, VIMPL(H_should, H_handler_calls == 1))
)
void harness(void)
{
	VERIF_GHOST_RESET();
	H_should = ND_BOOL(); H_disk_empty0 = ND_BOOL(); H_stream_empty0 = ND_BOOL(); H_bad = 0; H_handler_calls = H_should_calls = 0;
	H_disk.pick_queue = &H_pickq; H_op.fd_entry = &H_fde; H_op.params.type = ND_BOOL() ? DISPATCH_IO_STREAM : DISPATCH_IO_RANDOM;
	H_disk.operations.tq_first = H_disk.operations.tq_last = DISK_L0; H_disk_last.operation_list.te_next = 0;
	H_fde.stream_ops.tq_first = H_fde.stream_ops.tq_last = STREAM_L0; H_stream_last.stream_list.te_next = 0;
	_dispatch_disk_enqueue_operation(&H_disk, &H_op, &H_data);
	VERIF_POST_VOID(_dispatch_disk_enqueue_operation, &H_disk, &H_op, &H_data);
	VERIF_REACH(waits_behind, H_should && H_op.params.type == DISPATCH_IO_STREAM && !H_stream_empty0);
	VERIF_CANARY();
}
#endif
