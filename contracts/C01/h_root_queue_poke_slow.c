/*VERIF
{ "tu": "src/queue.c", "enforce": "_dispatch_root_queue_poke_slow", "props": ["C01","C17"], "seq": true, "timeout": 240, "unwind": 2,
  "assumes": ["sequential view of dgq_pending / dgq_thread_pool_size (the contract is about this call's own additions and subtractions; the CAS loop on the pool size then runs once: unwound with an unwinding assertion)",
              "n >= 1 (all callers)"],
  "stub_note": "dispatch_semaphore_signal(mediator) [C08 contract], pthread_create, _dispatch_retain, _dispatch_root_queues_init, _dispatch_temporary_resource_shortage: stubs with ghost counters" }
VERIF*/
#ifdef VERIF_PRE
extern int H_signalled, H_created, H_retains; extern _Bool H_retain_missing;
#else
struct dispatch_queue_global_s H_rq;
struct dispatch_pthread_root_queue_context_s H_pqc;
int H_signalled, H_created, H_retains; _Bool H_retain_missing;
int H_n, H_floor, H_P0, H_T0;
intptr_t dispatch_semaphore_signal(dispatch_semaphore_t dsema) { (void)dsema; if (ND_BOOL()) { H_signalled++; return 1; } return 0; }
int pthread_create(pthread_t *t, const pthread_attr_t *a, void *(*f)(void *), void *arg)
{ (void)t; (void)a; (void)f; if (arg != &H_rq || H_retains != H_created + 1) H_retain_missing = 1; if (ND_BOOL()) { H_created++; return 0; } return EAGAIN; }
static inline void _dispatch_retain(dispatch_object_t dou) { (void)dou; H_retains++; }
void _dispatch_temporary_resource_shortage(void) { }
static inline void _dispatch_root_queues_init(void) { }
/* loop 0: wake parked workers;  loop 1: CAS on the pool size (unwound);  loop 2/3: create threads */
VERIF_LOOP_CONTRACT(_dispatch_root_queue_poke_slow, 0,
	__CPROVER_assigns(remaining, H_signalled, VERIF_GHOST)
	__CPROVER_loop_invariant(remaining >= 1 && remaining <= n && H_signalled >= 0 && H_signalled <= n && remaining + H_signalled == n && H_created == 0 && H_retains == 0 && !H_retain_missing))
VERIF_LOOP_CONTRACT(_dispatch_root_queue_poke_slow, 2,
	__CPROVER_assigns(remaining, r, tid, H_created, H_retains, H_retain_missing, VERIF_GHOST)
	__CPROVER_loop_invariant(remaining >= 1 && remaining <= 4096 && H_created >= 0 && H_created <= 4096 && remaining + H_created == __CPROVER_loop_entry(remaining) && H_retains == H_created && !H_retain_missing))
VERIF_LOOP_CONTRACT(_dispatch_root_queue_poke_slow, 3,
	__CPROVER_assigns(r, tid, H_created, H_retain_missing, VERIF_GHOST)
	__CPROVER_loop_invariant(H_retains == __CPROVER_loop_entry(H_retains) && H_created == __CPROVER_loop_entry(H_created) && !H_retain_missing))
#define OVERCOMMIT ((H_rq.dq_priority & DISPATCH_PRIORITY_FLAG_OVERCOMMIT) != 0)
#define WANTED (H_n - H_signalled)                       /* still needed after waking parked workers */
#define ROOM (H_T0 < H_floor ? 0 : H_T0 - H_floor)       /* threads the pool may still create */
VERIF_CONTRACT_VOID(_dispatch_root_queue_poke_slow, (dispatch_queue_global_t dq, int n, int floor),
  REQ(dq == &H_rq && n == H_n && floor == H_floor && n >= 1 && n <= 4096 && floor >= 0 && floor <= 4096 && H_signalled == 0 && H_created == 0 && H_retains == 0 && !H_retain_missing)
  REQ(H_rq.do_ctxt == &H_pqc && H_rq.dgq_pending == H_P0 && H_rq.dgq_thread_pool_size == H_T0 && H_P0 >= 0 && H_P0 <= 4096 && H_T0 >= 0 && H_T0 <= 4096)
  ASG(H_rq.dgq_pending, H_rq.dgq_thread_pool_size, H_signalled, H_created, H_retains, H_retain_missing, VERIF_GHOST)
  /* a thread request is never left recorded without threads behind it: what this call adds to the pending
   * count is exactly the number of threads it created (each new worker subtracts itself when it starts) */
  ENS(pending_count_grows_exactly_by_threads_created, H_rq.dgq_pending == H_P0 + H_created)
  ENS(pool_size_shrinks_exactly_by_threads_created, H_rq.dgq_thread_pool_size == H_T0 - H_created)
  ENS(never_more_workers_than_requested, H_signalled + H_created <= H_n && H_created <= ROOM)
  /* every requested worker is provided -- a woken parked worker or a new thread -- unless the pool is full
   * or (non-overcommit) an earlier request is still pending, whose owner is then responsible */
  ENS(all_requested_workers_provided_unless_full_or_pending, VIMPL(WANTED > 0 && (OVERCOMMIT || H_P0 == 0),
        H_created == (WANTED < ROOM ? WANTED : ROOM)))
  ENS(each_new_thread_holds_a_queue_reference, H_retains == H_created && !H_retain_missing)
)
void harness(void)
{
	VERIF_GHOST_RESET();
	H_n = ND(int); H_floor = ND(int); H_P0 = ND(int); H_T0 = ND(int);
	H_rq.do_ctxt = &H_pqc; H_rq.dgq_pending = H_P0; H_rq.dgq_thread_pool_size = H_T0; H_rq.dq_priority = ND(dispatch_priority_t);
	H_pqc.dpq_thread_mediator.do_vtable = ND_BOOL() ? (void *)&H_pqc : 0;
	H_signalled = 0; H_created = 0; H_retains = 0; H_retain_missing = 0;
	_dispatch_root_queue_poke_slow(&H_rq, H_n, H_floor);
	VERIF_POST_VOID(_dispatch_root_queue_poke_slow, &H_rq, H_n, H_floor);
	VERIF_REACH(creates_threads, H_created >= 2);
	VERIF_REACH(wakes, H_signalled >= 1);
	VERIF_REACH(pool_full, H_created == 0 && H_signalled < H_n && H_P0 == 0);
	VERIF_CANARY();
}
#endif
