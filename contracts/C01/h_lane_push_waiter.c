/*VERIF
{ "tu": "src/queue.c", "enforce": "_dispatch_lane_push_waiter", "props": ["C01", "C02", "C04", "C06"], "timeout": 300,
  "assumes": ["the tail exchange returns NULL or the previously queued node (MPSC discipline)",
              "a lane never has the BASE_WLH role on a platform without kevent workloops",
              "the queue is not thread-bound and the waiter is a dispatch_sync waiter (async_and_wait waiters that must always async: wakeup path, covered by the first clause)"],
  "stub_note": "dx_wakeup (h_queue_wakeup), _dispatch_lane_barrier_complete (h_lane_barrier_complete), _dispatch_queue_wakeup_with_override: logged calls" }
VERIF*/
#ifdef VERIF_PRE
extern const volatile void *H_rely_ptr; extern const volatile void *H_relyp_ptr; extern unsigned long long H_relyp_val; extern const volatile void *H_qflags_ptr;
#define __VERIF_RELY(p, v) (((const volatile void *)(p) != H_rely_ptr || !(((unsigned long long)(v)) & DISPATCH_QUEUE_ROLE_BASE_WLH)) && \
	((const volatile void *)(p) != H_relyp_ptr || (unsigned long long)(v) == 0 || (unsigned long long)(v) == H_relyp_val) && \
	((const volatile void *)(p) != H_qflags_ptr || !(((unsigned long long)(v)) & DQF_THREAD_BOUND)))   /* not the main queue / a thread-bound queue */
/* guarantee on dq_state: a waiter only adds DIRTY / a higher QoS, or -- from an unlocked, runnable state in which nobody holds
 * width -- makes ITSELF the barrier owner (full width); it never touches the suspend count or the enqueued bits */
#define __VERIF_GUARANTEE(p, ov, nv, mo) ((const volatile void *)(p) != H_rely_ptr || \
	((((nv) ^ (ov)) & (DISPATCH_QUEUE_SUSPEND_BITS_MASK | DISPATCH_QUEUE_ENQUEUED | DISPATCH_QUEUE_ENQUEUED_ON_MGR | DISPATCH_QUEUE_ROLE_MASK)) == 0 && \
	 ((((nv) ^ (ov)) & DISPATCH_QUEUE_IN_BARRIER) == 0 || (((ov) & DISPATCH_QUEUE_DRAIN_OWNER_MASK) == 0 && (ov) < DISPATCH_QUEUE_WIDTH_FULL_BIT))))
#else
#define DQ_STUB_REFS 1
#define DQ_STUB_TARGET 1
#include "contracts/common/dq_common.h"
#define CALL_BARRIER_COMPLETE 62
#define CALL_WAKEUP_WITH_OVERRIDE 52
const volatile void *H_qflags_ptr;
struct dispatch_sync_context_s H_dsc; struct dispatch_continuation_s H_prev;
static void _dispatch_lane_barrier_complete(dispatch_lane_class_t dqu, dispatch_qos_t qos, dispatch_wakeup_flags_t flags) { (void)qos; __verif_event(EV_CALL, 0, dqu._dl, CALL_BARRIER_COMPLETE, flags); }
static void _dispatch_queue_wakeup_with_override(dispatch_queue_class_t dq, uint64_t dq_state, dispatch_wakeup_flags_t flags) { (void)dq_state; __verif_event(EV_CALL, 0, dq._dq, CALL_WAKEUP_WITH_OVERRIDE, flags); }
#define TAIL_P ((const volatile void *)&H_lane.dq_items_tail)
#define STATE_P ((const volatile void *)&H_lane.dq_state)
#define WAS_EMPTY (LOGA(1) == 0)
/* log: [0] item->do_next = NULL, [1] tail xchg, [2] link (head or prev->do_next), then (first item) [3] dq_state commit, [4] call */
#define S_O LOGA(3)
#define S_N LOGB(3)
#define HELD(s, w) (S_WIDTH13(s) - (DISPATCH_QUEUE_WIDTH_FULL - (w)) - (S_PENDING_B(s) ? (w) - 1 : 0))
#define WACC(s, w) (!S_IN_BARRIER(s) && S_WIDTH13(s) >= (DISPATCH_QUEUE_WIDTH_FULL - (w)) + (S_PENDING_B(s) ? (w) - 1 : 0) && HELD(s, w) <= (w))
VERIF_CONTRACT_VOID(_dispatch_lane_push_waiter, (dispatch_lane_t dq, dispatch_sync_context_t dsc, dispatch_qos_t qos),
  REQ(dq == H_DQ && dsc == &H_dsc && __verif_n == 0 && VALID_TID(H_SELF) && VALID_WIDTH(H_lane.dq_width) && H_lane.dq_width <= DISPATCH_QUEUE_WIDTH_MAX && qos <= DISPATCH_QOS_MAX)
  REQ(!(H_dsc.dc_flags & DC_FLAG_ASYNC_AND_WAIT) && !(H_lane.dq_atomic_flags & DQF_THREAD_BOUND))
  ASG(VERIF_GHOST, H_lane.dq_state, H_lane.dq_items_tail, H_lane.dq_items_head, H_dsc.do_next, H_prev.do_next, H_dsc.dsc_wlh_was_first)
  ENS(log_bounded, __verif_n >= 3 && __verif_n <= 6 && IS_COMMIT(1, TAIL_P) && VMO_IS_REL(LOGM(1)))
  /* the waiter that makes the queue non-empty ALWAYS marks it DIRTY (release): a drainer about to unlock re-checks, see drain_try_unlock */
  ENS(first_waiter_always_dirties_the_queue, VIMPL(WAS_EMPTY, IS_COMMIT(3, STATE_P) && VMO_IS_REL(LOGM(3)) && (S_DIRTY(S_N) || ((S_N ^ S_O) & DISPATCH_QUEUE_IN_BARRIER))))
  /* it makes itself the barrier owner only from an unlocked, runnable state in which NOBODY holds width (C02 / C04), never while suspended (C06) */
  ENS(takes_the_barrier_only_when_nobody_owns_or_holds_the_queue, VIMPL(WAS_EMPTY && ((S_N ^ S_O) & DISPATCH_QUEUE_IN_BARRIER),
        !S_LOCKED(S_O) && S_RUNNABLE(S_O) && !S_SUSPENDED(S_O) && S_OWNER(S_N) == H_SELF && S_FULL(S_N) && S_IN_BARRIER(S_N)
        && VIMPL(WACC(S_O, H_lane.dq_width), HELD(S_O, H_lane.dq_width) == 0)))
  ENS(barrier_taken_is_immediately_completed_for_the_head_waiter, VIMPL(WAS_EMPTY && ((S_N ^ S_O) & DISPATCH_QUEUE_IN_BARRIER),
        __verif_n == 5 && LOGK(4) == EV_CALL && LOGA(4) == CALL_BARRIER_COMPLETE && LOGB(4) == 0))
  ENS(otherwise_the_owner_or_resume_will_find_dirty, VIMPL(WAS_EMPTY && !((S_N ^ S_O) & DISPATCH_QUEUE_IN_BARRIER),
        (S_LOCKED(S_O) || !S_RUNNABLE(S_O) || HELD(S_O, H_lane.dq_width) != 0 || !WACC(S_O, H_lane.dq_width)) && (S_N & ~(DISPATCH_QUEUE_DIRTY | DISPATCH_QUEUE_MAX_QOS_MASK | DISPATCH_QUEUE_RECEIVED_OVERRIDE)) == (S_O & ~(DISPATCH_QUEUE_DIRTY | DISPATCH_QUEUE_MAX_QOS_MASK | DISPATCH_QUEUE_RECEIVED_OVERRIDE))))
  /* a waiter queued behind other items changes nothing but (possibly) the QoS */
  ENS(later_waiter_only_overrides, VIMPL(!WAS_EMPTY, __verif_n == 3 || (IS_COMMIT(3, STATE_P) && ((S_N ^ S_O) & ~(DISPATCH_QUEUE_MAX_QOS_MASK | DISPATCH_QUEUE_RECEIVED_OVERRIDE)) == 0)))
)
void harness(void)
{
	h_setup_lane(); h_setup_target();
	__CPROVER_assume(H_lane.dq_width <= DISPATCH_QUEUE_WIDTH_MAX);
	H_dsc.dc_flags = DC_FLAG_SYNC_WAITER | (ND_BOOL() ? DC_FLAG_BARRIER : 0); H_dsc.dc_data = ND_BOOL() ? DISPATCH_WLH_ANON : (void *)H_DQ; H_dsc.dsc_waiter = H_SELF;
	*(uint16_t *)&H_lane.__dq_opaque2 = 0;   /* the flag half of dq_atomic_flags (union with dq_width): not thread-bound */
	H_lane.dq_priority = ND(dispatch_priority_t);
	dispatch_qos_t qos = ND(dispatch_qos_t); __CPROVER_assume(qos <= DISPATCH_QOS_MAX);
	H_qflags_ptr = &H_lane.dq_atomic_flags; H_rely_ptr = &H_lane.dq_state; H_relyp_ptr = &H_lane.dq_items_tail; H_relyp_val = (unsigned long long)(uintptr_t)&H_prev;
	__verif_ptrloc = &H_lane.dq_items_tail; __verif_ptrobj = &H_prev;
	_dispatch_lane_push_waiter(H_DQ, &H_dsc, qos);
	VERIF_POST_VOID(_dispatch_lane_push_waiter, H_DQ, &H_dsc, qos);
	VERIF_REACH(took_the_barrier, WAS_EMPTY && ((S_N ^ S_O) & DISPATCH_QUEUE_IN_BARRIER));
	VERIF_REACH(left_dirty_for_the_owner, WAS_EMPTY && S_LOCKED(S_O) && S_DIRTY(S_N));
	VERIF_CANARY();
}
#endif
