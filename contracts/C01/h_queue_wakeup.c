/*VERIF
{ "tu": "src/queue.c", "enforce": "_dispatch_queue_wakeup", "props": ["C01", "C05", "C06", "C15", "C17"], "nondet_volatile": true, "timeout": 300,
  "assumes": ["a lane never has the BASE_WLH role on a platform without kevent workloops (inherit_wlh_from_target contract)"],
  "stub_note": "_dispatch_queue_push_queue (= one dx_push on the target), _dispatch_queue_wakeup_with_override, _dispatch_lane_class_barrier_complete (own contract: h_lane_class_barrier_complete), retain_2 / release_2: logged calls" }
VERIF*/
#ifdef VERIF_PRE
extern const volatile void *H_rely_ptr;
extern const volatile void *H_tq_ptr;
#define __VERIF_RELY(p, v) (((const volatile void *)(p) != H_rely_ptr || !(((unsigned long long)(v)) & DISPATCH_QUEUE_ROLE_BASE_WLH)) && \
	((const volatile void *)(p) != H_tq_ptr || (unsigned long long)(v) != 0))   /* an active queue always has a target */
/* guarantee of a wakeup on dq_state: only ever ADDS the enqueued bit, DIRTY and a higher max-QoS (+ the override mark); never
 * touches the lock, the width, the barrier or the suspend count */
#define __VERIF_GUARANTEE(p, ov, nv, mo) ((const volatile void *)(p) != H_rely_ptr || \
	((((nv) ^ (ov)) & ~(DISPATCH_QUEUE_ENQUEUED | DISPATCH_QUEUE_ENQUEUED_ON_MGR | DISPATCH_QUEUE_DIRTY | DISPATCH_QUEUE_MAX_QOS_MASK | DISPATCH_QUEUE_RECEIVED_OVERRIDE)) == 0 && \
	 ((ov) & ~(nv) & (DISPATCH_QUEUE_ENQUEUED | DISPATCH_QUEUE_ENQUEUED_ON_MGR | DISPATCH_QUEUE_DIRTY | DISPATCH_QUEUE_RECEIVED_OVERRIDE)) == 0))
#else
#define DQ_STUB_REFS 1
#define DQ_STUB_TARGET 1
#define H_LANE_TYPE DISPATCH_SOURCE_KEVENT_TYPE
#include "contracts/common/dq_common.h"
#define CALL_CLASS_COMPLETE 43
#define CALL_WAKEUP_WITH_OVERRIDE 52
static inline void _dispatch_queue_push_queue(dispatch_queue_t tq, dispatch_queue_class_t dq, uint64_t dq_state)
{ __verif_event(EV_PUSH, 0, tq, (unsigned long long)(uintptr_t)dq._dq, _dq_state_max_qos(dq_state)); }
static void _dispatch_queue_wakeup_with_override(dispatch_queue_class_t dq, uint64_t dq_state, dispatch_wakeup_flags_t flags) { (void)dq_state; __verif_event(EV_CALL, 0, dq._dq, CALL_WAKEUP_WITH_OVERRIDE, flags); }
uint64_t H_cc_owned; dispatch_queue_wakeup_target_t H_cc_target; dispatch_wakeup_flags_t H_cc_flags;
static void _dispatch_lane_class_barrier_complete(dispatch_lane_t dq, dispatch_qos_t qos, dispatch_wakeup_flags_t flags, dispatch_queue_wakeup_target_t target, uint64_t owned)
{ (void)qos; H_cc_owned = owned; H_cc_target = target; H_cc_flags = flags; __verif_event(EV_CALL, 0, dq, CALL_CLASS_COMPLETE, 0); }
const volatile void *H_tq_ptr;
dispatch_queue_wakeup_target_t H_tgt; dispatch_wakeup_flags_t H_flags0;
#define STATE_P ((const volatile void *)&H_lane.dq_state)
/* index of the dq_state commit in the log (after the optional retain_2) */
#define RETAINED (LOGK(0) == EV_RETAIN)
#define CI (RETAINED ? 1u : 0u)
#define HAS_COMMIT (__verif_n > CI && IS_COMMIT(CI, STATE_P))
#define S_O LOGA(CI)
#define S_N LOGB(CI)
#define S_ENQ_ANY(s) (S_ENQUEUED(s) || S_ENQ_MGR(s))
#define CAN_ENQ(s) (!S_SUSPENDED(s) && !S_ENQ_ANY(s) && !S_LOCKED(s))
#define WANT (H_tgt == DISPATCH_QUEUE_WAKEUP_TARGET && !(H_flags0 & DISPATCH_WAKEUP_BARRIER_COMPLETE))
VERIF_CONTRACT_VOID(_dispatch_queue_wakeup, (dispatch_queue_class_t dqu, dispatch_qos_t qos, dispatch_wakeup_flags_t flags, dispatch_queue_wakeup_target_t target),
  REQ(dqu._dl == H_DQ && __verif_n == 0 && VALID_TID(H_SELF) && target == H_tgt && flags == H_flags0 && qos <= DISPATCH_QOS_MAX)
  REQ(H_tgt == DISPATCH_QUEUE_WAKEUP_NONE || H_tgt == DISPATCH_QUEUE_WAKEUP_TARGET)
  ASG(H_lane.dq_state, VERIF_GHOST, H_cc_owned, H_cc_target, H_cc_flags)
  ENS(log_bounded, __verif_n <= 4)
  /* a wakeup that names a target holds a +2 on the queue until it is handed to the push (or given back) */
  ENS(plus_two_is_taken_first_unless_the_caller_brought_it, VIMPL(H_tgt != DISPATCH_QUEUE_WAKEUP_NONE, RETAINED == !(H_flags0 & DISPATCH_WAKEUP_CONSUME_2) && VIMPL(RETAINED, LOGA(0) == 2 && LOGP(0) == (void *)H_DQ)))
  /* MAKE_DIRTY always lands in dq_state, with release order: whoever holds the lock cannot unlock without seeing it (drain_try_unlock) */
  ENS(make_dirty_is_always_published_with_release, VIMPL(WANT && (H_flags0 & DISPATCH_WAKEUP_MAKE_DIRTY), HAS_COMMIT && S_DIRTY(S_N) && VMO_IS_REL(LOGM(CI))))
  /* enqueue exactly when the queue is neither suspended, nor already enqueued, nor owned by a drainer -- and then push it, once */
  ENS(enqueued_exactly_when_nobody_else_is_responsible, VIMPL(WANT && HAS_COMMIT, (S_ENQUEUED(S_N) && !S_ENQUEUED(S_O)) == CAN_ENQ(S_O)))
  ENS(newly_enqueued_queue_is_pushed_to_its_target_exactly_once, VIMPL(WANT && HAS_COMMIT && CAN_ENQ(S_O),
        __verif_n == CI + 3 && LOGK(CI + 1) == EV_FENCE /* the target pointer is read after the state (dependency order) */
        && LOGK(CI + 2) == EV_PUSH && LOGP(CI + 2) == (void *)&H_target && LOGA(CI + 2) == (unsigned long long)(uintptr_t)H_DQ))
  /* otherwise the obligation stays with a named party: the item already enqueued, the lock owner (who will find DIRTY), or resume */
  ENS(otherwise_the_obligation_stays_with_a_named_party, VIMPL(WANT && HAS_COMMIT && !CAN_ENQ(S_O), S_SUSPENDED(S_N) || S_ENQ_ANY(S_N) || S_LOCKED(S_N)))
  ENS(not_enqueued_means_no_push_and_the_plus_two_is_given_back, VIMPL(WANT && !(HAS_COMMIT && CAN_ENQ(S_O)),
        __verif_n >= 1 && LOGK(LAST) != EV_PUSH && ((LOGK(LAST) == EV_RELEASE && LOGA(LAST) == 2 && LOGP(LAST) == (void *)H_DQ) || (LOGK(LAST) == EV_CALL && LOGA(LAST) == CALL_WAKEUP_WITH_OVERRIDE))))
  ENS(no_commit_only_when_nothing_would_change, VIMPL(WANT && !HAS_COMMIT, !(H_flags0 & DISPATCH_WAKEUP_MAKE_DIRTY) && __verif_last_load_p == STATE_P && !CAN_ENQ(__verif_last_load)))
  /* barrier completion of a source is delegated with the serial drain ownership */
  ENS(barrier_complete_is_delegated_with_serial_ownership, VIMPL(H_flags0 & DISPATCH_WAKEUP_BARRIER_COMPLETE,
        __verif_n >= 1 && LOGK(LAST) == EV_CALL && LOGA(LAST) == CALL_CLASS_COMPLETE && H_cc_owned == DISPATCH_QUEUE_SERIAL_DRAIN_OWNED && H_cc_target == H_tgt
        && (H_cc_flags & DISPATCH_WAKEUP_BARRIER_COMPLETE) && VIMPL(H_tgt != DISPATCH_QUEUE_WAKEUP_NONE, H_cc_flags & DISPATCH_WAKEUP_CONSUME_2)))
  /* no target: at most a QoS override of an enqueued, drain-locked queue; the lock / enqueued / dirty bits are untouched (guarantee) */
  ENS(untargeted_wakeup_only_overrides, VIMPL(H_tgt == DISPATCH_QUEUE_WAKEUP_NONE && !(H_flags0 & DISPATCH_WAKEUP_BARRIER_COMPLETE) && HAS_COMMIT,
        ((S_N ^ S_O) & ~(DISPATCH_QUEUE_MAX_QOS_MASK | DISPATCH_QUEUE_RECEIVED_OVERRIDE)) == 0 && S_LOCKED(S_O) && S_ENQUEUED(S_O)))
)
void harness(void)
{
	h_setup_lane(); h_setup_target();
	H_tgt = ND_BOOL() ? DISPATCH_QUEUE_WAKEUP_TARGET : DISPATCH_QUEUE_WAKEUP_NONE; H_flags0 = ND(dispatch_wakeup_flags_t);
	dispatch_qos_t qos = ND(dispatch_qos_t); __CPROVER_assume(qos <= DISPATCH_QOS_MAX);
	H_rely_ptr = &H_lane.dq_state; H_tq_ptr = &H_lane.do_targetq; __verif_ptrloc = &H_lane.do_targetq; __verif_ptrobj = &H_target;
	H_lane.dq_priority = ND(dispatch_priority_t);
	_dispatch_queue_wakeup(H_DQ, qos, H_flags0, H_tgt);
	VERIF_POST_VOID(_dispatch_queue_wakeup, (dispatch_queue_class_t){ ._dl = H_DQ }, qos, H_flags0, H_tgt);
	VERIF_REACH(pushed, __verif_n >= 1 && LOGK(LAST) == EV_PUSH);
	VERIF_REACH(left_with_the_lock_owner, WANT && HAS_COMMIT && S_LOCKED(S_O) && S_DIRTY(S_N) && !S_ENQUEUED(S_N));
	VERIF_CANARY();
}
#endif
