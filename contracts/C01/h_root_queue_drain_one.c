/*VERIF
{ "tu": "src/queue.c", "enforce": "_dispatch_root_queue_drain_one", "props": ["C01", "C05"], "nondet_volatile": true, "timeout": 300,
  "cut_goto": {"_dispatch_root_queue_drain_one": ["start"]},
  "assumes": ["MPSC discipline of the root queue list: at any time the head word holds NULL, the MEDIATOR marker, or the first queued item; other workers and enqueuers change it at any time (every load is arbitrary among those)",
              "the three retries (goto start) are cut points: checked that nothing has been taken from the queue and no marker of this thread is left behind when it starts over",
              "the item's do_next is read as an arbitrary value (an enqueuer may be linking a successor)"],
  "stub_note": "__DISPATCH_ROOT_QUEUE_CONTENDED_WAIT__ (back-off loop: arbitrary verdict), _dispatch_wait_for_enqueuer (returns the successor once linked), _dispatch_root_queue_poke (own contract: h_root_queue_poke): logged" }
VERIF*/
#ifdef VERIF_PRE
#else
#include "contracts/common/dq_common.h"
#define CALL_POKE 91
#define CALL_CUT 92
struct dispatch_queue_global_s H_rq; struct dispatch_continuation_s H_item, H_succ; unsigned H_waits_enq; _Bool H_bad;
#define MEDIATOR_V ((unsigned long long)(uintptr_t)DISPATCH_ROOT_QUEUE_MEDIATOR)
#define ITEM_V ((unsigned long long)(uintptr_t)&H_item)
#define SUCC_V ((unsigned long long)(uintptr_t)&H_succ)
#define HEAD_P ((const volatile void *)&H_rq.dq_items_head)
#define TAIL_P ((const volatile void *)&H_rq.dq_items_tail)
void _dispatch_root_queue_poke(dispatch_queue_global_t dq, int n, int floor) { __verif_event(EV_CALL, 0, dq, CALL_POKE, ((unsigned long long)(unsigned)n << 32) | (unsigned)floor); }
static bool __DISPATCH_ROOT_QUEUE_CONTENDED_WAIT__(dispatch_queue_global_t dq, int (*predicate)(dispatch_queue_global_t dq)) { (void)predicate; if (dq != &H_rq) H_bad = 1; return ND_BOOL(); }
void *_dispatch_wait_for_enqueuer(void **ptr) { if (ptr != (void **)&H_item.do_next) H_bad = 1; H_waits_enq++; return &H_succ; }
/* start over: this thread holds nothing - what its exchange got was NULL or the marker of ANOTHER drainer, and if it had put its own marker
 * over NULL that marker is gone again (its compare-and-swap back to NULL failed only because an enqueuer already overwrote it) */
void __verif_cut_backjump(void)
{	VERIF_REACH(retry_reached, 1);
	VERIF_ASSERT(a_retry_never_holds_an_item_and_leaves_no_marker_of_its_own, __verif_n >= 1 && IS_COMMIT(0, HEAD_P) && LOGB(0) == MEDIATOR_V && (LOGA(0) == 0 || LOGA(0) == MEDIATOR_V)
		&& VIMPL(LOGA(0) == MEDIATOR_V, __verif_n == 1) && VIMPL(LOGA(0) == 0, __verif_n == 1 || (__verif_n == 2 && IS_COMMIT(1, HEAD_P) && LOGA(1) == MEDIATOR_V && LOGB(1) == 0)));
	__CPROVER_assume(0); }
#define RET ((unsigned long long)(uintptr_t)__CPROVER_return_value)
#define TOOK (IS_COMMIT(0, HEAD_P) && LOGB(0) == MEDIATOR_V)
VERIF_CONTRACT(struct dispatch_object_s *, _dispatch_root_queue_drain_one, (dispatch_queue_global_t dq),
  REQ(dq == &H_rq && __verif_n == 0 && !H_bad && H_waits_enq == 0)
  ASG(VERIF_GHOST, H_rq.dq_items_head, H_rq.dq_items_tail, H_bad, H_waits_enq)
  ENS(log_bounded, __verif_n >= 1 && __verif_n <= 6 && TOOK && !H_bad)
  /* no double dequeue: an item is only ever returned by the thread whose exchange took it out of the head word while putting the MEDIATOR there;
   * whoever exchanges next sees the marker, not the item */
  ENS(a_returned_item_is_the_one_this_threads_exchange_removed_from_the_head, VIMPL(RET != 0, LOGA(0) == RET && RET == ITEM_V))
  /* nothing to do is reported only for an empty list (own marker taken back: MEDIATOR -> NULL) or when another drainer owns the head */
  ENS(null_means_empty_with_the_marker_taken_back_or_another_drainer_at_work, VIMPL(RET == 0,
        (LOGA(0) == MEDIATOR_V && __verif_n == 1) || (LOGA(0) == 0 && __verif_n == 2 && IS_COMMIT(1, HEAD_P) && LOGA(1) == MEDIATOR_V && LOGB(1) == 0)))
  /* the marker never stays: the head is handed on - to the successor, with ONE poke so that another worker comes for it (no stranded items), or
   * cleared when this was the last item (tail swung from the item to NULL with release; if that fails an enqueuer is linking a successor: wait for it) */
  ENS(head_is_handed_to_the_successor_with_exactly_one_poke, VIMPL(RET != 0 && !(IS_COMMIT(LAST, TAIL_P)),
        LOGK(LAST) == EV_CALL && LOGA(LAST) == CALL_POKE && LOGP(LAST) == (void *)&H_rq && LOGB(LAST) == (1ull << 32) && IS_COMMIT(LAST - 1, HEAD_P) && LOGB(LAST - 1) != 0))
  ENS(last_item_clears_head_then_tail_with_release_and_does_not_poke, VIMPL(RET != 0 && IS_COMMIT(LAST, TAIL_P),
        LOGA(LAST) == RET && LOGB(LAST) == 0 && VMO_IS_REL(LOGM(LAST)) && IS_COMMIT(LAST - 1, HEAD_P) && LOGB(LAST - 1) == 0 && __verif_n == 3))
  ENS(a_successor_being_linked_is_waited_for_not_dropped, VIMPL(H_waits_enq != 0, H_waits_enq == 1 && RET != 0 && LOGK(LAST) == EV_CALL && LOGB(LAST - 1) == SUCC_V))
)
void harness(void)
{
	h_setup_lane(); H_bad = 0; H_waits_enq = 0;
	__verif_ptrloc = &H_rq.dq_items_head; __verif_ptrobj = &H_item; __verif_ptralt = MEDIATOR_V;
	struct dispatch_object_s *r = _dispatch_root_queue_drain_one(&H_rq);
	VERIF_POST(_dispatch_root_queue_drain_one, r, &H_rq);
	VERIF_REACH(took_last_item, r != 0 && IS_COMMIT(LAST, TAIL_P));
	VERIF_REACH(handed_on, r != 0 && LOGK(LAST) == EV_CALL);
	VERIF_REACH(waited_for_enqueuer, H_waits_enq == 1);
	VERIF_CANARY();
}
#endif
