/*VERIF
{ "tu": "src/queue.c", "enforce": "_dispatch_lane_drain_barrier_waiter", "props": ["C01", "C02", "C05"], "nondet_volatile": true, "timeout": 300,
  "cut_goto": {"_dispatch_lane_drain_barrier_waiter": ["transfer_lock_again"]},
  "assumes": ["rely: while this thread owns the barrier, dq_state is IN_BARRIER + full width + drain-locked by it, and an enqueued bit it still owns (was dequeued for) is set (guarantee of the lock-taking contracts of C02); a lane never has the BASE_WLH role on this platform"],
  "stub_note": "_dispatch_queue_pop_head (MPSC pop of the head: b_lane_drain), _dispatch_barrier_waiter_redirect_or_wake (own contract: h_barrier_waiter_redirect_or_wake): logged" }
VERIF*/
#ifdef VERIF_PRE
extern const volatile void *H_rely_ptr; extern unsigned long long H_rely_owner, H_rely_enq;
#define __VERIF_RELY(p, v) ((const volatile void *)(p) != H_rely_ptr || \
	((((unsigned long long)(v)) & DISPATCH_QUEUE_IN_BARRIER) && (((unsigned long long)(v)) & DISPATCH_QUEUE_WIDTH_MASK) == DISPATCH_QUEUE_WIDTH_FULL_BIT && \
	 (((unsigned long long)(v)) & DISPATCH_QUEUE_DRAIN_OWNER_MASK) == H_rely_owner && !(((unsigned long long)(v)) & DISPATCH_QUEUE_ROLE_BASE_WLH) && \
	 (((unsigned long long)(v)) & H_rely_enq) == H_rely_enq))   /* an enqueued bit this drainer still has to give back is set */
/* guarantee: the only write is the ownership transfer: owner := waiter, DIRTY and the unlock-mask bits dropped, enqueued bits given back as asked;
 * the barrier / width / suspend bits are not touched -- the queue is never left unowned in between */
#define __VERIF_GUARANTEE(p, ov, nv, mo) ((const volatile void *)(p) != H_rely_ptr || \
	(VMO_IS_REL(mo) && ((nv) & DISPATCH_QUEUE_DRAIN_OWNER_MASK) != 0 && (((nv) ^ (ov)) & (DISPATCH_QUEUE_IN_BARRIER | DISPATCH_QUEUE_WIDTH_MASK | DISPATCH_QUEUE_SUSPEND_BITS_MASK | DISPATCH_QUEUE_ROLE_MASK)) == 0))
#else
#define DQ_STUB_REFS 1
#define DQ_STUB_TARGET 1
#include "contracts/common/dq_common.h"
enum { K_POP = 180, K_REDIRECT };
unsigned long long H_rely_owner, H_rely_enq; struct dispatch_sync_context_s H_dsc; struct dispatch_continuation_s H_next; _Bool H_has_next;
uint64_t H_r_old, H_r_new; dispatch_wakeup_flags_t H_r_flags;
static inline struct dispatch_object_s *_dispatch_queue_pop_head(dispatch_lane_class_t dq, struct dispatch_object_s *dc) { __verif_event(K_POP, 0, dq._dl, (unsigned long long)(uintptr_t)dc, 0); return H_has_next ? (struct dispatch_object_s *)&H_next : 0; }
static void _dispatch_barrier_waiter_redirect_or_wake(dispatch_queue_class_t dqu, dispatch_object_t dc, dispatch_wakeup_flags_t flags, uint64_t old_state, uint64_t new_state)
{ H_r_old = old_state; H_r_new = new_state; H_r_flags = flags; __verif_event(K_REDIRECT, 0, dqu._dl, (unsigned long long)(uintptr_t)dc._dc, 0); }
static inline void __verif_cut_backjump(void)
{	/* the retry exists only for work-loop base queues (kevent work loops): excluded by the rely on this platform */
	VERIF_ASSERT(retry_only_for_workloop_base_queues, 0); __CPROVER_assume(0);
}
uint32_t H_waiter_tid; uint64_t H_enq_bits; dispatch_wakeup_flags_t H_wf;
#define S_O LOGA(1)
#define S_N LOGB(1)
VERIF_CONTRACT_VOID(_dispatch_lane_drain_barrier_waiter, (dispatch_lane_t dq, struct dispatch_object_s *dc, dispatch_wakeup_flags_t flags, uint64_t enqueued_bits),
  REQ(dq == H_DQ && dc == (struct dispatch_object_s *)&H_dsc && flags == H_wf && enqueued_bits == H_enq_bits && (H_enq_bits == 0 || H_enq_bits == DISPATCH_QUEUE_ENQUEUED || H_enq_bits == DISPATCH_QUEUE_ENQUEUED_ON_MGR) && H_rely_enq == H_enq_bits && __verif_n == 0)
  REQ(VALID_TID(H_SELF) && VALID_TID(H_waiter_tid) && H_dsc.dsc_waiter == H_waiter_tid)
  ASG(VERIF_GHOST, H_lane.dq_state, H_r_old, H_r_new, H_r_flags)
  ENS(log_bounded, __verif_n == 3 && LOGK(0) == K_POP && LOGA(0) == (unsigned long long)(uintptr_t)&H_dsc && IS_COMMIT(1, &H_lane.dq_state) && LOGK(2) == K_REDIRECT)
  /* ownership goes from this thread to the WAITER in one release step: the queue is never unowned, the waiter keeps barrier + full width */
  ENS(lock_is_transferred_to_the_waiter_in_one_release_step, VMO_IS_REL(LOGM(1)) && S_OWNER(S_N) == (uint64_t)H_waiter_tid && S_IN_BARRIER(S_N) && S_FULL(S_N) && S_OWNER(S_O) == H_SELF)
  /* the waiter becomes responsible for whatever was signalled to the old owner: DIRTY is consumed by the transfer (the waiter re-examines the queue when it completes) */
  ENS(dirty_and_override_marks_are_consumed_by_the_transfer, !S_DIRTY(S_N) && (S_N & (DISPATCH_QUEUE_RECEIVED_OVERRIDE | DISPATCH_QUEUE_RECEIVED_SYNC_WAIT | DISPATCH_QUEUE_SYNC_TRANSFER)) == 0)
  ENS(enqueued_bit_is_given_back_exactly_as_asked, (S_N & (DISPATCH_QUEUE_ENQUEUED | DISPATCH_QUEUE_ENQUEUED_ON_MGR)) == ((S_O - H_enq_bits) & (DISPATCH_QUEUE_ENQUEUED | DISPATCH_QUEUE_ENQUEUED_ON_MGR)))
  ENS(nothing_else_changes, ((S_N ^ S_O) & ~(DISPATCH_QUEUE_DRAIN_UNLOCK_MASK | DISPATCH_QUEUE_DIRTY | DISPATCH_QUEUE_ENQUEUED | DISPATCH_QUEUE_ENQUEUED_ON_MGR)) == 0)
  /* the waiter is then routed with exactly the states of that transfer and the caller's flags */
  ENS(waiter_is_routed_with_the_states_of_the_transfer, LOGP(2) == (void *)H_DQ && LOGA(2) == (unsigned long long)(uintptr_t)&H_dsc && H_r_old == S_O && H_r_new == S_N && H_r_flags == H_wf)
)
void harness(void)
{
	h_setup_lane(); h_setup_target();
	H_waiter_tid = ND(uint32_t); __CPROVER_assume(VALID_TID(H_waiter_tid)); H_dsc.dsc_waiter = H_waiter_tid;
	H_has_next = ND_BOOL(); H_wf = ND(dispatch_wakeup_flags_t); H_enq_bits = ND_BOOL() ? DISPATCH_QUEUE_ENQUEUED : ND_BOOL() ? DISPATCH_QUEUE_ENQUEUED_ON_MGR : 0; H_rely_enq = H_enq_bits;
	H_rely_ptr = &H_lane.dq_state; H_rely_owner = H_SELF;
	_dispatch_lane_drain_barrier_waiter(H_DQ, (struct dispatch_object_s *)&H_dsc, H_wf, H_enq_bits);
	VERIF_POST_VOID(_dispatch_lane_drain_barrier_waiter, H_DQ, (struct dispatch_object_s *)&H_dsc, H_wf, H_enq_bits);
	VERIF_CANARY();
}
#endif
