/*VERIF
{ "tu": "src/queue.c", "enforce": "_dispatch_lane_push", "props": ["C01", "C02", "C05", "C17"], "nondet_volatile": true, "timeout": 300,
  "assumes": ["the tail exchange returns NULL or the previously queued node (MPSC discipline: the tail only ever holds NULL or a live node)"],
  "stub_note": "dx_wakeup of the harness vtable (own contract: h_queue_wakeup), _dispatch_lane_push_waiter, retain_2: logged calls" }
VERIF*/
#ifdef VERIF_PRE
#include "contracts/common/dq_rely_pre.h"
#else
#define DQ_STUB_REFS 1
#define DQ_STUB_TARGET 1
#include "contracts/common/dq_common.h"
#define CALL_PUSH_WAITER 61
struct dispatch_continuation_s H_item, H_prev;
static void _dispatch_lane_push_waiter(dispatch_lane_t dq, dispatch_sync_context_t dsc, dispatch_qos_t qos) { (void)qos; __verif_event(EV_CALL, 0, dq, CALL_PUSH_WAITER, (unsigned long long)(uintptr_t)dsc); }
#define TAIL_P ((const volatile void *)&H_lane.dq_items_tail)
#define HEAD_P ((const volatile void *)&H_lane.dq_items_head)
#define ITEM_V ((unsigned long long)(uintptr_t)&H_item)
#define IS_WAITER ((H_item.dc_flags & (DC_FLAG_SYNC_WAITER | DC_FLAG_ASYNC_AND_WAIT)) != 0)
/* log of a plain push: [0] item->do_next = NULL, [1] tail exchange (release), then ... */
#define WAS_EMPTY (LOGA(1) == 0)
VERIF_CONTRACT_VOID(_dispatch_lane_push, (dispatch_lane_t dq, dispatch_object_t dou, dispatch_qos_t qos),
  REQ(dq == H_DQ && dou._dc == &H_item && __verif_n == 0 && VALID_TID(H_SELF) && H_item.dc_flags <= 0xffful && qos <= DISPATCH_QOS_MAX)
  ASG(VERIF_GHOST, H_lane.dq_items_tail, H_lane.dq_items_head, H_item.do_next, H_prev.do_next)
  ENS(log_bounded, __verif_n >= 1 && __verif_n <= 6)
  ENS(sync_waiters_take_the_waiter_path, VIMPL(IS_WAITER, __verif_n == 1 && LOGK(0) == EV_CALL && LOGA(0) == CALL_PUSH_WAITER && LOGB(0) == ITEM_V))
  /* MPSC publication: the item is terminated first, then becomes the tail with RELEASE order (its contents are visible to the drainer) */
  ENS(item_is_terminated_then_published_as_the_tail_with_release, VIMPL(!IS_WAITER,
        IS_COMMIT(0, &H_item.do_next) && LOGB(0) == 0 && IS_COMMIT(1, TAIL_P) && LOGB(1) == ITEM_V && VMO_IS_REL(LOGM(1))))
  /* the push that makes the queue non-empty is responsible for waking it: it takes the +2 BEFORE the item becomes reachable
   * from the head (else the item could run and drop the last reference first), then always wakes with MAKE_DIRTY */
  ENS(first_item_retains_before_it_becomes_reachable, VIMPL(!IS_WAITER && WAS_EMPTY,
        LOGK(2) == EV_RETAIN && LOGA(2) == 2 && LOGP(2) == (void *)H_DQ && IS_COMMIT(3, HEAD_P) && LOGB(3) == ITEM_V))
  ENS(first_item_always_wakes_the_queue_dirty, VIMPL(!IS_WAITER && WAS_EMPTY,
        __verif_n == 5 && LOGK(4) == EV_WAKEUP && LOGP(4) == (void *)H_DQ && LOGA(4) == (DISPATCH_WAKEUP_CONSUME_2 | DISPATCH_WAKEUP_MAKE_DIRTY)))
  /* behind other items: linked after the previous tail; no wakeup is needed (the pusher of the first item / the drainer owns it)
   * unless the QoS has to be raised, and then with a +2 and WITHOUT claiming to have dirtied the queue */
  ENS(later_item_is_linked_behind_the_previous_tail, VIMPL(!IS_WAITER && !WAS_EMPTY,
        LOGA(1) == (unsigned long long)(uintptr_t)&H_prev && IS_COMMIT(__verif_n == 3 ? 2 : 3, &H_prev.do_next) && LOGB(__verif_n == 3 ? 2 : 3) == ITEM_V))
  ENS(later_item_wakes_only_for_an_override, VIMPL(!IS_WAITER && !WAS_EMPTY,
        __verif_n == 3 || (__verif_n == 5 && LOGK(2) == EV_RETAIN && LOGA(2) == 2 && LOGK(4) == EV_WAKEUP && LOGA(4) == DISPATCH_WAKEUP_CONSUME_2)))
)
void harness(void)
{
	h_setup_lane(); h_setup_target();
	H_item.dc_flags = ND(uintptr_t); __CPROVER_assume(H_item.dc_flags <= 0xffful);
	H_item.do_vtable = 0;      /* a continuation (flags word), not an object */
	H_lane.dq_priority = ND(dispatch_priority_t);
	dispatch_qos_t qos = ND(dispatch_qos_t); __CPROVER_assume(qos <= DISPATCH_QOS_MAX);
	H_relyp_ptr = &H_lane.dq_items_tail; H_relyp_val = (unsigned long long)(uintptr_t)&H_prev;
	__verif_ptrloc = &H_lane.dq_items_tail; __verif_ptrobj = &H_prev;
	_dispatch_lane_push(H_DQ, (dispatch_object_t){ ._dc = &H_item }, qos);
	VERIF_POST_VOID(_dispatch_lane_push, H_DQ, (dispatch_object_t){ ._dc = &H_item }, qos);
	VERIF_REACH(first_item, !IS_WAITER && WAS_EMPTY);
	VERIF_REACH(override_wakeup, !IS_WAITER && !WAS_EMPTY && __verif_n == 5);
	VERIF_CANARY();
}
#endif
