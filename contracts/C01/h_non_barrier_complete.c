/*VERIF
{ "tu": "src/queue.c", "enforce": "_dispatch_lane_non_barrier_complete", "props": ["C01","C04","C05","C17","C10"],
  "nondet_volatile": true, "timeout": 180,
  "assumes": ["rely: observed dq_state values include the completing reader's own width unit"],
  "stub_note": "_dispatch_lane_barrier_complete, dx_push on the target, retain/release: logged call-outs (their own contracts: h_lane_barrier_complete, C17)" }
VERIF*/
#ifdef VERIF_PRE
#include "contracts/common/dq_rely_pre.h"
#else
#define DQ_STUB_REFS 1
#define DQ_STUB_TARGET 1
#include "contracts/common/dq_common.h"
#define CALL_BARRIER_COMPLETE 1
static void _dispatch_lane_barrier_complete(dispatch_lane_class_t dqu, dispatch_qos_t qos, dispatch_wakeup_flags_t flags)
{ __verif_event(EV_CALL, 0, dqu._dl, CALL_BARRIER_COMPLETE, flags); }
/* not called by the current code; its real body is one dx_push(tq, dq, max_qos(state)) whose union-to-union argument conversion CBMC rejects:
 * modelled as that push so that a version using the helper is judged by the same reference accounting */
static inline void _dispatch_queue_push_queue(dispatch_queue_t tq, dispatch_queue_class_t dq, uint64_t dq_state)
{ __verif_event(EV_PUSH, 0, tq, (unsigned long long)(uintptr_t)dq._dq, _dq_state_max_qos(dq_state)); }

/* log layout on every path: [0] the single dq_state commit, then the call-outs */
#define OLD LOGA(0)
#define NEW LOGB(0)
#define DEC (OLD - DISPATCH_QUEUE_WIDTH_INTERVAL)
/* "last reader": giving back one unit leaves nobody else holding width */
#define LAST_READER(w) (S_PENDING_B(DEC) ? S_WIDTH13(DEC) + 1 - 0 == DISPATCH_QUEUE_WIDTH_FULL + 0 && 1 : S_WIDTH13(DEC) + (w) == DISPATCH_QUEUE_WIDTH_FULL)
VERIF_CONTRACT_VOID(_dispatch_lane_non_barrier_complete, (dispatch_lane_t dq, dispatch_wakeup_flags_t flags),
  REQ(dq == H_DQ && __verif_n == 0 && VALID_WIDTH(dq->dq_width) && VALID_TID(H_SELF) && dq->do_targetq == (dispatch_queue_t)&H_target)
  ASG(dq->dq_state, VERIF_GHOST)
  ENS(first_event_is_the_single_commit, __verif_n >= 1 && IS_COMMIT(0, &dq->dq_state) &&
        VIMPL(__verif_n >= 2, LOGK(1) != EV_COMMIT) && VIMPL(__verif_n >= 3, LOGK(2) != EV_COMMIT) && __verif_n <= 3)
  /* the reader gives back exactly its one width unit */
  ENS(width_given_back_exactly_once, (NEW == DEC) || (NEW == (DEC | DISPATCH_QUEUE_DIRTY)) || (NEW == (DEC | DISPATCH_QUEUE_ENQUEUED))
        || (S_IN_BARRIER(NEW) && !S_IN_BARRIER(OLD)))
  /* someone holds the drain lock: force its unlock to fail and re-evaluate (never a silent give-back) */
  ENS(drain_locked_gets_dirty, VIMPL(S_LOCKED(OLD), NEW == (DEC | DISPATCH_QUEUE_DIRTY)))
  /* barrier take-over only by the last reader, and then the barrier is completed by this thread */
  ENS(takeover_only_when_last_reader, VIMPL(S_IN_BARRIER(NEW) && !S_IN_BARRIER(OLD),
        !S_LOCKED(OLD) && S_RUNNABLE(DEC) && S_OWNER(NEW) == H_SELF && !S_DIRTY(NEW) && S_WIDTH13(NEW) == DISPATCH_QUEUE_WIDTH_FULL
        && (S_PENDING_B(DEC) ? S_WIDTH13(DEC) + 1 == DISPATCH_QUEUE_WIDTH_FULL : S_WIDTH13(DEC) + dq->dq_width == DISPATCH_QUEUE_WIDTH_FULL)))
  ENS(takeover_calls_barrier_complete_exactly_once, VIMPL((OLD ^ NEW) & DISPATCH_QUEUE_IN_BARRIER,
        __verif_n == 2 + ((S_DIRTY(OLD)) ? 1 : 0) && LOGK(LAST) == EV_CALL && LOGA(LAST) == CALL_BARRIER_COMPLETE && LOGB(LAST) == flags))
  /* last chance to re-drive: a dirty, unlocked, runnable queue that is not taken over is enqueued on its target */
  ENS(dirty_unlocked_runnable_is_redriven, VIMPL(!S_LOCKED(OLD) && S_RUNNABLE(DEC) && S_DIRTY(OLD) && !(S_IN_BARRIER(NEW) && !S_IN_BARRIER(OLD)),
        S_ENQUEUED(NEW)))
  ENS(newly_enqueued_is_pushed_to_target_exactly_once, VIMPL(!((OLD ^ NEW) & DISPATCH_QUEUE_IN_BARRIER) && ((OLD ^ NEW) & DISPATCH_QUEUE_ENQUEUED),
        LOGK(LAST) == EV_PUSH && LOGP(LAST) == (void *)&H_target && LOGA(LAST) == (uintptr_t)dq
        && ((flags & DISPATCH_WAKEUP_CONSUME_2) ? __verif_n == 2 : (__verif_n == 3 && LOGK(1) == EV_RETAIN && LOGA(1) == 2))))
  ENS(otherwise_no_push_and_reference_balance, VIMPL(!((OLD ^ NEW) & (DISPATCH_QUEUE_IN_BARRIER | DISPATCH_QUEUE_ENQUEUED)),
        (flags & DISPATCH_WAKEUP_CONSUME_2) ? (__verif_n == 2 && LOGK(1) == EV_RELEASE && LOGA(1) == 2) : __verif_n == 1))
  ENS(never_blocks, VIMPL(__verif_n >= 2, LOGK(1) != EV_KWAIT) && VIMPL(__verif_n >= 3, LOGK(2) != EV_KWAIT))
)
void harness(void)
{
	h_setup_lane(); h_setup_target();
	H_RELY_HOLDING_WIDTH(1); /* the completing reader holds one unit */
	dispatch_wakeup_flags_t flags = ND(dispatch_wakeup_flags_t);
	_dispatch_lane_non_barrier_complete(H_DQ, flags);
	VERIF_POST_VOID(_dispatch_lane_non_barrier_complete, H_DQ, flags);
	VERIF_REACH(takeover, (LOGA(0) ^ LOGB(0)) & DISPATCH_QUEUE_IN_BARRIER);
	VERIF_REACH(enqueue, !((LOGA(0) ^ LOGB(0)) & DISPATCH_QUEUE_IN_BARRIER) && ((LOGA(0) ^ LOGB(0)) & DISPATCH_QUEUE_ENQUEUED));
	VERIF_CANARY();
}
#endif
