/*VERIF
{ "tu": "src/queue.c", "enforce": "_dispatch_root_queue_drain", "props": ["C01", "C18"], "seq": true, "timeout": 300, "deciding": ["postcondition", "assertion", "precondition", "loop"],
  "assumes": ["any number of items (loop contract); thread narrowing does not exist on this platform (_dispatch_queue_drain_should_narrow is the constant false)"],
  "stub_note": "_dispatch_root_queue_drain_one (own contract: h_root_queue_drain_one): hands out an item or NULL; _dispatch_continuation_pop_inline (invoking the item: C01/C02 invoke contracts): counts and checks the current queue; base-priority / work-loop / autorelease bookkeeping: stubs" }
VERIF*/
#ifdef VERIF_PRE
#include <stdint.h>
extern unsigned long long H_taken, H_popped; extern _Bool H_bad, H_last_null, H_narrowed; struct dispatch_object_s; extern struct dispatch_object_s *H_cur_item;
#else
#include "contracts/common/dq_common.h"
struct dispatch_queue_global_s H_rq; struct dispatch_continuation_s H_item[2];
unsigned long long H_taken, H_popped; _Bool H_bad, H_last_null, H_narrowed; struct dispatch_object_s *H_cur_item; dispatch_invoke_flags_t H_flags0;
static inline struct dispatch_object_s *_dispatch_root_queue_drain_one(dispatch_queue_global_t dq)
{	if (dq != &H_rq || H_taken != H_popped) H_bad = 1;
	if (ND_BOOL()) { H_last_null = 1; H_cur_item = 0; return 0; }
	__CPROVER_assume(H_taken < (1ull << 62)); H_taken++; H_last_null = 0; H_cur_item = (struct dispatch_object_s *)&H_item[H_taken & 1]; return H_cur_item; }
static inline void _dispatch_continuation_pop_inline(dispatch_object_t dou, dispatch_invoke_context_t dic, dispatch_invoke_flags_t flags, dispatch_queue_class_t dqu)
{	(void)dic; if (dou._do != H_cur_item || H_cur_item == 0 || dqu._dgq != &H_rq || flags != H_flags0 || H_popped + 1 != H_taken) H_bad = 1;
	/* C18: an item taken from a global queue runs with that global queue as the current queue */
	if (_dispatch_thread_getspecific(dispatch_queue_key) != (void *)&H_rq) H_bad = 1;
	H_popped++; }
static inline void _dispatch_init_basepri(dispatch_priority_t pri) { (void)pri; }
static inline void _dispatch_clear_basepri(void) { }
static inline bool _dispatch_reset_basepri_override(void) { return ND_BOOL(); }
static inline void _dispatch_wqthread_override_reset(void) { }
void _dispatch_last_resort_autorelease_pool_push(dispatch_invoke_context_t dic) { (void)dic; }
void _dispatch_last_resort_autorelease_pool_pop(dispatch_invoke_context_t dic) { (void)dic; }
VERIF_LOOP_CONTRACT(_dispatch_root_queue_drain, 0,
	__CPROVER_assigns(item, reset, H_taken, H_popped, H_bad, H_last_null, H_narrowed, H_cur_item)
	__CPROVER_loop_invariant(!H_bad && H_taken == H_popped && !H_narrowed && !H_last_null))
VERIF_CONTRACT_VOID(_dispatch_root_queue_drain, (dispatch_queue_global_t dq, dispatch_priority_t pri, dispatch_invoke_flags_t flags),
  REQ(dq == &H_rq && flags == H_flags0 && H_taken == 0 && H_popped == 0 && !H_bad && !H_last_null && !H_narrowed && _dispatch_thread_getspecific(dispatch_queue_key) == 0 && __dispatch_tsd.dispatch_wlh_key == 0)
  ASG(H_taken, H_popped, H_bad, H_last_null, H_narrowed, H_cur_item, __dispatch_tsd)
  /* every item this thread took out of the global queue is invoked by it exactly once, before the next one is taken - none is taken and dropped */
  ENS(every_item_taken_is_invoked_exactly_once_by_the_thread_that_took_it, !H_bad && H_popped == H_taken)
  /* the thread stops only when the queue handed it nothing, or when it was told to narrow right after finishing an item (then the successor, if
   * any, was already handed on with a poke by drain_one) */
  ENS(stops_only_on_an_empty_queue_or_when_asked_to_narrow, H_last_null || H_narrowed)
  ENS(the_thread_leaves_with_no_current_queue, _dispatch_thread_getspecific(dispatch_queue_key) == 0)
)
void harness(void)
{
	h_setup_lane(); H_taken = H_popped = 0; H_bad = 0; H_last_null = 0; H_narrowed = 0; H_flags0 = DISPATCH_INVOKE_REDIRECTING_DRAIN;
	__dispatch_tsd.dispatch_queue_key = 0; __dispatch_tsd.dispatch_wlh_key = 0;   /* a parked pool thread holds no queue and no work-loop reference */
	_dispatch_root_queue_drain(&H_rq, ND(dispatch_priority_t), H_flags0);
	VERIF_POST_VOID(_dispatch_root_queue_drain, &H_rq, 0, H_flags0);
	VERIF_REACH(many_items, H_popped >= 3);
	VERIF_CANARY();
}
#endif
