/*VERIF
{ "tu": "src/event/workqueue.c", "enforce": "_dispatch_workq_worker_unregister", "props": ["C01"], "seq": true, "timeout": 300, "cbmc_flags": ["--sat-solver", "cadical"], "unwind": 6, "unwind_fns": ["_dispatch_workq_worker_unregister"],
  "bounded": {"unwind": 6, "what": "pools with at most 4 registered workers (the statement that a worker is listed at most once needs a quantifier over the table; with <= 4 entries it is written out)"},
  "assumes": ["the table of registered worker ids of a pool is only touched under its lock (taken and released here: recorded)",
              "each worker is registered at most once (register side)"],
  "stub_note": "_dispatch_unfair_lock_lock / _unlock: recorded; thread id from the thread-local block" }
VERIF*/
#ifdef VERIF_PRE
#include <stdint.h>
extern uint32_t H_self; extern int H_pos, H_n0;
#else
#include "contracts/common/dq_common.h"
struct dispatch_queue_global_s H_rq; dispatch_tid H_tids[4]; uint32_t H_self; int H_pos, H_n0; unsigned H_locks, H_unlocks; _Bool H_bad; dispatch_tid H_last0, H_other0; int H_j;
static inline void _dispatch_unfair_lock_lock(dispatch_unfair_lock_t l) { if (H_locks != H_unlocks) H_bad = 1; (void)l; H_locks++; }
static inline void _dispatch_unfair_lock_unlock(dispatch_unfair_lock_t l) { (void)l; H_unlocks++; }
#define BUCKET DISPATCH_QOS_BUCKET(DISPATCH_QOS_DEFAULT)
#define MON (&_dispatch_workq_monitors[BUCKET])
VERIF_CONTRACT_VOID(_dispatch_workq_worker_unregister, (dispatch_queue_global_t root_q),
  REQ(root_q == &H_rq && MON->dq == &H_rq && MON->registered_tids == H_tids && MON->num_registered_tids == H_n0 && H_n0 >= 0 && H_n0 <= 4 && (uint32_t)__dispatch_tsd.tid == H_self && H_self != 0)
  REQ(H_pos >= -1 && H_pos < H_n0 && (H_pos < 0 || H_tids[H_pos] == H_self) && H_j >= 0 && H_j < H_n0 && H_j != H_pos && H_tids[H_j] == H_other0 && H_other0 != H_self && (H_n0 == 0 || H_tids[H_n0 - 1] == H_last0))
  REQ((H_pos == 0 || H_tids[0] != H_self) && (H_pos == 1 || H_tids[1] != H_self) && (H_pos == 2 || H_tids[2] != H_self) && (H_pos == 3 || H_tids[3] != H_self))
  REQ(H_locks == 0 && H_unlocks == 0 && !H_bad && _dispatch_priority_qos(H_rq.dq_priority) == 0)
  ASG(__CPROVER_object_whole(H_tids), __CPROVER_object_whole(_dispatch_workq_monitors), H_locks, H_unlocks, H_bad)
  ENS(the_table_is_changed_under_its_lock, H_locks == 1 && H_unlocks == 1 && !H_bad)
  /* the monitor counts a pool's runnable workers from this table: a worker that leaves removes exactly ITS entry (the last entry moves into the hole), every
   * other worker stays listed exactly once - a stale or lost entry would make the monitor mis-judge a stalled pool */
  ENS(exactly_the_leaving_workers_entry_is_removed, MON->num_registered_tids == (H_pos >= 0 ? H_n0 - 1 : H_n0))
  ENS(the_hole_is_filled_with_the_last_entry_and_the_tail_slot_is_cleared, VIMPL(H_pos >= 0, (H_pos == H_n0 - 1 || H_tids[H_pos] == H_last0) && H_tids[H_n0 - 1] == 0))
  ENS(every_other_worker_stays_listed, H_j == H_n0 - 1 ? (H_pos >= 0 ? H_tids[H_pos] == H_other0 : H_tids[H_j] == H_other0) : H_tids[H_j] == H_other0)
)
void harness(void)
{
	h_setup_lane(); H_self = (uint32_t)__dispatch_tsd.tid; H_bad = 0; H_locks = H_unlocks = 0;
	H_n0 = ND(int); H_pos = ND(int); H_j = ND(int); __CPROVER_assume(H_n0 >= 2 && H_n0 <= 4 && H_pos >= -1 && H_pos < H_n0 && H_j >= 0 && H_j < H_n0 && H_j != H_pos);
	H_other0 = ND(dispatch_tid); __CPROVER_assume(H_other0 != H_self); H_tids[H_j] = H_other0; if (H_pos >= 0) H_tids[H_pos] = H_self; 	for (int i = 0; i < 4; i++) if (i != H_pos) __CPROVER_assume(H_tids[i] != H_self);
	/* the worker is listed at most once: no other slot below num holds its id (ghost position H_pos is THE slot, or -1) */
	H_last0 = H_tids[H_n0 - 1];
	MON->dq = &H_rq; MON->registered_tids = H_tids; MON->num_registered_tids = H_n0; H_rq.dq_priority = 0;
	_dispatch_workq_worker_unregister(&H_rq);
	VERIF_POST_VOID(_dispatch_workq_worker_unregister, &H_rq);
	VERIF_CANARY();
}
#endif
