/*VERIF
{ "tu": "src/queue.c", "enforce": "_dispatch_lane_barrier_complete", "props": ["C01","C04","C06","C17"], "timeout": 200,
  "assumes": ["plain reads of dq_items_tail return the harness value (the barrier owner is the only dequeuer); the head load returns the queued item (MPSC discipline, or after waiting for the enqueuer)"],
  "stub_note": "_dispatch_lane_drain_barrier_waiter, _dispatch_lane_drain_non_barriers, _dispatch_lane_class_barrier_complete, retain: logged calls" }
VERIF*/
#ifdef VERIF_PRE
/* the (single) observation of dq_state made by this call is the ghost value H_state_val */
extern const volatile void *H_state_p; extern unsigned long long H_state_val;
#define __VERIF_RELY(p, v) ((const volatile void *)(p) != H_state_p || (unsigned long long)(v) == H_state_val)
#else
#define DQ_STUB_REFS 1
#include "contracts/common/dq_common.h"
struct dispatch_continuation_s H_item;
const volatile void *H_state_p; unsigned long long H_state_val;
#define CALL_DRAIN_WAITER 41
#define CALL_DRAIN_NON_BARRIERS 42
#define CALL_CLASS_COMPLETE 43
uint64_t H_cc_owned; dispatch_queue_wakeup_target_t H_cc_target; dispatch_wakeup_flags_t H_cc_flags;
static void _dispatch_lane_drain_barrier_waiter(dispatch_lane_t dq, struct dispatch_object_s *dc, dispatch_wakeup_flags_t flags, uint64_t enqueued_bits)
{ (void)enqueued_bits; __verif_event(EV_CALL, 0, dq, CALL_DRAIN_WAITER, (uintptr_t)dc); (void)flags; }
static void _dispatch_lane_drain_non_barriers(dispatch_lane_t dq, struct dispatch_object_s *dc, dispatch_wakeup_flags_t flags)
{ (void)flags; __verif_event(EV_CALL, 0, dq, CALL_DRAIN_NON_BARRIERS, (uintptr_t)dc); }
static void _dispatch_lane_class_barrier_complete(dispatch_lane_t dq, dispatch_qos_t qos, dispatch_wakeup_flags_t flags, dispatch_queue_wakeup_target_t target, uint64_t owned)
{ (void)qos; H_cc_owned = owned; H_cc_target = target; H_cc_flags = flags; __verif_event(EV_CALL, 0, dq, CALL_CLASS_COMPLETE, 0); }
void *_dispatch_wait_for_enqueuer(void **ptr) { (void)ptr; return &H_item; }
#define ITEM_IS_BARRIER ((H_item.dc_flags & DC_FLAG_BARRIER) != 0)
#define ITEM_IS_WAITER ((H_item.dc_flags & (DC_FLAG_SYNC_WAITER | DC_FLAG_ASYNC_AND_WAIT)) != 0)
#define SUSPENDED_SEEN (__verif_last_load_p == (const volatile void *)&H_lane.dq_state && S_SUSPENDED(__verif_last_load))
VERIF_CONTRACT_VOID(_dispatch_lane_barrier_complete, (dispatch_lane_class_t dqu, dispatch_qos_t qos, dispatch_wakeup_flags_t flags),
  REQ(H_state_p == &H_lane.dq_state && dqu._dl == H_DQ && __verif_n == 0 && VALID_WIDTH(H_lane.dq_width) && H_item.dc_flags <= 0xffful)
  ASG(VERIF_GHOST, H_cc_owned, H_cc_target, H_cc_flags)
  ENS(exactly_one_continuation_of_the_barrier, __verif_n >= 1 && __verif_n <= 2 && LOGK(LAST) == EV_CALL &&
        (LOGA(LAST) == CALL_DRAIN_WAITER || LOGA(LAST) == CALL_DRAIN_NON_BARRIERS || LOGA(LAST) == CALL_CLASS_COMPLETE))
  /* a sync waiter at the head receives the lock; queued readers are released; both only when the queue is NOT suspended */
  ENS(head_waiter_gets_the_lock, VIMPL(LOGA(LAST) == CALL_DRAIN_WAITER, H_lane.dq_items_tail != 0 && ITEM_IS_WAITER && (H_lane.dq_width == 1 || ITEM_IS_BARRIER) && LOGB(LAST) == (uintptr_t)&H_item && __verif_n == 1))
  ENS(readers_released_only_on_concurrent_queue_with_reader_at_head, VIMPL(LOGA(LAST) == CALL_DRAIN_NON_BARRIERS, H_lane.dq_items_tail != 0 && !ITEM_IS_BARRIER && H_lane.dq_width > 1 && __verif_n == 1))
  ENS(nothing_is_started_or_redriven_while_suspended, VIMPL(S_SUSPENDED(H_state_val), LOGA(LAST) == CALL_CLASS_COMPLETE && H_cc_target == DISPATCH_QUEUE_WAKEUP_NONE))
  /* otherwise the lock is released giving back the whole width, and the queue is re-driven on its target iff items remain and it is not suspended */
  ENS(release_gives_back_barrier_plus_full_width, VIMPL(LOGA(LAST) == CALL_CLASS_COMPLETE, H_cc_owned == DISPATCH_QUEUE_IN_BARRIER + H_lane.dq_width * DISPATCH_QUEUE_WIDTH_INTERVAL))
  ENS(empty_queue_is_not_redriven, VIMPL(LOGA(LAST) == CALL_CLASS_COMPLETE && H_lane.dq_items_tail == 0, H_cc_target == DISPATCH_QUEUE_WAKEUP_NONE && H_cc_flags == flags && __verif_n == 1))
  ENS(nonempty_queue_is_redriven_with_a_reference, VIMPL(LOGA(LAST) == CALL_CLASS_COMPLETE && H_cc_target != DISPATCH_QUEUE_WAKEUP_NONE,
        H_cc_target == DISPATCH_QUEUE_WAKEUP_TARGET && (H_cc_flags & DISPATCH_WAKEUP_CONSUME_2) && H_lane.dq_items_tail != 0 &&
        ((flags & DISPATCH_WAKEUP_CONSUME_2) ? __verif_n == 1 : (__verif_n == 2 && LOGK(0) == EV_RETAIN && LOGA(0) == 2))))
)
void harness(void)
{
	h_setup_lane();
	H_item.dc_flags = ND(uintptr_t);
	H_lane.dq_items_tail = ND_BOOL() ? (struct dispatch_object_s *)&H_item : 0;
	H_state_p = &H_lane.dq_state; H_state_val = ND(uint64_t);
	__verif_ptrloc = &H_lane.dq_items_head; __verif_ptrobj = &H_item;
	dispatch_qos_t qos = ND(dispatch_qos_t); dispatch_wakeup_flags_t flags = ND(dispatch_wakeup_flags_t);
	_dispatch_lane_barrier_complete(H_DQ, qos, flags);
	VERIF_POST_VOID(_dispatch_lane_barrier_complete, (dispatch_lane_class_t){ ._dl = H_DQ }, qos, flags);
	VERIF_REACH(handoff, LOGA(LAST) == CALL_DRAIN_WAITER);
	VERIF_REACH(readers, LOGA(LAST) == CALL_DRAIN_NON_BARRIERS);
	VERIF_REACH(redrive, LOGA(LAST) == CALL_CLASS_COMPLETE && H_cc_target == DISPATCH_QUEUE_WAKEUP_TARGET);
	VERIF_CANARY();
}
#endif
