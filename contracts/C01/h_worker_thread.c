/*VERIF
{ "tu": "src/queue.c", "enforce": "_dispatch_worker_thread", "props": ["C01", "C17"], "nondet_volatile": true, "timeout": 300, "deciding": ["postcondition", "assertion", "precondition", "loop"],
  "assumes": ["a pool thread of a global (not client-made pthread root) queue: no observer hooks and no thread-configure block; its thread-local priority is still unset (0)",
              "the park/unpark loop runs any number of times (loop contract); whether a park is ended by a poke or by the 5 s timeout is arbitrary"],
  "stub_note": "_dispatch_root_queue_drain (drain loop: h_root_queue_drain), dispatch_semaphore_wait on the pool's thread mediator (C08), dispatch_time (C12), _dispatch_get_priority, _dispatch_sigmask, _dispatch_reset_priority_and_voucher, _dispatch_workq_worker_register/_unregister (workqueue.c), _dispatch_root_queue_poke (h_root_queue_poke): counting / logging stubs" }
VERIF*/
#ifdef VERIF_PRE
#include <stdint.h>
extern unsigned long long H_drains, H_parks; extern _Bool H_bad, H_last_park_timed_out; extern unsigned H_registers, H_unregisters;
#else
#define DQ_STUB_REFS 1
#include "contracts/common/dq_common.h"
#define CALL_POKE 91
struct dispatch_queue_global_s H_rq; struct dispatch_pthread_root_queue_context_s H_pqc;
unsigned long long H_drains, H_parks; _Bool H_bad, H_last_park_timed_out; unsigned H_registers, H_unregisters; dispatch_priority_t H_pri0;
static void _dispatch_root_queue_drain(dispatch_queue_global_t dq, dispatch_priority_t pri, dispatch_invoke_flags_t flags)
{ (void)pri; if (dq != &H_rq || flags != DISPATCH_INVOKE_REDIRECTING_DRAIN || H_drains != H_parks || H_registers != ((H_pri0 & (DISPATCH_PRIORITY_FLAG_OVERCOMMIT | DISPATCH_PRIORITY_FLAG_MANAGER)) ? 0u : 1u) || H_unregisters) H_bad = 1; __CPROVER_assume(H_drains < (1ull << 62)); H_drains++; }
intptr_t dispatch_semaphore_wait(dispatch_semaphore_t dsema, dispatch_time_t timeout) { (void)timeout; if (dsema != &H_pqc.dpq_thread_mediator || H_drains != H_parks + 1) H_bad = 1; H_parks++; H_last_park_timed_out = ND_BOOL(); return H_last_park_timed_out ? 49 : 0; }
dispatch_time_t dispatch_time(dispatch_time_t when, int64_t delta) { (void)when; (void)delta; return ND(dispatch_time_t); }
static inline pthread_priority_t _dispatch_get_priority(void) { return 0; }   /* a thread the pool just created has no priority recorded yet */
int _dispatch_sigmask(void) { return 0; }
static inline void _dispatch_reset_priority_and_voucher(pthread_priority_t pp, voucher_t v) { (void)pp; (void)v; }
void _dispatch_workq_worker_register(dispatch_queue_global_t q) { if (q != &H_rq || H_drains) H_bad = 1; H_registers++; }
void _dispatch_workq_worker_unregister(dispatch_queue_global_t q) { if (q != &H_rq || !H_last_park_timed_out) H_bad = 1; H_unregisters++; }
void _dispatch_root_queue_poke(dispatch_queue_global_t dq, int n, int floor) { __verif_event(EV_CALL, 0, dq, CALL_POKE, ((unsigned long long)(unsigned)n << 32) | (unsigned)floor); }
#define PENDING_P ((const volatile void *)&H_rq.dgq_pending)
#define POOL_P ((const volatile void *)&H_rq.dgq_thread_pool_size)
#define MONITORED ((H_pri0 & (DISPATCH_PRIORITY_FLAG_OVERCOMMIT | DISPATCH_PRIORITY_FLAG_MANAGER)) == 0)
VERIF_LOOP_CONTRACT(_dispatch_worker_thread, 0,
	__CPROVER_assigns(H_drains, H_parks, H_bad, H_last_park_timed_out)
	__CPROVER_loop_invariant(!H_bad && H_drains == H_parks && H_unregisters == 0 && __verif_n == 1 && __VLE(0)))
VERIF_CONTRACT(void *, _dispatch_worker_thread, (void *context),
  REQ(context == (void *)&H_rq && H_rq.do_ctxt == (void *)&H_pqc && H_rq.dq_priority == H_pri0 && __verif_n == 0 && !H_bad && H_drains == 0 && H_parks == 0 && H_registers == 0 && H_unregisters == 0)
  REQ(H_pqc.dpq_thread_configure == 0 && H_pqc.dpq_observer_hooks.queue_will_execute == 0)
  ASG(VERIF_GHOST, H_rq.dgq_pending, H_rq.dgq_thread_pool_size, H_drains, H_parks, H_bad, H_last_park_timed_out, H_registers, H_unregisters, __dispatch_tsd)
  /* the thread request that created this thread is consumed exactly once, before anything else */
  ENS(the_pending_request_is_consumed_exactly_once_first, __verif_n == 4 && IS_COMMIT(0, PENDING_P) && (unsigned)LOGB(0) == (unsigned)LOGA(0) - 1u && (int)LOGB(0) >= 0)
  /* the thread drains at least once, parks after every drain, and leaves only after a park that timed out (a poke always finds it draining or parked) */
  ENS(drains_then_parks_and_only_a_timed_out_park_ends_the_thread, !H_bad && H_drains >= 1 && H_drains == H_parks && H_last_park_timed_out)
  /* a worker that exits gives its slot back (release order) and THEN pokes once: work that arrived between its last look at the queue and its
   * exit finds either this thread or the request it leaves behind - never nobody */
  ENS(an_exiting_worker_returns_its_slot_and_repokes_exactly_once, IS_COMMIT(1, POOL_P) && (unsigned)LOGB(1) == (unsigned)LOGA(1) + 1u && VMO_IS_REL(LOGM(1))
        && LOGK(2) == EV_CALL && LOGA(2) == CALL_POKE && LOGP(2) == (void *)&H_rq && LOGB(2) == (1ull << 32))
  ENS(the_reference_taken_when_the_thread_was_requested_is_dropped_last, LOGK(3) == EV_RELEASE && LOGP(3) == (void *)&H_rq && LOGA(3) == 1)
  ENS(monitor_registration_is_balanced_and_only_for_non_overcommit_pools, H_registers == (MONITORED ? 1u : 0u) && H_unregisters == H_registers)
)
void harness(void)
{
	h_setup_lane(); H_bad = 0; H_drains = H_parks = 0; H_registers = H_unregisters = 0; H_last_park_timed_out = 0;
	H_rq.do_ctxt = (void *)&H_pqc; H_pri0 = ND(dispatch_priority_t); H_rq.dq_priority = H_pri0; H_pqc.dpq_thread_configure = 0; H_pqc.dpq_observer_hooks.queue_will_execute = 0;
	void *r = _dispatch_worker_thread(&H_rq);
	VERIF_POST(_dispatch_worker_thread, r, &H_rq);
	VERIF_REACH(several_rounds, H_drains >= 3);
	VERIF_CANARY();
}
#endif
