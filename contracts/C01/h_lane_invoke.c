/*VERIF
{ "tu": "src/queue.c", "enforce": "_dispatch_lane_invoke", "props": ["C01", "C02", "C06"], "seq": true, "timeout": 300,
  "cut_goto": {"_dispatch_queue_class_invoke": ["attempt_running_slow_head"]},
  "assumes": ["the three steps of a drain turn are replaced by stubs with arbitrary results: taking the drain lock (h_drain_try_lock), draining (b_lane_drain) and releasing (h_drain_try_unlock); this contract is about how the turn reacts to their results",
              "re-running the drain after a refused unlock (goto attempt_running_slow_head) is a cut point: it is checked that the lock is still held and that re-running is allowed (root target or stealing)"],
  "stub_note": "_dispatch_queue_drain_try_lock, _dispatch_lane_invoke2, _dispatch_queue_drain_try_unlock, _dispatch_queue_invoke_finish, _dispatch_set_basepri/_reset_basepri, last-resort autorelease pool, release_2: stubs" }
VERIF*/
#ifdef VERIF_PRE
#else
#define DQ_STUB_REFS 1
#define DQ_STUB_TARGET 1
#include "contracts/common/dq_common.h"
enum { K_LOCK = 220, K_DRAIN, K_UNLOCK, K_FINISH, K_RERUN };
uint64_t H_owned_ret; dispatch_queue_wakeup_target_t H_drain_ret; _Bool H_unlock_ret; _Bool H_cur_is_root; struct dispatch_lane_s H_cur; struct dispatch_invoke_context_s H_dic;
dispatch_queue_wakeup_target_t H_fin_tq; uint64_t H_fin_owned; _Bool H_unlock_final;
static inline uint64_t _dispatch_queue_drain_try_lock(dispatch_queue_t dq, dispatch_invoke_flags_t flags) { (void)flags; __verif_event(K_LOCK, 0, dq, 0, 0); return H_owned_ret; }
static dispatch_queue_wakeup_target_t _dispatch_lane_invoke2(dispatch_lane_t dq, dispatch_invoke_context_t dic, dispatch_invoke_flags_t flags, uint64_t *owned) { (void)dic; (void)flags; (void)owned; __verif_event(K_DRAIN, 0, dq, 0, 0); return H_drain_ret; }
static inline bool _dispatch_queue_drain_try_unlock(dispatch_queue_class_t dq, uint64_t owned, bool done) { H_unlock_final = done; __verif_event(K_UNLOCK, 0, dq._dq, owned, done); return H_unlock_ret; }
static void _dispatch_queue_invoke_finish(dispatch_queue_t dq, dispatch_invoke_context_t dic, dispatch_queue_t tq, uint64_t owned) { (void)dic; H_fin_tq = tq; H_fin_owned = owned; __verif_event(K_FINISH, 0, dq, 0, 0); }
static inline dispatch_priority_t _dispatch_set_basepri(dispatch_priority_t p) { (void)p; return 0; }
static inline void _dispatch_reset_basepri(dispatch_priority_t p) { (void)p; }
void _dispatch_last_resort_autorelease_pool_push(dispatch_invoke_context_t dic) { (void)dic; }
void _dispatch_last_resort_autorelease_pool_pop(dispatch_invoke_context_t dic) { (void)dic; }
static inline dispatch_queue_t _dispatch_queue_get_current(void) { return (dispatch_queue_t)&H_cur; }
dispatch_invoke_flags_t H_iflags;
#define OWNING (!(H_iflags & DISPATCH_INVOKE_STEALING))
#define TQ_IS_REDRIVE (H_drain_ret != DISPATCH_QUEUE_WAKEUP_NONE && H_drain_ret != DISPATCH_QUEUE_WAKEUP_WAIT_FOR_EVENT)
void __verif_cut_backjump(void)
{	/* the unlock was refused (somebody marked the queue DIRTY): the drainer keeps the lock and drains again -- allowed only where that cannot starve a serial target */
	VERIF_REACH(drain_is_rerun_after_a_refused_unlock, 1);
	VERIF_ASSERT(drain_is_rerun_only_while_holding_the_lock_after_a_refused_unlock, H_owned_ret != 0 && !TQ_IS_REDRIVE && !H_unlock_ret && LOGK(LAST) == K_UNLOCK && (H_cur_is_root || !OWNING));
	__verif_event(K_RERUN, 0, 0, 0, 0); __CPROVER_assume(0);
}
VERIF_CONTRACT_VOID(_dispatch_lane_invoke, (dispatch_lane_t dq, dispatch_invoke_context_t dic, dispatch_invoke_flags_t flags),
  REQ(dq == H_DQ && dic == &H_dic && flags == H_iflags && !(H_iflags & DISPATCH_INVOKE_WLH) && __verif_n == 0 && H_drain_ret != DISPATCH_QUEUE_WAKEUP_TARGET && VALID_TID(H_SELF))
  ASG(VERIF_GHOST, H_fin_tq, H_fin_owned, H_unlock_final, H_lane.do_next, __dispatch_tsd)
  ENS(log_bounded, __verif_n >= 2 && __verif_n <= 4 && LOGK(0) == K_LOCK)
  /* lock refused: somebody else owns / will drain the queue; this turn only drops the +2 it was enqueued with */
  ENS(refused_lock_means_no_drain_only_the_reference_is_dropped, VIMPL(H_owned_ret == 0, __verif_n == 2 && LOGK(1) == EV_RELEASE && LOGA(1) == 2 && LOGP(1) == (void *)H_DQ))
  ENS(lock_holder_drains_exactly_once_per_turn, VIMPL(H_owned_ret != 0, LOGK(1) == K_DRAIN))
  /* drained to empty (or waiting for an event): the lock is given back through drain_try_unlock, which refuses over DIRTY */
  ENS(empty_queue_is_unlocked_through_the_dirty_check, VIMPL(H_owned_ret != 0 && !TQ_IS_REDRIVE, LOGK(2) == K_UNLOCK && LOGA(2) == H_owned_ret && H_unlock_final == (H_drain_ret == DISPATCH_QUEUE_WAKEUP_NONE)))
  ENS(accepted_unlock_ends_the_turn, VIMPL(H_owned_ret != 0 && !TQ_IS_REDRIVE && H_unlock_ret, __verif_n == 4 && LOGK(3) == EV_RELEASE && LOGA(3) == 2))
  /* refused unlock on a non-root target (owning): the queue is re-enqueued on its target STILL LOCKED -- it is never just dropped */
  ENS(refused_unlock_is_never_dropped, VIMPL(H_owned_ret != 0 && !TQ_IS_REDRIVE && !H_unlock_ret, __verif_n == 4 && LOGK(3) == K_FINISH && H_fin_tq == (dispatch_queue_t)&H_cur && H_fin_owned == H_owned_ret))
  /* the drain stopped early (suspension, retarget, width change, deferred item): hand the still-owned queue to invoke_finish */
  ENS(early_stop_hands_the_owned_queue_to_finish, VIMPL(H_owned_ret != 0 && TQ_IS_REDRIVE, __verif_n == 3 && LOGK(2) == K_FINISH && H_fin_tq == H_drain_ret && H_fin_owned == H_owned_ret))
)
void harness(void)
{
	h_setup_lane(); h_setup_target();
	H_iflags = ND(dispatch_invoke_flags_t) & ~DISPATCH_INVOKE_WLH; H_owned_ret = ND(uint64_t); H_unlock_ret = ND_BOOL(); H_cur_is_root = ND_BOOL();
	int k = ND(int); H_drain_ret = k == 0 ? DISPATCH_QUEUE_WAKEUP_NONE : k == 1 ? DISPATCH_QUEUE_WAKEUP_WAIT_FOR_EVENT : k == 2 ? DISPATCH_QUEUE_WAKEUP_MGR : (dispatch_queue_wakeup_target_t)&H_target;
	static const struct dispatch_lane_vtable_s vroot = { ._os_obj_vtable = { .do_type = DISPATCH_QUEUE_GLOBAL_ROOT_TYPE } };
	H_cur.do_vtable = H_cur_is_root ? &vroot : &H_vtable;
	__dispatch_tsd.dispatch_queue_key = (void *)&H_cur;
	_dispatch_lane_invoke(H_DQ, &H_dic, H_iflags);
	VERIF_POST_VOID(_dispatch_lane_invoke, H_DQ, &H_dic, H_iflags);
	VERIF_REACH(reenqueued_locked, __verif_n == 4 && LOGK(3) == K_FINISH);
	VERIF_CANARY();
}
#endif
