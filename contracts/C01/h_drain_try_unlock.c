/*VERIF
{ "tu": "src/queue.c", "enforce": "_dispatch_queue_drain_try_unlock", "props": ["C01","C02","C05","C06"],
  "nondet_volatile": true, "timeout": 120,
  "stub_note": "_dispatch_set_basepri_override_qos: priority bookkeeping only, no effect on dq_state" }
VERIF*/
#ifdef VERIF_PRE
#else
#include "contracts/common/dq_common.h"

VERIF_CONTRACT(bool, _dispatch_queue_drain_try_unlock, (dispatch_queue_t dq, uint64_t owned, bool done),
  REQ(dq == (dispatch_queue_t)H_DQ && __verif_n == 0)
  ASG(dq->dq_state, VERIF_GHOST)
  ENS(exactly_one_commit_on_dq_state, __verif_n == 1 && IS_COMMIT(0, &dq->dq_state))
  /* the hand-shake: the lock may be released only when no un-acknowledged DIRTY is seen */
  ENS(unlock_only_if_clean_or_suspended, VIMPL(__CPROVER_return_value, S_SUSPENDED(LOGA(0)) || !S_DIRTY(LOGA(0))))
  /* refusal: the lock is kept, DIRTY acknowledged with an acquire so the enqueuer's writes are seen */
  ENS(refusal_only_toggles_dirty_with_acquire, VIMPL(!__CPROVER_return_value, LOGB(0) == (LOGA(0) ^ DISPATCH_QUEUE_DIRTY) && VMO_IS_ACQ(LOGM(0))))
  /* success: release order, owner/barrier-hand-off bits dropped, exactly `owned` given back */
  ENS(unlock_is_release, VIMPL(__CPROVER_return_value, VMO_IS_REL(LOGM(0))))
  ENS(unlock_clears_owner, VIMPL(__CPROVER_return_value, (LOGB(0) & DISPATCH_QUEUE_DRAIN_UNLOCK_MASK) == 0))
  ENS(unlock_gives_back_exactly_owned, VIMPL(__CPROVER_return_value,
        (LOGB(0) | DISPATCH_QUEUE_DRAIN_UNLOCK_MASK | DISPATCH_QUEUE_MAX_QOS_MASK | DISPATCH_QUEUE_DIRTY) ==
        ((LOGA(0) - owned) | DISPATCH_QUEUE_DRAIN_UNLOCK_MASK | DISPATCH_QUEUE_MAX_QOS_MASK | DISPATCH_QUEUE_DIRTY)))
  /* not done => DIRTY left behind so that the next locker re-examines the list */
  ENS(not_done_leaves_dirty, VIMPL(__CPROVER_return_value && !done && !S_SUSPENDED(LOGA(0)), S_DIRTY(LOGB(0))))
  ENS(done_does_not_invent_dirty, VIMPL(__CPROVER_return_value && done && owned == 0, !S_DIRTY(LOGB(0)) || S_DIRTY(LOGA(0))))
)
void harness(void)
{
	h_setup_lane();
	uint64_t owned = ND(uint64_t); bool done = ND_BOOL();
	bool r = _dispatch_queue_drain_try_unlock((dispatch_queue_t)H_DQ, owned, done);
	VERIF_POST(_dispatch_queue_drain_try_unlock, r, (dispatch_queue_t)H_DQ, owned, done);
	VERIF_CANARY();
}
#endif
