/*VERIF
{ "tu": "src/queue.c", "enforce": "_dispatch_async_and_wait_invoke", "props": ["C01", "C05", "C18"], "seq": true, "timeout": 200,
  "assumes": ["autorelease-pool hooks are installed whenever dsc_autorelease asks for a pool (dispatch_invoke_with_autoreleasepool tells the compiler the pool is non-NULL); see DESIGN 10.6",
              "the waiter is parked on its thread event (dc_data == DISPATCH_WLH_ANON: the only kind on a platform without kevent workloops) or is cancelled through the event loop"],
  "stub_note": "_dispatch_client_callout (the work item), _dispatch_thread_event_signal (own contract: h_thread_event_signal), _dispatch_event_loop_cancel_waiter: recording stubs" }
VERIF*/
#ifdef VERIF_PRE
#else
#define DQ_STUB_TARGET 1
#include "contracts/common/dq_common.h"
struct dispatch_sync_context_s H_dsc; struct dispatch_queue_s H_top, H_running; void *H_ctxt0; dispatch_thread_frame_s H_caller_frame0;
unsigned H_callouts, H_signals, H_cancels; _Bool H_bad; void *H_frame0;
static void h_work(void *c) { (void)c; }
void *_dispatch_autorelease_pool_push(void) { static char pool_token; return &pool_token; }
void _dispatch_autorelease_pool_pop(void *context) { (void)context; }
void _dispatch_client_callout(void *ctxt, dispatch_function_t f)
{	if (ctxt != H_ctxt0 || f != h_work || H_signals || H_cancels) H_bad = 1; H_callouts++;
	/* C18: the item sees the queue it was SUBMITTED to as current, on top of the caller's own frames */
	if (_dispatch_thread_getspecific(dispatch_queue_key) != (void *)&H_top || _dispatch_thread_getspecific(dispatch_frame_key) != (void *)&H_dsc.dsc_dtf) H_bad = 1; }
/* the waiter is released only after the item ran, and after it was told where the item ran (dc_other) and that it ran (dsc_func == NULL) */
void _dispatch_thread_event_signal(dispatch_thread_event_t dte)
{ if (dte != &H_dsc.dsc_event || H_callouts != 1 || H_dsc.dc_other != (void *)&H_running || H_dsc.dsc_func != 0) H_bad = 1; H_signals++; }
void _dispatch_event_loop_cancel_waiter(struct dispatch_sync_context_s *dsc)
{ if (dsc != &H_dsc || H_callouts != 1 || H_dsc.dc_other != (void *)&H_running || H_dsc.dsc_func != 0) H_bad = 1; H_cancels++; }
VERIF_CONTRACT_VOID(_dispatch_async_and_wait_invoke, (void *ctxt),
  REQ(ctxt == (void *)&H_dsc && H_dsc.dc_other == (void *)&H_top && H_dsc.dsc_func == h_work && H_dsc.dsc_ctxt == H_ctxt0 && H_callouts == 0 && H_signals == 0 && H_cancels == 0 && !H_bad)
  REQ(_dispatch_thread_getspecific(dispatch_queue_key) == (void *)&H_running && _dispatch_thread_getspecific(dispatch_frame_key) == H_frame0)
  ASG(__CPROVER_object_whole(&H_dsc), H_callouts, H_signals, H_cancels, H_bad, __dispatch_tsd)
  ENS(the_item_runs_exactly_once_seeing_the_queue_it_was_submitted_to_as_current, H_callouts == 1 && !H_bad)
  /* the caller unlocks every queue from the one it submitted to down to (excluding) the one that ran the item: dc_other must name the
   * queue this thread was draining, not the submitted-to queue, or the locks taken on the way are never released */
  ENS(waiter_is_told_which_queue_actually_ran_the_item, H_dsc.dc_other == (void *)&H_running && H_dsc.dsc_func == 0)
  ENS(waiter_is_released_exactly_once_after_the_item_ran, H_signals + H_cancels == 1 && (H_signals == 1) == (H_dsc.dc_data == DISPATCH_WLH_ANON))
  ENS(the_drainers_own_queue_and_frame_are_restored, _dispatch_thread_getspecific(dispatch_queue_key) == (void *)&H_running && _dispatch_thread_getspecific(dispatch_frame_key) == H_frame0)
)
void harness(void)
{
	h_setup_lane();
	H_callouts = H_signals = H_cancels = 0; H_bad = 0; H_ctxt0 = (void *)&H_target; H_frame0 = ND_BOOL() ? (void *)&H_caller_frame0 : (void *)0;
	H_dsc.dc_other = &H_top; H_dsc.dsc_func = h_work; H_dsc.dsc_ctxt = H_ctxt0; H_dsc.dc_data = ND_BOOL() ? DISPATCH_WLH_ANON : (void *)&H_target;
	H_dsc.dsc_autorelease = ND(unsigned) & 3;
	__dispatch_tsd.dispatch_queue_key = (void *)&H_running; __dispatch_tsd.dispatch_frame_key = H_frame0;
	_dispatch_async_and_wait_invoke(&H_dsc);
	VERIF_POST_VOID(_dispatch_async_and_wait_invoke, &H_dsc);
	VERIF_CANARY();
}
#endif
