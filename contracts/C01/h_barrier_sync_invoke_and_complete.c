/*VERIF
{ "tu": "src/queue.c", "enforce": "_dispatch_lane_barrier_sync_invoke_and_complete", "props": ["C01", "C02", "C05"], "nondet_volatile": true, "timeout": 200,
  "assumes": ["rely: while this thread owns the serial barrier it took on the uncontended fast path, dq_state is drain-locked by it (lock-taking contracts of C02); every other bit may change under it (DIRTY, ENQUEUED, suspend count, override and sync-wait marks set by other threads)",
              "dq_items_tail is read once: the DIRTY mark in dq_state is what tells the owner about an item published after that read (push contract: h_lane_push)"],
  "stub_note": "_dispatch_client_callout (the work item: logged), _dispatch_lane_barrier_complete (own contract: h_lane_barrier_complete): logged" }
VERIF*/
#ifdef VERIF_PRE
extern const volatile void *H_rely_ptr; extern unsigned long long H_rely_owner;
/* rely: drain-locked by this thread */
#define __VERIF_RELY(p, v) ((const volatile void *)(p) != H_rely_ptr || ((((unsigned long long)(v)) & DISPATCH_QUEUE_DRAIN_OWNER_MASK) == H_rely_owner))
/* guarantee: the fast unlock is ONE release update that is only ever committed over a state without any of the marks that need the full
 * completion path: a DIRTY / ENQUEUED / suspended / overridden / sync-waited state is never unlocked here (lost wakeup otherwise) */
#define H_FAIL_UNLOCK_MASK (DISPATCH_QUEUE_SUSPEND_BITS_MASK | DISPATCH_QUEUE_ENQUEUED | DISPATCH_QUEUE_DIRTY | DISPATCH_QUEUE_RECEIVED_OVERRIDE | DISPATCH_QUEUE_SYNC_TRANSFER | DISPATCH_QUEUE_RECEIVED_SYNC_WAIT)
#define __VERIF_GUARANTEE(p, ov, nv, mo) ((const volatile void *)(p) != H_rely_ptr || (VMO_IS_REL(mo) && !(((unsigned long long)(ov)) & H_FAIL_UNLOCK_MASK)))
#else
#define DQ_STUB_REFS 1
#define DQ_STUB_TARGET 1
#include "contracts/common/dq_common.h"
enum { K_BARRIER_COMPLETE = 140 };
unsigned long long H_rely_owner; void *H_ctxt0; unsigned H_callouts, H_completes; _Bool H_bad;
static void h_work(void *c) { (void)c; }
void _dispatch_client_callout(void *ctxt, dispatch_function_t f) { if (ctxt != H_ctxt0 || f != h_work || H_completes || __verif_n) H_bad = 1; H_callouts++;
	/* the item sees the queue as current (frame pushed around the callout) */
	if (_dispatch_thread_getspecific(dispatch_queue_key) != (void *)H_DQ) H_bad = 1; }
static void _dispatch_lane_barrier_complete(dispatch_lane_class_t dqu, dispatch_qos_t qos, dispatch_wakeup_flags_t flags)
{ if (dqu._dl != H_DQ || qos != 0 || flags != 0 || !H_callouts) H_bad = 1; H_completes++; __verif_event(K_BARRIER_COMPLETE, 0, dqu._dl, 0, 0); }
#define UNLOCKED (__verif_n >= 1 && IS_COMMIT(LAST, &H_lane.dq_state))
VERIF_CONTRACT_VOID(_dispatch_lane_barrier_sync_invoke_and_complete, (dispatch_lane_t dq, void *ctxt, dispatch_function_t func),
  REQ(dq == H_DQ && ctxt == H_ctxt0 && func == h_work && __verif_n == 0 && VALID_TID(H_SELF) && VALID_WIDTH(H_lane.dq_width) && H_callouts == 0 && H_completes == 0 && !H_bad)
  ASG(H_lane.dq_state, VERIF_GHOST, H_callouts, H_completes, H_bad, __dispatch_tsd)
  ENS(the_item_runs_exactly_once_with_its_context_on_this_queue_before_anything_is_released, H_callouts == 1 && !H_bad)
  /* afterwards the lock is given up exactly once: by the full completion path, or by one fast unlock - never both, never neither */
  ENS(the_barrier_is_completed_exactly_once, __verif_n >= 1 && __verif_n <= 12 && ((H_completes == 1 && LOGK(LAST) == K_BARRIER_COMPLETE && !UNLOCKED) || (H_completes == 0 && UNLOCKED)))
  /* fast unlock only when there is provably nothing else to do: no queued item, serial queue, and the state committed over had no DIRTY /
   * ENQUEUED / suspend / override / sync-wait mark (an item published meanwhile sets DIRTY, so it is never stranded) */
  ENS(fast_unlock_only_on_an_empty_serial_queue_over_a_state_with_no_pending_work_marks, VIMPL(UNLOCKED,
        H_lane.dq_items_tail == 0 && H_lane.dq_width == 1 && !(LOGA(LAST) & H_FAIL_UNLOCK_MASK) && VMO_IS_REL(LOGM(LAST))))
  ENS(fast_unlock_gives_back_exactly_the_serial_barrier, VIMPL(UNLOCKED,
        LOGB(LAST) == (((LOGA(LAST) - DISPATCH_QUEUE_SERIAL_DRAIN_OWNED) & ~DISPATCH_QUEUE_DRAIN_UNLOCK_MASK) & ~DISPATCH_QUEUE_MAX_QOS_MASK) && S_OWNER(LOGB(LAST)) == 0))
  ENS(queued_items_or_a_concurrent_queue_always_take_the_full_completion_path, VIMPL(H_lane.dq_items_tail != 0 || H_lane.dq_width > 1, H_completes == 1))
)
void harness(void)
{
	h_setup_lane(); h_setup_target();
	H_callouts = 0; H_completes = 0; H_bad = 0; H_ctxt0 = (void *)&H_target;
	H_rely_ptr = &H_lane.dq_state; H_rely_owner = H_SELF;
	__dispatch_tsd.dispatch_queue_key = (void *)&H_target; __dispatch_tsd.dispatch_frame_key = 0;
	_dispatch_lane_barrier_sync_invoke_and_complete(H_DQ, H_ctxt0, h_work);
	VERIF_POST_VOID(_dispatch_lane_barrier_sync_invoke_and_complete, H_DQ, H_ctxt0, h_work);
	VERIF_REACH(fast_unlock_reached, UNLOCKED);
	VERIF_REACH(refused_unlock_goes_to_full_completion, H_lane.dq_items_tail == 0 && H_lane.dq_width == 1 && H_completes == 1);
	VERIF_CANARY();
}
#endif
