/*VERIF
{ "tu": "src/queue.c", "enforce": "_dispatch_root_queue_push", "props": ["C01", "C05"], "nondet_volatile": true, "timeout": 300,
  "assumes": ["the tail exchange returns NULL or the previously queued node (MPSC discipline)"],
  "stub_note": "_dispatch_root_queue_poke (own contract: h_root_queue_poke): logged" }
VERIF*/
#ifdef VERIF_PRE
#include "contracts/common/dq_rely_pre.h"
#else
#include "contracts/common/dq_common.h"
#define CALL_POKE 91
struct dispatch_queue_global_s H_rq; struct dispatch_continuation_s H_item, H_prev;
void _dispatch_root_queue_poke(dispatch_queue_global_t dq, int n, int floor) { __verif_event(EV_CALL, 0, dq, CALL_POKE, ((unsigned long long)(unsigned)n << 32) | (unsigned)floor); }
#define TAIL_P ((const volatile void *)&H_rq.dq_items_tail)
#define HEAD_P ((const volatile void *)&H_rq.dq_items_head)
#define ITEM_V ((unsigned long long)(uintptr_t)&H_item)
#define WAS_EMPTY (LOGA(1) == 0)
VERIF_CONTRACT_VOID(_dispatch_root_queue_push, (dispatch_queue_global_t rq, dispatch_object_t dou, dispatch_qos_t qos),
  REQ(rq == &H_rq && dou._dc == &H_item && __verif_n == 0)
  ASG(VERIF_GHOST, H_rq.dq_items_tail, H_rq.dq_items_head, H_item.do_next, H_prev.do_next)
  ENS(item_is_terminated_then_published_as_the_tail_with_release, __verif_n >= 3 && IS_COMMIT(0, &H_item.do_next) && LOGB(0) == 0 && IS_COMMIT(1, TAIL_P) && LOGB(1) == ITEM_V && VMO_IS_REL(LOGM(1)))
  /* the push that makes a root queue non-empty is the one that must ask for a worker thread -- exactly once, for one item */
  ENS(first_item_requests_a_worker_exactly_once, VIMPL(WAS_EMPTY, __verif_n == 4 && IS_COMMIT(2, HEAD_P) && LOGB(2) == ITEM_V && LOGK(3) == EV_CALL && LOGA(3) == CALL_POKE && LOGP(3) == (void *)&H_rq && LOGB(3) == ((unsigned long long)1 << 32)))
  /* behind other items nothing is requested: the request made for the first item (or the workers already draining) covers it */
  ENS(later_item_is_only_linked, VIMPL(!WAS_EMPTY, __verif_n == 3 && LOGA(1) == (unsigned long long)(uintptr_t)&H_prev && IS_COMMIT(2, &H_prev.do_next) && LOGB(2) == ITEM_V))
)
void harness(void)
{
	h_setup_lane();
	H_relyp_ptr = &H_rq.dq_items_tail; H_relyp_val = (unsigned long long)(uintptr_t)&H_prev;
	__verif_ptrloc = &H_rq.dq_items_tail; __verif_ptrobj = &H_prev;
	_dispatch_root_queue_push(&H_rq, (dispatch_object_t){ ._dc = &H_item }, ND(dispatch_qos_t));
	VERIF_REACH(first_item, WAS_EMPTY);
	VERIF_CANARY();
}
#endif
