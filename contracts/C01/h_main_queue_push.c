/*VERIF
{ "tu": "src/queue.c", "enforce": "_dispatch_main_queue_push", "props": ["C01", "C02", "C05"], "nondet_volatile": true, "timeout": 300,
  "assumes": ["the tail exchange returns NULL or the previously queued node (MPSC discipline)", "the main queue is a global object: no reference counting on this path"],
  "stub_note": "dx_wakeup of the harness vtable (_dispatch_main_queue_wakeup -> _dispatch_lane_wakeup: h_queue_wakeup): logged" }
VERIF*/
#ifdef VERIF_PRE
#include "contracts/common/dq_rely_pre.h"
#else
#define DQ_STUB_TARGET 1
#include "contracts/common/dq_common.h"
struct dispatch_continuation_s H_item, H_prev;
#define TAIL_P ((const volatile void *)&H_lane.dq_items_tail)
#define HEAD_P ((const volatile void *)&H_lane.dq_items_head)
#define ITEM_V ((unsigned long long)(uintptr_t)&H_item)
#define WAS_EMPTY (LOGA(1) == 0)
VERIF_CONTRACT_VOID(_dispatch_main_queue_push, (dispatch_queue_main_t dq, dispatch_object_t dou, dispatch_qos_t qos),
  REQ((void *)dq == (void *)H_DQ && dou._dc == &H_item && __verif_n == 0 && VALID_TID(H_SELF) && qos <= DISPATCH_QOS_MAX)
  ASG(VERIF_GHOST, H_lane.dq_items_tail, H_lane.dq_items_head, H_item.do_next, H_prev.do_next)
  ENS(log_bounded, __verif_n >= 3 && __verif_n <= 5)
  ENS(item_is_terminated_then_published_as_the_tail_with_release, IS_COMMIT(0, &H_item.do_next) && LOGB(0) == 0 && IS_COMMIT(1, TAIL_P) && LOGB(1) == ITEM_V && VMO_IS_REL(LOGM(1)))
  /* the same hand-shake as every lane (after dispatch_main() the main queue is an ordinary serial queue): the push that makes the queue non-empty
   * must wake it WITH MAKE_DIRTY, or a drainer that is just about to unlock never looks at the list again and the item is stranded */
  ENS(first_item_always_wakes_the_queue_dirty, VIMPL(WAS_EMPTY, __verif_n == 4 && IS_COMMIT(2, HEAD_P) && LOGB(2) == ITEM_V && LOGK(3) == EV_WAKEUP && LOGP(3) == (void *)H_DQ && LOGA(3) == DISPATCH_WAKEUP_MAKE_DIRTY))
  ENS(later_item_is_linked_behind_the_previous_tail, VIMPL(!WAS_EMPTY, LOGA(1) == (unsigned long long)(uintptr_t)&H_prev && IS_COMMIT(2, &H_prev.do_next) && LOGB(2) == ITEM_V))
  ENS(later_item_wakes_only_for_an_override_and_does_not_claim_dirty, VIMPL(!WAS_EMPTY, __verif_n == 3 || (LOGK(LAST) == EV_WAKEUP && LOGP(LAST) == (void *)H_DQ && LOGA(LAST) == 0)))
)
void harness(void)
{
	h_setup_lane(); h_setup_target();
	H_item.dc_flags = ND(uintptr_t) & 0xffful;
	H_relyp_ptr = &H_lane.dq_items_tail; H_relyp_val = (unsigned long long)(uintptr_t)&H_prev;
	__verif_ptrloc = &H_lane.dq_items_tail; __verif_ptrobj = &H_prev;
	dispatch_qos_t qos = ND(dispatch_qos_t); __CPROVER_assume(qos <= DISPATCH_QOS_MAX);
	_dispatch_main_queue_push((dispatch_queue_main_t)(void *)H_DQ, (dispatch_object_t){ ._dc = &H_item }, qos);
	VERIF_REACH(first_item, WAS_EMPTY);
	VERIF_REACH(override_wakeup, !WAS_EMPTY && __verif_n > 3);
	VERIF_CANARY();
}
#endif
