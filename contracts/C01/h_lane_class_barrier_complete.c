/*VERIF
{ "tu": "src/queue.c", "enforce": "_dispatch_lane_class_barrier_complete", "props": ["C01", "C02", "C05", "C06", "C15", "C17"], "nondet_volatile": true, "timeout": 300,
  "assumes": ["rely: while this thread owns the barrier, dq_state is IN_BARRIER + full width + drain-locked by it, not enqueued on the manager (guarantee of the lock-taking contracts of C02); a lane never has the BASE_WLH role on a platform without kevent workloops (_dispatch_base_lane_is_wlh is constant false: inherit_wlh_from_target contract)"],
  "stub_note": "dx_wakeup of the harness vtable, _dispatch_queue_push_queue (= one dx_push on the target), _dispatch_lane_wakeup (direct, non-virtual), _dispatch_queue_wakeup_with_override, _dispatch_set_basepri_override_qos, release_2: logged calls" }
VERIF*/
#ifdef VERIF_PRE
/* rely: what the barrier owner can observe in dq_state while it owns the barrier */
extern const volatile void *H_rely_ptr; extern unsigned long long H_rely_owner;
#define __VERIF_RELY(p, v) ((const volatile void *)(p) != H_rely_ptr || \
	((((unsigned long long)(v)) & DISPATCH_QUEUE_IN_BARRIER) && (((unsigned long long)(v)) & DISPATCH_QUEUE_WIDTH_MASK) == DISPATCH_QUEUE_WIDTH_FULL_BIT && \
	 (((unsigned long long)(v)) & DISPATCH_QUEUE_DRAIN_OWNER_MASK) == H_rely_owner && !(((unsigned long long)(v)) & (DISPATCH_QUEUE_ENQUEUED_ON_MGR | DISPATCH_QUEUE_PENDING_BARRIER)) && \
	 !(((unsigned long long)(v)) & DISPATCH_QUEUE_ROLE_BASE_WLH)))
/* guarantee: the owner either releases exactly what it owns (release order) or only acknowledges DIRTY (acquire), never both, never anything else */
#define __VERIF_GUARANTEE(p, ov, nv, mo) ((const volatile void *)(p) != H_rely_ptr || VMO_IS_REL(mo) || (nv) == ((ov) ^ DISPATCH_QUEUE_DIRTY))
#else
#define DQ_STUB_REFS 1
#define DQ_STUB_TARGET 1
#include "contracts/common/dq_common.h"
#define CALL_LANE_WAKEUP_DIRECT 51
#define CALL_WAKEUP_WITH_OVERRIDE 52
void _dispatch_lane_wakeup(dispatch_lane_class_t dqu, dispatch_qos_t qos, dispatch_wakeup_flags_t flags) { (void)qos; __verif_event(EV_CALL, 0, dqu._dl, CALL_LANE_WAKEUP_DIRECT, flags); }
static void _dispatch_queue_wakeup_with_override(dispatch_queue_class_t dq, uint64_t dq_state, dispatch_wakeup_flags_t flags) { (void)dq_state; __verif_event(EV_CALL, 0, dq._dq, CALL_WAKEUP_WITH_OVERRIDE, flags); }
/* real body is one dx_push(tq, dq, max_qos(state)); CBMC cannot convert the transparent union argument into the other transparent union */
static inline void _dispatch_queue_push_queue(dispatch_queue_t tq, dispatch_queue_class_t dq, uint64_t dq_state)
{ __verif_event(EV_PUSH, 0, tq, (unsigned long long)(uintptr_t)dq._dq, _dq_state_max_qos(dq_state)); }
static inline void _dispatch_set_basepri_override_qos(dispatch_qos_t qos) { (void)qos; }
unsigned long long H_rely_owner;
uint64_t H_owned; dispatch_queue_wakeup_target_t H_target_arg; dispatch_wakeup_flags_t H_flags0;
#define S_O LOGA(0)
#define S_N LOGB(0)
#define OLD1 (S_O - H_owned)     /* the state as it would be without what this owner holds */
#define DIRTY_RETRY (IS_COMMIT(0, &H_lane.dq_state) && VMO_IS_ACQ(LOGM(0)) && !VMO_IS_REL(LOGM(0)))
#define RELEASED (IS_COMMIT(0, &H_lane.dq_state) && VMO_IS_REL(LOGM(0)))
#define WANT_ENQ (H_target_arg != DISPATCH_QUEUE_WAKEUP_NONE)
VERIF_CONTRACT_VOID(_dispatch_lane_class_barrier_complete, (dispatch_lane_t dq, dispatch_qos_t qos, dispatch_wakeup_flags_t flags, dispatch_queue_wakeup_target_t target, uint64_t owned),
  REQ(dq == H_DQ && __verif_n == 0 && VALID_WIDTH(H_lane.dq_width) && VALID_TID(H_SELF) && owned == H_owned && target == H_target_arg && flags == H_flags0)
  REQ(H_owned == DISPATCH_QUEUE_IN_BARRIER + H_lane.dq_width * DISPATCH_QUEUE_WIDTH_INTERVAL && (H_target_arg == DISPATCH_QUEUE_WAKEUP_NONE || H_target_arg == DISPATCH_QUEUE_WAKEUP_TARGET))
  REQ(VIMPL(WANT_ENQ, flags & DISPATCH_WAKEUP_CONSUME_2) && qos <= DISPATCH_QOS_MAX)
  ASG(H_lane.dq_state, VERIF_GHOST)
  ENS(log_bounded, __verif_n >= 1 && __verif_n <= 3 && IS_COMMIT(0, &H_lane.dq_state))
  /* the barrier is never dropped over an un-acknowledged DIRTY when nobody is being enqueued for the queue: the owner keeps the
   * lock, acknowledges DIRTY with an ACQUIRE update and re-evaluates through THE OBJECT'S OWN wakeup (virtual: a source turns
   * pending data into an enqueue there), marked as a barrier completion */
  ENS(never_unlocks_over_unacknowledged_dirty, VIMPL(RELEASED && S_DIRTY(S_N), S_ENQUEUED(S_N) || S_SUSPENDED(S_N)))
  ENS(dirty_seen_by_the_release_attempt_without_redrive_is_never_released_over, VIMPL(RELEASED && !WANT_ENQ && !S_SUSPENDED(S_O), !S_DIRTY(S_O)))
  ENS(dirty_is_acknowledged_keeping_the_lock_and_redriven_through_the_objects_own_wakeup, VIMPL(DIRTY_RETRY,
        !WANT_ENQ && S_N == (S_O ^ DISPATCH_QUEUE_DIRTY) && __verif_last_load_p == (const volatile void *)&H_lane.dq_state && __verif_n == 2 && LOGK(1) == EV_WAKEUP && LOGP(1) == (void *)H_DQ
        && LOGA(1) == (H_flags0 | DISPATCH_WAKEUP_BARRIER_COMPLETE)))
  /* release: gives back exactly what was owned (barrier + full width), drops the owner, with release order */
  ENS(release_gives_back_exactly_what_was_owned, VIMPL(RELEASED, S_OWNER(S_N) == 0 && !S_IN_BARRIER(S_N) && S_DIRTY(S_N) == S_DIRTY(S_O) &&
        (S_N & DISPATCH_QUEUE_WIDTH_MASK) == (OLD1 & DISPATCH_QUEUE_WIDTH_MASK) && (S_N & DISPATCH_QUEUE_SUSPEND_BITS_MASK) == (S_O & DISPATCH_QUEUE_SUSPEND_BITS_MASK)))
  /* hand-over to the target: enqueued at most once (only if not already enqueued), pushed exactly when this call set the bit,
   * never while suspended */
  ENS(requested_redrive_marks_enqueued_and_pushes_exactly_once, VIMPL(RELEASED && WANT_ENQ && !S_SUSPENDED(S_O) && !S_ENQUEUED(S_O),
        S_ENQUEUED(S_N) && __verif_n == 2 && LOGK(1) == EV_PUSH && LOGP(1) == (void *)&H_target && LOGA(1) == (unsigned long long)(uintptr_t)H_DQ))
  ENS(already_enqueued_is_not_pushed_again, VIMPL(RELEASED && WANT_ENQ && !S_SUSPENDED(S_O) && S_ENQUEUED(S_O), S_ENQUEUED(S_N) && (__verif_n < 2 || LOGK(1) != EV_PUSH)))
  ENS(nothing_is_pushed_while_suspended, VIMPL(RELEASED && S_SUSPENDED(S_O), (__verif_n < 2 || LOGK(1) != EV_PUSH) && (__verif_n < 3 || LOGK(2) != EV_PUSH) && !(S_ENQUEUED(S_N) && !S_ENQUEUED(S_O))))
  /* the +2 the caller passed in is consumed exactly once: by the push / the wakeup, or released */
  ENS(consume_2_is_consumed_exactly_once, VIMPL(RELEASED && (H_flags0 & DISPATCH_WAKEUP_CONSUME_2), __verif_n == 2 &&
        (LOGK(1) == EV_PUSH || (LOGK(1) == EV_RELEASE && LOGA(1) == 2) || (LOGK(1) == EV_CALL && LOGA(1) == CALL_WAKEUP_WITH_OVERRIDE))))
  ENS(no_reference_touched_without_consume_2, VIMPL(RELEASED && !(H_flags0 & DISPATCH_WAKEUP_CONSUME_2), __verif_n == 1))
)
void harness(void)
{
	h_setup_lane(); h_setup_target();
	H_owned = DISPATCH_QUEUE_IN_BARRIER + H_lane.dq_width * DISPATCH_QUEUE_WIDTH_INTERVAL;
	H_target_arg = ND_BOOL() ? DISPATCH_QUEUE_WAKEUP_TARGET : DISPATCH_QUEUE_WAKEUP_NONE; H_flags0 = ND(dispatch_wakeup_flags_t);
	__CPROVER_assume(H_target_arg == DISPATCH_QUEUE_WAKEUP_NONE || (H_flags0 & DISPATCH_WAKEUP_CONSUME_2));
	dispatch_qos_t qos = ND(dispatch_qos_t); __CPROVER_assume(qos <= DISPATCH_QOS_MAX);
	H_rely_ptr = &H_lane.dq_state; H_rely_owner = H_SELF;
	_dispatch_lane_class_barrier_complete(H_DQ, qos, H_flags0, H_target_arg, H_owned);
	VERIF_POST_VOID(_dispatch_lane_class_barrier_complete, H_DQ, qos, H_flags0, H_target_arg, H_owned);
	VERIF_REACH(dirty_retry, DIRTY_RETRY);
	VERIF_REACH(pushed, RELEASED && LOGK(1) == EV_PUSH);
	VERIF_CANARY();
}
#endif
