/*VERIF
{ "tu": "src/queue.c", "enforce": "dispatch_async_f", "props": ["C01", "C04"], "seq": true, "timeout": 120,
  "assumes": ["the per-thread continuation cache is empty or not (arbitrary): both the fast and the heap path are covered"],
  "stub_note": "_dispatch_continuation_alloc_cacheonly / _alloc_from_heap (return the harness continuation or, for the cache, NULL), _dispatch_continuation_init_f, _dispatch_continuation_async (= one dx_push: C01 push contracts): recorded" }
VERIF*/
#ifdef VERIF_PRE
#else
#include "contracts/common/dq_common.h"
struct dispatch_continuation_s H_dc; struct dispatch_queue_s H_q; char H_ctxt; unsigned H_inits, H_asyncs, H_heap_allocs; _Bool H_bad, H_cache_empty; uintptr_t H_init_flags, H_async_flags; dispatch_qos_t H_qos;
static void h_fn(void *c) { (void)c; }
static inline dispatch_continuation_t _dispatch_continuation_alloc_cacheonly(void) { return H_cache_empty ? (dispatch_continuation_t)0 : &H_dc; }
dispatch_continuation_t _dispatch_continuation_alloc_from_heap(void) { if (!H_cache_empty) H_bad = 1; H_heap_allocs++; return &H_dc; }
static inline dispatch_qos_t _dispatch_continuation_init_f(dispatch_continuation_t dc, dispatch_queue_class_t dqu, void *ctxt, dispatch_function_t f, dispatch_block_flags_t flags, uintptr_t dc_flags)
{ if (dc != &H_dc || dqu._dq != &H_q || ctxt != (void *)&H_ctxt || f != h_fn || flags != 0 || H_asyncs) H_bad = 1; H_inits++; H_init_flags = dc_flags; dc->dc_flags = dc_flags | DC_FLAG_ALLOCATED; return H_qos; }
static inline void _dispatch_continuation_async(dispatch_queue_class_t dqu, dispatch_continuation_t dc, dispatch_qos_t qos, uintptr_t dc_flags)
{ if (dqu._dq != &H_q || dc != &H_dc || qos != H_qos || H_inits != 1) H_bad = 1; H_asyncs++; H_async_flags = dc_flags; }
VERIF_CONTRACT_VOID(dispatch_async_f, (dispatch_queue_t dq, void *ctxt, dispatch_function_t func),
  REQ(dq == &H_q && ctxt == (void *)&H_ctxt && func == h_fn && H_inits == 0 && H_asyncs == 0 && H_heap_allocs == 0 && !H_bad)
  ASG(__CPROVER_object_whole(&H_dc), H_inits, H_asyncs, H_heap_allocs, H_bad, H_init_flags, H_async_flags)
  /* C01 / C04: one call = ONE work item: initialised once with the caller's function and context as a consumable NON-barrier item, then pushed exactly once to
   * the queue it was submitted to with the QoS computed for it - whether the continuation came from the per-thread cache or from the heap */
  ENS(one_item_initialised_once_then_pushed_once_as_a_plain_item, H_inits == 1 && H_asyncs == 1 && !H_bad && H_init_flags == (DC_FLAG_CONSUME) && (H_async_flags & (DC_FLAG_CONSUME | DC_FLAG_BARRIER)) == (DC_FLAG_CONSUME)
        && H_heap_allocs == (H_cache_empty ? 1u : 0u))
)
void harness(void)
{
	VERIF_GHOST_RESET(); H_inits = H_asyncs = H_heap_allocs = 0; H_bad = 0; H_cache_empty = ND_BOOL(); H_qos = ND(dispatch_qos_t);
	dispatch_async_f(&H_q, &H_ctxt, h_fn);
	VERIF_POST_VOID(dispatch_async_f, &H_q, &H_ctxt, h_fn);
	VERIF_REACH(heap_path, H_cache_empty && H_asyncs == 1);
	VERIF_CANARY();
}
#endif
