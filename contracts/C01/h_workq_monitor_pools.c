/*VERIF
{ "tu": "src/event/workqueue.c", "enforce": "_dispatch_workq_monitor_pools", "props": ["C01"], "seq": true, "timeout": 300, "unwind": 8, "unwind_fns": ["_dispatch_workq_monitor_pools"],
  "assumes": ["runs on the manager queue from the monitoring timer (C11) about once a second; the six QoS buckets are visited by a loop with a constant bound (fully unrolled)",
              "the /proc scan reports an arbitrary number >= 0 of runnable registered workers per pool"],
  "stub_note": "_dispatch_queue_class_probe (is work queued: arbitrary per pool), _dispatch_workq_count_runnable_workers (/proc/<tid>/stat scan), _dispatch_root_queue_poke (own contract: h_root_queue_poke): recorded per pool" }
VERIF*/
#ifdef VERIF_PRE
#else
#include "contracts/common/dq_common.h"
#define NB DISPATCH_QOS_NBUCKETS
struct dispatch_queue_global_s H_rq[NB]; _Bool H_has_work[NB]; int32_t H_runnable[NB]; unsigned H_pokes[NB]; int H_poke_n[NB], H_poke_floor[NB]; unsigned H_scans[NB]; _Bool H_bad; unsigned H_k; int32_t H_target; uint32_t H_cpus;
_Static_assert(NB == 6, "h_idx lists six pools");
static inline int h_idx(const void *dq) { return dq == (const void *)&H_rq[0] ? 0 : dq == (const void *)&H_rq[1] ? 1 : dq == (const void *)&H_rq[2] ? 2 : dq == (const void *)&H_rq[3] ? 3 : dq == (const void *)&H_rq[4] ? 4 : dq == (const void *)&H_rq[5] ? 5 : -1; }
static inline bool _dispatch_queue_class_probe(dispatch_lane_class_t dqu) { int i = h_idx(dqu._dl); if (i < 0) { H_bad = 1; return 0; } return H_has_work[i]; }
static void _dispatch_workq_count_runnable_workers(dispatch_workq_monitor_t mon) { int i = h_idx(mon->dq); if (i < 0 || mon != &_dispatch_workq_monitors[i] || !H_has_work[i]) { H_bad = 1; return; } H_scans[i]++; mon->num_runnable = H_runnable[i]; }
void _dispatch_root_queue_poke(dispatch_queue_global_t dq, int n, int floor) { int i = h_idx(dq); if (i < 0) { H_bad = 1; return; } H_pokes[i]++; H_poke_n[i] = n; H_poke_floor[i] = floor; }
VERIF_CONTRACT_VOID(_dispatch_workq_monitor_pools, (void *context),
  REQ(!H_bad && H_k < NB && H_pokes[H_k] == 0 && H_scans[H_k] == 0 && _dispatch_workq_monitors[H_k].dq == &H_rq[H_k] && _dispatch_workq_monitors[H_k].target_runnable == H_target && H_target >= 1 && H_target <= 1024 && H_runnable[H_k] >= 0)
  REQ(_dispatch_hw_config.active_cpus == H_cpus && H_cpus >= 1 && H_cpus <= 1024)
  ASG(__CPROVER_object_whole(_dispatch_workq_monitors), __CPROVER_object_whole(H_pokes), __CPROVER_object_whole(H_poke_n), __CPROVER_object_whole(H_poke_floor), __CPROVER_object_whole(H_scans), H_bad)
  ENS(pools_are_looked_at_through_their_own_monitor_record, !H_bad)
  /* the rescue of a stalled pool: work is queued and NOT ONE registered worker is runnable (all blocked inside items, e.g. waiting for a later item
   * of the same queue) => exactly one more thread is requested, with a floor below zero so that the request may exceed the normal pool size */
  ENS(a_pool_with_work_and_no_runnable_worker_gets_exactly_one_more_thread_beyond_its_limit, VIMPL(H_has_work[H_k] && H_runnable[H_k] == 0,
        H_pokes[H_k] == 1 && H_poke_n[H_k] == 1 && H_poke_floor[H_k] == H_target - DISPATCH_WORKQ_MAX_PTHREAD_COUNT && (H_target >= DISPATCH_WORKQ_MAX_PTHREAD_COUNT || H_poke_floor[H_k] < 0)))
  ENS(an_empty_pool_is_left_alone, VIMPL(!H_has_work[H_k], H_pokes[H_k] == 0 && H_scans[H_k] == 0))
  ENS(a_pool_at_or_above_its_target_is_left_alone, VIMPL(H_has_work[H_k] && H_runnable[H_k] >= H_target, H_pokes[H_k] == 0))
  ENS(at_most_one_request_per_pool_and_pass, H_pokes[H_k] <= 1 && VIMPL(H_pokes[H_k] == 1, H_poke_n[H_k] == 1))
)
void harness(void)
{
	VERIF_GHOST_RESET(); H_bad = 0; H_k = ND(unsigned); __CPROVER_assume(H_k < NB);
	H_target = ND(int32_t); __CPROVER_assume(H_target >= 1 && H_target <= 1024); H_cpus = ND(uint32_t); __CPROVER_assume(H_cpus >= 1 && H_cpus <= 1024); _dispatch_hw_config.active_cpus = H_cpus;
	for (int i = 0; i < NB; i++) { _dispatch_workq_monitors[i].dq = &H_rq[i]; _dispatch_workq_monitors[i].target_runnable = H_target; _dispatch_workq_monitors[i].num_runnable = 0;
		H_has_work[i] = ND_BOOL(); H_runnable[i] = ND(int32_t); __CPROVER_assume(H_runnable[i] >= 0 && H_runnable[i] <= 4096); H_pokes[i] = 0; H_scans[i] = 0; }
	_dispatch_workq_monitor_pools((void *)0);
	VERIF_POST_VOID(_dispatch_workq_monitor_pools, (void *)0);
	VERIF_REACH(rescue, H_pokes[H_k] == 1 && H_runnable[H_k] == 0);
	VERIF_REACH(oversubscribe, H_pokes[H_k] == 1 && H_runnable[H_k] > 0);
	VERIF_CANARY();
}
#endif
