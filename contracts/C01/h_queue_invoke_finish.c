/*VERIF
{ "tu": "src/queue.c", "enforce": "_dispatch_queue_invoke_finish", "props": ["C01", "C02", "C06", "C17"], "nondet_volatile": true, "timeout": 300,
  "assumes": ["rely: the drainer still owns what `owned` says: dq_state is drain-locked by this thread and contains the width / barrier / enqueued bits counted in owned (guarantee of h_drain_try_lock)",
              "no barrier waiter was parked by the drain (that case goes to h_lane_drain_barrier_waiter)"],
  "stub_note": "_dispatch_queue_push_queue (= one dx_push on the target), release_2, _dispatch_set_basepri_override_qos: logged" }
VERIF*/
#ifdef VERIF_PRE
extern const volatile void *H_rely_ptr; extern unsigned long long H_rely_owner, H_rely_owned;
/* numeric state masks (this macro is also expanded in headers that come before queue_internal.h): owner 0x3fffffff, IN_BARRIER 1<<54,
 * WIDTH_MASK 0x003ffe0000000000, ENQUEUED 1<<31, ENQUEUED_ON_MGR 1<<38, ROLE_BASE_WLH 1<<37, DIRTY 1<<39 */
#define H_M_OWN 0x3fffffffull
#define H_M_BE (0x0040000000000000ull | 0x80000000ull | 0x4000000000ull)
#define __VERIF_RELY(p, v) ((const volatile void *)(p) != H_rely_ptr || \
	((((unsigned long long)(v)) & H_M_OWN) == H_rely_owner && (((unsigned long long)(v)) & 0x003ffe0000000000ull) >= (H_rely_owned & 0x003ffe0000000000ull) && \
	 (((unsigned long long)(v)) & H_rely_owned & H_M_BE) == (H_rely_owned & H_M_BE) && !(((unsigned long long)(v)) & 0x2000000000ull)))
#define __VERIF_GUARANTEE(p, ov, nv, mo) ((const volatile void *)(p) != H_rely_ptr || (VMO_IS_REL(mo) && ((nv) & H_M_OWN) == 0 && ((nv) & 0x8000000000ull)))
#else
#define DQ_STUB_REFS 1
#define DQ_STUB_TARGET 1
#include "contracts/common/dq_common.h"
unsigned long long H_rely_owner, H_rely_owned; struct dispatch_invoke_context_s H_dic; uint64_t H_owned; _Bool H_mgr;
static inline void _dispatch_queue_push_queue(dispatch_queue_t tq, dispatch_queue_class_t dq, uint64_t dq_state)
{ __verif_event(EV_PUSH, 0, tq, (unsigned long long)(uintptr_t)dq._dq, _dq_state_max_qos(dq_state)); }
static inline void _dispatch_set_basepri_override_qos(dispatch_qos_t qos) { (void)qos; }
#define S_O LOGA(0)
#define S_N LOGB(0)
#define ENQ_BIT (H_mgr ? DISPATCH_QUEUE_ENQUEUED_ON_MGR : DISPATCH_QUEUE_ENQUEUED)
#define TQ_ARG (H_mgr ? DISPATCH_QUEUE_WAKEUP_MGR : (dispatch_queue_t)&H_target)
#define AFTER_GIVEBACK ((S_O - H_owned) & ~DISPATCH_QUEUE_DRAIN_UNLOCK_MASK)
#define S_ENQ_ANY(s) (S_ENQUEUED(s) || S_ENQ_MGR(s))
VERIF_CONTRACT_VOID(_dispatch_queue_invoke_finish, (dispatch_queue_t dq, dispatch_invoke_context_t dic, dispatch_queue_t tq, uint64_t owned),
  REQ(dq == (dispatch_queue_t)H_DQ && dic == &H_dic && tq == TQ_ARG && owned == H_owned && __verif_n == 0 && H_dic.dic_barrier_waiter == 0 && VALID_TID(H_SELF))
  REQ(H_rely_owned == H_owned && (H_owned & ~(DISPATCH_QUEUE_IN_BARRIER | DISPATCH_QUEUE_WIDTH_MASK | DISPATCH_QUEUE_ENQUEUED | DISPATCH_QUEUE_ENQUEUED_ON_MGR)) == 0 && (H_owned & DISPATCH_QUEUE_WIDTH_MASK) <= DISPATCH_QUEUE_WIDTH_FULL_BIT)
  ASG(VERIF_GHOST, H_lane.dq_state)
  ENS(log_bounded, __verif_n == 2 && IS_COMMIT(0, &H_lane.dq_state) && VMO_IS_REL(LOGM(0)))
  /* the interrupted drainer gives back exactly what it owned, drops the lock and ALWAYS leaves DIRTY behind: whoever looks at the queue next re-examines it */
  ENS(gives_back_exactly_what_was_owned_and_leaves_dirty, S_OWNER(S_N) == 0 && S_DIRTY(S_N) && (S_N & ~(DISPATCH_QUEUE_DIRTY | DISPATCH_QUEUE_ENQUEUED | DISPATCH_QUEUE_ENQUEUED_ON_MGR)) == (AFTER_GIVEBACK & ~(DISPATCH_QUEUE_DIRTY | DISPATCH_QUEUE_ENQUEUED | DISPATCH_QUEUE_ENQUEUED_ON_MGR)))
  /* still runnable and not enqueued: it re-enqueues itself right away (bit + exactly one push to the asked target); a suspended queue is
   * NOT re-enqueued (resume will: C06), an already enqueued one not twice */
  ENS(reenqueued_exactly_when_runnable_and_not_already_enqueued, (S_RUNNABLE(AFTER_GIVEBACK) && !S_ENQ_ANY(AFTER_GIVEBACK))
        ? ((S_N & ENQ_BIT) && LOGK(1) == EV_PUSH && LOGP(1) == (void *)TQ_ARG && LOGA(1) == (unsigned long long)(uintptr_t)H_DQ)
        : (LOGK(1) == EV_RELEASE && LOGA(1) == 2 && LOGP(1) == (void *)H_DQ && (S_N & (DISPATCH_QUEUE_ENQUEUED | DISPATCH_QUEUE_ENQUEUED_ON_MGR)) == (AFTER_GIVEBACK & (DISPATCH_QUEUE_ENQUEUED | DISPATCH_QUEUE_ENQUEUED_ON_MGR))))
)
void harness(void)
{
	h_setup_lane(); h_setup_target();
	H_mgr = ND_BOOL(); H_owned = ND(uint64_t);
	__CPROVER_assume((H_owned & ~(DISPATCH_QUEUE_IN_BARRIER | DISPATCH_QUEUE_WIDTH_MASK | DISPATCH_QUEUE_ENQUEUED | DISPATCH_QUEUE_ENQUEUED_ON_MGR)) == 0 && (H_owned & DISPATCH_QUEUE_WIDTH_MASK) <= DISPATCH_QUEUE_WIDTH_FULL_BIT);
	H_rely_ptr = &H_lane.dq_state; H_rely_owner = H_SELF; H_rely_owned = H_owned;
	H_dic.dic_barrier_waiter = 0; H_dic.dic_barrier_waiter_bucket = 0;
	_dispatch_queue_invoke_finish((dispatch_queue_t)H_DQ, &H_dic, TQ_ARG, H_owned);
	VERIF_POST_VOID(_dispatch_queue_invoke_finish, (dispatch_queue_t)H_DQ, &H_dic, TQ_ARG, H_owned);
	VERIF_REACH(suspended_not_reenqueued, S_SUSPENDED(S_O) && LOGK(1) == EV_RELEASE);
	VERIF_REACH(reenqueued, LOGK(1) == EV_PUSH);
	VERIF_CANARY();
}
#endif
