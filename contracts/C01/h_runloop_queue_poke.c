/*VERIF
{ "tu": "src/queue.c", "enforce": "_dispatch_runloop_queue_poke", "props": ["C01", "C19"], "nondet_volatile": true, "timeout": 200,
  "assumes": ["other threads change the queue's state word at any time (interference model)", "the queue is the main queue (type MAIN) or another thread-bound run-loop queue"],
  "stub_note": "dispatch_once_f (own contract: C09), _dispatch_runloop_queue_class_poke (writes the event descriptor), thread override start / end, release_2: logged" }
VERIF*/
#ifdef VERIF_PRE
#else
#define DQ_STUB_REFS 1
#include "contracts/common/dq_common.h"
enum { K_ONCE = 195, K_CLASS_POKE };
struct dispatch_lane_vtable_s H_vt_any; unsigned long H_type; dispatch_wakeup_flags_t H_flags0; dispatch_qos_t H_qos0;
void dispatch_once_f(dispatch_once_t *val, void *ctxt, dispatch_function_t func) { __verif_event(K_ONCE, 0, val, (unsigned long long)(uintptr_t)ctxt, func == _dispatch_runloop_queue_handle_init); }
static inline void _dispatch_runloop_queue_class_poke(dispatch_lane_t dq) { __verif_event(K_CLASS_POKE, 0, dq, 0, 0); }
static inline void _dispatch_thread_override_start(mach_port_t thread, pthread_priority_t pp, void *resource) { (void)thread; (void)pp; (void)resource; }
static inline void _dispatch_thread_override_end(mach_port_t thread, void *resource) { (void)thread; (void)resource; }
#define IS_MAIN (H_type == DISPATCH_QUEUE_MAIN_TYPE)
#define I_ONCE 0u
VERIF_CONTRACT_VOID(_dispatch_runloop_queue_poke, (dispatch_lane_t dq, dispatch_qos_t qos, dispatch_wakeup_flags_t flags),
  REQ(dq == H_DQ && qos == H_qos0 && flags == H_flags0 && __verif_n == 0 && H_qos0 <= DISPATCH_QOS_MAX && H_lane.do_vtable == &H_vt_any && H_vt_any._os_obj_vtable.do_type == H_type)
  ASG(VERIF_GHOST, H_lane.dq_state)
  ENS(log_bounded, __verif_n >= 1 && __verif_n <= 5)
  /* C01: a wakeup of a thread-bound queue ALWAYS reaches the thread's event descriptor, exactly once - also when the state word did not change - and for the main
   * queue the descriptor is made to exist FIRST (lazy creation through dispatch_once): a wakeup issued before the run loop ever asked for the handle is not lost */
  ENS(the_main_queues_event_handle_is_created_before_anything_else, VIMPL(IS_MAIN, LOGK(0) == K_ONCE && LOGP(0) == (void *)&_dispatch_main_q_handle_pred && LOGA(0) == (unsigned long long)(uintptr_t)H_DQ && LOGB(0) == 1))
  ENS(only_the_main_queue_creates_the_handle_lazily, VIMPL(!IS_MAIN, LOGK(0) != K_ONCE))
  ENS(the_event_descriptor_is_poked_exactly_once_on_every_path, (LOGK(LAST) == K_CLASS_POKE && !(H_flags0 & DISPATCH_WAKEUP_CONSUME_2)) || (__verif_n >= 2 && LOGK(LAST - 1) == K_CLASS_POKE && LOGK(LAST) == EV_RELEASE))
  ENS(poke_names_this_queue_and_the_plus_two_is_given_back_once_after_it, ((H_flags0 & DISPATCH_WAKEUP_CONSUME_2) ? (LOGK(LAST) == EV_RELEASE && LOGA(LAST) == 2 && LOGP(LAST) == (void *)H_DQ && LOGP(LAST - 1) == (void *)H_DQ) : LOGP(LAST) == (void *)H_DQ))
)
void harness(void)
{
	h_setup_lane();
	H_type = ND_BOOL() ? DISPATCH_QUEUE_MAIN_TYPE : DISPATCH_QUEUE_RUNLOOP_TYPE; *(unsigned long *)&H_vt_any._os_obj_vtable.do_type = H_type; H_lane.do_vtable = &H_vt_any;
	H_flags0 = ND(dispatch_wakeup_flags_t); H_qos0 = ND(dispatch_qos_t); __CPROVER_assume(H_qos0 <= DISPATCH_QOS_MAX); H_lane.dq_priority = ND(dispatch_priority_t);
	_dispatch_runloop_queue_poke(H_DQ, H_qos0, H_flags0);
	VERIF_POST_VOID(_dispatch_runloop_queue_poke, H_DQ, H_qos0, H_flags0);
	VERIF_REACH(main_queue_state_unchanged, IS_MAIN && __verif_n == 2 && !(H_flags0 & DISPATCH_WAKEUP_CONSUME_2));
	VERIF_CANARY();
}
#endif
