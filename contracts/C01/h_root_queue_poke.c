/*VERIF
{ "tu": "src/queue.c", "enforce": "_dispatch_root_queue_poke", "props": ["C01"], "nondet_volatile": true, "timeout": 300,
  "stub_note": "_dispatch_root_queue_poke_slow (own contract: h_root_queue_poke_slow): logged" }
VERIF*/
#ifdef VERIF_PRE
#else
#include "contracts/common/dq_common.h"
#define CALL_POKE_SLOW 92
struct dispatch_queue_global_s H_rq;
static void _dispatch_root_queue_poke_slow(dispatch_queue_global_t dq, int n, int floor) { __verif_event(EV_CALL, 0, dq, CALL_POKE_SLOW, ((unsigned long long)(unsigned)n << 32) | (unsigned)floor); }
int H_n, H_floor;
/* a request for workers is forwarded to the pool exactly when the queue (still) has items; the emptiness test is an ORDERED load of the
 * tail, pairing with the release publication of a push (h_root_queue_push): a pusher that saw "non-empty" left behind an item this
 * load sees */
VERIF_CONTRACT_VOID(_dispatch_root_queue_poke, (dispatch_queue_global_t dq, int n, int floor),
  REQ(dq == &H_rq && n == H_n && floor == H_floor && __verif_n == 0)
  ASG(VERIF_GHOST)
  ENS(emptiness_is_decided_by_one_ordered_load_of_the_tail, __verif_n >= 1 && LOGK(0) == EV_LOAD && LOGP(0) == (void *)&H_rq.dq_items_tail && LOGM(0) == VMO_seq_cst)
  ENS(request_is_forwarded_iff_the_queue_has_items, (LOGA(0) != 0) ? (__verif_n == 2 && LOGK(1) == EV_CALL && LOGA(1) == CALL_POKE_SLOW && LOGP(1) == (void *)&H_rq && LOGB(1) == (((unsigned long long)(unsigned)H_n << 32) | (unsigned)H_floor)) : (__verif_n == 1))
)
void harness(void)
{
	h_setup_lane(); H_n = ND(int); H_floor = ND(int);
	_dispatch_root_queue_poke(&H_rq, H_n, H_floor);
	VERIF_REACH(forwarded, __verif_n == 2);
	VERIF_CANARY();
}
#endif
