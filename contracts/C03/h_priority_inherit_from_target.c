/*VERIF
{ "tu": "src/queue.c", "enforce": "_dispatch_queue_priority_inherit_from_target", "props": ["C03"], "seq": true, "timeout": 120,
  "rewrite": [["extern struct dispatch_queue_global_s _dispatch_root_queues[];", "extern struct dispatch_queue_global_s _dispatch_root_queues[_DISPATCH_ROOT_QUEUE_IDX_COUNT];"]],
  "assumes": ["the root-queue table is the library's own array (_dispatch_root_queues); any other queue object is outside it"],
  "stub_note": "_dispatch_is_in_root_queues_array: the real body compares unrelated pointers with >= and <, which is outside CBMC's object memory model; the stub is the same-object test (queue lies inside the _dispatch_root_queues array object). The table itself is defined with its real length" }
VERIF*/
#ifdef VERIF_PRE
#else
#define DQ_STUB_TARGET 1
#include "contracts/common/dq_common.h"
struct dispatch_queue_global_s _dispatch_root_queues[_DISPATCH_ROOT_QUEUE_IDX_COUNT];
static inline bool _dispatch_is_in_root_queues_array(dispatch_queue_class_t dqu) { return __CPROVER_same_object(dqu._dgq, _dispatch_root_queues); }
struct dispatch_lane_s H_custom_tq, H_old_custom; dispatch_queue_t H_tq0; dispatch_priority_t H_pri0; unsigned H_ridx, H_oidx; _Bool H_tq_is_root, H_old_is_root;
#define IN_ROOTS(q) __CPROVER_same_object((q), _dispatch_root_queues)
#define MANUAL(p) (!((p) & DISPATCH_PRIORITY_FLAG_INHERITED) && ((p) & (DISPATCH_PRIORITY_FLAG_FALLBACK | DISPATCH_PRIORITY_FLAG_FLOOR | DISPATCH_PRIORITY_REQUESTED_MASK)))
#define PQOS(p) (((p) & DISPATCH_PRIORITY_QOS_MASK) >> DISPATCH_PRIORITY_QOS_SHIFT)
VERIF_CONTRACT(dispatch_queue_t, _dispatch_queue_priority_inherit_from_target, (dispatch_lane_class_t dq, dispatch_queue_t tq),
  REQ(dq._dl == H_DQ && tq == H_tq0 && H_lane.dq_priority == H_pri0 && H_tq0 == (H_tq_is_root ? (dispatch_queue_t)&_dispatch_root_queues[H_ridx] : (dispatch_queue_t)&H_custom_tq) && H_ridx < _DISPATCH_ROOT_QUEUE_IDX_COUNT && PQOS(H_pri0) <= DISPATCH_QOS_MAX)
  ASG(H_lane.dq_priority)
  /* C03: retargeting onto a queue the client made (anything that is not one of the library's root queues) really targets THAT queue:
   * the requested target is never replaced, whatever the queue targeted before and whatever priority it carries */
  ENS(a_requested_custom_target_is_never_substituted, VIMPL(!H_tq_is_root, __CPROVER_return_value == H_tq0))
  /* only a root queue may be exchanged, and only for another root queue (the one matching a QoS the client picked) */
  ENS(a_root_target_is_only_ever_exchanged_for_a_root_queue, VIMPL(H_tq_is_root, IN_ROOTS(__CPROVER_return_value)))
  ENS(without_a_client_chosen_priority_the_requested_target_is_kept, VIMPL(!MANUAL(H_pri0), __CPROVER_return_value == H_tq0))
  ENS(client_chosen_qos_picks_the_matching_root_queue, VIMPL(H_tq_is_root && MANUAL(H_pri0),
        __CPROVER_return_value == (dispatch_queue_t)&_dispatch_root_queues[2 * ((PQOS(H_pri0) ? PQOS(H_pri0) : DISPATCH_QOS_DEFAULT) - 1) + ((H_pri0 & DISPATCH_PRIORITY_FLAG_OVERCOMMIT) != 0)]))
  ENS(a_priority_the_client_chose_is_left_alone, VIMPL(MANUAL(H_pri0), H_lane.dq_priority == H_pri0))
  ENS(a_base_queue_inherits_the_root_queues_priority, VIMPL(!MANUAL(H_pri0) && H_tq_is_root, H_lane.dq_priority == (_dispatch_root_queues[H_ridx].dq_priority | DISPATCH_PRIORITY_FLAG_INHERITED)))
  ENS(leaving_the_base_position_clears_the_fallback, VIMPL(!MANUAL(H_pri0) && !H_tq_is_root,
        H_lane.dq_priority == ((H_pri0 & DISPATCH_PRIORITY_FLAG_INHERITED) ? (H_pri0 & ~DISPATCH_PRIORITY_FALLBACK_QOS_MASK & ~DISPATCH_PRIORITY_FLAG_FALLBACK) : H_pri0)))
)
void harness(void)
{
	h_setup_lane(); h_setup_target();
	H_tq_is_root = ND_BOOL(); H_old_is_root = ND_BOOL(); H_ridx = ND(unsigned); H_oidx = ND(unsigned);
	__CPROVER_assume(H_ridx < _DISPATCH_ROOT_QUEUE_IDX_COUNT && H_oidx < _DISPATCH_ROOT_QUEUE_IDX_COUNT);
	H_tq0 = H_tq_is_root ? (dispatch_queue_t)&_dispatch_root_queues[H_ridx] : (dispatch_queue_t)&H_custom_tq;
	/* the queue's CURRENT target is unrelated to the requested one */
	H_lane.do_targetq = H_old_is_root ? (dispatch_queue_t)&_dispatch_root_queues[H_oidx] : (dispatch_queue_t)&H_old_custom;
	H_pri0 = ND(dispatch_priority_t); __CPROVER_assume(PQOS(H_pri0) <= DISPATCH_QOS_MAX); /* a QoS outside the defined classes is the 'Corrupted priority' client crash */ H_lane.dq_priority = H_pri0;
	dispatch_queue_t r = _dispatch_queue_priority_inherit_from_target(H_DQ, H_tq0);
	VERIF_POST(_dispatch_queue_priority_inherit_from_target, r, H_DQ, H_tq0);
	VERIF_REACH(substituted, r != H_tq0);
	VERIF_CANARY();
}
#endif
