/*VERIF
{ "tu": "src/queue.c", "enforce": "_dispatch_barrier_waiter_redirect_or_wake", "props": ["C03", "C01", "C02", "C05", "C17"], "seq": true, "timeout": 300,
  "assumes": ["old_state / new_state are the values of the hand-off commit made by the caller (h_lane_drain_barrier_waiter); a lane never has the BASE_WLH role on this platform"],
  "stub_note": "_dispatch_waiter_wake (thread event: h_thread_event_signal), _dispatch_non_barrier_waiter_redirect_or_wake, _dispatch_queue_try_reserve_sync_width (own contract: arbitrary result), dx_push on the target, _dispatch_async_waiter_update, releases: logged" }
VERIF*/
#ifdef VERIF_PRE
#else
#define DQ_STUB_REFS 1
#define DQ_STUB_TARGET 1
#include "contracts/common/dq_common.h"
enum { K_WAKE = 170, K_NB_REDIRECT, K_ASYNC_UPDATE };
struct dispatch_sync_context_s H_dsc; _Bool H_reserve_ok; unsigned H_reserves;
static void _dispatch_waiter_wake(dispatch_sync_context_t dsc, dispatch_wlh_t wlh, uint64_t old_state, uint64_t new_state) { (void)old_state; (void)new_state; __verif_event(K_WAKE, 0, dsc, (unsigned long long)(uintptr_t)wlh, 0); }
static void _dispatch_non_barrier_waiter_redirect_or_wake(dispatch_lane_t dq, dispatch_object_t dc) { __verif_event(K_NB_REDIRECT, 0, dq, (unsigned long long)(uintptr_t)dc._dc, 0); }
static inline bool _dispatch_queue_try_reserve_sync_width(dispatch_lane_t dq) { if (dq != &H_target) H_reserves = 99; else H_reserves++; return H_reserve_ok; }
static inline void _dispatch_async_waiter_update(dispatch_sync_context_t dsc, dispatch_queue_class_t dqu) { (void)dqu; __verif_event(K_ASYNC_UPDATE, 0, dsc, 0, 0); }
static inline void _dispatch_set_basepri_override_qos(dispatch_qos_t qos) { (void)qos; }
uint64_t H_old, H_new; dispatch_wakeup_flags_t H_wf; uintptr_t H_dcflags0;
#define INNER ((H_old & DISPATCH_QUEUE_ROLE_MASK) == DISPATCH_QUEUE_ROLE_INNER)
#define REL_N ((H_wf & DISPATCH_WAKEUP_CONSUME_2) ? 1u : 0u)
VERIF_CONTRACT_VOID(_dispatch_barrier_waiter_redirect_or_wake, (dispatch_queue_class_t dqu, dispatch_object_t dc, dispatch_wakeup_flags_t flags, uint64_t old_state, uint64_t new_state),
  REQ(dqu._dl == H_DQ && dc._dc == (dispatch_continuation_t)&H_dsc && flags == H_wf && old_state == H_old && new_state == H_new && __verif_n == 0 && H_reserves == 0)
  REQ(!(H_old & DISPATCH_QUEUE_ROLE_BASE_WLH) && H_lane.do_targetq == (dispatch_queue_t)&H_target && H_dsc.dc_flags == H_dcflags0 && VALID_WIDTH(H_target.dq_width))
  ASG(VERIF_GHOST, __CPROVER_object_whole(&H_dsc), H_reserves)
  ENS(log_bounded, __verif_n >= 1 && __verif_n <= 3)
  /* the +2 the completing thread carried is dropped here, without disposing (the waiter's own reference keeps the queue alive) */
  ENS(carried_reference_is_dropped_exactly_once, VIMPL(REL_N, LOGK(0) == EV_RELEASE && LOGA(0) == 2 && LOGP(0) == (void *)H_DQ) && VIMPL(!REL_N, LOGK(0) != EV_RELEASE))
  /* THE hierarchy rule: a waiter that received the lock of an INNER queue is NOT woken -- it still has to acquire the target queue
   * (as a barrier if that is serial, else with reader width) and is pushed / redirected there; only on a base queue is it woken */
  ENS(waiter_on_an_inner_queue_is_never_woken_before_it_holds_the_target, VIMPL(INNER, LOGK(LAST) != K_WAKE))
  ENS(waiter_on_a_base_queue_is_woken_exactly_once, VIMPL(!INNER, LOGK(LAST) == K_WAKE && LOGP(LAST) == (void *)&H_dsc && __verif_n == REL_N + 1 && H_reserves == 0))
  ENS(serial_target_is_entered_as_a_barrier, VIMPL(INNER && H_target.dq_width == 1, (H_dsc.dc_flags & DC_FLAG_BARRIER) && LOGK(LAST) == EV_PUSH && LOGP(LAST) == (void *)&H_target && LOGA(LAST) == (unsigned long long)(uintptr_t)&H_dsc && H_reserves == 0))
  ENS(concurrent_target_is_entered_with_reader_width_or_queued, VIMPL(INNER && H_target.dq_width != 1, !(H_dsc.dc_flags & DC_FLAG_BARRIER) && H_reserves == 1 &&
        (H_reserve_ok ? (LOGK(LAST) == K_NB_REDIRECT && LOGP(LAST) == (void *)&H_target) : (LOGK(LAST) == EV_PUSH && LOGP(LAST) == (void *)&H_target))))
  ENS(other_continuation_flags_are_kept, ((H_dsc.dc_flags ^ H_dcflags0) & ~(uintptr_t)DC_FLAG_BARRIER) == 0)
)
void harness(void)
{
	h_setup_lane(); h_setup_target();
	H_old = ND(uint64_t); H_new = ND(uint64_t); H_wf = ND(dispatch_wakeup_flags_t); H_reserve_ok = ND_BOOL(); H_reserves = 0;
	__CPROVER_assume(!(H_old & DISPATCH_QUEUE_ROLE_BASE_WLH));
	uint16_t tw = ND(uint16_t); __CPROVER_assume(VALID_WIDTH(tw)); *(uint16_t *)&H_target.dq_width = tw;
	H_dcflags0 = (ND(uintptr_t) & 0xfff) | DC_FLAG_SYNC_WAITER; H_dsc.dc_flags = H_dcflags0; H_dsc.dc_data = ND_BOOL() ? DISPATCH_WLH_ANON : (void *)H_DQ; H_dsc.dsc_override_qos = ND(uint8_t);
	_dispatch_barrier_waiter_redirect_or_wake(H_DQ, (dispatch_object_t){ ._dc = (dispatch_continuation_t)&H_dsc }, H_wf, H_old, H_new);
	VERIF_POST_VOID(_dispatch_barrier_waiter_redirect_or_wake, (dispatch_queue_class_t){ ._dl = H_DQ }, (dispatch_object_t){ ._dc = (dispatch_continuation_t)&H_dsc }, H_wf, H_old, H_new);
	VERIF_REACH(redirected_with_reader_width, INNER && LOGK(LAST) == K_NB_REDIRECT);
	VERIF_REACH(woken_on_base, !INNER && LOGK(LAST) == K_WAKE);
	VERIF_CANARY();
}
#endif
