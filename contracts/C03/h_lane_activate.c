/*VERIF
{ "tu": "src/queue.c", "enforce": "_dispatch_lane_activate", "props": ["C03"], "seq": true, "timeout": 200,
  "stub_note": "_dispatch_queue_priority_inherit_from_target: returns the (possibly substituted) target; _dispatch_lane_inherit_wlh_from_target (own contract: h_inherit_wlh_from_target): logged" }
VERIF*/
#ifdef VERIF_PRE
#else
#define DQ_STUB_TARGET 1
#include "contracts/common/dq_common.h"
enum { K_PRI_INHERIT = 140, K_WLH_INHERIT };
struct dispatch_lane_s H_tq_at_activation, H_subst_tq; _Bool H_subst;
static dispatch_queue_t _dispatch_queue_priority_inherit_from_target(dispatch_lane_class_t dq, dispatch_queue_t tq)
{ __verif_event(K_PRI_INHERIT, 0, dq._dl, (unsigned long long)(uintptr_t)tq, 0); return H_subst ? (dispatch_queue_t)&H_subst_tq : tq; }
static void _dispatch_lane_inherit_wlh_from_target(dispatch_lane_t dq, dispatch_queue_t tq) { __verif_event(K_WLH_INHERIT, 0, dq, (unsigned long long)(uintptr_t)tq, 0); }
/* an inactive queue may have been retargeted any number of times before activation: its position in the hierarchy (role, INNER
 * unless the target is a root queue) is (re)computed AT ACTIVATION from the target it has then -- for every kind of lane */
VERIF_CONTRACT_VOID(_dispatch_lane_activate, (dispatch_lane_class_t dq, bool *allow_resume),
  REQ(dq._dl == H_DQ && __verif_n == 0 && H_lane.do_targetq == (dispatch_queue_t)&H_tq_at_activation)
  ASG(VERIF_GHOST, H_lane.dq_priority)
  ENS(role_is_recomputed_from_the_target_the_queue_has_at_activation, __verif_n == 2 && LOGK(0) == K_PRI_INHERIT && LOGA(0) == (unsigned long long)(uintptr_t)&H_tq_at_activation
        && LOGK(1) == K_WLH_INHERIT && LOGP(1) == (void *)H_DQ && LOGA(1) == (unsigned long long)(uintptr_t)(H_subst ? &H_subst_tq : &H_tq_at_activation))
)
void harness(void)
{
	h_setup_lane(); h_setup_target(); H_subst = ND_BOOL();
	H_lane.do_targetq = (dispatch_queue_t)&H_tq_at_activation; H_lane.dq_priority = ND(dispatch_priority_t);
	bool ar = 1;
	_dispatch_lane_activate((dispatch_lane_class_t){ ._dl = H_DQ }, &ar);
	VERIF_POST_VOID(_dispatch_lane_activate, (dispatch_lane_class_t){ ._dl = H_DQ }, &ar);
	VERIF_CANARY();
}
#endif
