/*VERIF
{ "tu": "src/queue.c", "enforce": "_dispatch_lane_try_inactive_suspend", "props": ["C03","C06"], "nondet_volatile": true, "timeout": 120 }
VERIF*/
#ifdef VERIF_PRE
#else
#include "contracts/common/dq_common.h"
VERIF_CONTRACT(bool, _dispatch_lane_try_inactive_suspend, (dispatch_lane_class_t dqu),
  REQ(dqu._dl == H_DQ && __verif_n == 0)
  ASG(H_lane.dq_state, VERIF_GHOST)
  /* in-place changes (retarget, handlers) are only allowed on an object that is still inactive, and are protected by one more suspension */
  ENS(succeeds_only_on_an_inactive_object_and_adds_a_suspension, VIMPL(__CPROVER_return_value, __verif_n == 1 && IS_COMMIT(0, &H_lane.dq_state) &&
        S_INACTIVE(LOGA(0)) && LOGB(0) == LOGA(0) + DISPATCH_QUEUE_SUSPEND_INTERVAL && S_SUSPENDED(LOGA(0)) && !S_SIDE(LOGA(0))))
  ENS(active_object_is_refused_without_side_effects, VIMPL(!__CPROVER_return_value, __verif_n == 0 && !S_INACTIVE(__verif_last_load)))
)
void harness(void)
{
	h_setup_lane();
	bool r = _dispatch_lane_try_inactive_suspend(H_DQ);
	VERIF_POST(_dispatch_lane_try_inactive_suspend, r, (dispatch_lane_class_t){ ._dl = H_DQ });
	VERIF_CANARY();
}
#endif
