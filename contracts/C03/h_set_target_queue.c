/*VERIF
{ "tu": "src/queue.c", "enforce": "_dispatch_lane_set_target_queue", "props": ["C03","C17","C06"], "nondet_volatile": true, "timeout": 200,
  "stub_note": "_dispatch_lane_try_inactive_suspend (own contract h_try_inactive_suspend): arbitrary result; _dispatch_lane_resume, _dispatch_barrier_trysync_or_async_f, retain/release: logged" }
VERIF*/
#ifdef VERIF_PRE
#else
#define DQ_STUB_REFS 1
#define H_LANE_TYPE DISPATCH_QUEUE_SERIAL_TYPE
#define DQ_STUB_TARGET 1
#include "contracts/common/dq_common.h"
struct dispatch_lane_s H_newtq; _Bool H_inactive;
#define CALL_TRY_INACTIVE 61
#define CALL_RESUME 62
#define CALL_DEFERRED 63
static inline bool _dispatch_lane_try_inactive_suspend(dispatch_lane_class_t dqu) { __verif_event(EV_CALL, 0, dqu._dl, CALL_TRY_INACTIVE, 0); H_inactive = ND_BOOL(); return H_inactive; }
void _dispatch_lane_resume(dispatch_lane_class_t dqu, bool activate) { __verif_event(EV_CALL, 0, dqu._dl, CALL_RESUME, activate); }
static void _dispatch_barrier_trysync_or_async_f(dispatch_lane_t dq, void *ctxt, dispatch_function_t func, uint32_t flags)
{ (void)func; (void)flags; __verif_event(EV_CALL, 0, dq, CALL_DEFERRED, (uintptr_t)ctxt); }
void _dispatch_bug_deprecated(const char *msg) { (void)msg; }
#define NEWTQ ((dispatch_queue_t)&H_newtq)
VERIF_CONTRACT_VOID(_dispatch_lane_set_target_queue, (dispatch_lane_t dq, dispatch_queue_t tq),
  REQ(dq == H_DQ && tq == NEWTQ && __verif_n == 0)
  ASG(H_lane.do_targetq, H_inactive, VERIF_GHOST)
  ENS(log_bounded, __verif_n >= 1 && __verif_n <= 5 && LOGK(0) == EV_CALL && LOGA(0) == CALL_TRY_INACTIVE)
  /* not yet activated: retarget in place while the queue is held suspended, so it takes effect before any item runs */
  ENS(inactive_retarget_happens_under_a_suspension_then_resumes, VIMPL(H_inactive,
        LOGK(1) == EV_RETAIN && LOGP(1) == (void *)NEWTQ && IS_COMMIT(2, &H_lane.do_targetq) && LOGB(2) == (uintptr_t)NEWTQ && VMO_IS_REL(LOGM(2))
        && (LOGA(2) != 0 ? (__verif_n == 5 && LOGK(3) == EV_RELEASE && LOGP(3) == (void *)(uintptr_t)LOGA(2) && LOGA(3) == 1) : __verif_n == 4)
        && LOGK(LAST) == EV_CALL && LOGA(LAST) == CALL_RESUME && LOGB(LAST) == 0))
  /* a target queue is referenced from the moment another object is going to target it: retained BEFORE the (possibly deferred) retarget is handed off */
  ENS(active_retarget_retains_the_new_target_before_deferring, VIMPL(!H_inactive,
        LOGK(LAST) == EV_CALL && LOGA(LAST) == CALL_DEFERRED && LOGB(LAST) == (uintptr_t)NEWTQ && LOGK(LAST - 1) == EV_RETAIN && LOGP(LAST - 1) == (void *)NEWTQ && LOGA(LAST - 1) == 1))
)
void harness(void)
{
	h_setup_lane(); h_setup_target();
	__verif_ptrloc = &H_lane.do_targetq; __verif_ptrobj = &H_target;
	_dispatch_lane_set_target_queue(H_DQ, NEWTQ);
	VERIF_POST_VOID(_dispatch_lane_set_target_queue, H_DQ, NEWTQ);
	VERIF_REACH(inactive, H_inactive);
	VERIF_REACH(active, !H_inactive && LOGA(LAST) == CALL_DEFERRED);
	VERIF_CANARY();
}
#endif
