/*VERIF
{ "tu": "src/queue.c", "enforce": "_dispatch_workloop_invoke2", "props": ["C03", "C01"], "seq": true, "plain": true, "timeout": 600, "cases": 3,
  "bounded": { "unwind": 8, "what": "as b_workloop_invoke2 (<= 2 items in the QoS-4 bucket, <= 1 in the QoS-2 bucket; case k = position of a sync waiter), WITHOUT the state-word interference of a concurrent push: the quick variant" },
  "cbmc_flags": ["--sat-solver", "cadical", "--slice-formula", "--unwindset", "_dispatch_workloop_invoke2.0:7,_dispatch_workloop_invoke2.1:3,_dispatch_workloop_invoke2.2:6,_dispatch_workloop_try_lower_max_qos.0:2"],
  "cppflags": ["-DH_NO_INTERFERENCE=1"],
  "assumes": ["BOUNDED stand-in: list lengths and the number of drain rounds are bounded as stated (real MPSC lists in memory, no summary nodes)"],
  "stub_note": "_dispatch_continuation_pop_inline (records the invocation order and the current queue), _dispatch_return_to_kernel: stubs" }
VERIF*/
#include "contracts/C03/b_workloop_invoke2.c"
