/*VERIF
{ "tu": "src/queue.c", "enforce": "_dispatch_workloop_invoke2", "props": ["C03", "C01"], "seq": true, "plain": true, "timeout": 600, "cases": 3,
  "bounded": { "unwind": 8, "what": "the work loop's buckets hold at most 2 items in the QoS-4 bucket and 1 item in the QoS-2 bucket (3 work items in all); no push while the drain runs except that ONE invoked item may raise the state word's max-QoS and set DIRTY (what a concurrent push does to the state word); case k = position of a sync waiter (0 none, 1 first item of the high bucket, 2 the item of the low bucket)" },
  "cbmc_flags": ["--sat-solver", "cadical", "--slice-formula", "--unwindset", "_dispatch_workloop_invoke2.0:7,_dispatch_workloop_invoke2.1:3,_dispatch_workloop_invoke2.2:7,_dispatch_workloop_try_lower_max_qos.0:2"],
  "assumes": ["BOUNDED stand-in: list lengths and the number of drain rounds are bounded as stated (real MPSC lists in memory, no summary nodes)"],
  "stub_note": "_dispatch_continuation_pop_inline (records the invocation order and the current queue; may raise max-QoS / set DIRTY), _dispatch_return_to_kernel: stubs" }
VERIF*/
#ifdef VERIF_PRE
#else
#define DQ_STUB_REFS 1
#define DQ_STUB_TARGET 1
#include "contracts/common/dq_common.h"
struct dispatch_workloop_s H_wl; struct dispatch_continuation_s H_it[3]; struct dispatch_invoke_context_s H_dic; uint64_t H_owned, H_owned0;
unsigned H_nA, H_nB, H_ninv; _Bool H_interfered; void *H_inv[4]; _Bool H_bad_current, H_bad_flags; dispatch_invoke_flags_t H_flags; dispatch_queue_t H_cur0; void *H_frame0;
#ifndef H_MAX_A
#define H_MAX_A 2
#endif
#define QA 4
#define QB 2
static inline void _dispatch_continuation_pop_inline(dispatch_object_t dou, dispatch_invoke_context_t dic, dispatch_invoke_flags_t flags, dispatch_queue_class_t dqu)
{
	if (H_ninv < 4) H_inv[H_ninv] = (void *)dou._dc; H_ninv++;
	if (_dispatch_queue_get_current() != (dispatch_queue_t)&H_wl || dqu._dq != (dispatch_queue_t)&H_wl || dic != &H_dic) H_bad_current = 1;
	if (flags != H_flags) H_bad_flags = 1;
	/* what a concurrent push at a higher QoS does to the state word */
#ifndef H_NO_INTERFERENCE
	if (!H_interfered && ND_BOOL()) { H_interfered = 1; uint64_t q = ND(uint64_t) % (DISPATCH_QOS_MAX + 1); uint64_t s = H_wl.dq_state;
		if ((s & DISPATCH_QUEUE_MAX_QOS_MASK) < (q << DISPATCH_QUEUE_MAX_QOS_SHIFT)) s = (s & ~DISPATCH_QUEUE_MAX_QOS_MASK) | (q << DISPATCH_QUEUE_MAX_QOS_SHIFT);
		if (ND_BOOL()) s |= DISPATCH_QUEUE_DIRTY; H_wl.dq_state = s; }
#endif
}
#define WAITER_CASE VERIF_CASE
#define INV(k) (H_inv[k])
#define IT(k) ((void *)&H_it[k])
/* expected invocation sequence: high bucket FIFO, then the low bucket; a sync waiter at a bucket's head stops everything */
#define EXPECT_N (WAITER_CASE == 1 ? 0u : (WAITER_CASE == 2 ? H_nA : H_nA + H_nB))
#define BUCKETS_EMPTY (H_wl.dwl_heads[QA-1] == 0 && H_wl.dwl_tails[QA-1] == 0 && H_wl.dwl_heads[QB-1] == 0 && H_wl.dwl_tails[QB-1] == 0)
VERIF_CONTRACT(dispatch_queue_wakeup_target_t, _dispatch_workloop_invoke2, (dispatch_workloop_t dwl, dispatch_invoke_context_t dic, dispatch_invoke_flags_t flags, uint64_t *owned),
  REQ(dwl == &H_wl && dic == &H_dic && flags == H_flags && owned == &H_owned && H_owned == H_owned0 && H_ninv == 0 && !H_bad_current && !H_bad_flags && H_nA <= 2 && H_nB <= 1
      && _dispatch_queue_get_current() == H_cur0 && _dispatch_thread_getspecific(dispatch_frame_key) == H_frame0)
  ASG(__CPROVER_object_whole(&H_wl), __CPROVER_object_whole(&H_dic), H_owned, H_ninv, __CPROVER_object_whole(H_inv), H_bad_current, H_bad_flags, __CPROVER_object_whole(&__dispatch_tsd), __CPROVER_object_whole(H_it))
  /* C03: the items of a work loop are invoked one at a time by the single drainer, each EXACTLY ONCE, highest QoS bucket first and FIFO within a
   * bucket, with the work loop as the current queue */
  ENS(every_queued_item_before_a_sync_waiter_is_invoked_exactly_once_in_priority_then_fifo_order, H_ninv == EXPECT_N
        && (H_ninv < 1 || INV(0) == (H_nA >= 1 ? IT(0) : IT(2))) && (H_ninv < 2 || INV(1) == (H_nA >= 2 ? IT(1) : IT(2))) && (H_ninv < 3 || INV(2) == IT(2)))
  ENS(items_run_with_the_work_loop_as_current_queue_and_the_callers_flags, !H_bad_current && !H_bad_flags)
  /* C01: the drain reports "nothing left" (NULL) only when every bucket is empty: then it hands back the full barrier ownership for the unlock */
  ENS(nothing_left_is_reported_only_with_all_buckets_empty, VIMPL(__CPROVER_return_value == 0, WAITER_CASE == 0 && BUCKETS_EMPTY
        && H_owned == (H_owned0 & DISPATCH_QUEUE_ENQUEUED) + DISPATCH_QUEUE_IN_BARRIER + DISPATCH_QUEUE_WIDTH_INTERVAL))
  /* a sync waiter at the head of a bucket is neither invoked nor popped: it is handed to the barrier completion, with its bucket */
  ENS(a_sync_waiter_at_the_head_is_handed_over_not_invoked, VIMPL(WAITER_CASE != 0, __CPROVER_return_value == H_wl.do_targetq && __CPROVER_return_value != 0
        && H_dic.dic_barrier_waiter == (WAITER_CASE == 1 ? IT(0) : IT(2)) && H_dic.dic_barrier_waiter_bucket == (WAITER_CASE == 1 ? QA : QB)
        && H_wl.dwl_heads[(WAITER_CASE == 1 ? QA : QB) - 1] == (WAITER_CASE == 1 ? IT(0) : IT(2)) && H_wl.dwl_drained_qos == DISPATCH_QOS_UNSPECIFIED))
  ENS(the_callers_current_queue_and_frame_are_restored, _dispatch_queue_get_current() == H_cur0 && _dispatch_thread_getspecific(dispatch_frame_key) == H_frame0)
)
void harness(void)
{
	h_setup_lane(); h_setup_target();
	H_nA = ND(unsigned); H_nB = ND(unsigned); __CPROVER_assume(H_nA <= H_MAX_A && H_nB <= 1);
	if (WAITER_CASE == 1) __CPROVER_assume(H_nA >= 1);
	if (WAITER_CASE == 2) __CPROVER_assume(H_nB == 1);
	for (unsigned k = 0; k < 3; k++) { H_it[k].dc_flags = (ND(uintptr_t) & 0x1ff) & ~(uintptr_t)DC_FLAG_SYNC_WAITER; H_it[k].do_next = 0; }
	if (WAITER_CASE == 1) H_it[0].dc_flags |= DC_FLAG_SYNC_WAITER;
	if (WAITER_CASE == 2) H_it[2].dc_flags |= DC_FLAG_SYNC_WAITER;
	for (unsigned b = 0; b < DISPATCH_QOS_NBUCKETS; b++) { H_wl.dwl_heads[b] = 0; H_wl.dwl_tails[b] = 0; }
	if (H_nA >= 1) { H_wl.dwl_heads[QA-1] = (void *)&H_it[0]; H_wl.dwl_tails[QA-1] = (void *)&H_it[H_nA - 1]; if (H_nA == 2) H_it[0].do_next = (void *)&H_it[1]; }
	if (H_nB == 1) { H_wl.dwl_heads[QB-1] = (void *)&H_it[2]; H_wl.dwl_tails[QB-1] = (void *)&H_it[2]; }
	H_wl.do_targetq = (dispatch_queue_t)&H_target; H_wl.dq_state = ND(uint64_t); H_wl.dwl_drained_qos = 0;
	H_owned0 = ND(uint64_t); H_owned = H_owned0; H_flags = ND(dispatch_invoke_flags_t); H_ninv = 0; H_bad_current = H_bad_flags = 0; H_interfered = 0;
	H_cur0 = ND_BOOL() ? (dispatch_queue_t)&H_target : (dispatch_queue_t)0; H_frame0 = 0;
	_dispatch_thread_setspecific(dispatch_queue_key, H_cur0); _dispatch_thread_setspecific(dispatch_frame_key, H_frame0);
	VERIF_PRE_CALL(_dispatch_workloop_invoke2, 0, &H_wl, &H_dic, H_flags, &H_owned);
	dispatch_queue_wakeup_target_t r = _dispatch_workloop_invoke2(&H_wl, &H_dic, H_flags, &H_owned);
	VERIF_POST(_dispatch_workloop_invoke2, r, &H_wl, &H_dic, H_flags, &H_owned);
	VERIF_REACH(all_items_drained, WAITER_CASE == 0 && H_ninv == H_MAX_A + 1);
	VERIF_CANARY();
}
#endif
