/*VERIF
{ "tu": "src/queue.c", "enforce": "_dispatch_sync_recurse", "props": ["C03", "C02", "C04"], "seq": true, "timeout": 300,
  "deciding": ["postcondition", "assertion", "precondition", "loop"],
  "assumes": ["the target chain is modelled by two summary nodes whose fields are re-chosen at every iteration (loop contract): any chain of any length below the queue, ending in a root queue",
              "the walk itself is sequential; each level's acquisition is an atomic step with its own contract (try_acquire_barrier_sync, try_reserve_sync_width) and an arbitrary result"],
  "stub_note": "_dispatch_queue_try_acquire_barrier_sync, _dispatch_queue_try_reserve_sync_width: arbitrary result, recorded; _dispatch_sync_f_slow, _dispatch_sync_invoke_and_complete_recurse: check their entry conditions" }
VERIF*/
#ifdef VERIF_PRE
extern struct dispatch_lane_s H_a, H_b, H_root; extern _Bool H_refused; extern struct dispatch_queue_s *H_last_acquired, *H_refused_q; extern unsigned H_outcomes; extern _Bool H_refused_was_serial, H_slow;
#else
#define DQ_STUB_TARGET 1
#include "contracts/common/dq_common.h"
struct dispatch_lane_s H_a, H_b, H_root; _Bool H_refused; dispatch_queue_t H_last_acquired, H_refused_q; _Bool H_refused_was_serial; unsigned H_outcomes; _Bool H_invoked, H_slow;
static void h_work(void *c) { (void)c; }
#define IS_NODE(q) ((q) == (dispatch_queue_t)&H_a || (q) == (dispatch_queue_t)&H_b)
#define H_NODE_OK(n) ((n).dq_width >= 1 && (IS_NODE((n).do_targetq) || (n).do_targetq == (dispatch_queue_t)&H_root))

static inline bool _dispatch_queue_try_acquire_barrier_sync(dispatch_queue_class_t dq, uint32_t tid)
{	/* a SERIAL level is entered as a barrier, with this thread as owner */
	VERIF_ASSERT(serial_level_is_acquired_as_a_barrier_by_this_thread, dq._dl->dq_width == 1 && tid == (uint32_t)H_SELF && !H_refused);
	if (ND_BOOL()) { H_last_acquired = dq._dq; return true; }
	H_refused = 1; H_refused_q = dq._dq; H_refused_was_serial = 1; return false;
}
static inline bool _dispatch_queue_try_reserve_sync_width(dispatch_lane_t dq)
{
	VERIF_ASSERT(concurrent_level_is_entered_with_reader_width, dq->dq_width != 1 && !H_refused);
	if (ND_BOOL()) { H_last_acquired = (dispatch_queue_t)dq; return true; }
	H_refused = 1; H_refused_q = (dispatch_queue_t)dq; H_refused_was_serial = 0; return false;
}
static void _dispatch_sync_f_slow(dispatch_queue_class_t top_dqu, void *ctxt, dispatch_function_t func, uintptr_t top_dc_flags, dispatch_queue_class_t dqu, uintptr_t dc_flags)
{	/* blocked at some level: wait THERE (stop queue), as a barrier iff that level is serial; the item has not run */
	(void)ctxt; (void)top_dc_flags;
	VERIF_ASSERT(blocks_on_exactly_the_level_that_refused, H_refused && dqu._dq == H_refused_q && top_dqu._dl == H_DQ && func == h_work && !H_invoked
		&& ((dc_flags & DC_FLAG_BARRIER) != 0) == H_refused_was_serial);
	H_slow = 1; H_outcomes++;
}
static void _dispatch_sync_invoke_and_complete_recurse(dispatch_queue_class_t dq, void *ctxt, dispatch_function_t func, uintptr_t dc_flags)
{	/* the item runs only when EVERY level down to (excluding) the root queue has been acquired */
	(void)ctxt; (void)dc_flags;
	VERIF_ASSERT(item_runs_only_after_every_level_down_to_the_root_was_acquired, !H_refused && dq._dl == H_DQ && func == h_work && H_last_acquired != 0
		&& IS_NODE(H_last_acquired) && H_last_acquired->do_targetq == (dispatch_queue_t)&H_root);
	H_invoked = 1; H_outcomes++;
}
VERIF_LOOP_CONTRACT(_dispatch_sync_recurse, 0,
	__CPROVER_assigns(tq, __CPROVER_object_whole(&H_a), __CPROVER_object_whole(&H_b), H_last_acquired, H_refused, H_refused_q, H_refused_was_serial, H_outcomes, H_slow, VERIF_GHOST)
	__CPROVER_loop_invariant(IS_NODE(tq) && tq->do_targetq != 0 && H_NODE_OK(H_a) && H_NODE_OK(H_b)
		&& !H_refused && !H_slow && H_outcomes == 0 && H_root.do_targetq == 0
		&& (H_last_acquired == 0 || (IS_NODE(H_last_acquired) && H_last_acquired->do_targetq == tq))))
VERIF_CONTRACT_VOID(_dispatch_sync_recurse, (dispatch_lane_t dq, void *ctxt, dispatch_function_t func, uintptr_t dc_flags),
  REQ(dq == H_DQ && func == h_work && VALID_TID(H_SELF) && !H_refused && H_last_acquired == 0 && H_outcomes == 0 && !H_invoked && !H_slow && H_root.do_targetq == 0)
  REQ(H_lane.do_targetq == (dispatch_queue_t)&H_a && (H_a.do_targetq == (dispatch_queue_t)&H_b || H_a.do_targetq == (dispatch_queue_t)&H_root) && H_a.dq_width >= 1)
  ASG(VERIF_GHOST, __CPROVER_object_whole(&H_a), __CPROVER_object_whole(&H_b), H_last_acquired, H_refused, H_refused_q, H_refused_was_serial, H_outcomes, H_invoked, H_slow)
  ENS(exactly_one_outcome_run_or_block, H_outcomes == 1 && (H_invoked != H_slow))
  ENS(runs_iff_no_level_refused, H_invoked == !H_refused)
)
void harness(void)
{
	h_setup_lane(); H_refused = 0; H_last_acquired = 0; H_refused_q = 0; H_outcomes = 0; H_invoked = 0; H_slow = 0;
	H_root.do_targetq = 0; H_lane.do_targetq = (dispatch_queue_t)&H_a;
	H_a.do_targetq = ND_BOOL() ? (dispatch_queue_t)&H_b : (dispatch_queue_t)&H_root; H_b.do_targetq = ND_BOOL() ? (dispatch_queue_t)&H_a : (dispatch_queue_t)&H_root;
	uint16_t wa = ND(uint16_t), wb = ND(uint16_t); __CPROVER_assume(wa >= 1 && wb >= 1); *(uint16_t *)&H_a.dq_width = wa; *(uint16_t *)&H_b.dq_width = wb;
	_dispatch_sync_recurse(H_DQ, (void *)0, h_work, ND(uintptr_t) & 0xfff);
	VERIF_CANARY();
}
#endif
