/*VERIF
{ "tu": "src/queue.c", "enforce": "_dispatch_sync_complete_recurse", "props": ["C03","C02","C05"], "plain": true, "timeout": 240,
  "bounded": {"unwind": 5, "what": "target-queue chains of <= 3 queues below the root (pointer-chasing loop, no loop contract)"},
  "stub_note": "dx_wakeup(BARRIER_COMPLETE) and _dispatch_lane_non_barrier_complete: logged per level (their own contracts are in C01/C04)" }
VERIF*/
#ifdef VERIF_PRE
#else
#include "contracts/common/dq_common.h"
struct dispatch_lane_s H_q[4];           /* H_q[n] is the root (do_targetq == NULL) */
unsigned H_n;                            /* chain length below the root: 1..3 */
static void h_wakeup(dispatch_queue_class_t dq, dispatch_qos_t qos, dispatch_wakeup_flags_t flags)
{ (void)qos; __verif_event(EV_WAKEUP, 0, dq._dq, flags, 0); }
static const struct dispatch_lane_vtable_s H_vt = { ._os_obj_vtable = { .do_type = DISPATCH_QUEUE_CONCURRENT_TYPE, .dq_wakeup = h_wakeup } };
static void _dispatch_lane_non_barrier_complete(dispatch_lane_t dq, dispatch_wakeup_flags_t flags)
{ __verif_event(EV_CALL, 0, dq, 21, flags); }
#define LEVEL(i) ((dispatch_queue_t)&H_q[i])
/* expected completion of level i: barrier kind iff (i == 0 ? flag : width(level i) == 1) */
#define IS_BARRIER_LEVEL(i, flags) ((i) == 0 ? (((flags) & DC_FLAG_BARRIER) != 0) : (H_q[i].dq_width == 1))
#define EV_OK(k, i, flags) (LOGP(k) == (void *)&H_q[i] && (IS_BARRIER_LEVEL(i, flags) ? (LOGK(k) == EV_WAKEUP && LOGA(k) == DISPATCH_WAKEUP_BARRIER_COMPLETE) : (LOGK(k) == EV_CALL && LOGA(k) == 21)))
unsigned H_stop;                         /* index of stop_dq in the chain, or 99 for NULL */
#define N_EXPECTED (H_stop < H_n ? H_stop : H_n)
VERIF_CONTRACT_VOID(_dispatch_sync_complete_recurse, (dispatch_queue_t dq, dispatch_queue_t stop_dq, uintptr_t dc_flags),
  REQ(dq == LEVEL(0) && __verif_n == 0 && H_n >= 1 && H_n <= 3 && (H_stop == 99 ? stop_dq == 0 : (H_stop <= H_n && stop_dq == LEVEL(H_stop))))
  ASG(VERIF_GHOST)
  /* exactly the levels from the top down to (excluding) stop_dq / the root are released, each once, in order */
  ENS(releases_exactly_the_acquired_levels_top_down, __verif_n == N_EXPECTED &&
        VIMPL(N_EXPECTED >= 1, EV_OK(0, 0, dc_flags)) && VIMPL(N_EXPECTED >= 2, EV_OK(1, 1, dc_flags)) && VIMPL(N_EXPECTED >= 3, EV_OK(2, 2, dc_flags)))
  ENS(stop_queue_itself_is_never_released, VIMPL(H_stop == 0, __verif_n == 0))
)
void harness(void)
{
	VERIF_GHOST_RESET();
	H_n = ND(unsigned); __CPROVER_assume(H_n >= 1 && H_n <= 3);
	for (unsigned i = 0; i < 4; i++) {
		H_q[i].do_vtable = &H_vt;
		uint16_t w = ND(uint16_t); __CPROVER_assume(VALID_WIDTH(w)); *(uint16_t *)&H_q[i].dq_width = w;
		H_q[i].do_targetq = (i < H_n) ? LEVEL(i + 1) : 0;
	}
	H_stop = ND(unsigned); __CPROVER_assume(H_stop == 99 || H_stop <= H_n);
	dispatch_queue_t stop = H_stop == 99 ? 0 : LEVEL(H_stop);
	uintptr_t flags = ND(uintptr_t);
	VERIF_PRE_CALL(_dispatch_sync_complete_recurse, LEVEL(0), stop, flags);
	_dispatch_sync_complete_recurse(LEVEL(0), stop, flags);
	VERIF_POST_VOID(_dispatch_sync_complete_recurse, LEVEL(0), stop, flags);
	VERIF_REACH(stop_at_top, H_stop == 0);
	VERIF_REACH(three_levels, __verif_n == 3);
	VERIF_CANARY();
}
#endif
