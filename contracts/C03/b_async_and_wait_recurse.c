/*VERIF
{ "tu": "src/queue.c", "enforce": "_dispatch_async_and_wait_recurse", "props": ["C03", "C01", "C02", "C04"], "seq": true, "plain": true, "timeout": 300,
  "bounded": { "unwind": 5, "what": "hierarchies of at most 3 queues above the root queue (pointer-chasing loop; a loop contract over summary nodes is out of reach here: CBMC cannot dereference the havocked dispatch_queue_t pointers of the step case, see DESIGN 10.6)" },
  "assumes": ["BOUNDED stand-in: the queue has at most two queues between it and the root queue; every width is arbitrary",
              "the walk itself is sequential; each level's acquisition is an atomic step with its own contract (try_acquire_barrier_sync, try_reserve_sync_width) and an arbitrary result"],
  "stub_note": "_dispatch_async_and_wait_should_always_async, _dispatch_queue_try_acquire_barrier_sync, _dispatch_queue_try_reserve_sync_width: arbitrary result, recorded; _dispatch_async_waiter_update: no-op; _dispatch_async_and_wait_f_slow, _dispatch_async_and_wait_invoke_and_complete_recurse: check their entry conditions" }
VERIF*/
#ifdef VERIF_PRE
extern struct dispatch_lane_s H_lane, H_a, H_b, H_root; extern _Bool H_refused; extern struct dispatch_queue_s *H_last_acquired, *H_refused_q; extern unsigned H_outcomes; extern _Bool H_slow, H_invoked;
extern struct dispatch_sync_context_s H_dsc; extern uintptr_t H_top_flags;
#else
#define DQ_STUB_TARGET 1
#include "contracts/common/dq_common.h"
struct dispatch_lane_s H_a, H_b, H_root; _Bool H_refused; dispatch_queue_t H_last_acquired, H_refused_q; unsigned H_outcomes; _Bool H_invoked, H_slow;
struct dispatch_sync_context_s H_dsc; uintptr_t H_top_flags;
#define IS_NODE(q) ((q) == (dispatch_queue_t)&H_a || (q) == (dispatch_queue_t)&H_b)
#define IS_LEVEL(q) (IS_NODE(q) || (q) == (dispatch_queue_t)H_DQ)
#define H_NODE_OK(n) ((n).dq_width >= 1 && (IS_NODE((n).do_targetq) || (n).do_targetq == (dispatch_queue_t)&H_root))
/* what the waiter must say about itself at level q: the caller's own flags on the queue it was submitted to, below that a barrier exactly on serial levels */
#define FLAGS_FIT(q) ((q) == (dispatch_queue_t)H_DQ ? H_dsc.dc_flags == H_top_flags : (H_dsc.dc_flags == ((q)->dq_width == 1 ? (H_top_flags | DC_FLAG_BARRIER) : (H_top_flags & ~(uintptr_t)DC_FLAG_BARRIER))))
static inline bool _dispatch_async_and_wait_should_always_async(dispatch_queue_class_t dqu, uint64_t dq_state)
{ (void)dq_state; if (ND_BOOL()) { H_refused = 1; H_refused_q = dqu._dq; return true; } return false; }
static inline bool _dispatch_queue_try_acquire_barrier_sync(dispatch_queue_class_t dq, uint32_t tid)
{	VERIF_ASSERT(a_level_is_acquired_as_a_barrier_exactly_when_the_waiter_says_barrier, (H_dsc.dc_flags & DC_FLAG_BARRIER) && FLAGS_FIT(dq._dq) && tid == (uint32_t)H_SELF && !H_refused);
	if (ND_BOOL()) { H_last_acquired = dq._dq; return true; }
	H_refused = 1; H_refused_q = dq._dq; return false;
}
static inline bool _dispatch_queue_try_reserve_sync_width(dispatch_lane_t dq)
{	VERIF_ASSERT(a_level_is_entered_with_reader_width_exactly_when_the_waiter_is_not_a_barrier, !(H_dsc.dc_flags & DC_FLAG_BARRIER) && FLAGS_FIT((dispatch_queue_t)dq) && !H_refused);
	if (ND_BOOL()) { H_last_acquired = (dispatch_queue_t)dq; return true; }
	H_refused = 1; H_refused_q = (dispatch_queue_t)dq; return false;
}
static inline void _dispatch_async_waiter_update(dispatch_sync_context_t dsc, dispatch_queue_class_t dqu) { (void)dsc; (void)dqu; }
static void _dispatch_async_and_wait_f_slow(dispatch_queue_t dq, uintptr_t top_dc_flags, dispatch_sync_context_t dsc, dispatch_queue_t tq)
{	/* blocked at some level: the waiter is queued THERE, and what it says about itself (barrier or reader) is what that level must treat it as: a waiter queued
	 * as a barrier on a concurrent level owns the level as a barrier when it is handed over, but gives it back as a reader (the level stays locked for ever) */
	VERIF_ASSERT(blocks_on_exactly_the_level_that_refused_with_the_flags_of_that_level, H_refused && tq == H_refused_q && dq == (dispatch_queue_t)H_DQ && top_dc_flags == H_top_flags && dsc == &H_dsc && !H_invoked && FLAGS_FIT(tq));
	H_slow = 1; H_outcomes++;
}
static void _dispatch_async_and_wait_invoke_and_complete_recurse(dispatch_queue_t dq, dispatch_sync_context_t dsc, dispatch_queue_t bottom_q, uintptr_t top_dc_flags)
{	/* the item runs on the calling thread only when EVERY level down to (excluding) the root queue has been acquired */
	VERIF_ASSERT(item_runs_only_after_every_level_down_to_the_root_was_acquired, !H_refused && dq == (dispatch_queue_t)H_DQ && dsc == &H_dsc && top_dc_flags == H_top_flags && H_last_acquired == bottom_q
		&& IS_LEVEL(bottom_q) && bottom_q->do_targetq->do_targetq == 0);
	H_invoked = 1; H_outcomes++;
}
VERIF_CONTRACT_VOID(_dispatch_async_and_wait_recurse, (dispatch_queue_t top_dq, dispatch_sync_context_t dsc, dispatch_tid tid, uintptr_t top_flags),
  REQ(top_dq == (dispatch_queue_t)H_DQ && dsc == &H_dsc && tid == (dispatch_tid)H_SELF && top_flags == H_top_flags && H_dsc.dc_flags == H_top_flags && VALID_TID(H_SELF) && !H_refused && H_last_acquired == 0 && H_outcomes == 0 && !H_invoked && !H_slow && H_root.do_targetq == 0)
  REQ((H_lane.do_targetq == (dispatch_queue_t)&H_a || H_lane.do_targetq == (dispatch_queue_t)&H_root) && H_NODE_OK(H_a) && H_b.do_targetq == (dispatch_queue_t)&H_root && H_b.dq_width >= 1 && H_lane.dq_width >= 1)
  ASG(VERIF_GHOST, __CPROVER_object_whole(&H_a), __CPROVER_object_whole(&H_b), __CPROVER_object_whole(&H_dsc), H_last_acquired, H_refused, H_refused_q, H_outcomes, H_invoked, H_slow)
  ENS(exactly_one_outcome_run_or_block, H_outcomes == 1 && (H_invoked != H_slow))
  ENS(runs_iff_no_level_refused, H_invoked == !H_refused)
)
void harness(void)
{
	h_setup_lane(); H_refused = 0; H_last_acquired = 0; H_refused_q = 0; H_outcomes = 0; H_invoked = 0; H_slow = 0;
	H_root.do_targetq = 0; H_lane.do_targetq = ND_BOOL() ? (dispatch_queue_t)&H_a : (dispatch_queue_t)&H_root;
	H_a.do_targetq = ND_BOOL() ? (dispatch_queue_t)&H_b : (dispatch_queue_t)&H_root; H_b.do_targetq = (dispatch_queue_t)&H_root;
	uint16_t wa = ND(uint16_t), wb = ND(uint16_t); __CPROVER_assume(wa >= 1 && wb >= 1); *(uint16_t *)&H_a.dq_width = wa; *(uint16_t *)&H_b.dq_width = wb;
	H_top_flags = (ND(uintptr_t) & (DC_FLAG_BARRIER | DC_FLAG_BLOCK)) | DC_FLAG_ASYNC_AND_WAIT; H_dsc.dc_flags = H_top_flags;
	VERIF_PRE_CALL(_dispatch_async_and_wait_recurse, (dispatch_queue_t)H_DQ, &H_dsc, (dispatch_tid)H_SELF, H_top_flags);
	_dispatch_async_and_wait_recurse((dispatch_queue_t)H_DQ, &H_dsc, (dispatch_tid)H_SELF, H_top_flags);
	VERIF_POST_VOID(_dispatch_async_and_wait_recurse, (dispatch_queue_t)H_DQ, &H_dsc, (dispatch_tid)H_SELF, H_top_flags);
	VERIF_REACH(blocked_two_levels_down, H_slow && H_refused_q == (dispatch_queue_t)&H_b);
	VERIF_REACH(ran_through_three_levels, H_invoked && H_last_acquired == (dispatch_queue_t)&H_b);
	VERIF_CANARY();
}
#endif
