/*VERIF
{ "tu": "src/queue.c", "enforce": "_dispatch_workloop_push_waiter", "props": ["C03", "C01", "C05"], "nondet_volatile": true, "timeout": 300, "cases": 6,
  "assumes": ["one case per QoS bucket the waiter lands in (the bucket index selects the head / tail pair: enumerated so that the modelled pointer location is a fixed one)",
              "the tail exchange of a bucket returns NULL or the previously queued node of that bucket (MPSC discipline); other threads change the work loop's state word at any time"],
  "stub_note": "_dispatch_workloop_barrier_complete (own contract: h_workloop_barrier_complete), _dispatch_queue_wakeup_with_override: logged" }
VERIF*/
#ifdef VERIF_PRE
#include "contracts/common/dq_rely_pre.h"
#else
#define DQ_STUB_REFS 1
#include "contracts/common/dq_common.h"
#define CALL_WL_BARRIER_COMPLETE 73
#define CALL_WAKEUP_WITH_OVERRIDE 52
struct dispatch_workloop_s H_wl; struct dispatch_sync_context_s H_dsc; struct dispatch_continuation_s H_prev; unsigned H_bucket; dispatch_qos_t H_qos_arg;
static void _dispatch_workloop_barrier_complete(dispatch_workloop_t dwl, dispatch_qos_t qos, dispatch_wakeup_flags_t flags) { __verif_event(EV_CALL, 0, dwl, CALL_WL_BARRIER_COMPLETE, ((unsigned long long)qos << 32) | flags); }
static void _dispatch_queue_wakeup_with_override(dispatch_queue_class_t dq, uint64_t dq_state, dispatch_wakeup_flags_t flags) { (void)dq_state; __verif_event(EV_CALL, 0, dq._dq, CALL_WAKEUP_WITH_OVERRIDE, flags); }
#define TAIL_P ((const volatile void *)&H_wl.dwl_tails[H_bucket])
#define HEAD_P ((const volatile void *)&H_wl.dwl_heads[H_bucket])
#define STATE_P ((const volatile void *)&H_wl.dq_state)
#define ITEM_V ((unsigned long long)(uintptr_t)&H_dsc)
#define WAS_EMPTY (LOGA(1) == 0)
/* the bucket a waiter lands in: at least the QoS of the waiting thread's priority; an unspecified QoS is DEFAULT */
#define PQ (((_dispatch_priority_from_pp(H_dsc.dc_priority)) & DISPATCH_PRIORITY_QOS_MASK) >> DISPATCH_PRIORITY_QOS_SHIFT)
#define EFF_QOS ((H_qos_arg < PQ ? PQ : H_qos_arg) == DISPATCH_QOS_UNSPECIFIED ? DISPATCH_QOS_DEFAULT : (H_qos_arg < PQ ? PQ : H_qos_arg))
#define S_O LOGA(3)
#define S_N LOGB(3)
#define IDLE_O (!S_LOCKED(S_O) && !((S_O) & (DISPATCH_QUEUE_ENQUEUED | DISPATCH_QUEUE_ENQUEUED_ON_MGR)))   /* enqueued = on its target or on the manager queue */
/* states the work loop can be in: the barrier bit is only ever set together with an owner */
#define VALID_O (S_LOCKED(S_O) || !S_IN_BARRIER(S_O))
#define TOOK_THE_LOCK (!S_IN_BARRIER(S_O) && S_IN_BARRIER(S_N))
VERIF_CONTRACT_VOID(_dispatch_workloop_push_waiter, (dispatch_workloop_t dwl, dispatch_sync_context_t dsc, dispatch_qos_t qos),
  REQ(dwl == &H_wl && dsc == &H_dsc && qos == H_qos_arg && __verif_n == 0 && VALID_TID(H_SELF) && H_qos_arg <= DISPATCH_QOS_MAX && H_bucket < DISPATCH_QOS_NBUCKETS && EFF_QOS >= 1 && EFF_QOS - 1 == H_bucket)
  ASG(VERIF_GHOST, __CPROVER_object_whole(&H_wl), __CPROVER_object_whole(&H_dsc), H_prev.do_next)
  ENS(log_bounded, __verif_n >= 3 && __verif_n <= 6)
  /* same hand-shake as an ordinary item: terminate, publish as the bucket's tail with RELEASE, then link */
  ENS(waiter_is_terminated_then_published_as_the_tail_of_its_bucket_with_release, IS_COMMIT(0, &H_dsc.do_next) && LOGB(0) == 0 && IS_COMMIT(1, TAIL_P) && LOGB(1) == ITEM_V && VMO_IS_REL(LOGM(1)))
  ENS(waiter_is_linked_behind_the_previous_tail_or_becomes_the_head, WAS_EMPTY ? (IS_COMMIT(2, HEAD_P) && LOGB(2) == ITEM_V) : (__verif_n == 3 && LOGA(1) == (unsigned long long)(uintptr_t)&H_prev && IS_COMMIT(2, &H_prev.do_next) && LOGB(2) == ITEM_V))
  /* C01 / C03: the waiter that makes a bucket non-empty leaves DIRTY behind (release) whenever somebody else owns the work loop or it is enqueued - that owner / the event thread looks again - and, when nobody
   * owns the work loop and it is not enqueued, takes it itself as a barrier owner (owner = this thread, full width, in-barrier) and completes that barrier at once,
   * which hands the work loop to the waiter at the head: a sync waiter is never left behind on an idle work loop */
  ENS(first_waiter_of_a_bucket_marks_a_busy_work_loop_dirty_with_release, VIMPL(WAS_EMPTY, __verif_n >= 4 && IS_COMMIT(3, STATE_P) && VMO_IS_REL(LOGM(3)) && (S_DIRTY(S_N) || IDLE_O)
        && (S_N & DISPATCH_QUEUE_MAX_QOS_MASK) >= (S_O & DISPATCH_QUEUE_MAX_QOS_MASK) && (S_N & DISPATCH_QUEUE_MAX_QOS_MASK) >= ((uint64_t)EFF_QOS << DISPATCH_QUEUE_MAX_QOS_SHIFT)))
  ENS(an_idle_work_loop_is_taken_by_the_waiters_thread_and_completed_at_once, VIMPL(WAS_EMPTY && VALID_O, TOOK_THE_LOCK == IDLE_O
        && (TOOK_THE_LOCK ? (S_OWNER(S_N) == H_SELF && S_FULL(S_N) && __verif_n == 5 && LOGK(4) == EV_CALL && LOGA(4) == CALL_WL_BARRIER_COMPLETE && LOGP(4) == (void *)&H_wl && LOGB(4) == ((unsigned long long)EFF_QOS << 32))
                          : ((S_N & ~(DISPATCH_QUEUE_DIRTY | DISPATCH_QUEUE_MAX_QOS_MASK | DISPATCH_QUEUE_RECEIVED_OVERRIDE)) == (S_O & ~(DISPATCH_QUEUE_DIRTY | DISPATCH_QUEUE_MAX_QOS_MASK | DISPATCH_QUEUE_RECEIVED_OVERRIDE))
                             && (__verif_n == 4 || (__verif_n == 5 && LOGK(4) == EV_CALL && LOGA(4) == CALL_WAKEUP_WITH_OVERRIDE))))))
)
void harness(void)
{
	h_setup_lane(); H_bucket = VERIF_CASE;
	H_dsc.dc_flags = DC_FLAG_SYNC_WAITER | (ND(uintptr_t) & (DC_FLAG_BARRIER | DC_FLAG_BLOCK)); H_dsc.dc_priority = ND(pthread_priority_t); H_dsc.dsc_waiter = ND_BOOL() ? H_SELF : (H_SELF ^ 4u);
	H_qos_arg = ND(dispatch_qos_t); __CPROVER_assume(H_qos_arg <= DISPATCH_QOS_MAX && EFF_QOS >= 1 && EFF_QOS - 1 == H_bucket);
	H_relyp_ptr = &H_wl.dwl_tails[H_bucket]; H_relyp_val = (unsigned long long)(uintptr_t)&H_prev;
	__verif_ptrloc = &H_wl.dwl_tails[H_bucket]; __verif_ptrobj = &H_prev;
	_dispatch_workloop_push_waiter(&H_wl, &H_dsc, H_qos_arg);
	VERIF_POST_VOID(_dispatch_workloop_push_waiter, &H_wl, &H_dsc, H_qos_arg);
	VERIF_REACH(took_the_lock, WAS_EMPTY && TOOK_THE_LOCK);
	VERIF_REACH(left_to_the_owner, WAS_EMPTY && !TOOK_THE_LOCK);
	VERIF_CANARY();
}
#endif
