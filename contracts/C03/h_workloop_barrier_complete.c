/*VERIF
{ "tu": "src/queue.c", "enforce": "_dispatch_workloop_barrier_complete", "props": ["C03", "C01", "C17"], "seq": true, "timeout": 300, "unwind": 8, "unwind_fns": ["_dispatch_workloop_barrier_complete"], "cut_goto": {"_dispatch_workloop_barrier_complete": ["again"]}, "unwind_fns": ["_dispatch_workloop_barrier_complete"],
  "assumes": ["the caller owns the work loop's barrier; no other thread writes the state word or the buckets DURING the call (sequential semantics: the interference-tolerant hand-shake is on the pushing side, h_workloop_push / h_workloop_wakeup); the initial state word is arbitrary, in particular DIRTY may already be set",
              "each bucket is empty or non-empty with an arbitrary item at its head (the function only ever looks at heads)",
              "the bucket scan has a fixed number of iterations (6): unwinding bound 8 is complete (unwinding assertions); the rescan after acknowledging DIRTY is cut inductively: at the back-jump the call is shown to be in a state its precondition covers (barrier still owned, DIRTY acknowledged with acquire, nothing else done)"],
  "stub_note": "_dispatch_workloop_drain_barrier_waiter, _dispatch_queue_push_queue (= one dx_push on the target), _dispatch_queue_wakeup_with_override, _dispatch_set_basepri_override_qos, retain_2 / release_2: logged" }
VERIF*/
#ifdef VERIF_PRE
#else
#define DQ_STUB_REFS 1
#define DQ_STUB_TARGET 1
#include "contracts/common/dq_common.h"
#define CALL_DRAIN_WAITER 74
#define CALL_WAKEUP_WITH_OVERRIDE 52
struct dispatch_workloop_s H_wl; struct dispatch_continuation_s H_it[DISPATCH_QOS_NBUCKETS]; _Bool H_nonempty[DISPATCH_QOS_NBUCKETS]; uint64_t H_state0; dispatch_wakeup_flags_t H_flags0; dispatch_qos_t H_qos0;
static void _dispatch_workloop_drain_barrier_waiter(dispatch_workloop_t dwl, struct dispatch_object_s *dc, dispatch_qos_t qos, dispatch_wakeup_flags_t flags, uint64_t enqueued_bits)
{ (void)flags; (void)enqueued_bits; __verif_event(EV_CALL, 0, dwl, CALL_DRAIN_WAITER, ((unsigned long long)qos << 56) | (unsigned long long)(uintptr_t)dc); }
static inline void _dispatch_queue_push_queue(dispatch_queue_t tq, dispatch_queue_class_t dq, uint64_t dq_state) { __verif_event(EV_PUSH, 0, tq, (unsigned long long)(uintptr_t)dq._dq, _dq_state_max_qos(dq_state)); }
static void _dispatch_queue_wakeup_with_override(dispatch_queue_class_t dq, uint64_t dq_state, dispatch_wakeup_flags_t flags) { (void)dq_state; __verif_event(EV_CALL, 0, dq._dq, CALL_WAKEUP_WITH_OVERRIDE, flags); }
static inline void _dispatch_set_basepri_override_qos(dispatch_qos_t qos) { (void)qos; }
#define STATE_P ((const volatile void *)&H_wl.dq_state)
#define IS_W(b) (H_nonempty[b] && (H_it[b].dc_flags & (DC_FLAG_SYNC_WAITER | DC_FLAG_ASYNC_AND_WAIT)) != 0)
#define ANY_WAITER (IS_W(0) || IS_W(1) || IS_W(2) || IS_W(3) || IS_W(4) || IS_W(5))
#define TOP_WAITER (IS_W(5) ? 5 : IS_W(4) ? 4 : IS_W(3) ? 3 : IS_W(2) ? 2 : IS_W(1) ? 1 : 0)
#define ANY_WORK (H_nonempty[0] || H_nonempty[1] || H_nonempty[2] || H_nonempty[3] || H_nonempty[4] || H_nonempty[5])
/* index of the unlocking commit: it is preceded by the optional retain and by the optional acknowledgement of DIRTY */
#define RETAINED (__verif_n >= 1 && LOGK(0) == EV_RETAIN)
#define UI (RETAINED ? 1u : 0u)
#define U_O LOGA(UI)
#define U_N LOGB(UI)
/* the back-jump `goto again`: taken only with every bucket empty and DIRTY set; the only thing done so far is the acknowledgement (one acquire XOR of DIRTY on a
 * state that still carries this thread's barrier): the rescan starts from a state the precondition covers */
static inline void __verif_cut_backjump(void)
{
	VERIF_ASSERT(the_rescan_is_entered_only_after_acknowledging_dirty_with_the_barrier_still_owned, !ANY_WAITER && !ANY_WORK && S_DIRTY(H_state0) && __verif_n == 1 && IS_COMMIT(0, STATE_P)
		&& LOGA(0) == H_state0 && LOGB(0) == (H_state0 ^ DISPATCH_QUEUE_DIRTY) && VMO_IS_ACQ(LOGM(0)) && H_wl.dq_state == (H_state0 ^ DISPATCH_QUEUE_DIRTY));
	VERIF_REACH(rescan_after_acknowledging_dirty, 1);
	__CPROVER_assume(0);
}
VERIF_CONTRACT_VOID(_dispatch_workloop_barrier_complete, (dispatch_workloop_t dwl, dispatch_qos_t qos, dispatch_wakeup_flags_t flags),
  REQ(dwl == &H_wl && qos == H_qos0 && flags == H_flags0 && __verif_n == 0 && H_wl.dq_state == H_state0 && H_qos0 <= DISPATCH_QOS_MAX && H_wl.do_targetq == (dispatch_queue_t)&H_target
      && (H_state0 & DISPATCH_QUEUE_IN_BARRIER) && (H_state0 & DISPATCH_QUEUE_WIDTH_MASK) >= DISPATCH_QUEUE_WIDTH_INTERVAL && S_OWNER(H_state0) == H_SELF && VALID_TID(H_SELF) && !(H_state0 & DISPATCH_QUEUE_ENQUEUED_ON_MGR))
  ASG(VERIF_GHOST, H_wl.dq_state)
  ENS(log_bounded, __verif_n >= 1 && __verif_n <= 4)
  /* C03: a sync waiter at the head of a bucket - the highest such bucket - receives the work loop directly (hand-off): nothing is unlocked, nobody else can get in between */
  ENS(a_waiter_at_a_bucket_head_gets_the_hand_off_highest_bucket_first, VIMPL(ANY_WAITER, __verif_n == 1 && LOGK(0) == EV_CALL && LOGA(0) == CALL_DRAIN_WAITER
        && LOGB(0) == ((((unsigned long long)TOP_WAITER + 1) << 56) | (unsigned long long)(uintptr_t)&H_it[TOP_WAITER]) && H_wl.dq_state == H_state0))
  /* C01: otherwise the barrier and the whole width are given back by ONE release commit that drops the drain lock ... */
  ENS(otherwise_one_release_commit_gives_back_the_barrier_and_the_lock, VIMPL(!ANY_WAITER, __verif_n >= UI + 1 && IS_COMMIT(UI, STATE_P) && VMO_IS_REL(LOGM(UI))
        && !(U_N & DISPATCH_QUEUE_IN_BARRIER) && (U_N & DISPATCH_QUEUE_DRAIN_UNLOCK_MASK) == 0 && (U_O & DISPATCH_QUEUE_IN_BARRIER)
        && (U_N & DISPATCH_QUEUE_WIDTH_MASK) == ((U_O & DISPATCH_QUEUE_WIDTH_MASK) - DISPATCH_QUEUE_WIDTH_INTERVAL)))
  /* ... queued work is never stranded: with a non-empty bucket the unlocked work loop is left ENQUEUED and - when this call set the bit - pushed to its target exactly
   * once with a +2 (taken here unless the caller brought one) */
  ENS(queued_work_leaves_the_work_loop_enqueued_and_pushed_once_with_a_reference, VIMPL(!ANY_WAITER && ANY_WORK, S_ENQUEUED(U_N)
        && (RETAINED == !(H_flags0 & DISPATCH_WAKEUP_CONSUME_2)) && (!RETAINED || (LOGA(0) == 2 && LOGP(0) == (void *)&H_wl))
        && __verif_n == UI + 2
        && (!S_ENQUEUED(U_O) ? (LOGK(UI + 1) == EV_PUSH && LOGP(UI + 1) == (void *)&H_target && LOGA(UI + 1) == (unsigned long long)(uintptr_t)&H_wl)
                             : ((LOGK(UI + 1) == EV_RELEASE && LOGA(UI + 1) == 2 && LOGP(UI + 1) == (void *)&H_wl) || (LOGK(UI + 1) == EV_CALL && LOGA(UI + 1) == CALL_WAKEUP_WITH_OVERRIDE)))))
  /* ... and with every bucket empty the lock is NEVER dropped over an un-acknowledged DIRTY: DIRTY is cleared first (acquire) and the buckets are looked at again */
  ENS(an_idle_work_loop_is_never_unlocked_over_dirty, VIMPL(!ANY_WAITER && !ANY_WORK, !S_DIRTY(U_O) && U_O == H_state0
        && (U_N & DISPATCH_QUEUE_MAX_QOS_MASK) == 0
        && ((H_flags0 & DISPATCH_WAKEUP_CONSUME_2) ? (__verif_n == UI + 2 && LOGK(UI + 1) == EV_RELEASE && LOGA(UI + 1) == 2 && LOGP(UI + 1) == (void *)&H_wl) : __verif_n == UI + 1)))
)
void harness(void)
{
	h_setup_lane(); h_setup_target(); H_wl.do_vtable = (void *)&H_vtable; H_wl.do_targetq = (dispatch_queue_t)&H_target;
	for (unsigned b = 0; b < DISPATCH_QOS_NBUCKETS; b++) { H_nonempty[b] = ND_BOOL(); H_it[b].dc_flags = ND(uintptr_t) & 0x1ff; H_it[b].do_next = 0;
		H_wl.dwl_heads[b] = H_nonempty[b] ? (void *)&H_it[b] : (void *)0; H_wl.dwl_tails[b] = H_nonempty[b] ? (void *)&H_it[b] : (void *)0; }
	H_state0 = ND(uint64_t); H_wl.dq_state = H_state0; H_flags0 = ND(dispatch_wakeup_flags_t); H_qos0 = ND(dispatch_qos_t);
	__CPROVER_assume(H_qos0 <= DISPATCH_QOS_MAX && (H_state0 & DISPATCH_QUEUE_IN_BARRIER) && (H_state0 & DISPATCH_QUEUE_WIDTH_MASK) >= DISPATCH_QUEUE_WIDTH_INTERVAL && S_OWNER(H_state0) == H_SELF && VALID_TID(H_SELF) && !(H_state0 & DISPATCH_QUEUE_ENQUEUED_ON_MGR));
	_dispatch_workloop_barrier_complete(&H_wl, H_qos0, H_flags0);
	VERIF_POST_VOID(_dispatch_workloop_barrier_complete, &H_wl, H_qos0, H_flags0);
	VERIF_REACH(hand_off, ANY_WAITER);
	VERIF_REACH(pushed, !ANY_WAITER && ANY_WORK && LOGK(LAST) == EV_PUSH);
	VERIF_CANARY();
}
#endif
