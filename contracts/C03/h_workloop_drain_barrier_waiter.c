/*VERIF
{ "tu": "src/queue.c", "enforce": "_dispatch_workloop_drain_barrier_waiter", "props": ["C03", "C01", "C05"], "nondet_volatile": true, "timeout": 300, "unwind": 8, "unwind_fns": ["_dispatch_workloop_probe"],
  "cut_goto": {"_dispatch_workloop_drain_barrier_waiter": ["transfer_lock_again"]},
  "assumes": ["rely: while this thread owns the work loop's barrier, the state word is IN_BARRIER + drain-locked by it; on this platform (no kevent work loops) a work loop never has the BASE_WLH role, so the rescan-and-retry path of that role is unreachable (asserted at the cut)",
              "the waiter is at the head of its bucket; its successor (if any) is read through the MPSC pop as written (a late enqueuer is waited for: stub)"],
  "stub_note": "_dispatch_barrier_waiter_redirect_or_wake (own contract: h_barrier_waiter_redirect_or_wake), _dispatch_wait_for_enqueuer: logged / summary" }
VERIF*/
#ifdef VERIF_PRE
extern const volatile void *H_rely_ptr; extern unsigned long long H_rely_owner, H_rely_enq;
#define __VERIF_RELY(p, v) ((const volatile void *)(p) != H_rely_ptr || \
	((((unsigned long long)(v)) & DISPATCH_QUEUE_IN_BARRIER) && (((unsigned long long)(v)) & DISPATCH_QUEUE_DRAIN_OWNER_MASK) == H_rely_owner && \
	 !(((unsigned long long)(v)) & DISPATCH_QUEUE_ROLE_BASE_WLH) && (((unsigned long long)(v)) & H_rely_enq) == H_rely_enq))
/* guarantee on the state word: the only write is the ownership transfer (release): the work loop is never left unowned, barrier / width / suspend / role bits untouched */
#define __VERIF_GUARANTEE(p, ov, nv, mo) ((const volatile void *)(p) != H_rely_ptr || \
	(VMO_IS_REL(mo) && ((nv) & DISPATCH_QUEUE_DRAIN_OWNER_MASK) != 0 && (((nv) ^ (ov)) & (DISPATCH_QUEUE_IN_BARRIER | DISPATCH_QUEUE_WIDTH_MASK | DISPATCH_QUEUE_SUSPEND_BITS_MASK | DISPATCH_QUEUE_ROLE_MASK)) == 0))
#else
#define DQ_STUB_REFS 1
#define DQ_STUB_TARGET 1
#include "contracts/common/dq_common.h"
enum { K_REDIRECT = 181 };
const volatile void *H_rely_ptr_unused;
unsigned long long H_rely_owner, H_rely_enq; struct dispatch_workloop_s H_wl; struct dispatch_sync_context_s H_dsc; struct dispatch_continuation_s H_next;
uint64_t H_r_old, H_r_new; dispatch_wakeup_flags_t H_r_flags; uint32_t H_waiter_tid; uint64_t H_enq_bits; dispatch_wakeup_flags_t H_wf; dispatch_qos_t H_qos0;
static void _dispatch_barrier_waiter_redirect_or_wake(dispatch_queue_class_t dqu, dispatch_object_t dc, dispatch_wakeup_flags_t flags, uint64_t old_state, uint64_t new_state)
{ H_r_old = old_state; H_r_new = new_state; H_r_flags = flags; __verif_event(K_REDIRECT, 0, dqu._dq, (unsigned long long)(uintptr_t)dc._dc, 0); }
void *_dispatch_wait_for_enqueuer(void **ptr) { (void)ptr; return &H_next; }
static inline void __verif_cut_backjump(void)
{	/* the retry exists only for work loops bound to a kernel work loop (BASE_WLH): excluded by the rely on this platform */
	VERIF_ASSERT(retry_only_for_kernel_bound_work_loops, 0); __CPROVER_assume(0);
}
#define STATE_P ((const volatile void *)&H_wl.dq_state)
#define SI (LAST - 1)
#define S_O LOGA(SI)
#define S_N LOGB(SI)
VERIF_CONTRACT_VOID(_dispatch_workloop_drain_barrier_waiter, (dispatch_workloop_t dwl, struct dispatch_object_s *dc, dispatch_qos_t qos, dispatch_wakeup_flags_t flags, uint64_t enqueued_bits),
  REQ(dwl == &H_wl && dc == (struct dispatch_object_s *)&H_dsc && qos == H_qos0 && H_qos0 >= 1 && H_qos0 <= DISPATCH_QOS_MAX && flags == H_wf && enqueued_bits == H_enq_bits && (H_enq_bits == 0 || H_enq_bits == DISPATCH_QUEUE_ENQUEUED) && H_rely_enq == H_enq_bits && __verif_n == 0)
  REQ(VALID_TID(H_SELF) && VALID_TID(H_waiter_tid) && H_dsc.dsc_waiter == H_waiter_tid && H_rely_owner == H_SELF)
  ASG(VERIF_GHOST, __CPROVER_object_whole(&H_wl), H_r_old, H_r_new, H_r_flags)
  ENS(log_bounded, __verif_n >= 3 && __verif_n <= 6 && IS_COMMIT(SI, STATE_P) && LOGK(LAST) == K_REDIRECT)
  /* the waiter leaves its bucket first: the bucket's head moves to its successor (NULL when it was the last: then the tail is cleared with release, or a late enqueuer is waited for) */
  ENS(the_waiter_is_popped_from_the_head_of_its_bucket_first, IS_COMMIT(0, &H_wl.dwl_heads[H_qos0 - 1]) && (LOGB(0) == 0 || LOGB(0) == (unsigned long long)(uintptr_t)&H_next))
  /* C03: ownership of the work loop goes from this thread to the WAITER in one release step: never unowned in between, the waiter keeps the barrier */
  ENS(lock_is_transferred_to_the_waiter_in_one_release_step, VMO_IS_REL(LOGM(SI)) && S_OWNER(S_N) == (uint64_t)H_waiter_tid && S_IN_BARRIER(S_N) && S_OWNER(S_O) == H_SELF)
  ENS(dirty_is_consumed_by_the_transfer_and_nothing_else_changes, !S_DIRTY(S_N) && ((S_N ^ S_O) & ~(DISPATCH_QUEUE_DRAIN_UNLOCK_MASK | DISPATCH_QUEUE_DIRTY | DISPATCH_QUEUE_ENQUEUED | DISPATCH_QUEUE_ENQUEUED_ON_MGR)) == 0
        && (S_N & (DISPATCH_QUEUE_ENQUEUED | DISPATCH_QUEUE_ENQUEUED_ON_MGR)) == ((S_O - H_enq_bits) & (DISPATCH_QUEUE_ENQUEUED | DISPATCH_QUEUE_ENQUEUED_ON_MGR)))
  ENS(waiter_is_routed_with_the_states_of_the_transfer, LOGP(LAST) == (void *)&H_wl && LOGA(LAST) == (unsigned long long)(uintptr_t)&H_dsc && H_r_old == S_O && H_r_new == S_N && H_r_flags == H_wf)
)
void harness(void)
{
	h_setup_lane(); h_setup_target(); H_wl.do_vtable = (void *)&H_vtable; H_wl.do_targetq = (dispatch_queue_t)&H_target;
	H_waiter_tid = ND(uint32_t); __CPROVER_assume(VALID_TID(H_waiter_tid)); H_dsc.dsc_waiter = H_waiter_tid; H_dsc.dc_flags = DC_FLAG_SYNC_WAITER | DC_FLAG_BARRIER;
	H_wf = ND(dispatch_wakeup_flags_t); H_enq_bits = ND_BOOL() ? DISPATCH_QUEUE_ENQUEUED : 0; H_rely_enq = H_enq_bits; H_qos0 = ND(dispatch_qos_t); __CPROVER_assume(H_qos0 >= 1 && H_qos0 <= DISPATCH_QOS_MAX);
	H_rely_ptr = &H_wl.dq_state; H_rely_owner = H_SELF;
	__verif_ptrloc = &H_dsc.do_next; __verif_ptrobj = &H_next;
	_dispatch_workloop_drain_barrier_waiter(&H_wl, (struct dispatch_object_s *)&H_dsc, H_qos0, H_wf, H_enq_bits);
	VERIF_POST_VOID(_dispatch_workloop_drain_barrier_waiter, &H_wl, (struct dispatch_object_s *)&H_dsc, H_qos0, H_wf, H_enq_bits);
	VERIF_REACH(last_item_of_the_bucket, LOGB(0) == 0 && __verif_n == 4);
	VERIF_CANARY();
}
#endif
