/*VERIF
{ "tu": "src/queue.c", "enforce": "_dispatch_lane_inherit_wlh_from_target", "props": ["C03", "C06", "C01", "C02"], "nondet_volatile": true, "timeout": 200,
  "stub_note": "_dispatch_base_lane_is_wlh: arbitrary result; deferred items: none" }
VERIF*/
#ifdef VERIF_PRE
#else
#include "contracts/common/dq_common.h"
struct dispatch_lane_s H_tq; struct dispatch_lane_vtable_s H_tvt; _Bool H_is_wlh;
static inline bool _dispatch_base_lane_is_wlh(dispatch_lane_t dq, dispatch_queue_t tq) { (void)dq; (void)tq; H_is_wlh = ND_BOOL(); return H_is_wlh; }
static inline dispatch_deferred_items_t _dispatch_deferred_items_get(void) { return 0; }
#define TQ_IS_ROOT ((H_tvt._os_obj_vtable.do_type & _DISPATCH_QUEUE_ROOT_TYPEFLAG) != 0)
#define STATE_P ((const volatile void *)&H_lane.dq_state)
#define ROLE_COMMIT ((__verif_n >= 1 && IS_COMMIT(0, STATE_P)) ? 1 : 0)
VERIF_CONTRACT_VOID(_dispatch_lane_inherit_wlh_from_target, (dispatch_lane_t dq, dispatch_queue_t tq),
  REQ(dq == H_DQ && tq == (dispatch_queue_t)&H_tq && H_tq.do_vtable == &H_tvt && __verif_n == 0)
  ASG(H_lane.dq_state, H_tq.dq_atomic_flags, H_is_wlh, VERIF_GHOST)
  ENS(log_bounded, __verif_n <= 2)
  /* a queue is the base of its hierarchy only if it targets a ROOT (global) queue; a queue targeting any other queue
   * (serial queue, main queue, workloop) is INNER: its dispatch_sync callers must keep descending to the bottom */
  ENS(role_is_inner_unless_the_target_is_a_root_queue, VIMPL(ROLE_COMMIT,
        S_ROLE(LOGB(0)) == (!TQ_IS_ROOT ? DISPATCH_QUEUE_ROLE_INNER : H_is_wlh ? DISPATCH_QUEUE_ROLE_BASE_WLH : DISPATCH_QUEUE_ROLE_BASE_ANON) &&
        (LOGB(0) & ~DISPATCH_QUEUE_ROLE_MASK) == (LOGA(0) & ~DISPATCH_QUEUE_ROLE_MASK)))
  /* C06: dq_state also carries the suspend count, the lock and the enqueued mark, which other threads change at any time: the role is
   * switched by ONE atomic read-modify-write that keeps every other bit of the value it replaced (a separate load and store loses a
   * concurrent dispatch_suspend / dispatch_resume) */
  ENS(role_switch_preserves_every_other_bit_of_the_value_it_replaces, VIMPL(ROLE_COMMIT, (LOGB(0) & ~DISPATCH_QUEUE_ROLE_MASK) == (LOGA(0) & ~DISPATCH_QUEUE_ROLE_MASK)))
  ENS(unchanged_state_already_has_the_right_role, VIMPL(!ROLE_COMMIT && __verif_n == 0 && TQ_IS_ROOT,
        S_ROLE(__verif_last_load) == (H_is_wlh ? DISPATCH_QUEUE_ROLE_BASE_WLH : DISPATCH_QUEUE_ROLE_BASE_ANON)))
)
void harness(void)
{
	h_setup_lane();
	*(unsigned long *)&H_tvt._os_obj_vtable.do_type = ND(unsigned long);
	H_tq.do_vtable = &H_tvt;
	_dispatch_lane_inherit_wlh_from_target(H_DQ, (dispatch_queue_t)&H_tq);
	VERIF_POST_VOID(_dispatch_lane_inherit_wlh_from_target, H_DQ, (dispatch_queue_t)&H_tq);
	VERIF_REACH(inner, __verif_n == 2 && S_ROLE(LOGB(0)) == DISPATCH_QUEUE_ROLE_INNER);
	VERIF_CANARY();
}
#endif
