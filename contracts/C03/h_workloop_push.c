/*VERIF
{ "tu": "src/queue.c", "enforce": "_dispatch_workloop_push", "props": ["C03", "C01", "C17"], "nondet_volatile": true, "timeout": 300, "cases": 6,
  "assumes": ["one case per QoS bucket the item lands in (the bucket index selects the head / tail pair: enumerated so that the modelled pointer location is a fixed one)",
              "the tail exchange of a bucket returns NULL or the previously queued node of that bucket (MPSC discipline)"],
  "stub_note": "_dispatch_workloop_wakeup (own contract: h_workloop_wakeup), _dispatch_workloop_push_waiter, retain_2: logged" }
VERIF*/
#ifdef VERIF_PRE
#include "contracts/common/dq_rely_pre.h"
#else
#define DQ_STUB_REFS 1
#include "contracts/common/dq_common.h"
#define CALL_WL_WAKEUP 71
#define CALL_WL_PUSH_WAITER 72
struct dispatch_workloop_s H_wl; struct dispatch_continuation_s H_item, H_prev; unsigned H_bucket; dispatch_qos_t H_qos_arg;
void _dispatch_workloop_wakeup(dispatch_workloop_t dwl, dispatch_qos_t qos, dispatch_wakeup_flags_t flags) { __verif_event(EV_CALL, 0, dwl, CALL_WL_WAKEUP, ((unsigned long long)qos << 32) | flags); }
static void _dispatch_workloop_push_waiter(dispatch_workloop_t dwl, dispatch_sync_context_t dsc, dispatch_qos_t qos) { (void)qos; __verif_event(EV_CALL, 0, dwl, CALL_WL_PUSH_WAITER, (unsigned long long)(uintptr_t)dsc); }
#define TAIL_P ((const volatile void *)&H_wl.dwl_tails[H_bucket])
#define HEAD_P ((const volatile void *)&H_wl.dwl_heads[H_bucket])
#define ITEM_V ((unsigned long long)(uintptr_t)&H_item)
#define IS_WAITER ((H_item.dc_flags & (DC_FLAG_SYNC_WAITER | DC_FLAG_ASYNC_AND_WAIT)) != 0)
#define WAS_EMPTY (LOGA(1) == 0)
/* the bucket an item lands in: at least the work loop's own QoS; an unspecified QoS uses the work loop's fallback */
#define PQ (((H_wl.dq_priority) & DISPATCH_PRIORITY_QOS_MASK) >> DISPATCH_PRIORITY_QOS_SHIFT)
#define FQ (((H_wl.dq_priority) & DISPATCH_PRIORITY_FALLBACK_QOS_MASK) >> DISPATCH_PRIORITY_FALLBACK_QOS_SHIFT)
#define EFF_QOS ((H_qos_arg < PQ ? PQ : H_qos_arg) == DISPATCH_QOS_UNSPECIFIED ? FQ : (H_qos_arg < PQ ? PQ : H_qos_arg))
VERIF_CONTRACT_VOID(_dispatch_workloop_push, (dispatch_workloop_t dwl, dispatch_object_t dou, dispatch_qos_t qos),
  REQ(dwl == &H_wl && dou._dc == &H_item && qos == H_qos_arg && __verif_n == 0 && VALID_TID(H_SELF) && H_item.dc_flags <= 0xffful && H_qos_arg <= DISPATCH_QOS_MAX && H_bucket < DISPATCH_QOS_NBUCKETS && (IS_WAITER || (EFF_QOS >= 1 && EFF_QOS - 1 == H_bucket)))
  ASG(VERIF_GHOST, __CPROVER_object_whole(&H_wl), H_item.do_next, H_prev.do_next)
  ENS(log_bounded, __verif_n >= 1 && __verif_n <= 6)
  ENS(sync_waiters_take_the_waiter_path, VIMPL(IS_WAITER, __verif_n == 1 && LOGK(0) == EV_CALL && LOGA(0) == CALL_WL_PUSH_WAITER && LOGB(0) == ITEM_V))
  /* same hand-shake as a lane, per QoS bucket: terminate, publish as the bucket's tail with RELEASE ... */
  ENS(item_is_terminated_then_published_as_the_tail_of_its_bucket_with_release, VIMPL(!IS_WAITER, IS_COMMIT(0, &H_item.do_next) && LOGB(0) == 0 && IS_COMMIT(1, TAIL_P) && LOGB(1) == ITEM_V && VMO_IS_REL(LOGM(1))))
  /* ... the push that makes the bucket non-empty takes the +2 BEFORE the item is reachable from the head and ALWAYS wakes the work loop with MAKE_DIRTY at the
   * bucket's QoS (a drainer about to unlock must look again: no stranded item on a work-loop bottom) */
  ENS(first_item_of_a_bucket_retains_then_links_then_wakes_the_work_loop_dirty, VIMPL(!IS_WAITER && WAS_EMPTY, __verif_n == 5 && LOGK(2) == EV_RETAIN && LOGA(2) == 2 && LOGP(2) == (void *)&H_wl && IS_COMMIT(3, HEAD_P) && LOGB(3) == ITEM_V
        && LOGK(4) == EV_CALL && LOGA(4) == CALL_WL_WAKEUP && LOGP(4) == (void *)&H_wl && LOGB(4) == ((((unsigned long long)H_bucket + 1) << 32) | DISPATCH_WAKEUP_CONSUME_2 | DISPATCH_WAKEUP_MAKE_DIRTY)))
  ENS(later_item_is_only_linked_behind_the_previous_tail, VIMPL(!IS_WAITER && !WAS_EMPTY, __verif_n == 3 && LOGA(1) == (unsigned long long)(uintptr_t)&H_prev && IS_COMMIT(2, &H_prev.do_next) && LOGB(2) == ITEM_V))
)
void harness(void)
{
	h_setup_lane(); H_bucket = VERIF_CASE;
	H_item.dc_flags = ND(uintptr_t); __CPROVER_assume(H_item.dc_flags <= 0xffful); H_wl.dq_priority = ND(dispatch_priority_t); H_qos_arg = ND(dispatch_qos_t);
	__CPROVER_assume(H_qos_arg <= DISPATCH_QOS_MAX && (IS_WAITER || (EFF_QOS >= 1 && EFF_QOS - 1 == H_bucket)));
	H_relyp_ptr = &H_wl.dwl_tails[H_bucket]; H_relyp_val = (unsigned long long)(uintptr_t)&H_prev;
	__verif_ptrloc = &H_wl.dwl_tails[H_bucket]; __verif_ptrobj = &H_prev;
	_dispatch_workloop_push(&H_wl, (dispatch_object_t){ ._dc = &H_item }, H_qos_arg);
	VERIF_POST_VOID(_dispatch_workloop_push, &H_wl, (dispatch_object_t){ ._dc = &H_item }, H_qos_arg);
	VERIF_REACH(first_item, !IS_WAITER && WAS_EMPTY);
	VERIF_CANARY();
}
#endif
