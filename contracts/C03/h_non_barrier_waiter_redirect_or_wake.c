/*VERIF
{ "tu": "src/queue.c", "enforce": "_dispatch_non_barrier_waiter_redirect_or_wake", "props": ["C03", "C04", "C05"], "timeout": 300,
  "cut_goto": {"_dispatch_non_barrier_waiter_redirect_or_wake": ["again"]},
  "assumes": ["ONE LEVEL of the walk down the hierarchy is verified for an arbitrary queue; the backward jump (goto again) is a cut point at which the entry condition of the next level is checked (the reader holds width on the queue it continues with), so the argument is an induction over the depth of the target chain -- unbounded",
              "the role bits read from dq_state are the ones of the queue (roles only change under suspension: C03 set_target_queue contracts)"],
  "stub_note": "_dispatch_waiter_wake_wlh_anon (thread event), _dispatch_queue_try_reserve_sync_width (own contract: arbitrary result), dx_push, _dispatch_async_waiter_update: logged" }
VERIF*/
#ifdef VERIF_PRE
extern const volatile void *H_sp; extern unsigned long long H_sv;
#define __VERIF_RELY(p, v) ((const volatile void *)(p) != H_sp || (unsigned long long)(v) == H_sv)
#else
#define DQ_STUB_REFS 1
#define DQ_STUB_TARGET 1
#include "contracts/common/dq_common.h"
enum { K_WAKE = 170, K_CONTINUE_BELOW = 175 };
const volatile void *H_sp; unsigned long long H_sv; _Bool H_res; unsigned H_reserves; struct dispatch_sync_context_s H_dsc; dispatch_lane_t H_reserved_on;
static void _dispatch_waiter_wake_wlh_anon(dispatch_sync_context_t dsc) { __verif_event(K_WAKE, 0, dsc, 0, 0); }
static inline bool _dispatch_queue_try_reserve_sync_width(dispatch_lane_t dq) { H_reserves++; H_reserved_on = dq; return H_res; }
static inline void _dispatch_async_waiter_update(dispatch_sync_context_t dsc, dispatch_queue_class_t dqu) { (void)dqu; (void)dsc; }
/* cut point: the walk continues one level down -- only ever with reader width held on that target, as a non-barrier */
void __verif_cut_backjump(void)
{
	VERIF_REACH(walk_continues_one_level_down, 1);
	VERIF_ASSERT(continues_below_only_with_reader_width_on_the_target, H_reserves == 1 && H_res && H_reserved_on == &H_target && H_target.dq_width != 1 && !(H_dsc.dc_flags & DC_FLAG_BARRIER)
		&& (H_sv & DISPATCH_QUEUE_ROLE_MASK) == DISPATCH_QUEUE_ROLE_INNER);
	__verif_event(K_CONTINUE_BELOW, 0, &H_target, 0, 0);
	__CPROVER_assume(0);
}
#define INNERQ ((H_sv & DISPATCH_QUEUE_ROLE_MASK) == DISPATCH_QUEUE_ROLE_INNER)
VERIF_CONTRACT_VOID(_dispatch_non_barrier_waiter_redirect_or_wake, (dispatch_lane_t dq, dispatch_object_t dou),
  REQ(dq == H_DQ && dou._dc == (dispatch_continuation_t)&H_dsc && __verif_n == 0 && H_reserves == 0 && !(H_dsc.dc_flags & DC_FLAG_BARRIER))
  REQ(H_lane.do_targetq == (dispatch_queue_t)&H_target && VALID_WIDTH(H_target.dq_width))
  ASG(VERIF_GHOST, __CPROVER_object_whole(&H_dsc), H_reserves, H_reserved_on)
  ENS(exactly_one_outcome, __verif_n == 1 && (LOGK(0) == K_WAKE || LOGK(0) == EV_PUSH))
  /* a reader is woken only on a BASE queue: on an inner queue it must first get onto the target -- queued there as a barrier if the
   * target is serial, queued as a reader if width is refused (the third outcome, continuing below with width, is the cut point) */
  ENS(woken_only_on_a_base_queue, (LOGK(0) == K_WAKE) == !INNERQ)
  ENS(queued_on_the_target_that_cannot_take_a_reader_now, VIMPL(INNERQ, LOGK(0) == EV_PUSH && LOGP(0) == (void *)&H_target && LOGA(0) == (unsigned long long)(uintptr_t)&H_dsc
        && (((H_dsc.dc_flags & DC_FLAG_BARRIER) != 0) == (H_target.dq_width == 1)) && H_reserves == (H_target.dq_width == 1 ? 0u : 1u) && VIMPL(H_reserves == 1, !H_res)))
  ENS(base_queue_reserves_nothing, VIMPL(!INNERQ, H_reserves == 0))
)
void harness(void)
{
	h_setup_lane(); h_setup_target(); H_reserves = 0; H_reserved_on = 0;
	uint16_t w = ND(uint16_t); __CPROVER_assume(VALID_WIDTH(w)); *(uint16_t *)&H_target.dq_width = w;
	H_sp = &H_lane.dq_state; H_sv = ND(uint64_t); H_res = ND_BOOL();
	H_dsc.dc_flags = DC_FLAG_SYNC_WAITER | (ND_BOOL() ? DC_FLAG_ASYNC_AND_WAIT : 0); H_dsc.dsc_override_qos = ND(uint8_t);
	_dispatch_non_barrier_waiter_redirect_or_wake(H_DQ, (dispatch_object_t){ ._dc = (dispatch_continuation_t)&H_dsc });
	VERIF_POST_VOID(_dispatch_non_barrier_waiter_redirect_or_wake, H_DQ, (dispatch_object_t){ ._dc = (dispatch_continuation_t)&H_dsc });
	VERIF_REACH(queued_as_barrier_on_serial_target, LOGK(0) == EV_PUSH && (H_dsc.dc_flags & DC_FLAG_BARRIER));
	VERIF_CANARY();
}
#endif
