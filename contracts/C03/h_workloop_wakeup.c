/*VERIF
{ "tu": "src/queue.c", "enforce": "_dispatch_workloop_wakeup", "props": ["C03", "C01", "C17"], "nondet_volatile": true, "timeout": 300,
  "assumes": ["other threads change the work loop's state word at any time (interference model); an active work loop is never suspended (suspending one is the documented client crash)"],
  "stub_note": "_dispatch_workloop_barrier_complete, _dispatch_queue_push_queue (= one dx_push on the target), _dispatch_queue_wakeup_with_override, release_2: logged" }
VERIF*/
#ifdef VERIF_PRE
extern const volatile void *H_rely_ptr;
/* guarantee of a wakeup on dq_state: only ever ADDS the enqueued bit, DIRTY and a higher max-QoS; never touches the lock, the width, the barrier or the suspend count */
#define __VERIF_GUARANTEE(p, ov, nv, mo) ((const volatile void *)(p) != H_rely_ptr || \
	((((nv) ^ (ov)) & ~(DISPATCH_QUEUE_ENQUEUED | DISPATCH_QUEUE_DIRTY | DISPATCH_QUEUE_MAX_QOS_MASK | DISPATCH_QUEUE_RECEIVED_OVERRIDE)) == 0 && \
	 ((ov) & ~(nv) & (DISPATCH_QUEUE_ENQUEUED | DISPATCH_QUEUE_DIRTY | DISPATCH_QUEUE_RECEIVED_OVERRIDE)) == 0 && VMO_IS_REL(mo)))
#else
#define DQ_STUB_REFS 1
#define DQ_STUB_TARGET 1
#include "contracts/common/dq_common.h"
#define CALL_WL_BARRIER_COMPLETE 73
#define CALL_WAKEUP_WITH_OVERRIDE 52
struct dispatch_workloop_s H_wl; dispatch_wakeup_flags_t H_flags0; dispatch_qos_t H_qos0;
static void _dispatch_workloop_barrier_complete(dispatch_workloop_t dwl, dispatch_qos_t qos, dispatch_wakeup_flags_t flags) { (void)qos; __verif_event(EV_CALL, 0, dwl, CALL_WL_BARRIER_COMPLETE, flags); }
static inline void _dispatch_queue_push_queue(dispatch_queue_t tq, dispatch_queue_class_t dq, uint64_t dq_state) { __verif_event(EV_PUSH, 0, tq, (unsigned long long)(uintptr_t)dq._dq, _dq_state_max_qos(dq_state)); }
static void _dispatch_queue_wakeup_with_override(dispatch_queue_class_t dq, uint64_t dq_state, dispatch_wakeup_flags_t flags) { (void)dq_state; __verif_event(EV_CALL, 0, dq._dq, CALL_WAKEUP_WITH_OVERRIDE, flags); }
#define STATE_P ((const volatile void *)&H_wl.dq_state)
#define HAS_COMMIT (__verif_n >= 1 && IS_COMMIT(0, STATE_P))
#define S_O LOGA(0)
#define S_N LOGB(0)
#define BC ((H_flags0 & DISPATCH_WAKEUP_BARRIER_COMPLETE) != 0)
#define BLOCK_WAIT ((H_flags0 & DISPATCH_WAKEUP_BLOCK_WAIT) != 0)
VERIF_CONTRACT_VOID(_dispatch_workloop_wakeup, (dispatch_workloop_t dwl, dispatch_qos_t qos, dispatch_wakeup_flags_t flags),
  REQ(dwl == &H_wl && qos == H_qos0 && flags == H_flags0 && __verif_n == 0 && H_qos0 <= DISPATCH_QOS_MAX && (BC || (H_flags0 & DISPATCH_WAKEUP_CONSUME_2)) && H_wl.do_targetq == (dispatch_queue_t)&H_target)
  ASG(VERIF_GHOST, H_wl.dq_state)
  ENS(log_bounded, __verif_n >= 1 && __verif_n <= 3)
  ENS(barrier_completion_goes_to_the_completion_path, VIMPL(BC, __verif_n == 1 && LOGK(0) == EV_CALL && LOGA(0) == CALL_WL_BARRIER_COMPLETE && LOGB(0) == H_flags0))
  /* a wakeup that says MAKE_DIRTY always leaves DIRTY behind (release order): whoever holds or takes the drain lock will look at the buckets again */
  ENS(make_dirty_always_marks_the_work_loop_dirty_with_release, VIMPL(!BC && !BLOCK_WAIT && (H_flags0 & DISPATCH_WAKEUP_MAKE_DIRTY), HAS_COMMIT && S_DIRTY(S_N) && VMO_IS_REL(LOGM(0))))
  /* the work loop is handed to its target exactly when this wakeup set the enqueued bit - pushed once, consuming the +2; otherwise the +2 is released (or given
   * to the override path): exactly one of the three, never two pushes for one enqueued bit */
  ENS(newly_enqueued_work_loop_is_pushed_to_its_target_exactly_once, VIMPL(HAS_COMMIT && !S_ENQUEUED(S_O) && S_ENQUEUED(S_N), __verif_n == 2 && LOGK(1) == EV_PUSH && LOGP(1) == (void *)&H_target && LOGA(1) == (unsigned long long)(uintptr_t)&H_wl))
  ENS(already_enqueued_is_never_pushed_again, VIMPL(HAS_COMMIT && S_ENQUEUED(S_O), __verif_n == 2 && LOGK(1) != EV_PUSH))
  ENS(the_plus_two_is_consumed_exactly_once, VIMPL(!BC, (LOGK(LAST) == EV_PUSH) + (LOGK(LAST) == EV_RELEASE && LOGA(LAST) == 2 && LOGP(LAST) == (void *)&H_wl) + (LOGK(LAST) == EV_CALL && LOGA(LAST) == CALL_WAKEUP_WITH_OVERRIDE) == 1))
  ENS(a_wakeup_with_a_qos_always_requests_the_thread, VIMPL(HAS_COMMIT && H_qos0 != 0, S_ENQUEUED(S_N)))
)
void harness(void)
{
	h_setup_lane(); h_setup_target(); H_wl.do_vtable = (void *)&H_vtable; H_wl.do_targetq = (dispatch_queue_t)&H_target;
	H_flags0 = ND(dispatch_wakeup_flags_t); H_qos0 = ND(dispatch_qos_t); __CPROVER_assume(H_qos0 <= DISPATCH_QOS_MAX && (BC || (H_flags0 & DISPATCH_WAKEUP_CONSUME_2)));
	H_rely_ptr = &H_wl.dq_state;
	_dispatch_workloop_wakeup(&H_wl, H_qos0, H_flags0);
	VERIF_POST_VOID(_dispatch_workloop_wakeup, &H_wl, H_qos0, H_flags0);
	VERIF_REACH(pushed, __verif_n == 2 && LOGK(1) == EV_PUSH);
	VERIF_REACH(nothing_changed_released, !BC && !HAS_COMMIT);
	VERIF_CANARY();
}
#endif
