/*VERIF
{ "tu": "src/queue.c", "enforce": "_dispatch_lane_legacy_set_target_queue", "props": ["C03", "C05", "C17", "C02"], "seq": true, "timeout": 200,
  "assumes": ["runs as a barrier on the queue being retargeted (submitted by _dispatch_lane_set_target_queue: h_set_target_queue), so the queue is the current queue"],
  "stub_note": "_dispatch_queue_priority_inherit_from_target: returns the (possibly substituted) target; _dispatch_lane_inherit_wlh_from_target (own contract: h_inherit_wlh_from_target): logged; side lock, release: logged" }
VERIF*/
#ifdef VERIF_PRE
#else
#define DQ_STUB_REFS 1
#define DQ_STUB_TARGET 1
#include "contracts/common/dq_common.h"
enum { K_PRI_INHERIT = 140, K_WLH_INHERIT, K_SIDE_LOCK, K_SIDE_UNLOCK };
struct dispatch_lane_s H_other_tq, H_old_tq, H_subst_tq; _Bool H_subst, H_same;
/* the requested target may be the queue's CURRENT target (a redundant retarget): the caller has retained it all the same */
#define H_new_tq (*(H_same ? &H_old_tq : &H_other_tq))
static dispatch_queue_t _dispatch_queue_priority_inherit_from_target(dispatch_lane_class_t dq, dispatch_queue_t tq)
{ __verif_event(K_PRI_INHERIT, 0, dq._dl, (unsigned long long)(uintptr_t)tq, 0); return H_subst ? (dispatch_queue_t)&H_subst_tq : tq; }
static void _dispatch_lane_inherit_wlh_from_target(dispatch_lane_t dq, dispatch_queue_t tq) { __verif_event(K_WLH_INHERIT, 0, dq, (unsigned long long)(uintptr_t)tq, 0); }
static inline void _dispatch_queue_sidelock_lock(dispatch_lane_t dq) { __verif_event(K_SIDE_LOCK, 0, dq, 0, 0); }
static inline void _dispatch_queue_sidelock_unlock(dispatch_lane_t dq) { __verif_event(K_SIDE_UNLOCK, 0, dq, 0, 0); }
static inline dispatch_queue_t _dispatch_queue_get_current(void) { return (dispatch_queue_t)H_DQ; }
#define FINAL_TQ (H_subst ? (dispatch_queue_t)&H_subst_tq : (dispatch_queue_t)&H_new_tq)
VERIF_CONTRACT_VOID(_dispatch_lane_legacy_set_target_queue, (void *ctxt),
  REQ(ctxt == (void *)&H_new_tq && __verif_n == 0 && H_lane.do_targetq == (dispatch_queue_t)&H_old_tq && !(H_lane.dq_atomic_flags & DQF_TARGETED))
  ASG(VERIF_GHOST, H_lane.do_targetq)
  ENS(log_bounded, __verif_n >= 1 && __verif_n <= 5 && (H_same || __verif_n == 3 || __verif_n == 5))
  /* the role / work-loop inheritance is computed FROM THE NEW TARGET (the one the queue will actually drain on), before the pointer is switched */
  ENS(role_is_inherited_from_the_new_target, H_same || (LOGK(0) == K_PRI_INHERIT && LOGA(0) == (unsigned long long)(uintptr_t)&H_new_tq && LOGK(1) == K_WLH_INHERIT && LOGP(1) == (void *)H_DQ && LOGA(1) == (unsigned long long)(uintptr_t)FINAL_TQ))
  ENS(target_pointer_is_switched_to_the_new_target, (H_same && H_lane.do_targetq == (dispatch_queue_t)&H_old_tq) || (H_lane.do_targetq == FINAL_TQ && VIMPL(__verif_n == 5, LOGK(2) == K_SIDE_LOCK && LOGK(3) == K_SIDE_UNLOCK)))
  /* the reference the queue held on its OLD target is dropped last (the new one was retained by the caller before the barrier was queued) */
  /* ... also when the new target IS the old one: the caller's retain on it must be balanced here, or every redundant retarget leaks a reference and the target is never finalized */
  ENS(old_target_is_released_exactly_once_after_the_switch, LOGK(LAST) == EV_RELEASE && LOGP(LAST) == (void *)&H_old_tq && LOGA(LAST) == 1)
)
void harness(void)
{
	h_setup_lane(); H_subst = ND_BOOL(); H_same = ND_BOOL();
	*(uint16_t *)&H_lane.__dq_opaque2 = 0;
	H_lane.do_targetq = (dispatch_queue_t)&H_old_tq;
	_dispatch_lane_legacy_set_target_queue(&H_new_tq);
	VERIF_POST_VOID(_dispatch_lane_legacy_set_target_queue, &H_new_tq);
	VERIF_REACH(redundant_retarget, H_same);
	VERIF_CANARY();
}
#endif
