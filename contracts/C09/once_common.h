/* C09 scaffolding */
#include "contracts/common/dq_common.h"
dispatch_once_gate_s H_gate;
#define GATE_P ((const volatile void *)&H_gate.dgo_once)
#define WAITERS ((uintptr_t)DLOCK_WAITERS_BIT)
/* kernel: futex wait / wake are logged call-outs */
static int _dispatch_futex_wait(uint32_t *uaddr, uint32_t val, const struct timespec *timeout, int opflags)
{ (void)timeout; (void)opflags;
  /* the waiter parks on the gate, on exactly the value it published or observed, which carries the waiters bit */
  VERIF_ASSERT(parks_on_gate_with_waiters_bit, uaddr == &H_gate.dgo_gate.dgl_lock && (val & DLOCK_WAITERS_BIT) && val != (uint32_t)~0u
        && (val == (uint32_t)(__verif_last_load | DLOCK_WAITERS_BIT)));
  __verif_event(EV_KWAIT, 0, uaddr, val, 0); return 0; }
static void _dispatch_futex_wake(uint32_t *uaddr, int wake, int opflags)
{ (void)opflags; __verif_event(EV_KWAKE, 0, uaddr, (unsigned long long)wake, 0); }
