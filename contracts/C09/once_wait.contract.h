/* contract of _dispatch_once_wait (enforced in h_once_wait.c, used by h_once_f.c) */
VERIF_CONTRACT_VOID(_dispatch_once_wait, (dispatch_once_gate_t dgo),
  REQ(dgo == &H_gate && VALID_TID(H_SELF))
  ASG(dgo->dgo_once, VERIF_GHOST)
  /* the only way out is a load of the gate that returned DONE */
  ENS(returns_only_after_observing_done, __verif_last_load_p == (const volatile void *)&dgo->dgo_once && __verif_last_load == DLOCK_ONCE_DONE)
)
