/*VERIF
{ "tu": "src/once.c", "enforce": "dispatch_once_f", "props": ["C09","C05"],
  "nondet_volatile": true, "timeout": 120, "replace": ["_dispatch_once_wait"],
  "stub_note": "_dispatch_client_callout: logged client call-out; _dispatch_gate_broadcast_slow: logged (own contract in h_gate_broadcast_slow)" }
VERIF*/
#ifdef VERIF_PRE
/* guarantee of dispatch_once_f on the gate word: it only ever writes (0 -> self) or (x -> DONE) */
#define __VERIF_GUARANTEE(p, ov, nv, mo) (((ov) == 0 && (nv) != 0 && (nv) != ~0ull) || ((nv) == ~0ull && VMO_IS_REL(mo)))
#else
#include "contracts/C09/once_common.h"
unsigned H_callouts;   /* ghost: number of client call-outs (not in the frame of _dispatch_once_wait's contract) */
void _dispatch_client_callout(void *ctxt, dispatch_function_t f) { H_callouts++; __verif_event(EV_CALLOUT, 0, (void *)f, (uintptr_t)ctxt, 0); }
void _dispatch_gate_broadcast_slow(dispatch_gate_t l, dispatch_lock cur) { __verif_event(EV_CALL, 0, l, 1, cur); }
#include "contracts/C09/once_wait.contract.h"
static void h_init(void *c) { (void)c; }
#define N_CALLOUTS H_callouts
VERIF_CONTRACT_VOID(dispatch_once_f, (dispatch_once_t *val, void *ctxt, dispatch_function_t func),
  REQ(val == (dispatch_once_t *)&H_gate && __verif_n == 0 && H_callouts == 0 && VALID_TID(H_SELF) && func == h_init)
  ASG(H_gate.dgo_once, VERIF_GHOST, H_callouts)
  ENS(at_most_one_callout, H_callouts <= 1)
  ENS(log_bounded_for_the_winner, VIMPL(N_CALLOUTS > 0, __verif_n <= 4))
  /* the initialiser runs only in the call whose CAS moved the gate from 0 to its own lock value */
  ENS(callout_only_after_winning_the_cas_from_zero, VIMPL(N_CALLOUTS > 0,
        N_CALLOUTS == 1 && IS_COMMIT(0, GATE_P) && LOGA(0) == DLOCK_ONCE_UNLOCKED && LOGB(0) == H_SELF && LOGK(1) == EV_CALLOUT
        && LOGP(1) == (void *)func && LOGA(1) == (uintptr_t)ctxt))
  /* ... and DONE is published after the initialiser returned, with release */
  ENS(done_published_after_the_initialiser, VIMPL(N_CALLOUTS > 0,
        IS_COMMIT(2, GATE_P) && LOGB(2) == DLOCK_ONCE_DONE && VMO_IS_REL(LOGM(2))))
  ENS(waiters_woken_iff_gate_word_changed, VIMPL(N_CALLOUTS > 0,
        (uint32_t)LOGA(2) == (uint32_t)H_SELF ? __verif_n == 3 : (__verif_n == 4 && LOGK(3) == EV_CALL && LOGB(3) == (uint32_t)LOGA(2))))
  /* a caller that did not win never runs the initialiser and returns only after DONE was observed */
  ENS(loser_returns_only_after_observing_done, VIMPL(N_CALLOUTS == 0,
        __verif_last_load_p == GATE_P && __verif_last_load == DLOCK_ONCE_DONE))
)
void harness(void)
{
	VERIF_GHOST_RESET(); H_callouts = 0;
	uint32_t tid = ND(uint32_t); __CPROVER_assume(VALID_TID(tid)); __dispatch_tsd.tid = (pid_t)tid;
	void *ctxt = (void *)ND(uintptr_t);
	dispatch_once_f((dispatch_once_t *)&H_gate, ctxt, h_init);
	VERIF_POST_VOID(dispatch_once_f, (dispatch_once_t *)&H_gate, ctxt, h_init);
	VERIF_REACH(winner, LOGK(1) == EV_CALLOUT);
	VERIF_REACH(loser, H_callouts == 0);
	VERIF_CANARY();
}
#endif
