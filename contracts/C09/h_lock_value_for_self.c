/*VERIF
{ "tu": "src/shims/lock.c", "enforce": "_dispatch_lock_value_for_self", "props": ["C09", "C02", "C05"], "seq": true, "timeout": 120,
  "assumes": ["a thread that has not called into libdispatch before has an all-zero thread-local block (tid == 0); libdispatch_tsd_init() (src/queue.c, pthread/gettid glue: out of reach) stores the kernel thread id, which is non-zero and fits the owner mask"],
  "stub_note": "libdispatch_tsd_init: stores an arbitrary valid thread id" }
VERIF*/
#ifdef VERIF_PRE
#else
#define DQ_NO_TSD_INIT_STUB 1
_Thread_local struct dispatch_tsd __dispatch_tsd;
uint32_t H_tid0, H_new_tid; unsigned H_inits;
#define VALID_TID(t) ((t) != 0 && ((t) & ~DLOCK_OWNER_MASK) == 0)
void libdispatch_tsd_init(void) { H_inits++; __dispatch_tsd.tid = (pid_t)H_new_tid; }
VERIF_CONTRACT(dispatch_lock, _dispatch_lock_value_for_self, (void),
  REQ((uint32_t)__dispatch_tsd.tid == H_tid0 && (H_tid0 == 0 || VALID_TID(H_tid0)) && VALID_TID(H_new_tid) && H_inits == 0)
  ASG(__dispatch_tsd, H_inits)
  /* the value a thread writes into a lock / gate / queue state to say "I own this" is NEVER zero (zero means unlocked): a thread that enters
   * libdispatch for the first time through a lock (e.g. dispatch_once from a plain pthread) gets its thread id set up on the spot */
  ENS(the_owner_value_of_the_calling_thread_is_never_the_unlocked_value, __CPROVER_return_value != 0 && (__CPROVER_return_value & ~DLOCK_OWNER_MASK) == 0)
  ENS(it_is_the_threads_own_id, __CPROVER_return_value == (((uint32_t)__dispatch_tsd.tid) & DLOCK_OWNER_MASK) && (uint32_t)__dispatch_tsd.tid == (H_tid0 ? H_tid0 : H_new_tid))
  ENS(the_thread_block_is_initialised_at_most_once_and_only_when_needed, H_inits == (H_tid0 ? 0u : 1u))
)
void harness(void)
{
	VERIF_GHOST_RESET();
	H_tid0 = ND(uint32_t); H_new_tid = ND(uint32_t); __CPROVER_assume((H_tid0 == 0 || VALID_TID(H_tid0)) && VALID_TID(H_new_tid)); H_inits = 0;
	__dispatch_tsd.tid = (pid_t)H_tid0;
	dispatch_lock r = _dispatch_lock_value_for_self();
	VERIF_POST(_dispatch_lock_value_for_self, r);
	VERIF_REACH(first_call_of_a_foreign_thread, H_inits == 1);
	VERIF_CANARY();
}
#endif
