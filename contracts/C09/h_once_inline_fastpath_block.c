/*VERIF
{ "tu": "src/once.c", "enforce": "_dispatch_once", "props": ["C09", "C05"], "seq": true, "timeout": 120,
  "stub_note": "dispatch_once (block variant) stubbed by its proved post-state (returns only after the predicate is DONE)" }
VERIF*/
#ifdef VERIF_PRE
#else
long H_pred; unsigned H_slow_calls; void *H_slow_ctxt; dispatch_function_t H_slow_func;
static void h_init_body(void) { }
#ifdef VERIF_NATIVE
#define H_INIT_BLOCK (^{ h_init_body(); })
#else
#define H_INIT_BLOCK ((dispatch_block_t)h_init_body)
#endif
void dispatch_once(dispatch_once_t *val, dispatch_block_t block)
{ H_slow_calls++; H_slow_ctxt = (void *)block; *val = ~0l; }
long H_pred_before;
VERIF_CONTRACT_VOID(_dispatch_once, (dispatch_once_t *predicate, dispatch_block_t block),
  REQ(predicate == &H_pred && H_slow_calls == 0 && H_pred == H_pred_before)
  ASG(H_pred, H_slow_calls, H_slow_ctxt, H_slow_func)
  /* block variant of the header inline (dispatch/once.h): the inline fast path may skip the gate only when the predicate already reads DONE (~0) */
  ENS(fast_path_only_when_done, VIMPL(H_slow_calls == 0, H_pred_before == ~0l))
  ENS(otherwise_exactly_one_slow_call_with_same_arguments, VIMPL(H_pred_before != ~0l, H_slow_calls == 1))
  ENS(done_is_never_redone, VIMPL(H_pred_before == ~0l, H_slow_calls == 0 && H_pred == ~0l))
)
void harness(void)
{
	VERIF_GHOST_RESET();
	H_pred = ND(long); H_pred_before = H_pred; H_slow_calls = 0;
	_dispatch_once(&H_pred, H_INIT_BLOCK);
	VERIF_POST_VOID(_dispatch_once, &H_pred, H_INIT_BLOCK);
	VERIF_CANARY();
}
#endif

