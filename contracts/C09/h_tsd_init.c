/*VERIF
{ "tu": "src/queue.c", "enforce": "libdispatch_tsd_init", "props": ["C09", "C02", "C05"], "seq": true, "timeout": 120,
  "assumes": ["kernel: gettid() returns the calling thread's id, which is unique among the live threads of the process, non-zero and fits the lock owner mask; getpid() is the same for all threads (so it can never serve as a lock owner value)"],
  "stub_note": "syscall(SYS_gettid), getpid, pthread_setspecific: recorded" }
VERIF*/
#ifdef VERIF_PRE
#else
_Thread_local struct dispatch_tsd __dispatch_tsd;
#define VALID_TID(t) ((t) != 0 && ((t) & ~DLOCK_OWNER_MASK) == 0)
uint32_t H_ktid, H_pid; unsigned H_setspecifics; _Bool H_bad;
long syscall(long nr, ...) { if (nr != SYS_gettid) H_bad = 1; return (long)H_ktid; }
pid_t getpid(void) { return (pid_t)H_pid; }
int pthread_setspecific(pthread_key_t key, const void *value) { if (key != __dispatch_tsd_key || value != (const void *)&__dispatch_tsd) H_bad = 1; H_setspecifics++; return 0; }
VERIF_CONTRACT_VOID(libdispatch_tsd_init, (void),
  REQ(H_ktid != 0 && H_pid != 0 && H_ktid != H_pid && H_setspecifics == 0 && !H_bad)
  ASG(__dispatch_tsd, H_setspecifics, H_bad)
  /* the owner value a thread writes into locks, once-gates and queue states is its KERNEL THREAD ID: two threads never share it (exclusion and
   * "recursive lock" detection both rest on that), whatever libdispatch believes about how many threads exist */
  ENS(the_cached_id_is_the_kernel_thread_id_of_the_calling_thread, (uint32_t)__dispatch_tsd.tid == H_ktid && !H_bad)
  ENS(the_thread_block_is_registered_for_cleanup_once, H_setspecifics == 1)
)
void harness(void)
{
	VERIF_GHOST_RESET(); H_bad = 0; H_setspecifics = 0; H_ktid = ND(uint32_t); H_pid = ND(uint32_t); __CPROVER_assume(VALID_TID(H_ktid) && VALID_TID(H_pid) && H_ktid != H_pid);
	__dispatch_tsd.tid = 0;
	libdispatch_tsd_init();
	VERIF_POST_VOID(libdispatch_tsd_init);
	VERIF_CANARY();
}
#endif
