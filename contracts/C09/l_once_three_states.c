/*VERIF
{ "tu": null, "props": ["C09"], "mode": "lemma", "timeout": 60,
  "assumes": ["lemma over the per-commit guarantees checked in h_once_f / h_once_wait (guarantee_at_every_commit): composition of the gate's transitions"] }
VERIF*/
#ifdef VERIF_PRE
#else
/* Gate word: 0 (never run) -> tid[|W] (in progress) -> DONE.  Transition relation = union of the
 * guarantees: G_f: (0 -> tid, tid valid) or (x -> DONE);  G_w: (x -> x|W, x != DONE, x != 0 by rely).
 * Ghost: `winner` = the lock value whose CAS from 0 succeeded (0 if none yet).  The contract of
 * dispatch_once_f adds: (x -> DONE) is committed only by the call that committed (0 -> self)
 * (clause callout_only_after_winning_the_cas_from_zero + done_published_after_the_initialiser). */
#define W 0x80000000ull
#define DONE (~0ull)
#define TIDOF(x) ((x) & 0x3fffffffull)
#define INV(g, winner, ran, done) ( \
	((g) == 0 ? ((winner) == 0 && !(ran) && !(done)) : 1) && \
	((g) != 0 && (g) != DONE ? (TIDOF(g) == (winner) && (winner) != 0 && ((g) & ~(0x3fffffffull | W)) == 0 && !(done) && (ran) == 0) : 1) && \
	((g) == DONE ? ((done) && (ran) == 1 && (winner) != 0) : 1) && (ran) <= 1)
void harness(void)
{
	unsigned long long g = nondet_ull(), winner = nondet_ull(); unsigned ran = (unsigned)nondet_ull(); _Bool done = nondet_ull() & 1;
	__CPROVER_assume(INV(g, winner, ran, done));
	unsigned long long self = nondet_ull(); __CPROVER_assume(self != 0 && (self & ~0x3fffffffull) == 0);
	unsigned long long g2 = g, winner2 = winner; unsigned ran2 = ran; _Bool done2 = done;
	switch (nondet_ull() % 3) {
	case 0: /* tryenter: CAS 0 -> self, then the initialiser runs in that call */
		if (g == 0) { g2 = self; winner2 = self; }
		break;
	case 1: /* winner's broadcast: x -> DONE after its (single) callout */
		if (g != 0 && g != DONE && TIDOF(g) == self) { ran2 = ran + 1; g2 = DONE; done2 = 1; }
		break;
	default: /* waiter: x -> x|W on an in-progress value */
		if (g != 0 && g != DONE) g2 = g | W;
		break;
	}
	__CPROVER_assert(INV(g2, winner2, ran2, done2), "VA:three_state_invariant_preserved");
	__CPROVER_assert(!(g != 0 && g2 == 0), "VA:gate_never_returns_to_zero");
	__CPROVER_assert(ran2 <= 1, "VA:initialiser_runs_at_most_once");
	__CPROVER_assert(!(g2 == DONE) || ran2 == 1, "VA:done_implies_initialiser_completed_exactly_once");
	__CPROVER_assert(0, "CANARY");
}
#endif
