/*VERIF
{ "tu": "src/once.c", "enforce": "dispatch_once", "props": ["C09"], "seq": true, "timeout": 120,
  "stub_note": "dispatch_once_f (own contract: h_once_f): records its arguments" }
VERIF*/
#ifdef VERIF_PRE
#else
dispatch_once_t H_pred; struct Block_layout H_blk; unsigned H_calls; dispatch_once_t *H_seen_val; void *H_seen_ctxt; dispatch_function_t H_seen_func;
static void h_invoke(void *b) { (void)b; }
void dispatch_once_f(dispatch_once_t *val, void *ctxt, dispatch_function_t func) { H_calls++; H_seen_val = val; H_seen_ctxt = ctxt; H_seen_func = func; }
VERIF_CONTRACT_VOID(dispatch_once, (dispatch_once_t *val, dispatch_block_t block),
  REQ(val == &H_pred && (void *)block == (void *)&H_blk && H_calls == 0)
  ASG(H_calls, H_seen_val, H_seen_ctxt, H_seen_func)
  /* C09: the block form is the function form applied to the block and the block's own invoke function, on the SAME predicate: exactly one call */
  ENS(one_call_of_the_function_form_on_the_same_predicate_with_the_block_as_context, H_calls == 1 && H_seen_val == &H_pred && H_seen_ctxt == (void *)&H_blk)
)
void harness(void)
{
	VERIF_GHOST_RESET(); H_calls = 0; H_blk.invoke = (void (*)(void *, ...))h_invoke;
	dispatch_once(&H_pred, (dispatch_block_t)(void *)&H_blk);
	VERIF_POST_VOID(dispatch_once, &H_pred, (dispatch_block_t)(void *)&H_blk);
	VERIF_ASSERT(the_initializer_that_runs_is_the_blocks_invoke_function, H_seen_func == (dispatch_function_t)h_invoke);
	VERIF_CANARY();
}
#endif
