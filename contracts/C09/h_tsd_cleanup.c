/*VERIF
{ "tu": "src/queue.c", "enforce": "_libdispatch_tsd_cleanup", "props": ["C09", "C02", "C05"], "seq": true, "timeout": 120,
  "assumes": ["the thread's per-thread block holds arbitrary slot values (NULL or non-NULL)"],
  "stub_note": "the per-slot cleanup functions (_dispatch_queue_cleanup, _dispatch_frame_cleanup, _dispatch_cache_cleanup, _dispatch_context_cleanup, _dispatch_wlh_cleanup, _voucher_thread_cleanup, _dispatch_deferred_items_cleanup): logged calls" }
VERIF*/
#ifdef VERIF_PRE
#else
_Thread_local struct dispatch_tsd __dispatch_tsd;
enum { K_QUEUE = 190, K_FRAME, K_CACHE, K_CONTEXT, K_WLH, K_VOUCHER, K_DEFERRED };
struct dispatch_tsd H_tsd; struct dispatch_tsd H_tsd0;
void _dispatch_queue_cleanup(void *ctxt) { __verif_event(K_QUEUE, 0, ctxt, 0, 0); }
static void _dispatch_frame_cleanup(void *ctxt) { __verif_event(K_FRAME, 0, ctxt, 0, 0); }
void _dispatch_cache_cleanup(void *value) { __verif_event(K_CACHE, 0, value, 0, 0); }
static void _dispatch_context_cleanup(void *ctxt) { __verif_event(K_CONTEXT, 0, ctxt, 0, 0); }
static void _dispatch_wlh_cleanup(void *ctxt) { __verif_event(K_WLH, 0, ctxt, 0, 0); }
void _voucher_thread_cleanup(void *voucher) { __verif_event(K_VOUCHER, 0, voucher, 0, 0); }
static void _dispatch_deferred_items_cleanup(void *ctxt) { __verif_event(K_DEFERRED, 0, ctxt, 0, 0); }
#define N_SET ((H_tsd0.dispatch_queue_key != 0) + (H_tsd0.dispatch_frame_key != 0) + (H_tsd0.dispatch_cache_key != 0) + (H_tsd0.dispatch_context_key != 0) \
             + (H_tsd0.dispatch_wlh_key != 0) + (H_tsd0.dispatch_voucher_key != 0) + (H_tsd0.dispatch_deferred_items_key != 0))
VERIF_CONTRACT_VOID(_libdispatch_tsd_cleanup, (void *ctx),
  REQ(ctx == (void *)&H_tsd && __verif_n == 0 && H_tsd.dispatch_queue_key == H_tsd0.dispatch_queue_key && H_tsd.dispatch_frame_key == H_tsd0.dispatch_frame_key && H_tsd.dispatch_cache_key == H_tsd0.dispatch_cache_key
      && H_tsd.dispatch_context_key == H_tsd0.dispatch_context_key && H_tsd.dispatch_wlh_key == H_tsd0.dispatch_wlh_key && H_tsd.dispatch_voucher_key == H_tsd0.dispatch_voucher_key
      && H_tsd.dispatch_deferred_items_key == H_tsd0.dispatch_deferred_items_key)
  ASG(VERIF_GHOST, __CPROVER_object_whole(&H_tsd))
  /* C09 / C02: the owner value a thread writes into once-gates, locks and queue states is its cached kernel thread id; when the thread's block is torn down the cache is
   * reset to "not fetched" (0), so that code running later on the exiting thread (another key destructor calling dispatch_once) fetches the real id again: no two threads
   * ever present the same owner value, and never the value 0 that means "unlocked" */
  ENS(the_cached_thread_id_is_reset_to_not_fetched, H_tsd.tid == 0)
  /* each slot that holds something and has a cleanup function gets that function exactly once, with the slot's value; slots are visited queue, frame, cache, context, wlh, voucher, deferred items */
  ENS(every_occupied_slot_is_cleaned_exactly_once, __verif_n == (unsigned)N_SET
        && (H_tsd0.dispatch_queue_key == 0 || (LOGK(0) == K_QUEUE && LOGP(0) == H_tsd0.dispatch_queue_key))
        && (H_tsd0.dispatch_deferred_items_key == 0 || (LOGK(LAST) == K_DEFERRED && LOGP(LAST) == H_tsd0.dispatch_deferred_items_key)))
)
void harness(void)
{
	VERIF_GHOST_RESET();
	H_tsd0.dispatch_queue_key = ND_BOOL() ? (void *)&H_tsd0.dispatch_queue_key : (void *)0; H_tsd0.dispatch_frame_key = ND_BOOL() ? (void *)&H_tsd0.dispatch_frame_key : (void *)0;
	H_tsd0.dispatch_cache_key = ND_BOOL() ? (void *)&H_tsd0.dispatch_cache_key : (void *)0; H_tsd0.dispatch_context_key = ND_BOOL() ? (void *)&H_tsd0.dispatch_context_key : (void *)0;
	H_tsd0.dispatch_wlh_key = ND_BOOL() ? (void *)&H_tsd0.dispatch_wlh_key : (void *)0; H_tsd0.dispatch_voucher_key = ND_BOOL() ? (void *)&H_tsd0.dispatch_voucher_key : (void *)0;
	H_tsd0.dispatch_deferred_items_key = ND_BOOL() ? (void *)&H_tsd0.dispatch_deferred_items_key : (void *)0;
	H_tsd = H_tsd0; H_tsd.tid = (pid_t)ND(uint32_t);
	_libdispatch_tsd_cleanup(&H_tsd);
	VERIF_POST_VOID(_libdispatch_tsd_cleanup, &H_tsd);
	VERIF_REACH(all_slots, N_SET == 7);
	VERIF_CANARY();
}
#endif
