/*VERIF
{ "tu": "src/shims/lock.c", "enforce": "_dispatch_gate_broadcast_slow", "props": ["C09"],
  "nondet_volatile": true, "timeout": 120,
  "stub_note": "_dispatch_futex_wake: logged kernel wake" }
VERIF*/
#ifdef VERIF_PRE
#else
#include "contracts/C09/once_common.h"
VERIF_CONTRACT_VOID(_dispatch_gate_broadcast_slow, (dispatch_gate_t dgl, dispatch_lock cur),
  REQ(dgl == &H_gate.dgo_gate && __verif_n == 0 && VALID_TID(H_SELF))
  ASG(VERIF_GHOST)
  /* reaching the end means the gate was owned by the caller; then ALL waiters are woken, on the gate word */
  ENS(owner_wakes_all_waiters, ((cur ^ (dispatch_lock)H_SELF) & DLOCK_OWNER_MASK) == 0 && __verif_n == 1 && LOGK(0) == EV_KWAKE
        && LOGP(0) == (void *)&dgl->dgl_lock && (int)LOGA(0) == INT_MAX)
)
void harness(void)
{
	VERIF_GHOST_RESET();
	uint32_t tid = ND(uint32_t); __CPROVER_assume(VALID_TID(tid)); __dispatch_tsd.tid = (pid_t)tid;
	dispatch_lock cur = ND(dispatch_lock);
	_dispatch_gate_broadcast_slow(&H_gate.dgo_gate, cur);
	VERIF_POST_VOID(_dispatch_gate_broadcast_slow, &H_gate.dgo_gate, cur);
	VERIF_ASSERT(not_owner_is_a_crash_not_a_silent_return, ((cur ^ tid) & DLOCK_OWNER_MASK) == 0);
	VERIF_CANARY();
}
#endif
