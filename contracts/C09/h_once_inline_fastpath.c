/*VERIF
{ "tu": "src/once.c", "enforce": "_dispatch_once_f", "props": ["C09", "C05"], "seq": true, "timeout": 120,
  "stub_note": "dispatch_once_f stubbed by its proved post-state (returns only after the predicate is DONE)" }
VERIF*/
#ifdef VERIF_PRE
#else
long H_pred; unsigned H_slow_calls; void *H_slow_ctxt; dispatch_function_t H_slow_func;
static void h_init(void *c) { (void)c; }
void dispatch_once_f(dispatch_once_t *val, void *ctxt, dispatch_function_t func)
{ H_slow_calls++; H_slow_ctxt = ctxt; H_slow_func = func; *val = ~0l; }
long H_pred_before;
VERIF_CONTRACT_VOID(_dispatch_once_f, (dispatch_once_t *predicate, void *context, dispatch_function_t function),
  REQ(predicate == &H_pred && H_slow_calls == 0 && H_pred == H_pred_before)
  ASG(H_pred, H_slow_calls, H_slow_ctxt, H_slow_func)
  /* the inline fast path may skip the gate only when the predicate already reads DONE (~0) */
  ENS(fast_path_only_when_done, VIMPL(H_slow_calls == 0, H_pred_before == ~0l))
  ENS(otherwise_exactly_one_slow_call_with_same_arguments, VIMPL(H_pred_before != ~0l, H_slow_calls == 1 && H_slow_ctxt == context && H_slow_func == function))
  ENS(done_is_never_redone, VIMPL(H_pred_before == ~0l, H_slow_calls == 0 && H_pred == ~0l))
)
void harness(void)
{
	VERIF_GHOST_RESET();
	H_pred = ND(long); H_pred_before = H_pred; H_slow_calls = 0;
	void *ctxt = (void *)ND(uintptr_t);
	_dispatch_once_f(&H_pred, ctxt, h_init);
	VERIF_POST_VOID(_dispatch_once_f, &H_pred, ctxt, h_init);
	VERIF_CANARY();
}
#endif
