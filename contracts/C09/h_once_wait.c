/*VERIF
{ "tu": "src/shims/lock.c", "enforce": "_dispatch_once_wait", "props": ["C09"],
  "nondet_volatile": true, "timeout": 120,
  "assumes": ["rely: the gate never returns to 0 and holds DONE or tid[|WAITERS] (guaranteed by the commits of dispatch_once_f / _dispatch_once_wait checked in this property)"],
  "stub_note": "_dispatch_futex_wait: logged; checks that the waiter parks on a value carrying the waiters bit",
  "assumes": ["outer for(;;) closed by a loop contract (no termination claim: waiting is liveness)"] }
VERIF*/
#ifdef VERIF_PRE
/* rely (guarantee of every once contract: nobody writes 0; in-progress values are a tid, possibly with the waiters bit):
 * after this caller's CAS from 0 failed the gate holds DONE or <tid>[|WAITERS] */
#define __VERIF_RELY(p, v) ((unsigned long long)(v) == ~0ull || ((((unsigned long long)(v)) & ~0xbfffffffull) == 0 && (((unsigned long long)(v)) & 0x3fffffffull) != 0))
/* guarantee of a waiter on the gate word: only sets the waiters bit on an in-progress value; never writes 0 or DONE */
#define __VERIF_GUARANTEE(p, ov, nv, mo) ((nv) == ((ov) | 0x80000000ull) && (ov) != ~0ull && (nv) != 0 && (nv) != ~0ull)
#else
#include "contracts/C09/once_common.h"
#include "contracts/C09/once_wait.contract.h"
VERIF_LOOP_CONTRACT(_dispatch_once_wait, 0,
	__CPROVER_assigns(old_v, new_v, timeout, dgo->dgo_once, VERIF_GHOST)
	__CPROVER_loop_invariant(1))
void harness(void)
{
	VERIF_GHOST_RESET();
	uint32_t tid = ND(uint32_t); __CPROVER_assume(VALID_TID(tid)); __dispatch_tsd.tid = (pid_t)tid;
	_dispatch_once_wait(&H_gate);
	VERIF_POST_VOID(_dispatch_once_wait, &H_gate);
	VERIF_CANARY();
}
#endif
