/*VERIF
{ "tu": "src/queue.c", "enforce": "_dispatch_sync_f_slow", "props": ["C05","C18","C03","C01"], "timeout": 200, "seq": true,
  "stub_note": "__DISPATCH_WAIT_FOR_QUEUE__ (push + park, may have the item run remotely), _dispatch_sync_complete_recurse (bounded harness in C03), client call-out, thread frame push/pop: stubs recording order and arguments" }
VERIF*/
#ifdef VERIF_PRE
#else
#include "contracts/common/dq_common.h"
struct dispatch_lane_s H_top, H_inner, H_root, H_stop; void *H_ctxt0; _Bool H_ran_remotely;
unsigned H_seq, H_wait_at, H_callout_at, H_complete_at, H_callouts, H_completes, H_waits; dispatch_queue_t H_frame_q, H_complete_top, H_complete_stop; uintptr_t H_complete_flags;
_Bool H_frame_active, H_callout_in_frame_of_top, H_bad;
static void h_work(void *c) { (void)c; }
static void __DISPATCH_WAIT_FOR_QUEUE__(dispatch_sync_context_t dsc, dispatch_queue_t dq)
{	/* the caller is parked until the lock of `dq` is handed to it, or until its item has been run for it by the drainer */
	H_waits++; H_wait_at = ++H_seq; if (dq != (dispatch_queue_t)&H_inner || dsc->dc_other != (void *)&H_top || dsc->dsc_func != h_work || dsc->dsc_ctxt != H_ctxt0) H_bad = 1;
	if (!(dsc->dc_flags & DC_FLAG_SYNC_WAITER)) H_bad = 1;
	H_ran_remotely = ND_BOOL(); if (H_ran_remotely) { dsc->dsc_func = 0; dsc->dc_other = (void *)&H_stop; } }
static inline void _dispatch_thread_frame_push(dispatch_thread_frame_t dtf, dispatch_queue_class_t dqu) { (void)dtf; H_frame_q = dqu._dq; H_frame_active = 1; }
static inline void _dispatch_thread_frame_pop(dispatch_thread_frame_t dtf) { (void)dtf; H_frame_active = 0; }
void _dispatch_client_callout(void *ctxt, dispatch_function_t f) { H_callouts++; H_callout_at = ++H_seq; if (ctxt != H_ctxt0 || f != h_work) H_bad = 1;
	/* inside the work item the current queue is the queue it was SUBMITTED to (so get_specific / assert_queue see its whole chain) */
	H_callout_in_frame_of_top = H_frame_active && H_frame_q == (dispatch_queue_t)&H_top; }
static void _dispatch_sync_complete_recurse(dispatch_queue_t dq, dispatch_queue_t stop_dq, uintptr_t dc_flags)
{ H_completes++; H_complete_at = ++H_seq; H_complete_top = dq; H_complete_stop = stop_dq; H_complete_flags = dc_flags; }
static pthread_priority_t h_pp(void) { return 0; }
VERIF_CONTRACT_VOID(_dispatch_sync_f_slow, (dispatch_queue_class_t top_dqu, void *ctxt, dispatch_function_t func, uintptr_t top_dc_flags, dispatch_queue_class_t dqu, uintptr_t dc_flags),
  REQ(top_dqu._dl == &H_top && dqu._dl == &H_inner && H_inner.do_targetq == (dispatch_queue_t)&H_root && ctxt == H_ctxt0 && func == h_work && H_seq == 0 && H_callouts == 0 && H_completes == 0 && H_waits == 0 && !H_bad)
  ASG(VERIF_GHOST, H_ran_remotely, H_seq, H_wait_at, H_callout_at, H_complete_at, H_callouts, H_completes, H_waits, H_frame_q, H_complete_top, H_complete_stop, H_complete_flags, H_frame_active, H_callout_in_frame_of_top, H_bad)
  ENS(protocol_arguments_are_the_callers, !H_bad && H_waits == 1)
  /* dispatch_sync never returns before its work item has finished: the item runs exactly once -- here, after the wait, or remotely during it */
  ENS(work_item_runs_exactly_once_after_the_wait, H_ran_remotely ? H_callouts == 0 : (H_callouts == 1 && H_callout_at > H_wait_at))
  /* every level acquired on the way down (from the queue submitted to) is released after the item, exactly once */
  ENS(levels_are_released_after_the_item_from_the_top_queue, H_completes == 1 && H_complete_top == (dispatch_queue_t)&H_top && H_complete_flags == top_dc_flags &&
        (H_ran_remotely ? H_complete_stop == (dispatch_queue_t)&H_stop : (H_complete_stop == 0 && H_complete_at > H_callout_at)))
  ENS(item_sees_the_queue_it_was_submitted_to_as_current, VIMPL(!H_ran_remotely, H_callout_in_frame_of_top))
)
void harness(void)
{
	h_setup_lane();
	H_inner.do_targetq = (dispatch_queue_t)&H_root; H_ctxt0 = (void *)ND(uintptr_t);
	H_seq = 0; H_callouts = H_completes = H_waits = 0; H_bad = 0; H_frame_active = 0;
	uintptr_t tf = ND(uintptr_t), f = ND(uintptr_t);
	_dispatch_sync_f_slow((dispatch_queue_class_t){ ._dl = &H_top }, H_ctxt0, h_work, tf, (dispatch_queue_class_t){ ._dl = &H_inner }, f);
	VERIF_POST_VOID(_dispatch_sync_f_slow, (dispatch_queue_class_t){ ._dl = &H_top }, H_ctxt0, h_work, tf, (dispatch_queue_class_t){ ._dl = &H_inner }, f);
	VERIF_REACH(local, !H_ran_remotely); VERIF_REACH(remote, H_ran_remotely);
	VERIF_CANARY();
}
#endif
