/*VERIF
{ "tu": "src/shims/lock.c", "enforce": "_dispatch_thread_event_signal", "props": ["C05", "C10", "C01", "C02"],
  "nondet_volatile": true, "timeout": 120,
  "stub_note": "_dispatch_futex_wake: logged kernel wake" }
VERIF*/
#ifdef VERIF_PRE
#else
#include "contracts/C05/thread_event_common.h"
/* the signal is the ONLY happens-before edge from the thread that ran / handed off the work to the parked
 * waiter (the waiter reads nothing but this word after waking): it must be one increment with release
 * semantics, and a parked waiter (value was not 0) must be woken through the kernel on this word */
VERIF_CONTRACT_VOID(_dispatch_thread_event_signal, (dispatch_thread_event_t dte),
  REQ(dte == &H_dte && __verif_n == 0)
  ASG(VERIF_GHOST, H_dte.dte_value)
  ENS(log_bounded, __verif_n >= 1 && __verif_n <= 2)
  ENS(signal_is_one_increment_published_with_release, IS_COMMIT(0, DTE_P) && (uint32_t)LOGB(0) == (uint32_t)((uint32_t)LOGA(0) + 1u) && VMO_IS_REL(LOGM(0)))
  ENS(parked_waiter_is_woken_through_the_kernel, VIMPL((uint32_t)LOGA(0) != 0, __verif_n == 2 && LOGK(1) == EV_KWAKE && LOGP(1) == (void *)&H_dte.dte_value && (int)LOGA(1) >= 1))
  ENS(no_kernel_call_when_nobody_parked, VIMPL((uint32_t)LOGA(0) == 0, __verif_n == 1))
)
void harness(void)
{
	VERIF_GHOST_RESET();
	_dispatch_thread_event_signal(&H_dte);
	VERIF_POST_VOID(_dispatch_thread_event_signal, &H_dte);
	VERIF_CANARY();
}
#endif
