/*VERIF
{ "tu": "src/shims/lock.c", "enforce": "_dispatch_thread_event_wait", "props": ["C05", "C10", "C01", "C02"],
  "nondet_volatile": true, "timeout": 120,
  "assumes": ["rely: the event word only holds 0 (signalled and consumed), 1 (signalled early) or UINT32_MAX (waiter parked) while one waiter and one signaller use it; other values are the 'corrupt' client crash",
              "for(;;) of the slow path closed by a loop contract (no termination claim: waiting is liveness)"],
  "stub_note": "_dispatch_futex_wait: logged; checks the waiter parks on the event word with the parked value" }
VERIF*/
#ifdef VERIF_PRE
#else
#include "contracts/C05/thread_event_common.h"
/* a waiter returns only after an ACQUIRE read of the event word that observed the signal:
 *   fast path: its own decrement (acquire) took the word from 1 to 0, or
 *   slow path: an acquire load returned 0 (the signaller's increment of the parked value UINT32_MAX) */
VERIF_CONTRACT_VOID(_dispatch_thread_event_wait, (dispatch_thread_event_t dte),
  REQ(dte == &H_dte && __verif_n == 0)
  ASG(VERIF_GHOST, H_dte.dte_value)
  ENS(log_bounded, __verif_n >= 1)
  ENS(wait_is_one_decrement_with_acquire, __verif_crashed || (IS_COMMIT(0, DTE_P) && (uint32_t)LOGB(0) == (uint32_t)((uint32_t)LOGA(0) - 1u) && VMO_IS_ACQ(LOGM(0))))
  ENS(returns_only_after_an_acquire_read_observed_the_signal, __verif_crashed ||
        ((uint32_t)LOGB(0) == 0 && __verif_n == 1) ||
        ((uint32_t)LOGB(0) != 0 && __verif_last_load_p == DTE_P && (uint32_t)__verif_last_load == 0 && VMO_IS_ACQ(__verif_last_load_mo)))
)
VERIF_LOOP_CONTRACT(_dispatch_thread_event_wait_slow, 0,
	__CPROVER_assigns(VERIF_GHOST)
	__CPROVER_loop_invariant(__verif_n >= 1 && __VLE(0)))
void harness(void)
{
	VERIF_GHOST_RESET();
	_dispatch_thread_event_wait(&H_dte);
	VERIF_POST_VOID(_dispatch_thread_event_wait, &H_dte);
	VERIF_CANARY();
}
#endif
