/* C05: thread event (the parking primitive of dispatch_sync / dispatch_apply waiters) */
#include "contracts/common/dq_common.h"
dispatch_thread_event_s H_dte;
#define DTE_P ((const volatile void *)&H_dte.dte_value)
static int _dispatch_futex_wait(uint32_t *uaddr, uint32_t val, const struct timespec *timeout, int opflags)
{ (void)timeout; (void)opflags;
  /* parks only on the event word and only on the "waiter parked" value */
  VERIF_ASSERT(parks_on_event_word_with_parked_value, uaddr == &H_dte.dte_value && val == UINT32_MAX);
  __verif_event(EV_KWAIT, 0, uaddr, val, 0); return 0; }
static void _dispatch_futex_wake(uint32_t *uaddr, int wake, int opflags)
{ (void)opflags; __verif_event(EV_KWAKE, 0, uaddr, (unsigned long long)wake, 0); }
