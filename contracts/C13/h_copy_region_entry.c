/*VERIF
{ "tu": "src/data.c", "enforce": "dispatch_data_copy_region", "props": ["C13"], "seq": true, "timeout": 120,
  "stub_note": "_dispatch_data_copy_region (own contracts: h_copy_region_direct, thorough b_copy_region_walk): records its arguments and the offset accumulator it is given" }
VERIF*/
#ifdef VERIF_PRE
#else
#include "contracts/C13/data_common.h"
unsigned H_inner_calls; _Bool H_bad; size_t H_offset_out, H_loc0, H_size0; struct dispatch_data_s H_region;
static dispatch_data_t _dispatch_data_copy_region(dispatch_data_t dd, size_t from, size_t size, size_t location, size_t *offset_ptr)
{	/* the walk starts over the WHOLE object with a zeroed offset accumulator, for a location inside the object */
	if (dd != &H_in.d || from != 0 || size != H_size0 || location != H_loc0 || offset_ptr != &H_offset_out || *offset_ptr != 0 || location >= H_size0) H_bad = 1;
	H_inner_calls++; *offset_ptr = ND(size_t); return &H_region; }
VERIF_CONTRACT(dispatch_data_t, dispatch_data_copy_region, (dispatch_data_t dd, size_t location, size_t *offset_ptr),
  REQ(dd == &H_in.d && location == H_loc0 && offset_ptr == &H_offset_out && H_in.d.size == H_size0 && H_inner_calls == 0 && !H_bad && H_retains_total == 0)
  ASG(H_offset_out, H_inner_calls, H_bad, DATA_GHOST)
  /* a location outside the represented bytes (including every location of the empty object) yields the empty object and the total size */
  ENS(location_past_the_end_gives_the_empty_region_at_offset_size, VIMPL(H_loc0 >= H_size0, __CPROVER_return_value == &_dispatch_data_empty && H_offset_out == H_size0 && H_inner_calls == 0 && H_retains_total == 0))
  /* a location inside is looked up by the region walk over the whole object: no shortcut returns an object that does not contain
   * the location */
  ENS(location_inside_is_resolved_by_the_region_walk_over_the_whole_object, VIMPL(H_loc0 < H_size0, (__CPROVER_return_value == &H_region && H_inner_calls == 1 && !H_bad)
        /* (a leaf is its own single region at offset 0: returning it retained without the walk would also be the specified answer) */
        || (H_in.d.num_records == 0 && __CPROVER_return_value == &H_in.d && H_offset_out == 0 && H_retains_total == 1 && H_inner_calls == 0)))
)
void harness(void)
{
	VERIF_GHOST_RESET();
	H_in.d.num_records = ND(size_t); __CPROVER_assume(H_in.d.num_records <= MAXR); H_size0 = ND(size_t); H_in.d.size = H_size0; H_loc0 = ND(size_t);
	H_inner_calls = 0; H_bad = 0; H_retains_total = 0; H_offset_out = ND(size_t);
	dispatch_data_t r = dispatch_data_copy_region(&H_in.d, H_loc0, &H_offset_out);
	VERIF_POST(dispatch_data_copy_region, r, &H_in.d, H_loc0, &H_offset_out);
	VERIF_REACH(inside, H_inner_calls == 1);
	VERIF_REACH(outside_leaf, H_inner_calls == 0 && H_in.d.num_records == 0);
	VERIF_CANARY();
}
#endif
