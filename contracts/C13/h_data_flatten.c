/*VERIF
{ "tu": "src/data.c", "enforce": "_dispatch_data_flatten", "props": ["C13"], "seq": true, "timeout": 300,
  "must_fire": {"R-apply": 1},
  "apply_loop_contracts": {"1": "__CPROVER_assigns(__vk_1, __vr_1, H_sum, H_copied, H_bad_copy) __CPROVER_loop_invariant(__vk_1 <= __vn_1 && __vr_1 && H_sum <= H_size && H_copied == H_sum && !H_bad_copy)"},
  "deciding": ["postcondition", "assertion", "precondition", "loop"],
  "assumes": ["dispatch_data_apply = in-order iteration over regions that tile the object, offsets = running sum (proved for <= 4 records by b_data_apply); ANY number of non-empty regions, closed by a loop contract over the running sum",
              "malloc returns NULL or a fresh buffer of the requested size; memcpy is modelled by the destination window it writes (bytes are not modelled: the window is what decides 'same bytes at the same offsets')"],
  "stub_note": "memcpy: checks the destination window [buffer+off, +len) lies inside the allocation and records it" }
VERIF*/
#ifdef VERIF_PRE
#include <stddef.h>
struct dispatch_data_s; size_t __verif_region_count(struct dispatch_data_s *d);
void __verif_region_get(struct dispatch_data_s *d, size_t k, struct dispatch_data_s **region, size_t *offset, const void **buffer, size_t *size);
extern size_t H_sum, H_copied, H_size; extern _Bool H_bad_copy;
#else
#define H_SZMAX ((size_t)1 << 40)
#include "contracts/C13/data_common.h"
size_t H_sum, H_copied, H_size, H_nreg; _Bool H_bad_copy, H_malloc_fails; char *H_buffer; unsigned H_mallocs; size_t H_malloc_size;
char H_src[4];
size_t __verif_region_count(dispatch_data_t d) { (void)d; return H_nreg; }
void __verif_region_get(dispatch_data_t d, size_t k, dispatch_data_t *region, size_t *offset, const void **buffer, size_t *size)
{
	(void)k; size_t n = ND(size_t); __CPROVER_assume(n >= 1 && n <= H_size - H_sum);
	*region = d; *offset = H_sum; *buffer = H_src; *size = n; H_sum += n;
}
#ifdef VERIF_NATIVE
void *malloc(size_t n) { static char b[8]; H_mallocs++; H_malloc_size = n; H_buffer = H_malloc_fails ? 0 : b; return H_buffer; }
#define H_IN_ALLOC(p, n) 1
#else
void *malloc(size_t n) { H_mallocs++; H_malloc_size = n; H_buffer = H_malloc_fails ? (char *)0 : (char *)__CPROVER_allocate(n, 0); return H_buffer; }
#define H_IN_ALLOC(p, n) ((n) == 0 || __CPROVER_w_ok((p), (n)))
#endif
void *memcpy(void *d, const void *s, size_t n)
{
	/* each region lands at its own offset of the flat buffer: windows are adjacent, in order, inside the allocation */
	if ((char *)d != H_buffer + H_copied || s != (const void *)H_src || !H_IN_ALLOC(d, n) || n > H_size - H_copied) H_bad_copy = 1;
	H_copied += n; return d;
}
VERIF_CONTRACT(void *, _dispatch_data_flatten, (dispatch_data_t dd),
  REQ(dd == &H_in.d && dd->size == H_size && H_size >= 1 && H_sum == 0 && H_copied == 0 && !H_bad_copy && H_mallocs == 0 && H_nreg >= 1)
  ASG(H_sum, H_copied, H_bad_copy, H_buffer, H_mallocs, H_malloc_size)
  ENS(flat_buffer_has_exactly_the_size_of_the_object, H_mallocs == 1 && H_malloc_size == H_size && __CPROVER_return_value == (void *)H_buffer)
  ENS(every_region_is_copied_to_its_own_offset_inside_the_buffer, !H_bad_copy)
  ENS(nothing_is_copied_without_a_buffer, VIMPL(H_malloc_fails, __CPROVER_return_value == 0 && H_copied == 0))
)
void harness(void)
{
	VERIF_GHOST_RESET(); __verif_crash_is_bug = 1;
	H_sum = 0; H_copied = 0; H_bad_copy = 0; H_mallocs = 0; H_buffer = 0; H_malloc_fails = ND_BOOL();
	H_size = ND(size_t); __CPROVER_assume(H_size >= 1 && H_size <= H_SZMAX); H_nreg = ND(size_t); __CPROVER_assume(H_nreg >= 1);
	H_in.d.size = H_size; H_in.d.num_records = 2;
	void *r = _dispatch_data_flatten(&H_in.d);
	VERIF_POST(_dispatch_data_flatten, r, &H_in.d);
	VERIF_REACH(copied_something, r != 0 && H_copied > 0);
	VERIF_CANARY();
}
#endif
