/* C13 scaffolding: typed static data objects with room for MAXR records, ghost prefix sums,
 * ghost byte/record indices (quantifier-free "for all" by nondeterministic ghost index) */
#ifndef DATA_COMMON_H
#define DATA_COMMON_H
#define MAXR 4
struct h_data { struct dispatch_data_s d; range_record r[MAXR]; };
struct h_data H_in, H_in2, H_out[2];
struct dispatch_data_s H_leaf[MAXR], H_leaf2[MAXR];
struct dispatch_data_s _dispatch_data_empty;     /* the singleton (defined in init.c) */
unsigned H_allocs;                               /* number of objects allocated */
size_t H_alloc_n[2], H_alloc_size[2];
unsigned H_retains_total; const void *H_watch; unsigned H_watch_retains, H_watch_releases;
/* allocation: hands out the static output objects; the requested size must cover the records */
void *_dispatch_object_alloc(const void *vtable, size_t size)
{
	(void)vtable;
	VERIF_ASSERT(at_most_two_allocations, H_allocs < 2);
	VERIF_ASSERT(allocation_fits_harness_object, size <= sizeof(struct h_data));
	H_alloc_size[H_allocs] = size;
	return &H_out[H_allocs++];
}
void dispatch_retain(dispatch_object_t o) { H_retains_total++; if (o._do == (void *)H_watch) H_watch_retains++; }
#ifndef H_RELEASE_HOOK
#define H_RELEASE_HOOK(o) ((void)0)
#endif
void dispatch_release(dispatch_object_t o) { H_RELEASE_HOOK(o); if (o._do == (void *)H_watch) H_watch_releases++; }
static inline void _dispatch_retain(dispatch_object_t o) { H_retains_total++; if (o._do == (void *)H_watch) H_watch_retains++; }
#define DATA_GHOST H_allocs, __CPROVER_object_whole(H_alloc_size), H_retains_total, H_watch_retains, H_watch_releases
/* well-formedness of a leaf / a composite over leaves (the invariants documented at the top of data.c) */
#define LEAF_WF(l) ((l)->num_records == 0 && (l)->size >= 1 && (l)->size <= H_SZMAX)
#ifndef H_SZMAX
#define H_SZMAX ((size_t)1 << 60)
#endif
/* ghost prefix sums of the composite input: H_pre[k] = sum of the first k record lengths */
size_t H_pre[MAXR + 1]; size_t H_nrec;
/* build a well-formed composite input object with H_nrec (1..MAXR) records over distinct leaves */
static inline void h_build_composite(struct h_data *in, struct dispatch_data_s *leaves, size_t minrec)
{
	H_nrec = ND(size_t); __CPROVER_assume(H_nrec >= minrec && H_nrec <= MAXR);
	in->d.num_records = H_nrec; in->d.buf = 0; in->d.destructor = 0;
	H_pre[0] = 0;
	for (size_t i = 0; i < MAXR; i++) {
		leaves[i].num_records = 0; leaves[i].size = ND(size_t); leaves[i].buf = (const void *)(uintptr_t)0x1000;
		__CPROVER_assume(leaves[i].size >= 1 && leaves[i].size <= H_SZMAX);
		in->r[i].data_object = &leaves[i]; in->r[i].from = ND(size_t); in->r[i].length = ND(size_t);
		__CPROVER_assume(in->r[i].length >= 1 && in->r[i].from < leaves[i].size && in->r[i].length <= leaves[i].size - in->r[i].from);
		H_pre[i + 1] = H_pre[i] + (i < H_nrec ? in->r[i].length : 0);
	}
	in->d.size = H_pre[H_nrec];
}
#endif
