/*VERIF
{ "tu": "src/data.c", "enforce": "dispatch_data_create_concat", "props": ["C13", "C17"], "seq": true, "timeout": 600,
  "unwind": 6, "unwind_fns": ["dispatch_data_create_concat"],
  "bounded": {"unwind": 6, "what": "each operand is empty, a leaf, or a composite with <= 2 records (result <= 4 records: static typed harness object)"},
  "assumes": ["inputs well-formed per data.c header comment (records over leaves, slices inside their leaf, size == sum of lengths)"],
  "stub_note": "allocator, dispatch_retain: ghost counters; memcpy(range records) = record-wise copy model" }
VERIF*/
#ifdef VERIF_PRE
#else
#define H_SZMAX ((size_t)1 << 40)
#include "contracts/C13/data_common.h"
void *memcpy(void *d, const void *s, size_t n)
{
	VERIF_ASSERT(memcpy_copies_whole_records, n % sizeof(range_record) == 0 && n / sizeof(range_record) <= 2);
	range_record *dr = d; const range_record *sr = s; size_t k = n / sizeof(range_record);
	if (k > 0) dr[0] = sr[0]; if (k > 1) dr[1] = sr[1];
	return d;
}
int H_k1, H_k2;     /* kind of each operand: 0 empty, 1 leaf, 2 composite with H_n1 / H_n2 (1..2) records */
size_t H_n1, H_n2; size_t H_K;   /* H_K: ghost index of a result record ("for every record") */
#define OP1 ((dispatch_data_t)(H_k1 == 0 ? &_dispatch_data_empty : H_k1 == 1 ? &H_leaf[0] : &H_in.d))
#define OP2 ((dispatch_data_t)(H_k2 == 0 ? &_dispatch_data_empty : H_k2 == 1 ? &H_leaf2[0] : &H_in2.d))
#define NR1 (H_k1 == 1 ? 1 : H_n1)
#define NR2 (H_k2 == 1 ? 1 : H_n2)
/* expected record k of the result: records of operand 1 followed by records of operand 2; a leaf counts as one whole-leaf record */
#define EXP_OBJ(k) ((k) < NR1 ? (H_k1 == 1 ? &H_leaf[0] : H_in.r[k].data_object) : (H_k2 == 1 ? &H_leaf2[0] : H_in2.r[(k) - NR1].data_object))
#define EXP_FROM(k) ((k) < NR1 ? (H_k1 == 1 ? 0 : H_in.r[k].from) : (H_k2 == 1 ? 0 : H_in2.r[(k) - NR1].from))
#define EXP_LEN(k) ((k) < NR1 ? (H_k1 == 1 ? H_leaf[0].size : H_in.r[k].length) : (H_k2 == 1 ? H_leaf2[0].size : H_in2.r[(k) - NR1].length))
#define RES (H_out[0])
VERIF_CONTRACT(dispatch_data_t, dispatch_data_create_concat, (dispatch_data_t dd1, dispatch_data_t dd2),
  REQ(dd1 == OP1 && dd2 == OP2 && H_allocs == 0 && H_retains_total == 0 && H_watch_retains == 0 && _dispatch_data_empty.size == 0)
  ASG(__CPROVER_object_whole(&H_out[0]), DATA_GHOST)
  /* an empty operand: the other object itself (same bytes), retained once, nothing allocated */
  ENS(empty_left_operand_gives_the_right_one_retained, VIMPL(H_k1 == 0, __CPROVER_return_value == dd2 && H_allocs == 0 && H_retains_total == 1))
  ENS(empty_right_operand_gives_the_left_one_retained, VIMPL(H_k1 != 0 && H_k2 == 0, __CPROVER_return_value == dd1 && H_allocs == 0 && H_retains_total == 1))
  /* otherwise a new composite whose records are the records of dd1 followed by those of dd2: it denotes dd1's bytes then dd2's */
  ENS(result_size_is_the_sum, VIMPL(H_k1 != 0 && H_k2 != 0, __CPROVER_return_value == &RES.d && RES.d.size == dd1->size + dd2->size && RES.d.num_records == NR1 + NR2))
  ENS(every_result_record_is_the_corresponding_operand_record_in_order, VIMPL(H_k1 != 0 && H_k2 != 0 && H_K < NR1 + NR2,
        RES.r[H_K].data_object == EXP_OBJ(H_K) && RES.r[H_K].from == EXP_FROM(H_K) && RES.r[H_K].length == EXP_LEN(H_K)))
  ENS(records_only_reference_leaves, VIMPL(H_k1 != 0 && H_k2 != 0 && H_K < NR1 + NR2, RES.r[H_K].data_object->num_records == 0))
  /* one reference per record on the leaf it points to, none on the operands themselves unless they are leaves */
  ENS(one_retain_per_result_record, VIMPL(H_k1 != 0 && H_k2 != 0, H_retains_total == NR1 + NR2 && H_allocs == 1 &&
        H_alloc_size[0] >= sizeof(struct dispatch_data_s) + (NR1 + NR2) * sizeof(range_record)))
  ENS(the_watched_records_leaf_is_retained_exactly_once, VIMPL(H_k1 != 0 && H_k2 != 0 && H_K < NR1 + NR2 && H_watch == EXP_OBJ(H_K), H_watch_retains == 1))
)
void harness(void)
{
	VERIF_GHOST_RESET(); __verif_crash_is_bug = 1;
	H_allocs = 0; H_retains_total = 0; H_watch_retains = 0; H_watch_releases = 0; _dispatch_data_empty.size = 0; _dispatch_data_empty.num_records = 0;
	H_k1 = ND(int); H_k2 = ND(int); __CPROVER_assume(H_k1 >= 0 && H_k1 <= 2 && H_k2 >= 0 && H_k2 <= 2);
	h_build_composite(&H_in, H_leaf, 1); H_n1 = H_nrec; size_t pre1 = H_pre[H_nrec];
	h_build_composite(&H_in2, H_leaf2, 1); H_n2 = H_nrec;
	__CPROVER_assume(H_n1 <= 2 && H_n2 <= 2); (void)pre1;
	H_K = ND(size_t);
	H_watch = (H_k1 != 0 && H_k2 != 0 && H_K < NR1 + NR2) ? (const void *)EXP_OBJ(H_K) : (const void *)0;
	dispatch_data_t r = dispatch_data_create_concat(OP1, OP2);
	VERIF_POST(dispatch_data_create_concat, r, OP1, OP2);
	VERIF_REACH(two_composites, H_k1 == 2 && H_k2 == 2 && H_n1 == 2 && H_n2 == 2 && r == &RES.d);
	VERIF_REACH(leaf_and_composite, H_k1 == 1 && H_k2 == 2 && r == &RES.d);
	VERIF_CANARY();
}
#endif
