/*VERIF
{ "tu": "src/data.c", "enforce": "dispatch_data_apply_f", "props": ["C13"], "seq": true, "timeout": 400,
  "cut_recursion": ["_dispatch_data_apply"], "unwind": 6, "unwind_fns": ["_dispatch_data_apply"],
  "bounded": {"unwind": 6, "what": "composite objects with <= 4 records (static typed harness object); leaf and one-record views are complete"},
  "assumes": ["input well-formed per data.c header comment: records over leaves, each slice non-empty and inside its leaf, size == sum of lengths",
              "the depth-1 recursive call on a record's leaf is replaced by a stub with the behaviour this same harness proves for a leaf (one call-out for exactly the slice)"],
  "stub_note": "applier: recorded and compared with the expected region on the fly" }
VERIF*/
#ifdef VERIF_PRE
#include <stddef.h>
struct dispatch_data_s;
_Bool __verif_rec__dispatch_data_apply(struct dispatch_data_s *dd, size_t offset, size_t from, size_t size, void *ctxt, _Bool (*applier)(void *, struct dispatch_data_s *, size_t, const void *, size_t));
#else
#define H_SZMAX ((size_t)1 << 40)
#include "contracts/C13/data_common.h"
#ifdef VERIF_NATIVE
#define H_BUF_OF_SIZE(n) malloc(1)
#else
#define H_BUF_OF_SIZE(n) __CPROVER_allocate((n), 0)
#endif
int H_kind;  /* 0 empty, 1 leaf, 3 composite (1..4 records; 1 record = a view of a leaf) */
#define IN ((dispatch_data_t)(H_kind == 0 ? &_dispatch_data_empty : H_kind == 1 ? &H_leaf[0] : &H_in.d))
#define NREG (H_kind == 0 ? 0 : H_kind == 1 ? 1 : H_nrec)
/* expected k-th region */
#define EXP_OFF(k) (H_kind == 1 ? 0 : H_pre[k])
#define EXP_BUF(k) (H_kind == 1 ? (const char *)H_leaf[0].buf : (const char *)H_leaf[k].buf + H_in.r[k].from)
#define EXP_LEN(k) (H_kind == 1 ? H_leaf[0].size : H_in.r[k].length)
unsigned H_ncalls; _Bool H_bad_region; unsigned H_stop_at; char H_ctxt;
static bool h_applier(void *ctxt, dispatch_data_t region, size_t offset, const void *buffer, size_t size)
{
	unsigned k = H_ncalls++;
	if (ctxt != &H_ctxt || k >= NREG || offset != EXP_OFF(k) || buffer != (const void *)EXP_BUF(k) || size != EXP_LEN(k)) H_bad_region = 1;
	/* the region object handed out denotes the bytes of the call-out: the leaf (or, for a one-record view / a leaf, the object itself) */
	if (!(region == &H_leaf[k] || (NREG == 1 && region == IN))) H_bad_region = 1;
	return k != H_stop_at;
}
/* depth-1 recursion into a record's leaf: behaves like the direct-mapped branch (proved by this harness for H_kind == 1) */
bool __verif_rec__dispatch_data_apply(dispatch_data_t dd, size_t offset, size_t from, size_t size, void *ctxt, dispatch_data_applier_function_t applier)
{
	VERIF_ASSERT(recursion_only_into_a_leaf_with_an_in_range_slice, dd->num_records == 0 && size >= 1 && from < dd->size && size <= dd->size - from);
	return applier(ctxt, dd, offset, (const char *)dd->buf + from, size);
}
VERIF_CONTRACT(bool, dispatch_data_apply_f, (dispatch_data_t dd, void *ctxt, dispatch_data_applier_function_t applier),
  REQ(dd == IN && ctxt == &H_ctxt && applier == h_applier && H_ncalls == 0 && !H_bad_region && _dispatch_data_empty.size == 0)
  ASG(H_ncalls, H_bad_region)
  /* regions are presented in order, each exactly the bytes of one record, offsets = running sum: together they tile the object */
  ENS(every_region_is_exactly_the_next_records_bytes_at_the_running_offset, !H_bad_region)
  ENS(all_regions_visited_when_the_applier_never_stops, VIMPL(H_stop_at >= NREG, H_ncalls == NREG && __CPROVER_return_value))
  ENS(traversal_stops_right_after_the_applier_returns_false, VIMPL(H_stop_at < NREG, H_ncalls == H_stop_at + 1 && !__CPROVER_return_value))
  ENS(empty_object_has_no_regions, VIMPL(H_kind == 0, H_ncalls == 0 && __CPROVER_return_value))
)
void harness(void)
{
	VERIF_GHOST_RESET(); __verif_crash_is_bug = 1;
	H_ncalls = 0; H_bad_region = 0; _dispatch_data_empty.size = 0; _dispatch_data_empty.num_records = 0;
	H_kind = ND(int); __CPROVER_assume(H_kind == 0 || H_kind == 1 || H_kind == 3); H_stop_at = ND(unsigned);
	h_build_composite(&H_in, H_leaf, 1);
	H_leaf[0].buf = H_BUF_OF_SIZE(H_leaf[0].size); H_leaf[1].buf = H_BUF_OF_SIZE(H_leaf[1].size); H_leaf[2].buf = H_BUF_OF_SIZE(H_leaf[2].size); H_leaf[3].buf = H_BUF_OF_SIZE(H_leaf[3].size);
	bool r = dispatch_data_apply_f(IN, &H_ctxt, h_applier);
	VERIF_POST(dispatch_data_apply_f, r, IN, &H_ctxt, h_applier);
	VERIF_REACH(three_regions_then_stop, H_kind == 3 && H_ncalls == 3 && !r);
	VERIF_CANARY();
}
#endif
