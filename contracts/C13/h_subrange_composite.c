/*VERIF
{ "tu": "src/data.c", "enforce": "dispatch_data_create_subrange", "props": ["C13", "C20"], "seq": true, "timeout": 400, "cases": 20, 
  "cut_recursion": ["dispatch_data_create_subrange"],
  "bounded": {"what": "composite input objects with <= 4 records, run as 20 cases = every valid triple (first record, last record, observed result record) over 4 records (static typed harness object); the three record loops are closed by inductive loop contracts over ghost prefix sums, not unwound"},
  "stub_note": "allocator, retain, memcpy(range records) = record-wise copy model; the depth-1 recursive call on a leaf is replaced by a stub that checks the leaf-side precondition (leaf contract: h_subrange_leaf)",
  "assumes": ["input well-formed per data.c header comment: records over leaves, each slice non-empty and inside its leaf, size == sum of lengths"] }
VERIF*/
#ifdef VERIF_PRE
extern size_t H_pre[5]; extern size_t H_off0, H_len0, H_I0, H_J0, H_K; extern unsigned H_watch_retains;
extern _Bool H_rec_called; extern unsigned H_retains_total;
struct dispatch_data_s; struct dispatch_data_s *__verif_rec_dispatch_data_create_subrange(struct dispatch_data_s *dd, size_t offset, size_t length);
#else
#define H_SZMAX ((size_t)1 << 16)
#include "contracts/C13/data_common.h"
size_t H_off0, H_len0;    /* requested offset and CLAMPED length */
size_t H_I0, H_J0;        /* ghost: records containing the first and the last byte of the range */
size_t H_K;               /* ghost record index in the result (arbitrary => "for every record") */
_Bool H_rec_called; dispatch_data_t H_rec_dd; size_t H_rec_off, H_rec_len; struct dispatch_data_s H_rec_result;
/* depth-1 recursion: the callee is a leaf and the requested range lies inside it */
dispatch_data_t __verif_rec_dispatch_data_create_subrange(dispatch_data_t dd, size_t offset, size_t length)
{
	H_rec_called = 1; H_rec_dd = dd; H_rec_off = offset; H_rec_len = length;
	VERIF_ASSERT(recursion_only_into_a_leaf_with_an_in_range_slice, dd->num_records == 0 && length >= 1 && offset < dd->size && length <= dd->size - offset);
	return &H_rec_result;
}
/* record-wise model of memcpy on range records: the destination gets the source records */
void *memcpy(void *d, const void *s, size_t n)
{
	VERIF_ASSERT(memcpy_copies_whole_records, n % sizeof(range_record) == 0 && n / sizeof(range_record) <= MAXR);
	range_record *dr = d; const range_record *sr = s; size_t k = n / sizeof(range_record);
	if (k > 0) dr[0] = sr[0]; if (k > 1) dr[1] = sr[1]; if (k > 2) dr[2] = sr[2]; if (k > 3) dr[3] = sr[3];
	return d;
}
VERIF_LOOP_CONTRACT(dispatch_data_create_subrange, 0,
	__CPROVER_assigns(i, offset)
	__CPROVER_loop_invariant(i <= dd_num_records && i <= H_I0 && offset == H_off0 - H_pre[i]))
VERIF_LOOP_CONTRACT(dispatch_data_create_subrange, 1,
	__CPROVER_assigns(count, last_length)
	__CPROVER_loop_invariant(count >= 1 && count <= dd_num_records && i + count <= H_J0 && H_J0 < dd_num_records && i == H_I0 && last_length >= 1 &&
		last_length == H_off0 + length - H_pre[i + count]))
VERIF_LOOP_CONTRACT(dispatch_data_create_subrange, 2,
	__CPROVER_assigns(i, H_retains_total, H_watch_retains)
	__CPROVER_loop_invariant(i <= count && H_watch_retains == ((H_K < i) ? 1 : 0)))
#define SPANS_ONE_RECORD (H_I0 == H_J0)
#define NREC (H_J0 - H_I0 + 1)
#define RES (H_out[0])
VERIF_CONTRACT(dispatch_data_t, dispatch_data_create_subrange, (dispatch_data_t dd, size_t offset, size_t length),
  REQ(dd == &H_in.d && offset == H_off0 && H_allocs == 0 && H_watch_retains == 0 && !H_rec_called)
  /* a proper, non-empty, clamp-free sub-range: [off0, off0 + len0) inside the object, not all of it */
  REQ(H_len0 >= 1 && H_off0 < dd->size && H_len0 <= dd->size - H_off0 && length >= H_len0 && (length == H_len0 || H_len0 == dd->size - H_off0) && !(length == dd->size))
  REQ(H_I0 <= H_J0 && H_J0 < H_nrec && H_pre[H_I0] <= H_off0 && H_off0 < H_pre[H_I0 + 1] && H_pre[H_J0] < H_off0 + H_len0 && H_off0 + H_len0 <= H_pre[H_J0 + 1])
  REQ(H_K < NREC && H_watch == H_in.r[H_I0 + H_K].data_object)
  ASG(__CPROVER_object_whole(&H_out[0]), DATA_GHOST, H_rec_called, H_rec_dd, H_rec_off, H_rec_len, VERIF_GHOST)
  /* range inside one record: delegated to that record's leaf with the offset translated into the leaf */
  ENS(single_record_range_is_delegated, VIMPL(SPANS_ONE_RECORD, H_rec_called && __CPROVER_return_value == &H_rec_result && H_allocs == 0))
  ENS(single_record_range_goes_to_that_records_leaf, VIMPL(SPANS_ONE_RECORD, H_rec_dd == H_in.r[H_I0].data_object))
  ENS(single_record_range_offset_is_translated_into_the_leaf, VIMPL(SPANS_ONE_RECORD, H_rec_off == H_in.r[H_I0].from + (H_off0 - H_pre[H_I0]) && H_rec_len == H_len0))
  /* range over several records: a new composite with exactly the records I0..J0, first and last trimmed */
  ENS(multi_record_result_has_the_clamped_size_and_record_count, VIMPL(!SPANS_ONE_RECORD, !H_rec_called && __CPROVER_return_value == &RES.d &&
        RES.d.size == H_len0 && RES.d.num_records == NREC && H_alloc_size[0] >= sizeof(struct dispatch_data_s) + NREC * sizeof(range_record)))
  ENS(every_result_record_denotes_the_same_bytes_of_the_same_leaf, VIMPL(!SPANS_ONE_RECORD,
        RES.r[H_K].data_object == H_in.r[H_I0 + H_K].data_object &&
        RES.r[H_K].from == H_in.r[H_I0 + H_K].from + (H_K == 0 ? H_off0 - H_pre[H_I0] : 0) &&
        RES.r[H_K].length == (H_K == NREC - 1 ? H_off0 + H_len0 - H_pre[H_J0] : H_in.r[H_I0 + H_K].length) - (H_K == 0 ? H_off0 - H_pre[H_I0] : 0)))
  ENS(every_result_record_stays_inside_its_leaf_and_is_not_empty, VIMPL(!SPANS_ONE_RECORD,
        RES.r[H_K].length >= 1 && RES.r[H_K].from < RES.r[H_K].data_object->size && RES.r[H_K].length <= RES.r[H_K].data_object->size - RES.r[H_K].from))
  ENS(every_referenced_leaf_is_retained_exactly_once, VIMPL(!SPANS_ONE_RECORD, H_watch_retains == 1))
)
void harness(void)
{
	VERIF_GHOST_RESET(); __verif_crash_is_bug = 1;
	h_build_composite(&H_in, H_leaf, 2);
	H_off0 = ND(size_t); H_len0 = ND(size_t); size_t length = ND(size_t);
	/* the 20 valid (first, last, observed) triples over 4 records, one per case */
	static const unsigned char T[20][3] = { {0,0,0},{1,1,0},{2,2,0},{3,3,0}, {0,1,0},{0,1,1},{1,2,0},{1,2,1},{2,3,0},{2,3,1},
		{0,2,0},{0,2,1},{0,2,2},{1,3,0},{1,3,1},{1,3,2}, {0,3,0},{0,3,1},{0,3,2},{0,3,3} };
	H_I0 = T[VERIF_CASE][0]; H_J0 = T[VERIF_CASE][1]; H_K = T[VERIF_CASE][2];
	__CPROVER_assume(H_I0 <= H_J0 && H_J0 < H_nrec && H_K <= H_J0 - H_I0);
	H_allocs = 0; H_watch_retains = 0; H_rec_called = 0; H_watch = H_in.r[H_I0 + H_K].data_object;
	dispatch_data_t r = dispatch_data_create_subrange(&H_in.d, H_off0, length);
	VERIF_POST(dispatch_data_create_subrange, r, &H_in.d, H_off0, length);
	VERIF_REACH(multi_record, r == &H_out[0].d && H_J0 >= H_I0 + 2);
	VERIF_REACH(to_the_end, r == &H_out[0].d && H_off0 + H_len0 == H_in.d.size);
	VERIF_REACH(single, H_rec_called);
	VERIF_CANARY();
}
#endif
