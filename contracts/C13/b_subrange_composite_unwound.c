/*VERIF
{ "tu": "src/data.c", "enforce": "dispatch_data_create_subrange", "props": ["C13", "C20"], "seq": true, "timeout": 3000, "cases": 20, "tier": "thorough",
  "cut_recursion": ["dispatch_data_create_subrange"], "no_loop_contracts": true, "unwind": 6, "unwind_fns": ["dispatch_data_create_subrange"],
  "bounded": {"unwind": 6, "what": "the same contract and the same 20 cases as h_subrange_composite (composite inputs with <= 4 records), but the three record loops are UNWOUND (6 >= 4+1 iterations, unwinding assertions on) instead of cut by their invariants: a change inside a loop body then fails the postconditions with a concrete input (h_subrange_composite alone can only report a broken invariant step, which is undecided)"},
  "stub_note": "as h_subrange_composite",
  "assumes": ["as h_subrange_composite"] }
VERIF*/
#include "contracts/C13/h_subrange_composite.c"
