/*VERIF
{ "tu": "src/data.c", "enforce": "_dispatch_data_copy_region", "props": ["C13","C17"], "seq": true, "timeout": 200,
  "cut_recursion": ["_dispatch_data_copy_region"],
  "stub_note": "allocator, dispatch_retain: ghost-counting stubs; the recursive call is unreachable for these inputs (asserted)" }
VERIF*/
#ifdef VERIF_PRE
struct dispatch_data_s; struct dispatch_data_s *__verif_rec__dispatch_data_copy_region(struct dispatch_data_s *dd, size_t from, size_t size, size_t location, size_t *offset_ptr);
#else
#include "contracts/C13/data_common.h"
dispatch_data_t __verif_rec__dispatch_data_copy_region(dispatch_data_t dd, size_t from, size_t size, size_t location, size_t *offset_ptr)
{ (void)dd; (void)from; (void)size; (void)location; (void)offset_ptr; VERIF_ASSERT(no_recursion_for_directly_mappable_objects, 0); return 0; }
char H_bytes[8];   /* the leaf's buffer: only its address matters here (non-NULL) */
VERIF_LOOP_CONTRACT(_dispatch_data_copy_region, 0,
	__CPROVER_assigns(i, from, offset, location, dd)
	__CPROVER_loop_invariant(1))
_Bool H_is_view;          /* input is a leaf, or a one-record view W of the leaf */
unsigned H_ret_leaf, H_ret_view;   /* ghost: retains on the leaf / on the view */
#define LEAF (&H_leaf[0])
#define VIEW (&H_in.d)
#define IN (H_is_view ? VIEW : LEAF)
#define BASE (H_is_view ? H_in.r[0].from : 0)     /* offset of the input's bytes inside the leaf */
size_t H_offset_out;
VERIF_CONTRACT(dispatch_data_t, _dispatch_data_copy_region, (dispatch_data_t dd, size_t from, size_t size, size_t location, size_t *offset_ptr),
  REQ(dd == IN && offset_ptr == &H_offset_out && H_allocs == 0 && H_retains_total == 0 && H_watch_retains == 0)
  REQ(size >= 1 && from < dd->size && size <= dd->size - from)
  ASG(__CPROVER_object_whole(&H_out[0]), DATA_GHOST, VERIF_GHOST)
  /* whole object requested: the same object comes back, holding one more reference on THAT object */
  ENS(whole_object_is_returned_retained_itself, VIMPL(from == 0 && size == dd->size,
        __CPROVER_return_value == dd && H_retains_total == 1 && H_watch_retains == 1 && H_allocs == 0))
  /* part of it: a view of exactly those bytes of the underlying leaf, holding one reference on the leaf */
  ENS(part_is_a_view_of_the_same_bytes_of_the_leaf, VIMPL(!(from == 0 && size == dd->size),
        (BASE + from == 0 && size == LEAF->size) ? (__CPROVER_return_value == LEAF)
        : (__CPROVER_return_value == &H_out[0].d && H_out[0].d.size == size && H_out[0].d.num_records == 1 &&
           H_out[0].r[0].data_object == LEAF && H_out[0].r[0].from == BASE + from && H_out[0].r[0].length == size)))
  ENS(part_retains_the_leaf_exactly_once, VIMPL(!(from == 0 && size == dd->size), H_retains_total == 1 && (H_watch == LEAF ? H_watch_retains == 1 : H_watch_retains == 0)))
  ENS(offset_accumulator_untouched, H_offset_out == 0)
)
void harness(void)
{
	VERIF_GHOST_RESET(); __verif_crash_is_bug = 1;
	H_is_view = ND_BOOL();
	LEAF->num_records = 0; LEAF->size = ND(size_t); LEAF->buf = H_bytes;
	__CPROVER_assume(LEAF->size >= 1 && LEAF->size <= H_SZMAX);
	H_in.d.num_records = 1; H_in.d.buf = 0; H_in.r[0].data_object = LEAF; H_in.r[0].from = ND(size_t); H_in.r[0].length = ND(size_t);
	__CPROVER_assume(H_in.r[0].length >= 1 && H_in.r[0].from < LEAF->size && H_in.r[0].length <= LEAF->size - H_in.r[0].from);
	H_in.d.size = H_in.r[0].length;
	size_t from = ND(size_t), size = ND(size_t), location = ND(size_t);
	H_allocs = 0; H_retains_total = 0; H_watch_retains = 0; H_offset_out = 0;
	H_watch = ND_BOOL() ? (void *)LEAF : (void *)VIEW;
	if (from == 0 && size == IN->size) H_watch = IN;   /* whole-object case: watch the object itself */
	dispatch_data_t r = _dispatch_data_copy_region(IN, from, size, location, &H_offset_out);
	VERIF_POST(_dispatch_data_copy_region, r, IN, from, size, location, &H_offset_out);
	VERIF_REACH(whole_view, H_is_view && r == VIEW);
	VERIF_REACH(part_of_view, H_is_view && r == &H_out[0].d);
	VERIF_CANARY();
}
#endif
