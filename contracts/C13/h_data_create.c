/*VERIF
{ "tu": "src/data.c", "enforce": "dispatch_data_create", "props": ["C13", "C17"], "seq": true, "timeout": 200,
  "assumes": ["buffer sizes up to 2^60 bytes (the internal inline form adds the size to the object header size)", "malloc may fail (NULL result is passed on as DISPATCH_OUT_OF_MEMORY)"],
  "stub_note": "_dispatch_data_destroy_buffer (own contract through _dispatch_data_dispose: h_data_dispose), _dispatch_Block_copy (a heap copy of the client's destructor block), _dispatch_data_alloc, malloc, memcpy, _dispatch_retain: recording stubs" }
VERIF*/
#ifdef VERIF_PRE
#else
#define H_SZMAX ((size_t)1 << 60)
#include "contracts/C13/data_common.h"
enum { K_DESTROY = 200, K_COPY_BLOCK, K_ALLOC, K_MALLOC, K_MEMCPY, K_RETAIN_Q };
char H_bytes[8], H_heapcopy[8]; struct dispatch_queue_s H_q; struct dispatch_block_s { int x; } H_client_blk, H_client_blk_copy;
const void *H_buf0; size_t H_size0; dispatch_queue_t H_q0; dispatch_block_t H_d0; _Bool H_malloc_fails;
const void *H_destroy_buf; size_t H_destroy_size; dispatch_queue_t H_destroy_q; dispatch_block_t H_destroy_d; unsigned H_destroys, H_blockcopies, H_mallocs, H_memcpys, H_objallocs, H_qretains;
size_t H_alloc_extra, H_memcpy_n; const void *H_memcpy_src; void *H_memcpy_dst;
static void _dispatch_data_destroy_buffer(const void *buffer, size_t size, dispatch_queue_t queue, dispatch_block_t destructor)
{ H_destroys++; H_destroy_buf = buffer; H_destroy_size = size; H_destroy_q = queue; H_destroy_d = destructor; }
/* Block_copy: a global (library marker) block is returned as is, a client block is copied to the heap */
void *(_dispatch_Block_copy)(void *block) { H_blockcopies++; return block == (void *)&H_client_blk ? (void *)&H_client_blk_copy : block; }
static inline dispatch_data_t _dispatch_data_alloc(size_t n, size_t extra) { if (n != 0) H_objallocs += 100; H_objallocs++; H_alloc_extra = extra; H_out[0].d.num_records = 0; H_out[0].d.do_targetq = _dispatch_get_default_queue(false); return &H_out[0].d; }
void *malloc(size_t n) { H_mallocs++; if (n != H_size0) H_mallocs += 100; return H_malloc_fails ? (void *)0 : (void *)H_heapcopy; }
void *memcpy(void *dst, const void *src, size_t n) { H_memcpys++; H_memcpy_dst = dst; H_memcpy_src = src; H_memcpy_n = n; return dst; }
static inline void h_retain_q(void *o) { if (o == (void *)&H_q) H_qretains++; else H_qretains += 100; }
#define EMPTY_REQ (H_buf0 == 0 || H_size0 == 0)
#define OUT (&H_out[0].d)
#define M_FREE DISPATCH_DATA_DESTRUCTOR_FREE
#define M_NONE DISPATCH_DATA_DESTRUCTOR_NONE
#define M_MUNMAP DISPATCH_DATA_DESTRUCTOR_MUNMAP
#define M_INLINE DISPATCH_DATA_DESTRUCTOR_INLINE
#define CB ((dispatch_block_t)(void *)&H_client_blk)
/* the library's destructor markers are distinct global block objects (init.c), none of them NULL or a client block */
#define MARKERS_DISTINCT (M_FREE != 0 && M_NONE != 0 && M_MUNMAP != 0 && M_INLINE != 0 && M_FREE != M_NONE && M_FREE != M_MUNMAP && M_FREE != M_INLINE && M_NONE != M_MUNMAP && M_NONE != M_INLINE && M_MUNMAP != M_INLINE \
	&& M_FREE != CB && M_NONE != CB && M_MUNMAP != CB && M_INLINE != CB)
#define IS_MARKER(d) ((d) == DISPATCH_DATA_DESTRUCTOR_FREE || (d) == DISPATCH_DATA_DESTRUCTOR_NONE || (d) == DISPATCH_DATA_DESTRUCTOR_MUNMAP)
VERIF_CONTRACT(dispatch_data_t, dispatch_data_create, (const void *buffer, size_t size, dispatch_queue_t queue, dispatch_block_t destructor),
  REQ(buffer == H_buf0 && size == H_size0 && queue == H_q0 && destructor == H_d0 && H_size0 <= H_SZMAX && H_destroys == 0 && H_blockcopies == 0 && H_mallocs == 0 && H_memcpys == 0 && H_objallocs == 0 && H_retains_total == 0 && MARKERS_DISTINCT)
  ASG(__CPROVER_object_whole(&H_out[0]), DATA_GHOST, H_destroys, H_destroy_buf, H_destroy_size, H_destroy_q, H_destroy_d, H_blockcopies, H_mallocs, H_memcpys, H_objallocs, H_alloc_extra, H_memcpy_n, H_memcpy_src, H_memcpy_dst)
  /* nothing to represent: the empty singleton; the storage the caller handed over is given back AT ONCE through its destructor,
   * exactly once, whatever queue was named (none = the default queue, chosen by the destroy step) */
  ENS(empty_request_returns_the_empty_object, VIMPL(EMPTY_REQ, __CPROVER_return_value == &_dispatch_data_empty && H_objallocs == 0 && H_mallocs == 0))
  ENS(empty_request_runs_the_callers_destructor_exactly_once_at_once, VIMPL(EMPTY_REQ && H_d0 != DISPATCH_DATA_DESTRUCTOR_DEFAULT,
        H_destroys == 1 && H_destroy_buf == H_buf0 && H_destroy_size == H_size0 && H_destroy_q == H_q0 && H_destroy_d == (H_d0 == (dispatch_block_t)(void *)&H_client_blk ? (dispatch_block_t)(void *)&H_client_blk_copy : H_d0)))
  ENS(nothing_is_destroyed_otherwise, VIMPL(!EMPTY_REQ || H_d0 == DISPATCH_DATA_DESTRUCTOR_DEFAULT, H_destroys == 0))
  /* default destructor: the bytes are copied into storage the object owns and frees */
  ENS(default_destructor_copies_the_bytes_into_owned_storage, VIMPL(!EMPTY_REQ && H_d0 == DISPATCH_DATA_DESTRUCTOR_DEFAULT && !H_malloc_fails,
        __CPROVER_return_value == OUT && OUT->buf == (const void *)H_heapcopy && OUT->size == H_size0 && OUT->destructor == DISPATCH_DATA_DESTRUCTOR_FREE && OUT->num_records == 0
        && H_mallocs == 1 && H_memcpys == 1 && H_memcpy_dst == (void *)H_heapcopy && H_memcpy_src == H_buf0 && H_memcpy_n == H_size0))
  ENS(allocation_failure_is_reported_not_dereferenced, VIMPL(!EMPTY_REQ && H_d0 == DISPATCH_DATA_DESTRUCTOR_DEFAULT && H_malloc_fails, __CPROVER_return_value == 0 && H_memcpys == 0 && H_objallocs == 0))
  /* inline form (internal): bytes live behind the object header, nothing to destroy later */
  ENS(inline_form_stores_the_bytes_behind_the_header, VIMPL(!EMPTY_REQ && H_d0 == DISPATCH_DATA_DESTRUCTOR_INLINE,
        __CPROVER_return_value == OUT && H_alloc_extra == H_size0 && OUT->buf == (const void *)((char *)OUT + sizeof(struct dispatch_data_s)) && OUT->size == H_size0 && OUT->destructor == DISPATCH_DATA_DESTRUCTOR_NONE
        && H_memcpys == 1 && H_memcpy_dst == (void *)((char *)OUT + sizeof(struct dispatch_data_s)) && H_memcpy_src == H_buf0 && H_memcpy_n == H_size0))
  /* any other destructor: the object is a leaf over the CALLER'S bytes (no copy) and remembers the destructor (its heap copy) and the queue */
  ENS(custom_destructor_keeps_the_callers_buffer_and_remembers_destructor_and_queue, VIMPL(!EMPTY_REQ && H_d0 != DISPATCH_DATA_DESTRUCTOR_DEFAULT && H_d0 != DISPATCH_DATA_DESTRUCTOR_INLINE,
        __CPROVER_return_value == OUT && OUT->buf == H_buf0 && OUT->size == H_size0 && OUT->num_records == 0 && H_memcpys == 0 && H_mallocs == 0
        && OUT->destructor == (H_d0 == (dispatch_block_t)(void *)&H_client_blk ? (dispatch_block_t)(void *)&H_client_blk_copy : H_d0)
        && OUT->do_targetq == (H_q0 ? H_q0 : _dispatch_get_default_queue(false))))
  ENS(a_named_queue_is_retained_exactly_once_for_the_new_object, VIMPL(!EMPTY_REQ && !(H_d0 == DISPATCH_DATA_DESTRUCTOR_DEFAULT && H_malloc_fails), H_retains_total == (H_q0 ? 1u : 0u)) && VIMPL(EMPTY_REQ, H_retains_total == 0))
)
void harness(void)
{
	VERIF_GHOST_RESET();
	H_buf0 = ND_BOOL() ? (const void *)H_bytes : (const void *)0; H_size0 = ND(size_t); __CPROVER_assume(H_size0 <= H_SZMAX);
	H_q0 = ND_BOOL() ? &H_q : (dispatch_queue_t)0; H_malloc_fails = ND_BOOL();
	__CPROVER_assume(MARKERS_DISTINCT);
	int dk = ND(int); H_d0 = dk == 0 ? DISPATCH_DATA_DESTRUCTOR_DEFAULT : dk == 1 ? DISPATCH_DATA_DESTRUCTOR_FREE : dk == 2 ? DISPATCH_DATA_DESTRUCTOR_NONE : dk == 3 ? DISPATCH_DATA_DESTRUCTOR_MUNMAP : dk == 4 ? DISPATCH_DATA_DESTRUCTOR_INLINE : (dispatch_block_t)(void *)&H_client_blk;
	H_destroys = H_blockcopies = H_mallocs = H_memcpys = H_objallocs = 0; H_retains_total = 0; H_allocs = 0; H_watch = 0;
	dispatch_data_t r = dispatch_data_create(H_buf0, H_size0, H_q0, H_d0);
	VERIF_POST(dispatch_data_create, r, H_buf0, H_size0, H_q0, H_d0);
	VERIF_REACH(empty_with_destructor_no_queue, H_destroys == 1 && H_q0 == 0);
	VERIF_REACH(custom_leaf, r == OUT && OUT->buf == H_buf0);
	VERIF_CANARY();
}
#endif
