/*VERIF
{ "tu": "src/data.c", "enforce": "dispatch_data_get_size", "props": ["C13"], "seq": true, "timeout": 120,
  "assumes": ["the object is a leaf or a well-formed composite of <= 4 records (representation invariant: size = sum of the record lengths, established by every constructor contract)"],
  "stub_note": "none" }
VERIF*/
#ifdef VERIF_PRE
#else
#include "contracts/C13/data_common.h"
_Bool H_composite;
VERIF_CONTRACT(size_t, dispatch_data_get_size, (dispatch_data_t dd),
  REQ(dd == &H_in.d && (H_composite ? (H_nrec >= 1 && H_nrec <= MAXR && H_in.d.num_records == H_nrec && H_in.d.size == H_pre[H_nrec]) : (H_in.d.num_records == 0)))
  ASG()
  /* C13: the size reported is the length of the byte string the object denotes: for a composite the sum of its record lengths */
  ENS(reports_the_length_of_the_denoted_byte_string, __CPROVER_return_value == H_in.d.size && (!H_composite || __CPROVER_return_value == H_pre[H_nrec]))
)
void harness(void)
{
	VERIF_GHOST_RESET(); H_composite = ND_BOOL();
	if (H_composite) h_build_composite(&H_in, H_leaf, 1); else { H_in.d.num_records = 0; H_in.d.size = ND(size_t); }
	size_t r = dispatch_data_get_size(&H_in.d);
	VERIF_POST(dispatch_data_get_size, r, &H_in.d);
	VERIF_CANARY();
}
#endif
