/*VERIF
{ "tu": "src/data.c", "enforce": "dispatch_data_create_map", "props": ["C13", "C17"], "seq": true, "timeout": 200,
  "stub_note": "_dispatch_data_flatten (its own contract: h_data_flatten) returns a fresh buffer or NULL; dispatch_data_create: recorded; dispatch_retain: ghost counters" }
VERIF*/
#ifdef VERIF_PRE
#else
#define H_SZMAX ((size_t)1 << 40)
#include "contracts/C13/data_common.h"
#ifdef VERIF_NATIVE
#define H_BUF_OF_SIZE(n) malloc(1)   /* never dereferenced: only addresses are compared */
#else
#define H_BUF_OF_SIZE(n) __CPROVER_allocate((n), 0)
#endif
char H_flatbuf[8]; unsigned H_flattens; _Bool H_flatten_fails; dispatch_data_t H_flattened;
static void *_dispatch_data_flatten(dispatch_data_t dd) { H_flattens++; H_flattened = dd; return H_flatten_fails ? (void *)0 : (void *)H_flatbuf; }
unsigned H_creates; const void *H_create_buf; size_t H_create_size; dispatch_block_t H_create_destructor; struct dispatch_data_s H_created;
dispatch_data_t dispatch_data_create(const void *buffer, size_t size, dispatch_queue_t queue, dispatch_block_t destructor)
{ (void)queue; H_creates++; H_create_buf = buffer; H_create_size = size; H_create_destructor = destructor; H_created.size = size; H_created.num_records = 0; H_created.buf = buffer; return &H_created; }
int H_kind;  /* 0 empty, 1 leaf, 2 one-record view of a leaf, 3 composite (>= 2 records) */
const void *H_buf_out; size_t H_size_out; _Bool H_want_buf, H_want_size;
#define IN ((dispatch_data_t)(H_kind == 0 ? &_dispatch_data_empty : H_kind == 1 ? &H_leaf[0] : &H_in.d))
VERIF_CONTRACT(dispatch_data_t, dispatch_data_create_map, (dispatch_data_t dd, const void **buffer_ptr, size_t *size_ptr),
  REQ(dd == IN && H_watch == dd && H_watch_retains == 0 && H_retains_total == 0 && H_flattens == 0 && H_creates == 0 && _dispatch_data_empty.size == 0)
  REQ(buffer_ptr == (H_want_buf ? &H_buf_out : 0) && size_ptr == (H_want_size ? &H_size_out : 0))
  ASG(DATA_GHOST, H_flattens, H_flattened, H_creates, H_create_buf, H_create_size, H_create_destructor, __CPROVER_object_whole(&H_created), H_buf_out, H_size_out)
  ENS(empty_maps_to_the_empty_object, VIMPL(H_kind == 0, __CPROVER_return_value == &_dispatch_data_empty && H_retains_total == 0 && (!H_want_buf || H_buf_out == 0) && (!H_want_size || H_size_out == 0)))
  /* a leaf or a sub-view of a leaf is already contiguous: the map IS THE SAME OBJECT (same bytes, same size), retained once */
  ENS(contiguous_object_maps_to_itself_retained_once, VIMPL(H_kind == 1 || H_kind == 2, __CPROVER_return_value == dd && H_retains_total == 1 && H_watch_retains == 1 && H_flattens == 0 && H_creates == 0))
  ENS(contiguous_map_points_at_the_represented_bytes, VIMPL((H_kind == 1 || H_kind == 2) && H_want_buf,
        H_buf_out == (const char *)H_leaf[0].buf + (H_kind == 2 ? H_in.r[0].from : 0)))
  /* anything else is copied into one fresh buffer of exactly the object's size, owned by the new object (freed with free) */
  ENS(composite_maps_to_a_fresh_flat_copy_of_the_same_size, VIMPL(H_kind == 3 && !H_flatten_fails, H_flattens == 1 && H_flattened == dd && H_creates == 1 && __CPROVER_return_value == &H_created
        && H_create_buf == (const void *)H_flatbuf && H_create_size == dd->size && H_create_destructor == DISPATCH_DATA_DESTRUCTOR_FREE && H_retains_total == 0))
  ENS(reported_size_is_the_size_of_the_object, VIMPL(H_want_size && !(H_kind == 3 && H_flatten_fails), H_size_out == dd->size))
  ENS(reported_pointer_is_the_maps_buffer, VIMPL(H_want_buf && H_kind == 3 && !H_flatten_fails, H_buf_out == (const void *)H_flatbuf))
  ENS(allocation_failure_reports_nothing, VIMPL(H_kind == 3 && H_flatten_fails, __CPROVER_return_value == 0 && (!H_want_buf || H_buf_out == 0) && (!H_want_size || H_size_out == 0)))
)
void harness(void)
{
	VERIF_GHOST_RESET(); __verif_crash_is_bug = 1;
	H_allocs = 0; H_retains_total = 0; H_watch_retains = 0; H_watch_releases = 0; H_flattens = 0; H_creates = 0; H_flattened = 0; _dispatch_data_empty.size = 0; _dispatch_data_empty.num_records = 0;
	H_kind = ND(int); __CPROVER_assume(H_kind >= 0 && H_kind <= 3); H_flatten_fails = ND_BOOL(); H_want_buf = ND_BOOL(); H_want_size = ND_BOOL();
	h_build_composite(&H_in, H_leaf, 1);
	if (H_kind == 2) __CPROVER_assume(H_nrec == 1);
	if (H_kind == 3) __CPROVER_assume(H_nrec >= 2);
	H_leaf[0].buf = H_BUF_OF_SIZE(H_leaf[0].size);
	H_watch = IN;
	dispatch_data_t r = dispatch_data_create_map(IN, H_want_buf ? &H_buf_out : 0, H_want_size ? &H_size_out : 0);
	VERIF_POST(dispatch_data_create_map, r, IN, H_want_buf ? &H_buf_out : 0, H_want_size ? &H_size_out : 0);
	VERIF_REACH(view_of_a_leaf, H_kind == 2 && r == &H_in.d);
	VERIF_CANARY();
}
#endif
