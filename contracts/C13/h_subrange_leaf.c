/*VERIF
{ "tu": "src/data.c", "enforce": "dispatch_data_create_subrange", "props": ["C13", "C20"], "seq": true, "timeout": 120,
  "stub_note": "_dispatch_object_alloc (allocator), dispatch_retain: harness stubs with ghost counters" }
VERIF*/
#ifdef VERIF_PRE
#else
#include "contracts/C13/data_common.h"
#define CLAMPED(dd, off, len) ((off) >= (dd)->size ? 0 : ((len) > (dd)->size - (off) ? (dd)->size - (off) : (len)))
/* subrange of a LEAF: the clamped slice, as a view (trivial subrange) of that leaf */
VERIF_CONTRACT(dispatch_data_t, dispatch_data_create_subrange, (dispatch_data_t dd, size_t offset, size_t length),
  REQ(dd == &H_leaf[0] && LEAF_WF(dd) && H_allocs == 0 && H_watch == dd && H_watch_retains == 0)
  ASG(__CPROVER_object_whole(&H_out[0]), DATA_GHOST)
  ENS(out_of_range_or_empty_gives_the_empty_object, VIMPL(CLAMPED(dd, offset, length) == 0, __CPROVER_return_value == &_dispatch_data_empty && H_allocs == 0 && H_watch_retains == 0))
  ENS(whole_range_gives_the_same_object_retained, VIMPL(offset == 0 && length == dd->size, __CPROVER_return_value == dd && H_watch_retains == 1 && H_allocs == 0))
  ENS(proper_slice_is_a_view_of_exactly_the_clamped_bytes, VIMPL(CLAMPED(dd, offset, length) != 0 && !(offset == 0 && length == dd->size),
        __CPROVER_return_value == &H_out[0].d && H_out[0].d.size == CLAMPED(dd, offset, length) && H_out[0].d.num_records == 1 &&
        H_out[0].r[0].data_object == dd && H_out[0].r[0].from == offset && H_out[0].r[0].length == CLAMPED(dd, offset, length)))
  ENS(slice_never_reaches_outside_the_leaf, VIMPL(__CPROVER_return_value == &H_out[0].d,
        H_out[0].r[0].from < dd->size && H_out[0].r[0].length <= dd->size - H_out[0].r[0].from))
  ENS(view_holds_exactly_one_reference_on_the_leaf, VIMPL(__CPROVER_return_value == &H_out[0].d, H_watch_retains == 1 && H_allocs == 1 &&
        H_alloc_size[0] >= sizeof(struct dispatch_data_s) + sizeof(range_record)))
)
void harness(void)
{
	VERIF_GHOST_RESET(); __verif_crash_is_bug = 1;
	H_leaf[0].num_records = 0; H_leaf[0].size = ND(size_t); H_allocs = 0; H_watch = &H_leaf[0]; H_watch_retains = 0;
	size_t off = ND(size_t), len = ND(size_t);
	dispatch_data_t r = dispatch_data_create_subrange(&H_leaf[0], off, len);
	VERIF_POST(dispatch_data_create_subrange, r, &H_leaf[0], off, len);
	VERIF_REACH(proper_slice, r == &H_out[0].d);
	VERIF_CANARY();
}
#endif
