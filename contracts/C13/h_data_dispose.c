/*VERIF
{ "tu": "src/data.c", "enforce": "_dispatch_data_dispose", "props": ["C13", "C17"], "seq": true, "timeout": 300, "cbmc_flags": ["--sat-solver", "cadical"],
  "assumes": ["_dispatch_data_dispose runs exactly once per object, when its last reference is dropped (C17: release_internal / dispatch_dispose contracts)",
              "composite objects: up to 4 records (static typed harness object); the record loop is closed by a loop contract (unbounded in the bound of the object)"],
  "stub_note": "free, munmap, dispatch_async_f (the client's destructor block is posted once), dispatch_release: logged" }
VERIF*/
#ifdef VERIF_PRE
#include <stddef.h>
extern size_t H_nrec_g; extern unsigned H_releases_seen; extern _Bool H_wrong_release; extern unsigned H_watch_releases;
#else
#define H_SZMAX ((size_t)1 << 40)
#define H_RELEASE_HOOK(o) h_release_hook((o)._do)
static inline void h_release_hook(void *p);
#include "contracts/C13/data_common.h"
enum { K_FREE = 190, K_ASYNC_DESTRUCTOR, K_RELEASE, K_MUNMAP };
size_t H_nrec_g; unsigned H_releases_seen; _Bool H_wrong_release;
void free(void *p) { __verif_event(K_FREE, 0, p, 0, 0); }
int munmap(void *p, size_t len) { __verif_event(K_MUNMAP, 0, p, len, 0); return 0; }
void dispatch_async_f(dispatch_queue_t q, void *ctxt, dispatch_function_t f) { (void)f; __verif_event(K_ASYNC_DESTRUCTOR, 0, q, (unsigned long long)(uintptr_t)ctxt, 0); }
static inline void h_release_hook(void *p) { if (p != (void *)&H_leaf[H_releases_seen]) H_wrong_release = 1; H_releases_seen++; }
int H_kind;  /* 1 leaf, 3 composite */
char H_bytes[8]; struct dispatch_queue_s H_destructor_q;
static void h_client_destructor(void) { }
#define DESTR (H_leaf[0].destructor)
VERIF_LOOP_CONTRACT(_dispatch_data_dispose, 0,
	__CPROVER_assigns(i, H_releases_seen, H_wrong_release, H_watch_releases)
	__CPROVER_loop_invariant(i <= H_nrec_g && H_releases_seen == i && !H_wrong_release))
VERIF_CONTRACT_VOID(_dispatch_data_dispose, (dispatch_data_t dd, bool *allow_free),
  REQ(dd == (H_kind == 1 ? &H_leaf[0] : &H_in.d) && __verif_n == 0 && H_releases_seen == 0 && !H_wrong_release && H_nrec_g == H_in.d.num_records && H_nrec_g >= 1 && H_nrec_g <= MAXR)
  ASG(VERIF_GHOST, H_releases_seen, H_wrong_release, DATA_GHOST)
  /* a leaf gives its buffer back exactly once, in the way its destructor says: free(), nothing, or the client's block posted ONCE on
   * the queue the client named (default queue otherwise) */
  ENS(leaf_buffer_is_destroyed_exactly_once_as_its_destructor_says, VIMPL(H_kind == 1,
        DESTR == DISPATCH_DATA_DESTRUCTOR_FREE ? (__verif_n == 1 && LOGK(0) == K_FREE && LOGP(0) == (void *)H_bytes)
        : DESTR == DISPATCH_DATA_DESTRUCTOR_NONE ? (__verif_n == 0)
        : DESTR == DISPATCH_DATA_DESTRUCTOR_MUNMAP ? (__verif_n == 1 && LOGK(0) == K_MUNMAP && LOGP(0) == (void *)H_bytes && LOGA(0) == H_leaf[0].size)
        : (__verif_n == 1 && LOGK(0) == K_ASYNC_DESTRUCTOR && LOGA(0) == (unsigned long long)(uintptr_t)DESTR && LOGP(0) == (void *)(H_leaf[0].do_targetq ? H_leaf[0].do_targetq : _dispatch_get_default_queue(false)))))
  /* the library's own destructor constants are markers (their block bodies crash the process): they are never posted as blocks */
  ENS(library_destructor_markers_are_never_run_as_blocks, VIMPL(H_kind == 1 && (DESTR == DISPATCH_DATA_DESTRUCTOR_FREE || DESTR == DISPATCH_DATA_DESTRUCTOR_NONE || DESTR == DISPATCH_DATA_DESTRUCTOR_MUNMAP),
        __verif_n == 0 || LOGK(0) != K_ASYNC_DESTRUCTOR))
  ENS(leaf_releases_no_other_object, VIMPL(H_kind == 1, H_releases_seen == 0))
  /* a composite owns one reference per record and a private flat copy (if one was made): each is dropped exactly once, in order;
   * the leaves' buffers are NOT touched here (they go when the leaf itself is disposed) */
  ENS(composite_drops_exactly_one_reference_per_record, VIMPL(H_kind == 3, H_releases_seen == H_nrec_g && !H_wrong_release))
  ENS(composite_frees_only_its_own_flat_copy, VIMPL(H_kind == 3, __verif_n == 1 && LOGK(0) == K_FREE && LOGP(0) == (void *)H_in.d.buf))
)
void harness(void)
{
	VERIF_GHOST_RESET(); __verif_crash_is_bug = 1; H_releases_seen = 0; H_wrong_release = 0;
	H_kind = ND_BOOL() ? 1 : 3;
	h_build_composite(&H_in, H_leaf, 1); H_nrec_g = H_nrec;
	H_in.d.buf = ND_BOOL() ? (const void *)H_bytes : (const void *)0;
	H_leaf[0].buf = H_bytes; H_leaf[0].do_targetq = ND_BOOL() ? &H_destructor_q : (dispatch_queue_t)0;
	int dk = ND(int); H_leaf[0].destructor = dk == 0 ? DISPATCH_DATA_DESTRUCTOR_FREE : dk == 1 ? DISPATCH_DATA_DESTRUCTOR_NONE : dk == 2 ? DISPATCH_DATA_DESTRUCTOR_MUNMAP : (dispatch_block_t)h_client_destructor;
	bool af = 1;
	_dispatch_data_dispose(H_kind == 1 ? &H_leaf[0] : &H_in.d, &af);
	VERIF_POST_VOID(_dispatch_data_dispose, H_kind == 1 ? &H_leaf[0] : &H_in.d, &af);
	VERIF_REACH(client_destructor_posted, H_kind == 1 && __verif_n == 1 && LOGK(0) == K_ASYNC_DESTRUCTOR);
	VERIF_CANARY();
}
#endif
