/*VERIF
{ "tu": "src/data.c", "enforce": "dispatch_data_create_f", "props": ["C13"], "seq": true, "timeout": 200,
  "rewrite": [["destructor = ^{ destructor_function((void*)buffer); };", "destructor = __verif_wrap_block(destructor_function, buffer);"]],
  "assumes": ["the library's destructor markers are distinct global objects; a client destructor function is none of them"],
  "stub_note": "dispatch_data_create (own contract: h_data_create): records the destructor it is given; the wrapping block literal is lowered by the extractor to a descriptor object" }
VERIF*/
#ifdef VERIF_PRE
#else
#include "contracts/C13/data_common.h"
char H_bytes[8]; struct dispatch_queue_s H_q; dispatch_block_t H_seen_d; const void *H_seen_buf; size_t H_seen_size, H_size0; dispatch_queue_t H_seen_q; unsigned H_creates; unsigned H_kind;
static void h_client_destructor(void *p) { (void)p; }
/* stands for the block literal ^{ destructor_function((void*)buffer); } (CBMC has no blocks): a fresh block object that remembers what it will call */
struct { dispatch_function_t f; const void *arg; } H_wrap; unsigned H_wraps;
static inline dispatch_block_t __verif_wrap_block(dispatch_function_t f, const void *arg) { H_wrap.f = f; H_wrap.arg = arg; H_wraps++; return (dispatch_block_t)(void *)&H_wrap; }
dispatch_data_t dispatch_data_create(const void *buffer, size_t size, dispatch_queue_t queue, dispatch_block_t destructor)
{ H_creates++; H_seen_d = destructor; H_seen_buf = buffer; H_seen_size = size; H_seen_q = queue; return &H_out[0].d; }
#define M_DEFAULT DISPATCH_DATA_DESTRUCTOR_DEFAULT
#define M_FREE DISPATCH_DATA_DESTRUCTOR_FREE
#define M_NONE DISPATCH_DATA_DESTRUCTOR_NONE
#define M_MUNMAP DISPATCH_DATA_DESTRUCTOR_MUNMAP
#define M_INLINE DISPATCH_DATA_DESTRUCTOR_INLINE
#define IS_MARKER(d) ((d) == M_DEFAULT || (d) == M_FREE || (d) == M_NONE || (d) == M_MUNMAP || (d) == M_INLINE)
#define ARG_D ((dispatch_function_t)(H_kind == 0 ? (void *)M_DEFAULT : H_kind == 1 ? (void *)M_FREE : H_kind == 2 ? (void *)M_NONE : H_kind == 3 ? (void *)M_MUNMAP : H_kind == 4 ? (void *)M_INLINE : (void *)h_client_destructor))
#define MARKERS_DISTINCT_F ((void *)M_FREE != (void *)M_NONE && (void *)M_FREE != (void *)M_MUNMAP && (void *)M_FREE != (void *)M_INLINE && (void *)M_NONE != (void *)M_MUNMAP && (void *)M_NONE != (void *)M_INLINE \
        && (void *)M_MUNMAP != (void *)M_INLINE && (void *)M_FREE != 0 && (void *)M_NONE != 0 && (void *)M_MUNMAP != 0 && (void *)M_INLINE != 0 \
        && (void *)h_client_destructor != (void *)M_FREE && (void *)h_client_destructor != (void *)M_NONE && (void *)h_client_destructor != (void *)M_MUNMAP && (void *)h_client_destructor != (void *)M_INLINE)
VERIF_CONTRACT(dispatch_data_t, dispatch_data_create_f, (const void *buffer, size_t size, dispatch_queue_t queue, dispatch_function_t destructor_function),
  REQ(buffer == (const void *)H_bytes && size == H_size0 && queue == &H_q && destructor_function == ARG_D && H_kind <= 5 && H_creates == 0 && H_wraps == 0 && MARKERS_DISTINCT_F)
  ASG(H_creates, H_seen_d, H_seen_buf, H_seen_size, H_seen_q, H_wraps, __CPROVER_object_whole(&H_wrap))
  /* C13: the function-pointer variant creates the same object as dispatch_data_create: every library destructor constant - default, free, none, MUNMAP (this
   * platform's unmap constant), inline - means the same thing in both variants and is passed through AS IT IS; only a real client function is wrapped */
  ENS(one_create_with_the_same_buffer_size_and_queue, H_creates == 1 && H_seen_buf == (const void *)H_bytes && H_seen_size == H_size0 && H_seen_q == &H_q && __CPROVER_return_value == &H_out[0].d)
  ENS(library_destructor_constants_are_passed_through_unchanged, VIMPL(H_kind <= 4, H_seen_d == (dispatch_block_t)ARG_D && H_wraps == 0))
  /* (the clause about a client function compares function pointers, which the contract instrumentation mis-evaluates inside an ensures clause: it is an assertion of the harness) */
)
void harness(void)
{
	VERIF_GHOST_RESET();
	H_kind = ND(unsigned); H_size0 = ND(size_t); H_creates = 0; H_wraps = 0; __CPROVER_assume(H_kind <= 5 && MARKERS_DISTINCT_F);
	dispatch_data_t r = dispatch_data_create_f(H_bytes, H_size0, &H_q, ARG_D);
	VERIF_POST(dispatch_data_create_f, r, H_bytes, H_size0, &H_q, ARG_D);
	VERIF_REACH(munmap_constant, H_kind == 3);
	VERIF_REACH(client_function, H_kind == 5);
	VERIF_CANARY();
}
#endif
