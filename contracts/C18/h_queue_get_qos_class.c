/*VERIF
{ "tu": "src/queue.c", "enforce": "dispatch_queue_get_qos_class", "props": ["C18"], "seq": true, "timeout": 120,
  "assumes": ["the queue's priority word was made by _dispatch_priority_make(qos, relative priority) with a valid class index 0..6 and a relative priority in [QOS_MIN_RELATIVE_PRIORITY, 0] (what the constructors store: attr / lane_create_with_target contracts); the other bits of the word are arbitrary"],
  "stub_note": "none" }
VERIF*/
#ifdef VERIF_PRE
#else
#include "contracts/common/dq_common.h"
dispatch_priority_t H_pri; int H_rel, H_rel_in; unsigned H_q; _Bool H_want_rel;
#define QOS_OF(p) (((p) & DISPATCH_PRIORITY_QOS_MASK) >> DISPATCH_PRIORITY_QOS_SHIFT)
#define CLASS_OF(q) ((q) == 0 ? QOS_CLASS_UNSPECIFIED : (q) == 1 ? QOS_CLASS_MAINTENANCE : (q) == 2 ? QOS_CLASS_BACKGROUND : (q) == 3 ? QOS_CLASS_UTILITY : (q) == 4 ? QOS_CLASS_DEFAULT : (q) == 5 ? QOS_CLASS_USER_INITIATED : QOS_CLASS_USER_INTERACTIVE)
VERIF_CONTRACT(qos_class_t, dispatch_queue_get_qos_class, (dispatch_queue_t dq, int *relpri_ptr),
  REQ(dq == (dispatch_queue_t)H_DQ && relpri_ptr == (H_want_rel ? &H_rel : (int *)0) && H_lane.dq_priority == H_pri && H_q <= DISPATCH_QOS_MAX && H_rel_in >= QOS_MIN_RELATIVE_PRIORITY && H_rel_in <= 0
      && (H_pri & (DISPATCH_PRIORITY_QOS_MASK | DISPATCH_PRIORITY_RELPRI_MASK)) == _dispatch_priority_make((dispatch_priority_t)H_q, H_rel_in))
  ASG(H_rel)
  /* C18: a queue reports the QoS class its priority word denotes (the one the attribute asked for) and the relative priority that was requested with it (the stored form is offset by one: the reported value is the inverse of the encoding) - 0 when no class was requested */
  ENS(reports_the_class_of_the_stored_qos, __CPROVER_return_value == CLASS_OF(H_q))
  ENS(reports_the_stored_relative_priority_or_zero_without_a_class, VIMPL(H_want_rel, H_rel == (H_q ? H_rel_in : 0)))
)
void harness(void)
{
	h_setup_lane(); H_q = ND(unsigned); H_rel_in = ND(int); __CPROVER_assume(H_q <= DISPATCH_QOS_MAX && H_rel_in >= QOS_MIN_RELATIVE_PRIORITY && H_rel_in <= 0);
	H_pri = (ND(dispatch_priority_t) & ~(DISPATCH_PRIORITY_QOS_MASK | DISPATCH_PRIORITY_RELPRI_MASK)) | _dispatch_priority_make((dispatch_priority_t)H_q, H_rel_in); H_lane.dq_priority = H_pri; H_want_rel = ND_BOOL(); H_rel = 12345;
	qos_class_t r = dispatch_queue_get_qos_class((dispatch_queue_t)H_DQ, H_want_rel ? &H_rel : (int *)0);
	VERIF_POST(dispatch_queue_get_qos_class, r, (dispatch_queue_t)H_DQ, H_want_rel ? &H_rel : (int *)0);
	VERIF_REACH(negative_relative_priority, H_want_rel && H_rel == -3);
	VERIF_CANARY();
}
#endif
