/* documented identifiers (dispatch/queue.h, sys/qos.h) -> documented class, as root queue index / 2:
 * 0 maintenance, 1 background, 2 utility, 3 default, 4 user-initiated, 5 user-interactive.
 * This build has no OS QoS support (HAVE_PTHREAD_WORKQUEUE_QOS == 0): maintenance is clamped to
 * background and user-interactive to user-initiated. */
#define DOC_CLASS(p) ( \
	(p) == DISPATCH_QUEUE_PRIORITY_HIGH ? 4 : (p) == DISPATCH_QUEUE_PRIORITY_DEFAULT ? 3 : \
	(p) == DISPATCH_QUEUE_PRIORITY_LOW ? 2 : (p) == DISPATCH_QUEUE_PRIORITY_BACKGROUND ? 1 : \
	(p) == DISPATCH_QUEUE_PRIORITY_NON_INTERACTIVE ? 2 : \
	(p) == 0x21 ? 5 : (p) == 0x19 ? 4 : (p) == 0x15 ? 3 : (p) == 0x11 ? 2 : (p) == 0x09 ? 1 : (p) == 0x05 ? 0 : -1)
#if HAVE_PTHREAD_WORKQUEUE_QOS
#define CLAMP(c) (c)
#else
#define CLAMP(c) ((c) == 0 ? 1 : (c) == 5 ? 4 : (c))
#endif
VERIF_CONTRACT(dispatch_queue_global_t, dispatch_get_global_queue, (intptr_t priority, uintptr_t flags),
  ASG()
  ENS(undefined_flags_give_null, VIMPL((flags & ~(uintptr_t)DISPATCH_QUEUE_OVERCOMMIT) != 0, __CPROVER_return_value == 0))
  ENS(undefined_identifier_gives_null, VIMPL(DOC_CLASS(priority) < 0, __CPROVER_return_value == 0))
  ENS(documented_identifier_gives_the_documented_class, VIMPL(DOC_CLASS(priority) >= 0 && (flags & ~(uintptr_t)DISPATCH_QUEUE_OVERCOMMIT) == 0,
        /* the entry of the root queue table for that class (internal QoS = class + 1), see h_get_root_queue */
        __CPROVER_return_value != 0 && __CPROVER_return_value == _dispatch_get_root_queue((dispatch_qos_t)(CLAMP(DOC_CLASS(priority)) + 1), (flags & DISPATCH_QUEUE_OVERCOMMIT) != 0)))
)
