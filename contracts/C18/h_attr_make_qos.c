/*VERIF
{ "tu": "src/init.c", "enforce": "dispatch_queue_attr_make_with_qos_class", "replace": ["_dispatch_queue_attr_to_info", "_dispatch_queue_attr_from_info"], "props": ["C18"], "seq": true, "timeout": 200 }
VERIF*/
#ifdef VERIF_PRE
#else
#include "contracts/C18/attr_spec.h"
#define QOS_OF(c) ((c) == 0x21 ? 6 : (c) == 0x19 ? 5 : (c) == 0x15 ? 4 : (c) == 0x11 ? 3 : (c) == 0x09 ? 2 : (c) == 0x05 ? 1 : (c) == 0 ? 0 : -1)
VERIF_CONTRACT(dispatch_queue_attr_t, dispatch_queue_attr_make_with_qos_class, (dispatch_queue_attr_t dqa, dispatch_qos_class_t qos_class, int relpri),
  REQ(DIGITS_VALID && dqa == ENTRY(H_idx))
  ASG()
  ENS(invalid_class_or_priority_leaves_attribute_unchanged, VIMPL(QOS_OF((unsigned)qos_class) < 0 || relpri > 0 || relpri < QOS_MIN_RELATIVE_PRIORITY, __CPROVER_return_value == dqa))
  ENS(only_qos_and_relative_priority_change, VIMPL(QOS_OF((unsigned)qos_class) >= 0 && relpri <= 0 && relpri >= QOS_MIN_RELATIVE_PRIORITY,
        __CPROVER_return_value == ENTRY(IDX_OF(H_d_oc, H_d_af, QOS_OF((unsigned)qos_class), -relpri, H_d_conc, H_d_inactive))))
)
void harness(void)
{
	VERIF_GHOST_RESET(); __verif_crash_is_bug = 1;
	h_pick_entry();
	dispatch_qos_class_t c = ND(dispatch_qos_class_t); int rp = ND(int);
	dispatch_queue_attr_t r = dispatch_queue_attr_make_with_qos_class(ENTRY(H_idx), c, rp);
	VERIF_POST(dispatch_queue_attr_make_with_qos_class, r, ENTRY(H_idx), c, rp);
	VERIF_CANARY();
}
#endif
