/*VERIF
{ "tu": "src/init.c", "enforce": "_dispatch_queue_attr_from_info", "props": ["C18"], "seq": true, "timeout": 400 }
VERIF*/
#ifdef VERIF_PRE
#else
#include "contracts/C18/attr_spec.h"
void harness(void)
{
	VERIF_GHOST_RESET(); __verif_crash_is_bug = 1;
	dispatch_queue_attr_info_t i = { };
	i.dqai_overcommit = ND(unsigned); i.dqai_autorelease_frequency = ND(unsigned); i.dqai_qos = ND(unsigned);
	i.dqai_relpri = ND(int); i.dqai_concurrent = ND_BOOL(); i.dqai_inactive = ND_BOOL();
	dispatch_queue_attr_t a = _dispatch_queue_attr_from_info(i);
	VERIF_POST(_dispatch_queue_attr_from_info, a, i);
	VERIF_CANARY();
}
#endif
