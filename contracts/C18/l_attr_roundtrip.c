/*VERIF
{ "tu": "src/init.c", "replace": ["_dispatch_queue_attr_to_info", "_dispatch_queue_attr_from_info"], "props": ["C18"], "seq": true, "timeout": 200,
  "assumes": ["lemma over the contracts of the table encoder/decoder (both enforced on the real code)"] }
VERIF*/
#ifdef VERIF_PRE
#else
#include "contracts/C18/attr_spec.h"
void harness(void)
{
	VERIF_GHOST_RESET();
	h_pick_entry();
	/* index <-> fields is a bijection on the 6048 entries */
	dispatch_queue_attr_info_t i = _dispatch_queue_attr_to_info(ENTRY(H_idx));
	dispatch_queue_attr_t back = _dispatch_queue_attr_from_info(i);
	VERIF_ASSERT(encode_inverts_decode_on_every_entry, back == ENTRY(H_idx));
	VERIF_ASSERT(every_entry_index_is_in_range, H_idx < DISPATCH_QUEUE_ATTR_COUNT);
	VERIF_CANARY();
}
#endif
