/*VERIF
{ "tu": "src/queue.c", "enforce": "_dispatch_async_and_wait_invoke_and_complete_recurse", "props": ["C18", "C01", "C05"], "seq": true, "timeout": 200,
  "assumes": ["autorelease-pool hooks are installed whenever a pool is asked for (DESIGN 10.6)"],
  "stub_note": "_dispatch_client_callout (the work item), _dispatch_sync_complete_recurse (own contract: b_sync_complete_recurse), priority / voucher / work-loop bookkeeping: recorded" }
VERIF*/
#ifdef VERIF_PRE
#else
#define DQ_STUB_TARGET 1
#include "contracts/common/dq_common.h"
struct dispatch_sync_context_s H_dsc; struct dispatch_queue_s H_top, H_bottom, H_caller_q; void *H_ctxt0; unsigned H_callouts, H_completes; _Bool H_bad; uintptr_t H_dcf0; void *H_frame0;
static void h_work(void *c) { (void)c; }
void *_dispatch_autorelease_pool_push(void) { static char pool_token; return &pool_token; }
void _dispatch_autorelease_pool_pop(void *context) { (void)context; }
static inline voucher_t _dispatch_set_priority_and_voucher(pthread_priority_t pp, voucher_t v, dispatch_thread_set_self_t flags) { (void)pp; (void)v; (void)flags; return 0; }
static inline void _dispatch_reset_priority_and_voucher(pthread_priority_t pp, voucher_t v) { (void)pp; (void)v; }
void _dispatch_client_callout(void *ctxt, dispatch_function_t f)
{	if (ctxt != H_ctxt0 || f != h_work || H_completes) H_bad = 1; H_callouts++;
	/* C18: the item sees the queue it was SUBMITTED to (not the queue at the bottom of the hierarchy where the wait was parked) as current */
	if (_dispatch_thread_getspecific(dispatch_queue_key) != (void *)&H_top) H_bad = 1; }
static void _dispatch_sync_complete_recurse(dispatch_queue_t dq, dispatch_queue_t stop_dq, uintptr_t dc_flags)
{ if (dq != &H_top || stop_dq != 0 || dc_flags != H_dcf0 || H_callouts != 1) H_bad = 1; H_completes++; }
VERIF_CONTRACT_VOID(_dispatch_async_and_wait_invoke_and_complete_recurse, (dispatch_queue_t dq, dispatch_sync_context_t dsc, dispatch_queue_t bottom_q, uintptr_t top_dc_flags),
  REQ(H_bottom.do_vtable == (void *)&H_vtable && dq == &H_top && dsc == &H_dsc && bottom_q == &H_bottom && top_dc_flags == H_dcf0 && H_dsc.dsc_func == h_work && H_dsc.dsc_ctxt == H_ctxt0 && H_callouts == 0 && H_completes == 0 && !H_bad)
  REQ(_dispatch_thread_getspecific(dispatch_queue_key) == (void *)&H_caller_q && _dispatch_thread_getspecific(dispatch_frame_key) == H_frame0)
  ASG(VERIF_GHOST, __CPROVER_object_whole(&H_dsc), H_callouts, H_completes, H_bad, __dispatch_tsd)
  ENS(the_item_runs_exactly_once_with_the_submitted_to_queue_as_current, H_callouts == 1 && !H_bad)
  ENS(every_level_taken_on_the_way_down_is_released_from_the_top_after_the_item, H_completes == 1)
  ENS(the_callers_own_queue_and_frame_are_restored, _dispatch_thread_getspecific(dispatch_queue_key) == (void *)&H_caller_q && _dispatch_thread_getspecific(dispatch_frame_key) == H_frame0)
)
void harness(void)
{
	h_setup_lane(); h_setup_target(); H_bottom.do_vtable = (void *)&H_vtable; H_bottom.dq_state = ND(uint64_t) & ~DISPATCH_QUEUE_ROLE_BASE_WLH; H_callouts = H_completes = 0; H_bad = 0; H_ctxt0 = (void *)&H_target; H_dcf0 = ND(uintptr_t) & 0xfff; H_frame0 = (void *)0;
	H_dsc.dsc_func = h_work; H_dsc.dsc_ctxt = H_ctxt0; H_dsc.dsc_autorelease = ND(unsigned) & 3; H_dsc.dc_priority = ND(pthread_priority_t); H_dsc.dc_voucher = 0;
	__dispatch_tsd.dispatch_queue_key = (void *)&H_caller_q; __dispatch_tsd.dispatch_frame_key = H_frame0; __dispatch_tsd.dispatch_wlh_key = (void *)DISPATCH_WLH_ANON;
	_dispatch_async_and_wait_invoke_and_complete_recurse(&H_top, &H_dsc, &H_bottom, H_dcf0);
	VERIF_POST_VOID(_dispatch_async_and_wait_invoke_and_complete_recurse, &H_top, &H_dsc, &H_bottom, H_dcf0);
	VERIF_CANARY();
}
#endif
