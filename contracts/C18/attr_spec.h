/* C18 attribute table: spec of the table layout (documented in queue_internal.h:
 * overcommit(3) x autorelease(3) x qos(7) x relpri(16) x concurrency(2) x inactive(2) = 6048) */
#ifndef ATTR_SPEC_H
#define ATTR_SPEC_H
#define R_INACTIVE 1u
#define R_CONC (R_INACTIVE * DISPATCH_QUEUE_ATTR_INACTIVE_COUNT)
#define R_PRIO (R_CONC * DISPATCH_QUEUE_ATTR_CONCURRENCY_COUNT)
#define R_QOS (R_PRIO * DISPATCH_QUEUE_ATTR_PRIO_COUNT)
#define R_AF (R_QOS * DISPATCH_QUEUE_ATTR_QOS_COUNT)
#define R_OC (R_AF * DISPATCH_QUEUE_ATTR_AUTORELEASE_FREQUENCY_COUNT)
#define IDX_OF(oc, af, qos, prio, conc, inact) ((size_t)(oc) * R_OC + (size_t)(af) * R_AF + (size_t)(qos) * R_QOS + (size_t)(prio) * R_PRIO + (size_t)(conc) * R_CONC + (size_t)(inact) * R_INACTIVE)
#define ENTRY(i) ((dispatch_queue_attr_t)&_dispatch_queue_attrs[i])
/* ghost: the entry under consideration and its digits (chosen by the harness, so that the spec
 * needs no division) */
size_t H_idx, H_d_inactive, H_d_conc, H_d_prio, H_d_qos, H_d_af, H_d_oc;
#define DIGITS_VALID (H_d_inactive < DISPATCH_QUEUE_ATTR_INACTIVE_COUNT && H_d_conc < DISPATCH_QUEUE_ATTR_CONCURRENCY_COUNT && H_d_prio < DISPATCH_QUEUE_ATTR_PRIO_COUNT \
	&& H_d_qos < DISPATCH_QUEUE_ATTR_QOS_COUNT && H_d_af < DISPATCH_QUEUE_ATTR_AUTORELEASE_FREQUENCY_COUNT && H_d_oc < DISPATCH_QUEUE_ATTR_OVERCOMMIT_COUNT \
	&& H_idx == IDX_OF(H_d_oc, H_d_af, H_d_qos, H_d_prio, H_d_conc, H_d_inactive))
#define INFO_VALID(i) ((i).dqai_overcommit < DISPATCH_QUEUE_ATTR_OVERCOMMIT_COUNT && (i).dqai_autorelease_frequency < DISPATCH_QUEUE_ATTR_AUTORELEASE_FREQUENCY_COUNT \
	&& (i).dqai_qos < DISPATCH_QUEUE_ATTR_QOS_COUNT && (i).dqai_relpri <= 0 && (i).dqai_relpri > -DISPATCH_QUEUE_ATTR_PRIO_COUNT)
#define INFO_IS(i, oc, af, qos, prio, conc, inact) ((i).dqai_overcommit == (oc) && (i).dqai_autorelease_frequency == (af) && (i).dqai_qos == (qos) \
	&& (i).dqai_relpri == -(int)(prio) && (i).dqai_concurrent == !(conc) && (i).dqai_inactive == (inact))
static inline void h_pick_entry(void)
{
	H_d_inactive = ND(size_t); H_d_conc = ND(size_t); H_d_prio = ND(size_t); H_d_qos = ND(size_t); H_d_af = ND(size_t); H_d_oc = ND(size_t);
	__CPROVER_assume(H_d_inactive < 2 && H_d_conc < 2 && H_d_prio < 16 && H_d_qos < 7 && H_d_af < 3 && H_d_oc < 3);
	H_idx = IDX_OF(H_d_oc, H_d_af, H_d_qos, H_d_prio, H_d_conc, H_d_inactive);
	__CPROVER_assume(DIGITS_VALID);
}
/* decode: entry -> description.  For every table entry the description is exactly its digits */
VERIF_CONTRACT(dispatch_queue_attr_info_t, _dispatch_queue_attr_to_info, (dispatch_queue_attr_t dqa),
  REQ(DIGITS_VALID && dqa == ENTRY(H_idx))
  ASG()
  ENS(entry_decodes_to_its_digits, INFO_IS(__CPROVER_return_value, H_d_oc, H_d_af, H_d_qos, H_d_prio, H_d_conc, H_d_inactive))
)
/* encode: description -> entry, inside the table */
VERIF_CONTRACT(dispatch_queue_attr_t, _dispatch_queue_attr_from_info, (dispatch_queue_attr_info_t dqai),
  REQ(INFO_VALID(dqai))
  ASG()
  ENS(description_encodes_to_the_entry_with_those_digits, __CPROVER_return_value == ENTRY(IDX_OF(dqai.dqai_overcommit, dqai.dqai_autorelease_frequency,
        dqai.dqai_qos, -dqai.dqai_relpri, !dqai.dqai_concurrent, dqai.dqai_inactive)))
  ENS(entry_is_inside_the_table, IDX_OF(dqai.dqai_overcommit, dqai.dqai_autorelease_frequency, dqai.dqai_qos, -dqai.dqai_relpri, !dqai.dqai_concurrent, dqai.dqai_inactive) < DISPATCH_QUEUE_ATTR_COUNT)
)
#endif
