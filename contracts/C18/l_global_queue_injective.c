/*VERIF
{ "tu": "src/init.c", "replace": ["dispatch_get_global_queue"], "roots": ["_dispatch_get_root_queue"], "props": ["C18"], "seq": true, "timeout": 120,
  "assumes": ["lemma over the contract of dispatch_get_global_queue (enforced in h_get_global_queue)"] }
VERIF*/
#ifdef VERIF_PRE
#else
#include "contracts/C18/global_queue.contract.h"
void harness(void)
{
	VERIF_GHOST_RESET();
	intptr_t p = ND(intptr_t), p2 = ND(intptr_t); uintptr_t f = ND(uintptr_t);
	dispatch_queue_global_t q = dispatch_get_global_queue(p, f);
	dispatch_queue_global_t q2 = dispatch_get_global_queue(p2, f);
	if (q && q2) { /* (queue identity = serial number: the table assigns each entry a distinct one, checked in h_root_queue_table) */
		VERIF_ASSERT(same_class_same_queue, VIMPL(CLAMP(DOC_CLASS(p)) == CLAMP(DOC_CLASS(p2)), q == q2));
		VERIF_ASSERT(different_class_different_queue, VIMPL(CLAMP(DOC_CLASS(p)) != CLAMP(DOC_CLASS(p2)), q != q2));
	}
	VERIF_REACH(two_queues, q && q2 && q != q2);
	VERIF_CANARY();
}
#endif
