/*VERIF
{ "tu": "src/init.c", "enforce": "_dispatch_queue_attr_to_info", "props": ["C18"], "seq": true, "timeout": 400, "sat": "kissat" }
VERIF*/
#ifdef VERIF_PRE
#else
#include "contracts/C18/attr_spec.h"
void harness(void)
{
	VERIF_GHOST_RESET(); __verif_crash_is_bug = 1;
	h_pick_entry();
	dispatch_queue_attr_info_t i = _dispatch_queue_attr_to_info(ENTRY(H_idx));
	VERIF_POST(_dispatch_queue_attr_to_info, i, ENTRY(H_idx));
	VERIF_CANARY();
}
#endif
