/*VERIF
{ "tu": "src/init.c", "enforce": "dispatch_get_global_queue", "props": ["C18"], "seq": true, "timeout": 120 }
VERIF*/
#ifdef VERIF_PRE
#else
#include "contracts/C18/global_queue.contract.h"
void harness(void)
{
	VERIF_GHOST_RESET();
	__verif_crash_is_bug = 1;     /* no input may crash this function */
	intptr_t p = ND(intptr_t); uintptr_t f = ND(uintptr_t);
	dispatch_queue_global_t q = dispatch_get_global_queue(p, f);
	VERIF_POST(dispatch_get_global_queue, q, p, f);
	VERIF_REACH(some_queue, q != 0);
	VERIF_CANARY();
}
#endif
