/*VERIF
{ "tu": "src/queue.c", "enforce": "_dispatch_queue_init_specific", "props": ["C18"], "nondet_volatile": true, "timeout": 200,
  "stub_note": "_dispatch_calloc returns the harness head; _dispatch_queue_specific_head_dispose: logged" }
VERIF*/
#ifdef VERIF_PRE
/* guarantee: the table pointer of a queue is only ever installed by a compare-and-swap FROM NULL (never overwritten: a second
 * initialiser racing with the first must lose, or the first one's entries would be orphaned) */
#define __VERIF_GUARANTEE(p, ov, nv, mo) ((ov) == 0 && (nv) != 0 && VMO_IS_REL(mo))
#else
#include "contracts/common/dq_common.h"
#define CALL_HEAD_DISPOSE 71
struct dispatch_queue_specific_head_s H_head;
void *_dispatch_calloc(size_t n, size_t sz) { (void)n; (void)sz; return &H_head; }
static void _dispatch_queue_specific_head_dispose(dispatch_queue_specific_head_t dqsh) { __verif_event(EV_CALL, 0, dqsh, CALL_HEAD_DISPOSE, 0); }
#define HEAD_P ((const volatile void *)&H_lane.dq_specific_head)
VERIF_CONTRACT_VOID(_dispatch_queue_init_specific, (dispatch_queue_t dq),
  REQ(dq == (dispatch_queue_t)H_DQ && __verif_n == 0)
  ASG(VERIF_GHOST, H_lane.dq_specific_head, __CPROVER_object_whole(&H_head))
  ENS(log_bounded, __verif_n == 1)
  /* either this caller installs its (empty, initialised) table by a release CAS from NULL, or somebody else's is already there and
   * the caller throws its own away: the queue never ends up with a table that replaced another one */
  ENS(table_is_installed_only_over_null_with_release, VIMPL(LOGK(0) == EV_COMMIT, LOGP(0) == HEAD_P && LOGA(0) == 0 && LOGB(0) == (unsigned long long)(uintptr_t)&H_head && VMO_IS_REL(LOGM(0)) && TAILQ_EMPTY(&H_head.dqsh_entries)))
  ENS(loser_of_the_race_disposes_its_own_table, VIMPL(LOGK(0) != EV_COMMIT, LOGK(0) == EV_CALL && LOGA(0) == CALL_HEAD_DISPOSE && LOGP(0) == (void *)&H_head && (unsigned long long)__verif_last_load != 0))
)
void harness(void)
{
	h_setup_lane();
	_dispatch_queue_init_specific((dispatch_queue_t)H_DQ);
	VERIF_POST_VOID(_dispatch_queue_init_specific, (dispatch_queue_t)H_DQ);
	VERIF_REACH(lost_the_race, LOGK(0) == EV_CALL);
	VERIF_CANARY();
}
#endif
