/*VERIF
{ "tu": "src/queue.c", "enforce": "dispatch_queue_set_specific", "props": ["C18", "C17"], "seq": true, "timeout": 300, "cases": 3,
  "unwind": 5, "unwind_fns": ["_dispatch_queue_specific_find", "dispatch_queue_set_specific"],
  "bounded": {"unwind": 5, "what": "0..2 existing key/value entries on the queue (one case per number of entries); keys drawn from 4 distinct addresses"},
  "assumes": ["the table exists (first-time creation: h_queue_init_specific) and is modified under its lock; the calling thread is the only writer meanwhile (lock contract)"],
  "stub_note": "_dispatch_unfair_lock_lock/_unlock: counted; _dispatch_calloc returns the harness entry; free, _dispatch_barrier_async_detached_f (old value's destructor posted on the default queue): logged" }
VERIF*/
#ifdef VERIF_PRE
#else
#define DQ_STUB_TARGET 1
#include "contracts/common/dq_common.h"
enum { K_FREE = 190, K_DESTRUCT };
char H_keyobj[4], H_valobj[4], H_newval;
struct dispatch_queue_specific_head_s H_head; struct dispatch_queue_specific_s H_ent[2], H_fresh; unsigned H_n; unsigned H_locks, H_unlocks; const void *H_key; void *H_ctxt; dispatch_function_t H_destr;
void *H_old_ctxt[2]; dispatch_function_t H_old_destr[2]; const void *H_old_key[2];
static void h_d0(void *c) { (void)c; } static void h_d1(void *c) { (void)c; } static void h_dn(void *c) { (void)c; }
static inline void _dispatch_unfair_lock_lock(dispatch_unfair_lock_t l) { if (l != &H_head.dqsh_lock || H_locks != H_unlocks) H_locks = 99; else H_locks++; }
static inline void _dispatch_unfair_lock_unlock(dispatch_unfair_lock_t l) { if (l != &H_head.dqsh_lock || H_locks != H_unlocks + 1) H_unlocks = 99; else H_unlocks++; }
void *_dispatch_calloc(size_t n, size_t sz) { (void)n; (void)sz; return &H_fresh; }
void free(void *p) { __verif_event(K_FREE, 0, p, 0, 0); }
void _dispatch_barrier_async_detached_f(dispatch_queue_class_t dq, void *ctxt, dispatch_function_t func) { (void)dq; __verif_event(K_DESTRUCT, 0, ctxt, func == h_d0 ? 0 : func == h_d1 ? 1 : 9, 0); }
/* index of the existing entry with this key (first match), or -1 */
#define MATCH(k) ((k) < H_n && H_old_key[k] == H_key)
#define IDX (MATCH(0) ? 0 : MATCH(1) ? 1 : -1)
static inline dispatch_queue_specific_t h_find(const void *key)
{ dispatch_queue_specific_t e; for (e = TAILQ_FIRST(&H_head.dqsh_entries); e; e = TAILQ_NEXT(e, dqs_entry)) if (e->dqs_key == key) return e; return 0; }
VERIF_CONTRACT_VOID(dispatch_queue_set_specific, (dispatch_queue_t dq, const void *key, void *ctxt, dispatch_function_t destructor),
  REQ(dq == (dispatch_queue_t)H_DQ && key == H_key && ctxt == H_ctxt && destructor == H_destr && __verif_n == 0 && H_locks == 0 && H_unlocks == 0 && H_lane.dq_specific_head == &H_head)
  ASG(VERIF_GHOST, H_locks, H_unlocks, __CPROVER_object_whole(&H_head), __CPROVER_object_whole(H_ent), __CPROVER_object_whole(&H_fresh))
  ENS(null_key_changes_nothing, VIMPL(!H_key, __verif_n == 0 && H_locks == 0))
  ENS(table_is_changed_under_its_lock_and_the_lock_is_released, VIMPL(H_key, H_locks == 1 && H_unlocks == 1))
  /* afterwards the key maps to the new value (or to nothing if the value is NULL): what a later dispatch_queue_get_specific returns */
  ENS(key_maps_to_the_new_value_afterwards, VIMPL(H_key && H_ctxt, h_find(H_key) != 0 && h_find(H_key)->dqs_ctxt == H_ctxt && h_find(H_key)->dqs_destructor == H_destr))
  ENS(null_value_removes_the_key, VIMPL(H_key && !H_ctxt, h_find(H_key) == 0))
  /* the value it replaces / removes is handed to ITS destructor exactly once (posted, not run under the lock); nothing else is destroyed */
  ENS(replaced_value_gets_its_destructor_exactly_once, VIMPL(H_key && IDX >= 0 && H_old_destr[IDX >= 0 ? IDX : 0] != 0,
        LOGK(0) == K_DESTRUCT && LOGP(0) == H_old_ctxt[IDX >= 0 ? IDX : 0] && LOGA(0) == (unsigned long long)(IDX >= 0 ? IDX : 0)))
  ENS(nothing_is_destroyed_when_the_key_was_not_set, VIMPL(H_key && IDX < 0, __verif_n == 0))
  ENS(other_keys_keep_their_values, VIMPL(H_key && H_n == 2 && IDX != 0 && H_old_key[0] != H_key, h_find(H_old_key[0]) == &H_ent[0] && H_ent[0].dqs_ctxt == H_old_ctxt[0]) && VIMPL(H_key && H_n == 2 && IDX != 1 && H_old_key[1] != H_key && H_old_key[1] != H_old_key[0], h_find(H_old_key[1]) == &H_ent[1] && H_ent[1].dqs_ctxt == H_old_ctxt[1]))
)
void harness(void)
{
	VERIF_GHOST_RESET(); __verif_crash_is_bug = 1; h_setup_lane(); h_setup_target();
	H_locks = H_unlocks = 0; H_n = VERIF_CASE;
	TAILQ_INIT(&H_head.dqsh_entries);
	if (H_n > 0) { H_old_key[0] = &H_keyobj[ND(unsigned) % 4]; H_old_ctxt[0] = &H_valobj[0]; H_old_destr[0] = ND_BOOL() ? h_d0 : (dispatch_function_t)0; H_ent[0].dqs_key = H_old_key[0]; H_ent[0].dqs_ctxt = H_old_ctxt[0]; H_ent[0].dqs_destructor = H_old_destr[0]; TAILQ_INSERT_TAIL(&H_head.dqsh_entries, &H_ent[0], dqs_entry); }
	if (H_n > 1) { H_old_key[1] = &H_keyobj[ND(unsigned) % 4]; __CPROVER_assume(H_old_key[1] != H_old_key[0]); H_old_ctxt[1] = &H_valobj[1]; H_old_destr[1] = ND_BOOL() ? h_d1 : (dispatch_function_t)0; H_ent[1].dqs_key = H_old_key[1]; H_ent[1].dqs_ctxt = H_old_ctxt[1]; H_ent[1].dqs_destructor = H_old_destr[1]; TAILQ_INSERT_TAIL(&H_head.dqsh_entries, &H_ent[1], dqs_entry); }
	H_lane.dq_specific_head = &H_head;
	H_key = ND_BOOL() ? (const void *)0 : (const void *)&H_keyobj[ND(unsigned) % 4]; H_ctxt = ND_BOOL() ? (void *)0 : (void *)&H_newval; H_destr = ND_BOOL() ? h_dn : (dispatch_function_t)0;
	dispatch_queue_set_specific((dispatch_queue_t)H_DQ, H_key, H_ctxt, H_destr);
	VERIF_POST_VOID(dispatch_queue_set_specific, (dispatch_queue_t)H_DQ, H_key, H_ctxt, H_destr);
	VERIF_REACH(replaced_existing, H_key && H_ctxt && IDX >= 0);
	VERIF_CANARY();
}
#endif
