/*VERIF
{ "tu": "src/init.c", "enforce": "dispatch_queue_attr_make_with_autorelease_frequency", "replace": ["_dispatch_queue_attr_to_info", "_dispatch_queue_attr_from_info"], "props": ["C18"], "seq": true, "timeout": 200 }
VERIF*/
#ifdef VERIF_PRE
#else
#include "contracts/C18/attr_spec.h"
VERIF_CONTRACT(dispatch_queue_attr_t, dispatch_queue_attr_make_with_autorelease_frequency, (dispatch_queue_attr_t dqa, dispatch_autorelease_frequency_t frequency),
  REQ(DIGITS_VALID && dqa == ENTRY(H_idx) && (unsigned long)frequency < DISPATCH_QUEUE_ATTR_AUTORELEASE_FREQUENCY_COUNT)
  ASG()
  ENS(only_the_autorelease_field_changes, __CPROVER_return_value == ENTRY(IDX_OF(H_d_oc, frequency, H_d_qos, H_d_prio, H_d_conc, H_d_inactive)))
)
void harness(void)
{
	VERIF_GHOST_RESET(); __verif_crash_is_bug = 1;
	h_pick_entry();
	dispatch_autorelease_frequency_t f = ND(dispatch_autorelease_frequency_t);
	dispatch_queue_attr_t r = dispatch_queue_attr_make_with_autorelease_frequency(ENTRY(H_idx), f);
	VERIF_POST(dispatch_queue_attr_make_with_autorelease_frequency, r, ENTRY(H_idx), f);
	VERIF_CANARY();
}
#endif
