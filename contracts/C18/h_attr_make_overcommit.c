/*VERIF
{ "tu": "src/init.c", "enforce": "dispatch_queue_attr_make_with_overcommit", "replace": ["_dispatch_queue_attr_to_info", "_dispatch_queue_attr_from_info"], "props": ["C18"], "seq": true, "timeout": 200 }
VERIF*/
#ifdef VERIF_PRE
#else
#include "contracts/C18/attr_spec.h"
VERIF_CONTRACT(dispatch_queue_attr_t, dispatch_queue_attr_make_with_overcommit, (dispatch_queue_attr_t dqa, bool overcommit),
  REQ(DIGITS_VALID && dqa == ENTRY(H_idx))
  ASG()
  ENS(only_the_overcommit_field_changes, __CPROVER_return_value == ENTRY(IDX_OF((overcommit ? _dispatch_queue_attr_overcommit_enabled : _dispatch_queue_attr_overcommit_disabled), H_d_af, H_d_qos, H_d_prio, H_d_conc, H_d_inactive)))
)
void harness(void)
{
	VERIF_GHOST_RESET(); __verif_crash_is_bug = 1;
	h_pick_entry();
	bool oc = ND_BOOL();
	dispatch_queue_attr_t r = dispatch_queue_attr_make_with_overcommit(ENTRY(H_idx), oc);
	VERIF_POST(dispatch_queue_attr_make_with_overcommit, r, ENTRY(H_idx), oc);
	VERIF_CANARY();
}
#endif
