/*VERIF
{ "tu": "src/queue.c", "enforce": "dispatch_queue_get_specific", "props": ["C18"], "seq": true, "timeout": 300, "cases": 4,
  "unwind": 5, "unwind_fns": ["_dispatch_queue_specific_find", "dispatch_queue_get_specific"],
  "bounded": {"unwind": 5, "what": "<= 3 key/value entries on the queue (one case per number of entries 0..3); keys drawn from 4 distinct addresses (so equal and different keys both occur), NULL key included"},
  "stub_note": "_dispatch_unfair_lock_lock/_unlock: counted (lock contract: C09/gate family); queue type read from the harness vtable" }
VERIF*/
#ifdef VERIF_PRE
#else
#define DQ_STUB_TARGET 1
#include "contracts/common/dq_common.h"
char H_keyobj[4], H_valobj[4];   /* keys / values are addresses of distinct objects (that is what clients use: the address of a static) */
#define H_ANY_KEY() ((const void *)&H_keyobj[ND(unsigned) % 4])
struct dispatch_queue_specific_head_s H_head; struct dispatch_queue_specific_s H_ent[3]; unsigned H_n; unsigned H_locks, H_unlocks; _Bool H_has_head;
static inline void _dispatch_unfair_lock_lock(dispatch_unfair_lock_t l) { if (l != &H_head.dqsh_lock || H_locks != H_unlocks) H_locks = 99; else H_locks++; }
static inline void _dispatch_unfair_lock_unlock(dispatch_unfair_lock_t l) { if (l != &H_head.dqsh_lock || H_locks != H_unlocks + 1) H_unlocks = 99; else H_unlocks++; }
/* expected value: the context of the FIRST entry carrying the key (keys are unique in practice: set_specific replaces) */
#define MATCH(k) ((k) < H_n && H_ent[k].dqs_key == key)
#define EXPECTED (!key || !H_has_head ? (void *)0 : MATCH(0) ? H_ent[0].dqs_ctxt : MATCH(1) ? H_ent[1].dqs_ctxt : MATCH(2) ? H_ent[2].dqs_ctxt : (void *)0)
VERIF_CONTRACT(void *, dispatch_queue_get_specific, (dispatch_queue_t dq, const void *key),
  REQ(dq == (dispatch_queue_t)H_DQ && H_locks == 0 && H_unlocks == 0 && H_lane.dq_specific_head == (H_has_head ? &H_head : 0))
  ASG(H_locks, H_unlocks)
  ENS(returns_the_value_set_for_the_key_on_this_queue_or_null, __CPROVER_return_value == EXPECTED)
  ENS(table_is_read_under_its_lock_and_the_lock_is_released, H_locks == H_unlocks && H_locks <= 1 && VIMPL(key && H_has_head, H_locks == 1))
)
void harness(void)
{
	VERIF_GHOST_RESET(); __verif_crash_is_bug = 1; h_setup_lane(); h_setup_target();
	H_locks = H_unlocks = 0; H_n = VERIF_CASE; H_has_head = ND_BOOL();
	TAILQ_INIT(&H_head.dqsh_entries);
	if (H_n > 0) { H_ent[0].dqs_key = H_ANY_KEY(); H_ent[0].dqs_ctxt = (void *)&H_valobj[0]; TAILQ_INSERT_TAIL(&H_head.dqsh_entries, &H_ent[0], dqs_entry); }
	if (H_n > 1) { H_ent[1].dqs_key = H_ANY_KEY(); H_ent[1].dqs_ctxt = (void *)&H_valobj[1]; TAILQ_INSERT_TAIL(&H_head.dqsh_entries, &H_ent[1], dqs_entry); }
	if (H_n > 2) { H_ent[2].dqs_key = H_ANY_KEY(); H_ent[2].dqs_ctxt = (void *)&H_valobj[2]; TAILQ_INSERT_TAIL(&H_head.dqsh_entries, &H_ent[2], dqs_entry); }
	H_lane.dq_specific_head = H_has_head ? &H_head : 0;
	const void *key = ND_BOOL() ? (const void *)0 : H_ANY_KEY();
	void *r = dispatch_queue_get_specific((dispatch_queue_t)H_DQ, key);
	VERIF_POST(dispatch_queue_get_specific, r, (dispatch_queue_t)H_DQ, key);
	VERIF_REACH(found_last, H_n == 3 && r != 0 && r == H_ent[2].dqs_ctxt && H_ent[0].dqs_key != key && H_ent[1].dqs_key != key);
	VERIF_CANARY();
}
#endif
