/*VERIF
{ "tu": "src/queue.c", "enforce": "_dispatch_lane_create_with_target", "props": ["C18", "C03", "C17"], "seq": true, "timeout": 300,
  "assumes": ["the attribute is given by its decoded form (decoding: h_attr_to_info / l_attr_roundtrip contracts)",
              "root queue lookup replaced by a stub recording (QoS, overcommit) (table: h_get_global_queue contract)"],
  "stub_note": "_dispatch_queue_attr_to_info, _dispatch_get_root_queue, _dispatch_object_alloc, _dispatch_strdup_if_mutable, _dispatch_queue_priority_inherit_from_target, _dispatch_lane_inherit_wlh_from_target, _dispatch_retain: stubs" }
VERIF*/
#ifdef VERIF_PRE
#else
#define DQ_STUB_REFS 1
#define DQ_STUB_TARGET 1
#include "contracts/common/dq_common.h"
enum { K_PRI_INHERIT = 140, K_WLH_INHERIT };
dispatch_queue_attr_info_t H_ai; struct dispatch_queue_global_s H_rootq; dispatch_qos_t H_root_qos; _Bool H_root_oc; unsigned H_root_lookups; struct dispatch_lane_s H_user_tq;
int H_tq_kind;   /* 0 none, 1 custom (non-root) target queue */
static inline dispatch_queue_attr_info_t _dispatch_queue_attr_to_info(dispatch_queue_attr_t dqa) { (void)dqa; return H_ai; }
static inline dispatch_queue_global_t _dispatch_get_root_queue(dispatch_qos_t qos, bool overcommit) { H_root_lookups++; H_root_qos = qos; H_root_oc = overcommit; return &H_rootq; }
void *_dispatch_object_alloc(const void *vtable, size_t size) { (void)size; H_lane.do_vtable = vtable; return &H_lane; }
const char *_dispatch_strdup_if_mutable(const char *str) { return str; }
static dispatch_queue_t _dispatch_queue_priority_inherit_from_target(dispatch_lane_class_t dq, dispatch_queue_t tq) { __verif_event(K_PRI_INHERIT, 0, dq._dl, (unsigned long long)(uintptr_t)tq, 0); return tq; }
static void _dispatch_lane_inherit_wlh_from_target(dispatch_lane_t dq, dispatch_queue_t tq) { __verif_event(K_WLH_INHERIT, 0, dq, (unsigned long long)(uintptr_t)tq, 0); }
static const char H_label[] = "q";
/* QoS the platform supports (no pthread work-queue QoS here): USER_INTERACTIVE -> USER_INITIATED, MAINTENANCE -> BACKGROUND */
#define CLAMPED_QOS (H_ai.dqai_qos == DISPATCH_QOS_USER_INTERACTIVE ? DISPATCH_QOS_USER_INITIATED : H_ai.dqai_qos == DISPATCH_QOS_MAINTENANCE ? DISPATCH_QOS_BACKGROUND : H_ai.dqai_qos)
#define OC_RESOLVED (H_ai.dqai_overcommit == _dispatch_queue_attr_overcommit_unspecified ? !H_ai.dqai_concurrent : H_ai.dqai_overcommit == _dispatch_queue_attr_overcommit_enabled)
#define FINAL_TQ (H_tq_kind == 1 ? (dispatch_queue_t)&H_user_tq : (dispatch_queue_t)&H_rootq)
VERIF_CONTRACT(dispatch_queue_t, _dispatch_lane_create_with_target, (const char *label, dispatch_queue_attr_t dqa, dispatch_queue_t tq, bool legacy),
  REQ(label == H_label && tq == (H_tq_kind == 1 ? (dispatch_queue_t)&H_user_tq : (dispatch_queue_t)0) && __verif_n == 0 && H_root_lookups == 0 && H_ai.dqai_qos <= DISPATCH_QOS_MAX)
  REQ(H_user_tq.do_targetq == (dispatch_queue_t)&H_rootq && VIMPL(H_tq_kind == 1, H_ai.dqai_overcommit == _dispatch_queue_attr_overcommit_unspecified))
  ASG(VERIF_GHOST, __CPROVER_object_whole(&H_lane), H_root_lookups, H_root_qos, H_root_oc, _dispatch_queue_serial_numbers)
  ENS(returns_the_new_queue_with_the_given_label, __CPROVER_return_value == (dispatch_queue_t)&H_lane && H_lane.dq_label == H_label)
  /* what the attribute denotes is what the queue is: */
  ENS(concurrency_is_what_the_attribute_says, H_lane.dq_width == (H_ai.dqai_concurrent ? DISPATCH_QUEUE_WIDTH_MAX : 1)
        && H_lane.do_vtable == (const void *)(H_ai.dqai_concurrent ? DISPATCH_VTABLE(queue_concurrent) : DISPATCH_VTABLE(queue_serial)))
  ENS(qos_is_the_attributes_class_clamped_to_the_platform_and_relative_priority_is_kept, H_ai.dqai_qos == DISPATCH_QOS_UNSPECIFIED ? (H_lane.dq_priority & (DISPATCH_PRIORITY_QOS_MASK | DISPATCH_PRIORITY_RELPRI_MASK)) == 0
        : (_dispatch_priority_qos(H_lane.dq_priority) == CLAMPED_QOS && (H_lane.dq_priority & DISPATCH_PRIORITY_RELPRI_MASK) == ((dispatch_priority_t)(H_ai.dqai_relpri - 1) & DISPATCH_PRIORITY_RELPRI_MASK)))
  ENS(initial_activity_is_what_the_attribute_says, S_INACTIVE(H_lane.dq_state) == (H_ai.dqai_inactive != 0) && S_NEEDS_ACT(H_lane.dq_state) == (H_ai.dqai_inactive != 0) && S_SUSP_CNT(H_lane.dq_state) == 0
        && !S_LOCKED(H_lane.dq_state) && !S_IN_BARRIER(H_lane.dq_state) && S_WIDTH13(H_lane.dq_state) == DISPATCH_QUEUE_WIDTH_FULL - H_lane.dq_width)
  ENS(overcommit_defaults_to_serial_yes_concurrent_no, ((H_lane.dq_priority & DISPATCH_PRIORITY_FLAG_OVERCOMMIT) != 0) == OC_RESOLVED || H_tq_kind == 1)
  /* target: the one given, else the root queue of the (clamped, defaulted) class with the resolved overcommit; retained exactly once */
  ENS(target_is_the_given_queue_or_the_root_queue_of_the_class, H_lane.do_targetq == FINAL_TQ && VIMPL(H_tq_kind == 0, H_root_lookups == 1 && H_root_qos == (CLAMPED_QOS == DISPATCH_QOS_UNSPECIFIED ? DISPATCH_QOS_DEFAULT : CLAMPED_QOS) && H_root_oc == OC_RESOLVED))
  ENS(target_is_retained_exactly_once, LOGK(LAST) == EV_RETAIN && LOGP(LAST) == (void *)FINAL_TQ && LOGA(LAST) == 1)
  /* an active queue takes its place in the hierarchy now; an inactive one when it is activated (h_lane_activate) */
  ENS(role_is_inherited_now_iff_created_active, __verif_n >= 1 && __verif_n <= 6 && (H_ai.dqai_inactive ? ((__verif_n < 2 || LOGK(LAST - 1) != K_WLH_INHERIT) && (__verif_n < 3 || LOGK(LAST - 2) != K_PRI_INHERIT))
        : (__verif_n >= 3 && LOGK(LAST - 2) == K_PRI_INHERIT && LOGK(LAST - 1) == K_WLH_INHERIT && LOGA(LAST - 1) == (unsigned long long)(uintptr_t)FINAL_TQ)))
)
void harness(void)
{
	VERIF_GHOST_RESET(); __verif_crash_is_bug = 1; uint32_t tid = ND(uint32_t); __CPROVER_assume(VALID_TID(tid)); __dispatch_tsd.tid = (pid_t)tid;
	H_root_lookups = 0; H_tq_kind = ND_BOOL() ? 1 : 0;
	H_ai.dqai_qos = ND(uint8_t); __CPROVER_assume(H_ai.dqai_qos <= DISPATCH_QOS_MAX); H_ai.dqai_relpri = ND(int8_t); __CPROVER_assume(H_ai.dqai_relpri <= 0 && H_ai.dqai_relpri >= -15);
	H_ai.dqai_overcommit = ND(uint8_t) % 3; H_ai.dqai_autorelease_frequency = ND(uint8_t) % 3; H_ai.dqai_concurrent = ND_BOOL(); H_ai.dqai_inactive = ND_BOOL();
	if (H_tq_kind == 1) H_ai.dqai_overcommit = _dispatch_queue_attr_overcommit_unspecified;
	H_user_tq.do_targetq = (dispatch_queue_t)&H_rootq; H_user_tq.do_vtable = &H_vtable; H_rootq.do_targetq = 0;
	dispatch_queue_t r = _dispatch_lane_create_with_target(H_label, (dispatch_queue_attr_t)0, H_tq_kind == 1 ? (dispatch_queue_t)&H_user_tq : (dispatch_queue_t)0, ND_BOOL());
	VERIF_POST(_dispatch_lane_create_with_target, r, H_label, (dispatch_queue_attr_t)0, H_tq_kind == 1 ? (dispatch_queue_t)&H_user_tq : (dispatch_queue_t)0, 0);
	VERIF_REACH(inactive_concurrent_queue, H_ai.dqai_inactive && H_ai.dqai_concurrent);
	VERIF_CANARY();
}
#endif
