/*VERIF
{ "tu": "src/queue.c", "enforce": "dispatch_assert_queue", "props": ["C18", "C03"], "timeout": 300,
  "unwind": 8, "unwind_fns": ["_dispatch_thread_frame_find_queue", "dispatch_assert_queue", "dispatch_assert_queue_not"],
  "bounded": {"unwind": 8, "what": "current queue with a target chain of <= 3 queues, and at most one saved thread frame (a synchronous submission from another queue whose chain has <= 2 queues)"},
  "stub_note": "_dispatch_assert_queue_fail: recorded instead of aborting" }
VERIF*/
#ifdef VERIF_PRE
#define __VERIF_RELY(p, v) 1
#else
#define DQ_STUB_TARGET 1
#include "contracts/common/dq_common.h"
struct dispatch_lane_s H_c[3], H_p[2], H_other; union dispatch_thread_frame_s H_frame;
unsigned H_depth, H_pdepth; _Bool H_has_frame, H_in_queue; unsigned H_which; _Bool H_failed, H_fail_expected;
static void _dispatch_assert_queue_fail(dispatch_queue_t dq, bool expected) { (void)dq; H_failed = 1; H_fail_expected = expected; }
#define ARG ((dispatch_queue_t)(H_which < 3 ? &H_c[H_which] : H_which < 5 ? &H_p[H_which - 3] : &H_other))
/* the queues this work item is "on": the current queue and its targets, plus -- for a synchronous submission -- the chain of the
 * submitting context saved in the thread frame */
#define ON_CHAIN (H_in_queue && ((H_which < 3 && H_which < H_depth) || (H_which >= 3 && H_which < 5 && H_has_frame && (H_which - 3) < H_pdepth)))
#define LOCKED_BY_SELF (((uint32_t)__verif_last_load & DLOCK_OWNER_MASK) == (H_SELF & DLOCK_OWNER_MASK))
VERIF_CONTRACT_VOID(dispatch_assert_queue, (dispatch_queue_t dq),
  REQ(dq == ARG && !H_failed && VALID_TID(H_SELF) && H_depth >= 1 && H_depth <= 3 && H_pdepth >= 1 && H_pdepth <= 2)
  ASG(H_failed, H_fail_expected, VERIF_GHOST)
  ENS(accepts_exactly_the_queues_of_the_chain_or_one_this_thread_owns, !H_failed == (ON_CHAIN || LOCKED_BY_SELF))
)
static inline void h_q(struct dispatch_lane_s *q, struct dispatch_lane_s *t) { q->do_vtable = &H_vtable; q->do_targetq = (dispatch_queue_t)t; }
void harness(void)
{
	h_setup_lane(); H_failed = 0;
	H_depth = ND(unsigned); H_pdepth = ND(unsigned); __CPROVER_assume(H_depth >= 1 && H_depth <= 3 && H_pdepth >= 1 && H_pdepth <= 2);
	H_in_queue = ND_BOOL(); H_has_frame = ND_BOOL(); H_which = ND(unsigned); __CPROVER_assume(H_which <= 5);
	h_q(&H_c[0], H_depth > 1 ? &H_c[1] : 0); h_q(&H_c[1], H_depth > 2 ? &H_c[2] : 0); h_q(&H_c[2], 0);
	h_q(&H_p[0], H_pdepth > 1 ? &H_p[1] : 0); h_q(&H_p[1], 0); h_q(&H_other, 0);
	/* the frame records where the submitting context was when it synchronously entered the current chain (at its root) */
	H_frame.dtf_queue = (dispatch_queue_t)&H_p[0]; H_frame.dtf_prev = 0;
	__dispatch_tsd.dispatch_queue_key = H_in_queue ? (void *)&H_c[0] : (void *)0;
	__dispatch_tsd.dispatch_frame_key = (H_in_queue && H_has_frame) ? (void *)&H_frame : (void *)0;
	dispatch_assert_queue(ARG);
	VERIF_POST_VOID(dispatch_assert_queue, ARG);
	VERIF_REACH(queue_of_the_submitting_context_accepted, H_which == 4 && ON_CHAIN);
	VERIF_CANARY();
}
#endif
