/*VERIF
{ "tu": "src/init.c", "enforce": "dispatch_queue_attr_make_initially_inactive", "replace": ["_dispatch_queue_attr_to_info", "_dispatch_queue_attr_from_info"], "props": ["C18"], "seq": true, "timeout": 200 }
VERIF*/
#ifdef VERIF_PRE
#else
#include "contracts/C18/attr_spec.h"
VERIF_CONTRACT(dispatch_queue_attr_t, dispatch_queue_attr_make_initially_inactive, (dispatch_queue_attr_t dqa),
  REQ(DIGITS_VALID && dqa == ENTRY(H_idx))
  ASG()
  /* changes exactly the inactive field: every other digit of the entry is untouched (hence order independence) */
  ENS(only_the_inactive_field_changes, __CPROVER_return_value == ENTRY(IDX_OF(H_d_oc, H_d_af, H_d_qos, H_d_prio, H_d_conc, 1)))
)
void harness(void)
{
	VERIF_GHOST_RESET(); __verif_crash_is_bug = 1;
	h_pick_entry();
	dispatch_queue_attr_t r = dispatch_queue_attr_make_initially_inactive(ENTRY(H_idx));
	VERIF_POST(dispatch_queue_attr_make_initially_inactive, r, ENTRY(H_idx));
	VERIF_CANARY();
}
#endif
