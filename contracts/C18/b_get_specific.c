/*VERIF
{ "tu": "src/queue.c", "enforce": "dispatch_get_specific", "props": ["C18", "C03"], "seq": true, "timeout": 300,
  "unwind": 5, "unwind_fns": ["dispatch_get_specific"],
  "bounded": {"unwind": 5, "what": "target-queue chains of <= 3 queues below the current queue (pointer-chasing loop)"},
  "stub_note": "_dispatch_queue_get_specific_inline replaced by its contract (b_queue_get_specific): the value the queue holds for the key, or NULL; _dispatch_queue_get_current: the harness's current queue or none" }
VERIF*/
#ifdef VERIF_PRE
#else
#include "contracts/common/dq_common.h"
struct dispatch_queue_s H_q[3]; void *H_val[3]; unsigned H_depth; _Bool H_has_current; const void *H_key; unsigned H_lookups; _Bool H_wrong_key;
static inline void *_dispatch_queue_get_specific_inline(dispatch_queue_t dq, const void *key)
{ H_lookups++; if (key != H_key) H_wrong_key = 1; return dq == &H_q[0] ? H_val[0] : dq == &H_q[1] ? H_val[1] : dq == &H_q[2] ? H_val[2] : (void *)0; }
static inline dispatch_queue_t _dispatch_queue_get_current(void) { return H_has_current ? &H_q[0] : (dispatch_queue_t)0; }
/* nearest queue of the chain (current queue first, then its targets) that has a value for the key */
#define NEAREST (!H_key || !H_has_current ? (void *)0 : H_val[0] ? H_val[0] : (H_depth > 1 && H_val[1]) ? H_val[1] : (H_depth > 2 && H_val[2]) ? H_val[2] : (void *)0)
VERIF_CONTRACT(void *, dispatch_get_specific, (const void *key),
  REQ(key == H_key && H_lookups == 0 && !H_wrong_key && H_depth >= 1 && H_depth <= 3)
  REQ(H_q[0].do_targetq == (H_depth > 1 ? &H_q[1] : 0) && H_q[1].do_targetq == (H_depth > 2 ? &H_q[2] : 0) && H_q[2].do_targetq == 0)
  ASG(H_lookups, H_wrong_key)
  ENS(returns_the_value_of_the_nearest_queue_in_the_target_chain_or_null, __CPROVER_return_value == NEAREST && !H_wrong_key)
  ENS(walk_stops_at_the_first_queue_that_has_a_value, VIMPL(H_key && H_has_current, H_lookups == (H_val[0] ? 1u : (H_depth > 1 && H_val[1]) ? 2u : (H_depth > 2 && H_val[2]) ? 3u : H_depth)))
  ENS(outside_any_queue_or_with_a_null_key_nothing_is_looked_up, VIMPL(!H_key || !H_has_current, H_lookups == 0 && __CPROVER_return_value == 0))
)
void harness(void)
{
	VERIF_GHOST_RESET(); __verif_crash_is_bug = 1;
	H_depth = ND(unsigned); __CPROVER_assume(H_depth >= 1 && H_depth <= 3); H_has_current = ND_BOOL(); H_key = (const void *)ND(uintptr_t); H_lookups = 0; H_wrong_key = 0;
	H_val[0] = (void *)ND(uintptr_t); H_val[1] = (void *)ND(uintptr_t); H_val[2] = (void *)ND(uintptr_t);
	H_q[0].do_targetq = H_depth > 1 ? &H_q[1] : 0; H_q[1].do_targetq = H_depth > 2 ? &H_q[2] : 0; H_q[2].do_targetq = 0;
	void *r = dispatch_get_specific(H_key);
	VERIF_POST(dispatch_get_specific, r, H_key);
	VERIF_REACH(found_on_the_second_target, H_depth == 3 && r != 0 && !H_val[0] && !H_val[1]);
	VERIF_CANARY();
}
#endif
