/*VERIF
{ "tu": "src/source.c", "enforce": "_dispatch_source_refs_unregister", "props": ["C16"], "nondet_volatile": true, "timeout": 200,
  "assumes": ["other threads may set or clear flags of the source at any time (interference model on dq_atomic_flags)"],
  "stub_note": "_dispatch_unote_unregister (own contract: h_unote_unregister): arbitrary verdict (a deferred unregistration is only possible with kernel queues, kept for generality); _dispatch_source_refs_finalize_unregistration (h_finalize_unregistration): recorded" }
VERIF*/
#ifdef VERIF_PRE
#else
#include "contracts/C15/source_common.h"
_Bool H_unreg_ok, H_bad; unsigned H_unregs, H_finalizes; uint32_t H_opts;
bool _dispatch_unote_unregister(dispatch_unote_t du, uint32_t flags) { if (du._dr != &H_dr || flags != H_opts || H_finalizes) H_bad = 1; H_unregs++; return H_unreg_ok; }
void _dispatch_source_refs_finalize_unregistration(dispatch_source_t ds) { if (ds != &H_ds || H_unregs != 1 || __verif_n != 0) H_bad = 1; H_finalizes++; }
VERIF_CONTRACT_VOID(_dispatch_source_refs_unregister, (dispatch_source_t ds, uint32_t options),
  REQ(ds == &H_ds && options == H_opts && H_ds.ds_refs == &H_dr && __verif_n == 0 && H_unregs == 0 && H_finalizes == 0 && !H_bad)
  ASG(VERIF_GHOST, H_ds.dq_atomic_flags, H_unregs, H_finalizes, H_bad)
  /* C16: the source is marked deleted (which is what lets the cancel handler run) ONLY after the event layer confirmed that the registration is gone */
  ENS(the_event_layer_is_asked_exactly_once_first, H_unregs == 1 && !H_bad)
  ENS(deleted_is_published_exactly_when_the_unregistration_succeeded, H_finalizes == (H_unreg_ok ? 1u : 0u) && VIMPL(H_unreg_ok, __verif_n == 0))
  /* a deferred unregistration only records that one more event is needed (once), it never touches any other flag */
  ENS(a_deferred_unregistration_only_asks_for_one_more_event, VIMPL(!H_unreg_ok, __verif_n <= 1 && VIMPL(__verif_n == 1, IS_COMMIT(0, FLAGS_P) && LOGB(0) == (LOGA(0) | DSF_NEEDS_EVENT) && !(LOGA(0) & (DSF_NEEDS_EVENT | DSF_DELETED)))))
)
void harness(void)
{
	h_setup_source(); uint32_t tid = ND(uint32_t); __CPROVER_assume(VALID_TID(tid)); __dispatch_tsd.tid = (pid_t)tid;
	H_bad = 0; H_unregs = H_finalizes = 0; H_unreg_ok = ND_BOOL(); H_opts = ND(uint32_t);
	_dispatch_source_refs_unregister(&H_ds, H_opts);
	VERIF_POST_VOID(_dispatch_source_refs_unregister, &H_ds, H_opts);
	VERIF_REACH(deferred, !H_unreg_ok && __verif_n == 1);
	VERIF_CANARY();
}
#endif
