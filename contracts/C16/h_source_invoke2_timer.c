/*VERIF
{ "tu": "src/source.c", "enforce": "_dispatch_source_invoke2", "props": ["C11", "C16", "C15"], "nondet_volatile": true, "timeout": 300, "cppflags": ["-DH_TIMER_VARIANT=1"],
  "assumes": ["as h_source_invoke2, for a TIMER source: a new configuration (dispatch_source_set_timer) may be pending; rely: the pending-configuration slot is non-NULL exactly while one is pending"],
  "stub_note": "as h_source_invoke2; _dispatch_timer_unote_configure (own contract: h_timer_unote_configure): takes the pending configuration, allowed on the manager queue only" }
VERIF*/
#include "contracts/C16/h_source_invoke2.c"
