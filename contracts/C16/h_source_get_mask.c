/*VERIF
{ "tu": "src/source.c", "enforce": "dispatch_source_get_mask", "props": ["C16"], "seq": true, "timeout": 120,
  "stub_note": "none" }
VERIF*/
#ifdef VERIF_PRE
#else
#define H_DR_TIMER_SIZED 1
#include "contracts/C15/source_common.h"
uint32_t H_flags0, H_fflags0; uint8_t H_tflags0; _Bool H_timer;
VERIF_CONTRACT(uintptr_t, dispatch_source_get_mask, (dispatch_source_t ds),
  REQ(ds == &H_ds && H_ds.dq_atomic_flags == H_flags0 && H_dru.c.du_is_timer == H_timer && H_dru.c.du_fflags == H_fflags0 && H_dru.c.du_timer_flags == H_tflags0)
  ASG()
  /* C16: once a source is cancelled its accessors report nothing (mask 0): the registration they describe is going away; before that the mask is the one the source was created with */
  ENS(a_cancelled_source_reports_no_mask_an_active_one_its_own, __CPROVER_return_value == ((H_flags0 & DSF_CANCELED) ? (uintptr_t)0 : (H_timer ? (uintptr_t)H_tflags0 : (uintptr_t)H_fflags0)))
)
void harness(void)
{
	h_setup_source(); H_flags0 = ND(uint32_t); H_ds.dq_atomic_flags = H_flags0; H_timer = ND_BOOL(); H_dru.c.du_is_timer = H_timer;
	if (H_timer) { H_tflags0 = ND(uint8_t); H_dru.c.du_timer_flags = H_tflags0; H_fflags0 = H_dru.c.du_fflags; } else { H_fflags0 = ND(uint32_t); H_dru.c.du_fflags = H_fflags0; H_tflags0 = H_dru.c.du_timer_flags; }
	uintptr_t r = dispatch_source_get_mask(&H_ds);
	VERIF_POST(dispatch_source_get_mask, r, &H_ds);
	VERIF_REACH(cancelled, (H_flags0 & DSF_CANCELED) && r == 0 && H_fflags0 != 0);
	VERIF_CANARY();
}
#endif
