/*VERIF
{ "tu": "src/source.c", "enforce": "_dispatch_source_set_handler_slow", "props": ["C16", "C15"], "seq": true, "timeout": 200,
  "assumes": ["runs as a barrier on the source (posted by _dispatch_source_set_handler through _dispatch_barrier_trysync_or_async_f: C06 h_trysync_or_async_complete), so the source is the current queue",
              "the cancelled flag may have been set by another thread at any time before (dispatch_source_cancel): the flag word holds an arbitrary value; the handler slots are only written on the source queue (sequential here)"],
  "stub_note": "_dispatch_continuation_free, Block_release, _voucher_release: recorded (which continuation is disposed of)" }
VERIF*/
#ifdef VERIF_PRE
#else
#include "contracts/C15/source_common.h"
struct dispatch_continuation_s H_new, H_old; uintptr_t H_kind; _Bool H_had_old, H_new_has_func; unsigned H_frees_new, H_frees_old, H_frees_other, H_block_releases; void *H_ctxt_ds;
static inline dispatch_queue_t _dispatch_queue_get_current(void) { return (dispatch_queue_t)&H_ds; }
static inline void _dispatch_continuation_free(dispatch_continuation_t dc) { if (dc == &H_new) H_frees_new++; else if (dc == &H_old) H_frees_old++; else H_frees_other++; }
void _Block_release(const void *b) { (void)b; H_block_releases++; }
static void h_fn(void *c) { (void)c; }
#define SLOT (H_dr.ds_handler[H_kind])
VERIF_CONTRACT_VOID(_dispatch_source_set_handler_slow, (void *context),
  REQ(H_ds.ds_refs == &H_dr && context == (void *)&H_new && H_new.dc_data == (void *)H_kind && H_kind < 3 && SLOT == (H_had_old ? &H_old : (dispatch_continuation_t)0) && __verif_n == 0)
  REQ(H_new.dc_func == (H_new_has_func ? h_fn : (dispatch_function_t)0) && H_frees_new == 0 && H_frees_old == 0 && H_frees_other == 0 && H_ds.do_ctxt == H_ctxt_ds && H_old.dc_voucher == 0 && H_new.dc_voucher == 0)
  ASG(VERIF_GHOST, __CPROVER_object_whole(&H_new), __CPROVER_object_whole(&H_old), __CPROVER_object_whole(&H_dr), H_frees_new, H_frees_old, H_frees_other, H_block_releases)
  /* C16: a handler change the source accepted is APPLIED when its turn comes, whether or not the source has been cancelled in the meantime:
   * a cancel handler set before dispatch_source_cancel() must be the one that runs (exactly once) even when the change was deferred */
  ENS(an_accepted_handler_is_installed_whatever_the_cancelled_flag_says, VIMPL(H_new_has_func, SLOT == &H_new && H_frees_new == 0))
  ENS(a_null_handler_clears_the_slot_and_frees_the_carrier, VIMPL(!H_new_has_func, SLOT == 0 && H_frees_new == 1))
  ENS(the_replaced_handler_is_disposed_of_exactly_once, H_frees_old == (H_had_old ? 1u : 0u) && H_frees_other == 0)
  ENS(installation_is_one_release_exchange_of_that_slot, __verif_n >= 1 && __verif_n <= 12 && IS_COMMIT(LAST, &SLOT) && VMO_IS_REL(LOGM(LAST)))
  ENS(context_is_fetched_from_the_source_when_asked, VIMPL(H_new_has_func && (H_new.dc_flags & DC_FLAG_FETCH_CONTEXT), H_new.dc_ctxt == H_ctxt_ds))
)
void harness(void)
{
	h_setup_source();
	H_kind = ND(uintptr_t); __CPROVER_assume(H_kind < 3); H_had_old = ND_BOOL(); H_new_has_func = ND_BOOL();
	H_dr.ds_handler[H_kind] = H_had_old ? &H_old : (dispatch_continuation_t)0; H_old.dc_flags = ND(uintptr_t) & 0x1ff; H_old.dc_voucher = 0; H_old.dc_func = h_fn;
	H_new.dc_data = (void *)H_kind; H_new.dc_func = H_new_has_func ? h_fn : (dispatch_function_t)0; H_new.dc_flags = ND(uintptr_t) & 0x1ff; H_new.dc_voucher = 0;
	H_ctxt_ds = (void *)&H_type; H_ds.do_ctxt = H_ctxt_ds; H_ds.dq_atomic_flags = ND(uint32_t);
	H_frees_new = H_frees_old = H_frees_other = 0; H_block_releases = 0;
	_dispatch_source_set_handler_slow(&H_new);
	VERIF_POST_VOID(_dispatch_source_set_handler_slow, &H_new);
	VERIF_REACH(cancelled_meanwhile, (H_ds.dq_atomic_flags & DSF_CANCELED) && SLOT == &H_new);
	VERIF_CANARY();
}
#endif
