/*VERIF
{ "tu": "src/source.c", "enforce": "_dispatch_source_invoke2", "props": ["C16","C15"], "nondet_volatile": true, "timeout": 300,
  "assumes": ["scenario: the flags word, the unote state and the pending word change only through this invocation's own call-outs (handlers that cancel, unregistration that completes, latch that consumes) -- pinned by rely clauses to ghost values the stubs update; cancellation racing from another thread is the 'at most one already committed invocation' clause and is not decided here",
              "non-timer source, nothing queued on the source's own lane"],
  "stub_note": "registration callout, latch_and_call, cancel callout, refs_unregister, unote_resume, install: stubs that record order and may cancel the source (client code) or complete the deletion" }
VERIF*/
#ifdef VERIF_PRE
extern const volatile void *H_flags_p, *H_state_p, *H_pending_p; extern unsigned long long H_flags_now, H_du_state, H_pending_now; extern unsigned long long H_handlers_base; extern _Bool H_have_handlers; extern const volatile void *H_cfg_p; extern _Bool H_cfg_pending;
#define __VERIF_RELY(p, v) (((const volatile void *)(p) != H_flags_p || (unsigned long long)(v) == H_flags_now) && \
	((const volatile void *)(p) != H_state_p || (unsigned long long)(v) == H_du_state) && \
	((const volatile void *)(p) != H_pending_p || (unsigned long long)(v) == H_pending_now) && \
	((const volatile void *)(p) != H_cfg_p || (((unsigned long long)(v)) != 0) == H_cfg_pending) && \
	(((unsigned long long)(p) - H_handlers_base) >= 24 || (((unsigned long long)(v) != 0) == H_have_handlers)))
#else
#ifdef H_TIMER_VARIANT
#define H_DR_TIMER_SIZED 1
#endif
#include "contracts/C15/source_common.h"
const volatile void *H_cfg_p; _Bool H_cfg_pending, H_cfg_pending0, H_bad_cfg; unsigned H_configures;
const volatile void *H_flags_p, *H_state_p, *H_pending_p; unsigned long long H_flags_now, H_du_state, H_pending_now;
struct dispatch_lane_s H_tq, H_other; dispatch_queue_t H_cur; unsigned long long H_handlers_base; _Bool H_have_handlers; /* all three handler slots set / all clear */
unsigned H_latches, H_cancel_callouts, H_resumes, H_unregisters, H_reg_callouts; _Bool H_bad_latch, H_bad_cancel, H_bad_resume, H_bad_unreg, H_event_after_cancel_callout;
#ifdef H_TIMER_VARIANT
#define H_IS_TIMER_REQ (H_dru.c.du_is_timer && H_cfg_p == &H_dru.t.dt_pending_config)
#else
#define H_IS_TIMER_REQ (!H_dr.du_is_timer)
#endif
#define CANCELED_NOW ((H_flags_now & (DSF_CANCELED | DQF_RELEASED)) != 0)
static inline dispatch_queue_t _dispatch_queue_get_current(void) { return H_cur; }
static inline dispatch_wlh_t _dispatch_get_event_wlh(void) { return DISPATCH_WLH_ANON; }
static void _dispatch_source_handle_wlh_change(dispatch_source_t ds) { (void)ds; }
static inline bool _dispatch_queue_class_probe(dispatch_lane_class_t dqu) { (void)dqu; return false; }
static void _dispatch_source_install(dispatch_source_t ds, dispatch_wlh_t wlh, dispatch_priority_t pri) { (void)wlh; (void)pri; ds->ds_is_installed = true; }
static inline dispatch_priority_t _dispatch_get_basepri(void) { return 0; }
/* client code runs here: it may cancel the source */
static void _dispatch_source_registration_callout(dispatch_source_t ds, dispatch_queue_t cq, dispatch_invoke_flags_t flags)
{ (void)ds; (void)flags; H_reg_callouts++; if (cq != (dispatch_queue_t)&H_tq) H_bad_latch = 1; if (ND_BOOL()) H_flags_now |= DSF_CANCELED; }
static void _dispatch_source_latch_and_call(dispatch_source_t ds, dispatch_queue_t cq, dispatch_invoke_flags_t flags)
{ (void)ds; (void)flags; H_latches++;
  /* the event handler may be invoked only on the target queue, with data pending, and NOT once the source is cancelled */
  if (cq != (dispatch_queue_t)&H_tq || CANCELED_NOW || H_pending_now == 0) H_bad_latch = 1;
  /* C11: nothing is delivered under the OLD settings while a new timer configuration is waiting to be applied */
  if (H_cfg_pending) H_bad_latch = 1;
  if (H_cancel_callouts) H_event_after_cancel_callout = 1;
  H_pending_now = ND_BOOL() ? 0 : ND(unsigned long long); if (ND_BOOL()) H_flags_now |= DSF_CANCELED; }
static void _dispatch_source_cancel_callout(dispatch_source_t ds, dispatch_queue_t cq, dispatch_invoke_flags_t flags)
{ (void)ds; (void)flags; H_cancel_callouts++;
  /* the cancel handler: only on the target queue, only once cancelled AND the registration is gone */
  if ((cq != (dispatch_queue_t)&H_tq && H_have_handlers) || !CANCELED_NOW || !(H_flags_now & DSF_DELETED)) H_bad_cancel = 1; }
static void _dispatch_source_refs_unregister(dispatch_source_t ds, uint32_t options)
{ (void)ds; (void)options; H_unregisters++; if (H_flags_now & DSF_DELETED) H_bad_unreg = 1; if (ND_BOOL()) { H_flags_now |= DSF_DELETED; H_du_state = 0; } }
void _dispatch_unote_resume(dispatch_unote_t du) { (void)du; H_resumes++; if (CANCELED_NOW || H_cur != (dispatch_queue_t)&_dispatch_mgr_q) H_bad_resume = 1; }
void _dispatch_event_loop_drain(uint32_t flags) { (void)flags; }
static inline bool _dispatch_wlh_should_poll_unote(dispatch_unote_t du) { (void)du; return ND_BOOL(); }
/* applying a pending configuration happens on the manager queue only (it re-sorts the timer heaps), takes the configuration and drops the fires counted under the old one */
void _dispatch_timer_unote_configure(dispatch_timer_source_refs_t dt) { (void)dt; H_configures++; if (H_cur != (dispatch_queue_t)&_dispatch_mgr_q || !H_cfg_pending) H_bad_cfg = 1; H_cfg_pending = 0; H_pending_now = 0; }
VERIF_CONTRACT(dispatch_queue_wakeup_target_t, _dispatch_source_invoke2, (dispatch_source_t ds, dispatch_invoke_context_t dic, dispatch_invoke_flags_t flags, uint64_t *owned),
  REQ(ds == &H_ds && ds->ds_refs == &H_dr && ds->do_targetq == (dispatch_queue_t)&H_tq && H_IS_TIMER_REQ && !H_dr.du_is_direct && H_configures == 0 && !H_bad_cfg && H_cfg_pending == H_cfg_pending0)
  REQ(H_flags_p == &H_ds.dq_atomic_flags && H_state_p == &H_dr.du_state && H_pending_p == &H_dr.ds_pending_data)
  REQ(H_handlers_base == (unsigned long long)&H_dr.ds_handler[0] && VIMPL(H_flags_now & DSF_DELETED, H_du_state == 0))
  REQ(H_latches == 0 && H_cancel_callouts == 0 && H_resumes == 0 && H_unregisters == 0 && !H_bad_latch && !H_bad_cancel && !H_bad_resume && !H_bad_unreg && !H_event_after_cancel_callout)
  ASG(H_ds.ds_is_installed, H_flags_now, H_du_state, H_pending_now, H_latches, H_cancel_callouts, H_resumes, H_unregisters, H_reg_callouts, H_bad_latch, H_bad_cancel, H_bad_resume, H_bad_unreg, H_event_after_cancel_callout, H_cfg_pending, H_bad_cfg, H_configures, VERIF_GHOST)
  /* once dispatch_source_cancel has been called from the source's own handlers / target queue, the event handler is not invoked again */
  ENS(event_handler_never_invoked_once_cancelled, !H_bad_latch && H_latches <= 1)
  /* the cancel handler runs at most once per invocation, on the target queue, after cancellation AND after unregistration completed */
  ENS(cancel_handler_only_after_cancel_and_unregistration_on_target_queue, !H_bad_cancel && H_cancel_callouts <= 1)
  /* C11 "a timer whose settings are replaced follows only the new settings": a pending configuration is applied on the manager queue before anything else is
   * delivered; a drain on any other queue hands the source to the manager first */
  ENS(a_pending_timer_configuration_is_applied_on_the_manager_before_any_delivery, !H_bad_cfg && H_configures <= 1 && !H_bad_latch)
  ENS(no_event_handler_after_the_cancel_handler, !H_event_after_cancel_callout)
  ENS(never_rearmed_once_cancelled, !H_bad_resume)
  ENS(unregistration_not_repeated_once_deleted, !H_bad_unreg)
  /* cancelled but the registration is still there: the source is sent to the manager queue or waits for the delete event -- it is not dropped */
  ENS(cancelled_source_with_live_registration_is_redriven, VIMPL(CANCELED_NOW && !(H_flags_now & DSF_DELETED) && H_unregisters == 0 && H_ds.ds_is_installed && H_latches == 0,
        __CPROVER_return_value != DISPATCH_QUEUE_WAKEUP_NONE))
)
void harness(void)
{
	h_setup_source();
	H_flags_p = &H_ds.dq_atomic_flags; H_state_p = &H_dr.du_state; H_pending_p = &H_dr.ds_pending_data;
	H_handlers_base = (unsigned long long)&H_dr.ds_handler[0]; H_have_handlers = ND_BOOL();
	H_flags_now = ND(uint32_t); H_du_state = ND(unsigned long long); H_pending_now = ND(unsigned long long);
	if (H_flags_now & DSF_DELETED) H_du_state = 0;
	H_ds.do_targetq = (dispatch_queue_t)&H_tq; H_dr.du_is_direct = 0; H_ds.ds_is_installed = ND_BOOL(); H_configures = 0; H_bad_cfg = 0;
#ifdef H_TIMER_VARIANT
	H_dru.c.du_is_timer = 1; H_dru.c.du_is_direct = 0; H_cfg_p = &H_dru.t.dt_pending_config; H_cfg_pending0 = ND_BOOL(); H_cfg_pending = H_cfg_pending0; H_dru.t.du_timer_flags = ND(uint8_t);
#else
	H_dr.du_is_timer = 0; H_cfg_p = 0; H_cfg_pending0 = 0; H_cfg_pending = 0;
#endif
	H_tq.do_targetq = ND_BOOL() ? (dispatch_queue_t)&H_other : 0; H_tq.dq_priority = ND(dispatch_priority_t);
	switch (ND(unsigned) % 3) { case 0: H_cur = (dispatch_queue_t)&H_tq; break; case 1: H_cur = (dispatch_queue_t)&_dispatch_mgr_q; break; default: H_cur = (dispatch_queue_t)&H_other; }
	H_latches = H_cancel_callouts = H_resumes = H_unregisters = H_reg_callouts = 0; H_bad_latch = H_bad_cancel = H_bad_resume = H_bad_unreg = H_event_after_cancel_callout = 0;
	dispatch_invoke_flags_t flags = ND(dispatch_invoke_flags_t); uint64_t owned = 0;
	dispatch_queue_wakeup_target_t r = _dispatch_source_invoke2(&H_ds, 0, flags, &owned);
	VERIF_POST(_dispatch_source_invoke2, r, &H_ds, 0, flags, &owned);
	VERIF_REACH(latched, H_latches == 1);
	VERIF_REACH(cancel_handler_ran, H_cancel_callouts == 1);
	VERIF_REACH(registration_handler_cancelled_with_data_pending, H_reg_callouts == 1 && CANCELED_NOW && H_latches == 0 && H_pending_now != 0);
	VERIF_CANARY();
}
#endif
