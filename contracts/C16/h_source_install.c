/*VERIF
{ "tu": "src/source.c", "enforce": "_dispatch_source_install", "props": ["C16", "C15"], "seq": true, "timeout": 120,
  "stub_note": "_dispatch_unote_register (own contract: h_unote_register): arbitrary verdict; _dispatch_source_refs_finalize_unregistration: recorded" }
VERIF*/
#ifdef VERIF_PRE
#else
#include "contracts/C15/source_common.h"
_Bool H_reg_ok, H_bad; unsigned H_regs, H_finalizes; dispatch_priority_t H_pri;
bool _dispatch_unote_register(dispatch_unote_t du, dispatch_wlh_t wlh, dispatch_priority_t pri) { if (du._dr != &H_dr || wlh != DISPATCH_WLH_ANON || pri != H_pri || !H_ds.ds_is_installed || H_finalizes) H_bad = 1; H_regs++; return H_reg_ok; }
void _dispatch_source_refs_finalize_unregistration(dispatch_source_t ds) { if (ds != &H_ds || H_regs != 1) H_bad = 1; H_finalizes++; }
VERIF_CONTRACT_VOID(_dispatch_source_install, (dispatch_source_t ds, dispatch_wlh_t wlh, dispatch_priority_t pri),
  REQ(ds == &H_ds && wlh == DISPATCH_WLH_ANON && pri == H_pri && H_ds.ds_refs == &H_dr && !H_ds.ds_is_installed && H_regs == 0 && H_finalizes == 0 && !H_bad)
  ASG(__CPROVER_object_whole(&H_ds), H_regs, H_finalizes, H_bad)
  /* a source is registered with the event layer exactly once in its life, and marked installed BEFORE that (so that nothing registers it a second time);
   * a registration the kernel refused takes the source straight to the deleted state - its cancel handler still runs once */
  ENS(registered_exactly_once_after_being_marked_installed, H_regs == 1 && H_ds.ds_is_installed && !H_bad)
  ENS(a_refused_registration_goes_straight_to_deleted, H_finalizes == (H_reg_ok ? 0u : 1u))
)
void harness(void)
{
	h_setup_source(); H_bad = 0; H_regs = H_finalizes = 0; H_reg_ok = ND_BOOL(); H_pri = ND(dispatch_priority_t); H_ds.ds_is_installed = 0;
	_dispatch_source_install(&H_ds, DISPATCH_WLH_ANON, H_pri);
	VERIF_POST_VOID(_dispatch_source_install, &H_ds, DISPATCH_WLH_ANON, H_pri);
	VERIF_CANARY();
}
#endif
