/*VERIF
{ "tu": "src/event/event_epoll.c", "enforce": "_dispatch_unote_unregister_muxed", "props": ["C16", "C17"], "seq": true, "timeout": 300,
  "assumes": ["runs on the manager thread (the only thread touching the muxnote tables)",
              "list shapes: the unote is on the readers or the writers list of its muxnote, alone or next to one other unote (before or after it); the other direction's list is empty or holds one unote; the muxnote is the only one of its hash bucket",
              "invariant of the epoll layer (established by register_muxed / rearm): the event set registered with the kernel for the descriptor equals the muxnote's armed events"],
  "stub_note": "epoll_ctl (kernel: records the operation and keeps a ghost copy of the registered event set), dispatch_once_f (epoll set-up), free / close: recorded" }
VERIF*/
#ifdef VERIF_PRE
#else
#include "contracts/common/dq_common.h"
struct h_unote { struct dispatch_unote_linkage_s link; struct dispatch_source_refs_s du; } H_u, H_nb, H_oth;
struct dispatch_muxnote_s H_dmn; struct dispatch_muxnote_bucket_s H_bucket;
_Bool H_is_writer, H_has_nb, H_nb_first, H_has_oth, H_bad; unsigned H_dels, H_mods, H_adds, H_frees, H_closes; uint32_t H_kernel_events, H_events0; uint16_t H_disarmed0; _Bool H_kernel_registered;
int epoll_ctl(int epfd, int op, int fd, struct epoll_event *ev)
{	if (epfd != _dispatch_epfd || fd != H_dmn.dmn_fd) H_bad = 1;
	if (op == EPOLL_CTL_DEL) { H_dels++; H_kernel_registered = 0; }
	else if (op == EPOLL_CTL_MOD) { H_mods++; if (!ev || ev->data.ptr != (void *)&H_dmn) H_bad = 1; else H_kernel_events = ev->events; }
	else H_adds++;
	return 0; }
void dispatch_once_f(dispatch_once_t *val, void *ctxt, dispatch_function_t func) { (void)val; (void)ctxt; (void)func; }
void free(void *p) { if (p != (void *)&H_dmn) H_bad = 1; H_frees++; }
int close(int fd) { (void)fd; H_closes++; return 0; }
#define MYHEAD (H_is_writer ? &H_dmn.dmn_writers_head : &H_dmn.dmn_readers_head)
#define OTHHEAD (H_is_writer ? &H_dmn.dmn_readers_head : &H_dmn.dmn_writers_head)
#define MYBIT (H_is_writer ? (uint32_t)EPOLLOUT : (uint32_t)EPOLLIN)
#define OTHBIT (H_is_writer ? (uint32_t)EPOLLIN : (uint32_t)EPOLLOUT)
#define ARMED_NOW (H_dmn.dmn_events & ~(uint32_t)H_dmn.dmn_disarmed_events)
#define LAST_USER (!H_has_nb && !H_has_oth)
VERIF_CONTRACT(bool, _dispatch_unote_unregister_muxed, (dispatch_unote_t du),
  REQ(du._dr == &H_u.du && !H_u.du.du_is_direct && H_u.link.du_muxnote == &H_dmn && !H_bad && H_dels == 0 && H_mods == 0 && H_adds == 0 && H_frees == 0 && H_kernel_registered)
  REQ(H_dmn.dmn_events == H_events0 && H_dmn.dmn_disarmed_events == H_disarmed0 && H_kernel_events == (H_events0 & ~(uint32_t)H_disarmed0) && (H_events0 & MYBIT) && (!H_has_oth || (H_events0 & OTHBIT)))
  REQ(H_dmn.dmn_list.le_prev == &H_bucket.lh_first && H_bucket.lh_first == &H_dmn && H_dmn.dmn_list.le_next == 0)
  REQ(OTHHEAD->lh_first == (H_has_oth ? &H_oth.link : 0))
  REQ(MYHEAD->lh_first == ((H_has_nb && H_nb_first) ? &H_nb.link : &H_u.link))
  REQ(H_u.link.du_link.le_prev == ((H_has_nb && H_nb_first) ? &H_nb.link.du_link.le_next : &MYHEAD->lh_first) && H_u.link.du_link.le_next == ((H_has_nb && !H_nb_first) ? &H_nb.link : 0))
  REQ(!H_has_nb || (H_nb_first ? (H_nb.link.du_link.le_prev == &MYHEAD->lh_first && H_nb.link.du_link.le_next == &H_u.link) : (H_nb.link.du_link.le_prev == &H_u.link.du_link.le_next && H_nb.link.du_link.le_next == 0)))
  ASG(VERIF_GHOST, __CPROVER_object_whole(&H_u), __CPROVER_object_whole(&H_nb), __CPROVER_object_whole(&H_dmn), __CPROVER_object_whole(&H_bucket), H_bad, H_dels, H_mods, H_adds, H_frees, H_closes, H_kernel_events, H_kernel_registered)
  ENS(the_unote_is_unlinked_and_marked_unregistered, __CPROVER_return_value && H_u.link.du_muxnote == 0 && H_u.du.du_state == DU_STATE_UNREGISTERED && !H_bad)
  ENS(its_list_keeps_exactly_the_other_unote, LAST_USER || (MYHEAD->lh_first == (H_has_nb ? &H_nb.link : 0) && (!H_has_nb || (H_nb.link.du_link.le_prev == &MYHEAD->lh_first && H_nb.link.du_link.le_next == 0))))
  /* C16: once the last unote of a descriptor is gone the library stops monitoring it: exactly one EPOLL_CTL_DEL, the muxnote leaves its table and is freed once */
  ENS(the_last_user_removes_the_descriptor_from_the_kernel_set_exactly_once, VIMPL(LAST_USER, H_dels == 1 && H_mods == 0 && H_frees == 1 && H_bucket.lh_first == 0 && !H_kernel_registered))
  /* ... and not before: while another reader or writer is registered the descriptor stays monitored, for exactly the directions still in use */
  ENS(the_descriptor_stays_registered_while_others_use_it, VIMPL(!LAST_USER, H_dels == 0 && H_frees == 0 && H_closes == 0 && H_bucket.lh_first == &H_dmn && H_kernel_registered && H_mods <= 1 && H_adds == 0))
  ENS(a_direction_nobody_uses_any_more_is_dropped_and_the_others_are_kept, VIMPL(!LAST_USER, (H_has_nb || !(H_dmn.dmn_events & MYBIT)) && (!H_has_nb || (H_dmn.dmn_events & MYBIT)) && (!H_has_oth || (H_dmn.dmn_events & OTHBIT))))
  ENS(the_kernel_set_still_equals_the_armed_events, VIMPL(!LAST_USER, H_kernel_events == ARMED_NOW))
)
void harness(void)
{
	VERIF_GHOST_RESET(); H_bad = 0; H_dels = H_mods = H_adds = H_frees = H_closes = 0; H_kernel_registered = 1;
	H_is_writer = ND_BOOL(); H_has_nb = ND_BOOL(); H_nb_first = ND_BOOL(); H_has_oth = ND_BOOL();
	H_events0 = ND(uint32_t); H_disarmed0 = ND(uint16_t); __CPROVER_assume((H_events0 & MYBIT) && (!H_has_oth || (H_events0 & OTHBIT)));
	H_dmn.dmn_events = H_events0; H_dmn.dmn_disarmed_events = H_disarmed0; H_kernel_events = H_events0 & ~(uint32_t)H_disarmed0; H_dmn.dmn_fd = ND(int); H_dmn.dmn_ident = (uint32_t)H_dmn.dmn_fd; H_dmn.dmn_filter = EVFILT_READ;
	H_bucket.lh_first = &H_dmn; H_dmn.dmn_list.le_prev = &H_bucket.lh_first; H_dmn.dmn_list.le_next = 0;
	H_dmn.dmn_readers_head.lh_first = 0; H_dmn.dmn_writers_head.lh_first = 0;
	OTHHEAD->lh_first = H_has_oth ? &H_oth.link : 0; H_oth.link.du_link.le_prev = &OTHHEAD->lh_first; H_oth.link.du_link.le_next = 0; H_oth.link.du_muxnote = &H_dmn;
	if (H_has_nb && H_nb_first) { MYHEAD->lh_first = &H_nb.link; H_nb.link.du_link.le_prev = &MYHEAD->lh_first; H_nb.link.du_link.le_next = &H_u.link; H_u.link.du_link.le_prev = &H_nb.link.du_link.le_next; H_u.link.du_link.le_next = 0; }
	else { MYHEAD->lh_first = &H_u.link; H_u.link.du_link.le_prev = &MYHEAD->lh_first; H_u.link.du_link.le_next = H_has_nb ? &H_nb.link : 0; if (H_has_nb) { H_nb.link.du_link.le_prev = &H_u.link.du_link.le_next; H_nb.link.du_link.le_next = 0; } }
	H_nb.link.du_muxnote = &H_dmn; H_u.link.du_muxnote = &H_dmn; H_u.du.du_is_direct = 0; H_u.du.du_state = DU_STATE_ARMED;
	bool r = _dispatch_unote_unregister_muxed((dispatch_unote_t){ ._dr = &H_u.du });
	VERIF_POST(_dispatch_unote_unregister_muxed, r, (dispatch_unote_t){ ._dr = &H_u.du });
	VERIF_REACH(last_user, LAST_USER && H_dels == 1);
	VERIF_REACH(direction_dropped_with_mod, !LAST_USER && H_mods == 1);
	VERIF_CANARY();
}
#endif
