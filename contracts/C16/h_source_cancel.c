/*VERIF
{ "tu": "src/source.c", "enforce": "dispatch_source_cancel", "props": ["C16","C17"], "nondet_volatile": true, "timeout": 120,
  "stub_note": "dx_wakeup, retain/release: logged" }
VERIF*/
#ifdef VERIF_PRE
#else
#include "contracts/C15/source_common.h"
VERIF_CONTRACT_VOID(dispatch_source_cancel, (dispatch_source_t ds),
  REQ(ds == &H_ds && __verif_n == 0)
  ASG(H_ds.dq_atomic_flags, VERIF_GHOST)
  ENS(three_steps, __verif_n == 3 && LOGK(0) == EV_RETAIN && LOGA(0) == 2 && IS_COMMIT(1, FLAGS_P))
  /* the flag is set once, atomically, and never cleared */
  ENS(sets_the_cancel_flag_atomically, LOGB(1) == (LOGA(1) | DSF_CANCELED))
  /* the first cancel wakes the source so that its invoke performs the cancellation: MAKE_DIRTY makes a concurrent drainer look again */
  ENS(first_cancel_wakes_the_source_dirty, VIMPL(!(LOGA(1) & DSF_CANCELED), LOGK(2) == EV_WAKEUP && LOGP(2) == (void *)ds &&
        LOGA(2) == (DISPATCH_WAKEUP_MAKE_DIRTY | DISPATCH_WAKEUP_CONSUME_2)))
  ENS(second_cancel_only_drops_its_reference, VIMPL(LOGA(1) & DSF_CANCELED, LOGK(2) == EV_RELEASE && LOGA(2) == 2))
)
void harness(void)
{
	h_setup_source();
	dispatch_source_cancel(&H_ds);
	VERIF_POST_VOID(dispatch_source_cancel, &H_ds);
	VERIF_CANARY();
}
#endif
