/*VERIF
{ "tu": "src/source.c", "enforce": "_dispatch_source_xref_dispose", "props": ["C16", "C17"], "seq": true, "timeout": 120,
  "assumes": ["flags word and cancel-handler slot are read as stored (the last application reference is going away: no other thread of the application can still call into the source)"],
  "stub_note": "dx_wakeup through the source vtable: logged; DISPATCH_CLIENT_CRASH is a trap (paths into it end there)" }
VERIF*/
#ifdef VERIF_PRE
#else
#include "contracts/C15/source_common.h"
uint32_t H_flags0; _Bool H_has_cancel_handler;
VERIF_CONTRACT_VOID(_dispatch_source_xref_dispose, (dispatch_source_t ds),
  REQ(ds == &H_ds && __verif_n == 0 && H_ds.dq_atomic_flags == H_flags0 && H_dr.ds_handler[DS_CANCEL_HANDLER] == (H_has_cancel_handler ? &H_handler : 0))
  ASG(VERIF_GHOST)
  /* C16 / C17: releasing the last application reference of a source wakes it exactly once with MAKE_DIRTY: the invoke that follows sees "released" and tears the
   * kernel registration down (an un-cancelled source still converges to the deleted state); nothing else is touched */
  ENS(the_source_is_woken_dirty_exactly_once_so_that_it_tears_itself_down, __verif_n == 1 && LOGK(0) == EV_WAKEUP && LOGP(0) == (void *)&H_ds && LOGA(0) == DISPATCH_WAKEUP_MAKE_DIRTY)
  /* a STRICT source with a mandatory cancel handler must have been cancelled first: releasing it un-cancelled is the documented crash, never a silent teardown
   * that skips the handler's resource hand-back */
  ENS(a_strict_source_with_a_cancel_handler_survives_only_if_cancelled, !((H_flags0 & DSF_STRICT) && !(H_flags0 & DSF_CANCELED) && H_has_cancel_handler))
)
void harness(void)
{
	h_setup_source();
	H_flags0 = ND(uint32_t); H_ds.dq_atomic_flags = H_flags0; H_has_cancel_handler = ND_BOOL(); H_dr.ds_handler[DS_CANCEL_HANDLER] = H_has_cancel_handler ? &H_handler : 0;
	_dispatch_source_xref_dispose(&H_ds);
	VERIF_POST_VOID(_dispatch_source_xref_dispose, &H_ds);
	VERIF_REACH(strict_cancelled, (H_flags0 & DSF_STRICT) && H_has_cancel_handler);
	VERIF_CANARY();
}
#endif
