/*VERIF
{ "tu": "src/source.c", "enforce": "dispatch_source_cancel_and_wait", "props": ["C16"], "nondet_volatile": true, "timeout": 400, "log_cap": 20,
  "assumes": ["rely: flags of the source only gain bits (CANCELED, DELETED, CANCEL_WAITER ... are never cleared while the caller holds its reference)",
              "final wait loop closed by a loop contract (no termination claim: waiting is liveness)"],
  "stub_note": "dx_wakeup (vtable), dispatch_activate, _dispatch_source_refs_unregister, _dispatch_source_cancel_callout, _dispatch_wait_on_address: logged" }
VERIF*/
#ifdef VERIF_PRE
#else
#include "contracts/C15/source_common.h"
enum { K_ACTIVATE = 160, K_UNREGISTER, K_CANCEL_CALLOUT };
void dispatch_activate(dispatch_object_t dou) { __verif_event(K_ACTIVATE, 0, dou._do, 0, 0); }
void _dispatch_source_refs_unregister(dispatch_source_t ds, uint32_t options) { __verif_event(K_UNREGISTER, 0, ds, options, 0); }
static void _dispatch_source_cancel_callout(dispatch_source_t ds, dispatch_queue_t cq, dispatch_invoke_flags_t flags) { (void)cq; (void)flags; __verif_event(K_CANCEL_CALLOUT, 0, ds, 0, 0); }
int _dispatch_wait_on_address(uint32_t volatile *address, uint32_t value, dispatch_time_t timeout, dispatch_lock_options_t flags)
{ (void)timeout; (void)flags; __verif_event(EV_KWAIT, 0, (void *)address, value, 0); return 0; }
#define STATE_P ((const volatile void *)&H_ds.dq_state)
/* first event: the flags update that publishes the cancellation (or nothing if a waiter is already registered) */
#define F_O LOGA(0)
#define F_N LOGB(0)
#define HAS_FLAG_COMMIT (__verif_n >= 1 && IS_COMMIT(0, FLAGS_P))
#define WAITER_PATH (HAS_FLAG_COMMIT && (F_N & DSF_CANCEL_WAITER) && !(F_O & DSF_DELETED))
VERIF_LOOP_CONTRACT(dispatch_source_cancel_and_wait, 2,
	__CPROVER_assigns(dqf, ds->dq_atomic_flags, VERIF_GHOST)
	__CPROVER_loop_invariant((unsigned long long)dqf == (unsigned long long)(uint32_t)__verif_last_load && __verif_last_load_p == (const volatile void *)&ds->dq_atomic_flags && __verif_n >= __CPROVER_loop_entry(__verif_n) && (__CPROVER_loop_entry(__verif_n) < 1 || __VLE(0)) && (__CPROVER_loop_entry(__verif_n) < 2 || __VLE(1)) && (__CPROVER_loop_entry(__verif_n) < 3 || __VLE(2))))
VERIF_CONTRACT_VOID(dispatch_source_cancel_and_wait, (dispatch_source_t ds),
  REQ(ds == &H_ds && __verif_n == 0 && H_dr.ds_handler[DS_CANCEL_HANDLER] == 0 && VALID_TID(H_SELF))
  ASG(VERIF_GHOST, H_ds.dq_atomic_flags, H_ds.dq_state)
  ENS(cancellation_is_published_by_one_atomic_flag_update, VIMPL(HAS_FLAG_COMMIT, (F_N & DSF_CANCELED) && ((F_N ^ F_O) & ~(uint64_t)(DSF_CANCELED | DSF_CANCEL_WAITER)) == 0))
  /* a source that has to be torn down by its own queue / the manager (timer, non-direct, or an event still needed): the caller
   * registers as waiter, WAKES the source and ACTIVATES it -- an inactive source would otherwise never run the cancellation -- and
   * only then waits */
  ENS(waiter_wakes_and_activates_the_source_before_waiting, VIMPL(WAITER_PATH && !__verif_crashed,
        __verif_n >= 3 && LOGK(1) == EV_WAKEUP && LOGP(1) == (void *)&H_ds && (LOGA(1) & DISPATCH_WAKEUP_MAKE_DIRTY) && LOGK(2) == K_ACTIVATE && LOGP(2) == (void *)&H_ds))
  /* it returns only after it has itself observed the DELETED flag (handlers and kernel registration are gone) */
  /* it returns only after it has itself observed the DELETED flag (handlers and kernel registration are gone); the one exception is a
   * source that was never activated: activation itself takes it to the deleted state without ever registering it (h_source_activate) */
  ENS(returns_only_after_observing_the_source_deleted, VIMPL(!__verif_crashed,
        (HAS_FLAG_COMMIT && (F_O & DSF_DELETED)) || (__verif_last_load_p == FLAGS_P && (__verif_last_load & DSF_DELETED))
        || (__verif_n == 1 && LOGK(0) == K_ACTIVATE) || (__verif_n == 2 && LOGK(1) == K_ACTIVATE) || (__verif_n == 3 && LOGK(2) == K_ACTIVATE && !WAITER_PATH)))
)
void harness(void)
{
	h_setup_source(); uint32_t tid = ND(uint32_t); __CPROVER_assume(VALID_TID(tid)); __dispatch_tsd.tid = (pid_t)tid;
	H_dr.ds_handler[DS_CANCEL_HANDLER] = 0; H_dr.du_is_timer = ND_BOOL(); H_dr.du_is_direct = ND_BOOL();
	dispatch_source_cancel_and_wait(&H_ds);
	VERIF_POST_VOID(dispatch_source_cancel_and_wait, &H_ds);
	VERIF_REACH(waiter_path, WAITER_PATH);
	VERIF_CANARY();
}
#endif
