/*VERIF
{ "tu": "src/source.c", "enforce": "_dispatch_source_activate", "props": ["C16", "C04"], "seq": true, "timeout": 300,
  "assumes": ["activation is serialised with every other operation on the source by the suspend/activate protocol (C06): handler slots and flags are read as stored"],
  "stub_note": "_dispatch_source_refs_finalize_unregistration (own contract: h_finalize_unregistration), _dispatch_lane_activate (h_lane_activate), _dispatch_queue_compute_priority_and_wlh, _dispatch_source_install: logged; the event handler slot holds the harness continuation or nothing" }
VERIF*/
#ifdef VERIF_PRE
#ifdef H_RACING_CANCEL
/* variant h_source_activate_racing_cancel: dispatch_source_cancel (and any other flag setter) may run on another thread at any point of the
 * activation.  Guarantee of the activation on the flags word: it only ever ADDS the barrier bit to the value it atomically replaces - a
 * load / modify / plain-store sequence erases a DSF_CANCELED that lands in between (the source then fires for ever, no cancel handler) */
extern const volatile void *H_flags_p, *H_slot_p; extern unsigned long long H_slot_v;
/* the handler slots cannot change any more (set-handler is refused / deferred once activation has begun) */
#define __VERIF_RELY(p, v) ((const volatile void *)(p) != H_slot_p || (unsigned long long)(v) == H_slot_v)
#define __VERIF_GUARANTEE(p, ov, nv, mo) ((const volatile void *)(p) != H_flags_p || ((((ov) ^ (nv)) & ~0x00080000ull) == 0 && ((nv) & 0x00080000ull) != 0))
#endif
#else
#include "contracts/C15/source_common.h"
enum { K_FINALIZE = 150, K_LANE_ACTIVATE, K_INSTALL };
_Bool H_installed_at_finalize; dispatch_priority_t H_pri; _Bool H_installed0, H_direct, H_timer, H_has_handler;
void _dispatch_source_refs_finalize_unregistration(dispatch_source_t ds) { H_installed_at_finalize = ds->ds_is_installed; __verif_event(K_FINALIZE, 0, ds, 0, 0); }
void _dispatch_lane_activate(dispatch_lane_class_t dq, bool *allow_resume) { (void)allow_resume; __verif_event(K_LANE_ACTIVATE, 0, dq._dl, 0, 0); }
dispatch_priority_t _dispatch_queue_compute_priority_and_wlh(dispatch_queue_class_t dq, dispatch_wlh_t *wlh_out) { (void)dq; *wlh_out = DISPATCH_WLH_ANON; return H_pri; }
static void _dispatch_source_install(dispatch_source_t ds, dispatch_wlh_t wlh, dispatch_priority_t pri) { (void)wlh; __verif_event(K_INSTALL, 0, ds, pri, 0); }
void _dispatch_bug_deprecated(const char *msg) { (void)msg; }
uint32_t H_flags0; uintptr_t H_hflags0; const volatile void *H_flags_p, *H_slot_p; unsigned long long H_slot_v;
#define CANCELED0 ((H_flags0 & DSF_CANCELED) != 0)
#ifdef H_RACING_CANCEL
#define FLAGS_AS_STORED 1
#else
#define FLAGS_AS_STORED (H_ds.dq_atomic_flags == H_flags0)
#endif
VERIF_CONTRACT_VOID(_dispatch_source_activate, (dispatch_source_t ds, bool *allow_resume),
  REQ(ds == &H_ds && __verif_n == 0 && H_ds.ds_is_installed == H_installed0 && FLAGS_AS_STORED && H_dr.du_is_direct == H_direct && H_dr.du_is_timer == H_timer && H_handler.dc_flags == H_hflags0 && H_dr.ds_handler[DS_EVENT_HANDLER] == (H_has_handler ? &H_handler : 0))
  ASG(VERIF_GHOST, __CPROVER_object_whole(&H_ds), __CPROVER_object_whole(&H_handler), H_installed_at_finalize)
  ENS(log_bounded, __verif_n >= 1 && __verif_n <= 3)
  /* a source cancelled before it was ever activated is never registered: it is marked installed FIRST (so that no later invoke
   * registers it with the kernel), then taken straight to the deleted state */
  ENS(source_cancelled_before_activation_is_marked_installed_then_finalized_and_never_registered, VIMPL(LOGK(0) == K_FINALIZE,
        __verif_n == 1 && H_installed_at_finalize && H_ds.ds_is_installed))
#ifndef H_RACING_CANCEL
  ENS(the_cancelled_shortcut_is_taken_iff_the_source_was_cancelled, (LOGK(0) == K_FINALIZE) == CANCELED0)
  /* normal activation: the lane part runs (role / priority from the target), then direct and timer sources are installed once */
  ENS(normal_activation_runs_the_lane_activation_before_installing, VIMPL(!CANCELED0, LOGK(LAST) == K_LANE_ACTIVATE || (LOGK(LAST) == K_INSTALL && __verif_n >= 2 && LOGK(LAST - 1) == K_LANE_ACTIVATE)))
  /* C04: a source (dispatch_after, timers, ...) whose event handler is a BARRIER item is a barrier on its target queue from activation on, whoever
   * stored the handler (dispatch_after stores it directly, without going through the set-handler path) */
  ENS(a_source_with_a_barrier_event_handler_is_marked_as_a_barrier_on_its_target, VIMPL(!CANCELED0 && H_has_handler && (H_hflags0 & DC_FLAG_BARRIER), (H_ds.dq_atomic_flags & DQF_BARRIER_BIT) != 0))
#else
  ENS(a_source_with_a_barrier_event_handler_is_marked_as_a_barrier_by_an_atomic_or_that_keeps_every_other_flag, VIMPL(LOGK(0) != K_FINALIZE && H_has_handler && (H_hflags0 & DC_FLAG_BARRIER),
        __verif_n >= 2 && IS_COMMIT(0, H_flags_p) && (LOGB(0) & DQF_BARRIER_BIT) != 0))
#endif
  ENS(installed_at_most_once_and_only_direct_or_timer_sources, VIMPL(LOGK(LAST) == K_INSTALL, (H_direct || H_timer) && !H_installed0 && H_pri != 0 && LOGA(LAST) == H_pri))
)
void harness(void)
{
	h_setup_source(); uint32_t tid = ND(uint32_t); __CPROVER_assume(VALID_TID(tid)); __dispatch_tsd.tid = (pid_t)tid;
	H_installed0 = ND_BOOL(); H_direct = ND_BOOL(); H_timer = ND_BOOL(); H_has_handler = ND_BOOL(); H_pri = ND(dispatch_priority_t);
	H_flags0 = ND(uint32_t); H_ds.dq_atomic_flags = H_flags0; H_flags_p = &H_ds.dq_atomic_flags;
	H_ds.ds_is_installed = H_installed0; H_dr.du_is_direct = H_direct; H_dr.du_is_timer = H_timer;
	H_dr.ds_handler[DS_EVENT_HANDLER] = H_has_handler ? &H_handler : 0; H_hflags0 = ND(uintptr_t) & 0xfff; H_handler.dc_flags = H_hflags0; /* (shares storage with do_vtable: a value <= 0xfff is a continuation) */ H_handler.dc_priority = ND(pthread_priority_t);
	H_slot_p = &H_dr.ds_handler[DS_EVENT_HANDLER]; H_slot_v = (unsigned long long)(uintptr_t)(H_has_handler ? &H_handler : 0); __verif_ptrloc = H_slot_p; __verif_ptrobj = &H_handler;
	bool ar = 1;
	_dispatch_source_activate(&H_ds, &ar);
	VERIF_POST_VOID(_dispatch_source_activate, &H_ds, &ar);
#ifndef H_RACING_CANCEL
	VERIF_REACH(cancelled_shortcut, LOGK(0) == K_FINALIZE);
	VERIF_REACH(installed, LOGK(LAST) == K_INSTALL);
	VERIF_REACH(barrier_handler_marks_the_source, !CANCELED0 && H_has_handler && (H_hflags0 & DC_FLAG_BARRIER) && (H_ds.dq_atomic_flags & DQF_BARRIER_BIT) && !(H_flags0 & DQF_BARRIER_BIT));
#else
	VERIF_REACH(cancelled_shortcut, LOGK(0) == K_FINALIZE);
	VERIF_REACH(barrier_bit_added, __verif_n >= 1 && IS_COMMIT(0, H_flags_p));
#endif
	VERIF_CANARY();
}
#endif
