/*VERIF
{ "tu": "src/event/event.c", "enforce": "_dispatch_unote_unregister", "props": ["C16", "C15", "C11"], "seq": true, "timeout": 200,
  "assumes": ["runs on the manager thread (or, for timers and custom sources, on the source's queue)"],
  "stub_note": "_dispatch_timer_unote_unregister (C11 harnesses), _dispatch_unote_unregister_muxed (own contract: h_unote_unregister_muxed): recorded" }
VERIF*/
#ifdef VERIF_PRE
#else
union { struct dispatch_unote_class_s c; struct dispatch_source_refs_s r; } H_dru;
#define H_dr (H_dru.r)
uintptr_t H_state0; int H_filter; _Bool H_is_timer, H_bad; unsigned H_timer_unregs, H_muxed_unregs; uint32_t H_flags;
static void _dispatch_timer_unote_unregister(dispatch_timer_source_refs_t dt) { if ((void *)dt != (void *)&H_dr) H_bad = 1; H_timer_unregs++; }
bool _dispatch_unote_unregister_muxed(dispatch_unote_t du) { if (du._dr != &H_dr) H_bad = 1; H_muxed_unregs++; H_dr.du_state = DU_STATE_UNREGISTERED; return true; }
#define CUSTOM (H_filter == DISPATCH_EVFILT_CUSTOM_ADD || H_filter == DISPATCH_EVFILT_CUSTOM_OR || H_filter == DISPATCH_EVFILT_CUSTOM_REPLACE)
#define REG0 (H_state0 != DU_STATE_UNREGISTERED)
VERIF_CONTRACT(bool, _dispatch_unote_unregister, (dispatch_unote_t du, uint32_t flags),
  REQ(du._dr == &H_dr && flags == H_flags && (H_flags & DUU_DELETE_ACK) && H_dr.du_state == H_state0 && H_dru.c.du_filter == H_filter && H_dru.c.du_is_timer == H_is_timer && !H_dru.c.du_is_direct && !(CUSTOM && H_is_timer))
  REQ(H_timer_unregs == 0 && H_muxed_unregs == 0 && !H_bad)
  ASG(VERIF_GHOST, __CPROVER_object_whole(&H_dru), H_timer_unregs, H_muxed_unregs, H_bad)
  /* C16 "the library has stopped monitoring": success means the unote is no longer registered anywhere - a registered descriptor / signal unote went through
   * the epoll layer exactly once, a timer through the timer heaps exactly once, a custom source just drops its armed state */
  ENS(nothing_to_do_for_an_unote_that_is_not_registered, VIMPL(!REG0, __CPROVER_return_value && H_timer_unregs == 0 && H_muxed_unregs == 0 && H_dr.du_state == H_state0))
  ENS(a_registered_descriptor_or_signal_unote_leaves_the_epoll_layer_once, VIMPL(REG0 && !CUSTOM && !H_is_timer, H_muxed_unregs == 1 && H_timer_unregs == 0 && __CPROVER_return_value))
  ENS(a_registered_timer_leaves_the_timer_heaps_once, VIMPL(REG0 && !CUSTOM && H_is_timer, H_timer_unregs == 1 && H_muxed_unregs == 0 && __CPROVER_return_value))
  ENS(a_custom_source_is_simply_marked_unregistered, VIMPL(REG0 && CUSTOM, H_dr.du_state == DU_STATE_UNREGISTERED && H_timer_unregs == 0 && H_muxed_unregs == 0 && __CPROVER_return_value))
  ENS(success_means_unregistered, VIMPL(__CPROVER_return_value && !H_is_timer, H_dr.du_state == DU_STATE_UNREGISTERED) && !H_bad)
)
void harness(void)
{
	VERIF_GHOST_RESET(); H_bad = 0; H_timer_unregs = H_muxed_unregs = 0; H_flags = ND(uint32_t) | DUU_DELETE_ACK;
	int f = ND(int); H_filter = f == 0 ? DISPATCH_EVFILT_CUSTOM_ADD : f == 1 ? DISPATCH_EVFILT_CUSTOM_OR : f == 2 ? DISPATCH_EVFILT_CUSTOM_REPLACE : f == 3 ? EVFILT_READ : f == 4 ? EVFILT_WRITE : f == 5 ? EVFILT_SIGNAL : DISPATCH_EVFILT_TIMER;
	H_is_timer = (H_filter == DISPATCH_EVFILT_TIMER); H_dru.c.du_filter = (int8_t)H_filter; H_dru.c.du_is_timer = H_is_timer; H_dru.c.du_is_direct = 0;
	H_state0 = ND_BOOL() ? DU_STATE_UNREGISTERED : (((uintptr_t)DISPATCH_WLH_ANON) | (ND(uintptr_t) & 3)); H_dr.du_state = H_state0;
	bool r = _dispatch_unote_unregister((dispatch_unote_t){ ._dr = &H_dr }, H_flags);
	VERIF_POST(_dispatch_unote_unregister, r, (dispatch_unote_t){ ._dr = &H_dr }, H_flags);
	VERIF_REACH(muxed, H_muxed_unregs == 1);
	VERIF_CANARY();
}
#endif
