/*VERIF
{ "tu": "src/source.c", "enforce": "_dispatch_source_cancel_callout", "props": ["C16","C17"], "seq": true, "timeout": 200,
  "assumes": ["runs under the source's drain lock on its target queue (C02): the handler slots are read as stored"],
  "stub_note": "_dispatch_continuation_pop (cancel handler call-out), _dispatch_source_handler_dispose: logged" }
VERIF*/
#ifdef VERIF_PRE
#else
#define VERIF_SEQ_LOCAL 1
#include "contracts/C15/source_common.h"
struct dispatch_continuation_s H_ev, H_reg, H_can; struct dispatch_lane_s H_cq;
unsigned H_pops, H_disposes; _Bool H_handlers_gone_at_callout; dispatch_continuation_t H_popped;
static inline void _dispatch_continuation_pop(dispatch_object_t dou, dispatch_invoke_context_t dic, dispatch_invoke_flags_t flags, dispatch_queue_class_t dqu)
{ (void)dic; (void)flags; (void)dqu; H_pops++; H_popped = dou._dc;
  H_handlers_gone_at_callout = (H_dr.ds_handler[DS_EVENT_HANDLER] == 0 && H_dr.ds_handler[DS_REGISTN_HANDLER] == 0 && H_dr.ds_handler[DS_CANCEL_HANDLER] == 0 && H_dr.ds_pending_data == 0); }
static void _dispatch_source_handler_dispose(dispatch_continuation_t dc) { (void)dc; H_disposes++; }
VERIF_CONTRACT_VOID(_dispatch_source_cancel_callout, (dispatch_source_t ds, dispatch_queue_t cq, dispatch_invoke_flags_t flags),
  REQ(ds == &H_ds && ds->ds_refs == &H_dr && H_pops == 0 && H_disposes == 0)
  ASG(__CPROVER_object_whole(&H_dr), H_can.dc_ctxt, H_pops, H_disposes, H_handlers_gone_at_callout, H_popped, VERIF_GHOST)
  /* at most once ever: the cancel handler slot is emptied by the same step that takes it */
  ENS(cancel_handler_slot_is_consumed, H_dr.ds_handler[DS_CANCEL_HANDLER] == 0)
  ENS(event_and_registration_handlers_are_freed, H_dr.ds_handler[DS_EVENT_HANDLER] == 0 && H_dr.ds_handler[DS_REGISTN_HANDLER] == 0 && H_dr.ds_pending_data == 0)
  ENS(cancel_handler_called_at_most_once, H_pops <= 1)
  /* no event handler invocation can follow the cancel handler: the other handlers and pending data are gone BEFORE the call-out */
  ENS(other_handlers_gone_before_the_cancel_handler_runs, VIMPL(H_pops == 1, H_handlers_gone_at_callout && H_popped == &H_can))
)
void harness(void)
{
	h_setup_source();
	/* sequential view of the handler slots */
	H_dr.ds_handler[DS_EVENT_HANDLER] = ND_BOOL() ? &H_ev : 0; H_dr.ds_handler[DS_REGISTN_HANDLER] = ND_BOOL() ? &H_reg : 0; H_dr.ds_handler[DS_CANCEL_HANDLER] = ND_BOOL() ? &H_can : 0;
	H_dr.ds_pending_data = ND(uint64_t); H_can.dc_flags = ND(uintptr_t) & 0xfff; H_ds.dq_atomic_flags = ND(uint32_t);
	H_pops = 0; H_disposes = 0;
	dispatch_invoke_flags_t flags = ND(dispatch_invoke_flags_t);
	_dispatch_source_cancel_callout(&H_ds, (dispatch_queue_t)&H_cq, flags);
	VERIF_POST_VOID(_dispatch_source_cancel_callout, &H_ds, (dispatch_queue_t)&H_cq, flags);
	VERIF_REACH(called, H_pops == 1);
	VERIF_CANARY();
}
#endif
