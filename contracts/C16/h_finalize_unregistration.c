/*VERIF
{ "tu": "src/source.c", "enforce": "_dispatch_source_refs_finalize_unregistration", "props": ["C16","C17"], "nondet_volatile": true, "timeout": 120,
  "stub_note": "_dispatch_wake_by_address, release: logged" }
VERIF*/
#ifdef VERIF_PRE
#else
#include "contracts/C15/source_common.h"
void _dispatch_wake_by_address(uint32_t volatile *address) { __verif_event(EV_KWAKE, 0, address, 0, 0); }
VERIF_CONTRACT_VOID(_dispatch_source_refs_finalize_unregistration, (dispatch_source_t ds),
  REQ(ds == &H_ds && __verif_n == 0)
  ASG(H_ds.dq_atomic_flags, VERIF_GHOST)
  ENS(deleted_is_set_exactly_once, __verif_n >= 2 && IS_COMMIT(0, FLAGS_P) && !(LOGA(0) & DSF_DELETED) &&
        LOGB(0) == ((LOGA(0) | DSF_DELETED) & ~(dispatch_queue_flags_t)(DSF_NEEDS_EVENT | DSF_CANCEL_WAITER)))
  ENS(a_cancel_waiter_is_woken_iff_one_was_recorded, (LOGA(0) & DSF_CANCEL_WAITER) ? (__verif_n == 3 && LOGK(1) == EV_KWAKE && LOGP(1) == (void *)&ds->dq_atomic_flags) : __verif_n == 2)
  ENS(registration_reference_released_last, LOGK(LAST) == EV_RELEASE && LOGA(LAST) == 1 && LOGP(LAST) == (void *)ds)
)
void harness(void)
{
	h_setup_source();
	_dispatch_source_refs_finalize_unregistration(&H_ds);
	VERIF_POST_VOID(_dispatch_source_refs_finalize_unregistration, &H_ds);
	VERIF_CANARY();
}
#endif
