/*VERIF
{ "tu": "src/event/event_epoll.c", "enforce": "_dispatch_unote_resume_muxed", "props": ["C15", "C16", "C14"], "seq": true, "timeout": 200,
  "assumes": ["runs on the manager thread; layer invariant on entry: kernel-registered events == armed events of the muxnote"],
  "stub_note": "epoll_ctl (kernel: ghost copy of the registered set), dispatch_once_f: recorded" }
VERIF*/
#ifdef VERIF_PRE
#else
#include "contracts/common/dq_common.h"
struct h_unote { struct dispatch_unote_linkage_s link; struct dispatch_source_refs_s du; } H_u;
struct dispatch_muxnote_s H_dmn; struct dispatch_source_type_s H_type; _Bool H_bad; unsigned H_mods, H_others; uint32_t H_kernel_events, H_events0; uint16_t H_disarmed0;
int epoll_ctl(int epfd, int op, int fd, struct epoll_event *ev)
{ if (epfd != _dispatch_epfd || fd != H_dmn.dmn_fd || !ev || ev->data.ptr != (void *)&H_dmn) H_bad = 1; if (op == EPOLL_CTL_MOD) { H_mods++; H_kernel_events = ev ? ev->events : 0; } else H_others++; return 0; }
void dispatch_once_f(dispatch_once_t *val, void *ctxt, dispatch_function_t func) { (void)val; (void)ctxt; (void)func; }
#define MYBIT (H_u.du.du_filter == EVFILT_WRITE ? (uint32_t)EPOLLOUT : (uint32_t)EPOLLIN)
#define WANT (EPOLLFREE | MYBIT | ((H_type.dst_flags & EV_DISPATCH) ? (uint32_t)EPOLLONESHOT : 0u))
#define ARMED_NOW (H_dmn.dmn_events & ~(uint32_t)H_dmn.dmn_disarmed_events)
VERIF_CONTRACT_VOID(_dispatch_unote_resume_muxed, (dispatch_unote_t du),
  REQ(du._dr == &H_u.du && !H_u.du.du_is_direct && H_u.du.du_type == &H_type && (H_u.du.du_filter == EVFILT_READ || H_u.du.du_filter == EVFILT_WRITE) && H_u.link.du_muxnote == &H_dmn && (H_u.du.du_state & ~(uintptr_t)3) != 0)
  REQ(H_dmn.dmn_events == H_events0 && H_dmn.dmn_disarmed_events == H_disarmed0 && (H_events0 & WANT) == WANT && H_kernel_events == (H_events0 & ~(uint32_t)H_disarmed0) && !H_bad && H_mods == 0 && H_others == 0)
  ASG(VERIF_GHOST, __CPROVER_object_whole(&H_dmn), H_bad, H_mods, H_others, H_kernel_events)
  /* after a one-shot event was delivered the direction is disarmed; resuming the source (its handler returned) must re-arm it IN THE KERNEL too,
   * or no further event of that direction is ever delivered (C15: data arriving after the handler ran is delivered afterwards) */
  ENS(the_direction_this_unote_needs_is_armed_in_the_kernel_afterwards, !H_bad && !(H_dmn.dmn_disarmed_events & WANT) && (H_kernel_events & MYBIT) && H_kernel_events == ARMED_NOW)
  ENS(nothing_else_is_disarmed_or_added, H_dmn.dmn_events == H_events0 && H_dmn.dmn_disarmed_events == (uint16_t)(H_disarmed0 & ~WANT) && H_others == 0)
  ENS(the_kernel_is_only_called_when_something_was_disarmed, H_mods == ((H_disarmed0 & WANT) ? 1u : 0u))
)
void harness(void)
{
	VERIF_GHOST_RESET(); H_bad = 0; H_mods = H_others = 0;
	H_u.du.du_is_direct = 0; H_u.du.du_type = &H_type; H_type.dst_flags = ND(uint16_t); H_u.du.du_filter = ND_BOOL() ? EVFILT_READ : EVFILT_WRITE; H_u.link.du_muxnote = &H_dmn; H_u.du.du_state = ((uintptr_t)DISPATCH_WLH_ANON) | (ND(uintptr_t) & 3);
	H_events0 = ND(uint32_t); H_disarmed0 = ND(uint16_t); __CPROVER_assume((H_events0 & WANT) == WANT);
	H_dmn.dmn_events = H_events0; H_dmn.dmn_disarmed_events = H_disarmed0; H_kernel_events = H_events0 & ~(uint32_t)H_disarmed0; H_dmn.dmn_fd = ND(int);
	_dispatch_unote_resume_muxed((dispatch_unote_t){ ._dr = &H_u.du });
	VERIF_POST_VOID(_dispatch_unote_resume_muxed, (dispatch_unote_t){ ._dr = &H_u.du });
	VERIF_REACH(rearmed, H_mods == 1);
	VERIF_CANARY();
}
#endif
