/*VERIF
{ "tu": "src/source.c", "enforce": "_dispatch_source_activate", "props": ["C16", "C04"], "nondet_volatile": true, "timeout": 300, "cppflags": ["-DH_RACING_CANCEL=1"],
  "assumes": ["dispatch_source_cancel and other flag setters run on other threads at any point of the activation: every atomic load of the flags word returns an arbitrary value, every store replaces an arbitrary value"],
  "stub_note": "as h_source_activate" }
VERIF*/
#include "contracts/C16/h_source_activate.c"
