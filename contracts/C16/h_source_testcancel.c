/*VERIF
{ "tu": "src/source.c", "enforce": "dispatch_source_testcancel", "props": ["C16"], "seq": true, "timeout": 120,
  "stub_note": "none" }
VERIF*/
#ifdef VERIF_PRE
#else
#include "contracts/C15/source_common.h"
uint32_t H_flags0;
VERIF_CONTRACT(intptr_t, dispatch_source_testcancel, (dispatch_source_t ds),
  REQ(ds == &H_ds && H_ds.dq_atomic_flags == H_flags0)
  ASG()
  /* C16: the cancellation flag is set once and stays set; testcancel reports exactly that flag (1 / 0), whatever else the flags word holds */
  ENS(reports_exactly_the_cancelled_flag, __CPROVER_return_value == ((H_flags0 & DSF_CANCELED) ? 1 : 0))
)
void harness(void)
{
	h_setup_source(); H_flags0 = ND(uint32_t); H_ds.dq_atomic_flags = H_flags0;
	intptr_t r = dispatch_source_testcancel(&H_ds);
	VERIF_POST(dispatch_source_testcancel, r, &H_ds);
	VERIF_REACH(cancelled, r == 1);
	VERIF_CANARY();
}
#endif
