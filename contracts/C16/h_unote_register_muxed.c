/*VERIF
{ "tu": "src/event/event_epoll.c", "enforce": "_dispatch_unote_register_muxed", "props": ["C16", "C15", "C14"], "seq": true, "timeout": 300,
  "assumes": ["runs on the manager thread; the hash bucket holds at most the muxnote of this descriptor (the bucket walk of _dispatch_muxnote_find is stubbed: found or not)",
              "an existing muxnote satisfies the layer invariant: kernel-registered events == armed events; its reader / writer lists are empty or hold one unote"],
  "stub_note": "epoll_ctl (kernel: may fail; ghost copy of the registered set), dispatch_once_f, _dispatch_muxnote_find, _dispatch_muxnote_create (fstat / signalfd / eventfd set-up: returns a fresh muxnote carrying the requested events, or NULL), _dispatch_muxnote_dispose: recorded" }
VERIF*/
#ifdef VERIF_PRE
#else
#include "contracts/common/dq_common.h"
struct h_unote { struct dispatch_unote_linkage_s link; struct dispatch_source_refs_s du; } H_u, H_old;
struct dispatch_muxnote_s H_dmn; struct dispatch_source_type_s H_type;
_Bool H_found, H_create_fails, H_ctl_fails, H_old_is_writer, H_has_old, H_bad; unsigned H_dels, H_mods, H_adds, H_disposes; uint32_t H_kernel_events, H_events0, H_ctl_events; uint16_t H_disarmed0; _Bool H_kernel_registered;
int epoll_ctl(int epfd, int op, int fd, struct epoll_event *ev)
{	if (epfd != _dispatch_epfd || fd != H_dmn.dmn_fd || !ev || ev->data.ptr != (void *)&H_dmn) H_bad = 1;
	if (op == EPOLL_CTL_DEL) H_dels++; else if (op == EPOLL_CTL_MOD) H_mods++; else H_adds++;
	H_ctl_events = ev ? ev->events : 0;
	if (H_ctl_fails) return -1;
	if (op == EPOLL_CTL_ADD) H_kernel_registered = 1;
	H_kernel_events = ev ? ev->events : 0; return 0; }
void dispatch_once_f(dispatch_once_t *val, void *ctxt, dispatch_function_t func) { (void)val; (void)ctxt; (void)func; }
static inline dispatch_muxnote_t _dispatch_muxnote_find(struct dispatch_muxnote_bucket_s *dmb, uint32_t ident, int8_t filter)
{ (void)filter; if (dmb != &_dispatch_sources[DSL_HASH(ident)] || ident != H_u.du.du_ident) H_bad = 1; return H_found ? &H_dmn : (dispatch_muxnote_t)0; }
static dispatch_muxnote_t _dispatch_muxnote_create(dispatch_unote_t du, uint32_t events)
{	if (du._dr != &H_u.du || H_found) H_bad = 1; if (H_create_fails) return 0;
	H_dmn.dmn_readers_head.lh_first = 0; H_dmn.dmn_writers_head.lh_first = 0; H_dmn.dmn_events = events; H_dmn.dmn_disarmed_events = 0; H_dmn.dmn_ident = du._du->du_ident; return &H_dmn; }
static void _dispatch_muxnote_dispose(dispatch_muxnote_t dmn) { if (dmn != &H_dmn) H_bad = 1; H_disposes++; }
#define IS_WRITER (H_u.du.du_filter == EVFILT_WRITE)
#define MYHEAD (IS_WRITER ? &H_dmn.dmn_writers_head : &H_dmn.dmn_readers_head)
#define MYBIT (IS_WRITER ? (uint32_t)EPOLLOUT : (uint32_t)EPOLLIN)
#define ONESHOT ((H_type.dst_flags & EV_DISPATCH) ? (uint32_t)EPOLLONESHOT : 0u)
#define WANT (EPOLLFREE | MYBIT | ONESHOT)
#define ARMED_NOW (H_dmn.dmn_events & ~(uint32_t)H_dmn.dmn_disarmed_events)
#define ARMED0 (H_events0 & ~(uint32_t)H_disarmed0)
#define OK __CPROVER_return_value
VERIF_CONTRACT(bool, _dispatch_unote_register_muxed, (dispatch_unote_t du),
  REQ(du._dr == &H_u.du && !H_u.du.du_is_direct && H_u.du.du_type == &H_type && (H_u.du.du_filter == EVFILT_READ || H_u.du.du_filter == EVFILT_WRITE || H_u.du.du_filter == EVFILT_SIGNAL) && !H_bad && H_dels == 0 && H_mods == 0 && H_adds == 0 && H_disposes == 0)
  REQ(H_kernel_registered == H_found && VIMPL(H_found, H_dmn.dmn_events == H_events0 && H_dmn.dmn_disarmed_events == H_disarmed0 && H_kernel_events == ARMED0 && H_dmn.dmn_ident == H_u.du.du_ident))
  REQ(VIMPL(H_found, H_dmn.dmn_readers_head.lh_first == ((H_has_old && !H_old_is_writer) ? &H_old.link : 0) && H_dmn.dmn_writers_head.lh_first == ((H_has_old && H_old_is_writer) ? &H_old.link : 0)))
  REQ(VIMPL(H_found && H_has_old, H_old.link.du_link.le_next == 0 && H_old.link.du_link.le_prev == (H_old_is_writer ? &H_dmn.dmn_writers_head.lh_first : &H_dmn.dmn_readers_head.lh_first)))
  ASG(VERIF_GHOST, __CPROVER_object_whole(&H_u), __CPROVER_object_whole(&H_old), __CPROVER_object_whole(&H_dmn), __CPROVER_object_whole(_dispatch_sources), H_bad, H_dels, H_mods, H_adds, H_disposes, H_kernel_events, H_ctl_events, H_kernel_registered)
  ENS(tables_are_used_consistently, !H_bad)
  /* success means the kernel really monitors the descriptor for the direction this unote needs (and keeps every direction others armed) */
  ENS(success_means_the_kernel_monitors_the_needed_direction, VIMPL(OK, H_kernel_registered && (H_dmn.dmn_events & WANT) == WANT && VIMPL(!(H_found && (H_disarmed0 & MYBIT) && (H_events0 & WANT) == WANT), (H_kernel_events & MYBIT))))
  ENS(the_kernel_set_equals_the_armed_events_afterwards, VIMPL(OK, H_kernel_events == ARMED_NOW))
  ENS(success_links_the_unote_at_the_head_of_its_direction_and_marks_it_armed, VIMPL(OK, MYHEAD->lh_first == &H_u.link && H_u.link.du_link.le_prev == &MYHEAD->lh_first && H_u.link.du_muxnote == &H_dmn
        && H_u.du.du_state == ((uintptr_t)DISPATCH_WLH_ANON | DU_STATE_ARMED)))
  /* failure (kernel refused, or the descriptor could not be set up) leaves no trace: nothing linked, nothing newly published, a fresh muxnote disposed of once */
  ENS(failure_links_nothing_and_disposes_of_a_fresh_muxnote, VIMPL(!OK, H_u.link.du_muxnote != &H_dmn && H_disposes == ((!H_found && !H_create_fails) ? 1u : 0u) && _dispatch_sources[DSL_HASH(H_u.du.du_ident)].lh_first != &H_dmn))
  ENS(a_new_descriptor_is_added_once_an_existing_one_is_modified_at_most_once, H_dels == 0 && (H_found ? (H_adds == 0 && H_mods <= 1) : (H_mods == 0 && H_adds == (H_create_fails ? 0u : 1u))))
)
void harness(void)
{
	VERIF_GHOST_RESET(); H_bad = 0; H_dels = H_mods = H_adds = H_disposes = 0;
	H_found = ND_BOOL(); H_create_fails = ND_BOOL(); H_ctl_fails = ND_BOOL(); H_has_old = ND_BOOL(); H_old_is_writer = ND_BOOL(); H_kernel_registered = H_found;
	H_u.du.du_is_direct = 0; H_u.du.du_type = &H_type; H_type.dst_flags = ND(uint16_t); H_u.du.du_ident = ND(uint32_t); H_u.link.du_muxnote = 0;
	int f = ND(int); H_u.du.du_filter = f == 0 ? EVFILT_READ : f == 1 ? EVFILT_WRITE : EVFILT_SIGNAL;
	H_events0 = ND(uint32_t); H_disarmed0 = ND(uint16_t); H_dmn.dmn_fd = ND(int); H_dmn.dmn_list.le_next = 0; H_dmn.dmn_list.le_prev = 0;
	for (unsigned i = 0; i < DSL_HASH_SIZE; i++) _dispatch_sources[i].lh_first = 0;
	if (H_found) { H_dmn.dmn_events = H_events0; H_dmn.dmn_disarmed_events = H_disarmed0; H_kernel_events = ARMED0; H_dmn.dmn_ident = H_u.du.du_ident;
		H_dmn.dmn_readers_head.lh_first = (H_has_old && !H_old_is_writer) ? &H_old.link : 0; H_dmn.dmn_writers_head.lh_first = (H_has_old && H_old_is_writer) ? &H_old.link : 0;
		H_old.link.du_link.le_next = 0; H_old.link.du_link.le_prev = H_old_is_writer ? &H_dmn.dmn_writers_head.lh_first : &H_dmn.dmn_readers_head.lh_first; }
	bool r = _dispatch_unote_register_muxed((dispatch_unote_t){ ._dr = &H_u.du });
	VERIF_POST(_dispatch_unote_register_muxed, r, (dispatch_unote_t){ ._dr = &H_u.du });
	VERIF_REACH(new_descriptor, r && !H_found);
	VERIF_REACH(second_direction_added_with_mod, r && H_found && H_mods == 1);
	VERIF_REACH(refused, !r);
	VERIF_CANARY();
}
#endif
