/* C06 scaffolding: suspend count = inline count (dq_state >> 58) + side count (under the side lock) */
#define DQ_STUB_REFS 1
#define DQ_STUB_TARGET 1
#include "contracts/common/dq_common.h"
#define CALL_LOCK 31
#define CALL_UNLOCK 32
#define CALL_SUSPEND 33
#define CALL_SUSPEND_SLOW 34
#define CALL_RESUME 35
#define CALL_RESUME_SLOW 36
#define CALL_RESUME_ACTIVATE 37
static inline void _dispatch_queue_sidelock_lock(dispatch_lane_t dq) { __verif_event(EV_CALL, 0, dq, CALL_LOCK, 0); }
static inline void _dispatch_queue_sidelock_unlock(dispatch_lane_t dq) { __verif_event(EV_CALL, 0, dq, CALL_UNLOCK, 0); }
#define SINT DISPATCH_QUEUE_SUSPEND_INTERVAL
#define SHALF ((uint64_t)DISPATCH_QUEUE_SUSPEND_HALF)
#define SIDEBIT DISPATCH_QUEUE_HAS_SIDE_SUSPEND_CNT
/* bits below the suspend count and side bit (everything a suspend/resume must not touch) */
#define LOWBITS(s) ((s) & ~(DISPATCH_QUEUE_SUSPEND_BITS_MASK))
#define NON_SUSPEND_COUNT_BITS(s) ((s) & (SINT - 1))
