/*VERIF
{ "tu": "src/queue.c", "enforce": "_dispatch_barrier_trysync_or_async_f_complete", "props": ["C06", "C17"], "nondet_volatile": true, "timeout": 200,
  "assumes": ["rely: while this thread runs the function under its own suspension, the suspend count it observes is >= 1 (its own; other threads may add more)"],
  "stub_note": "the client function (_dispatch_sync_function_invoke_inline -> _dispatch_client_callout): logged; dx_wakeup: logged" }
VERIF*/
#ifdef VERIF_PRE
extern const volatile void *H_rely_ptr;
#define __VERIF_RELY(p, v) ((const volatile void *)(p) != H_rely_ptr || (((unsigned long long)(v)) >> 58) >= 1)
/* guarantee: gives back exactly the one suspension it took (nothing else of dq_state changes) */
#define __VERIF_GUARANTEE(p, ov, nv, mo) ((const volatile void *)(p) != H_rely_ptr || (nv) == (ov) - DISPATCH_QUEUE_SUSPEND_INTERVAL)
#else
#define DQ_STUB_REFS 1
#define DQ_STUB_TARGET 1
#include "contracts/common/dq_common.h"

static void h_fn(void *c) { (void)c; }
void _dispatch_client_callout(void *ctxt, dispatch_function_t f) { (void)f; __verif_event(EV_CALLOUT, 0, ctxt, 0, 0); }
uint32_t H_tflags;
#define SUSP (H_tflags & DISPATCH_BARRIER_TRYSYNC_SUSPEND)
VERIF_CONTRACT_VOID(_dispatch_barrier_trysync_or_async_f_complete, (dispatch_lane_t dq, void *ctxt, dispatch_function_t func, uint32_t flags),
  REQ(dq == H_DQ && __verif_n == 0 && flags == H_tflags && func == h_fn && VALID_TID(H_SELF))
  ASG(VERIF_GHOST, H_lane.dq_state, __dispatch_tsd)
  ENS(log_bounded, __verif_n == (SUSP ? 3u : 2u) && LOGK(0) == EV_CALLOUT && LOGK(LAST) == EV_WAKEUP && LOGP(LAST) == (void *)H_DQ && (LOGA(LAST) & DISPATCH_WAKEUP_BARRIER_COMPLETE))
  /* the suspension taken for the duration of the function is given back AFTER the function ran */
  ENS(own_suspension_is_dropped_after_the_function, VIMPL(SUSP, IS_COMMIT(1, &H_lane.dq_state) && LOGB(1) == LOGA(1) - DISPATCH_QUEUE_SUSPEND_INTERVAL))
  /* the +2 that accompanies a first suspension is consumed by THIS wakeup only if this was the last suspension; if somebody else
   * suspended the queue meanwhile, their resume inherits it (lane_resume: plus_two_of_the_first_suspend_is_consumed_exactly_once) */
  ENS(plus_two_is_consumed_here_exactly_when_the_queue_is_no_longer_suspended, VIMPL(SUSP, ((LOGA(2) & DISPATCH_WAKEUP_CONSUME_2) != 0) == !S_SUSPENDED(LOGB(1))))
  ENS(without_a_suspension_no_reference_is_consumed, VIMPL(!SUSP, !(LOGA(1) & DISPATCH_WAKEUP_CONSUME_2)))
)
void harness(void)
{
	h_setup_lane(); h_setup_target(); H_tflags = ND(uint32_t);
	H_rely_ptr = &H_lane.dq_state;
	__dispatch_tsd.dispatch_queue_key = 0; __dispatch_tsd.dispatch_frame_key = 0;
	_dispatch_barrier_trysync_or_async_f_complete(H_DQ, (void *)0, h_fn, H_tflags);
	VERIF_POST_VOID(_dispatch_barrier_trysync_or_async_f_complete, H_DQ, (void *)0, h_fn, H_tflags);
	VERIF_REACH(still_suspended_by_somebody_else, SUSP && S_SUSPENDED(LOGB(1)));
	VERIF_CANARY();
}
#endif
