/*VERIF
{ "tu": "src/queue.c", "enforce": "_dispatch_workloop_activate", "props": ["C06", "C03"], "nondet_volatile": true, "timeout": 200,
  "assumes": ["other threads change the work loop's state word at any time (interference model)"],
  "stub_note": "_dispatch_workloop_activate_attributes, _dispatch_workloop_wakeup (own contract: h_workloop_wakeup): logged" }
VERIF*/
#ifdef VERIF_PRE
extern const volatile void *H_state_p;
/* guarantee on the state word: activation only ever clears the INACTIVE mark, then the NEEDS_ACTIVATION mark - nothing else */
#define __VERIF_GUARANTEE(p, ov, nv, mo) ((const volatile void *)(p) != H_state_p || (nv) == ((ov) & ~DISPATCH_QUEUE_INACTIVE) || (nv) == ((ov) & ~DISPATCH_QUEUE_NEEDS_ACTIVATION))
#else
#define DQ_STUB_REFS 1
#include "contracts/common/dq_common.h"
enum { K_ATTRS = 197, K_WL_WAKEUP };
const volatile void *H_state_p; struct dispatch_workloop_s H_wl; struct dispatch_workloop_attr_s H_attr; _Bool H_has_attr; dispatch_priority_t H_pri0;
static void _dispatch_workloop_activate_attributes(dispatch_workloop_t dwl) { __verif_event(K_ATTRS, 0, dwl, 0, 0); }
void _dispatch_workloop_wakeup(dispatch_workloop_t dwl, dispatch_qos_t qos, dispatch_wakeup_flags_t flags) { __verif_event(K_WL_WAKEUP, 0, dwl, qos, flags); }
#define WAS_INACTIVE ((LOGA(0) & DISPATCH_QUEUE_INACTIVE) != 0)
#define A (H_has_attr ? 1u : 0u)
VERIF_CONTRACT_VOID(_dispatch_workloop_activate, (dispatch_workloop_t dwl),
  REQ(dwl == &H_wl && __verif_n == 0 && H_wl.dwl_attr == (H_has_attr ? &H_attr : 0) && H_wl.dq_priority == H_pri0)
  ASG(VERIF_GHOST, H_wl.dq_state, H_wl.dq_priority)
  ENS(the_inactive_mark_is_cleared_by_one_atomic_step, __verif_n >= 1 && IS_COMMIT(0, H_state_p) && LOGB(0) == (LOGA(0) & ~DISPATCH_QUEUE_INACTIVE))
  /* C06: exactly the activation that found the work loop inactive finishes it: attributes registered, a priority chosen (never none: the fallback default, always
   * overcommit), the NEEDS_ACTIVATION mark cleared - only then can anything be drained - and the work loop woken ONCE so that everything pushed while it was inactive
   * runs; a repeated activation does nothing */
  ENS(the_first_activation_finishes_it_and_wakes_the_work_loop_once, VIMPL(WAS_INACTIVE, __verif_n == 3 + A && (!H_has_attr || (LOGK(1) == K_ATTRS && LOGP(1) == (void *)&H_wl))
        && IS_COMMIT(1 + A, H_state_p) && LOGB(1 + A) == (LOGA(1 + A) & ~DISPATCH_QUEUE_NEEDS_ACTIVATION)
        && LOGK(2 + A) == K_WL_WAKEUP && LOGP(2 + A) == (void *)&H_wl && LOGA(2 + A) == 0 && LOGB(2 + A) == DISPATCH_WAKEUP_CONSUME_2
        && (H_wl.dq_priority & DISPATCH_PRIORITY_FLAG_OVERCOMMIT)
        && (H_pri0 == 0 ? (H_wl.dq_priority & ~DISPATCH_PRIORITY_FLAG_OVERCOMMIT) != 0 : H_wl.dq_priority == (H_pri0 | DISPATCH_PRIORITY_FLAG_OVERCOMMIT))))
  ENS(a_repeated_activation_does_nothing, VIMPL(!WAS_INACTIVE, __verif_n == 1 && H_wl.dq_priority == H_pri0))
)
void harness(void)
{
	h_setup_lane(); H_state_p = &H_wl.dq_state; H_has_attr = ND_BOOL(); H_wl.dwl_attr = H_has_attr ? &H_attr : 0; H_pri0 = ND(dispatch_priority_t); H_wl.dq_priority = H_pri0;
	_dispatch_workloop_activate(&H_wl);
	VERIF_POST_VOID(_dispatch_workloop_activate, &H_wl);
	VERIF_REACH(first_activation_with_attributes, WAS_INACTIVE && H_has_attr);
	VERIF_CANARY();
}
#endif
