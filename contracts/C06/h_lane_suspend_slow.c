/*VERIF
{ "tu": "src/queue.c", "enforce": "_dispatch_lane_suspend_slow", "props": ["C06", "C15"], "nondet_volatile": true, "timeout": 120,
  
  "assumes": ["rely (while the side lock is held): the side-count bit of dq_state is set iff dq_side_suspend_cnt > 0, and dq_side_suspend_cnt is stable; guaranteed by the two slow-path contracts of this property"],
  "stub_note": "side lock lock/unlock, _dispatch_lane_suspend (retry): logged calls" }
VERIF*/
#ifdef VERIF_PRE
extern _Bool H_side_nonzero; extern const volatile void *H_state_p;
#define __VERIF_RELY(p, v) ((const volatile void *)(p) != H_state_p || (((((unsigned long long)(v)) >> 57) & 1) == (H_side_nonzero ? 1u : 0u)))
#else
#include "contracts/C06/suspend_common.h"
_Bool H_side_nonzero; const volatile void *H_state_p; uint32_t H_side0;
void _dispatch_lane_suspend(dispatch_lane_class_t dqu) { __verif_event(EV_CALL, 0, dqu._dl, CALL_SUSPEND, 0); }
#define COMMITTED (__verif_n == 3 && IS_COMMIT(1, &dq->dq_state))
VERIF_CONTRACT_VOID(_dispatch_lane_suspend_slow, (dispatch_lane_t dq),
  REQ(dq == H_DQ && __verif_n == 0 && dq->dq_side_suspend_cnt == H_side0 && H_side_nonzero == (H_side0 != 0) && H_state_p == &dq->dq_state && H_side0 % SHALF == 0 && H_side0 <= 0x7fffff00u)
  ASG(dq->dq_state, dq->dq_side_suspend_cnt, VERIF_GHOST)
  ENS(runs_under_the_side_lock, __verif_n >= 3 && LOGK(0) == EV_CALL && LOGA(0) == CALL_LOCK && LOGK(__verif_n == 3 && LOGK(2) == EV_CALL && LOGA(2) == CALL_UNLOCK ? 2 : 1) == EV_CALL)
  /* either: HALF suspensions move from the inline count to the side count and one is added: total + 1 */
  ENS(transfer_moves_half_and_adds_one, VIMPL(COMMITTED,
        S_SUSP_CNT(LOGB(1)) + SHALF == S_SUSP_CNT(LOGA(1)) + 1 && dq->dq_side_suspend_cnt == H_side0 + SHALF &&
        S_SIDE(LOGB(1)) && NON_SUSPEND_COUNT_BITS(LOGB(1) & ~SIDEBIT) == NON_SUSPEND_COUNT_BITS(LOGA(1) & ~SIDEBIT) && LOGK(2) == EV_CALL && LOGA(2) == CALL_UNLOCK))
  /* or: the inline count is too small for a transfer (someone resumed meanwhile): nothing committed, plain suspend retried after unlocking */
  ENS(otherwise_nothing_committed_and_plain_suspend_retried, VIMPL(!COMMITTED,
        __verif_n == 3 && LOGK(1) == EV_CALL && LOGA(1) == CALL_UNLOCK && LOGK(2) == EV_CALL && LOGA(2) == CALL_SUSPEND && dq->dq_side_suspend_cnt == H_side0))
)
void harness(void)
{
	h_setup_lane();
	H_side0 = ND(uint32_t); H_lane.dq_side_suspend_cnt = H_side0; H_side_nonzero = (H_side0 != 0); H_state_p = &H_lane.dq_state;
	_dispatch_lane_suspend_slow(H_DQ);
	VERIF_POST_VOID(_dispatch_lane_suspend_slow, H_DQ);
	VERIF_REACH(second_spill, __verif_n == 3 && IS_COMMIT(1, &H_lane.dq_state) && H_side0 == 32);
	VERIF_REACH(retry, __verif_n == 3 && LOGA(2) == CALL_SUSPEND);
	VERIF_CANARY();
}
#endif
