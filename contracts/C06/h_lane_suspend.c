/*VERIF
{ "tu": "src/queue.c", "enforce": "_dispatch_lane_suspend", "props": ["C06","C17"], "nondet_volatile": true, "timeout": 120,
  "stub_note": "_dispatch_lane_suspend_slow: logged call (own contract); retain: logged" }
VERIF*/
#ifdef VERIF_PRE
#else
#include "contracts/C06/suspend_common.h"
static void _dispatch_lane_suspend_slow(dispatch_lane_t dq) { __verif_event(EV_CALL, 0, dq, CALL_SUSPEND_SLOW, 0); }
VERIF_CONTRACT_VOID(_dispatch_lane_suspend, (dispatch_lane_t dq),
  REQ(dq == H_DQ && __verif_n == 0)
  ASG(dq->dq_state, VERIF_GHOST)
  ENS(log_bounded, __verif_n >= 1 && __verif_n <= 2)
  /* one more suspension, nothing else touched; on overflow of the 6-bit inline count: spill to the side count */
  ENS(adds_exactly_one_suspension_or_spills, IS_COMMIT(0, &dq->dq_state)
        ? (LOGB(0) == LOGA(0) + SINT && S_SUSP_CNT(LOGA(0)) < 63 && NON_SUSPEND_COUNT_BITS(LOGB(0)) == NON_SUSPEND_COUNT_BITS(LOGA(0)))
        : (__verif_n == 1 && LOGK(0) == EV_CALL && LOGA(0) == CALL_SUSPEND_SLOW && S_SUSP_CNT(__verif_last_load) == 63))
  /* the first suspension takes the +2 that the final resume's wakeup consumes */
  ENS(first_suspension_retains_2, VIMPL(IS_COMMIT(0, &dq->dq_state), S_SUSPENDED(LOGA(0)) ? __verif_n == 1 : (__verif_n == 2 && LOGK(1) == EV_RETAIN && LOGA(1) == 2)))
)
void harness(void)
{
	h_setup_lane();
	_dispatch_lane_suspend(H_DQ);
	VERIF_POST_VOID(_dispatch_lane_suspend, H_DQ);
	VERIF_REACH(spill, LOGK(0) == EV_CALL);
	VERIF_CANARY();
}
#endif
