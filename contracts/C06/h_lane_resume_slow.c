/*VERIF
{ "tu": "src/queue.c", "enforce": "_dispatch_lane_resume_slow", "props": ["C06", "C15"], "nondet_volatile": true, "timeout": 120,
  "assumes": ["rely (while the side lock is held): the side-count bit of dq_state is set iff dq_side_suspend_cnt > 0, and dq_side_suspend_cnt is stable"],
  "stub_note": "side lock lock/unlock, _dispatch_lane_resume (retry): logged calls" }
VERIF*/
#ifdef VERIF_PRE
extern _Bool H_side_nonzero; extern const volatile void *H_state_p;
#define __VERIF_RELY(p, v) ((const volatile void *)(p) != H_state_p || (((((unsigned long long)(v)) >> 57) & 1) == (H_side_nonzero ? 1u : 0u)))
#else
#include "contracts/C06/suspend_common.h"
_Bool H_side_nonzero; const volatile void *H_state_p; uint32_t H_side0;
void _dispatch_lane_resume(dispatch_lane_class_t dqu, bool activate) { __verif_event(EV_CALL, 0, dqu._dl, CALL_RESUME, activate); }
#define COMMITTED (__verif_n == 3 && IS_COMMIT(1, &dq->dq_state))
VERIF_CONTRACT_VOID(_dispatch_lane_resume_slow, (dispatch_lane_t dq),
  REQ(dq == H_DQ && __verif_n == 0 && dq->dq_side_suspend_cnt == H_side0 && H_side_nonzero == (H_side0 != 0) && H_state_p == &dq->dq_state && H_side0 % SHALF == 0)
  ASG(dq->dq_state, dq->dq_side_suspend_cnt, VERIF_GHOST)
  ENS(runs_under_the_side_lock, __verif_n == 3 && LOGK(0) == EV_CALL && LOGA(0) == CALL_LOCK)
  /* HALF suspensions come back from the side count and one is consumed: total - 1; the side bit is cleared exactly when the side count reaches 0 */
  ENS(transfer_brings_back_half_and_consumes_one, VIMPL(COMMITTED,
        H_side0 >= SHALF && S_SUSP_CNT(LOGB(1)) + 1 == S_SUSP_CNT(LOGA(1)) + SHALF && dq->dq_side_suspend_cnt == H_side0 - SHALF &&
        S_SIDE(LOGB(1)) == (H_side0 > SHALF) && NON_SUSPEND_COUNT_BITS(LOGB(1) & ~SIDEBIT) == NON_SUSPEND_COUNT_BITS(LOGA(1) & ~SIDEBIT) && LOGA(2) == CALL_UNLOCK))
  ENS(otherwise_nothing_committed_and_plain_resume_retried, VIMPL(!COMMITTED,
        LOGK(1) == EV_CALL && LOGA(1) == CALL_UNLOCK && LOGK(2) == EV_CALL && LOGA(2) == CALL_RESUME && LOGB(2) == 0 && dq->dq_side_suspend_cnt == H_side0))
)
void harness(void)
{
	h_setup_lane();
	H_side0 = ND(uint32_t); H_lane.dq_side_suspend_cnt = H_side0; H_side_nonzero = (H_side0 != 0); H_state_p = &H_lane.dq_state;
	_dispatch_lane_resume_slow(H_DQ);
	VERIF_POST_VOID(_dispatch_lane_resume_slow, H_DQ);
	VERIF_REACH(last_transfer, __verif_n == 3 && IS_COMMIT(1, &H_lane.dq_state) && H_side0 == 32);
	VERIF_CANARY();
}
#endif
