/*VERIF
{ "tu": "src/object.c", "enforce": "dispatch_activate", "props": ["C06"], "seq": true, "timeout": 120,
  "rewrite_all": [["(&(dou._do)->do_vtable->_os_obj_vtable)->", "(dou._do)->do_vtable->_os_obj_vtable."]],
  "assumes": ["the object has a vtable of ANY type value and any reference count (a global object has the GLOBAL_REFCNT marker)"],
  "stub_note": "_dispatch_lane_suspend, _dispatch_lane_resume, _dispatch_workloop_activate (own contracts in C06): logged calls" }
VERIF*/
#ifdef VERIF_PRE
#else
enum { K_SUSPEND = 210, K_RESUME, K_WL_ACTIVATE };
struct dispatch_lane_s H_obj; struct dispatch_lane_vtable_s H_vt_any; unsigned long H_type; int H_ref0;
void _dispatch_lane_suspend(dispatch_lane_t dq) { __verif_event(K_SUSPEND, 0, dq, 0, 0); }
void _dispatch_lane_resume(dispatch_lane_t dq, bool activate) { __verif_event(K_RESUME, 0, dq, activate, 0); }
void _dispatch_workloop_activate(dispatch_workloop_t dwl) { __verif_event(K_WL_ACTIVATE, 0, dwl, 0, 0); }
#define IS_GLOBAL (H_ref0 == DISPATCH_OBJECT_GLOBAL_REFCNT)
#define IS_QUEUE_CLUSTER ((H_type & _DISPATCH_TYPE_CLUSTER_MASK) == _DISPATCH_QUEUE_CLUSTER)
#define IS_ROOT_OR_BASE ((H_type & (_DISPATCH_QUEUE_ROOT_TYPEFLAG | _DISPATCH_QUEUE_BASE_TYPEFLAG)) != 0)
#define IS_WORKLOOP ((H_type & _DISPATCH_META_TYPE_MASK) == _DISPATCH_WORKLOOP_TYPE)
VERIF_CONTRACT_VOID(dispatch_activate, (dispatch_object_t dou),
  REQ(dou._do == (struct dispatch_object_s *)&H_obj && __verif_n == 0 && H_obj.do_vtable == &H_vt_any && H_vt_any._os_obj_vtable.do_type == H_type && H_obj.do_ref_cnt == H_ref0)
  ASG(VERIF_GHOST)
  /* C06: dispatch_activate activates a work loop through its own primitive, every other queue-cluster object through the lane resume in ACTIVATE mode (which does
   * nothing on an already active object), exactly once; global objects and other clusters are left alone */
  ENS(exactly_one_activation_through_the_right_primitive, IS_GLOBAL ? __verif_n == 0 : IS_WORKLOOP ? (__verif_n == 1 && LOGK(0) == K_WL_ACTIVATE && LOGP(0) == (void *)&H_obj)
        : IS_QUEUE_CLUSTER ? (__verif_n == 1 && LOGK(0) == K_RESUME && LOGP(0) == (void *)&H_obj && LOGA(0) == 1) : __verif_n == 0)
)
void harness(void)
{
	VERIF_GHOST_RESET();
	H_type = ND(unsigned long); *(unsigned long *)&H_vt_any._os_obj_vtable.do_type = H_type; H_obj.do_vtable = &H_vt_any; H_ref0 = ND_BOOL() ? DISPATCH_OBJECT_GLOBAL_REFCNT : (int)(ND(unsigned) & 0xffff); H_obj.do_ref_cnt = H_ref0;
	dispatch_object_t dou; dou._do = (struct dispatch_object_s *)&H_obj;
	dispatch_activate(dou);
	VERIF_POST_VOID(dispatch_activate, dou);
	VERIF_REACH(a_source_is_acted_on, H_type == DISPATCH_SOURCE_KEVENT_TYPE && !IS_GLOBAL && __verif_n == 1);
	VERIF_CANARY();
}
#endif
