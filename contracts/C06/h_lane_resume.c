/*VERIF
{ "tu": "src/queue.c", "enforce": "_dispatch_lane_resume", "props": ["C06","C01","C17","C04","C10"], "nondet_volatile": true, "timeout": 200,
  "stub_note": "_dispatch_lane_resume_slow, _dispatch_lane_resume_activate, dx_wakeup, release_2: logged calls" }
VERIF*/
#ifdef VERIF_PRE
#else
#include "contracts/C06/suspend_common.h"
static void _dispatch_lane_resume_slow(dispatch_lane_t dq) { __verif_event(EV_CALL, 0, dq, CALL_RESUME_SLOW, 0); }
static void _dispatch_lane_resume_activate(dispatch_lane_t dq) { __verif_event(EV_CALL, 0, dq, CALL_RESUME_ACTIVATE, 0); }

#define SBITS DISPATCH_QUEUE_SUSPEND_BITS_MASK
#define B_NA DISPATCH_QUEUE_NEEDS_ACTIVATION
#define B_IN DISPATCH_QUEUE_INACTIVE
#define S_O LOGA(0)
#define S_N LOGB(0)
#define HAS_COMMIT (__verif_n >= 1 && IS_COMMIT(0, &H_lane.dq_state))
#define PLAIN_DEC (HAS_COMMIT && !activate && (S_O & SBITS) != (SINT + B_NA) && (S_N & ~(DISPATCH_QUEUE_DIRTY | DISPATCH_QUEUE_DRAIN_UNLOCK_MASK | DISPATCH_QUEUE_MAX_QOS_MASK | DISPATCH_QUEUE_IN_BARRIER | DISPATCH_QUEUE_WIDTH_MASK | DISPATCH_QUEUE_PENDING_BARRIER | DISPATCH_QUEUE_ENQUEUED)) == ((S_O - SINT) & ~(DISPATCH_QUEUE_DIRTY | DISPATCH_QUEUE_DRAIN_UNLOCK_MASK | DISPATCH_QUEUE_MAX_QOS_MASK | DISPATCH_QUEUE_IN_BARRIER | DISPATCH_QUEUE_WIDTH_MASK | DISPATCH_QUEUE_PENDING_BARRIER | DISPATCH_QUEUE_ENQUEUED)))
/* width accounting (C04): units held by readers / a drainer as encoded in a state word of a queue of width w */
#define HELD(s, w) (S_WIDTH13(s) - (DISPATCH_QUEUE_WIDTH_FULL - (w)) - (S_PENDING_B(s) ? (w) - 1 : 0))
#define WACC(s, w) (!S_IN_BARRIER(s) && S_WIDTH13(s) >= (DISPATCH_QUEUE_WIDTH_FULL - (w)) + (S_PENDING_B(s) ? (w) - 1 : 0) && HELD(s, w) <= (w))
VERIF_CONTRACT_VOID(_dispatch_lane_resume, (dispatch_lane_class_t dqu, bool activate),
  REQ(dqu._dl == H_DQ && __verif_n == 0 && VALID_WIDTH(H_lane.dq_width) && VALID_TID(H_SELF))
  ASG(H_lane.dq_state, VERIF_GHOST)
  ENS(log_bounded, __verif_n <= 3)
  /* ---- dispatch_activate */
  ENS(activate_of_inactive_unsuspended_becomes_one_suspension_then_activation_hook, VIMPL(activate && HAS_COMMIT && (S_O & SBITS) == (B_NA + B_IN),
        S_N == S_O - B_IN - B_NA + SINT && LOGK(LAST) == EV_CALL && LOGA(LAST) == CALL_RESUME_ACTIVATE && __verif_n == 2))
  ENS(activate_of_inactive_suspended_only_clears_inactive, VIMPL(activate && HAS_COMMIT && (S_O & SBITS) != (B_NA + B_IN), S_INACTIVE(S_O) && S_N == S_O - B_IN && __verif_n == 1))
  ENS(activate_of_active_object_is_a_noop, VIMPL(activate && !HAS_COMMIT, __verif_n == 0 && !S_INACTIVE(__verif_last_load)))
  /* ---- dispatch_resume */
  ENS(resume_is_release_ordered, VIMPL(!activate && HAS_COMMIT, VMO_IS_REL(LOGM(0))))
  ENS(last_resume_of_needs_activation_runs_the_activation_hook, VIMPL(!activate && HAS_COMMIT && (S_O & SBITS) == (SINT + B_NA),
        S_N == S_O - B_NA && LOGK(LAST) == EV_CALL && LOGA(LAST) == CALL_RESUME_ACTIVATE))
  ENS(resume_consumes_exactly_one_suspension, VIMPL(!activate && HAS_COMMIT && (S_O & SBITS) != (SINT + B_NA), S_SUSP_CNT(S_N) + 1 == S_SUSP_CNT(S_O) && S_SUSP_CNT(S_O) >= 1 && (S_N & (B_IN | B_NA | SIDEBIT)) == (S_O & (B_IN | B_NA | SIDEBIT))))
  ENS(inline_count_exhausted_goes_to_the_side_count_or_is_an_over_resume, VIMPL(!activate && !HAS_COMMIT,
        __verif_n == 1 && LOGK(0) == EV_CALL && LOGA(0) == CALL_RESUME_SLOW && S_SIDE(__verif_last_load) && S_SUSP_CNT(__verif_last_load) == 0))
  /* still suspended (or inactive) afterwards: nothing may be started */
  ENS(still_suspended_wakes_nobody, VIMPL(!activate && HAS_COMMIT && (S_O & SBITS) != (SINT + B_NA) && S_SUSPENDED(S_N), __verif_n == 1 && !S_IN_BARRIER(S_N ^ S_O)))
  /* the last resume never leaves the queue without a re-drive: barrier take-over, wakeup, or DIRTY for whoever holds width/the lock */
  ENS(last_resume_redrives_the_queue, VIMPL(!activate && HAS_COMMIT && (S_O & SBITS) != (SINT + B_NA) && !S_SUSPENDED(S_N),
        ((S_N ^ S_O) & DISPATCH_QUEUE_IN_BARRIER) ? (LOGK(LAST) == EV_WAKEUP && (LOGA(LAST) & DISPATCH_WAKEUP_BARRIER_COMPLETE) && (LOGA(LAST) & DISPATCH_WAKEUP_CONSUME_2) && S_OWNER(S_N) == H_SELF && !S_LOCKED(S_O))
        : (!S_RUNNABLE(S_N) || S_LOCKED(S_N)) ? (S_DIRTY(S_N) && VIMPL(!S_RUNNABLE(S_N), LOGK(LAST) == EV_RELEASE && LOGA(LAST) == 2))
        : (LOGK(LAST) == EV_WAKEUP && (LOGA(LAST) & DISPATCH_WAKEUP_CONSUME_2) && !(LOGA(LAST) & DISPATCH_WAKEUP_BARRIER_COMPLETE))))
  /* C04: the resumer may make itself the barrier owner (full width) only when NOBODY holds a unit of width */
  ENS(barrier_takeover_on_resume_only_when_nobody_holds_width, VIMPL(!activate && HAS_COMMIT && ((S_N ^ S_O) & DISPATCH_QUEUE_IN_BARRIER) && WACC(S_O, H_lane.dq_width) && H_lane.dq_width <= DISPATCH_QUEUE_WIDTH_MAX,
        HELD(S_O, H_lane.dq_width) == 0 && S_FULL(S_N) && S_IN_BARRIER(S_N) && !S_PENDING_B(S_N)))
  ENS(plus_two_of_the_first_suspend_is_consumed_exactly_once, VIMPL(!activate && HAS_COMMIT && (S_O & SBITS) != (SINT + B_NA) && !S_SUSPENDED(S_N),
        (LOGK(LAST) == EV_WAKEUP && (LOGA(LAST) & DISPATCH_WAKEUP_CONSUME_2)) || (LOGK(LAST) == EV_RELEASE && LOGA(LAST) == 2)))
)
void harness(void)
{
	h_setup_lane(); h_setup_target();
	bool activate = ND_BOOL();
	_dispatch_lane_resume(H_DQ, activate);
	VERIF_POST_VOID(_dispatch_lane_resume, (dispatch_lane_class_t){ ._dl = H_DQ }, activate);
	VERIF_REACH(barrier_takeover, !activate && __verif_n == 2 && ((LOGA(0) ^ LOGB(0)) & DISPATCH_QUEUE_IN_BARRIER));
	VERIF_REACH(plain_wakeup, !activate && LOGK(LAST) == EV_WAKEUP && !(LOGA(LAST) & DISPATCH_WAKEUP_BARRIER_COMPLETE));
	VERIF_CANARY();
}
#endif
