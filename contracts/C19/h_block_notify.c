/*VERIF
{ "tu": "src/queue.c", "enforce": "dispatch_block_notify", "props": ["C19"], "timeout": 200,
  "stub_note": "dispatch_group_notify (own contract: C07 h_group_notify): logged; _dispatch_block_get_data (Blocks ABI): harness object or NULL" }
VERIF*/
#ifdef VERIF_PRE
#define __VERIF_RELY(p, v) 1
#else
#include "contracts/C19/block_common.h"
#define K_GROUP_NOTIFY 120
_Bool H_not_a_block_object;
struct dispatch_queue_s H_nq; dispatch_block_t H_nb;
void dispatch_group_notify(dispatch_group_t dg, dispatch_queue_t dq, dispatch_block_t db) { H_nb = db; __verif_event(K_GROUP_NOTIFY, 0, dg, (unsigned long long)(uintptr_t)dq, 0); }
static void h_notification(void) { }
/* a notification on a block object IS a notification on its private group: it fires when the block completes (the group
 * is left exactly once, on the first completion: h_block_sync_invoke / h_block_invoke_direct / h_block_async_invoke2) */
VERIF_CONTRACT_VOID(dispatch_block_notify, (dispatch_block_t db, dispatch_queue_t queue, dispatch_block_t notification_block),
  REQ(__verif_n == 0 && queue == &H_nq && notification_block == (dispatch_block_t)h_notification && H_dbpd.dbpd_group == &H_grp)
  ASG(VERIF_GHOST, H_nb)
  ENS(observing_a_block_that_ran_more_than_once_is_a_crash, VIMPL(!__verif_crashed, (int)__verif_last_load <= 1 && __verif_last_load_p == PERF_P))
  ENS(notification_is_registered_exactly_once_on_the_blocks_private_group, VIMPL(!__verif_crashed,
        __verif_n == 1 && LOGK(0) == K_GROUP_NOTIFY && LOGP(0) == (void *)&H_grp && LOGA(0) == (unsigned long long)(uintptr_t)&H_nq && H_nb == (dispatch_block_t)h_notification))
)
void harness(void)
{
	h_setup_block();
	dispatch_block_notify((dispatch_block_t)h_body, &H_nq, (dispatch_block_t)h_notification);
	VERIF_POST_VOID(dispatch_block_notify, (dispatch_block_t)h_body, &H_nq, (dispatch_block_t)h_notification);
	VERIF_CANARY();
}
#endif
