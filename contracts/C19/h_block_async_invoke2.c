/*VERIF
{ "tu": "src/queue.c", "enforce": "_dispatch_block_async_invoke2", "props": ["C19"], "timeout": 200,
  "assumes": ["the block's flag word is read as stored at entry (a cancel racing with the start is 'cancelled while running': not interrupted)"],
  "stub_note": "block body, dispatch_group_leave, _dispatch_block_get_data (Blocks ABI), voucher/priority bookkeeping, release: stubs with ghost order" }
VERIF*/
#ifdef VERIF_PRE
#else
#include "contracts/C19/block_common.h"
static inline voucher_t _dispatch_adopt_priority_and_set_voucher(pthread_priority_t pp, voucher_t v, dispatch_thread_set_self_t flags) { (void)pp; (void)v; (void)flags; return 0; }
static inline void _dispatch_reset_voucher(voucher_t v, dispatch_thread_set_self_t flags) { (void)v; (void)flags; }
void _Block_release(const void *b) { (void)b; }
#define CANCELED0 ((H_flags0 & DBF_CANCELED) != 0)
unsigned H_flags0;
VERIF_CONTRACT_VOID(_dispatch_block_async_invoke2, (dispatch_block_t b, unsigned long invoke_flags),
  REQ(H_dbpd.dbpd_atomic_flags == H_flags0 && !(H_flags0 & DBF_WAITED) && H_bodies == 0 && H_leaves == 0 && H_seq == 0 && __verif_n == 0 && H_dbpd.dbpd_group == &H_grp)
  ASG(__CPROVER_object_whole(&H_dbpd), BLOCK_GHOST, VERIF_GHOST)
  /* cancelled before it starts: the body never runs; otherwise exactly once */
  ENS(body_runs_exactly_once_unless_cancelled_before_start, H_bodies == (CANCELED0 ? 0u : 1u))
  /* ... yet the block still COMPLETES for waiters and notifiers: the private group is left on the first completion, after the body */
  ENS(first_completion_leaves_the_group_even_when_cancelled, VIMPL(!(H_flags0 & DBF_PERFORM),
        (__verif_n >= 1 && IS_COMMIT(0, PERF_P) && (int)LOGB(0) == (int)((unsigned)LOGA(0) + 1u)) &&
        (H_leaves == (((int)LOGB(0) == 1) ? 1u : 0u)) && !H_leave_wrong_group && VIMPL(H_leaves == 1 && H_bodies == 1, H_leave_at > H_body_at)))
  ENS(perform_blocks_do_not_touch_the_group, VIMPL(H_flags0 & DBF_PERFORM, H_leaves == 0))
)
void harness(void)
{
	h_setup_block(); H_flags0 = H_dbpd.dbpd_atomic_flags;
	__verif_ptrloc = &H_dbpd.dbpd_queue; __verif_ptrobj = &H_target;
	unsigned long fl = ND(unsigned long);
	_dispatch_block_async_invoke2((dispatch_block_t)h_body, fl);
	VERIF_POST_VOID(_dispatch_block_async_invoke2, (dispatch_block_t)h_body, fl);
	VERIF_REACH(cancelled_completion, H_bodies == 0 && H_leaves == 1);
	VERIF_REACH(normal_completion, H_bodies == 1 && H_leaves == 1);
	VERIF_CANARY();
}
#endif
