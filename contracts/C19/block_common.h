/* C19 scaffolding: the private data of a block object (its Blocks-ABI wrapper is src/block.cpp: out of reach) */
#define DQ_STUB_REFS 1
#define DQ_STUB_TARGET 1
#include "contracts/common/dq_common.h"
struct dispatch_block_private_data_s H_dbpd; struct dispatch_group_s H_grp;
unsigned H_bodies, H_leaves; _Bool H_leave_before_body, H_leave_wrong_group; unsigned H_seq, H_body_at, H_leave_at;
static void h_body(void) { H_bodies++; H_body_at = ++H_seq; }
void dispatch_group_leave(dispatch_group_t dg) { H_leaves++; H_leave_at = ++H_seq; if (dg != &H_grp) H_leave_wrong_group = 1; }
static inline dispatch_block_private_data_t _dispatch_block_get_data(const dispatch_block_t db) { (void)db; return &H_dbpd; }
#define FLAGS_P ((const volatile void *)&H_dbpd.dbpd_atomic_flags)
#define PERF_P ((const volatile void *)&H_dbpd.dbpd_performed)
static inline void h_setup_block(void)
{
	VERIF_GHOST_RESET();
	uint32_t tid = ND(uint32_t); __CPROVER_assume(VALID_TID(tid)); __dispatch_tsd.tid = (pid_t)tid;
	H_dbpd.dbpd_block = (dispatch_block_t)h_body; H_dbpd.dbpd_group = &H_grp; H_dbpd.dbpd_flags = ND(dispatch_block_flags_t);
	H_dbpd.dbpd_atomic_flags = ND(unsigned);
	H_bodies = H_leaves = 0; H_seq = 0; H_leave_wrong_group = 0;
}
#define BLOCK_GHOST H_bodies, H_leaves, H_seq, H_body_at, H_leave_at, H_leave_wrong_group
