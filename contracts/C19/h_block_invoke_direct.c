/*VERIF
{ "tu": "src/queue.c", "enforce": "_dispatch_block_invoke_direct", "props": ["C19"], "timeout": 200,
  "assumes": ["the block's flag word is read as stored at entry (a cancel racing with the start is 'cancelled while running': not interrupted)"],
  "stub_note": "block body (via _dispatch_client_callout), dispatch_group_leave, voucher/priority bookkeeping: stubs with ghost order" }
VERIF*/
#ifdef VERIF_PRE
#else
#include "contracts/C19/block_common.h"
static inline voucher_t _dispatch_set_priority_and_voucher(pthread_priority_t pp, voucher_t v, dispatch_thread_set_self_t flags) { (void)pp; (void)v; (void)flags; return 0; }
static inline void _dispatch_reset_priority_and_voucher(pthread_priority_t pp, voucher_t v) { (void)pp; (void)v; }
struct Block_layout H_blk;
void _dispatch_client_callout(void *ctxt, dispatch_function_t f) { (void)f; if (ctxt != (void *)&H_blk) H_leave_wrong_group = 1; h_body(); }
#define CANCELED0 ((H_flags0 & DBF_CANCELED) != 0)
unsigned H_flags0;
/* direct invocation of a block object (called like a function, e.g. by dispatch_async's continuation): same life cycle as
 * the sync path -- body skipped iff cancelled before the start, first completion leaves the private group, after the body */
VERIF_CONTRACT_VOID(_dispatch_block_invoke_direct, (const struct dispatch_block_private_data_s *dbcpd),
  REQ(dbcpd == &H_dbpd && H_dbpd.dbpd_atomic_flags == H_flags0 && H_bodies == 0 && H_leaves == 0 && H_seq == 0 && __verif_n == 0 && H_dbpd.dbpd_group == &H_grp && H_dbpd.dbpd_block == (dispatch_block_t)(void *)&H_blk && !H_leave_wrong_group)
  ASG(__CPROVER_object_whole(&H_dbpd), BLOCK_GHOST, VERIF_GHOST)
  ENS(waited_for_block_cannot_be_run_again, __verif_crashed == ((H_flags0 & DBF_WAITED) != 0))
  ENS(body_runs_exactly_once_unless_cancelled_before_start, VIMPL(!__verif_crashed, H_bodies == (CANCELED0 ? 0u : 1u) && !H_leave_wrong_group))
  ENS(first_completion_leaves_the_group_even_when_cancelled, VIMPL(!__verif_crashed && !(H_flags0 & DBF_PERFORM),
        (__verif_n >= 1 && IS_COMMIT(LAST, PERF_P) && (int)LOGB(LAST) == (int)((unsigned)LOGA(LAST) + 1u)) &&
        (H_leaves == (((int)LOGB(LAST) == 1) ? 1u : 0u)) && VIMPL(H_leaves == 1 && H_bodies == 1, H_leave_at > H_body_at)))
  ENS(perform_blocks_do_not_touch_the_group, VIMPL(!__verif_crashed && (H_flags0 & DBF_PERFORM), H_leaves == 0))
  ENS(running_thread_is_recorded_before_the_body, VIMPL(!__verif_crashed && !CANCELED0, H_dbpd.dbpd_thread == (dispatch_tid)H_SELF))
)
void harness(void)
{
	h_setup_block(); H_flags0 = H_dbpd.dbpd_atomic_flags; H_dbpd.dbpd_block = (dispatch_block_t)(void *)&H_blk; H_blk.invoke = (void *)h_body;
	_dispatch_block_invoke_direct(&H_dbpd);
	VERIF_POST_VOID(_dispatch_block_invoke_direct, &H_dbpd);
	VERIF_REACH(cancelled_completion, H_bodies == 0 && H_leaves == 1);
	VERIF_REACH(normal_completion, H_bodies == 1 && H_leaves == 1);
	VERIF_CANARY();
}
#endif
