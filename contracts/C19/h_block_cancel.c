/*VERIF
{ "tu": "src/queue.c", "enforce": "dispatch_block_cancel", "props": ["C19"], "nondet_volatile": true, "timeout": 120,
  "roots": ["dispatch_block_testcancel"] }
VERIF*/
#ifdef VERIF_PRE
#else
#include "contracts/C19/block_common.h"
VERIF_CONTRACT_VOID(dispatch_block_cancel, (dispatch_block_t db),
  REQ(__verif_n == 0)
  ASG(H_dbpd.dbpd_atomic_flags, VERIF_GHOST)
  /* cancel is one atomic set of the flag: it never interrupts, waits, or touches anything else */
  ENS(cancel_is_one_atomic_flag_set, __verif_n == 1 && IS_COMMIT(0, FLAGS_P) && LOGB(0) == (LOGA(0) | DBF_CANCELED))
)
void harness(void)
{
	h_setup_block();
	dispatch_block_cancel((dispatch_block_t)h_body);
	VERIF_POST_VOID(dispatch_block_cancel, (dispatch_block_t)h_body);
	VERIF_CANARY();
}
#endif
