/*VERIF
{ "tu": "src/queue.c", "enforce": "dispatch_block_testcancel", "props": ["C19"], "seq": true, "timeout": 120,
  "assumes": ["the block is a block object (dispatch_block_create*): anything else is the documented client crash"],
  "stub_note": "_dispatch_block_get_data (Blocks-ABI layout: block.cpp, out of reach): returns the harness private data" }
VERIF*/
#ifdef VERIF_PRE
#else
#include "contracts/C19/block_common.h"
unsigned H_f0;
VERIF_CONTRACT(intptr_t, dispatch_block_testcancel, (dispatch_block_t db),
  REQ(H_dbpd.dbpd_atomic_flags == H_f0)
  ASG(VERIF_GHOST)
  /* C19: testcancel reports exactly the cancelled mark (1 / 0) - the mark dispatch_block_cancel sets once and the invoke paths look at before running the body */
  ENS(reports_exactly_the_cancelled_mark, __CPROVER_return_value == ((H_f0 & DBF_CANCELED) ? 1 : 0))
)
void harness(void)
{
	h_setup_block(); H_f0 = H_dbpd.dbpd_atomic_flags;
	intptr_t r = dispatch_block_testcancel((dispatch_block_t)h_body);
	VERIF_POST(dispatch_block_testcancel, r, (dispatch_block_t)h_body);
	VERIF_REACH(cancelled, r == 1);
	VERIF_CANARY();
}
#endif
