/*VERIF
{ "tu": "src/queue.c", "enforce": "dispatch_block_wait", "props": ["C19", "C17"], "nondet_volatile": true, "timeout": 200,
  "stub_note": "dispatch_group_wait (contract in C07): arbitrary result, logged; priority/override bookkeeping: stubs" }
VERIF*/
#ifdef VERIF_PRE
/* guarantee on the block's flag word: dispatch_block_wait only ever sets WAITING, then either clears WAITING again (timeout)
 * or sets WAITED (success) -- it never writes back a stale snapshot, so a concurrent cancel is never erased */
#define __VERIF_GUARANTEE(p, ov, nv, mo) ((const volatile void *)(p) != H_flags_p || (nv) == ((ov) | 0x2u) || (nv) == ((ov) & ~0x2ull & 0xffffffffull) || (nv) == ((ov) | 0x4u))
extern const volatile void *H_flags_p;
#else
#include "contracts/C19/block_common.h"
#define DBQ_P ((const volatile void *)&H_dbpd.dbpd_queue)
const volatile void *H_flags_p; long H_wait_result; dispatch_time_t H_wait_timeout; unsigned H_group_waits;
long dispatch_group_wait(dispatch_group_t dg, dispatch_time_t timeout) { if (dg != &H_grp) H_leave_wrong_group = 1; H_group_waits++; H_wait_timeout = timeout; H_wait_result = ND_BOOL() ? 0 : -1; __verif_event(EV_CALL, 0, dg, 71, 0); return H_wait_result; }
static inline pthread_priority_t _dispatch_get_priority(void) { return 0; }
static inline void _dispatch_thread_override_start(mach_port_t thread, pthread_priority_t pp, void *resource) { (void)thread; (void)pp; (void)resource; }
static inline void _dispatch_thread_override_end(mach_port_t thread, void *resource) { (void)thread; (void)resource; }
VERIF_CONTRACT(intptr_t, dispatch_block_wait, (dispatch_block_t db, dispatch_time_t timeout),
  REQ(H_flags_p == &H_dbpd.dbpd_atomic_flags && __verif_n == 0 && H_group_waits == 0 && DBF_WAITING == 0x2u && DBF_WAITED == 0x4u && H_dbpd.dbpd_group == &H_grp)
  ASG(__CPROVER_object_whole(&H_dbpd), H_wait_result, H_wait_timeout, H_group_waits, H_leave_wrong_group, VERIF_GHOST)
  ENS(marks_the_block_as_being_waited_for_first, __verif_n >= 1 && IS_COMMIT(0, FLAGS_P) && LOGB(0) == (LOGA(0) | DBF_WAITING) && !(LOGA(0) & (DBF_WAITED | DBF_WAITING)))
  /* the result is exactly that of waiting on the block's private group (zero only after the completion left it; non-zero only after the full timeout: C07) */
  ENS(result_is_the_private_groups_wait_with_the_same_timeout, H_group_waits == 1 && !H_leave_wrong_group && H_wait_timeout == timeout && __CPROVER_return_value == H_wait_result)
  /* C17: the queue recorded in the block carries the +2 taken at submission.  The wait takes it out of the block with ONE exchange, hands the +2 to exactly one
   * CONSUME_2 wakeup of that queue, and NEVER puts the pointer back (also not after a timeout): a pointer put back without a reference is released twice by the
   * block's completion */
  ENS(the_recorded_queue_is_taken_out_once_its_plus_two_consumed_by_one_wakeup_and_never_put_back, __verif_n >= 4 && IS_COMMIT(1, DBQ_P) && LOGB(1) == 0
        && (LOGA(1) != 0 ? (__verif_n == 5 && LOGK(2) == EV_WAKEUP && LOGP(2) == (void *)(uintptr_t)LOGA(1) && (LOGA(2) & DISPATCH_WAKEUP_CONSUME_2) && (LOGA(2) & DISPATCH_WAKEUP_BLOCK_WAIT) && LOGK(3) == EV_CALL)
                         : (__verif_n == 4 && LOGK(2) == EV_CALL)))
  ENS(timeout_clears_only_the_waiting_mark, VIMPL(__CPROVER_return_value != 0, IS_COMMIT(LAST, FLAGS_P) && LOGB(LAST) == (LOGA(LAST) & ~(unsigned long long)DBF_WAITING & 0xffffffffull)))
  ENS(success_marks_the_block_as_waited, VIMPL(__CPROVER_return_value == 0, IS_COMMIT(LAST, FLAGS_P) && LOGB(LAST) == (LOGA(LAST) | DBF_WAITED)))
)
void harness(void)
{
	h_setup_block(); H_flags_p = &H_dbpd.dbpd_atomic_flags; H_group_waits = 0;
	h_setup_target(); __verif_ptrloc = &H_dbpd.dbpd_queue; __verif_ptrobj = &H_target;
	dispatch_time_t t = ND(dispatch_time_t);
	intptr_t r = dispatch_block_wait((dispatch_block_t)h_body, t);
	VERIF_POST(dispatch_block_wait, r, (dispatch_block_t)h_body, t);
	VERIF_REACH(timed_out, r != 0);
	VERIF_REACH(timed_out_with_a_recorded_queue, r != 0 && __verif_n == 5);
	VERIF_CANARY();
}
#endif
