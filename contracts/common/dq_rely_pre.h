/* PRE section: rely clause on dq_state loads.  While the caller holds k width units of the
 * lane under test, every value of dq_state it can observe has a width counter that
 * includes them:  width13(v) >= (0x1000 - W) + k   (guaranteed by the width-accounting
 * contracts of C04: nobody gives back width it does not hold). */
extern const volatile void *H_rely_ptr;
extern unsigned long long H_rely_minw;
#define __VERIF_RELY(p, v) ((const volatile void *)(p) != H_rely_ptr || \
		((((unsigned long long)(v)) >> 41) & 0x1fff) >= H_rely_minw)
/* second rely: a pointer-valued location (e.g. an MPSC tail) holds NULL or one given valid node */
extern const volatile void *H_relyp_ptr;
extern unsigned long long H_relyp_val;
#undef __VERIF_RELY
#define __VERIF_RELY(p, v) (((const volatile void *)(p) != H_rely_ptr || \
		((((unsigned long long)(v)) >> 41) & 0x1fff) >= H_rely_minw) && \
		((const volatile void *)(p) != H_relyp_ptr || (unsigned long long)(v) == 0 || (unsigned long long)(v) == H_relyp_val))
