/* shared scaffolding for the dq_state harnesses (C01-C06, C10, C15-C17) */
#ifndef DQ_COMMON_H
#define DQ_COMMON_H
/* ---- spec predicates over a committed state word (from the layout documented in queue_internal.h) */
#define S_OWNER(s)        ((uint64_t)(s) & DISPATCH_QUEUE_DRAIN_OWNER_MASK)
#define S_LOCKED(s)       (S_OWNER(s) != 0)
#define S_ENQUEUED(s)     (((s) & DISPATCH_QUEUE_ENQUEUED) != 0)
#define S_ENQ_MGR(s)      (((s) & DISPATCH_QUEUE_ENQUEUED_ON_MGR) != 0)
#define S_DIRTY(s)        (((s) & DISPATCH_QUEUE_DIRTY) != 0)
#define S_PENDING_B(s)    (((s) & DISPATCH_QUEUE_PENDING_BARRIER) != 0)
#define S_IN_BARRIER(s)   (((s) & DISPATCH_QUEUE_IN_BARRIER) != 0)
#define S_FULL(s)         (((s) & DISPATCH_QUEUE_WIDTH_FULL_BIT) != 0)
#define S_SUSPENDED(s)    ((uint64_t)(s) >= DISPATCH_QUEUE_NEEDS_ACTIVATION)
#define S_INACTIVE(s)     (((s) & DISPATCH_QUEUE_INACTIVE) != 0)
#define S_NEEDS_ACT(s)    (((s) & DISPATCH_QUEUE_NEEDS_ACTIVATION) != 0)
#define S_SIDE(s)         (((s) & DISPATCH_QUEUE_HAS_SIDE_SUSPEND_CNT) != 0)
#define S_SUSP_CNT(s)     ((uint64_t)(s) >> 58)
#define S_ROLE(s)         ((s) & DISPATCH_QUEUE_ROLE_MASK)
#define S_RUNNABLE(s)     ((uint64_t)(s) < DISPATCH_QUEUE_WIDTH_FULL_BIT)
#define S_SYNC_RUNNABLE(s) ((uint64_t)(s) < DISPATCH_QUEUE_IN_BARRIER)
/* width in use, in units (the 13-bit counter formed by FULL_BIT|WIDTH_MASK) */
#define S_WIDTH13(s)      ((((uint64_t)(s)) >> DISPATCH_QUEUE_WIDTH_SHIFT) & 0x1fff)
#define S_INIT(w)         ((DISPATCH_QUEUE_WIDTH_FULL - (uint64_t)(w)) << DISPATCH_QUEUE_WIDTH_SHIFT)
#define W_INT             DISPATCH_QUEUE_WIDTH_INTERVAL
#define VALID_WIDTH(w)    ((w) >= 1 && (w) <= DISPATCH_QUEUE_WIDTH_POOL)
#define VALID_TID(t)      ((t) != 0 && ((t) & ~DLOCK_OWNER_MASK) == 0)

/* ---- thread identity */
_Thread_local struct dispatch_tsd __dispatch_tsd;
#define H_SELF ((uint64_t)(uint32_t)__dispatch_tsd.tid)
void libdispatch_tsd_init(void) { __CPROVER_assert(0, "VA:tsd_already_initialised"); }

/* rely parameters (see dq_rely_pre.h); inactive unless the harness sets H_rely_ptr */
const volatile void *H_rely_ptr; unsigned long long H_rely_minw;
const volatile void *H_relyp_ptr; unsigned long long H_relyp_val;
#define H_RELY_HOLDING_WIDTH(k) do { H_rely_ptr = &H_lane.dq_state; H_rely_minw = (DISPATCH_QUEUE_WIDTH_FULL - H_lane.dq_width) + (k); } while (0)
/* ---- the lane under test (object) */
struct dispatch_lane_s H_lane;
#define H_DQ (&H_lane)
/* ---- priority/override bookkeeping stubs (no effect on dq_state; trusted) */
#ifndef DQ_NO_PRI_STUBS
static inline void _dispatch_set_basepri_override_qos(dispatch_qos_t qos) { (void)qos; }
static inline dispatch_qos_t _dispatch_get_basepri_override_qos_floor(void) { return ND(dispatch_qos_t) & 7; }
static inline void _dispatch_wqthread_override_start(mach_port_t thread, dispatch_qos_t qos) { (void)thread; (void)qos; }
#endif
/* ---- reference-count stubs: each call is ONE logged event (the real retain/release
 * arithmetic is under contract in C17); enabled with #define DQ_STUB_REFS */
#ifdef DQ_STUB_REFS
static inline void _dispatch_retain(dispatch_object_t dou) { __verif_event(EV_RETAIN, 0, dou._do, 1, 0); }
static inline void _dispatch_retain_2(dispatch_object_t dou) { __verif_event(EV_RETAIN, 0, dou._do, 2, 0); }
static inline void _dispatch_retain_2_unsafe(dispatch_object_t dou) { __verif_event(EV_RETAIN, 0, dou._do, 2, 0); }
static inline void _dispatch_release(dispatch_object_t dou) { __verif_event(EV_RELEASE, 0, dou._do, 1, 0); }
static inline void _dispatch_release_2(dispatch_object_t dou) { __verif_event(EV_RELEASE, 0, dou._do, 2, 0); }
static inline void _dispatch_release_tailcall(dispatch_object_t dou) { __verif_event(EV_RELEASE, 0, dou._do, 1, 0); }
static inline void _dispatch_release_2_tailcall(dispatch_object_t dou) { __verif_event(EV_RELEASE, 0, dou._do, 2, 0); }
static inline void _dispatch_release_2_no_dispose(dispatch_object_t dou) { __verif_event(EV_RELEASE, 0, dou._do, 2, 0); }
static inline void _dispatch_release_no_dispose(dispatch_object_t dou) { __verif_event(EV_RELEASE, 0, dou._do, 1, 0); }
static inline void _dispatch_release_n(dispatch_object_t dou, int n) { __verif_event(EV_RELEASE, 0, dou._do, (unsigned long long)n, 0); }
static inline void _dispatch_retain_n(dispatch_object_t dou, int n) { __verif_event(EV_RETAIN, 0, dou._do, (unsigned long long)n, 0); }
#endif
/* ---- a target queue whose vtable entries are logging stubs (dx_push / dx_wakeup call-outs) */
#ifdef DQ_STUB_TARGET
struct dispatch_lane_s H_target;
static void h_tq_push(dispatch_queue_class_t dq, dispatch_object_t dou, dispatch_qos_t qos)
{ __verif_event(EV_PUSH, 0, dq._dq, (unsigned long long)(uintptr_t)dou._do, qos); }
static void h_tq_wakeup(dispatch_queue_class_t dq, dispatch_qos_t qos, dispatch_wakeup_flags_t flags)
{ __verif_event(EV_WAKEUP, 0, dq._dq, flags, qos); }
#ifndef H_LANE_TYPE
#define H_LANE_TYPE DISPATCH_QUEUE_CONCURRENT_TYPE
#endif
static const struct dispatch_lane_vtable_s H_vtable = {
	._os_obj_vtable = { .do_type = H_LANE_TYPE, .dq_push = h_tq_push, .dq_wakeup = h_tq_wakeup },
};
static inline void h_setup_target(void)
{
	H_target.do_vtable = &H_vtable;
	H_lane.do_vtable = &H_vtable;
	H_lane.do_targetq = (dispatch_queue_t)&H_target;
}
#endif

/* ---- the lane under test */
static inline void h_setup_lane(void)
{
	VERIF_GHOST_RESET();
	uint32_t tid = ND(uint32_t);
	__CPROVER_assume(VALID_TID(tid));
	__dispatch_tsd.tid = (pid_t)tid;
	uint16_t w = ND(uint16_t);
	__CPROVER_assume(VALID_WIDTH(w));
	*(uint16_t *)&H_lane.dq_width = w; /* const field */
}
#endif
