/* shared scaffolding for the dq_state harnesses (C01-C06, C10, C15-C17) */
#ifndef DQ_COMMON_H
#define DQ_COMMON_H
/* ---- spec predicates over a committed state word (from the layout documented in queue_internal.h) */
#define S_OWNER(s)        ((uint64_t)(s) & DISPATCH_QUEUE_DRAIN_OWNER_MASK)
#define S_LOCKED(s)       (S_OWNER(s) != 0)
#define S_ENQUEUED(s)     (((s) & DISPATCH_QUEUE_ENQUEUED) != 0)
#define S_ENQ_MGR(s)      (((s) & DISPATCH_QUEUE_ENQUEUED_ON_MGR) != 0)
#define S_DIRTY(s)        (((s) & DISPATCH_QUEUE_DIRTY) != 0)
#define S_PENDING_B(s)    (((s) & DISPATCH_QUEUE_PENDING_BARRIER) != 0)
#define S_IN_BARRIER(s)   (((s) & DISPATCH_QUEUE_IN_BARRIER) != 0)
#define S_FULL(s)         (((s) & DISPATCH_QUEUE_WIDTH_FULL_BIT) != 0)
#define S_SUSPENDED(s)    ((uint64_t)(s) >= DISPATCH_QUEUE_NEEDS_ACTIVATION)
#define S_INACTIVE(s)     (((s) & DISPATCH_QUEUE_INACTIVE) != 0)
#define S_NEEDS_ACT(s)    (((s) & DISPATCH_QUEUE_NEEDS_ACTIVATION) != 0)
#define S_SIDE(s)         (((s) & DISPATCH_QUEUE_HAS_SIDE_SUSPEND_CNT) != 0)
#define S_SUSP_CNT(s)     ((uint64_t)(s) >> 58)
#define S_ROLE(s)         ((s) & DISPATCH_QUEUE_ROLE_MASK)
#define S_RUNNABLE(s)     ((uint64_t)(s) < DISPATCH_QUEUE_WIDTH_FULL_BIT)
#define S_SYNC_RUNNABLE(s) ((uint64_t)(s) < DISPATCH_QUEUE_IN_BARRIER)
/* width in use, in units (the 13-bit counter formed by FULL_BIT|WIDTH_MASK) */
#define S_WIDTH13(s)      ((((uint64_t)(s)) >> DISPATCH_QUEUE_WIDTH_SHIFT) & 0x1fff)
#define S_INIT(w)         ((DISPATCH_QUEUE_WIDTH_FULL - (uint64_t)(w)) << DISPATCH_QUEUE_WIDTH_SHIFT)
#define W_INT             DISPATCH_QUEUE_WIDTH_INTERVAL
#define VALID_WIDTH(w)    ((w) >= 1 && (w) <= DISPATCH_QUEUE_WIDTH_POOL)
#define VALID_TID(t)      ((t) != 0 && ((t) & ~DLOCK_OWNER_MASK) == 0)

/* ---- thread identity */
_Thread_local struct dispatch_tsd __dispatch_tsd;
#define H_SELF ((uint64_t)(uint32_t)__dispatch_tsd.tid)
void libdispatch_tsd_init(void) { __CPROVER_assert(0, "VA:tsd_already_initialised"); }

/* ---- the lane under test */
struct dispatch_lane_s H_lane;
#define H_DQ (&H_lane)
static inline void h_setup_lane(void)
{
	VERIF_GHOST_RESET();
	uint32_t tid = ND(uint32_t);
	__CPROVER_assume(VALID_TID(tid));
	__dispatch_tsd.tid = (pid_t)tid;
	uint16_t w = ND(uint16_t);
	__CPROVER_assume(VALID_WIDTH(w));
	*(uint16_t *)&H_lane.dq_width = w; /* const field */
}
#endif
