/*VERIF
{ "tu": "src/time.c", "enforce": "dispatch_walltime", "seq": true, "plain": true, "timeout": 200,
  "bounded": {"what": "tv_sec restricted to 16 boundary values (products are then constant-folded: an independent check of the multiplication that the unbounded proof trusts to the compiler builtin); delta, tv_nsec and the clock reading stay fully symbolic"},
  "stub_note": "wall clock read returns an arbitrary reading in [3, 2^62-2]" }
VERIF*/
#ifdef VERIF_PRE
#else
#include "contracts/C12/time_spec.h"
uint64_t H_now[3];
static inline uint64_t _dispatch_get_nanoseconds(void) { return H_now[2]; }
#define W_BASE(ts) ((ts) ? (i128)(ts)->tv_sec * 1000000000 + (i128)(ts)->tv_nsec : (i128)H_now[2])
/* exactness is promised when tv_sec * 10^9 itself fits int64 (as in the unbounded contract) */
#define W_PROD_FITS(ts) (!(ts) || ((i128)(ts)->tv_sec * 1000000000 <= I64MAX && (i128)(ts)->tv_sec * 1000000000 >= I64MIN))
#define W_SUM(ts, d) (W_BASE(ts) + (i128)(d))
#define I64MAX ((i128)0x7fffffffffffffffll)
#define I64MIN (-I64MAX - 1)
VERIF_CONTRACT(dispatch_time_t, dispatch_walltime, (const struct timespec *inval, int64_t delta),
  REQ(H_now[2] >= 3 && H_now[2] < T_MAXV)
  ASG()
  ENS(wall_clock_or_forever, __CPROVER_return_value == T_FOREVER || (__CPROVER_return_value >> 62) == 3)
  ENS(exact_sum, VIMPL(W_SUM(inval, delta) >= 3 && W_SUM(inval, delta) < (i128)T_MAXV && W_BASE(inval) <= I64MAX && W_BASE(inval) >= I64MIN && W_PROD_FITS(inval),
        __CPROVER_return_value == (uint64_t)(0 - (uint64_t)W_SUM(inval, delta))))
  ENS(saturates_to_forever, VIMPL(W_SUM(inval, delta) >= (i128)T_MAXV && W_BASE(inval) >= I64MIN && (W_PROD_FITS(inval) || inval->tv_sec > 0), __CPROVER_return_value == T_FOREVER))
  ENS(before_epoch_is_elapsed, VIMPL(W_SUM(inval, delta) < 3 && W_BASE(inval) <= I64MAX && W_PROD_FITS(inval), __CPROVER_return_value == T_WALLNOW))
  ENS(unrepresentable_base_saturates, VIMPL(W_BASE(inval) > I64MAX || W_BASE(inval) < I64MIN,
        __CPROVER_return_value == T_FOREVER || __CPROVER_return_value == T_WALLNOW))
)
static const long long H_secs[16] = { 0, 1, -1, 1700000000LL, 4611686018LL, 4611686019LL, 9223372036LL, 9223372037LL,
	18446744073LL, 18446744074LL, 36893488147LL, 0x7fffffffffffffffLL, -9223372036LL, -9223372037LL, -18446744074LL, (-0x7fffffffffffffffLL - 1) };
void harness(void)
{
	VERIF_GHOST_RESET();
	H_now[2] = ND(uint64_t);
	struct timespec ts; unsigned k = ND(unsigned) % 16; ts.tv_sec = (time_t)H_secs[k]; ts.tv_nsec = ND(long);
	__CPROVER_assume(ts.tv_nsec >= 0 && ts.tv_nsec < 1000000000);
	int64_t delta = ND(int64_t);
	VERIF_PRE_CALL(dispatch_walltime, 0, &ts, delta);
	dispatch_time_t r = dispatch_walltime(&ts, delta);
	VERIF_POST(dispatch_walltime, r, &ts, delta);
	VERIF_CANARY();
}
#endif
