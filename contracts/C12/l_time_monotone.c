/*VERIF
{ "tu": "src/time.c", "replace": ["dispatch_time"], "seq": true, "timeout": 120,
  "assumes": ["lemma over the contract of dispatch_time (proved in h_dispatch_time): both calls see the same clock readings"] }
VERIF*/
#ifdef VERIF_PRE
#else
#include "contracts/C12/time_spec.h"
uint64_t H_now[3];
#define SUM(t, d) ((i128)T_VALUE(t) + (i128)(d))
#define VALID_BASE(t) ((t) != T_FOREVER && T_VALUE(t) <= T_MAXV)
/* the contract proved in h_dispatch_time.c (kept textually identical; the runner checks that) */
#include "contracts/C12/dispatch_time.contract.h"
/* order on one clock: FOREVER is +infinity, otherwise by decoded value */
#define NOT_EARLIER(a, b) ((a) == T_FOREVER || ((b) != T_FOREVER && T_VALUE(a) >= T_VALUE(b)))
void harness(void)
{
	VERIF_GHOST_RESET();
	H_now[0] = ND(uint64_t); H_now[1] = ND(uint64_t); H_now[2] = ND(uint64_t);
	__CPROVER_assume(H_now[0] >= 1 && H_now[0] < T_MAXV && H_now[1] >= 1 && H_now[1] < T_MAXV && H_now[2] >= 3 && H_now[2] < T_MAXV);
	dispatch_time_t base = ND(dispatch_time_t);
	int64_t d1 = ND(int64_t), d2 = ND(int64_t);
	__CPROVER_assume(d1 <= d2);
	dispatch_time_t r1 = dispatch_time(base, d1);
	dispatch_time_t r2 = dispatch_time(base, d2);
	/* a larger delta never yields an earlier time (WALLTIME_NOW counts as its reading) */
	VERIF_ASSERT(monotone_in_delta, NOT_EARLIER(r2, r1) || (r1 == T_WALLNOW && r2 == T_WALLNOW)
		|| (r1 == T_WALLNOW && SUM(base, d1) < 3));
	VERIF_ASSERT(forever_absorbing, VIMPL(base == T_FOREVER, r1 == T_FOREVER && r2 == T_FOREVER));
	VERIF_ASSERT(same_clock, VIMPL(r1 != T_FOREVER && r2 != T_FOREVER, T_CLOCK(r1) == T_CLOCK(r2)));
	VERIF_CANARY();
}
#endif
