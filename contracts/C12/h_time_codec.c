/*VERIF
{ "tu": "src/time.c", "enforce": "_dispatch_clock_and_value_to_time", "props": ["C12", "C08"], "seq": true, "timeout": 120,
  "roots": ["_dispatch_time_to_clock_and_value"],
  "assumes": ["wall clock reading in [3, 2^62-2] ns"] }
VERIF*/
#ifdef VERIF_PRE
#else
#include "contracts/C12/time_spec.h"
uint64_t H_now[3];
static inline uint64_t _dispatch_get_nanoseconds(void) { return H_now[2]; }
/* encoder: clock tag preserved, value preserved, out-of-range -> FOREVER */
VERIF_CONTRACT(dispatch_time_t, _dispatch_clock_and_value_to_time, (dispatch_clock_t clock, uint64_t value),
  REQ(clock == DISPATCH_CLOCK_UPTIME || clock == DISPATCH_CLOCK_MONOTONIC || clock == DISPATCH_CLOCK_WALL)
  ASG()
  ENS(out_of_range_is_forever, VIMPL(value >= T_MAXV, __CPROVER_return_value == T_FOREVER))
  ENS(tag_is_clock, VIMPL(value >= (clock == DISPATCH_CLOCK_WALL ? 2 : 1) && value < T_MAXV, __CPROVER_return_value != T_FOREVER && T_CLOCK(__CPROVER_return_value) == (int)clock))
  ENS(value_preserved, VIMPL(value >= 3 && value < T_MAXV, T_VALUE(__CPROVER_return_value) == value))
)
void harness(void)
{
	VERIF_GHOST_RESET();
	H_now[2] = ND(uint64_t);
	__CPROVER_assume(H_now[2] >= 3 && H_now[2] < T_MAXV);
	dispatch_clock_t clock = ND(dispatch_clock_t);
	uint64_t value = ND(uint64_t);
	dispatch_time_t t = _dispatch_clock_and_value_to_time(clock, value);
	VERIF_POST(_dispatch_clock_and_value_to_time, t, clock, value);
	/* decode(encode(c, v)) == (c, v) : the real decoder run on the real encoder's output */
	if (value >= 3 && value < T_MAXV) {
		dispatch_clock_t c2; uint64_t v2;
		_dispatch_time_to_clock_and_value(t, &c2, &v2);
		VERIF_ASSERT(decode_inverts_encode, c2 == clock && v2 == value);
	}
	/* decoder on arbitrary encodings agrees with the spec functions */
	dispatch_time_t any = ND(dispatch_time_t);
	dispatch_clock_t c3; uint64_t v3;
	_dispatch_time_to_clock_and_value(any, &c3, &v3);
	VERIF_ASSERT(decoder_clock_matches_spec, (int)c3 == T_CLOCK(any));
	/* (the decoder leaves the uptime/monotonic NOW sentinel 0 to its callers) */
	VERIF_ASSERT(decoder_value_matches_spec, v3 == (T_CLOCK(any) != 2 && (any & ~(1ull << 63)) == 0 ? 0 :
		(T_VALUE(any) > T_MAXV ? T_FOREVER : T_VALUE(any))));
	VERIF_CANARY();
}
#endif
