/* contract of dispatch_time (C12); enforced in h_dispatch_time.c, used as an assumption in l_time_monotone.c */
VERIF_CONTRACT(dispatch_time_t, dispatch_time, (dispatch_time_t inval, int64_t delta),
  REQ(H_now[0] >= 1 && H_now[0] < T_MAXV && H_now[1] >= 1 && H_now[1] < T_MAXV && H_now[2] >= 3 && H_now[2] < T_MAXV)
  ASG()
  ENS(forever_absorbing, VIMPL(inval == T_FOREVER, __CPROVER_return_value == T_FOREVER))
  ENS(out_of_range_base_is_forever, VIMPL(inval != T_FOREVER && T_VALUE(inval) > T_MAXV, __CPROVER_return_value == T_FOREVER))
  ENS(clock_preserved, __CPROVER_return_value == T_FOREVER || T_CLOCK(__CPROVER_return_value) == T_CLOCK(inval))
  ENS(exact_sum, VIMPL(VALID_BASE(inval) && SUM(inval, delta) >= 3 && SUM(inval, delta) < (i128)T_MAXV,
        __CPROVER_return_value != T_FOREVER && (i128)T_VALUE(__CPROVER_return_value) == SUM(inval, delta)
        && __CPROVER_return_value != T_WALLNOW && (__CPROVER_return_value & ~(1ull << 63)) != 0))
  ENS(exact_sum_small, VIMPL(VALID_BASE(inval) && T_CLOCK(inval) != 2 && SUM(inval, delta) >= 1 && SUM(inval, delta) < 3,
        (i128)(__CPROVER_return_value & ~(1ull << 63)) == SUM(inval, delta)))
  ENS(saturates_to_forever, VIMPL(VALID_BASE(inval) && SUM(inval, delta) >= (i128)T_MAXV, __CPROVER_return_value == T_FOREVER))
  ENS(underflow_is_elapsed_time, VIMPL(VALID_BASE(inval) && SUM(inval, delta) < (T_CLOCK(inval) == 2 ? 3 : 1),
        T_CLOCK(inval) == 2 ? __CPROVER_return_value == T_WALLNOW
                            : (__CPROVER_return_value & ~(1ull << 63)) == 1))
  ENS(never_wraps_to_future, VIMPL(VALID_BASE(inval) && delta < 0 && __CPROVER_return_value != T_FOREVER,
        __CPROVER_return_value == T_WALLNOW || T_VALUE(__CPROVER_return_value) <= T_VALUE(inval)))
  ENS(never_wraps_to_past, VIMPL(VALID_BASE(inval) && delta >= 0,
        __CPROVER_return_value == T_FOREVER || T_VALUE(__CPROVER_return_value) >= T_VALUE(inval)))
)

