/*VERIF
{ "tu": "src/time.c", "enforce": "dispatch_time", "props": ["C12", "C08"], "seq": true, "timeout": 120,
  "stub_note": "clock reads return an arbitrary reading in [1, 2^62-2]",
  "assumes": ["clock readings are in [1, 2^62-2] ns (wall: [3, 2^62-2])"] }
VERIF*/
#ifdef VERIF_PRE
#else
#include "contracts/C12/time_spec.h"
uint64_t H_now[3];
/* stubs for the clock sources (kernel): trusted */
static inline uint64_t _dispatch_uptime(void) { return H_now[0]; }
static inline uint64_t _dispatch_monotonic_time(void) { return H_now[1]; }
static inline uint64_t _dispatch_get_nanoseconds(void) { return H_now[2]; }

#define SUM(t, d) ((i128)T_VALUE(t) + (i128)(d))
#define VALID_BASE(t) ((t) != T_FOREVER && T_VALUE(t) <= T_MAXV)

#include "contracts/C12/dispatch_time.contract.h"
void harness(void)
{
	VERIF_GHOST_RESET();
	H_now[0] = ND(uint64_t); H_now[1] = ND(uint64_t); H_now[2] = ND(uint64_t);
	dispatch_time_t inval = ND(dispatch_time_t);
	int64_t delta = ND(int64_t);
	dispatch_time_t r = dispatch_time(inval, delta);
	VERIF_POST(dispatch_time, r, inval, delta);
	VERIF_CANARY();
}
#endif
