/*VERIF
{ "tu": "src/time.c", "enforce": "dispatch_walltime", "seq": true, "timeout": 90,
  "stub_note": "wall clock read returns an arbitrary reading in [3, 2^62-2]",
  "assumes": ["wall clock reading in [3, 2^62-2] ns", "timespec tv_nsec in [0, 1e9)", "__builtin_mul_overflow(tv_sec, 10^9) is exact (compiler builtin trusted; used identically by code and spec)"] }
VERIF*/
#ifdef VERIF_PRE
#else
#include "contracts/C12/time_spec.h"
uint64_t H_now[3];
static inline uint64_t _dispatch_get_nanoseconds(void) { return H_now[2]; }

/* ghost: tv_sec * 10^9 computed by the harness with the same compiler builtin the code
 * uses (the builtin's meaning -- exact product, overflow flag -- is trusted; SAT cannot
 * prove two different 64x64 multiplier circuits equivalent, measured: > 300 s) */
int64_t H_prod; _Bool H_prod_ovf; _Bool H_sec_neg;
/* base in ns; when the product does not fit int64 it is pushed outside the int64 range */
#define W_BASE(ts) ((ts) ? (H_prod_ovf ? (H_sec_neg ? -((i128)1 << 100) : ((i128)1 << 100)) : (i128)H_prod + (i128)(ts)->tv_nsec) : (i128)H_now[2])
#define W_SUM(ts, d) (W_BASE(ts) + (i128)(d))
#define I64MAX ((i128)0x7fffffffffffffffll)
#define I64MIN (-I64MAX - 1)

VERIF_CONTRACT(dispatch_time_t, dispatch_walltime, (const struct timespec *inval, int64_t delta),
  REQ(H_now[2] >= 3 && H_now[2] < T_MAXV)
  REQ(inval == 0 || (__CPROVER_r_ok(inval, sizeof(*inval)) && inval->tv_nsec >= 0 && inval->tv_nsec < 1000000000))
  ASG()
  ENS(wall_clock_or_forever, __CPROVER_return_value == T_FOREVER || (__CPROVER_return_value >> 62) == 3)
  ENS(exact_sum, VIMPL(W_SUM(inval, delta) >= 3 && W_SUM(inval, delta) < (i128)T_MAXV && W_BASE(inval) <= I64MAX && W_BASE(inval) >= I64MIN,
        __CPROVER_return_value == (uint64_t)(0 - (uint64_t)W_SUM(inval, delta))))
  ENS(saturates_to_forever, VIMPL(W_SUM(inval, delta) >= (i128)T_MAXV && W_BASE(inval) >= I64MIN, __CPROVER_return_value == T_FOREVER))
  ENS(before_epoch_is_elapsed, VIMPL(W_SUM(inval, delta) < 3 && W_BASE(inval) <= I64MAX, __CPROVER_return_value == T_WALLNOW))
  ENS(unrepresentable_base_saturates, VIMPL(W_BASE(inval) > I64MAX || W_BASE(inval) < I64MIN,
        __CPROVER_return_value == T_FOREVER || __CPROVER_return_value == T_WALLNOW))
)

void harness(void)
{
	VERIF_GHOST_RESET();
	H_now[2] = ND(uint64_t);
	struct timespec ts; ts.tv_sec = ND(time_t); ts.tv_nsec = ND(long);
	const struct timespec *inval = ND_BOOL() ? &ts : 0;
	H_prod_ovf = __builtin_mul_overflow((int64_t)ts.tv_sec, (int64_t)1000000000ull, &H_prod);
	H_sec_neg = ts.tv_sec < 0;
	int64_t delta = ND(int64_t);
	dispatch_time_t r = dispatch_walltime(inval, delta);
	VERIF_POST(dispatch_walltime, r, inval, delta);
	VERIF_CANARY();
}
#endif
