/* C12 spec functions (pure, over the encoding documented in src/shims/time.h) */
#ifndef C12_SPEC_H
#define C12_SPEC_H
#define T_FOREVER (~0ull)
#define T_MAXV ((1ull << 62) - 1)           /* DISPATCH_TIME_MAX_VALUE */
#define T_WALLNOW (~1ull)                   /* DISPATCH_WALLTIME_NOW */
#define T_MONONOW (1ull << 63)              /* DISPATCH_MONOTONICTIME_NOW */
/* clock tag of an encoded time: 0 uptime, 1 monotonic, 2 wall (the enum order) */
#define T_CLOCK(t) (((t) >> 63) == 0 ? 0 : ((((t) >> 62) & 1) ? 2 : 1))
/* ghost: the clock readings the stubs hand out (fixed per harness run) */
extern uint64_t H_now[3];
/* decoded value (nanoseconds on its clock); NOW sentinels decode to the reading */
#define T_VALUE(t) (T_CLOCK(t) == 2 ? ((t) == T_WALLNOW ? H_now[2] : (uint64_t)(0 - (t))) \
		: (((t) & ~(1ull << 63)) == 0 ? H_now[T_CLOCK(t)] : ((t) & ~(1ull << 63))))
typedef __int128 i128;
#endif
