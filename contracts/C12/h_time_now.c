/*VERIF
{ "tu": "src/time.c", "enforce": "_dispatch_time_now", "props": ["C12", "C08", "C11"], "seq": true, "timeout": 120,
  "assumes": ["Linux clock ids: CLOCK_REALTIME is the precise wall clock, CLOCK_MONOTONIC the precise time-not-counting-suspend, CLOCK_BOOTTIME the precise time-counting-suspend; the *_COARSE ids lag behind them by up to one timer tick",
              "clock_gettime succeeds and returns tv_sec < 2^33, 0 <= tv_nsec < 10^9", "NOT checked: tv_sec * 10^9 + tv_nsec for tv_sec > 0 (64-bit multiplication does not terminate on the installed back ends); the other C12 harnesses take the reading in nanoseconds as given"],
  "stub_note": "clock_gettime (kernel): records which clock was read" }
VERIF*/
#ifdef VERIF_PRE
#else
#include "contracts/C12/time_spec.h"
unsigned H_reads; int H_clk_read; long H_sec, H_nsec; dispatch_clock_t H_clock;
int clock_gettime(clockid_t clk, struct timespec *ts) { H_reads++; H_clk_read = (int)clk; ts->tv_sec = H_sec; ts->tv_nsec = H_nsec; return 0; }
VERIF_CONTRACT(uint64_t, _dispatch_time_now, (dispatch_clock_t clock),
  REQ(clock == H_clock && (H_clock == DISPATCH_CLOCK_UPTIME || H_clock == DISPATCH_CLOCK_MONOTONIC || H_clock == DISPATCH_CLOCK_WALL) && H_reads == 0 && H_sec >= 0 && H_sec < (1l << 33) && H_nsec >= 0 && H_nsec < 1000000000l)
  ASG(H_reads, H_clk_read)
  /* each libdispatch clock is read from ITS kernel clock, the precise one: deadlines are computed as "precise now + remaining interval", so a
   * reading that lags behind (a coarse clock) makes timed waits return before their full timeout; a different clock changes what a time means */
  ENS(each_clock_is_read_once_from_its_own_precise_kernel_clock, H_reads == 1 && H_clk_read == (H_clock == DISPATCH_CLOCK_WALL ? CLOCK_REALTIME : H_clock == DISPATCH_CLOCK_UPTIME ? CLOCK_MONOTONIC : CLOCK_BOOTTIME))
  ENS(a_zero_reading_converts_to_zero_and_sub_second_readings_are_kept, VIMPL(H_sec == 0, __CPROVER_return_value == (uint64_t)H_nsec))
)
void harness(void)
{
	VERIF_GHOST_RESET();
	H_clock = ND(dispatch_clock_t); H_sec = ND(long); H_nsec = ND(long); H_reads = 0;
	__CPROVER_assume((H_clock == DISPATCH_CLOCK_UPTIME || H_clock == DISPATCH_CLOCK_MONOTONIC || H_clock == DISPATCH_CLOCK_WALL) && H_sec >= 0 && H_sec < (1l << 33) && H_nsec >= 0 && H_nsec < 1000000000l);
	uint64_t r = _dispatch_time_now(H_clock);
	VERIF_POST(_dispatch_time_now, r, H_clock);
	VERIF_CANARY();
}
#endif
