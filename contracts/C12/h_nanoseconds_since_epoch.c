/*VERIF
{ "tu": "src/time.c", "enforce": "_dispatch_time_nanoseconds_since_epoch", "props": ["C12","C08"], "seq": true, "timeout": 120,
  "stub_note": "clock reads return an arbitrary reading in range",
  "assumes": ["clock readings are in [1, 2^62-2] ns (wall: [3, 2^62-2])"] }
VERIF*/
#ifdef VERIF_PRE
#else
#include "contracts/C12/time_spec.h"
uint64_t H_now[3];
static inline uint64_t _dispatch_uptime(void) { return H_now[0]; }
static inline uint64_t _dispatch_monotonic_time(void) { return H_now[1]; }
static inline uint64_t _dispatch_get_nanoseconds(void) { return H_now[2]; }
/* the absolute wall-clock deadline handed to the kernel for a timed wait until `when` */
VERIF_CONTRACT(uint64_t, _dispatch_time_nanoseconds_since_epoch, (dispatch_time_t when),
  REQ(H_now[0] >= 1 && H_now[0] < T_MAXV && H_now[1] >= 1 && H_now[1] < T_MAXV && H_now[2] >= 3 && H_now[2] < T_MAXV)
  ASG()
  ENS(forever_stays_forever, VIMPL(when == T_FOREVER, __CPROVER_return_value == T_FOREVER))
  ENS(wall_time_is_its_own_deadline, VIMPL(when != T_FOREVER && T_CLOCK(when) == 2, __CPROVER_return_value == (uint64_t)(0 - when)))
  /* other clocks: now(wall) + time remaining on that clock -- an elapsed time gives a deadline that is not in the future */
  ENS(elapsed_time_on_any_clock_gives_a_deadline_not_after_now, VIMPL(when != T_FOREVER && T_CLOCK(when) != 2 && T_VALUE(when) <= H_now[T_CLOCK(when)],
        __CPROVER_return_value <= H_now[2]))
  ENS(future_time_waits_exactly_the_remaining_interval, VIMPL(when != T_FOREVER && T_CLOCK(when) != 2 && T_VALUE(when) <= T_MAXV && T_VALUE(when) > H_now[T_CLOCK(when)],
        __CPROVER_return_value == H_now[2] + (T_VALUE(when) - H_now[T_CLOCK(when)])))
)
void harness(void)
{
	VERIF_GHOST_RESET();
	H_now[0] = ND(uint64_t); H_now[1] = ND(uint64_t); H_now[2] = ND(uint64_t);
	dispatch_time_t when = ND(dispatch_time_t);
	uint64_t r = _dispatch_time_nanoseconds_since_epoch(when);
	VERIF_POST(_dispatch_time_nanoseconds_since_epoch, r, when);
	VERIF_CANARY();
}
#endif
