/*VERIF
{ "tu": "src/time.c", "enforce": "_dispatch_timeout", "props": ["C12", "C08"], "seq": true, "timeout": 120,
  "stub_note": "clock reads return an arbitrary reading in [1, 2^62-2]",
  "assumes": ["clock readings are in [1, 2^62-2] ns"] }
VERIF*/
#ifdef VERIF_PRE
#else
#include "contracts/C12/time_spec.h"
uint64_t H_now[3];
static inline uint64_t _dispatch_uptime(void) { return H_now[0]; }
static inline uint64_t _dispatch_monotonic_time(void) { return H_now[1]; }
static inline uint64_t _dispatch_get_nanoseconds(void) { return H_now[2]; }

VERIF_CONTRACT(uint64_t, _dispatch_timeout, (dispatch_time_t when),
  REQ(H_now[0] >= 1 && H_now[0] < T_MAXV && H_now[1] >= 1 && H_now[1] < T_MAXV && H_now[2] >= 3 && H_now[2] < T_MAXV)
  ASG()
  ENS(forever_waits_forever, VIMPL(when == T_FOREVER, __CPROVER_return_value == T_FOREVER))
  ENS(now_does_not_block, VIMPL(when == 0 || when == T_WALLNOW || when == T_MONONOW, __CPROVER_return_value == 0))
  ENS(elapsed_time_does_not_block, VIMPL(when != T_FOREVER && T_VALUE(when) <= H_now[T_CLOCK(when)], __CPROVER_return_value == 0))
  ENS(future_time_waits_exact_difference, VIMPL(when != T_FOREVER && T_VALUE(when) <= T_MAXV && T_VALUE(when) > H_now[T_CLOCK(when)],
        __CPROVER_return_value == T_VALUE(when) - H_now[T_CLOCK(when)]))
  ENS(never_wrapped, VIMPL(when != T_FOREVER && T_VALUE(when) <= T_MAXV, __CPROVER_return_value <= T_MAXV))
)
void harness(void)
{
	VERIF_GHOST_RESET();
	H_now[0] = ND(uint64_t); H_now[1] = ND(uint64_t); H_now[2] = ND(uint64_t);
	dispatch_time_t when = ND(dispatch_time_t);
	uint64_t r = _dispatch_timeout(when);
	VERIF_POST(_dispatch_timeout, r, when);
	VERIF_CANARY();
}
#endif
