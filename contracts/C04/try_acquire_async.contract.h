/* contract of _dispatch_queue_try_acquire_async (enforced in h_try_acquire_async.c) */
VERIF_CONTRACT(bool, _dispatch_queue_try_acquire_async, (dispatch_lane_t dq),
  REQ(dq == H_DQ && __verif_n == 0)
  ENS(log_bounded, __verif_n <= 1)
  ASG(dq->dq_state, VERIF_GHOST)
  ENS(commit_iff_success, __verif_n == (__CPROVER_return_value ? 1 : 0) && VIMPL(__verif_n == 1, IS_COMMIT(0, &dq->dq_state)))
  ENS(refused_under_barrier_pending_barrier_dirty_full_or_suspension, VIMPL(__CPROVER_return_value,
        !S_IN_BARRIER(LOGA(0)) && !S_PENDING_B(LOGA(0)) && !S_DIRTY(LOGA(0)) && !S_SUSPENDED(LOGA(0)) && !S_FULL(LOGA(0)) && S_RUNNABLE(LOGA(0))))
  ENS(reserves_exactly_one_width_unit, VIMPL(__CPROVER_return_value, LOGB(0) == LOGA(0) + DISPATCH_QUEUE_WIDTH_INTERVAL))
  ENS(acquire_order, VIMPL(__CPROVER_return_value, VMO_IS_ACQ(LOGM(0))))
)
