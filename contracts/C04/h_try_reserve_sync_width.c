/*VERIF
{ "tu": "src/queue.c", "enforce": "_dispatch_queue_try_reserve_sync_width", "props": ["C04","C03","C06"],
  "nondet_volatile": true, "timeout": 120 }
VERIF*/
#ifdef VERIF_PRE
#else
#include "contracts/common/dq_common.h"
VERIF_CONTRACT(bool, _dispatch_queue_try_reserve_sync_width, (dispatch_lane_t dq),
  REQ(dq == H_DQ && __verif_n == 0)
  ASG(dq->dq_state, VERIF_GHOST)
  ENS(commit_iff_success, __verif_n == (__CPROVER_return_value ? 1 : 0) && VIMPL(__verif_n == 1, IS_COMMIT(0, &dq->dq_state)))
  /* reader fast path refuses while a barrier runs or is pending, the queue is dirty, full or suspended */
  ENS(refused_under_barrier_pending_barrier_dirty_or_suspension, VIMPL(__CPROVER_return_value,
        !S_IN_BARRIER(LOGA(0)) && !S_PENDING_B(LOGA(0)) && !S_DIRTY(LOGA(0)) && !S_SUSPENDED(LOGA(0)) && S_SYNC_RUNNABLE(LOGA(0))))
  ENS(reserves_exactly_one_width_unit, VIMPL(__CPROVER_return_value, LOGB(0) == LOGA(0) + DISPATCH_QUEUE_WIDTH_INTERVAL))
)
void harness(void)
{
	h_setup_lane();
	bool r = _dispatch_queue_try_reserve_sync_width(H_DQ);
	VERIF_POST(_dispatch_queue_try_reserve_sync_width, r, H_DQ);
	VERIF_CANARY();
}
#endif
