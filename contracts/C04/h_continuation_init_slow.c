/*VERIF
{ "tu": "src/queue.c", "enforce": "_dispatch_continuation_init_slow", "props": ["C04", "C19", "C17"], "nondet_volatile": true, "timeout": 200,
  "assumes": ["the continuation's context is a block object made by dispatch_block_create* (that is why the slow initialiser is entered); its private data is reached through _dispatch_block_get_data (Blocks-ABI layout: src/block.cpp, out of reach)",
              "another thread may submit the same block object at the same time: the compare-and-swap on dbpd_queue sees an arbitrary value"],
  "stub_note": "_dispatch_block_get_data, _dispatch_priority_propagate, _voucher_retain / voucher bookkeeping, _dispatch_retain_2: stubs (logged)" }
VERIF*/
#ifdef VERIF_PRE
#else
#include "contracts/C19/block_common.h"
struct dispatch_continuation_s H_dc; uintptr_t H_dcf0; dispatch_block_flags_t H_bflags0, H_flags_arg; dispatch_queue_t H_q0; struct dispatch_queue_s H_other_q; struct Block_layout H_blk;
static inline pthread_priority_t _dispatch_priority_propagate(void) { return ND(pthread_priority_t) & ~_PTHREAD_PRIORITY_FLAGS_MASK; }
#define DBQ_P ((const volatile void *)&H_dbpd.dbpd_queue)
VERIF_CONTRACT(dispatch_qos_t, _dispatch_continuation_init_slow, (dispatch_continuation_t dc, dispatch_queue_t dq, dispatch_block_flags_t flags),
  REQ(dc == &H_dc && dq == (dispatch_queue_t)H_DQ && flags == H_flags_arg && __verif_n == 0 && H_dc.dc_flags == H_dcf0 && H_dc.dc_ctxt == (void *)&H_blk && H_dbpd.dbpd_flags == H_bflags0 && H_dbpd.dbpd_queue == H_q0)
  ASG(VERIF_GHOST, __CPROVER_object_whole(&H_dc), H_dbpd.dbpd_queue)
  /* C04: a block object created with DISPATCH_BLOCK_BARRIER is a barrier item on whatever submission API it goes through: the barrier
   * mark comes from THE BLOCK'S OWN flags (not from the flags of the call), nothing else in the continuation's kind is changed */
  ENS(barrier_block_objects_become_barrier_items_and_only_those, H_dc.dc_flags == (H_dcf0 | DC_FLAG_BLOCK_WITH_PRIVATE_DATA | ((H_bflags0 & DISPATCH_BLOCK_BARRIER) ? DC_FLAG_BARRIER : 0)))
  ENS(the_block_is_run_through_the_block_object_life_cycle, H_dc.dc_func == ((H_dcf0 & DC_FLAG_CONSUME) ? _dispatch_block_async_invoke_and_release : _dispatch_block_async_invoke) && H_dc.dc_ctxt == (void *)&H_blk)
  /* C19/C17: the first submission records the queue (for wait / cancel bookkeeping) and takes the +2 that the completion gives back;
   * a block already bound to a queue is left alone and no reference is taken */
  ENS(binding_the_queue_and_taking_the_plus_two_go_together, __verif_n <= 12 && ((__verif_n >= 1 && IS_COMMIT(0, DBQ_P))
        ? (LOGA(0) == 0 && LOGB(0) == (unsigned long long)(uintptr_t)H_DQ && __verif_n >= 2 && LOGK(1) == EV_RETAIN && LOGP(1) == (void *)H_DQ && LOGA(1) == 2 && (__verif_n < 3 || LOGK(2) != EV_RETAIN))
        : ((__verif_n < 1 || LOGK(0) != EV_RETAIN) && (__verif_n < 2 || LOGK(1) != EV_RETAIN) && (__verif_n < 3 || LOGK(2) != EV_RETAIN))))
)
void harness(void)
{
	h_setup_lane(); h_setup_target(); h_setup_block();
	H_bflags0 = H_dbpd.dbpd_flags; H_flags_arg = ND(dispatch_block_flags_t); H_dcf0 = ND(uintptr_t) & 0x1ff; H_dc.dc_flags = H_dcf0; H_dc.dc_ctxt = (void *)&H_blk;
	H_q0 = ND_BOOL() ? (dispatch_queue_t)0 : &H_other_q; H_dbpd.dbpd_queue = H_q0; H_dbpd.dbpd_priority = ND(pthread_priority_t); H_dbpd.dbpd_voucher = 0;
	H_lane.dq_priority = ND(dispatch_priority_t);
	dispatch_qos_t r = _dispatch_continuation_init_slow(&H_dc, (dispatch_queue_t)H_DQ, H_flags_arg);
	VERIF_POST(_dispatch_continuation_init_slow, r, &H_dc, (dispatch_queue_t)H_DQ, H_flags_arg);
	VERIF_REACH(barrier_block, (H_dc.dc_flags & DC_FLAG_BARRIER) && !(H_dcf0 & DC_FLAG_BARRIER));
	VERIF_CANARY();
}
#endif
