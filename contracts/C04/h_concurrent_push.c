/*VERIF
{ "tu": "src/queue.c", "enforce": "_dispatch_lane_concurrent_push", "replace": ["_dispatch_queue_try_acquire_async"], "props": ["C04","C01"],
  "timeout": 120,
  "assumes": ["the plain read of dq_items_tail returns what the harness stored (this thread's own earlier pushes are visible to it)"],
  "stub_note": "_dispatch_continuation_redirect_push / _dispatch_lane_push: logged call-outs" }
VERIF*/
#ifdef VERIF_PRE
#else
#include "contracts/common/dq_common.h"
#include "contracts/C04/try_acquire_async.contract.h"
struct dispatch_continuation_s H_item, H_queued;
#define CALL_REDIRECT 11
#define CALL_LANE_PUSH 12
static void _dispatch_continuation_redirect_push(dispatch_lane_t dl, dispatch_object_t dou, dispatch_qos_t qos)
{ (void)qos; __verif_event(EV_CALL, 0, dl, CALL_REDIRECT, (uintptr_t)dou._do); }
void _dispatch_lane_push(dispatch_lane_t dq, dispatch_object_t dou, dispatch_qos_t qos)
{ (void)qos; __verif_event(EV_CALL, 0, dq, CALL_LANE_PUSH, (uintptr_t)dou._do); }
#define ITEM_IS_PLAIN_ASYNC (H_item.dc_flags <= 0xffful && !(H_item.dc_flags & (DC_FLAG_BARRIER | DC_FLAG_SYNC_WAITER | DC_FLAG_ASYNC_AND_WAIT)))
VERIF_CONTRACT_VOID(_dispatch_lane_concurrent_push, (dispatch_lane_t dq, dispatch_object_t dou, dispatch_qos_t qos),
  REQ(dq == H_DQ && dou._dc == &H_item && __verif_n == 0 && H_item.dc_flags <= 0xffful)
  ASG(dq->dq_state, VERIF_GHOST)
  ENS(exactly_one_submission, __verif_n >= 1 && __verif_n <= 2 && LOGK(LAST) == EV_CALL && LOGB(LAST) == (uintptr_t)&H_item &&
        (LOGA(LAST) == CALL_REDIRECT || LOGA(LAST) == CALL_LANE_PUSH) && VIMPL(__verif_n == 2, LOGK(0) == EV_COMMIT))
  /* the item may bypass the queue (run as a reader right away) only if NOTHING is queued ahead of it, it is a plain
   * non-barrier async item, and reader width was granted (which refuses under a running or pending barrier) */
  ENS(bypass_only_if_nothing_is_queued_ahead, VIMPL(LOGA(LAST) == CALL_REDIRECT, dq->dq_items_tail == 0))
  ENS(bypass_only_for_plain_non_barrier_items, VIMPL(LOGA(LAST) == CALL_REDIRECT, ITEM_IS_PLAIN_ASYNC))
  ENS(bypass_only_with_reader_width_granted, VIMPL(LOGA(LAST) == CALL_REDIRECT, __verif_n == 2 && IS_COMMIT(0, &dq->dq_state) &&
        LOGB(0) == LOGA(0) + DISPATCH_QUEUE_WIDTH_INTERVAL && !S_IN_BARRIER(LOGA(0)) && !S_PENDING_B(LOGA(0)) && !S_DIRTY(LOGA(0))))
  ENS(no_width_leaked_when_queued, VIMPL(LOGA(LAST) == CALL_LANE_PUSH, __verif_n == 1))
)
void harness(void)
{
	h_setup_lane();
	H_item.dc_flags = ND(uintptr_t);
	H_lane.dq_items_tail = ND_BOOL() ? (struct dispatch_object_s *)&H_queued : 0;
	dispatch_qos_t qos = ND(dispatch_qos_t);
	_dispatch_lane_concurrent_push(H_DQ, (dispatch_object_t){ ._dc = &H_item }, qos);
	VERIF_POST_VOID(_dispatch_lane_concurrent_push, H_DQ, (dispatch_object_t){ ._dc = &H_item }, qos);
	VERIF_REACH(bypass, LOGA(LAST) == CALL_REDIRECT);
	VERIF_REACH(queued_behind, LOGA(LAST) == CALL_LANE_PUSH && H_lane.dq_items_tail != 0);
	VERIF_CANARY();
}
#endif
