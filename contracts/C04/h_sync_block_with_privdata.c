/*VERIF
{ "tu": "src/queue.c", "enforce": "_dispatch_sync_block_with_privdata", "props": ["C04", "C01", "C19", "C17"], "nondet_volatile": true, "timeout": 200,
  "assumes": ["the block is a block object (dispatch_block_create*); its private data is reached through _dispatch_block_get_data (Blocks ABI: out of reach)",
              "another thread may submit the same block object at the same time (the compare-and-swap on dbpd_queue sees an arbitrary value)"],
  "stub_note": "_dispatch_barrier_sync_f / _dispatch_sync_f (own contracts: C02/C04 sync entry harnesses), priority / voucher bookkeeping, _dispatch_retain_2: recorded" }
VERIF*/
#ifdef VERIF_PRE
#else
#include "contracts/C19/block_common.h"
struct Block_layout H_blk; uintptr_t H_dcf0; dispatch_block_flags_t H_bflags0; unsigned H_barrier_syncs, H_plain_syncs; uintptr_t H_flags_seen; _Bool H_bad;
static inline voucher_t _dispatch_set_priority_and_voucher(pthread_priority_t pp, voucher_t v, dispatch_thread_set_self_t flags) { (void)pp; (void)v; (void)flags; return 0; }
static inline void _dispatch_reset_priority_and_voucher(pthread_priority_t pp, voucher_t v) { (void)pp; (void)v; if (H_barrier_syncs + H_plain_syncs != 1) H_bad = 1; }
static inline void _dispatch_barrier_sync_f(dispatch_queue_t dq, void *ctxt, dispatch_function_t func, uintptr_t dc_flags)
{ if (dq != (dispatch_queue_t)H_DQ || ctxt != (void *)&H_blk || func != _dispatch_block_sync_invoke) H_bad = 1; H_barrier_syncs++; H_flags_seen = dc_flags; }
static inline void _dispatch_sync_f(dispatch_queue_t dq, void *ctxt, dispatch_function_t func, uintptr_t dc_flags)
{ if (dq != (dispatch_queue_t)H_DQ || ctxt != (void *)&H_blk || func != _dispatch_block_sync_invoke) H_bad = 1; H_plain_syncs++; H_flags_seen = dc_flags; }
#define DBQ_P ((const volatile void *)&H_dbpd.dbpd_queue)
#define IS_BARRIER ((H_dcf0 & DC_FLAG_BARRIER) || (H_bflags0 & DISPATCH_BLOCK_BARRIER))
VERIF_CONTRACT_VOID(_dispatch_sync_block_with_privdata, (dispatch_queue_t dq, dispatch_block_t work, uintptr_t dc_flags),
  REQ(dq == (dispatch_queue_t)H_DQ && (void *)work == (void *)&H_blk && dc_flags == H_dcf0 && H_dbpd.dbpd_flags == H_bflags0 && __verif_n == 0 && H_barrier_syncs == 0 && H_plain_syncs == 0 && !H_bad)
  ASG(VERIF_GHOST, H_dbpd.dbpd_queue, H_barrier_syncs, H_plain_syncs, H_flags_seen, H_bad)
  /* C04 / C01: the call is a barrier when the API says so (dispatch_barrier_sync) OR the block object was created with DISPATCH_BLOCK_BARRIER - and then it takes
   * the BARRIER sync path (it waits as a barrier, owns the whole width and gives it all back); a mismatch between how the waiter is queued and how it completes
   * leaves a concurrent queue locked for ever */
  ENS(a_barrier_call_or_barrier_block_takes_the_barrier_sync_path_and_only_those, !H_bad && H_barrier_syncs == (IS_BARRIER ? 1u : 0u) && H_plain_syncs == (IS_BARRIER ? 0u : 1u))
  ENS(the_callee_is_told_the_same_kind, H_flags_seen == (H_dcf0 | DC_FLAG_BLOCK_WITH_PRIVATE_DATA | (IS_BARRIER ? DC_FLAG_BARRIER : 0)))
  /* C19 / C17: first submission binds the queue and takes the +2 that the completion gives back; both or neither */
  ENS(binding_the_queue_and_taking_the_plus_two_go_together, __verif_n <= 12 && ((__verif_n >= 1 && IS_COMMIT(0, DBQ_P))
        ? (LOGA(0) == 0 && LOGB(0) == (unsigned long long)(uintptr_t)H_DQ && __verif_n >= 2 && LOGK(1) == EV_RETAIN && LOGP(1) == (void *)H_DQ && LOGA(1) == 2)
        : ((__verif_n < 1 || LOGK(0) != EV_RETAIN) && (__verif_n < 2 || LOGK(1) != EV_RETAIN))))
)
void harness(void)
{
	h_setup_lane(); h_setup_target(); h_setup_block();
	H_bflags0 = H_dbpd.dbpd_flags; H_dcf0 = (ND_BOOL() ? DC_FLAG_BARRIER : 0) | DC_FLAG_BLOCK; H_dbpd.dbpd_queue = ND_BOOL() ? (dispatch_queue_t)0 : (dispatch_queue_t)&H_target; H_dbpd.dbpd_priority = ND(pthread_priority_t); H_dbpd.dbpd_voucher = 0;
	H_barrier_syncs = H_plain_syncs = 0; H_bad = 0;
	_dispatch_sync_block_with_privdata((dispatch_queue_t)H_DQ, (dispatch_block_t)(void *)&H_blk, H_dcf0);
	VERIF_POST_VOID(_dispatch_sync_block_with_privdata, (dispatch_queue_t)H_DQ, (dispatch_block_t)(void *)&H_blk, H_dcf0);
	VERIF_REACH(barrier_block_through_dispatch_sync, !(H_dcf0 & DC_FLAG_BARRIER) && H_barrier_syncs == 1);
	VERIF_CANARY();
}
#endif
