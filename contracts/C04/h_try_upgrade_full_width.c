/*VERIF
{ "tu": "src/queue.c", "enforce": "_dispatch_queue_try_upgrade_full_width", "props": ["C04", "C01"],
  "nondet_volatile": true, "timeout": 120,
  "assumes": ["rely (width accounting invariant, guaranteed by every width-moving contract of C04): while this thread is the drain-lock owner holding `owned` = k width units, dq_state has IN_BARRIER clear, and its 13-bit width counter (WIDTH_MASK incl. the FULL bit) equals 0x1000 - W + k + (width held by others), with 0 <= held by others <= W - k"] }
VERIF*/
#ifdef VERIF_PRE
/* ghost: width units held by other parties when the upgrading drainer looks at the state */
#else
#include "contracts/common/dq_common.h"
uint64_t H_owned_units;    /* width units this drainer holds (owned = units * INTERVAL) */
/* decode "held by others" from a state word under the accounting invariant */
#define OTHERS(s, w, pb) (S_WIDTH13(s) - (DISPATCH_QUEUE_WIDTH_FULL - (w)) - H_owned_units - ((pb) ? (w) - 1 : 0))
/* the accounting invariant as seen by a drain-lock owner holding H_owned_units */
#define ACC_INV(s, w) (!S_IN_BARRIER(s) && !S_SUSPENDED(s) && \
        S_WIDTH13(s) >= (DISPATCH_QUEUE_WIDTH_FULL - (w)) + H_owned_units + (S_PENDING_B(s) ? (w) - 1 : 0) && \
        OTHERS(s, w, S_PENDING_B(s)) <= (w) - H_owned_units)
VERIF_CONTRACT(bool, _dispatch_queue_try_upgrade_full_width, (dispatch_lane_t dq, uint64_t owned),
  REQ(dq == H_DQ && __verif_n == 0 && VALID_WIDTH(dq->dq_width) && dq->dq_width <= DISPATCH_QUEUE_WIDTH_MAX)
  REQ(owned == H_owned_units * DISPATCH_QUEUE_WIDTH_INTERVAL && H_owned_units >= 1 && H_owned_units <= dq->dq_width)
  ASG(dq->dq_state, VERIF_GHOST)
  ENS(exactly_one_commit, __verif_n == 1 && IS_COMMIT(0, &dq->dq_state) && VMO_IS_ACQ(LOGM(0)))
  ENS(result_reflects_barrier_bit, __CPROVER_return_value == S_IN_BARRIER(LOGB(0)))
  ENS(dirty_always_cleared, !S_DIRTY(LOGB(0)))
  /* writer exclusion: under the accounting invariant the upgrade succeeds only if no other party holds width */
  ENS(barrier_granted_only_if_no_other_holder, VIMPL(__CPROVER_return_value && ACC_INV(LOGA(0), dq->dq_width),
        OTHERS(LOGA(0), dq->dq_width, S_PENDING_B(LOGA(0))) == 0))
  ENS(barrier_granted_if_no_other_holder, VIMPL(ACC_INV(LOGA(0), dq->dq_width) && OTHERS(LOGA(0), dq->dq_width, S_PENDING_B(LOGA(0))) == 0,
        __CPROVER_return_value))
  ENS(barrier_state_is_full_width_no_pending, VIMPL(__CPROVER_return_value && ACC_INV(LOGA(0), dq->dq_width),
        S_FULL(LOGB(0)) && !S_PENDING_B(LOGB(0)) && S_WIDTH13(LOGB(0)) == DISPATCH_QUEUE_WIDTH_FULL))
  /* otherwise: park with PENDING_BARRIER, which makes every reader fast path refuse */
  ENS(otherwise_pending_barrier_is_set, VIMPL(!__CPROVER_return_value && ACC_INV(LOGA(0), dq->dq_width), S_PENDING_B(LOGB(0))))
  ENS(parked_state_keeps_width_of_others_and_reserves_the_rest, VIMPL(!__CPROVER_return_value && ACC_INV(LOGA(0), dq->dq_width),
        S_WIDTH13(LOGB(0)) == (DISPATCH_QUEUE_WIDTH_FULL - dq->dq_width) + OTHERS(LOGA(0), dq->dq_width, S_PENDING_B(LOGA(0))) + dq->dq_width - 1))
  ENS(low_bits_untouched, ((LOGB(0) ^ LOGA(0)) & (DISPATCH_QUEUE_PENDING_BARRIER - 1) & ~DISPATCH_QUEUE_DIRTY) == 0)
)
void harness(void)
{
	h_setup_lane();
	H_owned_units = ND(uint64_t);
	uint64_t owned = ND(uint64_t);
	bool r = _dispatch_queue_try_upgrade_full_width(H_DQ, owned);
	VERIF_POST(_dispatch_queue_try_upgrade_full_width, r, H_DQ, owned);
	VERIF_REACH(granted_under_invariant, r && ACC_INV(LOGA(0), H_lane.dq_width));
	VERIF_REACH(parked_under_invariant, !r && ACC_INV(LOGA(0), H_lane.dq_width) && H_lane.dq_width > 2);
	VERIF_CANARY();
}
#endif
