/*VERIF
{ "tu": "src/queue.c", "enforce": "dispatch_barrier_async", "props": ["C01", "C04", "C19"], "seq": true, "timeout": 120,
  "assumes": ["the block is a plain block or a block object; a block object created with DISPATCH_BLOCK_BARRIER makes the item a barrier inside _dispatch_continuation_init (own contracts: h_continuation_init / h_continuation_init_slow): the stub may add the barrier mark"],
  "stub_note": "_dispatch_continuation_alloc, _dispatch_continuation_init (records what it is given; may add DC_FLAG_BARRIER as the slow initialiser does for barrier block objects), _dispatch_continuation_async (= one dx_push): recorded" }
VERIF*/
#ifdef VERIF_PRE
#else
#include "contracts/common/dq_common.h"
struct dispatch_continuation_s H_dc; struct dispatch_queue_s H_q; struct Block_layout H_blk; unsigned H_inits, H_asyncs; _Bool H_bad, H_block_is_barrier; uintptr_t H_init_flags, H_async_flags; dispatch_qos_t H_qos;
static inline dispatch_continuation_t _dispatch_continuation_alloc(void) { return &H_dc; }
static inline dispatch_qos_t _dispatch_continuation_init(dispatch_continuation_t dc, dispatch_queue_class_t dqu, dispatch_block_t work, dispatch_block_flags_t flags, uintptr_t dc_flags)
{ if (dc != &H_dc || dqu._dq != &H_q || (void *)work != (void *)&H_blk || flags != 0 || H_asyncs) H_bad = 1; H_inits++; H_init_flags = dc_flags;
  dc->dc_flags = dc_flags | DC_FLAG_ALLOCATED | DC_FLAG_BLOCK | (H_block_is_barrier ? DC_FLAG_BARRIER : 0); return H_qos; }
static inline void _dispatch_continuation_async(dispatch_queue_class_t dqu, dispatch_continuation_t dc, dispatch_qos_t qos, uintptr_t dc_flags)
{ if (dqu._dq != &H_q || dc != &H_dc || qos != H_qos || H_inits != 1) H_bad = 1; H_asyncs++; H_async_flags = dc_flags; }
VERIF_CONTRACT_VOID(dispatch_barrier_async, (dispatch_queue_t dq, dispatch_block_t work),
  REQ(dq == &H_q && (void *)work == (void *)&H_blk && H_inits == 0 && H_asyncs == 0 && !H_bad)
  ASG(__CPROVER_object_whole(&H_dc), H_inits, H_asyncs, H_bad, H_init_flags, H_async_flags)
  /* C01 / C04 / C19: one call = ONE work item: initialised once from the block as a consumable BARRIER item, then pushed exactly once to the queue it was submitted to */
  ENS(one_item_initialised_once_from_the_block_then_pushed_once, H_inits == 1 && H_asyncs == 1 && !H_bad && H_init_flags == (DC_FLAG_CONSUME | DC_FLAG_BARRIER) && (H_async_flags & DC_FLAG_CONSUME))
  ENS(the_push_is_told_it_is_a_barrier, (H_async_flags & DC_FLAG_BARRIER) != 0)
)
void harness(void)
{
	VERIF_GHOST_RESET(); H_inits = H_asyncs = 0; H_bad = 0; H_block_is_barrier = ND_BOOL(); H_qos = ND(dispatch_qos_t);
	dispatch_barrier_async(&H_q, (dispatch_block_t)(void *)&H_blk);
	VERIF_POST_VOID(dispatch_barrier_async, &H_q, (dispatch_block_t)(void *)&H_blk);
	VERIF_CANARY();
}
#endif
