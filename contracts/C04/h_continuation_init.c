/*VERIF
{ "tu": "src/queue.c", "enforce": "_dispatch_continuation_init", "props": ["C04", "C07", "C19"], "seq": true, "timeout": 200,
  "assumes": ["the continuation comes from the per-thread cache: EVERY field holds whatever its previous use left there (the cache does not clear it)",
              "the block is a plain block or a block object made by dispatch_block_create* (its invoke function is _dispatch_block_special_invoke)"],
  "stub_note": "_dispatch_Block_copy (returns the heap copy), _dispatch_continuation_init_slow (own contract: h_continuation_init_slow; records the flags / context it is entered with), _dispatch_priority_propagate, voucher bookkeeping: stubs" }
VERIF*/
#ifdef VERIF_PRE
#else
#define DQ_STUB_REFS 1
#define DQ_STUB_TARGET 1
#include "contracts/common/dq_common.h"
struct dispatch_continuation_s H_dc; struct Block_layout H_blk, H_copy; uintptr_t H_dcf_arg, H_slow_flags; void *H_slow_ctxt; unsigned H_slows, H_copies; _Bool H_bad, H_priv;
dispatch_block_flags_t H_flags_arg; dispatch_qos_t H_slow_qos;
static void h_plain_invoke(void *b) { (void)b; }
void *(_dispatch_Block_copy)(void *block) { if (block != (void *)&H_blk) H_bad = 1; H_copies++; H_copy = H_blk; return &H_copy; }
static inline pthread_priority_t _dispatch_priority_propagate(void) { return ND(pthread_priority_t) & ~_PTHREAD_PRIORITY_FLAGS_MASK; }
dispatch_qos_t _dispatch_continuation_init_slow(dispatch_continuation_t dc, dispatch_queue_class_t dqu, dispatch_block_flags_t flags)
{ if (dc != &H_dc || dqu._dq != (dispatch_queue_t)H_DQ || flags != H_flags_arg) H_bad = 1; H_slows++; H_slow_flags = dc->dc_flags; H_slow_ctxt = dc->dc_ctxt; return H_slow_qos; }
#define EXPECT_FLAGS (H_dcf_arg | DC_FLAG_BLOCK | DC_FLAG_ALLOCATED)
VERIF_CONTRACT(dispatch_qos_t, _dispatch_continuation_init, (dispatch_continuation_t dc, dispatch_queue_class_t dqu, dispatch_block_t work, dispatch_block_flags_t flags, uintptr_t dc_flags),
  REQ(dc == &H_dc && dqu._dq == (dispatch_queue_t)H_DQ && (void *)work == (void *)&H_blk && flags == H_flags_arg && dc_flags == H_dcf_arg && H_slows == 0 && H_copies == 0 && !H_bad
      && H_priv == (H_blk.invoke == (void (*)(void *, ...))_dispatch_block_special_invoke))
  ASG(__CPROVER_object_whole(&H_dc), __CPROVER_object_whole(&H_copy), H_slows, H_copies, H_bad, H_slow_flags, H_slow_ctxt)
  /* C04 / C07 / C19: the KIND of the item (barrier, group-async, consume, sync-waiter ... bits of dc_flags) is exactly what THIS submission
   * asked for: nothing that the recycled continuation's previous use left in dc_flags survives (a stale DC_FLAG_GROUP_ASYNC would make the
   * item leave a group it never entered, a stale DC_FLAG_BARRIER would make it a barrier) */
  ENS(a_plain_block_gets_exactly_the_requested_kind, H_priv || (H_dc.dc_flags == EXPECT_FLAGS && H_slows == 0))
  ENS(a_block_object_enters_the_slow_initialiser_with_exactly_the_requested_kind, !H_priv || (H_slows == 1 && H_slow_flags == EXPECT_FLAGS && H_slow_ctxt == (void *)&H_copy))
  ENS(the_block_is_copied_once_and_the_copy_is_what_runs, H_copies == 1 && !H_bad && H_dc.dc_ctxt == (void *)&H_copy)
  ENS(a_plain_block_runs_through_its_own_invoke_function_and_is_released_when_consumed, H_priv || H_dc.dc_func == ((H_dcf_arg & DC_FLAG_CONSUME) ? _dispatch_call_block_and_release : (dispatch_function_t)h_plain_invoke))
)
void harness(void)
{
	h_setup_lane(); h_setup_target();
	H_slows = H_copies = 0; H_bad = 0; H_priv = ND_BOOL(); H_slow_qos = ND(dispatch_qos_t); H_flags_arg = ND(dispatch_block_flags_t); H_dcf_arg = ND(uintptr_t) & 0x1ff;
	H_blk.invoke = H_priv ? (void (*)(void *, ...))_dispatch_block_special_invoke : (void (*)(void *, ...))h_plain_invoke;
	/* recycled continuation: arbitrary stale contents */
	H_dc.dc_flags = ND(uintptr_t); H_dc.dc_func = 0; H_dc.dc_ctxt = 0; H_dc.dc_data = ND_BOOL() ? (void *)&H_target : (void *)0; H_dc.dc_priority = ND(pthread_priority_t);
	H_lane.dq_priority = ND(dispatch_priority_t);
	dispatch_queue_class_t dqu = { ._dq = (dispatch_queue_t)H_DQ };
	dispatch_qos_t r = _dispatch_continuation_init(&H_dc, dqu, (dispatch_block_t)(void *)&H_blk, H_flags_arg, H_dcf_arg);
	VERIF_POST(_dispatch_continuation_init, r, &H_dc, dqu, (dispatch_block_t)(void *)&H_blk, H_flags_arg, H_dcf_arg);
	/* (CBMC 6.11 cannot resolve __CPROVER_return_value in this function's contract: the result is asserted here instead) */
	VERIF_ASSERT(a_block_object_gets_the_qos_the_slow_initialiser_computed, !H_priv || r == H_slow_qos);
	VERIF_REACH(block_object, H_priv && H_slows == 1);
	VERIF_REACH(plain_consumed, !H_priv && (H_dcf_arg & DC_FLAG_CONSUME));
	VERIF_CANARY();
}
#endif
