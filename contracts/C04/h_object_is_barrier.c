/*VERIF
{ "tu": "src/queue.c", "enforce": "_dispatch_object_is_barrier", "props": ["C04", "C16", "C02"], "nondet_volatile": true, "timeout": 120,
  "rewrite_all": [["(&(dou._do)->do_vtable->_os_obj_vtable)->", "(dou._do)->do_vtable->_os_obj_vtable."]],
  "assumes": ["the item is a plain continuation (dc_flags <= 0xfff) or an object with a vtable of ANY type value (lane, work loop, source, semaphore / group, data, io ...)",
              "another thread may change the object's atomic flags word at any time except the barrier bit (set once, at activation of a source whose handler is a barrier block, before the object can be enqueued)"],
  "stub_note": "none" }
VERIF*/
#ifdef VERIF_PRE
extern const volatile void *H_rely_ptr; extern unsigned long long H_rely_bit;
#define __VERIF_RELY(p, v) ((const volatile void *)(p) != H_rely_ptr || (((unsigned long long)(v)) & 0x00080000ull) == H_rely_bit)
#else
#define DQ_STUB_REFS 1
#include "contracts/common/dq_common.h"
const volatile void *H_rely_ptr; unsigned long long H_rely_bit;
struct dispatch_lane_vtable_s H_vt_any; struct dispatch_continuation_s H_dc; _Bool H_is_object; unsigned long H_type;
#define EXPECT (H_is_object ? (((H_type & _DISPATCH_TYPE_CLUSTER_MASK) == _DISPATCH_QUEUE_CLUSTER) && H_rely_bit != 0) : ((H_dc.dc_flags & DC_FLAG_BARRIER) != 0))
VERIF_CONTRACT(bool, _dispatch_object_is_barrier, (dispatch_object_t dou),
  REQ((H_is_object ? dou._dq == (dispatch_queue_t)&H_lane : dou._dc == &H_dc) && __verif_n == 0 && H_dc.dc_flags <= 0xffful && H_lane.do_vtable == &H_vt_any && H_vt_any._os_obj_vtable.do_type == H_type)
  ASG(VERIF_GHOST)
  /* C04: a queued item is a barrier exactly when it is a continuation marked DC_FLAG_BARRIER, or ANY object of the queue cluster - a lane, a work loop AND a
   * source (dispatch_after / a source whose handler was created with DISPATCH_BLOCK_BARRIER) - that carries the barrier bit; objects of other clusters never are */
  ENS(barrier_iff_marked_continuation_or_queue_cluster_object_with_the_barrier_bit, (__CPROVER_return_value != 0) == EXPECT)
  ENS(deciding_it_changes_nothing, __verif_n == 0)
)
void harness(void)
{
	h_setup_lane();
	H_is_object = ND_BOOL(); H_type = ND(unsigned long); *(unsigned long *)&H_vt_any._os_obj_vtable.do_type = H_type; H_lane.do_vtable = &H_vt_any;
	H_dc.dc_flags = ND(uintptr_t); __CPROVER_assume(H_dc.dc_flags <= 0xffful);
	H_rely_ptr = &H_lane.dq_atomic_flags; H_rely_bit = ND_BOOL() ? DQF_BARRIER_BIT : 0; H_lane.dq_atomic_flags = (ND(uint32_t) & ~(uint32_t)DQF_BARRIER_BIT) | (uint32_t)H_rely_bit;
	dispatch_object_t dou; if (H_is_object) dou._dq = (dispatch_queue_t)&H_lane; else dou._dc = &H_dc;
	bool r = _dispatch_object_is_barrier(dou);
	VERIF_POST(_dispatch_object_is_barrier, r, dou);
	VERIF_REACH(barrier_source, H_is_object && H_type == DISPATCH_SOURCE_KEVENT_TYPE && r);
	VERIF_REACH(plain_barrier, !H_is_object && r);
	VERIF_CANARY();
}
#endif
