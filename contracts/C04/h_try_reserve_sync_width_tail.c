/*VERIF
{ "tu": "src/queue.c", "enforce": "_dispatch_queue_try_reserve_sync_width", "props": ["C04"],
  "timeout": 120,
  "assumes": ["this harness reads dq_items_tail as set by the harness (no interference on that one read) to show that a non-empty tail refuses"] }
VERIF*/
#ifdef VERIF_PRE
#else
#include "contracts/common/dq_common.h"
struct dispatch_continuation_s H_item;
/* ordering: a reader may not take the fast path while anything is queued ahead of it */
VERIF_CONTRACT(bool, _dispatch_queue_try_reserve_sync_width, (dispatch_lane_t dq),
  REQ(dq == H_DQ && __verif_n == 0 && dq->dq_items_tail != 0)
  ASG(dq->dq_state, VERIF_GHOST)
  ENS(refused_when_items_are_queued, !__CPROVER_return_value && __verif_n == 0)
)
void harness(void)
{
	h_setup_lane();
	H_lane.dq_items_tail = (struct dispatch_object_s *)&H_item;
	bool r = _dispatch_queue_try_reserve_sync_width(H_DQ);
	VERIF_POST(_dispatch_queue_try_reserve_sync_width, r, H_DQ);
	VERIF_CANARY();
}
#endif
