/*VERIF
{ "tu": "src/queue.c", "enforce": "_dispatch_queue_try_acquire_async", "props": ["C04","C03","C06"],
  "nondet_volatile": true, "timeout": 120 }
VERIF*/
#ifdef VERIF_PRE
#else
#include "contracts/common/dq_common.h"
#include "contracts/C04/try_acquire_async.contract.h"
void harness(void)
{
	h_setup_lane();
	bool r = _dispatch_queue_try_acquire_async(H_DQ);
	VERIF_POST(_dispatch_queue_try_acquire_async, r, H_DQ);
	VERIF_CANARY();
}
#endif
