/*VERIF
{ "tu": "src/queue.c", "enforce": "_dispatch_lane_drain_non_barriers", "props": ["C04", "C01", "C02"], "nondet_volatile": true, "timeout": 400,
  "cut_goto": {"_dispatch_lane_drain_non_barriers": ["drain_again"]}, "rmw_extra": {"_dispatch_lane_drain_non_barriers#0": "next_dc"},
  "deciding": ["postcondition", "assertion", "precondition", "loop"],
  "assumes": ["ghost counters do not wrap (fewer than 2^62 items per turn)", "the queued items are modelled by two alternating summary nodes whose kind (waiter / async, barrier or not) is re-chosen at every pop: any number of items (loop contract)",
              "rely: the caller owns the barrier when it enters (IN_BARRIER + full width + drain lock: h_lane_barrier_complete); afterwards other readers may only ADD and give back their own width",
              "the jump back into the loop after a refused unlock (goto drain_again) is a cut point: checked that DIRTY was acknowledged with acquire and nothing was given back"],
  "stub_note": "_dispatch_queue_pop_head, _dispatch_queue_reserve_sync_width, _dispatch_queue_try_acquire_async (own contract: arbitrary result), _dispatch_non_barrier_waiter_redirect_or_wake, _dispatch_continuation_redirect_push, _dispatch_lane_non_barrier_complete_finish: counting stubs" }
VERIF*/
#ifdef VERIF_PRE
#include <stdint.h>
#include <stddef.h>
extern struct dispatch_continuation_s H_node0, H_node1, H_first; extern unsigned long long H_started, H_sync_reserved, H_async_acquired, H_pops; extern _Bool H_bad, H_last_null, H_last_barrier; extern uint16_t H_w;
extern const volatile void *H_rely_ptr;
#define __VERIF_RELY(p, v) ((const volatile void *)(p) != H_rely_ptr || !(((unsigned long long)(v)) & 0x2000000000ull))
#else
#define DQ_STUB_REFS 1
#define DQ_STUB_TARGET 1
#include "contracts/common/dq_common.h"
struct dispatch_continuation_s H_node0, H_node1, H_first; unsigned long long H_started, H_sync_reserved, H_async_acquired, H_pops; _Bool H_bad, H_last_null, H_last_barrier; uint16_t H_w;
#define H_CNT_MAX (1ull << 62)   /* ghost counters do not wrap: fewer than 2^62 items are drained in one turn (assumed in the counting stubs) */
uint64_t H_fin_old, H_fin_new; dispatch_wakeup_flags_t H_fin_flags, H_wf; unsigned H_finishes;
#define IS_BARRIER_ITEM(dc) ((((dispatch_continuation_t)(dc))->dc_flags & DC_FLAG_BARRIER) != 0)
static inline struct dispatch_object_s *_dispatch_queue_pop_head(dispatch_lane_class_t dq, struct dispatch_object_s *dc)
{	(void)dq; (void)dc; __CPROVER_assume(H_pops < H_CNT_MAX); H_pops++;
	if (ND_BOOL()) { H_last_null = 1; H_last_barrier = 0; return 0; }
	/* the item BEHIND dc is a different object than dc: two summary nodes used alternately */
	struct dispatch_continuation_s *nx = (dc == (struct dispatch_object_s *)&H_node0) ? &H_node1 : &H_node0;
	nx->dc_flags = ND(uintptr_t) & 0xfff; /* a continuation: the flags word shares storage with do_vtable */ H_last_null = 0; H_last_barrier = (nx->dc_flags & DC_FLAG_BARRIER) != 0; return (struct dispatch_object_s *)nx; }
static inline void _dispatch_queue_reserve_sync_width(dispatch_lane_t dq) { (void)dq; __CPROVER_assume(H_sync_reserved < H_CNT_MAX); H_sync_reserved++; }
static inline bool _dispatch_queue_try_acquire_async(dispatch_lane_t dq) { (void)dq; if (ND_BOOL()) { __CPROVER_assume(H_async_acquired < H_CNT_MAX); H_async_acquired++; return true; } return false; }
/* an item is started as a READER: never a barrier item, and always backed by one unit of width */
static void _dispatch_non_barrier_waiter_redirect_or_wake(dispatch_lane_t dq, dispatch_object_t dou) { (void)dq; if (IS_BARRIER_ITEM(dou._dc) && H_w > 1) H_bad = 1; H_started++; }
static void _dispatch_continuation_redirect_push(dispatch_lane_t dl, dispatch_object_t dou, dispatch_qos_t qos) { (void)dl; (void)qos; if (IS_BARRIER_ITEM(dou._dc)) H_bad = 1; H_started++; }
static void _dispatch_lane_non_barrier_complete_finish(dispatch_lane_t dq, dispatch_wakeup_flags_t flags, uint64_t old_state, uint64_t new_state)
{ (void)dq; H_fin_old = old_state; H_fin_new = new_state; H_fin_flags = flags; H_finishes++; }
void __verif_cut_backjump(void)
{	/* queue drained but DIRTY seen: the lock is kept, DIRTY acknowledged (acquire), and draining continues with the freshly published head */
	VERIF_REACH(dirty_retry_reached, 1);
	VERIF_ASSERT(dirty_is_acknowledged_and_draining_continues_without_giving_anything_back, H_finishes == 0 && !H_bad);
	__CPROVER_assume(0);
}
VERIF_LOOP_CONTRACT(_dispatch_lane_drain_non_barriers, 0,
	__CPROVER_assigns(dc, next_dc, owned_width, H_started, H_sync_reserved, H_async_acquired, H_pops, H_bad, H_last_null, H_last_barrier, __CPROVER_object_whole(&H_node0), __CPROVER_object_whole(&H_node1), dq->dq_state, VERIF_GHOST)
	__CPROVER_loop_invariant(owned_width <= H_w && !H_bad && H_started == H_pops && __verif_n == 1 && __VLE(0) && !H_last_null && !H_last_barrier
		&& H_started == (unsigned long long)(H_w - owned_width) + H_sync_reserved + H_async_acquired && H_sync_reserved <= H_CNT_MAX && H_async_acquired <= H_CNT_MAX && H_pops <= H_CNT_MAX
		&& dc != 0 && (dc == (struct dispatch_object_s *)&H_node0 || dc == (struct dispatch_object_s *)&H_node1 || dc == (struct dispatch_object_s *)&H_first) && !IS_BARRIER_ITEM(dc) && H_node0.dc_flags <= 0xfff && H_node1.dc_flags <= 0xfff && H_first.dc_flags <= 0xfff
		&& (owned_width == 0 || (H_sync_reserved == 0 && H_async_acquired == 0))))
VERIF_CONTRACT_VOID(_dispatch_lane_drain_non_barriers, (dispatch_lane_t dq, struct dispatch_object_s *dc, dispatch_wakeup_flags_t flags),
  REQ(dq == H_DQ && dc == (struct dispatch_object_s *)&H_first && !IS_BARRIER_ITEM(&H_first) && H_first.dc_flags <= 0xfff && flags == H_wf && __verif_n == 0 && VALID_TID(H_SELF))
  REQ(H_lane.dq_width == H_w && H_w >= 2 && H_w <= DISPATCH_QUEUE_WIDTH_MAX && H_started == 0 && H_sync_reserved == 0 && H_async_acquired == 0 && H_pops == 0 && !H_bad && !H_last_null && !H_last_barrier && H_finishes == 0)
  ASG(VERIF_GHOST, H_lane.dq_state, H_started, H_sync_reserved, H_async_acquired, H_pops, H_bad, H_last_null, H_last_barrier, __CPROVER_object_whole(&H_node0), __CPROVER_object_whole(&H_node1), H_fin_old, H_fin_new, H_fin_flags, H_finishes)
  /* every item started as a reader holds exactly one unit of width: first the units the barrier owner already held (dq_width of them),
   * then one reserved per extra sync reader, or one acquired per extra async item (which may be refused: then draining stops) */
  ENS(every_started_reader_is_backed_by_exactly_one_unit_of_width, !H_bad && H_started >= 1 && H_started == H_pops)
  ENS(no_barrier_item_is_ever_started_as_a_reader, !H_bad)
  ENS(the_turn_ends_through_the_completion_path_exactly_once_with_the_callers_flags, H_finishes == 1 && H_fin_flags == H_wf)
  ENS(barrier_mode_is_left_with_release_before_any_reader_is_started, IS_COMMIT(0, &H_lane.dq_state) && LOGB(0) == (LOGA(0) & ~DISPATCH_QUEUE_IN_BARRIER) && VMO_IS_REL(LOGM(0)))
  /* what is given back at the end is exactly the part of the owner's width no started reader is using; when the next item is a barrier
   * the pending-barrier reservation (PENDING_BARRIER + width-1 units) is kept out of it */
  ENS(exactly_the_unused_part_of_the_owned_width_is_given_back, __verif_n >= 1 && __verif_n <= 12 && IS_COMMIT(LAST, &H_lane.dq_state)
	&& LOGA(LAST) - H_fin_old == (H_w - (H_started - H_sync_reserved - H_async_acquired)) * DISPATCH_QUEUE_WIDTH_INTERVAL
		- (H_last_barrier ? DISPATCH_QUEUE_PENDING_BARRIER + (uint64_t)(H_w - 1) * DISPATCH_QUEUE_WIDTH_INTERVAL : 0))
  ENS(a_drained_queue_is_unlocked_with_the_dirty_mark_cleared, !H_last_null || LOGB(LAST) == ((H_fin_old & ~DISPATCH_QUEUE_DRAIN_UNLOCK_MASK) & ~DISPATCH_QUEUE_DIRTY))
  /* the final update never hands back more than was left of the owner's own width, and drops the owner and unlock marks */
  ENS(final_update_drops_the_lock_unless_it_takes_the_barrier_for_the_next_item, S_OWNER(H_fin_new) == 0 || ((H_fin_new ^ H_fin_old) & DISPATCH_QUEUE_IN_BARRIER))
)
void harness(void)
{
	h_setup_lane(); h_setup_target();
	H_w = H_lane.dq_width; __CPROVER_assume(H_w >= 2 && H_w <= DISPATCH_QUEUE_WIDTH_MAX);
	H_started = H_sync_reserved = H_async_acquired = H_pops = 0; H_bad = 0; H_last_null = 0; H_last_barrier = 0; H_finishes = 0; H_wf = ND(dispatch_wakeup_flags_t);
	H_first.dc_flags = (ND(uintptr_t) & 0xfff) & ~(uintptr_t)DC_FLAG_BARRIER; H_node0.dc_flags = 0; H_node1.dc_flags = 0;
	H_rely_ptr = &H_lane.dq_state;
	__verif_ptrloc = &H_lane.dq_items_head; __verif_ptrobj = &H_node0;
	_dispatch_lane_drain_non_barriers(H_DQ, (struct dispatch_object_s *)&H_first, H_wf);
	VERIF_POST_VOID(_dispatch_lane_drain_non_barriers, H_DQ, (struct dispatch_object_s *)&H_first, H_wf);
	VERIF_REACH(more_readers_than_width, H_started > H_w);
	VERIF_CANARY();
}
#endif
