/*VERIF
{ "tu": "src/queue.c", "enforce": "_dispatch_async_and_wait_block_with_privdata", "props": ["C04", "C02", "C01", "C19", "C17"], "nondet_volatile": true, "timeout": 200,
  "assumes": ["the block is a block object (dispatch_block_create*); its private data is reached through _dispatch_block_get_data (Blocks ABI: out of reach)",
              "another thread may submit the same block object at the same time (the compare-and-swap on dbpd_queue sees an arbitrary value)"],
  "stub_note": "_dispatch_async_and_wait_recurse (own contract: C02/C18 harnesses; records the waiter it is given), priority / voucher bookkeeping, _dispatch_retain_2: recorded" }
VERIF*/
#ifdef VERIF_PRE
#else
#include "contracts/C19/block_common.h"
struct Block_layout H_blk; uintptr_t H_dcf0; dispatch_block_flags_t H_bflags0; unsigned H_recurses; uintptr_t H_flags_seen, H_dsc_flags; _Bool H_bad;
dispatch_function_t H_dc_func, H_dsc_func; void *H_dsc_ctxt, *H_dc_other; dispatch_tid H_dsc_waiter, H_tid_seen;
static void _dispatch_async_and_wait_recurse(dispatch_queue_t top_dq, dispatch_sync_context_t dsc, dispatch_tid tid, uintptr_t top_dc_flags)
{ if (top_dq != (dispatch_queue_t)H_DQ || dsc->dc_ctxt != (void *)dsc) H_bad = 1; H_recurses++; H_flags_seen = top_dc_flags; H_dsc_flags = dsc->dc_flags; H_dc_func = dsc->dc_func; H_dsc_func = dsc->dsc_func;
  H_dsc_ctxt = dsc->dsc_ctxt; H_dc_other = dsc->dc_other; H_dsc_waiter = dsc->dsc_waiter; H_tid_seen = tid; }
#define DBQ_P ((const volatile void *)&H_dbpd.dbpd_queue)
#define IS_BARRIER ((H_dcf0 & DC_FLAG_BARRIER) || (H_bflags0 & DISPATCH_BLOCK_BARRIER))
#define EXPECT_FLAGS (H_dcf0 | DC_FLAG_BLOCK_WITH_PRIVATE_DATA | (IS_BARRIER ? DC_FLAG_BARRIER : 0))
VERIF_CONTRACT_VOID(_dispatch_async_and_wait_block_with_privdata, (dispatch_queue_t dq, dispatch_block_t work, uintptr_t dc_flags),
  REQ(dq == (dispatch_queue_t)H_DQ && (void *)work == (void *)&H_blk && dc_flags == H_dcf0 && H_dbpd.dbpd_flags == H_bflags0 && __verif_n == 0 && H_recurses == 0 && !H_bad)
  ASG(VERIF_GHOST, H_dbpd.dbpd_queue, H_recurses, H_flags_seen, H_dsc_flags, H_bad, H_dc_func, H_dsc_func, H_dsc_ctxt, H_dc_other, H_dsc_waiter, H_tid_seen)
  /* C02 / C04: the waiter is a barrier when THE CALL says so - dispatch_async_and_wait on a serial queue and dispatch_barrier_async_and_wait pass DC_FLAG_BARRIER -
   * OR the block object was created with DISPATCH_BLOCK_BARRIER.  The block's own flags can only ADD the barrier mark, never take the caller's away: a
   * non-barrier waiter on a serial queue takes the reader path and runs next to the queue's other items */
  ENS(the_waiter_is_a_barrier_when_the_call_or_the_block_says_so_and_only_then, !H_bad && H_recurses == 1 && H_flags_seen == EXPECT_FLAGS && H_dsc_flags == EXPECT_FLAGS)
  /* C01 / C05: the waiter runs the block through the block-object life cycle, is identified by the calling thread, and names the queue it was submitted to */
  ENS(the_waiter_names_this_thread_this_queue_and_the_block_object_invoke, H_dc_func == _dispatch_async_and_wait_invoke && H_dsc_func == _dispatch_block_sync_invoke && H_dsc_ctxt == (void *)&H_blk
        && H_dc_other == (void *)H_DQ && H_dsc_waiter == _dispatch_tid_self() && H_tid_seen == _dispatch_tid_self())
  /* C19 / C17: first submission binds the queue and takes the +2 that the completion gives back; both or neither */
  ENS(binding_the_queue_and_taking_the_plus_two_go_together, __verif_n <= 12 && ((__verif_n >= 1 && IS_COMMIT(0, DBQ_P))
        ? (LOGA(0) == 0 && LOGB(0) == (unsigned long long)(uintptr_t)H_DQ && __verif_n >= 2 && LOGK(1) == EV_RETAIN && LOGP(1) == (void *)H_DQ && LOGA(1) == 2)
        : ((__verif_n < 1 || LOGK(0) != EV_RETAIN) && (__verif_n < 2 || LOGK(1) != EV_RETAIN))))
)
void harness(void)
{
	h_setup_lane(); h_setup_target(); h_setup_block();
	H_bflags0 = H_dbpd.dbpd_flags; H_dcf0 = (ND_BOOL() ? DC_FLAG_BARRIER : 0) | DC_FLAG_BLOCK | DC_FLAG_ASYNC_AND_WAIT; H_dbpd.dbpd_queue = ND_BOOL() ? (dispatch_queue_t)0 : (dispatch_queue_t)&H_target; H_dbpd.dbpd_priority = ND(pthread_priority_t); H_dbpd.dbpd_voucher = 0;
	H_recurses = 0; H_bad = 0;
	_dispatch_async_and_wait_block_with_privdata((dispatch_queue_t)H_DQ, (dispatch_block_t)(void *)&H_blk, H_dcf0);
	VERIF_POST_VOID(_dispatch_async_and_wait_block_with_privdata, (dispatch_queue_t)H_DQ, (dispatch_block_t)(void *)&H_blk, H_dcf0);
	VERIF_REACH(serial_queue_call_with_plain_block_object, (H_dcf0 & DC_FLAG_BARRIER) && !(H_bflags0 & DISPATCH_BLOCK_BARRIER));
	VERIF_CANARY();
}
#endif
