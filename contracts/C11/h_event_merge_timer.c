/*VERIF
{ "tu": "src/event/event_epoll.c", "enforce": "_dispatch_event_merge_timer", "props": ["C11"], "seq": true, "timeout": 120,
  "assumes": ["runs on the manager thread; one timer descriptor and one heap per libdispatch clock on this platform"],
  "stub_note": "none" }
VERIF*/
#ifdef VERIF_PRE
#else
#include "contracts/common/dq_common.h"
struct dispatch_timer_heap_s _dispatch_timers_heap[DISPATCH_TIMER_COUNT]; unsigned H_clock;
uint32_t H_dirty0;
#define H_heaps _dispatch_timers_heap
#define TIDX DISPATCH_TIMER_INDEX(H_clock, 0)
VERIF_CONTRACT_VOID(_dispatch_event_merge_timer, (dispatch_clock_t clock),
  REQ(clock == H_clock && H_clock < DISPATCH_CLOCK_COUNT && H_heaps[0].dth_dirty_bits == H_dirty0)
  ASG(__CPROVER_object_whole(H_heaps), __CPROVER_object_whole(_dispatch_epoll_timeout))
  /* C11: when the kernel timer of a clock has fired it is ONE-SHOT and no longer armed: both the descriptor record and the heap of that clock say so, and the heap is
   * marked dirty / needing a new program, so that the timers are run and the NEXT deadline is programmed - a fired timer that still counts as armed is never re-armed
   * and every later timer of that clock is lost */
  ENS(the_fired_kernel_timer_counts_as_disarmed_and_its_heap_must_be_reprogrammed, !_dispatch_epoll_timeout[H_clock].det_armed && !H_heaps[TIDX].dth_armed && H_heaps[TIDX].dth_needs_program
        && (H_heaps[0].dth_dirty_bits & DTH_DIRTY_GLOBAL) && (H_heaps[0].dth_dirty_bits & (1u << DISPATCH_TIMER_QOS(TIDX))) && (H_heaps[0].dth_dirty_bits & H_dirty0) == H_dirty0)
)
void harness(void)
{
	VERIF_GHOST_RESET();
	H_clock = ND(unsigned); __CPROVER_assume(H_clock < DISPATCH_CLOCK_COUNT); H_dirty0 = ND(uint8_t) & 0x7f; H_heaps[0].dth_dirty_bits = H_dirty0;
	for (unsigned c = 0; c < DISPATCH_CLOCK_COUNT; c++) { _dispatch_epoll_timeout[c].det_armed = ND_BOOL(); H_heaps[DISPATCH_TIMER_INDEX(c, 0)].dth_armed = ND_BOOL(); H_heaps[DISPATCH_TIMER_INDEX(c, 0)].dth_needs_program = ND_BOOL(); }
	_dispatch_event_merge_timer((dispatch_clock_t)H_clock);
	VERIF_POST_VOID(_dispatch_event_merge_timer, (dispatch_clock_t)H_clock);
	VERIF_CANARY();
}
#endif
