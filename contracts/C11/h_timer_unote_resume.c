/*VERIF
{ "tu": "src/event/event.c", "enforce": "_dispatch_timer_unote_resume", "props": ["C11","C17"], "seq": true, "timeout": 200,
  "stub_note": "_dispatch_timer_unote_arm/_disarm (heap insertion/removal: bounded harness b_timer_heap), needs_rearm, retain/release of the owning source: stubs over a ghost 'armed' state" }
VERIF*/
#ifdef VERIF_PRE
#else
struct dispatch_timer_source_refs_s H_dt; struct dispatch_timer_heap_s H_heaps[DISPATCH_TIMER_COUNT];
_Bool H_armed, H_armed0, H_will_arm; uint32_t H_armed_tidx, H_armed_tidx0; int H_refs;  /* ghost: +2 units held by the heap on the source */
unsigned H_arms, H_disarms; _Bool H_bad;
static inline bool _dispatch_timer_unote_needs_rearm(dispatch_timer_source_refs_t dr, int flags) { (void)dr; (void)flags; return H_will_arm; }
static void _dispatch_timer_unote_disarm(dispatch_timer_source_refs_t dt, dispatch_timer_heap_t dth) { (void)dth; if (!H_armed || dt->du_ident != H_armed_tidx) H_bad = 1; H_armed = 0; H_disarms++; dt->du_state &= ~(uintptr_t)DU_STATE_ARMED; /* as the real disarm does */ }
static void _dispatch_timer_unote_arm(dispatch_timer_source_refs_t dt, dispatch_timer_heap_t dth, uint32_t tidx)
{ (void)dth; if (H_armed && H_armed_tidx != tidx) H_bad = 1; /* "updated" requires the same heap */ if (!H_armed) { dt->du_ident = tidx; H_armed_tidx = tidx; } H_armed = 1; H_arms++; dt->du_state |= DU_STATE_ARMED; }
static inline void _dispatch_retain_unote_owner(dispatch_unote_t du) { (void)du; H_refs++; }
static inline void _dispatch_release_unote_owner_tailcall(dispatch_unote_t du) { (void)du; H_refs--; }
static inline dispatch_timer_heap_t _dispatch_timer_unote_heap(dispatch_timer_source_refs_t dt) { (void)dt; return H_heaps; }
/* the armed bit of the unote state mirrors the ghost */
#define ARMED_BIT_MATCHES ((((H_dt.du_state) & DU_STATE_ARMED) != 0) == H_armed)
VERIF_CONTRACT_VOID(_dispatch_timer_unote_resume, (dispatch_timer_source_refs_t dt),
  REQ(dt == &H_dt && H_armed == H_armed0 && H_refs == 0 && !H_bad && H_arms == 0 && H_disarms == 0 && ARMED_BIT_MATCHES && VIMPL(H_armed0, H_dt.du_ident == H_armed_tidx0 && H_armed_tidx == H_armed_tidx0))
  ASG(H_dt.du_ident, H_dt.du_state, H_armed, H_armed_tidx, H_refs, H_arms, H_disarms, H_bad)
  ENS(heap_protocol_respected, !H_bad)
  /* the timer ends up armed exactly when it should fire again, in the heap of its (possibly new) clock/QoS */
  ENS(armed_iff_it_must_fire_again, H_armed == H_will_arm)
  /* the heap owns one +2 on the source exactly while the timer is armed: the balance of this call equals the change in 'armed' */
  ENS(reference_balance_matches_armed_change, H_refs == (H_armed ? 1 : 0) - (H_armed0 ? 1 : 0))
  ENS(moving_to_another_heap_goes_through_disarm, VIMPL(H_armed0 && H_will_arm && H_armed_tidx0 != H_armed_tidx, H_disarms == 1 && H_arms == 1))
)
void harness(void)
{
	VERIF_GHOST_RESET();
	H_armed0 = ND_BOOL(); H_armed = H_armed0; H_will_arm = ND_BOOL(); H_refs = 0; H_bad = 0; H_arms = H_disarms = 0;
	H_dt.du_timer_flags = ND(uint8_t); H_armed_tidx0 = ND(uint32_t) % DISPATCH_TIMER_COUNT; H_armed_tidx = H_armed_tidx0;
	H_dt.du_ident = H_armed0 ? H_armed_tidx0 : ND(uint32_t) % DISPATCH_TIMER_COUNT;
	H_dt.du_state = H_armed0 ? DU_STATE_ARMED : 0;
	_dispatch_timer_unote_resume(&H_dt);
	VERIF_POST_VOID(_dispatch_timer_unote_resume, &H_dt);
	VERIF_REACH(moved_heaps, H_disarms == 1 && H_arms == 1);
	VERIF_CANARY();
}
#endif
