/*VERIF
{ "tu": "src/event/event.c", "enforce": "_dispatch_timers_program", "props": ["C11"], "seq": true, "timeout": 200,
  "assumes": ["heap invariant (b_timer_heap*, bounded): dth_min[TARGET] / dth_min[DEADLINE] are the timers with the smallest target / deadline of the heap, both NULL when it is empty; target <= deadline, target < INT64_MAX",
              "no timer coalescing on this platform (DISPATCH_HAVE_TIMER_COALESCING == 0)"],
  "stub_note": "_dispatch_time_now_cached (clock read), _dispatch_event_loop_timer_arm / _delete (timerfd programming: event_epoll.c): recording stubs" }
VERIF*/
#ifdef VERIF_PRE
#else
struct dispatch_timer_heap_s H_heaps[DISPATCH_TIMER_COUNT]; struct dispatch_timer_source_refs_s H_tmin, H_dmin;
uint32_t H_tidx; uint64_t H_now; unsigned H_arms, H_deletes; dispatch_timer_delay_s H_armed_range; uint32_t H_arm_tidx; _Bool H_bad, H_armed0, H_empty; uint8_t H_dirty0;
static inline uint64_t _dispatch_time_now_cached(dispatch_clock_t clock, dispatch_clock_now_cache_t cache) { (void)cache; if (clock != DISPATCH_TIMER_CLOCK(H_tidx)) H_bad = 1; return H_now; }
void _dispatch_event_loop_timer_arm(dispatch_timer_heap_t dth, uint32_t tidx, dispatch_timer_delay_s range, dispatch_clock_now_cache_t nows) { (void)nows; if (dth != H_heaps) H_bad = 1; H_arms++; H_armed_range = range; H_arm_tidx = tidx; }
void _dispatch_event_loop_timer_delete(dispatch_timer_heap_t dth, uint32_t tidx) { if (dth != H_heaps || tidx != H_tidx) H_bad = 1; H_deletes++; }
#define TGT (H_tmin.dt_timer.target)
#define DL  (H_dmin.dt_timer.deadline)
#define DUE (!H_empty && TGT <= H_now)
VERIF_CONTRACT_VOID(_dispatch_timers_program, (dispatch_timer_heap_t dth, uint32_t tidx, dispatch_clock_now_cache_t nows),
  REQ(dth == H_heaps && tidx == H_tidx && H_tidx < DISPATCH_TIMER_COUNT && H_arms == 0 && H_deletes == 0 && !H_bad && H_heaps[0].dth_dirty_bits == H_dirty0 && H_heaps[H_tidx].dth_armed == H_armed0)
  REQ(H_heaps[H_tidx].dth_min[DTH_TARGET_ID] == (H_empty ? 0 : &H_tmin) && H_heaps[H_tidx].dth_min[DTH_DEADLINE_ID] == (H_empty ? 0 : &H_dmin) && TGT <= DL && TGT < INT64_MAX)
  ASG(__CPROVER_object_whole(H_heaps), H_arms, H_deletes, H_armed_range, H_arm_tidx, H_bad)
  ENS(clock_of_the_heap_is_used, !H_bad)
  /* a pending (not yet due) earliest timer is covered by a kernel timer that expires exactly at its target, with the deadline as leeway */
  ENS(earliest_pending_timer_is_armed_to_expire_at_its_target, VIMPL(!H_empty && !DUE, H_arms == 1 && H_deletes == 0 && H_arm_tidx == H_tidx && H_armed_range.delay == TGT - H_now && H_armed_range.leeway == ((DL - TGT) < (uint64_t)INT64_MAX ? (DL - TGT) : (uint64_t)INT64_MAX) && H_heaps[H_tidx].dth_armed))
  /* an already due earliest timer is NOT armed: the set is marked dirty so that the drain makes one more pass (h_drain_timers relies on this) */
  ENS(due_timer_marks_the_set_dirty_instead_of_arming, VIMPL(DUE, H_arms == 0 && (H_heaps[0].dth_dirty_bits & DTH_DIRTY_GLOBAL) && (H_heaps[0].dth_dirty_bits & (1u << DISPATCH_TIMER_QOS(H_tidx))) && !H_heaps[H_tidx].dth_armed))
  ENS(dirty_marks_are_only_added_for_a_due_timer, VIMPL(!DUE, H_heaps[0].dth_dirty_bits == H_dirty0))
  ENS(empty_heap_has_no_kernel_timer, VIMPL(H_empty, H_arms == 0 && !H_heaps[H_tidx].dth_armed))
  ENS(kernel_timer_is_deleted_exactly_when_one_was_armed_and_none_is_wanted, VIMPL(H_empty || DUE, H_deletes == (H_armed0 ? 1u : 0u)))
  ENS(request_is_consumed, !H_heaps[H_tidx].dth_needs_program)
)
void harness(void)
{
	VERIF_GHOST_RESET();
	H_tidx = ND(uint32_t); __CPROVER_assume(H_tidx < DISPATCH_TIMER_COUNT); H_now = ND(uint64_t); H_empty = ND_BOOL(); H_arms = H_deletes = 0; H_bad = 0;
	H_heaps[H_tidx].dth_min[DTH_TARGET_ID] = H_empty ? 0 : &H_tmin; H_heaps[H_tidx].dth_min[DTH_DEADLINE_ID] = H_empty ? 0 : &H_dmin;
	H_tmin.dt_timer.target = ND(uint64_t); H_dmin.dt_timer.deadline = ND(uint64_t); __CPROVER_assume(TGT <= DL && TGT < INT64_MAX);
	H_dirty0 = ND(uint8_t); H_heaps[0].dth_dirty_bits = H_dirty0; H_armed0 = ND_BOOL(); H_heaps[H_tidx].dth_armed = H_armed0; H_heaps[H_tidx].dth_needs_program = 1; H_heaps[H_tidx].dth_count = ND(uint32_t);
	dispatch_clock_now_cache_s nows = { };
	_dispatch_timers_program(H_heaps, H_tidx, &nows);
	VERIF_POST_VOID(_dispatch_timers_program, H_heaps, H_tidx, &nows);
	VERIF_REACH(armed, H_arms == 1);
	VERIF_REACH(due, H_arms == 0 && !H_empty);
	VERIF_CANARY();
}
#endif
