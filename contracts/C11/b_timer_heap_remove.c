/*VERIF
{ "tu": "src/event/event.c", "enforce": "_dispatch_timer_heap_remove", "props": ["C11"], "seq": true, "plain": true, "timeout": 900, "cases": 6, "case_only": [3, 4], "tier": "thorough", "mem_gb": 40,
  "bounded": {"unwind": 10, "what": "heaps of exactly 6 timers in two segments; timer k sits at node k of BOTH interleaved heaps (one fixed arrangement), all 64-bit target/deadline keys that make both heaps ordered; cases 3 and 4 only: removal of a child of node 1 while the relocated tail entry (node 5) comes from the other subtree -- the situation that needs a sift-UP; each case needs ~10 min and > 12 GB"},
  "stub_note": "_dispatch_timer_heap_shrink: no-op (segment bookkeeping not under test)" }
VERIF*/
#ifdef VERIF_PRE
#else
#define NT 6
struct dispatch_timer_source_refs_s H_t[NT]; struct dispatch_timer_heap_s H_dth; void *H_seg0[8], *H_seg1[8];
unsigned H_R;
static void _dispatch_timer_heap_shrink(dispatch_timer_heap_t dth) { (void)dth; }
#define SLOT(idx) ((idx) < 2 ? H_dth.dth_min[idx] : (idx) < 10 ? (dispatch_timer_source_refs_t)H_seg0[(idx) - 2] : (dispatch_timer_source_refs_t)H_seg1[(idx) - 10])
#define KEY(t, h) ((t)->dt_timer.heap_key[h])
#define PARENT_K(k) (((k) - 1) / 2)
VERIF_CONTRACT_VOID(_dispatch_timer_heap_remove, (dispatch_timer_heap_t dth, dispatch_timer_source_refs_t dt),
  REQ(dth == &H_dth && dt == &H_t[H_R] && H_R < NT)
  ASG(VERIF_GHOST)
  ENS(one_timer_fewer, H_dth.dth_count == 2 * (NT - 1))
  ENS(removed_timer_is_unlinked, H_t[H_R].dt_heap_entry[0] == DTH_INVALID_ID && H_t[H_R].dt_heap_entry[1] == DTH_INVALID_ID)
)
static void h_put(unsigned idx, dispatch_timer_source_refs_t t) { if (idx < 2) H_dth.dth_min[idx] = t; else if (idx < 10) H_seg0[idx - 2] = t; else H_seg1[idx - 10] = t; }
void harness(void)
{
	VERIF_GHOST_RESET();
	for (unsigned i = 0; i < NT; i++) { H_t[i].dt_timer.target = ND(uint64_t); H_t[i].dt_timer.deadline = ND(uint64_t); }
	for (unsigned h = 0; h < 2; h++) for (unsigned k = 1; k < NT; k++) __CPROVER_assume(KEY(&H_t[PARENT_K(k)], h) <= KEY(&H_t[k], h));
	for (unsigned i = 0; i < 8; i++) { H_seg0[i] = 0; H_seg1[i] = 0; }
	H_seg1[7] = H_seg0;          /* last entry of the last segment points to the previous segment */
	for (unsigned h = 0; h < 2; h++) for (unsigned k = 0; k < NT; k++) { h_put(2 * k + h, &H_t[k]); H_t[k].dt_heap_entry[h] = 2 * k + h; }
	H_dth.dth_count = 2 * NT; H_dth.dth_segments = 2; H_dth.dth_heap = H_seg1;
	H_R = VERIF_CASE;
	VERIF_PRE_CALL(_dispatch_timer_heap_remove, &H_dth, &H_t[H_R]);
	_dispatch_timer_heap_remove(&H_dth, &H_t[H_R]);
	VERIF_POST_VOID(_dispatch_timer_heap_remove, &H_dth, &H_t[H_R]);
	/* heap order in both heaps => the minimum target / deadline is at the root, the only entry the timer run loop looks at:
	 * a due timer can never hide below a later one */
	for (unsigned h = 0; h < 2; h++) for (unsigned k = 1; k < NT - 1; k++)
		VERIF_ASSERT(heap_order_holds_after_removal, KEY(SLOT(2 * PARENT_K(k) + h), h) <= KEY(SLOT(2 * k + h), h));
	/* every remaining timer is still in both heaps, at the position its back pointer says */
	for (unsigned h = 0; h < 2; h++) for (unsigned j = 0; j < NT; j++) if (j != H_R) {
		uint32_t e = H_t[j].dt_heap_entry[h];
		VERIF_ASSERT(every_remaining_timer_is_still_linked, e < 2 * (NT - 1) && DTH_HEAP_ID(e) == h && SLOT(e) == &H_t[j]);
	}
	VERIF_CANARY();
}
#endif
