/*VERIF
{ "tu": "src/source.c", "enforce": "_dispatch_interval_config_create", "props": ["C11"], "seq": true, "timeout": 300, "cbmc_flags": ["--sat-solver", "cadical", "--slice-formula"],
  "assumes": ["the up-time clock reads a value in [1, 2^62-2]; nanoseconds == clock ticks on this platform (_dispatch_time_nano2mach is the identity: real inline kept)",
              "NOT checked: that the first target is a MULTIPLE of the interval (a 64-bit remainder by a symbolic divisor; only the bounds that follow from remainder < divisor are decided) and the exact leeway value (64-bit multiply / divide)"],
  "stub_note": "_dispatch_calloc returns the harness object; _dispatch_uptime returns the harness reading" }
VERIF*/
#ifdef VERIF_PRE
#else
#include "contracts/common/dq_common.h"
#include "contracts/C12/time_spec.h"
uint64_t H_upnow;
static inline uint64_t _dispatch_uptime(void) { return H_upnow; }
struct dispatch_timer_config_s H_dtc; struct dispatch_timer_source_refs_s H_dt;
void *_dispatch_calloc(size_t n, size_t sz) { (void)n; (void)sz; return &H_dtc; }
#define IMAX ((uint64_t)INT64_MAX)
#define ANIM ((H_dt.du_timer_flags & DISPATCH_INTERVAL_UI_ANIMATION) != 0)
#define UNIT (ANIM ? (1000000000ull / 60) : 1000000ull)
#define YEAR 31536000000000000ull
#define EXP_INTERVAL(i) ((i) <= YEAR / UNIT ? (i) * UNIT : YEAR)
VERIF_CONTRACT(dispatch_timer_config_t, _dispatch_interval_config_create, (dispatch_time_t start, uint64_t interval, uint64_t leeway, dispatch_timer_source_refs_t dt),
  REQ(dt == &H_dt && (start == T_FOREVER || start == DISPATCH_TIME_NOW) && H_upnow >= 1 && H_upnow <= T_MAXV - 1 && interval >= 1 && (leeway <= 1000 || leeway == UINT64_MAX))
  ASG(__CPROVER_object_whole(&H_dtc))
  ENS(returns_the_new_configuration_on_the_uptime_clock, __CPROVER_return_value == &H_dtc && H_dtc.dtc_clock == DISPATCH_CLOCK_UPTIME)
  ENS(a_start_of_forever_never_fires, VIMPL(start == T_FOREVER, H_dtc.dtc_timer.target == IMAX && H_dtc.dtc_timer.deadline == IMAX && H_dtc.dtc_timer.interval == IMAX))
  /* the repeat interval is the requested number of milliseconds (or display frames), capped at about a year */
  ENS(interval_is_the_requested_one_in_clock_ticks, VIMPL(start != T_FOREVER, H_dtc.dtc_timer.interval == EXP_INTERVAL(interval) && H_dtc.dtc_timer.interval >= 1))
  /* C11: the first fire is aligned on an interval boundary that is STRICTLY in the future and at most one interval away: the handler never runs before the first
   * boundary after the timer was set, and no boundary is reported that has not passed */
  ENS(the_first_target_is_in_the_future_at_most_one_interval_away, VIMPL(start != T_FOREVER, H_dtc.dtc_timer.target > H_upnow && H_dtc.dtc_timer.target <= H_upnow + EXP_INTERVAL(interval)))
  ENS(deadline_never_before_target, VIMPL(start != T_FOREVER, H_dtc.dtc_timer.deadline >= H_dtc.dtc_timer.target))
)
void harness(void)
{
	VERIF_GHOST_RESET();
	H_upnow = ND(uint64_t); __CPROVER_assume(H_upnow >= 1 && H_upnow <= T_MAXV - 1);
	dispatch_time_t start = ND_BOOL() ? T_FOREVER : DISPATCH_TIME_NOW; uint64_t interval = ND(uint64_t), leeway = ND(uint64_t);
	__CPROVER_assume(interval >= 1 && (leeway <= 1000 || leeway == UINT64_MAX));
	H_dt.du_timer_flags = ND(uint8_t);
	dispatch_timer_config_t r = _dispatch_interval_config_create(start, interval, leeway, &H_dt);
	VERIF_POST(_dispatch_interval_config_create, r, start, interval, leeway, &H_dt);
	VERIF_REACH(animation_frames, start != T_FOREVER && ANIM && interval == 2);
	VERIF_CANARY();
}
#endif
