/*VERIF
{ "tu": "src/source.c", "enforce": "_dispatch_source_timer_data", "props": ["C11"], "seq": true, "timeout": 200,
  "assumes": ["_dispatch_timer_unote_compute_missed replaced by a stub that CHECKS its precondition (now >= target: the elapsed time is an unsigned difference) and returns prev + a count >= 1 (its division is undecided: solver limit, DESIGN.md 5/C11)"],
  "stub_note": "_dispatch_time_now: arbitrary reading of the timer's clock" }
VERIF*/
#ifdef VERIF_PRE
#else
#include "contracts/common/dq_common.h"
struct dispatch_timer_source_refs_s H_dr; uint64_t H_nowv, H_target0; unsigned H_computes; unsigned long H_missed_ret, H_prev_seen;
static inline uint64_t _dispatch_time_now(dispatch_clock_t clock) { (void)clock; return H_nowv; }
static inline unsigned long _dispatch_timer_unote_compute_missed(dispatch_timer_source_refs_t dt, uint64_t now, unsigned long prev)
{
	/* callee-side precondition: the number of elapsed intervals is (now - target) / interval + 1, meaningful only once the target was reached */
	VERIF_ASSERT(missed_count_only_computed_once_the_target_is_reached, dt == &H_dr && now == H_nowv && now >= dt->dt_timer.target);
	H_computes++; H_prev_seen = prev; return H_missed_ret;
}
VERIF_CONTRACT(unsigned long, _dispatch_source_timer_data, (dispatch_timer_source_refs_t dr, uint64_t prev),
  REQ(dr == &H_dr && H_computes == 0 && H_dr.dt_timer.target == H_target0)
  ASG(VERIF_GHOST, H_computes, H_prev_seen)
  /* fires already latched by the manager (prev >> 1) are always reported; further intervals are added ONLY if their boundary has
   * really been passed on the timer's clock -- the count never exceeds the number of boundaries passed */
  ENS(no_elapsed_interval_is_reported_before_its_boundary, VIMPL(H_target0 >= (uint64_t)INT64_MAX || H_nowv < H_target0, H_computes == 0 && __CPROVER_return_value == (unsigned long)prev >> 1))
  ENS(elapsed_intervals_are_added_to_the_latched_count, VIMPL(H_target0 < (uint64_t)INT64_MAX && H_nowv >= H_target0, H_computes == 1 && H_prev_seen == (unsigned long)prev >> 1 && __CPROVER_return_value == H_missed_ret))
)
void harness(void)
{
	VERIF_GHOST_RESET(); __verif_crash_is_bug = 1;
	H_nowv = ND(uint64_t); H_target0 = ND(uint64_t); H_dr.dt_timer.target = H_target0; H_dr.dt_timer.interval = ND(uint64_t); H_dr.du_ident = ND(uint32_t) % DISPATCH_TIMER_COUNT;
	H_computes = 0; H_missed_ret = ND(unsigned long);
	uint64_t prev = ND(uint64_t);
	unsigned long r = _dispatch_source_timer_data(&H_dr, prev);
	VERIF_POST(_dispatch_source_timer_data, r, &H_dr, prev);
	VERIF_REACH(resumed_before_the_next_boundary, H_computes == 0 && H_target0 < (uint64_t)INT64_MAX);
	VERIF_CANARY();
}
#endif
