/*VERIF
{ "tu": "src/source.c", "enforce": "_dispatch_after", "props": ["C11", "C19", "C12"], "seq": true, "timeout": 300, "cppflags": ["-DH_BLOCK_VARIANT=1"],
  "assumes": ["the block is a plain block or a block object (dispatch_block_create*), cancelled or not before it is scheduled"],
  "stub_note": "as h_dispatch_after; _dispatch_continuation_init (own contract: C04/h_continuation_init), dispatch_async, dispatch_block_testcancel, _dispatch_block_get_data: recorded" }
VERIF*/
#include "contracts/C11/h_dispatch_after.c"
