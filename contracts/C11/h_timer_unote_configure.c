/*VERIF
{ "tu": "src/event/event.c", "enforce": "_dispatch_timer_unote_configure", "props": ["C11", "C12"], "seq": true, "timeout": 200,
  "stub_note": "_dispatch_timer_unote_resume (own contract): logged call; free of the config record: counted" }
VERIF*/
#ifdef VERIF_PRE
#else
struct dispatch_timer_source_refs_s H_dt; struct dispatch_timer_config_s H_cfg; unsigned H_frees, H_resumes; _Bool H_pending_cleared_before_resume, H_clock_switched_before_resume;
static void _dispatch_timer_unote_resume(dispatch_timer_source_refs_t dt) { H_resumes++; H_pending_cleared_before_resume = (dt->ds_pending_data == 0 && dt->dt_pending_config == 0);
  /* C12 "never changes clock": the heap the timer is re-sorted into is chosen from these flags, so they must already name the clock of the NEW start time */
  H_clock_switched_before_resume = (_dispatch_timer_flags_to_clock(dt->du_timer_flags) == H_cfg.dtc_clock); }
void free(void *p) { if (p == &H_cfg) H_frees++; }
VERIF_CONTRACT_VOID(_dispatch_timer_unote_configure, (dispatch_timer_source_refs_t dt),
  REQ(dt == &H_dt && H_dt.dt_pending_config == &H_cfg && H_frees == 0 && H_resumes == 0 && __verif_n == 0)
  ASG(__CPROVER_object_whole(&H_dt), H_frees, H_resumes, H_pending_cleared_before_resume, H_clock_switched_before_resume, VERIF_GHOST)
  /* the timer follows ONLY the new settings: they replace the old ones entirely, on the new clock ... */
  ENS(installs_exactly_the_pending_configuration, H_dt.dt_timer.target == H_cfg.dtc_timer.target && H_dt.dt_timer.deadline == H_cfg.dtc_timer.deadline &&
        H_dt.dt_timer.interval == H_cfg.dtc_timer.interval && H_dt.dt_pending_config == 0 && H_frees == 1)
  ENS(switches_to_the_clock_of_the_new_start_time, _dispatch_timer_flags_to_clock(H_dt.du_timer_flags) == H_cfg.dtc_clock)
  /* ... and fire counts accumulated under the old settings are discarded, whether or not the timer is currently armed */
  ENS(old_pending_fire_counts_are_always_discarded, H_dt.ds_pending_data == 0)
  ENS(armed_timer_is_resifted_after_the_switch, ((H_dt.du_state & DU_STATE_ARMED) != 0) == (H_resumes == 1) && VIMPL(H_resumes == 1, H_pending_cleared_before_resume && H_clock_switched_before_resume))
)
void harness(void)
{
	VERIF_GHOST_RESET();
	H_dt.dt_pending_config = &H_cfg; H_dt.ds_pending_data = ND(uint64_t); H_dt.du_state = ND(uintptr_t); H_dt.du_timer_flags = ND(uint8_t);
	H_cfg.dtc_clock = ND(unsigned) % 3; H_cfg.dtc_timer.target = ND(uint64_t); H_cfg.dtc_timer.deadline = ND(uint64_t); H_cfg.dtc_timer.interval = ND(uint64_t);
	H_frees = 0; H_resumes = 0;
	_dispatch_timer_unote_configure(&H_dt);
	VERIF_POST_VOID(_dispatch_timer_unote_configure, &H_dt);
	VERIF_REACH(disarmed_with_pending, H_resumes == 0);
	VERIF_CANARY();
}
#endif
