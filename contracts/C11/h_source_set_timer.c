/*VERIF
{ "tu": "src/source.c", "enforce": "dispatch_source_set_timer", "props": ["C11", "C15"], "nondet_volatile": true, "timeout": 300,
  "stub_note": "_dispatch_timer_config_create / _dispatch_interval_config_create (own contract: h_timer_config_create): return the harness configuration; free, dx_wakeup: logged" }
VERIF*/
#ifdef VERIF_PRE
#else
#define H_DR_TIMER_SIZED 1
#include "contracts/C15/source_common.h"
enum { K_FREE = 190 };
struct dispatch_timer_config_s H_newcfg, H_oldcfg; unsigned H_cfg_creates; _Bool H_had_old;
static dispatch_timer_config_t _dispatch_timer_config_create(dispatch_time_t start, uint64_t interval, uint64_t leeway, dispatch_timer_source_refs_t dt) { (void)start; (void)interval; (void)leeway; (void)dt; H_cfg_creates++; return &H_newcfg; }
static dispatch_timer_config_t _dispatch_interval_config_create(dispatch_time_t start, uint64_t interval, uint64_t leeway, dispatch_timer_source_refs_t dt) { (void)start; (void)interval; (void)leeway; (void)dt; H_cfg_creates++; return &H_newcfg; }
void free(void *p) { __verif_event(K_FREE, 0, p, 0, 0); }
#define CFG_P ((const volatile void *)&H_dru.t.dt_pending_config)
/* the new settings REPLACE any settings that were set but not yet applied: published with one release exchange (the manager applies
 * them with h_timer_unote_configure), the superseded ones are freed, and the source is woken dirty so that they get applied */
VERIF_CONTRACT_VOID(dispatch_source_set_timer, (dispatch_source_t ds, dispatch_time_t start, uint64_t interval, uint64_t leeway),
  REQ(ds == &H_ds && __verif_n == 0 && H_cfg_creates == 0 && H_ds.ds_timer_refs == &H_dru.t)
  ASG(VERIF_GHOST, H_dru.t.dt_pending_config, H_cfg_creates)
  ENS(non_timer_source_is_rejected, VIMPL(!H_dru.t.du_is_timer, __verif_crashed))
  ENS(new_settings_are_published_by_one_release_exchange, VIMPL(!__verif_crashed, H_cfg_creates == 1 && IS_COMMIT(0, CFG_P) && LOGB(0) == (unsigned long long)(uintptr_t)&H_newcfg && VMO_IS_REL(LOGM(0))))
  ENS(superseded_pending_settings_are_freed_exactly_once, VIMPL(!__verif_crashed, LOGA(0) != 0 ? (__verif_n == 3 && LOGK(1) == K_FREE && LOGP(1) == (void *)(uintptr_t)LOGA(0)) : (__verif_n == 2)))
  ENS(source_is_woken_dirty_after_publishing, VIMPL(!__verif_crashed, LOGK(LAST) == EV_WAKEUP && LOGP(LAST) == (void *)&H_ds && LOGA(LAST) == DISPATCH_WAKEUP_MAKE_DIRTY))
)
void harness(void)
{
	h_setup_source(); uint32_t tid = ND(uint32_t); __CPROVER_assume(VALID_TID(tid)); __dispatch_tsd.tid = (pid_t)tid;
	H_cfg_creates = 0; H_ds.ds_timer_refs = &H_dru.t; H_dru.t.du_is_timer = ND_BOOL(); H_dru.t.du_timer_flags = ND(uint8_t); H_dru.t.du_filter = ND(int8_t);
	H_newcfg.dtc_clock = (dispatch_clock_t)((H_dru.t.du_timer_flags & _DISPATCH_TIMER_CLOCK_MASK) >> 2);
	__verif_ptrloc = &H_dru.t.dt_pending_config; __verif_ptrobj = &H_oldcfg;
	dispatch_source_set_timer(&H_ds, ND(dispatch_time_t), ND(uint64_t), ND(uint64_t));
	VERIF_REACH(replaced_pending_settings, !__verif_crashed && __verif_n == 3);
	VERIF_CANARY();
}
#endif
