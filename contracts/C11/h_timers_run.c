/*VERIF
{ "tu": "src/event/event.c", "enforce": "_dispatch_timers_run", "props": ["C11", "C17"], "seq": true, "timeout": 400, "cases": 3, "log_cap": 4, "mem_gb": 24, "disabled": true,
  "deciding": ["postcondition", "assertion", "precondition", "loop"],
  "assumes": ["heap order (dth_min is the armed timer with the smallest target): b_timer_heap_remove / heap contracts; arm / disarm / configure are stubs that leave ANY armed timer (or none) at the top afterwards",
              "_dispatch_timer_unote_compute_missed returns a count >= 1 (its division is undecided: solver limit, DESIGN.md 5/C11)",
              "while loop closed by a loop contract with a trivially true invariant: every obligation is an assertion checked inside each iteration, where the timer is handed to dst_merge_evt"],
  "stub_note": "_dispatch_timer_unote_arm/_disarm/_configure/_compute_missed/_needs_rearm, _dispatch_time_now_cached, _dispatch_wlh_release, _dispatch_retain_unote_owner, dst_merge_evt: ghost-state stubs" }
VERIF*/
#ifdef VERIF_PRE
#include <stdint.h>
extern struct dispatch_timer_source_refs_s H_dr; extern struct dispatch_source_type_s H_dst;
extern uint32_t H_tidx; extern uint64_t H_top_target, H_missed; extern unsigned long long H_top_pending; extern _Bool H_top_after, H_top_config, H_will_rearm, H_bad;
extern unsigned H_it_disarms, H_it_arms, H_it_retains, H_it_configs, H_it_wlh_releases, H_fires;
#else
struct dispatch_timer_source_refs_s H_dr; struct dispatch_timer_heap_s H_dth[DISPATCH_TIMER_COUNT]; struct dispatch_clock_now_cache_s H_nows;
uint32_t H_tidx; uint64_t H_nowv;
/* per-iteration ghost (reset where the loop body reads the clock, i.e. at its top) */
uint64_t H_top_target; unsigned long long H_top_pending; _Bool H_top_after, H_top_config;
unsigned H_it_disarms, H_it_arms, H_it_retains, H_it_configs, H_it_wlh_releases; _Bool H_will_rearm; uint64_t H_missed; _Bool H_bad;
unsigned H_fires;
static inline void h_new_top(void)
{	/* whatever the heap operation did, some armed timer (or none) is at the top now */
	H_dth[H_tidx].dth_min[DTH_TARGET_ID] = ND_BOOL() ? &H_dr : (dispatch_timer_source_refs_t)0;
	H_dr.dt_timer.target = ND(uint64_t); __CPROVER_assume(H_dr.dt_timer.target != 0);
	H_dr.du_timer_flags = ND(uint8_t); H_dr.ds_pending_data = ND(unsigned long long); H_dr.dt_pending_config = ND_BOOL() ? (dispatch_timer_config_t)&H_nows : (dispatch_timer_config_t)0;
}
static inline uint64_t _dispatch_time_now_cached(dispatch_clock_t clock, dispatch_clock_now_cache_t cache)
{
	(void)cache; if (clock != DISPATCH_TIMER_CLOCK(H_tidx)) H_bad = 1;     /* the heap's own clock is read */
	H_top_target = H_dr.dt_timer.target; H_top_pending = H_dr.ds_pending_data; H_top_after = (H_dr.du_timer_flags & DISPATCH_TIMER_AFTER) != 0; H_top_config = H_dr.dt_pending_config != 0;
	H_it_disarms = H_it_arms = H_it_retains = H_it_configs = H_it_wlh_releases = 0; H_will_rearm = ND_BOOL(); H_missed = ND(uint64_t); __CPROVER_assume(H_missed >= 1 && H_missed <= (1ull << 62));
	return H_nowv;
}
static void _dispatch_timer_unote_disarm(dispatch_timer_source_refs_t dt, dispatch_timer_heap_t dth) { if (dt != &H_dr || dth != H_dth) H_bad = 1; H_it_disarms++; }
static void _dispatch_timer_unote_arm(dispatch_timer_source_refs_t dt, dispatch_timer_heap_t dth, uint32_t tidx) { if (dt != &H_dr || dth != H_dth || tidx != H_tidx) H_bad = 1; H_it_arms++; }
static void _dispatch_timer_unote_configure(dispatch_timer_source_refs_t dt) { if (dt != &H_dr) H_bad = 1; H_it_configs++; h_new_top(); }
static inline uint64_t _dispatch_timer_unote_compute_missed(dispatch_timer_source_refs_t dt, uint64_t now, unsigned long prev) { if (dt != &H_dr || now != H_nowv || prev != 0) H_bad = 1; return H_missed; }
static inline bool _dispatch_timer_unote_needs_rearm(dispatch_timer_source_refs_t dr, int flags) { (void)dr; (void)flags; return H_will_rearm; }
static inline void _dispatch_retain_unote_owner(dispatch_unote_t du) { (void)du; H_it_retains++; }
static inline void _dispatch_wlh_release(dispatch_wlh_t wlh) { (void)wlh; H_it_wlh_releases++; }
#define MARK DISPATCH_TIMER_DISARMED_MARKER
/* the timer is handed to its source: every obligation about ONE firing is checked here */
static void h_merge_evt(dispatch_unote_t du, uint32_t flags, uintptr_t data, pthread_priority_t pp)
{
	(void)data; (void)pp; H_fires++;
	VERIF_ASSERT(stub_protocol_respected, !H_bad && du._dt == &H_dr && flags == EV_ONESHOT);
	/* C11: a timer is never delivered before its target time on its own clock */
	VERIF_ASSERT(fires_only_when_its_target_time_has_been_reached, H_top_target <= H_nowv);
	VERIF_ASSERT(a_timer_with_a_pending_reconfiguration_is_reconfigured_not_fired, H_top_after || !H_top_config);
	/* dispatch_after: one shot -- out of the heap, unregistered, exactly one fire reported */
	VERIF_ASSERT(after_timer_is_disarmed_and_reports_exactly_one_fire, VIMPL(H_top_after, H_it_disarms == 1 && H_it_arms == 0 && H_dr.ds_pending_data == 2 && H_it_wlh_releases == 1 && H_it_retains == 0));
	/* repeating timer whose handler has not consumed the previous fires: taken out of the heap, the count is left to the handler (marker only) */
	VERIF_ASSERT(timer_whose_handler_lags_is_disarmed_and_only_marked, VIMPL(!H_top_after && H_top_pending != 0, H_it_disarms == 1 && H_it_arms == 0 && H_it_retains == 0 && H_dr.ds_pending_data == (H_top_pending | MARK)));
	/* otherwise it reports the number of elapsed intervals (>= 1, shifted past the marker bit) ... */
	VERIF_ASSERT(fired_timer_reports_the_elapsed_interval_count, VIMPL(!H_top_after && H_top_pending == 0, (H_dr.ds_pending_data >> 1) == H_missed && (H_dr.ds_pending_data >> 1) >= 1));
	/* ... and either stays armed (a new +2 for the reference the merge consumes) or is disarmed with the marker set */
	VERIF_ASSERT(rearmed_timer_takes_a_new_reference_for_the_merge, VIMPL(!H_top_after && H_top_pending == 0 && H_will_rearm, H_it_retains == 1 && H_it_arms == 1 && H_it_disarms == 0 && !(H_dr.ds_pending_data & MARK)));
	VERIF_ASSERT(timer_that_will_not_fire_again_is_disarmed_and_marked, VIMPL(!H_top_after && H_top_pending == 0 && !H_will_rearm, H_it_retains == 0 && H_it_arms == 0 && H_it_disarms == 1 && (H_dr.ds_pending_data & MARK)));
	h_new_top();
}
dispatch_source_type_s H_dst;   /* .dst_merge_evt = h_merge_evt, set by the harness (statics are havocked at a DFCC entry) */
VERIF_LOOP_CONTRACT(_dispatch_timers_run, 0,
	__CPROVER_assigns(dr, pending, now, H_dr.dt_timer, H_dr.du_timer_flags, H_dr.ds_pending_data, H_dr.dt_pending_config, H_dr.du_state, dth[tidx].dth_min[0u], H_top_target, H_top_pending, H_top_after, H_top_config, H_it_disarms, H_it_arms, H_it_retains, H_it_configs, H_it_wlh_releases, H_will_rearm, H_missed, H_bad, H_fires, VERIF_GHOST)
	__CPROVER_loop_invariant(H_dr.du_ident == H_tidx && H_dr.du_type == &H_dst && H_dr.dt_timer.target != 0 && !H_bad && tidx == H_tidx && (dth[tidx].dth_min[0u] == 0 || dth[tidx].dth_min[0u] == &H_dr) && H_tidx < DISPATCH_TIMER_COUNT))
VERIF_CONTRACT_VOID(_dispatch_timers_run, (dispatch_timer_heap_t dth, uint32_t tidx, dispatch_clock_now_cache_t nows),
  REQ(dth == H_dth && tidx == H_tidx && H_tidx < DISPATCH_TIMER_COUNT && nows == &H_nows && H_dr.du_ident == H_tidx && H_dr.du_type == &H_dst && H_dst.dst_merge_evt == h_merge_evt && H_dr.dt_timer.target != 0 && !H_bad && H_fires == 0 && (H_dth[H_tidx].dth_min[0u] == 0 || H_dth[H_tidx].dth_min[0u] == &H_dr))
  ASG(H_dr.dt_timer, H_dr.du_timer_flags, H_dr.ds_pending_data, H_dr.dt_pending_config, H_dr.du_state, H_dth[H_tidx].dth_min[0u], H_top_target, H_top_pending, H_top_after, H_top_config, H_it_disarms, H_it_arms, H_it_retains, H_it_configs, H_it_wlh_releases, H_will_rearm, H_missed, H_bad, H_fires, VERIF_GHOST)
  /* returns only when the heap is empty or its earliest timer is still in the future */
  ENS(stops_only_when_no_timer_is_due, H_dth[H_tidx].dth_min[DTH_TARGET_ID] == 0 || H_dth[H_tidx].dth_min[DTH_TARGET_ID]->dt_timer.target > H_nowv)
  ENS(stub_protocol_respected_throughout, !H_bad)
)
void harness(void)
{
	VERIF_GHOST_RESET(); __verif_crash_is_bug = 1;
	H_tidx = VERIF_CASE;   /* one case per timer heap (clock) */ __CPROVER_assume(H_tidx < DISPATCH_TIMER_COUNT); H_nowv = ND(uint64_t); H_bad = 0; H_fires = 0;
	H_dr.du_ident = H_tidx; H_dr.du_type = &H_dst; H_dst.dst_merge_evt = h_merge_evt;
	h_new_top();
	_dispatch_timers_run(H_dth, H_tidx, &H_nows);
	VERIF_POST_VOID(_dispatch_timers_run, H_dth, H_tidx, &H_nows);
	VERIF_CANARY();
}
#endif
