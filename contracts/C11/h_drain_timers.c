/*VERIF
{ "tu": "src/event/event.c", "enforce": "_dispatch_event_loop_drain_timers", "props": ["C11"], "seq": true, "timeout": 300, "deciding": ["postcondition", "assertion", "precondition", "loop"],
  "assumes": ["runs on the manager thread that owns the timer heaps (no concurrency on the heaps)",
              "any number of heaps up to DISPATCH_TIMER_COUNT and any number of passes: all three loops are closed by loop contracts"],
  "stub_note": "_dispatch_timers_run (own harness parked: DESIGN 10.7) and _dispatch_timers_program (own contract: h_timers_program): stubs that may mark heaps dirty / in need of programming in any way the real functions can, and record a due timer that was found but not armed" }
VERIF*/
#ifdef VERIF_PRE
#include <stdint.h>
extern _Bool H_due_unserved, H_bad; extern uint32_t H_count, H_k; extern unsigned long long H_passes;
#else
struct dispatch_timer_heap_s H_heaps[DISPATCH_TIMER_COUNT];
_Bool H_due_unserved, H_bad; uint32_t H_count, H_k; unsigned long long H_passes; _Bool H_prog_after_run;
/* one pass over a heap: fires what is due; a timer that picked up a new configuration may move to ANOTHER heap (already run in this
 * pass or not): that heap then needs programming and the set is marked dirty */
static void _dispatch_timers_run(dispatch_timer_heap_t dth, uint32_t tidx, dispatch_clock_now_cache_t nows)
{	(void)nows; if (dth != H_heaps || tidx >= H_count) H_bad = 1;
	if (tidx == 0) { H_due_unserved = 0; __CPROVER_assume(H_passes < (1ull << 62)); H_passes++; }   /* a new complete pass starts: every heap is run again */
	if (ND_BOOL()) { uint32_t j = ND(uint32_t); __CPROVER_assume(j < H_count); dth[j].dth_needs_program = 1; dth[0].dth_dirty_bits |= (uint8_t)(ND(uint8_t) | DTH_DIRTY_GLOBAL); }
	if (ND_BOOL()) dth[tidx].dth_needs_program = 1; }
/* programming a heap whose earliest timer is ALREADY due arms nothing: it marks the set dirty and relies on one more pass (real body:
 * range.delay == 0 -> _dispatch_timers_heap_dirty) */
static void _dispatch_timers_program(dispatch_timer_heap_t dth, uint32_t tidx, dispatch_clock_now_cache_t nows)
{	(void)nows; if (dth != H_heaps || tidx >= H_count || !dth[tidx].dth_needs_program) H_bad = 1;
	if (ND_BOOL()) { dth[0].dth_dirty_bits |= (uint8_t)(ND(uint8_t) | DTH_DIRTY_GLOBAL); H_due_unserved = 1; dth[tidx].dth_armed = 0; } else dth[tidx].dth_armed = ND_BOOL();
	dth[tidx].dth_needs_program = 0; }
VERIF_LOOP_CONTRACT(_dispatch_event_loop_drain_timers, 0,
	__CPROVER_assigns(tidx, __CPROVER_object_whole(dth), H_due_unserved, H_bad, H_passes)
	__CPROVER_loop_invariant(!H_bad && count == H_count))
VERIF_LOOP_CONTRACT(_dispatch_event_loop_drain_timers, 1,
	__CPROVER_assigns(tidx, __CPROVER_object_whole(dth), H_due_unserved, H_bad, H_passes)
	__CPROVER_loop_invariant(!H_bad && tidx <= count && count == H_count && (tidx == 0 || (!H_due_unserved && H_passes >= 1)))
	__CPROVER_decreases(count - tidx))
VERIF_LOOP_CONTRACT(_dispatch_event_loop_drain_timers, 2,
	__CPROVER_assigns(tidx, __CPROVER_object_whole(dth), H_due_unserved, H_bad)
	__CPROVER_loop_invariant(!H_bad && tidx <= count && count == H_count && (!H_due_unserved || dth[0].dth_dirty_bits != 0) && (H_k >= tidx || !dth[H_k].dth_needs_program))
	__CPROVER_decreases(count - tidx))
VERIF_CONTRACT_VOID(_dispatch_event_loop_drain_timers, (dispatch_timer_heap_t dth, uint32_t count),
  REQ(dth == H_heaps && count == H_count && H_count >= 1 && H_count <= DISPATCH_TIMER_COUNT && H_k < H_count && !H_bad && H_passes == 0)
  ASG(__CPROVER_object_whole(H_heaps), H_due_unserved, H_bad, H_passes)
  ENS(heaps_are_run_and_programmed_within_bounds_and_only_when_asked, !H_bad && H_passes >= 1)
  /* C11 "every armed timer eventually fires": when programming found a timer that is already due it arms NO kernel timer for that heap,
   * so the drain may only return after a further complete pass over the heaps; returning with such a timer left would strand it */
  ENS(never_returns_leaving_a_due_timer_that_no_kernel_timer_covers, !H_due_unserved)
  ENS(every_heap_that_asked_for_it_was_programmed_after_the_last_run, !H_heaps[H_k].dth_needs_program)
  ENS(the_dirty_marks_are_consumed, H_heaps[0].dth_dirty_bits == 0)
)
void harness(void)
{
	VERIF_GHOST_RESET();
	H_count = ND(uint32_t); H_k = ND(uint32_t); __CPROVER_assume(H_count >= 1 && H_count <= DISPATCH_TIMER_COUNT && H_k < H_count);
	H_bad = 0; H_passes = 0; H_due_unserved = ND_BOOL();
	_dispatch_event_loop_drain_timers(H_heaps, H_count);
	VERIF_POST_VOID(_dispatch_event_loop_drain_timers, H_heaps, H_count);
	VERIF_REACH(several_passes, H_passes >= 3);
	VERIF_CANARY();
}
#endif
