/*VERIF
{ "tu": "src/event/event.c", "props": ["C11"], "seq": true, "mode": "lemma", "timeout": 120,
  "roots": ["_dispatch_timer_heap_parent", "_dispatch_timer_heap_left_child", "_dispatch_timer_heap_capacity"],
  "assumes": ["lemma about the real index functions of the interleaved two-heap array (loop-free, all 2^32 indices)"] }
VERIF*/
#ifdef VERIF_PRE
#else
void harness(void)
{
	uint32_t i = (uint32_t)ND(uint32_t);
	__CPROVER_assume(i < 0x7ffffff0u);
	uint32_t l = _dispatch_timer_heap_left_child(i), r = l + DTH_ID_COUNT;
	VERIF_ASSERT(children_keep_the_heap_id, DTH_HEAP_ID(l) == DTH_HEAP_ID(i) && DTH_HEAP_ID(r) == DTH_HEAP_ID(i));
	VERIF_ASSERT(parent_inverts_left_child, _dispatch_timer_heap_parent(l) == i);
	VERIF_ASSERT(parent_inverts_right_child, _dispatch_timer_heap_parent(r) == i);
	VERIF_ASSERT(children_are_below_in_the_array, l > i && r > l);
	if (i >= DTH_ID_COUNT) {
		uint32_t p = _dispatch_timer_heap_parent(i);
		VERIF_ASSERT(parent_keeps_the_heap_id_and_is_above, DTH_HEAP_ID(p) == DTH_HEAP_ID(i) && p < i);
		VERIF_ASSERT(node_is_a_child_of_its_parent, _dispatch_timer_heap_left_child(p) == i || _dispatch_timer_heap_left_child(p) + DTH_ID_COUNT == i);
	}
	uint32_t s = (uint32_t)ND(uint32_t) % 20;
	VERIF_ASSERT(capacity_grows_with_segments, _dispatch_timer_heap_capacity(s + 1) > _dispatch_timer_heap_capacity(s));
	VERIF_CANARY();
}
#endif
