/*VERIF
{ "tu": "src/event/event_epoll.c", "enforce": "_dispatch_event_loop_timer_arm", "props": ["C11", "C12"], "seq": true, "timeout": 200,
  "assumes": ["runs on the manager thread; one timerfd per libdispatch clock (DISPATCH_TIMER_QOS_COUNT == 1 on this platform)",
              "NOT checked: the seconds/nanoseconds split of the absolute target handed to timerfd_settime (64-bit division by 10^9: solver limit)"],
  "stub_note": "_dispatch_time_now_cached (own contract: h_time_now), timerfd_create, timerfd_settime, epoll_ctl (kernel): recorded" }
VERIF*/
#ifdef VERIF_PRE
#else
#include "contracts/common/dq_common.h"
uint32_t H_tidx; uint64_t H_now, H_delay; _Bool H_bad, H_reg0, H_armed0; int H_fd0, H_newfd; unsigned H_creates, H_settimes, H_ctls; int H_clockid, H_ctl_op, H_ctl_fd, H_settime_fd, H_settime_flags; uint32_t H_ctl_events, H_ctl_ident;
static inline uint64_t _dispatch_time_now_cached(dispatch_clock_t clock, dispatch_clock_now_cache_t cache) { (void)cache; if (clock != DISPATCH_TIMER_CLOCK(H_tidx)) H_bad = 1; return H_now; }
int timerfd_create(clockid_t clk, int flags) { if (flags != (TFD_NONBLOCK | TFD_CLOEXEC)) H_bad = 1; H_creates++; H_clockid = (int)clk; return H_newfd; }
int timerfd_settime(int fd, int flags, const struct itimerspec *its, struct itimerspec *old) { (void)old; if (!its || its->it_interval.tv_sec != 0 || its->it_interval.tv_nsec != 0) H_bad = 1; H_settimes++; H_settime_fd = fd; H_settime_flags = flags; return 0; }
int epoll_ctl(int epfd, int op, int fd, struct epoll_event *ev) { if (epfd != _dispatch_epfd) H_bad = 1; H_ctls++; H_ctl_op = op; H_ctl_fd = fd; H_ctl_events = ev ? ev->events : 0; H_ctl_ident = ev ? ev->data.u32 : 0; return 0; }
#define CLK DISPATCH_TIMER_CLOCK(H_tidx)
#define T (&_dispatch_epoll_timeout[CLK])
#define TARGET (H_delay + H_now)
#define FD_NOW (H_fd0 >= 0 ? H_fd0 : H_newfd)
VERIF_CONTRACT_VOID(_dispatch_event_loop_timer_arm, (dispatch_timer_heap_t dth, uint32_t tidx, dispatch_timer_delay_s range, dispatch_clock_now_cache_t nows),
  REQ(tidx == H_tidx && H_tidx < DISPATCH_TIMER_COUNT && range.delay == H_delay && H_delay >= 1 && H_delay < INT64_MAX && H_now < (1ull << 62) && TARGET < INT64_MAX && !H_bad && H_creates == 0 && H_settimes == 0 && H_ctls == 0)
  REQ(T->det_fd == H_fd0 && T->det_registered == H_reg0 && T->det_armed == H_armed0 && (H_fd0 >= 0 || (!H_reg0 && !H_armed0)) && (!H_armed0 || H_reg0) && H_newfd >= 0)
  ASG(__CPROVER_object_whole(_dispatch_epoll_timeout), H_bad, H_creates, H_settimes, H_ctls, H_clockid, H_ctl_op, H_ctl_fd, H_settime_fd, H_settime_flags, H_ctl_events, H_ctl_ident)
  /* C11 / C12: the earliest timer of a heap is handed to the kernel timer of THAT heap's clock (uptime = CLOCK_MONOTONIC, monotonic = CLOCK_BOOTTIME,
   * wall = CLOCK_REALTIME), as an ABSOLUTE time on that clock, and the timerfd is (left) armed in the epoll set, one-shot */
  ENS(the_kernel_timer_is_created_on_the_clock_of_the_heap, !H_bad && H_creates == (H_fd0 < 0 ? 1u : 0u) && VIMPL(H_fd0 < 0, H_clockid == (CLK == DISPATCH_CLOCK_WALL ? CLOCK_REALTIME : CLK == DISPATCH_CLOCK_UPTIME ? CLOCK_MONOTONIC : CLOCK_BOOTTIME)))
  ENS(it_is_set_once_to_an_absolute_time, H_settimes == 1 && H_settime_fd == FD_NOW && H_settime_flags == TFD_TIMER_ABSTIME)
  ENS(it_ends_up_registered_and_armed_in_the_epoll_set, T->det_fd == FD_NOW && T->det_registered && T->det_armed)
  ENS(the_epoll_set_is_touched_only_when_needed, H_ctls == (H_armed0 ? 0u : 1u) && VIMPL(!H_armed0, H_ctl_op == (H_reg0 ? EPOLL_CTL_MOD : EPOLL_CTL_ADD) && H_ctl_fd == FD_NOW && H_ctl_events == (EPOLLONESHOT | EPOLLIN) && H_ctl_ident == T->det_ident))
)
void harness(void)
{
	VERIF_GHOST_RESET(); H_bad = 0; H_creates = H_settimes = H_ctls = 0;
	H_tidx = ND(uint32_t); __CPROVER_assume(H_tidx < DISPATCH_TIMER_COUNT); H_now = ND(uint64_t); H_delay = ND(uint64_t); __CPROVER_assume(H_delay >= 1 && H_delay < INT64_MAX && H_now < (1ull << 62) && TARGET < INT64_MAX);
	H_fd0 = ND(int); H_reg0 = ND_BOOL(); H_armed0 = ND_BOOL(); H_newfd = ND(int); __CPROVER_assume(H_fd0 >= -1 && H_newfd >= 0 && (H_fd0 >= 0 || (!H_reg0 && !H_armed0)) && (!H_armed0 || H_reg0));
	T->det_fd = H_fd0; T->det_registered = H_reg0; T->det_armed = H_armed0; T->det_ident = (uint16_t)(DISPATCH_EPOLL_CLOCK_WALL + 0);
	dispatch_timer_delay_s range = { .delay = H_delay, .leeway = ND(uint64_t) }; dispatch_clock_now_cache_s nows = { };
	_dispatch_event_loop_timer_arm((dispatch_timer_heap_t)0, H_tidx, range, &nows);
	VERIF_POST_VOID(_dispatch_event_loop_timer_arm, (dispatch_timer_heap_t)0, H_tidx, range, &nows);
	VERIF_REACH(fresh_timerfd, H_creates == 1);
	VERIF_REACH(already_armed, H_ctls == 0);
	VERIF_CANARY();
}
#endif
