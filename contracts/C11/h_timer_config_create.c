/*VERIF
{ "tu": "src/source.c", "enforce": "_dispatch_timer_config_create", "props": ["C11", "C12"], "seq": true, "timeout": 200,
  "assumes": ["start is a well-formed dispatch_time_t: DISPATCH_TIME_FOREVER or a value <= DISPATCH_TIME_MAX_VALUE on its clock (what dispatch_time / dispatch_walltime return: C12 contracts)",
              "nanoseconds == clock ticks on this platform (_dispatch_time_nano2mach is the identity: real inline kept)"],
  "stub_note": "_dispatch_calloc returns the harness object; clock reads return an arbitrary reading in [1, 2^62-2]; _dispatch_bug_deprecated: no-op" }
VERIF*/
#ifdef VERIF_PRE
#else
#include "contracts/common/dq_common.h"
#include "contracts/C12/time_spec.h"
uint64_t H_now[3];
static inline uint64_t _dispatch_uptime(void) { return H_now[0]; }
static inline uint64_t _dispatch_monotonic_time(void) { return H_now[1]; }
static inline uint64_t _dispatch_get_nanoseconds(void) { return H_now[2]; }
struct dispatch_timer_config_s H_dtc; struct dispatch_timer_source_refs_s H_dt;
void *_dispatch_calloc(size_t n, size_t sz) { (void)n; (void)sz; return &H_dtc; }
void _dispatch_bug_deprecated(const char *msg) { (void)msg; }
#define IMAX ((uint64_t)INT64_MAX)
#define EXP_INTERVAL(i) ((i) == 0 ? 1ull : ((int64_t)(i) < 0 ? IMAX : (i)))
#define EXP_LEEWAY0(l) ((int64_t)(l) < 0 ? IMAX : (l))
#define EXP_LEEWAY(i, l) ((EXP_INTERVAL(i) < IMAX && EXP_LEEWAY0(l) > EXP_INTERVAL(i) / 2) ? EXP_INTERVAL(i) / 2 : EXP_LEEWAY0(l))
#define EXP_TARGET(s) ((s) == T_FOREVER ? IMAX : T_VALUE(s))
VERIF_CONTRACT(dispatch_timer_config_t, _dispatch_timer_config_create, (dispatch_time_t start, uint64_t interval, uint64_t leeway, dispatch_timer_source_refs_t dt),
  REQ(dt == &H_dt && (start == T_FOREVER || T_VALUE(start) <= T_MAXV) && H_now[0] >= 1 && H_now[0] <= T_MAXV - 1 && H_now[1] >= 1 && H_now[1] <= T_MAXV - 1 && H_now[2] >= 1 && H_now[2] <= T_MAXV - 1)
  ASG(__CPROVER_object_whole(&H_dtc))
  ENS(returns_the_new_configuration, __CPROVER_return_value == &H_dtc)
  /* the timer stays on the clock its start time was expressed in; FOREVER keeps the timer's current clock */
  ENS(clock_is_the_clock_of_the_start_time, H_dtc.dtc_clock == (start == T_FOREVER ? (dispatch_clock_t)((H_dt.du_timer_flags & _DISPATCH_TIMER_CLOCK_MASK) >> 2) : (dispatch_clock_t)T_CLOCK(start)))
  /* first fire time: exactly the start time (NOW = the current reading of that clock); never earlier */
  ENS(target_is_exactly_the_start_time, H_dtc.dtc_timer.target == EXP_TARGET(start))
  /* repeat interval: at least one tick (no division by zero when counting missed fires), never negative as a signed value */
  ENS(interval_is_between_one_and_int64_max, H_dtc.dtc_timer.interval == EXP_INTERVAL(interval) && H_dtc.dtc_timer.interval >= 1 && H_dtc.dtc_timer.interval <= IMAX)
  /* deadline = target + leeway, leeway at most half an interval; saturates, never wraps below the target */
  ENS(deadline_is_target_plus_clipped_leeway_saturating, H_dtc.dtc_timer.deadline == (EXP_TARGET(start) + EXP_LEEWAY(interval, leeway) < IMAX ? EXP_TARGET(start) + EXP_LEEWAY(interval, leeway) : IMAX))
  ENS(deadline_never_before_target, H_dtc.dtc_timer.deadline >= H_dtc.dtc_timer.target && H_dtc.dtc_timer.deadline <= IMAX)
)
void harness(void)
{
	VERIF_GHOST_RESET(); __verif_crash_is_bug = 1;
	H_now[0] = ND(uint64_t); H_now[1] = ND(uint64_t); H_now[2] = ND(uint64_t);
	__CPROVER_assume(H_now[0] >= 1 && H_now[0] <= T_MAXV - 1 && H_now[1] >= 1 && H_now[1] <= T_MAXV - 1 && H_now[2] >= 1 && H_now[2] <= T_MAXV - 1);
	dispatch_time_t start = ND(dispatch_time_t); uint64_t interval = ND(uint64_t), leeway = ND(uint64_t);
	__CPROVER_assume(start == T_FOREVER || T_VALUE(start) <= T_MAXV);
	H_dt.du_timer_flags = ND(uint8_t);
	dispatch_timer_config_t r = _dispatch_timer_config_create(start, interval, leeway, &H_dt);
	VERIF_POST(_dispatch_timer_config_create, r, start, interval, leeway, &H_dt);
	VERIF_REACH(saturated_deadline, H_dtc.dtc_timer.deadline == IMAX && start != T_FOREVER);
	VERIF_REACH(leeway_clipped_to_half_interval, H_dtc.dtc_timer.deadline == H_dtc.dtc_timer.target + H_dtc.dtc_timer.interval / 2 && leeway > interval);
	VERIF_CANARY();
}
#endif
