/*VERIF
{ "tu": "src/source.c", "enforce": "_dispatch_after", "props": ["C11", "C12"], "seq": true, "timeout": 300,
  "assumes": ["_dispatch_timeout(when) = nanoseconds left until `when`, 0 if due (C12 contract h_dispatch_timeout): arbitrary value here",
              "when is a well-formed dispatch_time_t (C12 contracts); nanoseconds == clock ticks on this platform"],
  "stub_note": "dispatch_source_create (returns the harness source + timer refs), _dispatch_continuation_alloc/_init_f, dispatch_async_f, dispatch_activate (records the timer as armed at that moment): stubs" }
VERIF*/
#ifdef VERIF_PRE
#else
#include "contracts/common/dq_common.h"
#include "contracts/C12/time_spec.h"
uint64_t H_now[3];
static inline uint64_t _dispatch_get_nanoseconds(void) { return H_now[2]; }
enum { K_ASYNC_NOW = 200, K_ACTIVATE };
struct dispatch_source_s H_ds; struct dispatch_timer_source_refs_s H_dt; struct dispatch_continuation_s H_dc; struct dispatch_queue_s H_q; uint64_t H_delta; unsigned H_creates;
struct { uint64_t target, interval, deadline; uint8_t flags; dispatch_continuation_t handler; } H_at_activation;
static inline uint64_t _dispatch_timeout(dispatch_time_t when) { (void)when; return H_delta; }
static void h_fn(void *c) { (void)c; }
void dispatch_async_f(dispatch_queue_t q, void *ctxt, dispatch_function_t f) { __verif_event(K_ASYNC_NOW, 0, q, (unsigned long long)(uintptr_t)ctxt, f == h_fn); }
dispatch_source_t dispatch_source_create(dispatch_source_type_t type, uintptr_t handle, uintptr_t mask, dispatch_queue_t dq)
{ (void)handle; (void)mask; H_creates++; if (type != &_dispatch_source_type_after || dq != &H_q) H_creates = 99; H_ds.ds_timer_refs = &H_dt; return &H_ds; }
static inline dispatch_continuation_t _dispatch_continuation_alloc(void) { return &H_dc; }
static inline dispatch_qos_t _dispatch_continuation_init_f(dispatch_continuation_t dc, dispatch_queue_class_t dqu, void *ctxt, dispatch_function_t f, dispatch_block_flags_t flags, uintptr_t dc_flags)
{ (void)dqu; (void)flags; dc->dc_flags = dc_flags | DC_FLAG_ALLOCATED; dc->dc_func = f; dc->dc_ctxt = ctxt; return 0; }
void dispatch_activate(dispatch_object_t dou)
{	/* from here on the timer can fire: everything must have been set up */
	H_at_activation.target = H_dt.dt_timer.target; H_at_activation.interval = H_dt.dt_timer.interval; H_at_activation.deadline = H_dt.dt_timer.deadline;
	H_at_activation.flags = H_dt.du_timer_flags; H_at_activation.handler = H_dt.ds_handler[DS_EVENT_HANDLER];
	__verif_event(K_ACTIVATE, 0, dou._do, 0, 0);
}
char H_ctxt;
#ifdef H_BLOCK_VARIANT
/* dispatch_after with a block: a plain block or a block object (dispatch_block_create*), possibly cancelled BEFORE it is scheduled: it is scheduled all the same - its
 * (skipped) execution at the deadline is what completes it for dispatch_block_wait / dispatch_block_notify (C19) */
struct Block_layout H_blk; _Bool H_blk_object, H_blk_cancelled; struct dispatch_block_private_data_s H_dbpd;
#define H_HANDLER ((void *)&H_blk)
#define H_IS_BLOCK 1
#define H_CTXT_ARG ((void *)0)
void dispatch_async(dispatch_queue_t q, dispatch_block_t b) { __verif_event(K_ASYNC_NOW, 0, q, (unsigned long long)(uintptr_t)&H_ctxt, (void *)b == (void *)&H_blk); }
static inline dispatch_qos_t _dispatch_continuation_init(dispatch_continuation_t dc, dispatch_queue_class_t dqu, dispatch_block_t work, dispatch_block_flags_t flags, uintptr_t dc_flags)
{ (void)dqu; (void)flags; dc->dc_flags = dc_flags | DC_FLAG_ALLOCATED | DC_FLAG_BLOCK; dc->dc_func = ((void *)work == (void *)&H_blk) ? h_fn : (dispatch_function_t)0; dc->dc_ctxt = (void *)&H_ctxt; return 0; }
/* what a version that peeks at the block object could call */
static inline dispatch_block_private_data_t _dispatch_block_get_data(const dispatch_block_t db) { (void)db; return H_blk_object ? &H_dbpd : (dispatch_block_private_data_t)0; }
long dispatch_block_testcancel(dispatch_block_t db) { (void)db; return H_blk_object && H_blk_cancelled; }
#else
#define H_HANDLER ((void *)h_fn)
#define H_IS_BLOCK 0
#define H_CTXT_ARG ((void *)&H_ctxt)
#endif
#define LEEWAY0 (H_delta / 10)
#define LEEWAY (LEEWAY0 < NSEC_PER_MSEC ? NSEC_PER_MSEC : LEEWAY0 > 60 * NSEC_PER_SEC ? 60 * NSEC_PER_SEC : LEEWAY0)
VERIF_CONTRACT_VOID(_dispatch_after, (dispatch_time_t when, dispatch_queue_t dq, void *ctxt, void *handler, bool block),
  REQ(dq == &H_q && ctxt == H_CTXT_ARG && handler == H_HANDLER && block == H_IS_BLOCK && __verif_n == 0 && H_creates == 0 && (when == T_FOREVER || T_VALUE(when) <= T_MAXV) && H_now[2] >= 1 && H_now[2] <= T_MAXV - 1)
  REQ(VIMPL(H_delta != 0, when != 0 && when != T_MONONOW))   /* contract of _dispatch_timeout: "now" is always due */
  ASG(VERIF_GHOST, __CPROVER_object_whole(&H_ds), __CPROVER_object_whole(&H_dt), __CPROVER_object_whole(&H_dc), H_creates, __CPROVER_object_whole(&H_at_activation))
  ENS(forever_schedules_nothing, VIMPL(when == T_FOREVER, __verif_n == 0 && H_creates == 0))
  ENS(a_time_that_is_already_due_submits_the_work_right_away_exactly_once, VIMPL(when != T_FOREVER && H_delta == 0, __verif_n == 1 && LOGK(0) == K_ASYNC_NOW && LOGP(0) == (void *)&H_q && LOGA(0) == (unsigned long long)(uintptr_t)&H_ctxt && LOGB(0) == 1 && H_creates == 0))
  /* otherwise a one-shot timer on the clock of `when`, firing AT `when` -- never earlier -- with a leeway of 10% clamped to [1 ms, 60 s] */
  ENS(timer_fires_exactly_at_when_on_the_clock_of_when, VIMPL(when != T_FOREVER && H_delta != 0, H_creates == 1 && __verif_n == 2 && LOGK(1) == K_ACTIVATE && LOGP(1) == (void *)&H_ds
        && H_at_activation.target == T_VALUE(when) && ((H_at_activation.flags & _DISPATCH_TIMER_CLOCK_MASK) >> 2) == T_CLOCK(when)))
  ENS(timer_is_one_shot_with_bounded_leeway_never_before_the_target, VIMPL(when != T_FOREVER && H_delta != 0, H_at_activation.interval == UINT64_MAX && H_at_activation.deadline == H_at_activation.target + LEEWAY && H_at_activation.deadline >= H_at_activation.target))
  ENS(work_item_is_installed_before_the_timer_is_activated, VIMPL(when != T_FOREVER && H_delta != 0, H_at_activation.handler == &H_dc && H_dc.dc_func == h_fn && H_dc.dc_ctxt == (void *)&H_ctxt && H_dc.dc_data == (void *)&H_ds))
)
void harness(void)
{
	VERIF_GHOST_RESET(); __verif_crash_is_bug = 1; H_creates = 0;
	H_now[0] = 1; H_now[1] = 1; H_now[2] = ND(uint64_t); __CPROVER_assume(H_now[2] >= 1 && H_now[2] <= T_MAXV - 1);
	H_delta = ND(uint64_t); dispatch_time_t when = ND(dispatch_time_t); __CPROVER_assume(when == T_FOREVER || T_VALUE(when) <= T_MAXV); __CPROVER_assume(H_delta == 0 || (when != 0 && when != T_MONONOW));
	H_dt.du_timer_flags = DISPATCH_TIMER_AFTER; H_dt.ds_handler[DS_EVENT_HANDLER] = 0;
#ifdef H_BLOCK_VARIANT
	H_blk_object = ND_BOOL(); H_blk_cancelled = ND_BOOL(); H_blk.invoke = H_blk_object ? (void (*)(void *, ...))_dispatch_block_special_invoke : (void (*)(void *, ...))h_fn;
	H_dbpd.dbpd_magic = DISPATCH_BLOCK_PRIVATE_DATA_MAGIC; H_dbpd.dbpd_atomic_flags = H_blk_cancelled ? DBF_CANCELED : 0;
#endif
	_dispatch_after(when, &H_q, H_CTXT_ARG, H_HANDLER, H_IS_BLOCK);
	VERIF_POST_VOID(_dispatch_after, when, &H_q, H_CTXT_ARG, H_HANDLER, H_IS_BLOCK);
#ifdef H_BLOCK_VARIANT
	VERIF_REACH(cancelled_block_object_scheduled, H_blk_object && H_blk_cancelled && H_creates == 1);
#endif
	VERIF_REACH(timer_with_clamped_leeway, H_creates == 1 && H_at_activation.deadline == H_at_activation.target + 60 * NSEC_PER_SEC);
	VERIF_CANARY();
}
#endif
