#!/bin/sh
# offline setup: nothing to build (python3 + cbmc/goto-cc/goto-instrument + clang are pre-installed).
# Verifies the tools and refreshes the fallback copy of the generated configuration header.
cd "$(dirname "$0")" || exit 1
for t in cbmc goto-cc goto-instrument python3; do command -v $t >/dev/null || { echo "missing $t"; exit 1; }; done
command -v clang-16 >/dev/null || command -v clang >/dev/null || { echo "missing clang"; exit 1; }
mkdir -p .work evidence
if [ -f /repo/_build/config/config_ac.h ]; then :; else echo "note: /repo/_build/config/config_ac.h absent, using model/config_fallback"; fi
exit 0
