
#include <dispatch/dispatch.h>
#include <stdio.h>
#include <string.h>
#include <stdlib.h>
#define __DISPATCH_INDIRECT__ 1
#include "data_private.h"
static size_t cut3 = (size_t)-1;
static dispatch_data_t frag(const uint8_t *b, size_t n, size_t cut1, size_t cut2) {
  dispatch_data_t d = dispatch_data_empty; size_t cuts[5] = {0, cut1, cut2, cut3 == (size_t)-1 ? n : cut3, n};
  for (int k = 0; k < 4; k++) { size_t a = cuts[k], e = cuts[k+1]; if (e > n) e = n; if (a >= e) continue;
    dispatch_data_t p = dispatch_data_create(b + a, e - a, NULL, DISPATCH_DATA_DESTRUCTOR_DEFAULT);
    dispatch_data_t c = dispatch_data_create_concat(d, p); d = c; }
  return d; }
static int same(dispatch_data_t d, const uint8_t *b, size_t n) { if (!d) return 0; const void *p; size_t sz; dispatch_data_t m = dispatch_data_create_map(d, &p, &sz); int r = (sz == n && (n == 0 || memcmp(p, b, n) == 0)); (void)m; return r; }
int main(void) {
  int fails = 0;
  const uint8_t x[] = "hello world!";
  /* 1. base32hex round trip */
  dispatch_data_t in = dispatch_data_create(x, 12, NULL, DISPATCH_DATA_DESTRUCTOR_DEFAULT);
  dispatch_data_t e = dispatch_data_create_with_transform(in, DISPATCH_DATA_FORMAT_TYPE_NONE, DISPATCH_DATA_FORMAT_TYPE_BASE32HEX);
  dispatch_data_t d = e ? dispatch_data_create_with_transform(e, DISPATCH_DATA_FORMAT_TYPE_BASE32HEX, DISPATCH_DATA_FORMAT_TYPE_NONE) : NULL;
  if (!same(d, x, 12)) { printf("FAIL base32hex round trip\n"); fails++; }
  /* 2. base64 decode with padding split across regions */
  const uint8_t b64[] = "QQ==\n"; for (size_t c1 = 1; c1 < 5; c1++) { dispatch_data_t f = frag(b64, 5, c1, 5);
    dispatch_data_t r = dispatch_data_create_with_transform(f, DISPATCH_DATA_FORMAT_TYPE_BASE64, DISPATCH_DATA_FORMAT_TYPE_NONE);
    if (!same(r, (const uint8_t *)"A", 1)) { printf("FAIL base64 split at %zu: size=%zu\n", c1, r ? dispatch_data_get_size(r) : (size_t)-7); fails++; } }
  const uint8_t b32[] = "IE======"; for (size_t c1 = 1; c1 < 8; c1++) { dispatch_data_t f = frag(b32, 8, c1, 8);
    dispatch_data_t r = dispatch_data_create_with_transform(f, DISPATCH_DATA_FORMAT_TYPE_BASE32, DISPATCH_DATA_FORMAT_TYPE_NONE);
    if (!same(r, (const uint8_t *)"A", 1)) { printf("FAIL base32 split at %zu: size=%zu\n", c1, r ? dispatch_data_get_size(r) : (size_t)-7); fails++; } }
  cut3 = (size_t)-1;
  /* 3. utf8 -> utf16 -> utf8 with every 2-cut fragmentation of "a😀😀b" */
  const uint8_t u8[] = { 'a', 0xF0,0x9F,0x98,0x80, 0xF0,0x9F,0x98,0x80, 'b' }; size_t n8 = sizeof(u8);
  for (size_t c1 = 0; c1 <= n8; c1++) for (size_t c2 = c1; c2 <= n8; c2++) for (cut3 = c2; cut3 <= n8; cut3++) { dispatch_data_t f = frag(u8, n8, c1, c2);
    dispatch_data_t u16 = dispatch_data_create_with_transform(f, DISPATCH_DATA_FORMAT_TYPE_UTF8, DISPATCH_DATA_FORMAT_TYPE_UTF16LE);
    dispatch_data_t back = u16 ? dispatch_data_create_with_transform(u16, DISPATCH_DATA_FORMAT_TYPE_UTF16LE, DISPATCH_DATA_FORMAT_TYPE_UTF8) : NULL;
    if (!same(back, u8, n8)) { printf("FAIL utf8->utf16->utf8 cuts %zu,%zu\n", c1, c2); fails++; } }
  /* 4. utf16le -> utf8 with every 2-cut fragmentation */
  const uint8_t u16b[] = { 'a',0, 0x3D,0xD8,0x00,0xDE, 'b',0, 0x3D,0xD8,0x00,0xDE }; size_t n16 = sizeof(u16b);
  const uint8_t exp8[] = { 'a', 0xF0,0x9F,0x98,0x80, 'b', 0xF0,0x9F,0x98,0x80 };
  for (size_t c1 = 0; c1 <= n16; c1++) for (size_t c2 = c1; c2 <= n16; c2++) for (cut3 = c2; cut3 <= n16; cut3++) { dispatch_data_t f = frag(u16b, n16, c1, c2);
    dispatch_data_t r = dispatch_data_create_with_transform(f, DISPATCH_DATA_FORMAT_TYPE_UTF16LE, DISPATCH_DATA_FORMAT_TYPE_UTF8);
    if (!same(r, exp8, sizeof(exp8))) { printf("FAIL utf16->utf8 cuts %zu,%zu\n", c1, c2); fails++; } }
  printf(fails ? "FAILS=%d\n" : "ALL OK %d\n", fails); return fails != 0; }
