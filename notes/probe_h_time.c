#include <stdint.h>
typedef uint64_t dispatch_time_t;
dispatch_time_t dispatch_time(dispatch_time_t inval, int64_t delta);
uint64_t nondet_u64(void); int64_t nondet_i64(void);
void harness(void){
  dispatch_time_t w=nondet_u64(); int64_t d1=nondet_i64(), d2=nondet_i64();
  __CPROVER_assume((int64_t)w>0 && w < (1ull<<62)); /* uptime */
  __CPROVER_assume(d1<=d2);
  dispatch_time_t r1=dispatch_time(w,d1), r2=dispatch_time(w,d2);
  __CPROVER_assert(r1<=r2,"monotone uptime");
  __CPROVER_assert(r1==~0ull || (r1>>62)==0,"clock preserved");
}
