extern int __VERIF_HARNESS_BEGIN;
_Bool __verif_interference;
void __verif_commit(const volatile void *p, unsigned long long ov, unsigned long long nv){ }
void __verif_rely(const volatile void *p, unsigned long long *v){ }
#define NREG 2
#define RSZ 4
static unsigned char rbuf[NREG][RSZ]; static size_t rlen[NREG]; static size_t nreg;
size_t __verif_region_count(dispatch_data_t d){ return nreg; }
void __verif_region_get(dispatch_data_t d, size_t k, dispatch_data_t *region, size_t *offset, const void **buffer, size_t *size){
  *region=d; size_t off=0; for(size_t j=0;j<k;j++) off+=rlen[j]; *offset=off; *buffer=rbuf[k]; *size=rlen[k]; }
/* contracts of the data API, as stubs */
static size_t g_created_size, g_created_cap; static unsigned g_ncreate;
dispatch_data_t dispatch_data_create(const void *buffer, size_t size, dispatch_queue_t q, dispatch_block_t destructor){
  __CPROVER_assert(size==0 || __CPROVER_r_ok(buffer,size),"dispatch_data_create: buffer valid for size bytes");
  g_ncreate++; return (dispatch_data_t)&_dispatch_data_empty; }
dispatch_data_t dispatch_data_create_concat(dispatch_data_t a, dispatch_data_t b){ return a; }
void dispatch_release(dispatch_object_t o){}
void harness(void){
  size_t nd_n; nreg=nd_n; __CPROVER_assume(nreg>=1 && nreg<=NREG);
  for(int k=0;k<NREG;k++){ size_t nd_l; rlen[k]=nd_l; __CPROVER_assume(rlen[k]>=1 && rlen[k]<=RSZ); for(int j=0;j<RSZ;j++){ unsigned char c; rbuf[k][j]=c; } }
  dispatch_data_t r=_dispatch_transform_from_base64((dispatch_data_t)&_dispatch_data_empty);
}
