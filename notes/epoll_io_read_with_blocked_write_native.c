/* C14: a dispatch I/O read on a socket whose write direction is blocked never sees the bytes that arrive */
#include <dispatch/dispatch.h>
#include <sys/socket.h>
#include <stdio.h>
#include <string.h>
#include <unistd.h>
#include <fcntl.h>
#include <stdatomic.h>
static atomic_int rd_done; static atomic_ulong rd_bytes;
int main(void) {
	int sv[2]; socketpair(AF_UNIX, SOCK_STREAM, 0, sv);
	fcntl(sv[0], F_SETFL, fcntl(sv[0], F_GETFL) | O_NONBLOCK);
	static char buf[4096]; while (write(sv[0], buf, sizeof buf) > 0) ;      /* send buffer full: sv[0] not writable */
	dispatch_queue_t q = dispatch_queue_create("q", NULL);
	dispatch_io_t ch = dispatch_io_create(DISPATCH_IO_STREAM, sv[0], q, ^(int e){ (void)e; });
	dispatch_data_t d = dispatch_data_create("hello", 5, NULL, DISPATCH_DATA_DESTRUCTOR_DEFAULT);
	dispatch_io_write(ch, 0, d, q, ^(bool done, dispatch_data_t rest, int err){ (void)done; (void)rest; (void)err; });   /* parks on EAGAIN */
	usleep(200000);
	dispatch_io_read(ch, 0, 3, q, ^(bool done, dispatch_data_t data, int err){ (void)err; if (data) atomic_fetch_add(&rd_bytes, dispatch_data_get_size(data)); if (done) atomic_store(&rd_done, 1); });
	usleep(200000);
	write(sv[1], "abc", 3);                                               /* the three requested bytes arrive */
	for (int i = 0; i < 30 && !atomic_load(&rd_done); i++) usleep(100000);
	printf("read of 3 bytes: done=%d bytes=%lu (expected done=1 bytes=3)\n", atomic_load(&rd_done), atomic_load(&rd_bytes));
	return atomic_load(&rd_done) == 1 && atomic_load(&rd_bytes) == 3 ? 0 : 1;
}
