_Bool __verif_interference;
unsigned long long __verif_n, __verif_ov[4], __verif_nv[4]; const volatile void *__verif_p[4];
void __verif_commit(const volatile void *p, unsigned long long ov, unsigned long long nv){
  if(__verif_n<4){__verif_p[__verif_n]=p;__verif_ov[__verif_n]=ov;__verif_nv[__verif_n]=nv;} __verif_n++; }
void __verif_rely(const volatile void *p, unsigned long long *v){ }
#define OV0 __verif_ov[0]
#define NV0 __verif_nv[0]
static inline _Bool _dispatch_queue_drain_try_unlock(dispatch_queue_t dq, uint64_t owned, _Bool done)
__CPROVER_requires(__CPROVER_is_fresh(dq, sizeof(*dq)))
__CPROVER_requires(__verif_n == 0)
__CPROVER_assigns(dq->dq_state, __verif_n, __CPROVER_object_whole(__verif_ov), __CPROVER_object_whole(__verif_nv), __CPROVER_object_whole(__verif_p))
__CPROVER_ensures(__verif_n == 1 && __verif_p[0] == &dq->dq_state)
/* failing keeps everything but DIRTY */
__CPROVER_ensures(!__CPROVER_return_value ==> (NV0 == (OV0 ^ DISPATCH_QUEUE_DIRTY)))
/* success only if no un-acknowledged DIRTY (or suspended) */
__CPROVER_ensures(__CPROVER_return_value ==> (OV0 >= DISPATCH_QUEUE_NEEDS_ACTIVATION || !(OV0 & DISPATCH_QUEUE_DIRTY)))
/* success releases the lock owner bits and returns exactly `owned` */
__CPROVER_ensures(__CPROVER_return_value ==> ((NV0 & DISPATCH_QUEUE_DRAIN_UNLOCK_MASK) == 0))
__CPROVER_ensures(__CPROVER_return_value ==> ((NV0 | DISPATCH_QUEUE_DRAIN_UNLOCK_MASK | DISPATCH_QUEUE_MAX_QOS_MASK | DISPATCH_QUEUE_DIRTY) == ((OV0 - owned) | DISPATCH_QUEUE_DRAIN_UNLOCK_MASK | DISPATCH_QUEUE_MAX_QOS_MASK | DISPATCH_QUEUE_DIRTY)))
/* not done => DIRTY left set so the next locker re-examines the list */
__CPROVER_ensures((__CPROVER_return_value && !done && OV0 < DISPATCH_QUEUE_NEEDS_ACTIVATION) ==> (NV0 & DISPATCH_QUEUE_DIRTY))
;
void harness(void){
  dispatch_queue_t dq; uint64_t owned; _Bool done;
  __verif_interference = 1;
  _dispatch_queue_drain_try_unlock(dq, owned, done);
}
