#include <dispatch/dispatch.h>
#include <stdio.h>
#include <string.h>
#define __DISPATCH_INDIRECT__ 1
#include "/repo/private/data_private.h"
static void t(const char *p1,const char *p2,dispatch_data_format_type_t ty,const char *nm){
  dispatch_data_t a=dispatch_data_create(p1,strlen(p1),NULL,DISPATCH_DATA_DESTRUCTOR_DEFAULT);
  dispatch_data_t b=dispatch_data_create(p2,strlen(p2),NULL,DISPATCH_DATA_DESTRUCTOR_DEFAULT);
  dispatch_data_t c=dispatch_data_create_concat(a,b);
  dispatch_data_t r=dispatch_data_create_with_transform(c, ty, DISPATCH_DATA_FORMAT_TYPE_NONE);
  printf("%s [\"%s\" | \"%s\"] -> ", nm,p1,p2);
  if(!r) printf("NULL\n"); else printf("size 0x%zx\n", dispatch_data_get_size(r));
}
int main(void){
  t("QQ=","=",DISPATCH_DATA_FORMAT_TYPE_BASE64,"base64");
  t("QUI","=",DISPATCH_DATA_FORMAT_TYPE_BASE64,"base64");
  t("QQ==","",DISPATCH_DATA_FORMAT_TYPE_BASE64,"base64");
  t("IE===","===",DISPATCH_DATA_FORMAT_TYPE_BASE32,"base32");
  t("IE======"," ",DISPATCH_DATA_FORMAT_TYPE_BASE32,"base32");
  return 0;
}
