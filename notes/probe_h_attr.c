extern int __VERIF_HARNESS_BEGIN;
_Bool __verif_interference;
void __verif_commit(const volatile void *p, unsigned long long ov, unsigned long long nv){ }
void __verif_rely(const volatile void *p, unsigned long long *v){ }
void harness(void){
  size_t idx; __CPROVER_assume(idx < DISPATCH_QUEUE_ATTR_COUNT);
  dispatch_queue_attr_info_t i = _dispatch_queue_attr_to_info((dispatch_queue_attr_t)&_dispatch_queue_attrs[idx]);
  dispatch_queue_attr_t a = _dispatch_queue_attr_from_info(i);
  __CPROVER_assert(a == &_dispatch_queue_attrs[idx], "from_info(to_info(a)) == a");
  dispatch_queue_attr_t b = dispatch_queue_attr_make_initially_inactive((dispatch_queue_attr_t)&_dispatch_queue_attrs[idx]);
  dispatch_queue_attr_info_t j = _dispatch_queue_attr_to_info(b);
  __CPROVER_assert(j.dqai_inactive && j.dqai_qos==i.dqai_qos && j.dqai_relpri==i.dqai_relpri && j.dqai_concurrent==i.dqai_concurrent && j.dqai_overcommit==i.dqai_overcommit && j.dqai_autorelease_frequency==i.dqai_autorelease_frequency, "inactive sets only its field");
}
