#include <dispatch/dispatch.h>
#include <stdio.h>
#include <string.h>
#define __DISPATCH_INDIRECT__ 1
#include "/repo/private/data_private.h"
int main(void){
  dispatch_data_t a=dispatch_data_create("QQ==",4,NULL,DISPATCH_DATA_DESTRUCTOR_DEFAULT);
  dispatch_data_t b=dispatch_data_create("\n",1,NULL,DISPATCH_DATA_DESTRUCTOR_DEFAULT);
  dispatch_data_t c=dispatch_data_create_concat(a,b);
  dispatch_data_t r=dispatch_data_create_with_transform(c, DISPATCH_DATA_FORMAT_TYPE_BASE64, DISPATCH_DATA_FORMAT_TYPE_NONE);
  if(!r){printf("NULL\n");return 0;}
  printf("decoded size = %zu (0x%zx)\n", dispatch_data_get_size(r), dispatch_data_get_size(r));
  /* single region for comparison */
  dispatch_data_t s=dispatch_data_create("QQ==\n",5,NULL,DISPATCH_DATA_DESTRUCTOR_DEFAULT);
  dispatch_data_t r2=dispatch_data_create_with_transform(s, DISPATCH_DATA_FORMAT_TYPE_BASE64, DISPATCH_DATA_FORMAT_TYPE_NONE);
  printf("single region decoded size = %zu\n", r2?dispatch_data_get_size(r2):(size_t)-1);
  return 0;
}
