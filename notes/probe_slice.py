#!/usr/bin/env python3
"""probe slicer: keep bodies only for functions in closure of roots; others -> prototypes.
usage: slice.py in.i out.c root1,root2,... """
import re,sys
src=open(sys.argv[1]).read()
roots=set(sys.argv[3].split(',')) if len(sys.argv)>3 and sys.argv[3] else set()
stops=set(sys.argv[4].split(',')) if len(sys.argv)>4 else set()
# tokenise minimal: strings, chars, comments removed by -P? (comments gone after -E)
tok_re=re.compile(r'"(?:\\.|[^"\\])*"|\'(?:\\.|[^\'\\])*\'|[A-Za-z_]\w*|\d[\w.]*|\S',re.S)
toks=[(m.group(0),m.start(),m.end()) for m in tok_re.finditer(src)]
# find top-level function definitions
funcs=[] # (name, decl_start_idx, body_start_idx, body_end_idx)
depth=0;i=0;n=len(toks)
stmt_start=0
pdepth=0
while i<n:
    t=toks[i][0]
    if depth==0 and pdepth==0 and t==';':
        stmt_start=i+1
    if t=='(' : pdepth+=1
    elif t==')': pdepth-=1
    elif t=='{':
        if depth==0 and pdepth==0:
            prev=toks[i-1][0]
            isfunc = prev==')'
            # find matching brace
            d=0;j=i
            while j<n:
                if toks[j][0]=='{': d+=1
                elif toks[j][0]=='}':
                    d-=1
                    if d==0: break
                j+=1
            if isfunc:
                # name: identifier before the '(' matching the last ')' ... walk back
                k=i-1;pd=0
                # skip trailing attribute groups: find the paren group whose preceding ident is not __attribute__
                while True:
                    # k at ')'
                    pd=0
                    while k>=0:
                        if toks[k][0]==')': pd+=1
                        elif toks[k][0]=='(':
                            pd-=1
                            if pd==0: break
                        k-=1
                    name=toks[k-1][0]
                    if name in('__attribute__','__attribute','__asm__','asm','__asm'):
                        k-=2
                        continue
                    break
                funcs.append((name,stmt_start,i,j))
                i=j
                stmt_start=j+1
            else:
                i=j  # skip struct/init body
                # statement continues until ';'
        else:
            depth+=1
    elif t=='}':
        depth-=1
    i+=1
mk=src.find('__VERIF_HARNESS_BEGIN')
if mk<0: mk=len(src)
hfuncs=[f for f in funcs if toks[f[1]][1]>mk]
funcs_lib=[f for f in funcs if toks[f[1]][1]<=mk]
hnames=set(f[0] for f in hfuncs)
byname={}
for f in funcs_lib:
    if f[0] in hnames: continue  # overridden by harness stub
    byname.setdefault(f[0],[]).append(f)
for f in hfuncs: byname.setdefault(f[0],[]).append(f); roots.add(f[0])
# call graph
def body_idents(f):
    return set(t[0] for t in toks[f[2]:f[3]+1] if re.match(r'[A-Za-z_]\w*$',t[0]))
keep=set();work=list(roots)
while work:
    r=work.pop()
    if r in keep or r not in byname or r in stops: continue
    keep.add(r)
    for f in byname[r]:
        for idn in body_idents(f):
            if idn in byname and idn not in keep: work.append(idn)
out=[];pos=0
for f in funcs:
    name,ds,bs,be=f
    if name in keep and not (name in hnames and toks[ds][1]<=mk): continue
    # replace body by ';'
    out.append(src[pos:toks[bs][1]]); out.append(';')
    pos=toks[be][2]
out.append(src[pos:])
res=''.join(out)
open(sys.argv[2],'w').write(res)
sys.stderr.write("funcs=%d kept=%d: %s\n"%(len(funcs),len(keep),' '.join(sorted(keep))[:2000]))
